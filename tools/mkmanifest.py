#!/usr/bin/env python3
"""Regenerates /verif/MANIFEST.json from tools/checks.json (one record per claimed property)
and properties.jsonl (every property not claimed goes to not_applicable with its reason from
tools/not_applicable.json, or 'check not built yet')."""
import json, os, sys, subprocess
V = '/verif'
checks = json.load(open(f'{V}/tools/checks.json'))
na_reasons = json.load(open(f'{V}/tools/not_applicable.json'))
props = [json.loads(l)['id'] for l in open(f'{V}/properties.jsonl')]
hook_commits = subprocess.run(['git', '-C', '/repo', 'log', '--format=%H', '--grep=^verif hooks'], capture_output=True, text=True).stdout.split()
m = {
 "version": 1,
 "setup_cmd": "./setup.sh",
 "hooks": {
  "guard": "verif",
  "enable": "go build -tags verif (the ./check driver builds harness/cmd/gmverif with replace github.com/cosmos72/gomacro => /repo)",
  "baseline_off_cmd": "cd /repo && GOFLAGS=-mod=mod GOPROXY=off GOSUMDB=off GOTOOLCHAIN=local go test -json -vet=off -count=1 -timeout 25m ./...",
  "source_commits": hook_commits,
  "add_only": True,
 },
 "engines": [
  {"name": "E1 difftrace", "path": "harness/cmd/gmverif (e1*.go, c01..c09 etc.)", "kind_free_text": "generated Go programs run by the interpreter and as compiled Go, event traces compared", "serves_properties": []},
  {"name": "E2 inject", "path": "harness/cmd/gmverif", "kind_free_text": "compiled hook injects panics / interrupts / debugger scripts at the k-th call", "serves_properties": []},
  {"name": "E3 race", "path": "harness/cmd/gmverif (race build bin/gmverif-race)", "kind_free_text": "Go race detector + frame ownership assertion hook + seeded yields + porcupine history check", "serves_properties": []},
  {"name": "E4 refmon", "path": "harness/cmd/gmverif", "kind_free_text": "library entry points monitored against the Go standard library or a small executable model", "serves_properties": []},
 ],
 "checks": [],
 "notes": "Every check is ./check <id> <tier>; exit 0 held, 1 violation, 2 build/harness problem, 3 inconclusive. Technique family: runtime monitoring and sanitizers. See DESIGN.md.",
 "not_applicable": [],
}
eng = {e['name'].split()[0]: e for e in m['engines']}
for pid in props:
    c = checks.get(pid)
    if not c:
        m['not_applicable'].append({"property_id": pid, "reason": na_reasons.get(pid, "check not built yet in this round (designed in DESIGN.md section 2)")})
        continue
    eng[c['engine']]['serves_properties'].append(pid)
    m['checks'].append({
        "property_id": pid,
        "quick_cmd": f"./check {pid} quick",
        "thorough_cmd": f"./check {pid} thorough",
        "evidence_file": f"/verif/evidence/{pid}.json",
        "replay_cmd_template": f"./check {pid} quick --replay {{path}}",
        "engine": eng[c['engine']]['name'],
        "level_claimed": {"category": c.get('level', 'exploration'), "text": c['text'], "design_ref": f"DESIGN.md section 2, {pid}"},
        "level_note": c['note'],
        "technique": c['technique'],
    })
json.dump(m, open(f'{V}/MANIFEST.json', 'w'), indent=1)
print(len(m['checks']), 'checks,', len(m['not_applicable']), 'not applicable')
