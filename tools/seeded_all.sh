#!/bin/bash
# usage: tools/seeded_all.sh id...   (sequential: confirm baseline, then run the property's own check)
cd /verif
for id in "$@"; do
  echo "#### $id $(date +%H:%M:%S)"
  tools/seeded_confirm.sh $id 2>&1 | tail -2 | cut -c1-200
  tools/seeded_run.sh $id 2>&1 | tail -3 | cut -c1-300
done
