#!/usr/bin/env python3
"""Regenerate the fix table (§8.2) and the findings table (§8.3) of DESIGN.md from known_findings.json."""
import json, collections, re
d = json.load(open('/verif/known_findings.json'))
fx = [e for e in d if e['kind'] == 'fixed']; fi = [e for e in d if e['kind'] == 'finding']
esc = lambda s: s.replace('|', '\\|').replace('\n', ' ')
by = collections.defaultdict(list)
for e in fx: by[e['property']].append(e)
fixed = ["| property | commit | what failed (reproducer in known_findings.json) |", "|---|---|---|"]
for p in sorted(by):
    for e in by[p]:
        fixed.append("| %s | `%s` | %s |" % (p, e['commit'], esc(e['what'][:260])))
find = ["| property | id | what fails, and why it is recorded rather than repaired |", "|---|---|---|"]
for e in fi:
    find.append("| %s | `%s` | %s |" % (e['property'], e['id'], esc(e['what'][:700])))
p = '/verif/DESIGN.md'
s = open(p).read()
def replace_table(s, header_prefix, new):
    i = s.index(header_prefix)
    j = i
    lines = s[i:].split('\n')
    n = 0
    for ln in lines:
        if ln.startswith('|'): n += 1
        else: break
    end = i + len('\n'.join(lines[:n]))
    return s[:i] + '\n'.join(new) + s[end:]
s = replace_table(s, "| property | commit | what failed", fixed)
s = replace_table(s, "| property | id | what fails, and why", find)
commits = len(set(e['commit'] for e in fx))
s = re.sub(r"### 8\.2 Genuine defects repaired \(\d+ entries, \d+ `fix:` commits\)", "### 8.2 Genuine defects repaired (%d entries, %d `fix:` commits)" % (len(fx), commits), s)
open(p, 'w').write(s)
print(len(fx), 'fixed entries,', commits, 'commits,', len(fi), 'findings')
