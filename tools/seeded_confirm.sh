#!/bin/bash
# usage: tools/seeded_confirm.sh <id>: apply the seeded patch, build, run the pinned suite (hooks off), restore.
set -u
d=/verif/seeded/$1
if [ -n "$(git -C /repo status --porcelain --untracked-files=no)" ]; then echo "/repo is not clean"; exit 2; fi
git -C /repo apply "$d/patch.diff" || { echo "patch does not apply"; exit 2; }
trap 'git -C /repo checkout -- . ' EXIT
export GOFLAGS=-mod=mod GOPROXY=off GOSUMDB=off GOTOOLCHAIN=local
(cd /repo && go build ./... ) || { echo "BUILD FAILS" | tee "$d/confirm.txt"; exit 1; }
python3 /verif/tools/baseline.py | head -3 | tee "$d/confirm.txt"
