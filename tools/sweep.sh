#!/bin/bash
# usage: tools/sweep.sh <seed> <tier> [ids...]  — runs checks sequentially, prints one summary line per check
seed=$1; tier=$2; shift 2
ids="$@"
[ -z "$ids" ] && ids=$(python3 -c "import json; print(' '.join(c['property_id'] for c in json.load(open('/verif/MANIFEST.json'))['checks']))")
cd /verif
for id in $ids; do
  t0=$(date +%s)
  out=$(VERIF_SEED=$seed ./check $id $tier 2>&1); rc=$?
  t1=$(date +%s)
  echo "== $id seed=$seed tier=$tier rc=$rc wall=$((t1-t0))s $(echo "$out" | grep -E "^$id (quick|thorough) seed" | cut -c1-200)"
  echo "$out" | grep -E "^VIOLATION|^INCONCLUSIVE|^  what" | head -8 | cut -c1-400
done
