#!/bin/bash
# usage: tools/seeded_run.sh <seeded-dir> [check ids...]
# Applies seeded/<dir>/patch.diff to /repo, runs the given checks (default: the property in meta.json) at the quick
# tier, stores the outcome in seeded/<dir>/result.txt and always restores /repo.
set -u
d=/verif/seeded/$1; shift
[ -f "$d/patch.diff" ] || { echo "no patch in $d"; exit 2; }
if [ -n "$(git -C /repo status --porcelain --untracked-files=no)" ]; then echo "/repo is not clean"; exit 2; fi
ids="$@"
[ -z "$ids" ] && ids=$(python3 -c "import json,sys; print(json.load(open('$d/meta.json'))['property'])")
git -C /repo apply "$d/patch.diff" || { echo "patch does not apply"; exit 2; }
trap 'git -C /repo checkout -- . ' EXIT
: > "$d/result.txt"
for id in $ids; do
  out=$(cd /verif && VERIF_SEED=${VERIF_SEED:-1} ./check $id ${TIER:-quick} 2>&1); rc=$?
  nviol=$(echo "$out" | grep -c "^VIOLATION")
  echo "check=$id tier=${TIER:-quick} seed=${VERIF_SEED:-1} exit=$rc violations_printed=$nviol" | tee -a "$d/result.txt"
  echo "$out" | grep -E "^VIOLATION|^  what|^INCONCLUSIVE" | head -6 | cut -c1-500 >> "$d/result.txt"
done
