#!/usr/bin/env python3
"""Run the pinned test suite of /repo (hooks off) and compare with BASELINE.json's stable_pass list."""
import json, os, subprocess, sys
env = dict(os.environ, GOFLAGS="-mod=mod", GOPROXY="off", GOSUMDB="off", GOTOOLCHAIN="local")
base = json.load(open("/root/.vp/BASELINE.json"))
want = set(base["stable_pass"])
p = subprocess.run(["go", "test", "-json", "-vet=off", "-count=1", "-timeout", "25m", "./..."], cwd="/repo", env=env, capture_output=True, text=True)
status = {}
for line in p.stdout.splitlines():
    try:
        e = json.loads(line)
    except Exception:
        continue
    if e.get("Test") and e.get("Action") in ("pass", "fail", "skip"):
        status[e["Package"] + "::" + e["Test"]] = e["Action"]
passed = {k for k, v in status.items() if v == "pass"}
missing = sorted(want - passed)
print(f"stable_pass={len(want)} passed_now={len(passed)} missing={len(missing)} failed={sorted(k for k,v in status.items() if v=='fail')[:20]}")
for m in missing[:40]:
    print("  MISSING", m, status.get(m))
sys.exit(1 if missing else 0)
