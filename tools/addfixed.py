#!/usr/bin/env python3
"""usage: addfixed.py PROP ID 'commit subject prefix' 'what failed' 'reproducer'"""
import json,subprocess,sys
prop,fid,prefix,what,repro=sys.argv[1:6]
log=subprocess.run(['git','-C','/repo','log','--format=%h %s','--grep=^fix:'],capture_output=True,text=True).stdout.strip().split('\n')
commit=None
for l in log:
    h,s=l.split(' ',1)
    if s.startswith(prefix): commit=h
assert commit,prefix
f=json.load(open('/verif/known_findings.json'))
f=[e for e in f if e['id']!=fid]
f.append({"property":prop,"id":fid,"kind":"fixed","commit":commit,"what":what,"reproducer":repro,"record":f"fixed: property={prop} {commit} {what}"})
json.dump(f,open('/verif/known_findings.json','w'),indent=1)
print(fid,commit)
