#!/usr/bin/env python3
"""Print the markdown table of seeded changes and what the checks reported (from seeded/*/meta.json, result.txt)."""
import json, os, re, glob
rows = []
for d in sorted(glob.glob('/verif/seeded/C*')):
    pid = os.path.basename(d)
    try:
        meta = json.load(open(d + '/meta.json'))
    except Exception as e:
        meta = {'summary': '?'}
    res = open(d + '/result.txt').read() if os.path.exists(d + '/result.txt') else ''
    outcomes = []
    for m in re.finditer(r'check=(\S+) tier=(\S+) seed=(\S+) exit=(\d+) violations_printed=(\d+)', res):
        chk, tier, seed, rc, nv = m.groups()
        verdict = {'0': 'silent', '1': 'VIOLATION', '3': 'inconclusive'}.get(rc, 'exit ' + rc)
        outcomes.append(f"{chk} {tier}: {verdict}")
    conf = open(d + '/confirm.txt').read() if os.path.exists(d + '/confirm.txt') else ''
    suite = 'suite 947/947' if 'missing=0' in conf else ('suite ?' if not conf else 'SUITE DIFFERS')
    files = ', '.join(meta.get('files', []))[:60]
    summ = str(meta.get('summary', '')).replace('|', '\\|').replace('\n', ' ')[:230]
    rows.append(f"| {pid} | `{files}` | {summ} | {suite} | {'; '.join(outcomes) or 'not run'} |")
print("| seeded | file | change | pinned suite | checks |")
print("|---|---|---|---|---|")
print('\n'.join(rows))
