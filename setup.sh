#!/bin/bash
# builds the harness (plain and race) against /repo, offline, warming the Go build cache
set -e
cd /verif
export GOFLAGS=-mod=mod GOPROXY=off GOSUMDB=off GOTOOLCHAIN=local CGO_ENABLED=1
mkdir -p bin evidence replays work
cd harness
go build -tags verif -o ../bin/gmverif ./cmd/gmverif
go build -tags verif -race -o ../bin/gmverif-race ./cmd/gmverif
echo setup ok
