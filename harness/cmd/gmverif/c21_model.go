package main

// C21 — executable reference model of ~quote / ~quasiquote.
//
// quote:      value(~quote{X})      = collapse(stmts(X))
// quasiquote: value(~quasiquote{X}) = stmts(X) with, at quasiquote depth d (1 just inside the form,
//             +1 per nested ~quasiquote, -1 per ~unquote/~unquote_splice, unchanged by ~quote):
//   - ~unquote{E} at d == 1 replaced by value(E)
//   - ~unquote_splice{E} at d == 1, element of a list, replaced by the elements of the block value(E)
//   - a list element that is a chain U1{U2{...Un{E}}} of n == d unquote/unquote_splice forms (each the
//     only statement of the previous one's body) evaluates E ("the innermost unquote pairs with the
//     outermost quasiquote"); when Un is ~unquote_splice the n-1 outer forms are duplicated around
//     each element of value(E)  (~"~"{~,~,@ab} -> ~"{~,a; ~,b}), as documented in base/quasiquote.go
//   - everything else is copied
// collapse(list): no statement -> EmptyStmt, one statement -> that statement, else a BlockStmt.
// A quasiquote whose template has >= 2 statements always yields a BlockStmt.

import (
	"fmt"
	"strings"
)

type c21Model struct {
	vars      map[string]*c21T // trees bound to interpreter variables
	err       string           // non-empty: the form is outside the modelled domain (never a verdict)
	evaluated int              // unquotes evaluated
	spliced   int              // unquote_splice evaluated
	maxDepth  int
	// emptied: a non-empty list held in a bare Go slice ([]ast.Expr call arguments, case lists,
	// clause bodies, composite elements, assignment sides...) became empty because every element
	// was an ~unquote_splice of an empty block
	emptied []string
	// quotedDecl: the model rebuilt a nested quote-family form whose body is exactly one declaration
	quotedDecl bool
	cover      func(table, cell string)
}

func (m *c21Model) fail(format string, args ...interface{}) {
	if m.err == "" {
		m.err = fmt.Sprintf(format, args...)
	}
}

func (m *c21Model) cov(table, cell string) {
	if m.cover != nil {
		m.cover(table, cell)
	}
}

func c21Collapse(list *c21T) *c21T {
	switch len(list.C) {
	case 0:
		return &c21T{K: "EmptyStmt"}
	case 1:
		return list.C[0]
	}
	return c21MkBlock(list)
}

// quoteValue is the model of ~quote{X} for the parsed form t.
func (m *c21Model) quoteValue(t *c21T) *c21T {
	return c21Collapse(t.C[0].clone())
}

// qqValue is the model of ~quasiquote{X} for the parsed form t.
func (m *c21Model) qqValue(t *c21T) *c21T {
	body := t.C[0]
	if len(body.C) == 1 && body.C[0] != nil && body.C[0].K == c21Splice {
		m.cov("template_shape", "sole_splice")
	}
	out := m.expandList(body, 1, "~quasiquote.body")
	if len(body.C) >= 2 {
		return c21MkBlock(out)
	}
	return c21Collapse(out)
}

// chain returns the unquote forms U1..Un starting at e where each next one is the only statement of
// the previous body. ambiguous is set when gomacro's DescendNestedUnquotes would see a longer chain
// through a parenthesis or a one-statement block.
func c21Chain(e *c21T) (chain []*c21T, ambiguous bool) {
	for e.isUnquote() {
		chain = append(chain, e)
		body := e.C[0]
		if len(body.C) != 1 || body.C[0] == nil {
			break
		}
		next := body.C[0]
		if !next.isUnquote() {
			// look through trivial wrappers
			w := next
			for w != nil {
				if w.K == "ParenExpr" {
					w = w.C[0]
				} else if l := w.blockList(); l != nil && len(l.C) == 1 {
					w = l.C[0]
				} else {
					break
				}
			}
			if w != next && w.isUnquote() {
				ambiguous = true
			}
			break
		}
		e = next
	}
	return chain, ambiguous
}

func (m *c21Model) expandList(l *c21T, depth int, where string) *c21T {
	if depth > m.maxDepth {
		m.maxDepth = depth
	}
	out := c21MkList()
	n := len(l.C)
	for i, e := range l.C {
		if e == nil {
			out.C = append(out.C, nil)
			continue
		}
		if e.isUnquote() {
			chain, amb := c21Chain(e)
			if amb {
				m.fail("ambiguous unquote chain through a parenthesis or one-statement block")
				return out
			}
			k := len(chain)
			if k > depth {
				m.fail("unquote nested deeper (%d) than quasiquote (%d)", k, depth)
				return out
			}
			if k == depth {
				inner := chain[k-1]
				val := m.eval(inner.C[0])
				if m.err != "" {
					return out
				}
				pos := "middle"
				switch {
				case n == 1:
					pos = "only"
				case i == 0:
					pos = "first"
				case i == n-1:
					pos = "last"
				}
				ops := ""
				for _, c := range chain {
					if c.K == c21Unq {
						ops += ","
					} else {
						ops += ",@"
					}
				}
				m.cov("chain_ops_x_depth", fmt.Sprintf("~%s depth=%d", ops, depth))
				if inner.K == c21Unq {
					m.evaluated++
					m.cov("unquote_position", where)
					m.cov("unquote_index_in_list", pos)
					out.C = append(out.C, m.wrap(chain[:k-1], val))
				} else {
					elems := val.blockList()
					if elems == nil {
						m.fail("unquote_splice of a non-block value %s", val.K)
						return out
					}
					m.evaluated++
					m.spliced++
					m.cov("splice_position", where)
					m.cov("splice_index_in_list", pos)
					cnt := fmt.Sprint(len(elems.C))
					if len(elems.C) > 3 {
						cnt = "4+"
					}
					m.cov("splice_length", cnt)
					for _, v := range elems.C {
						out.C = append(out.C, m.wrap(chain[:k-1], v))
					}
				}
				continue
			}
			// k < depth: not evaluated at this level
			m.cov("unevaluated_unquote_depth", fmt.Sprintf("chain=%d depth=%d", k, depth))
		}
		out.C = append(out.C, m.expand(e, depth, where, true))
		if m.err != "" {
			return out
		}
	}
	if len(l.C) != 0 && len(out.C) == 0 && !strings.HasPrefix(where, "~") {
		switch where {
		case "BlockStmt.List", "ReturnStmt.Results", "FieldList.List", "GenDecl.Specs":
			// these lists live inside a node that exists even when empty
		case "AssignStmt.Lhs", "AssignStmt.Rhs":
			// "a, b = <nothing>" is not a Go syntax tree (go/ast's AssignStmt.End() indexes Rhs[len-1])
			m.fail("assignment side spliced to nothing")
		default:
			m.emptied = append(m.emptied, where)
		}
	}
	return out
}

func (m *c21Model) mkQuote(kind string, body *c21T) *c21T {
	if len(body.C) == 1 && body.C[0] != nil && (body.C[0].K == "GenDecl" || body.C[0].K == "FuncDecl") {
		m.quotedDecl = true
	}
	return &c21T{K: kind, C: []*c21T{body}}
}

// wrap rebuilds the outer unquote forms around v.
func (m *c21Model) wrap(outer []*c21T, v *c21T) *c21T {
	for i := len(outer) - 1; i >= 0; i-- {
		body := c21MkList(v)
		if l := v.blockList(); l != nil {
			body = l // OP{{a;b}} == OP{a;b}
		}
		v = m.mkQuote(outer[i].K, body)
	}
	return v
}

// expand handles a node in a non-list slot, or a list element that is not an evaluated unquote chain.
func (m *c21Model) expand(t *c21T, depth int, where string, inList bool) *c21T {
	if t == nil {
		return nil
	}
	switch t.K {
	case c21List:
		return m.expandList(t, depth, where)
	case c21QQ:
		m.cov("nested_form", fmt.Sprintf("quasiquote at depth %d", depth))
		return m.mkQuote(t.K, m.expandList(t.C[0], depth+1, "~quasiquote.body"))
	case c21Quote:
		m.cov("nested_form", fmt.Sprintf("quote at depth %d", depth))
		return m.mkQuote(t.K, m.expandList(t.C[0], depth, "~quote.body"))
	case c21Unq, c21Splice:
		// reached either as a list element with chain < depth, or in a non-list slot
		chain, amb := c21Chain(t)
		if amb {
			m.fail("ambiguous unquote chain through a parenthesis or one-statement block")
			return nil
		}
		if len(chain) > depth {
			m.fail("unquote nested deeper (%d) than quasiquote (%d)", len(chain), depth)
			return nil
		}
		if !inList {
			// Go has no list here: splicing is meaningless (classic rejects it, fast wraps a block)
			if t.K == c21Splice || len(chain) == depth && chain[len(chain)-1].K == c21Splice {
				m.fail("unquote_splice outside a list")
				return nil
			}
			if depth == 1 {
				m.evaluated++
				m.cov("unquote_position", where)
				m.cov("chain_ops_x_depth", "~, depth=1")
				return m.eval(t.C[0])
			}
		}
		return m.mkQuote(t.K, m.expandList(t.C[0], depth-1, "~"+t.K+".body"))
	}
	n := &c21T{K: t.K, A: t.A, S: t.S}
	for i, c := range t.C {
		w := t.K + "." + t.S[i]
		if c != nil && c.K == c21List {
			n.C = append(n.C, m.expandList(c, depth, w))
		} else {
			n.C = append(n.C, m.expand(c, depth, w, false))
		}
		if m.err != "" {
			return n
		}
	}
	return n
}

// eval is the harness's knowledge of what an unquote body evaluates to.
func (m *c21Model) eval(body *c21T) *c21T {
	if len(body.C) != 1 || body.C[0] == nil {
		m.fail("unquote body is not a single expression")
		return nil
	}
	e := body.C[0]
	switch e.K {
	case "Ident":
		name := strings.Trim(strings.TrimPrefix(e.A, "Name="), `"`)
		if v, ok := m.vars[name]; ok {
			m.cov("unquoted_value", "variable")
			return v.clone()
		}
		m.fail("unquote of unknown variable %s", name)
	case "BasicLit":
		if strings.HasPrefix(e.A, "Kind=INT,") || strings.HasPrefix(e.A, "Kind=STRING,") {
			m.cov("unquoted_value", "literal")
			return e.clone()
		}
		m.fail("unquote of unsupported literal %s", e.A)
	case c21Quote:
		m.cov("unquoted_value", "~quote form")
		return m.quoteValue(e)
	case c21QQ:
		m.cov("unquoted_value", "~quasiquote form")
		if b := e.C[0]; len(b.C) == 1 && b.C[0] != nil && b.C[0].K == c21Splice {
			m.fail("nested evaluated quasiquote consisting of a sole unquote_splice (block-vs-statement shape unspecified)")
			return nil
		}
		return m.qqValue(e)
	default:
		m.fail("unquote of unsupported expression %s", e.K)
	}
	return nil
}
