package main

// C15 — a failed evaluation leaves earlier definitions intact; a successful redefinition does not change the
// type or the readability of variables declared with the previous definition.
//
// In-process check: one fast.Interp per history, a small shadow environment (name -> expected type description
// and value rendering) that only successful inputs update; after EVERY input every earlier name is read back
// through Compile+RunExpr and compared with the shadow; the injected hk()/rec() counters must not move while a
// failing input is evaluated ("no code from the failed input runs") and must move by exactly the expected amount
// for valid inputs and read-backs.

import (
	"fmt"
	"math/rand"
	"runtime"
	"sort"
	"strings"
	"sync"

	"github.com/cosmos72/gomacro/fast"
	"github.com/cosmos72/gomacro/go/etoken"
	xr "github.com/cosmos72/gomacro/xreflect"

	"gmverif/internal/fw"
	"gmverif/internal/tr"
)

func init() { register("C15", "exploration", checkC15) }

const (
	c15FindKeep  = "C15-failed-input-keeps-redefinition"
	c15FindCode  = "C15-failed-block-leaves-code"
	c15FindRetyp = "C15-type-redefinition-retypes-old-variables"
)

func c15TypeDesc(t xr.Type) string {
	if t == nil {
		return "<nil>"
	}
	return t.String() + " | " + t.ReflectType().String()
}

// c15Entry is the shadow of one name.
type c15Entry struct {
	Class    string `json:"class"` // var const func type
	Desc     string `json:"desc"`  // expected type description of the read expression
	Val      string `json:"val"`   // expected rendering of the read expression
	Read     string `json:"read"`  // expression that reads the name back
	Hooks    int    `json:"hooks,omitempty"`
	Read2    string `json:"read2,omitempty"` // second read (first field of a struct variable)
	Desc2    string `json:"desc2,omitempty"`
	Val2     string `json:"val2,omitempty"`
	TypeName string `json:"type_name,omitempty"` // program-declared type the entry was declared with
	TypeVer  int    `json:"type_ver,omitempty"`  // ... and which definition of it
	Redecl   string `json:"-"`                   // statement that re-creates the entry ("" if none)
	Lit      string `json:"-"`
	TySrc    string `json:"-"`
}

type c15Eff struct {
	Name  string    `json:"name"`
	Entry *c15Entry `json:"entry"`
	// for type declarations: the new definition number of the type
	NewTypeVer int `json:"new_type_ver,omitempty"`
}

type c15Step struct {
	Src     string   `json:"src"`
	Fails   bool     `json:"fails"`
	Kind    string   `json:"kind"`
	Hooks   int      `json:"hooks,omitempty"`  // hk() calls a valid input makes
	Events  int      `json:"events,omitempty"` // rec() calls a valid input makes
	Effects []c15Eff `json:"effects,omitempty"`
	Uses    []string `json:"uses,omitempty"`     // existing names the input refers to
	Redef   []string `json:"redef,omitempty"`    // existing names re-declared by valid statements of a failing input
	InBlock bool     `json:"in_block,omitempty"` // the failing statement sits inside a compound statement
	NoRead  bool     `json:"no_read,omitempty"`  // no read-back after this input: the next input is evaluated immediately
}

// ---------------------------------------------------------------- generator

type c15TypeDef struct {
	ver    int
	fields []string // kinds of fields A, B, C (struct) ...
	under  string   // ... or underlying basic kind
	text   string
}

type c15Gen struct {
	noTypeRedef bool // this history never re-declares a type
	rng         *rand.Rand
	shadow      map[string]*c15Entry
	tdefs       map[string]*c15TypeDef
	fresh       int
	steps       []c15Step
}

var c15Kinds = []string{"int", "int16", "uint8", "float64", "string", "bool", "complex128"}

// c15Lit returns the source and the canonical rendering of a random value of a basic kind.
func (g *c15Gen) lit(kind string) (src, render string) {
	n := g.rng.Intn(2000) - 1000
	switch kind {
	case "int":
		return fmt.Sprint(n), tr.Render(int(n))
	case "int16":
		return fmt.Sprint(n), tr.Render(int16(n))
	case "uint8":
		n = g.rng.Intn(256)
		return fmt.Sprint(n), tr.Render(uint8(n))
	case "float64":
		f := float64(n) / 4
		return fmt.Sprintf("%v", f) + map[bool]string{true: ".0", false: ""}[f == float64(int(f))], tr.Render(f)
	case "string":
		s := fmt.Sprintf("s%d", g.rng.Intn(1000))
		return fmt.Sprintf("%q", s), tr.Render(s)
	case "bool":
		b := n%2 == 0
		return fmt.Sprint(b), tr.Render(b)
	case "complex128":
		a, b := float64(g.rng.Intn(20)-10), float64(g.rng.Intn(20)+1)
		return fmt.Sprintf("(%v+%vi)", a, b), tr.Render(complex(a, b))
	}
	panic(kind)
}

func (g *c15Gen) zero(kind string) string {
	switch kind {
	case "int":
		return tr.Render(int(0))
	case "int16":
		return tr.Render(int16(0))
	case "uint8":
		return tr.Render(uint8(0))
	case "float64":
		return tr.Render(float64(0))
	case "string":
		return tr.Render("")
	case "bool":
		return tr.Render(false)
	case "complex128":
		return tr.Render(complex(0, 0))
	}
	panic(kind)
}

// c15Ty is a usable type: a basic kind or a program-declared named type (with its current definition).
type c15Ty struct {
	src  string
	name string // named type
	def  *c15TypeDef
}

func (g *c15Gen) randTy(used map[string]bool) c15Ty {
	if len(g.tdefs) > 0 && g.rng.Intn(3) == 0 {
		for _, n := range []string{"T0", "T1", "T2"} {
			if d := g.tdefs[n]; d != nil && !used[n] && g.shadow[n] != nil && g.rng.Intn(2) == 0 {
				return c15Ty{src: n, name: n, def: d}
			}
		}
	}
	return c15Ty{src: c15Kinds[g.rng.Intn(len(c15Kinds))]}
}

func (t c15Ty) desc() string {
	if t.def == nil {
		return t.src + " | " + t.src
	}
	if t.def.under != "" {
		return "main." + t.name + " | " + t.def.under
	}
	var fs []string
	for i, k := range t.def.fields {
		fs = append(fs, fmt.Sprintf("%c %s", 'A'+i, k))
	}
	return "main." + t.name + " | struct { " + strings.Join(fs, "; ") + " }"
}

// value returns source and rendering of a random value of the type, and (for structs) the first field's rendering.
func (g *c15Gen) value(t c15Ty) (src, render, field0 string) {
	if t.def == nil {
		s, r := g.lit(t.src)
		return s, r, ""
	}
	if t.def.under != "" {
		s, r := g.lit(t.def.under)
		return t.name + "(" + s + ")", r, ""
	}
	var ss, rs []string
	for i, k := range t.def.fields {
		s, r := g.lit(k)
		ss = append(ss, fmt.Sprintf("%c: %s", 'A'+i, s))
		rs = append(rs, r)
	}
	return t.name + "{" + strings.Join(ss, ", ") + "}", "struct{" + strings.Join(rs, " ") + "}", rs[0]
}

func (g *c15Gen) zeroOf(t c15Ty) string {
	if t.def == nil {
		return g.zero(t.src)
	}
	if t.def.under != "" {
		return g.zero(t.def.under)
	}
	var rs []string
	for _, k := range t.def.fields {
		rs = append(rs, g.zero(k))
	}
	return "struct{" + strings.Join(rs, " ") + "}"
}

// c15Stmt is one statement of an input with its effect on the shadow.
type c15Stmt struct {
	src    string
	effs   []c15Eff
	hooks  int
	events int
	redef  []string
	kind   string
}

func (g *c15Gen) varEntry(name string, t c15Ty, lit, render, f0 string) *c15Entry {
	e := &c15Entry{Class: "var", Desc: t.desc(), Val: render, Read: name, Lit: lit, TySrc: t.src,
		Redecl: fmt.Sprintf("var %s %s = %s", name, t.src, lit)}
	if t.def != nil {
		e.TypeName, e.TypeVer = t.name, t.def.ver
		if t.def.under == "" {
			e.Read2, e.Val2 = name+".A", f0
			e.Desc2 = t.def.fields[0] + " | " + t.def.fields[0]
		}
	}
	return e
}

// current reports whether the entry can be re-created as it is (its named type, if any, is still the current definition).
func (g *c15Gen) current(e *c15Entry) bool {
	if e.Redecl == "" {
		return false
	}
	if e.TypeName != "" {
		d := g.tdefs[e.TypeName]
		return d != nil && d.ver == e.TypeVer && g.shadow[e.TypeName] != nil
	}
	return true
}

// pick returns a name of the pool for a new declaration or a redefinition.
func (g *c15Gen) pick(prefix string, n int, redefine bool, used map[string]bool) string {
	var c []string
	for i := 0; i < n; i++ {
		name := fmt.Sprintf("%s%d", prefix, i)
		if used[name] {
			continue
		}
		if (g.shadow[name] != nil) == redefine {
			c = append(c, name)
		}
	}
	if len(c) == 0 {
		return ""
	}
	return c[g.rng.Intn(len(c))]
}

func (g *c15Gen) freshName() string {
	g.fresh++
	return fmt.Sprintf("n%d", g.fresh)
}

func (g *c15Gen) existing(class string, used map[string]bool, pred func(name string, e *c15Entry) bool) string {
	var c []string
	for _, pre := range []string{"v", "k", "f", "T", "n"} {
		lim := 6
		if pre == "n" {
			lim = g.fresh + 1
		}
		for i := 0; i < lim; i++ {
			name := fmt.Sprintf("%s%d", pre, i)
			if e := g.shadow[name]; e != nil && e.Class == class && !used[name] && (pred == nil || pred(name, e)) {
				c = append(c, name)
			}
		}
	}
	if len(c) == 0 {
		return ""
	}
	return c[g.rng.Intn(len(c))]
}

// validStmt builds one valid statement. redefine: prefer re-declaring an existing name. forFail: the statement is part
// of an input that will fail (only re-creatable names may be re-declared so that the history can repair them).
func (g *c15Gen) validStmt(used map[string]bool, redefine, forFail bool) *c15Stmt {
	for try := 0; try < 20; try++ {
		st := g.validStmt1(used, redefine, forFail)
		if st != nil {
			return st
		}
	}
	used["hk"] = true
	return &c15Stmt{src: "hk()", hooks: 1, kind: "call-hk"}
}

func (g *c15Gen) declName(prefix string, n int, redefine, forFail bool, used map[string]bool) (string, bool) {
	name := g.pick(prefix, n, redefine, used)
	if name == "" {
		if redefine {
			return "", false
		}
		if prefix == "v" {
			return g.freshName(), false
		}
		return "", false
	}
	if redefine && forFail && !g.current(g.shadow[name]) {
		return "", false
	}
	return name, redefine
}

func (g *c15Gen) validStmt1(used map[string]bool, redefine, forFail bool) *c15Stmt {
	mark := func(names ...string) {
		for _, n := range names {
			used[n] = true
		}
	}
	rd := func(name string, is bool) []string {
		if is {
			return []string{name}
		}
		return nil
	}
	switch g.rng.Intn(13) {
	case 0, 1, 2: // var NAME [TY] = LIT   |   NAME := LIT
		name, is := g.declName("v", 5, redefine, forFail, used)
		if name == "" {
			return nil
		}
		t := g.randTy(used)
		lit, render, f0 := g.value(t)
		src := fmt.Sprintf("var %s %s = %s", name, t.src, lit)
		kind := "var-typed"
		inferable := t.def != nil || t.src == "int" || t.src == "float64" || t.src == "string" || t.src == "bool" || t.src == "complex128"
		if inferable {
			switch g.rng.Intn(3) {
			case 0:
				src, kind = fmt.Sprintf("var %s = %s", name, lit), "var-inferred"
			case 1:
				src, kind = fmt.Sprintf("%s := %s", name, lit), "short-decl"
			}
		}
		mark(name, t.name)
		return &c15Stmt{src: src, effs: []c15Eff{{Name: name, Entry: g.varEntry(name, t, lit, render, f0)}}, redef: rd(name, is), kind: kind}
	case 3: // var NAME TY (zero value)
		name, is := g.declName("v", 5, redefine, forFail, used)
		if name == "" {
			return nil
		}
		t := g.randTy(used)
		e := g.varEntry(name, t, "", g.zeroOf(t), "")
		e.Redecl = fmt.Sprintf("var %s %s", name, t.src)
		if e.Read2 != "" {
			e.Val2 = g.zero(t.def.fields[0])
		}
		mark(name, t.name)
		return &c15Stmt{src: e.Redecl, effs: []c15Eff{{Name: name, Entry: e}}, redef: rd(name, is), kind: "var-zero"}
	case 4: // NAME = LIT (assignment to an existing variable declared with a still-current type)
		name := g.existing("var", used, func(_ string, e *c15Entry) bool { return g.current(e) && e.Lit != "" && !used[e.TypeName] })
		if name == "" {
			return nil
		}
		old := g.shadow[name]
		t := c15Ty{src: old.TySrc}
		if old.TypeName != "" {
			t.name, t.def = old.TypeName, g.tdefs[old.TypeName]
		}
		lit, render, f0 := g.value(t)
		mark(name, t.name)
		return &c15Stmt{src: name + " = " + lit, effs: []c15Eff{{Name: name, Entry: g.varEntry(name, t, lit, render, f0)}}, kind: "assign"}
	case 5: // var NAME = OTHERVAR
		other := g.existing("var", used, func(_ string, e *c15Entry) bool { return e.Read2 == "" && e.Hooks == 0 })
		name, is := g.declName("v", 5, redefine, forFail, used)
		if other == "" || name == "" || name == other {
			return nil
		}
		o := g.shadow[other]
		e := *o
		e.Read = name
		e.Redecl = ""
		if g.current(o) && o.Lit != "" {
			e.Redecl = fmt.Sprintf("var %s %s = %s", name, o.TySrc, o.Lit)
		}
		mark(name, other)
		return &c15Stmt{src: fmt.Sprintf("var %s = %s", name, other), effs: []c15Eff{{Name: name, Entry: &e}}, redef: rd(name, is), kind: "var-copy-of-var"}
	case 6: // const NAME [TY] = LIT
		name, is := g.declName("k", 3, redefine, forFail, used)
		if name == "" {
			return nil
		}
		kind := c15Kinds[g.rng.Intn(len(c15Kinds))]
		lit, render := g.lit(kind)
		src := fmt.Sprintf("const %s %s = %s", name, kind, lit)
		if (kind == "int" || kind == "float64" || kind == "string" || kind == "bool" || kind == "complex128") && g.rng.Intn(2) == 0 {
			src = fmt.Sprintf("const %s = %s", name, lit)
		}
		mark(name)
		e := &c15Entry{Class: "const", Desc: kind + " | " + kind, Val: render, Read: name, Redecl: src, Lit: lit, TySrc: kind}
		return &c15Stmt{src: src, effs: []c15Eff{{Name: name, Entry: e}}, redef: rd(name, is), kind: "const"}
	case 7: // func NAME() TY { hk(); return LIT }
		name, is := g.declName("f", 3, redefine, forFail, used)
		if name == "" {
			return nil
		}
		t := g.randTy(used)
		if is && g.shadow[name].Desc == t.desc() {
			return nil // a redefinition changes the result type
		}
		lit, render, _ := g.value(t)
		src := fmt.Sprintf("func %s() %s { hk(); return %s }", name, t.src, lit)
		mark(name, t.name)
		e := &c15Entry{Class: "func", Desc: t.desc(), Val: render, Read: name + "()", Hooks: 1, Redecl: src, Lit: lit, TySrc: t.src}
		if t.def != nil {
			e.TypeName, e.TypeVer = t.name, t.def.ver
		}
		return &c15Stmt{src: src, effs: []c15Eff{{Name: name, Entry: e}}, redef: rd(name, is), kind: "func"}
	case 8: // var NAME = FUNC()   |   var NAME = FUNC
		f := g.existing("func", used, nil)
		name, is := g.declName("v", 5, redefine, forFail, used)
		if f == "" || name == "" {
			return nil
		}
		fe := g.shadow[f]
		mark(name, f, fe.TypeName)
		if g.rng.Intn(2) == 0 {
			e := &c15Entry{Class: "var", Desc: fe.Desc, Val: fe.Val, Read: name, TypeName: fe.TypeName, TypeVer: fe.TypeVer, Lit: fe.Lit, TySrc: fe.TySrc}
			if g.current(fe) {
				e.Redecl = fmt.Sprintf("var %s %s = %s", name, fe.TySrc, fe.Lit)
			}
			return &c15Stmt{src: fmt.Sprintf("var %s = %s()", name, f), hooks: 1, effs: []c15Eff{{Name: name, Entry: e}}, redef: rd(name, is), kind: "var-from-call"}
		}
		e := &c15Entry{Class: "var", Desc: fe.Desc, Val: fe.Val, Read: name + "()", Hooks: 1, TypeName: fe.TypeName, TypeVer: fe.TypeVer}
		return &c15Stmt{src: fmt.Sprintf("var %s = %s", name, f), effs: []c15Eff{{Name: name, Entry: e}}, redef: rd(name, is), kind: "var-holding-func"}
	case 9: // var NAME = CONST
		k := g.existing("const", used, nil)
		name, is := g.declName("v", 5, redefine, forFail, used)
		if k == "" || name == "" {
			return nil
		}
		ke := g.shadow[k]
		e := &c15Entry{Class: "var", Desc: ke.Desc, Val: ke.Val, Read: name, Lit: ke.Lit, TySrc: ke.TySrc, Redecl: fmt.Sprintf("var %s %s = %s", name, ke.TySrc, ke.Lit)}
		mark(name, k)
		return &c15Stmt{src: fmt.Sprintf("var %s = %s", name, k), effs: []c15Eff{{Name: name, Entry: e}}, redef: rd(name, is), kind: "var-from-const"}
	case 10, 11: // type NAME ...
		name, is := g.declName("T", 3, redefine && !g.noTypeRedef, forFail, used)
		if name == "" {
			return nil
		}
		d := &c15TypeDef{ver: 1}
		if old := g.tdefs[name]; old != nil {
			d.ver = old.ver + 1
		}
		if g.rng.Intn(3) == 0 {
			d.under = []string{"int", "int16", "uint8", "float64", "string"}[g.rng.Intn(5)]
			d.text = fmt.Sprintf("type %s %s", name, d.under)
		} else {
			var fs []string
			for i, n := 0, 1+g.rng.Intn(3); i < n; i++ {
				k := c15Kinds[g.rng.Intn(len(c15Kinds))]
				d.fields = append(d.fields, k)
				fs = append(fs, fmt.Sprintf("%c %s", 'A'+i, k))
			}
			d.text = fmt.Sprintf("type %s struct { %s }", name, strings.Join(fs, "; "))
		}
		t := c15Ty{src: name, name: name, def: d}
		if is && g.shadow[name].Desc == t.desc() {
			return nil
		}
		mark(name)
		e := &c15Entry{Class: "type", Desc: t.desc(), Val: g.zeroOf(t), Read: "*new(" + name + ")", Redecl: d.text, TypeName: name, TypeVer: d.ver}
		return &c15Stmt{src: d.text, effs: []c15Eff{{Name: name, Entry: e, NewTypeVer: d.ver}}, redef: rd(name, is), kind: "type"}
	default: // hk() / rec(...)
		if used["hk"] {
			return nil
		}
		mark("hk")
		if v := g.existing("var", used, func(_ string, e *c15Entry) bool { return e.Hooks == 0 }); v != "" && g.rng.Intn(2) == 0 {
			mark(v)
			return &c15Stmt{src: fmt.Sprintf("rec(1, %s)", v), events: 1, kind: "call-rec"}
		}
		return &c15Stmt{src: "hk()", hooks: 1, kind: "call-hk"}
	}
}

// apply updates the generator's shadow with the effects of a valid statement; tdefs is updated by type declarations.
func (g *c15Gen) apply(st *c15Stmt) {
	for _, ef := range st.effs {
		g.shadow[ef.Name] = ef.Entry
		if ef.Entry.Class == "type" {
			// recover the definition from the statement text
			g.tdefs[ef.Name] = c15ParseTypeDef(ef.Entry.Redecl, ef.NewTypeVer)
		}
	}
}

func c15ParseTypeDef(text string, ver int) *c15TypeDef {
	d := &c15TypeDef{ver: ver, text: text}
	f := strings.Fields(text)
	if f[2] != "struct" {
		d.under = f[2]
		return d
	}
	body := text[strings.Index(text, "{")+1 : strings.LastIndex(text, "}")]
	for _, fd := range strings.Split(body, ";") {
		p := strings.Fields(fd)
		d.fields = append(d.fields, p[1])
	}
	return d
}

// failStmt builds a statement that cannot compile.
func (g *c15Gen) failStmt(used map[string]bool) (src, kind string, inBlock, syntax bool) {
	g.fresh++
	u := fmt.Sprintf("undef%d", g.fresh)
	intVar := g.existing("var", used, func(_ string, e *c15Entry) bool { return e.TySrc == "int" && g.current(e) })
	anyVar := g.existing("var", used, func(_ string, e *c15Entry) bool { return e.Hooks == 0 })
	fn := g.existing("func", used, nil)
	ty := g.existing("type", used, nil)
	k := g.existing("const", used, nil)
	for {
		switch g.rng.Intn(16) {
		case 0:
			return u, "undefined-name:expression", false, false
		case 1:
			if anyVar != "" {
				used[anyVar] = true
				return anyVar + " = " + u, "undefined-name:assigned-to-existing-var", false, false
			}
		case 2:
			return fmt.Sprintf("var %s = %s + 1", g.freshName(), u), "undefined-name:var-initialiser", false, false
		case 3:
			return fmt.Sprintf("var %s int = \"s\"", g.freshName()), "type-mismatch:var-initialiser", false, false
		case 4:
			if intVar != "" {
				used[intVar] = true
				return intVar + " = \"str\"", "type-mismatch:assignment-to-existing-var", false, false
			}
		case 5:
			return fmt.Sprintf("var %s string = 1.5", g.freshName()), "type-mismatch:var-initialiser", false, false
		case 6:
			return []string{"var = 3", "x = = 1", "func (", "}", "var x int = )", "if { {"}[g.rng.Intn(6)], "syntax-error", false, true
		case 7:
			// redefinition of an existing function whose body does not compile: DeclFunc must restore the old binding
			if fn != "" {
				used[fn] = true
				newTy := "string"
				if strings.HasPrefix(g.shadow[fn].Desc, "string") {
					newTy = "int"
				}
				if g.rng.Intn(2) == 0 {
					return fmt.Sprintf("func %s() %s { hk(); return %s }", fn, newTy, u), "bad-redeclaration:func-body-undefined-name", false, false
				}
				return fmt.Sprintf("func %s() %s { hk(); var z %s = 1.5i; return z }", fn, newTy, newTy), "bad-redeclaration:func-body-type-mismatch", false, false
			}
		case 8:
			if fn != "" {
				name := k
				if name == "" || g.rng.Intn(2) == 0 {
					name = g.freshName()
				}
				used[fn], used[name] = true, true
				return fmt.Sprintf("const %s = %s()", name, fn), "bad-redeclaration:const-not-constant", false, false
			}
		case 9:
			if ty != "" {
				used[ty] = true
				return fmt.Sprintf("type %s struct { A %sT }", ty, u), "bad-redeclaration:type-with-undefined-field-type", false, false
			}
		case 10:
			if anyVar != "" {
				used[anyVar] = true
				return fmt.Sprintf("var %s %sT", anyVar, u), "bad-redeclaration:var-with-undefined-type", false, false
			}
		case 11:
			return fmt.Sprintf("var %s, %s int = 1", g.freshName(), g.freshName()), "bad-redeclaration:count-mismatch", false, false
		case 12:
			return fmt.Sprintf("{\n q := 1\n _ = q\n %s\n}", u), "in-block:block", true, false
		case 13:
			return fmt.Sprintf("if true {\n hk()\n %s\n}", u), "in-block:if", true, false
		case 14:
			return fmt.Sprintf("for i := 0; i < 2; i++ {\n hk()\n %s\n}", u), "in-block:for", true, false
		case 15:
			return fmt.Sprintf("func() { hk(); %s }()", u), "undefined-name:in-closure-call", false, false
		}
	}
}

func c15Uses(used map[string]bool) []string {
	var out []string
	for n := range used {
		if n != "" && n != "hk" {
			out = append(out, n)
		}
	}
	sort.Strings(out)
	return out
}

func (g *c15Gen) addValid(kind string, stmts []*c15Stmt, used map[string]bool) {
	st := c15Step{Kind: kind, Uses: c15Uses(used)}
	var srcs []string
	for _, s := range stmts {
		srcs = append(srcs, s.src)
		st.Hooks += s.hooks
		st.Events += s.events
		st.Effects = append(st.Effects, s.effs...)
		g.apply(s)
	}
	st.Src = strings.Join(srcs, []string{"; ", "\n"}[g.rng.Intn(2)])
	g.steps = append(g.steps, st)
}

// c15History generates one history.
func c15History(rng *rand.Rand, nsteps int, noTypeRedef bool) []c15Step {
	g := &c15Gen{rng: rng, shadow: map[string]*c15Entry{}, tdefs: map[string]*c15TypeDef{}, noTypeRedef: noTypeRedef}
	afterBlock := false
	for len(g.steps) < nsteps {
		used := map[string]bool{}
		w := rng.Intn(100)
		switch {
		case afterBlock && w < 50:
			// a var/const declaration right after a failure inside a compound statement
			afterBlock = false
			g.steps[len(g.steps)-1].NoRead = true // evaluate the declaration immediately after the failed input
			var st *c15Stmt
			for st == nil || !(strings.HasPrefix(st.src, "var ") || strings.HasPrefix(st.src, "const ")) {
				used = map[string]bool{}
				st = g.validStmt(used, rng.Intn(2) == 0, false)
			}
			g.addValid("valid:"+st.kind, []*c15Stmt{st}, used)
		case len(g.shadow) < 4 || w < 45:
			// valid input of 1..3 independent statements; a third of them re-declare existing names
			afterBlock = false
			n := 1 + rng.Intn(3)
			var stmts []*c15Stmt
			kind := "valid"
			for i := 0; i < n; i++ {
				st := g.validStmt(used, rng.Intn(3) == 0, false)
				stmts = append(stmts, st)
				if len(st.redef) > 0 {
					kind = "valid:redefinition"
				}
			}
			if n == 1 {
				kind += ":" + stmts[0].kind
			}
			g.addValid(kind, stmts, used)
		default:
			// failing input: 0..3 valid statements, the failing statement, sometimes one more valid statement
			npre := rng.Intn(4)
			var srcs []string
			var redef []string
			var kinds []string
			for i := 0; i < npre; i++ {
				st := g.validStmt(used, rng.Intn(2) == 0, true)
				srcs = append(srcs, st.src)
				redef = append(redef, st.redef...)
				if len(st.redef) > 0 {
					kinds = append(kinds, "redefine-"+g.shadow[st.redef[0]].Class)
				}
			}
			fsrc, fkind, inBlock, syntax := g.failStmt(used)
			srcs = append(srcs, fsrc)
			if rng.Intn(4) == 0 {
				st := g.validStmt(used, rng.Intn(2) == 0, true)
				srcs = append(srcs, st.src)
				redef = append(redef, st.redef...)
			}
			if syntax {
				redef = nil // nothing is compiled
			}
			kind := fmt.Sprintf("fail:%s:after-%d-valid", fkind, npre)
			if len(kinds) > 0 {
				kind += ":" + kinds[0]
			}
			g.steps = append(g.steps, c15Step{Src: strings.Join(srcs, []string{"; ", "\n"}[rng.Intn(2)]), Fails: true, Kind: kind, Redef: redef, InBlock: inBlock, Uses: c15Uses(used)})
			afterBlock = inBlock
			if len(redef) > 0 {
				// repair: re-declare the names exactly as the shadow has them (a no-op for a correct interpreter)
				var stmts []*c15Stmt
				for _, n := range redef {
					e := g.shadow[n]
					ne := *e
					ef := c15Eff{Name: n, Entry: &ne}
					if e.Class == "type" {
						ne.TypeVer = g.tdefs[n].ver + 1
						ef.NewTypeVer = ne.TypeVer
					}
					stmts = append(stmts, &c15Stmt{src: e.Redecl, effs: []c15Eff{ef}})
				}
				ru := map[string]bool{}
				for _, n := range redef {
					ru[n], ru[g.shadow[n].TypeName] = true, true
				}
				g.addValid("valid:re-declare-as-before", stmts, ru)
				afterBlock = false
			}
		}
	}
	return g.steps
}

// ---------------------------------------------------------------- runner / oracle

type c15Replay struct {
	Steps    []c15Step `json:"steps"`
	FailedAt int       `json:"failed_at_step"`
	Name     string    `json:"name,omitempty"`
	Expected string    `json:"expected"`
	Observed string    `json:"observed"`
}

type c15Runner struct {
	r       *fw.Run
	ir      *fast.Interp
	hooks   int
	events  int
	shadow  map[string]*c15Entry
	tver    map[string]int
	redecl  map[string]bool // types the interpreter has seen re-declared (also by valid statements of failing inputs)
	tainted map[string]bool // names dropped from the shadow after a reported discrepancy
	verbose bool
}

func newC15Runner(r *fw.Run) *c15Runner {
	x := &c15Runner{r: r, shadow: map[string]*c15Entry{}, tver: map[string]int{}, redecl: map[string]bool{}, tainted: map[string]bool{}}
	x.ir = newQuietInterp()
	x.ir.DeclFunc("hk", func() { x.hooks++ })
	x.ir.DeclFunc("rec", func(tag int, v ...interface{}) { x.events++ })
	return x
}

// eval compiles and runs one input; phase is "" on success, "compile" or "run" when it panicked.
func (x *c15Runner) eval(src string) (desc, val, phase, msg string) {
	var e *fast.Expr
	if r, bad := guard(func() { e = x.ir.Compile(src) }); bad {
		return "", "", "compile", panicText(r)
	}
	if r, bad := guard(func() {
		vs, ts := x.ir.RunExpr(e)
		if len(vs) > 0 && vs[0].IsValid() && vs[0].CanInterface() {
			val = tr.Render(vs[0].Interface())
			if len(ts) > 0 {
				desc = c15TypeDesc(ts[0])
			}
		}
	}); bad {
		return "", "", "run", panicText(r)
	}
	return desc, val, "", ""
}

// run evaluates the history; returns false when it had to stop early.
func (x *c15Runner) run(steps []c15Step) {
	r := x.r
	dirty := false // a failing compound statement may have left code in the buffer
	report := func(i int, tag, finding, name, exp, obs string) {
		rep := c15Replay{Steps: steps[:i+1], FailedAt: i, Name: name, Expected: exp, Observed: obs}
		what := fmt.Sprintf("step %d [%s] %q: %s: expected %s, observed %s", i, steps[i].Kind, fw.Clip(steps[i].Src, 200), name, exp, fw.Clip(obs, 300))
		if x.verbose {
			fmt.Println("  DISCREPANCY", finding, what)
		}
		if finding != "" {
			r.Count("known:"+finding, 1)
			r.Known(finding, rep, what)
		} else {
			r.Violation(tag, rep, what)
		}
	}
	// spoiled: the input refers to a program-declared type that was re-declared (or to a name declared with one)
	spoiled := func(st *c15Step) bool {
		for _, n := range st.Uses {
			if x.redecl[n] || x.tainted[n] {
				return true
			}
			if e := x.shadow[n]; e != nil && e.TypeName != "" && x.redecl[e.TypeName] {
				return true
			}
		}
		return false
	}
	for i := range steps {
		st := &steps[i]
		h0, e0 := x.hooks, x.events
		_, _, phase, msg := x.eval(st.Src)
		dh, de := x.hooks-h0, x.events-e0
		if x.verbose {
			fmt.Printf("[%d] %s\n    %s -> phase=%q %s hooks+%d events+%d\n", i, st.Kind, strings.ReplaceAll(st.Src, "\n", "\n    "), phase, fw.Clip(msg, 200), dh, de)
		}
		r.Eval(1)
		if st.Fails {
			r.Cover("failing_input", st.Kind)
			switch {
			case phase == "":
				// the interpreter accepted an input the generator meant to be invalid: the premise of the property does
				// not hold for this input and the state is unknown from here on
				r.Count("unexpectedly_accepted", 1)
				r.Cover("unexpectedly_accepted", st.Kind)
				return
			case phase == "run":
				report(i, "failing-input-ran", "", "(input)", "a compile error", "panic while RUNNING: "+msg)
				return
			}
			if dh != 0 || de != 0 {
				report(i, "code-of-failed-input-ran", "", "(hook counters)", "no hk()/rec() call", fmt.Sprintf("hk +%d, rec +%d", dh, de))
			}
			if st.InBlock {
				dirty = true
			}
			for _, n := range st.Redef {
				if e := x.shadow[n]; e != nil && e.Class == "type" {
					x.redecl[n] = true
				}
			}
		} else {
			r.Cover("valid_input", st.Kind)
			for _, ef := range st.Effects {
				// a type re-declared by this very input is already changed in place when its other statements run
				if old := x.shadow[ef.Name]; old != nil && old.Class == "type" && ef.Entry.Class == "type" {
					x.redecl[ef.Name] = true
				}
			}
			bad := ""
			switch {
			case phase != "":
				bad = phase + " error: " + msg
			case dh != st.Hooks || de != st.Events:
				bad = fmt.Sprintf("hk +%d, rec +%d", dh, de)
			}
			if bad != "" {
				exp := fmt.Sprintf("success with hk +%d, rec +%d", st.Hooks, st.Events)
				if dirty && phase != "compile" && (strings.HasPrefix(st.Src, "var ") || strings.HasPrefix(st.Src, "const ")) {
					// known: statements compiled before the error of an earlier failing compound statement are still in the
					// code buffer and run together with this declaration
					report(i, "", c15FindCode, "(input after failed compound statement)", exp, bad)
					h0, e0 = x.hooks, x.events
					_, _, phase, msg = x.eval(st.Src) // the buffer is clean now: the same input must work
					if (phase != "" || x.hooks-h0 != st.Hooks || x.events-e0 != st.Events) && spoiled(st) {
						report(i, "", c15FindRetyp, "(input using a re-declared type)", exp, phase+" error: "+msg)
						return
					}
					if phase != "" || x.hooks-h0 != st.Hooks || x.events-e0 != st.Events {
						report(i, "valid-input-failed-again", "", "(input, second attempt)", exp, fmt.Sprintf("%s %s hk +%d rec +%d", phase, msg, x.hooks-h0, x.events-e0))
						return
					}
				} else if spoiled(st) {
					// known: a re-declared named type is changed in place, which leaves variables, functions and cached
					// conversions that used the previous definition inconsistent
					report(i, "", c15FindRetyp, "(input using a re-declared type)", exp, bad)
					return
				} else if phase == "compile" {
					// the interpreter rejects an input the generator meant to be valid (possible after a known finding spoiled
					// a name, otherwise a generator problem): not covered by the property
					r.Count("unexpectedly_rejected", 1)
					r.Cover("unexpectedly_rejected", st.Kind+": "+fw.Clip(msg, 80))
					return
				} else {
					report(i, "valid-input-misbehaved", "", "(input)", exp, bad)
					return
				}
			}
			dirty = false
			for _, ef := range st.Effects {
				if old := x.shadow[ef.Name]; old != nil && old.Class == "type" && ef.Entry.Class == "type" {
					x.redecl[ef.Name] = true
				}
				x.shadow[ef.Name] = ef.Entry
				delete(x.tainted, ef.Name)
				if ef.Entry.Class == "type" {
					x.tver[ef.Name] = ef.NewTypeVer
				}
			}
		}
		if st.NoRead {
			continue
		}
		// read every earlier name back
		redef := map[string]bool{}
		for _, n := range st.Redef {
			redef[n] = true
		}
		for _, name := range c15SortedNames(x.shadow) {
			e := x.shadow[name]
			h0 = x.hooks
			desc, val, phase, msg := x.eval(e.Read)
			obs := fmt.Sprintf("%s <%s>", val, desc)
			if phase != "" {
				obs = phase + " error: " + msg
			}
			exp := fmt.Sprintf("%s <%s>", e.Val, e.Desc)
			if phase == "" && x.hooks-h0 != e.Hooks {
				obs += fmt.Sprintf(" with hk +%d", x.hooks-h0)
				exp += fmt.Sprintf(" with hk +%d", e.Hooks)
			}
			if obs == exp && e.Read2 != "" {
				desc, val, phase, msg = x.eval(e.Read2)
				obs = fmt.Sprintf("%s=%s <%s>", e.Read2, val, desc)
				if phase != "" {
					obs = e.Read2 + ": " + phase + " error: " + msg
				}
				exp = fmt.Sprintf("%s=%s <%s>", e.Read2, e.Val2, e.Desc2)
			}
			r.Eval(1)
			if obs == exp {
				continue
			}
			switch {
			case st.Fails && (redef[name] || e.TypeName != "" && redef[e.TypeName]):
				// known: the failing input re-declared this name (or its type) before the error and the new binding stays
				report(i, "", c15FindKeep, name, exp, obs)
			case e.TypeName != "" && x.redecl[e.TypeName]:
				// known: the named type was re-declared; that changes the existing type in place, so names declared with
				// the previous definition get the new one (and conversions cached for the type go stale)
				report(i, "", c15FindRetyp, name, exp, obs)
				delete(x.shadow, name)
				x.tainted[name] = true
			default:
				tag := "earlier-name-changed-by-valid-input"
				if st.Fails {
					tag = "earlier-name-changed-by-failed-input"
				}
				report(i, tag, "", name, exp, obs)
				delete(x.shadow, name)
			}
		}
	}
}

func c15SortedNames(m map[string]*c15Entry) []string {
	names := make([]string, 0, len(m))
	for n := range m {
		names = append(names, n)
	}
	// insertion sort (small)
	for i := 1; i < len(names); i++ {
		for j := i; j > 0 && names[j] < names[j-1]; j-- {
			names[j], names[j-1] = names[j-1], names[j]
		}
	}
	return names
}

// ---------------------------------------------------------------- check

func checkC15(r *fw.Run) {
	r.SetRule("seeded random histories (quick 4000, thorough 60000) of 25-60 inputs in one interpreter each; every second history never re-declares a type: valid inputs of 1-3 independent statements (var with/without type and initialiser, :=, assignment, copies of variables, const, func, var from call, var holding a function, var from const, type struct/basic, hk(), rec()), a third of them re-declaring an existing variable/constant/function/type (functions and types always with a different type), interleaved (55%) with inputs that fail to compile: 0-3 valid statements (half of them re-declaring existing names), then an undefined name / type mismatch / syntax error / bad redeclaration (function whose body does not compile, non-constant const, undefined field or variable type, count mismatch) / a failure inside a block, if or for, sometimes one more valid statement; oracle: after every input every earlier name is read back through Compile+RunExpr and type description, value rendering (and first field of struct variables) must equal the shadow that only successful inputs update; hk()/rec() counters must not move during a failing input and move exactly as expected during valid inputs; distinct = distinct history texts")
	r.Assume("the shadow environment (about 30 lines: literal values, copies, constant-returning functions) is the model; inputs the generator means to be invalid/valid but the interpreter accepts/rejects end the history and are counted, not judged")
	etoken.GENERICS = etoken.GENERICS_V2_CTI
	if p := fw.ReplayArg(); p != "" {
		var rep c15Replay
		if err := fw.LoadReplay(p, &rep); err != nil {
			panic(err)
		}
		x := newC15Runner(r)
		x.verbose = true
		x.run(rep.Steps)
		fmt.Printf("recorded: step %d name %s expected %s observed %s\n", rep.FailedAt, rep.Name, rep.Expected, rep.Observed)
		r.SetMinDistinct(0)
		return
	}
	n := r.Pick(4000, 60000)
	seed := r.Rng("histories").Int63()
	jobs := make(chan int, 64)
	var wg sync.WaitGroup
	var mu sync.Mutex
	sampled := 0
	for w := 0; w < runtime.NumCPU(); w++ {
		wg.Add(1)
		go func() {
			defer wg.Done()
			runtime.LockOSThread()
			for i := range jobs {
				rng := rand.New(rand.NewSource(seed + int64(i)*104729))
				steps := c15History(rng, 25+rng.Intn(36), i%2 == 0)
				var text strings.Builder
				nfail := 0
				for _, s := range steps {
					text.WriteString(s.Src + "\n;;\n")
					if s.Fails {
						nfail++
					}
				}
				if nfail > 0 {
					r.Distinct(text.String())
				}
				r.Count("inputs", int64(len(steps)))
				r.Count("failing_inputs", int64(nfail))
				x := newC15Runner(r)
				x.run(steps)
				mu.Lock()
				if sampled < 3 {
					sampled++
					var srcs []string
					for _, s := range steps[:minInt(len(steps), 12)] {
						srcs = append(srcs, fmt.Sprintf("[%s] %s", s.Kind, s.Src))
					}
					r.Sample(map[string]interface{}{"history": i, "first_inputs": srcs})
				}
				mu.Unlock()
			}
		}()
	}
	for i := 0; i < n; i++ {
		jobs <- i
	}
	close(jobs)
	wg.Wait()
	r.Extra("histories", n)
	if bad := r.Counter("unexpectedly_accepted") + r.Counter("unexpectedly_rejected"); bad*10 > int64(n) {
		r.Inconclusive(fmt.Sprintf("generator problem: %d of %d histories ended early because the interpreter accepted an input meant to be invalid or rejected one meant to be valid", bad, n))
	}
}
