package main

// C35 — generic instantiation behaves like textual specialisation and is memoized.

import (
	"encoding/json"
	"fmt"
	"os"
	"sort"
	"strings"
	"time"

	"gmverif/internal/fw"
)

func init() {
	register("C35", "exploration", checkC35)
	auxCmds["c35memo"] = func(args []string) {
		r := fw.NewRun("C35", "exploration")
		c35Memo(r)
		r.Finish()
	}
	auxCmds["c35gate"] = func(args []string) {
		r := fw.NewRun("C35", "exploration")
		n := 300
		if len(args) > 0 {
			fmt.Sscan(args[0], &n)
		}
		var progs []*Prog
		for i := 0; i < n; i++ {
			p, _, err := c35GenProg(fmt.Sprintf("c35-%d", i), r.Rng(fmt.Sprintf("prog%d", i)))
			if err != nil {
				fmt.Println("GENERR", i, err)
				continue
			}
			progs = append(progs, p)
		}
		e1Gate(progs)
		bad := 0
		for _, p := range progs {
			if p.Reject {
				bad++
				fmt.Println(p.ID, p.GateErr)
			}
		}
		fmt.Println("rejected", bad, "of", len(progs))
	}
	auxCmds["c35dump"] = func(args []string) {
		r := fw.NewRun("C35", "exploration")
		n := 1
		if len(args) > 0 {
			fmt.Sscan(args[0], &n)
		}
		p, _, err := c35GenProg(fmt.Sprintf("c35-%d", n), r.Rng(fmt.Sprintf("prog%d", n)))
		if err != nil {
			fmt.Println("ERROR", err)
			return
		}
		if len(args) > 1 && args[1] == "json" {
			data, _ := json.Marshal(map[string]interface{}{"replay": e1Replay{Prog: p}})
			fmt.Println(string(data))
			return
		}
		fmt.Println("// ======== Src\n" + p.Src)
		fmt.Println("// ======== RefSrc\n" + p.RefSrc)
	}
}

var c35SkipReasons = map[string]int{}

func c35NormReason(s string) string {
	s = strings.Join(strings.Fields(s), " ")
	if k := strings.Index(s, ": "); k >= 0 && strings.HasPrefix(s, "repl.go:") {
		s = s[k+2:]
	}
	// keep the leading words, drop concrete names
	if len(s) > 90 {
		s = s[:90]
	}
	return s
}

var c35Killed, c35SkipInfer, c35SkipInst int

func c35Skip(p *Prog, got *Result) bool {
	if got.End == "crash" && (strings.Contains(got.Detail, "signal: interrupt") || strings.Contains(got.Detail, "signal: killed")) {
		// the engine's wall-clock watchdog killed the worker: never a verdict
		c35Killed++
		return true
	}
	if got.End != "compile-error" {
		return false
	}
	// The property is conditional on the instantiation compiling: an error raised while instantiating a generic
	// means "this instantiation is not accepted" and the program is skipped (counted, reasons reported, and the
	// run is inconclusive when more than a few programs are affected). Type inference is an extra on top of
	// explicit instantiation: its explicit refusals are skipped too.
	if p.Mode["c35infer"] == "1" && strings.Contains(got.CompileErr, "type inference") {
		c35SkipInfer++
		c35SkipReasons[c35NormReason(got.CompileErr)]++
		return true
	}
	if strings.Contains(got.CompileErr, "error instantiating generic") {
		c35SkipInst++
		c35SkipReasons[c35NormReason(got.CompileErr)]++
		return true
	}
	return false
}

func checkC35(r *fw.Run) {
	r.SetRule("each program = 2-4 units; a unit is a generic function template (library template with a random body variant, or a randomly generated body over slices/maps/closures/structs/pointers with 1-3 type parameters, fuel recursion and calls to other generics) or a generic type template, instantiated with 2-3 type-argument lists (basic, composite, program-declared named types, other generic instances; lists sharing a prefix) from 2-3 sites each (P, helper function, nested closure in a loop, method body, package-level func literal, package-level var, local var, through 1-2 generic forwarding wrappers with permuted type parameters, inferred call); Src uses gomacro #[...] syntax, RefSrc is the same text hand-specialised (one mangled copy per distinct argument list, parameters textually replaced); oracle = event-by-event trace equality with the compiled specialised program; a program is distinct/non-trivial when its text is new and it produced events. In-process part: type identity / assignability / comparability of G#[A] obtained at different sites of one interpreter, distinctness of G#[A] and G#[B], and identical results of repeatedly instantiated functions")
	r.Assume("go/types + cmd/compile 1.23.5 (module go 1.18) running the hand-specialised text is the reference; the specialiser is a textual identifier substitution (c35_mono.go); programs whose instantiation the interpreter refuses to compile are skipped (property is conditional on compiling); documented limitations avoided: emulated named/recursive/interface types are never rendered or type-asserted")
	o := e1Opts{SkipUnsupported: c35Skip, Classify: c35Classify}
	if p := fw.ReplayArg(); p != "" {
		if strings.Contains(p, "memo") {
			c35MemoReplay(r, p)
			return
		}
		e1ReplayFile(r, p, o)
		return
	}
	n := r.Pick(300, 6000)
	var progs []*Prog
	genErrs := 0
	for i := 0; i < n; i++ {
		p, cover, err := c35GenProg(fmt.Sprintf("c35-%d", i), r.Rng(fmt.Sprintf("prog%d", i)))
		if err != nil {
			genErrs++
			r.Extra("generator_error_example", err.Error())
			continue
		}
		for _, c := range cover {
			r.Cover(c[0], c[1])
		}
		progs = append(progs, p)
	}
	r.Count("generator_errors", int64(genErrs))
	r.Extra("programs", len(progs))
	// one compiled reference package per batch (a single package with thousands of specialised programs takes
	// the Go compiler too long)
	const batch = 1000
	var walls []float64
	for from := 0; from < len(progs); from += batch {
		t0 := time.Now()
		to := from + batch
		if to > len(progs) {
			to = len(progs)
		}
		e1Run(r, progs[from:to], o)
		walls = append(walls, time.Since(t0).Seconds())
	}
	r.Extra("batch_wall_s", walls)
	if len(c35SkipReasons) > 0 {
		type kv struct {
			K string
			N int
		}
		var kvs []kv
		for k, v := range c35SkipReasons {
			kvs = append(kvs, kv{k, v})
		}
		sort.Slice(kvs, func(i, j int) bool { return kvs[i].N > kvs[j].N || kvs[i].N == kvs[j].N && kvs[i].K < kvs[j].K })
		if len(kvs) > 12 {
			kvs = kvs[:12]
		}
		r.Extra("skip_reasons", kvs)
	}
	r.Count("skipped_inference_unimplemented", int64(c35SkipInfer))
	r.Count("skipped_instantiation_rejected", int64(c35SkipInst))
	r.Count("worker_killed_by_watchdog", int64(c35Killed))
	if sk := r.Counter("skipped_unsupported"); sk*2 > int64(len(progs)) {
		r.Inconclusive(fmt.Sprintf("most programs were skipped because an instantiation did not compile (%d of %d)", sk, len(progs)))
	}
	// every instantiation the generator writes compiles on the tree the check was built for: more than a handful of
	// rejected instantiations (the compiled Go reference accepts the hand-specialised copies) means the conditional
	// property is no longer being exercised as intended
	if c35SkipInst > len(progs)/50+3 {
		r.Inconclusive(fmt.Sprintf("%d of %d programs skipped because the interpreter rejected an explicit instantiation whose hand-specialised copy compiles as Go (see skip_reasons)", c35SkipInst, len(progs)))
	}
	if c35Killed > 0 {
		r.Inconclusive(fmt.Sprintf("%d interpreter worker(s) killed by the wall-clock watchdog (overloaded machine or a hang)", c35Killed))
	}
	if rej := r.Counter("gate_rejected"); rej*5 > int64(len(progs)) || genErrs*10 > n {
		r.Inconclusive(fmt.Sprintf("generator problem: %d of %d hand-specialised programs rejected by go/types, %d generator errors", rej, len(progs), genErrs))
	}
	c35Memo(r)
	_ = os.Stderr
}

func c35Classify(p *Prog, ref, got *Result, diff string) string {
	return ""
}
