package main

// C30 — converting go/types package descriptions into gomacro's own type
// representation (go/types/converter.go, xreflect/importer.go, xreflect/package.go).
//
// Workload: standard-library packages (imports.Packages, plus every other
// non-internal std package in the thorough tier). Two routes:
//   importer: xreflect.Universe.LoadPackage -> Importer.ImportFrom -> Converter.Package,
//             original loaded independently with go/importer "gc";
//   source:   original type-checked from source (go/importer "source"), handed
//             directly to types.Converter.Package.
// Packages are converted in seeded orders through a converter shared by a whole
// session (as the interpreter does), and every package is compared right after
// its own import and again when the session ends.
//
// Oracle: lock-step comparison original <-> converted (see c30Cmp).

import (
	"bufio"
	"fmt"
	"go/constant"
	"go/importer"
	"go/token"
	gotypes "go/types"
	"io"
	"os"
	"os/exec"
	"path/filepath"
	"runtime"
	"sort"
	"strings"
	"sync"
	"unicode"
	"unicode/utf8"

	"github.com/cosmos72/gomacro/go/etoken"
	"github.com/cosmos72/gomacro/go/types"
	"github.com/cosmos72/gomacro/imports"
	"github.com/cosmos72/gomacro/xreflect"

	"gmverif/internal/fw"
)

func init() { register("C30", "exploration", checkC30) }

const (
	c30FindingByteRune     = "C30-byte-rune-spelling"
	c30FindingLateMethods  = "C30-late-named-loses-methods"
	c30FindingIncomplete   = "C30-late-interface-incomplete"
	c30FindingParamNames   = "C30-param-names-of-identical-sig"
	c30FindingFieldShadow  = "C30-methodset-field-shadowing"
	c30FindingOverlap      = "C30-overlapping-embedded-ifaces"
	c30FindingGenericPanic = "C30-generic-method-panic-escapes"
)

var c30Core = []string{"fmt", "os", "net/http", "reflect", "sync", "time", "sort", "io", "strings", "math/big", "go/ast"}

type c30Replay struct {
	Route string   `json:"route"` // importer | source
	Prior []string `json:"prior"` // packages converted earlier by the same converter, in order
	Pkg   string   `json:"pkg"`
	Name  string   `json:"name"`  // exported object ("" = whole package)
	Where string   `json:"where"` // path inside the object where the two sides diverge
	Orig  string   `json:"orig"`
	Conv  string   `json:"conv"`
	Phase string   `json:"phase"` // after-import | end-of-session
}

type c30Issue struct {
	tag   string
	known string
	rep   c30Replay
	what  string
}

// ---------------------------------------------------------------- string normalisation

func c30IsIdent(c rune) bool { return c == '_' || unicode.IsLetter(c) || unicode.IsDigit(c) }

// c30Rewrite replaces identifier tokens of a printed type that stand for a
// predeclared type (not a qualified name, not a parameter/field name, not inside
// a quoted struct tag) using the table repl.
func c30Rewrite(s string, repl map[string]string) string {
	var b strings.Builder
	i := 0
	var prev, prev2 rune // the two runes before the current position
	for i < len(s) {
		c, w := utf8.DecodeRuneInString(s[i:])
		if c == '"' { // struct tag printed with %q
			j := i + 1
			for j < len(s) {
				if s[j] == '\\' {
					j += 2
					continue
				}
				if s[j] == '"' {
					j++
					break
				}
				j++
			}
			if j > len(s) {
				j = len(s)
			}
			b.WriteString(s[i:j])
			i = j
			prev2, prev = prev, '"'
			continue
		}
		if !c30IsIdent(c) {
			b.WriteRune(c)
			prev2, prev = prev, c
			i += w
			continue
		}
		j := i
		for j < len(s) {
			c2, w2 := utf8.DecodeRuneInString(s[j:])
			if !c30IsIdent(c2) {
				break
			}
			j += w2
		}
		tok := s[i:j]
		qualified := prev == '.' && prev2 != '.' // pkg.any, but not ...any
		if to, ok := repl[tok]; ok && !qualified {
			// a name (parameter, result, field) is followed by " " + a type;
			// a type is followed by ", ) ] } ;" end-of-string or " \"tag\""
			isName := j+1 < len(s) && s[j] == ' ' && s[j+1] != '"'
			if !isName {
				tok = to
			}
		}
		b.WriteString(tok)
		prev2, prev = 'a', 'a'
		i = j
	}
	return b.String()
}

// c30SortIface sorts the elements of every interface{...} in a printed type: the fork
// keeps embedded interfaces sorted by name, go/types keeps them in source order.
func c30SortIface(s string) string {
	const kw = "interface{"
	var b strings.Builder
	i := 0
	for i < len(s) {
		if s[i] == '"' {
			j := c30SkipQuoted(s, i)
			b.WriteString(s[i:j])
			i = j
			continue
		}
		if strings.HasPrefix(s[i:], kw) && (i == 0 || !c30IsIdent(rune(s[i-1]))) {
			j := i + len(kw)
			depth := 1
			for j < len(s) && depth > 0 {
				switch s[j] {
				case '"':
					j = c30SkipQuoted(s, j)
					continue
				case '{':
					depth++
				case '}':
					depth--
				}
				j++
			}
			if depth != 0 {
				break // malformed: leave the rest alone
			}
			inner := c30SortIface(s[i+len(kw) : j-1])
			var elems []string
			start, d := 0, 0
			for k := 0; k < len(inner); k++ {
				switch inner[k] {
				case '"':
					k = c30SkipQuoted(inner, k) - 1
				case '{', '(', '[':
					d++
				case '}', ')', ']':
					d--
				case ';':
					if d == 0 && k+1 < len(inner) && inner[k+1] == ' ' {
						elems = append(elems, inner[start:k])
						start = k + 2
					}
				}
			}
			elems = append(elems, inner[start:])
			sort.Strings(elems)
			b.WriteString(kw + strings.Join(elems, "; ") + "}")
			i = j
			continue
		}
		b.WriteByte(s[i])
		i++
	}
	if i < len(s) {
		b.WriteString(s[i:])
	}
	return b.String()
}

// c30SkipQuoted returns the index after the quoted string starting at s[i] == '"'
func c30SkipQuoted(s string, i int) int {
	j := i + 1
	for j < len(s) {
		if s[j] == '\\' {
			j += 2
			continue
		}
		if s[j] == '"' {
			return j + 1
		}
		j++
	}
	return len(s)
}

var c30AnyRepl = map[string]string{"any": "interface{}"}
var c30ByteRuneRepl = map[string]string{"byte": "uint8", "rune": "int32"}

// ---------------------------------------------------------------- generic detection

func c30GenericNamed(n *gotypes.Named) bool {
	return n.TypeParams().Len() > 0 || n.TypeArgs().Len() > 0
}

// c30GenericDecl: is the package-level object a generic declaration (or a
// constraint interface, usable only with generics)?
func c30GenericDecl(o gotypes.Object) bool {
	switch o := o.(type) {
	case *gotypes.TypeName:
		switch t := o.Type().(type) {
		case *gotypes.Named:
			if c30GenericNamed(t) {
				return true
			}
		case *gotypes.TypeParam:
			return true
		}
		if it, ok := o.Type().Underlying().(*gotypes.Interface); ok && !it.IsMethodSet() {
			return true
		}
	case *gotypes.Func:
		sig := o.Type().(*gotypes.Signature)
		return sig.TypeParams().Len() > 0 || sig.RecvTypeParams().Len() > 0
	}
	return false
}

// c30MentionsGeneric: does the printed form of t (which stops at named types)
// contain a type parameter, an instantiation or a constraint interface?
func c30MentionsGeneric(t gotypes.Type, depth int) bool {
	if t == nil || depth > 40 {
		return false
	}
	switch t := t.(type) {
	case *gotypes.Basic:
		return false
	case *gotypes.Named:
		if c30GenericNamed(t) {
			return true
		}
		if it, ok := t.Underlying().(*gotypes.Interface); ok && !it.IsMethodSet() {
			return true
		}
		return false
	case *gotypes.TypeParam, *gotypes.Union:
		return true
	case *gotypes.Array:
		return c30MentionsGeneric(t.Elem(), depth+1)
	case *gotypes.Slice:
		return c30MentionsGeneric(t.Elem(), depth+1)
	case *gotypes.Pointer:
		return c30MentionsGeneric(t.Elem(), depth+1)
	case *gotypes.Chan:
		return c30MentionsGeneric(t.Elem(), depth+1)
	case *gotypes.Map:
		return c30MentionsGeneric(t.Key(), depth+1) || c30MentionsGeneric(t.Elem(), depth+1)
	case *gotypes.Tuple:
		for i := 0; i < t.Len(); i++ {
			if c30MentionsGeneric(t.At(i).Type(), depth+1) {
				return true
			}
		}
		return false
	case *gotypes.Signature:
		if t.TypeParams().Len() > 0 {
			return true
		}
		return c30MentionsGeneric(t.Params(), depth+1) || c30MentionsGeneric(t.Results(), depth+1)
	case *gotypes.Struct:
		for i := 0; i < t.NumFields(); i++ {
			if c30MentionsGeneric(t.Field(i).Type(), depth+1) {
				return true
			}
		}
		return false
	case *gotypes.Interface:
		if !t.IsMethodSet() {
			return true
		}
		for i := 0; i < t.NumExplicitMethods(); i++ {
			if c30MentionsGeneric(t.ExplicitMethod(i).Type(), depth+1) {
				return true
			}
		}
		for i := 0; i < t.NumEmbeddeds(); i++ {
			if c30MentionsGeneric(t.EmbeddedType(i), depth+1) {
				return true
			}
		}
		return false
	}
	return true // unknown node kinds (aliases etc.): do not compare strings
}

// ---------------------------------------------------------------- comparator

type c30Cmp struct {
	r       *fw.Run
	route   string
	prior   []string
	phase   string
	pkg     string
	name    string
	issues  *[]c30Issue
	g2f     map[*gotypes.Named]*types.Named
	f2g     map[*types.Named]*gotypes.Named
	queue   []c30Pair
	nobj    int // issues raised for the current object (bounded)
	verbose bool
	// named types whose converted twin lost all its declared methods (finding c30FindingLateMethods)
	affected map[*gotypes.Named]string
	msOwner  *gotypes.Named // set while the method set of this type (or its pointer) is compared
	pending  []c30Pending   // method-set discrepancies awaiting adjudication
	// shallow mode: quiet walk that stops at named types (like the printers do) and
	// only collects the kinds of difference it meets
	shallow bool
	tags    map[string]bool
	scratch *fw.Run
}

type c30Pending struct {
	owner *gotypes.Named
	issue c30Issue
}

type c30Pair struct {
	g     *gotypes.Named
	f     *types.Named
	where string
}

func c30NewCmp(r *fw.Run, route string, issues *[]c30Issue) *c30Cmp {
	return &c30Cmp{r: r, route: route, issues: issues,
		g2f: map[*gotypes.Named]*types.Named{}, f2g: map[*types.Named]*gotypes.Named{}, affected: map[*gotypes.Named]string{}}
}

func (c *c30Cmp) replay(where, orig, conv string) c30Replay {
	return c30Replay{Route: c.route, Prior: append([]string{}, c.prior...), Pkg: c.pkg, Name: c.name,
		Where: where, Orig: fw.Clip(orig, 400), Conv: fw.Clip(conv, 400), Phase: c.phase}
}

func (c *c30Cmp) fail(tag, where, orig, conv string) {
	if c.shallow {
		c.tags[tag] = true
		return
	}
	c.nobj++
	if c.nobj > 3 {
		return // a few witnesses per object are enough
	}
	what := fmt.Sprintf("[%s %s] %s.%s: %s at %s: original %s, converted %s (converted after %d other packages)",
		c.route, c.phase, c.pkg, c.name, tag, where, fw.Clip(orig, 300), fw.Clip(conv, 300), len(c.prior))
	is := c30Issue{tag: tag, rep: c.replay(where, orig, conv), what: what}
	if c.msOwner != nil {
		c.pending = append(c.pending, c30Pending{c.msOwner, is})
		return
	}
	*c.issues = append(*c.issues, is)
}

func (c *c30Cmp) known(id, where, orig, conv string) {
	if c.shallow {
		c.tags["known:"+id] = true
		return
	}
	what := fmt.Sprintf("[%s %s] %s.%s at %s: original %s, converted %s (converted after %d other packages)",
		c.route, c.phase, c.pkg, c.name, where, fw.Clip(orig, 300), fw.Clip(conv, 300), len(c.prior))
	*c.issues = append(*c.issues, c30Issue{tag: id, known: id, rep: c.replay(where, orig, conv), what: what})
}

// embedsAffected: is g, or a type it embeds (transitively), a named type whose
// converted twin lost its declared methods / was left incomplete? Returns the finding id.
func (c *c30Cmp) embedsAffected(g gotypes.Type, seen map[gotypes.Type]bool) string {
	if p, ok := g.(*gotypes.Pointer); ok {
		g = p.Elem()
	}
	if seen[g] {
		return ""
	}
	seen[g] = true
	if n, ok := g.(*gotypes.Named); ok {
		if id := c.affected[n]; id != "" {
			return id
		}
	}
	switch u := g.Underlying().(type) {
	case *gotypes.Struct:
		for i := 0; i < u.NumFields(); i++ {
			if f := u.Field(i); f.Embedded() {
				if id := c.embedsAffected(f.Type(), seen); id != "" {
					return id
				}
			}
		}
	case *gotypes.Interface:
		for i := 0; i < u.NumEmbeddeds(); i++ {
			if id := c.embedsAffected(u.EmbeddedType(i), seen); id != "" {
				return id
			}
		}
	}
	return ""
}

// adjudicate decides, once every reachable named type has been looked at, whether a
// method-set discrepancy is a consequence of a named type that lost its methods.
func (c *c30Cmp) adjudicate() {
	for _, p := range c.pending {
		if id := c.embedsAffected(p.owner, map[gotypes.Type]bool{}); id != "" {
			is := p.issue
			is.known = id
			is.tag = id
			c.r.Count("method_set_discrepancies_explained_by_"+id, 1)
			*c.issues = append(*c.issues, is)
		} else {
			*c.issues = append(*c.issues, p.issue)
		}
	}
	c.pending = c.pending[:0]
}

// shallowDiff walks g and f the way the type printers do (not entering named types)
// and returns the kinds of difference met.
func (c *c30Cmp) shallowDiff(g gotypes.Type, f types.Type) map[string]bool {
	if c.scratch == nil {
		c.scratch = fw.NewRun("C30-scratch", "exploration")
	}
	sub := &c30Cmp{r: c.scratch, route: c.route, shallow: true, tags: map[string]bool{},
		g2f: map[*gotypes.Named]*types.Named{}, f2g: map[*types.Named]*gotypes.Named{}, affected: map[*gotypes.Named]string{}}
	if gs, ok := g.(*gotypes.Signature); ok {
		if fs, ok := f.(*types.Signature); ok {
			sub.signature("", gs, fs, 0, false)
			return sub.tags
		}
	}
	sub.walk("", g, f, 0)
	return sub.tags
}

// strings: printed form, package-path qualified on both sides
func (c *c30Cmp) printed(where string, g gotypes.Type, f types.Type) {
	if c30MentionsGeneric(g, 0) {
		c.r.Count("printed_forms_skipped_generic", 1)
		return
	}
	gs := gotypes.TypeString(g, nil)
	fs := types.TypeString(f, nil)
	c.r.Eval(1)
	c.r.Count("printed_forms_compared", 1)
	if c.verbose {
		fmt.Printf("  printed %s:\n    original : %s\n    converted: %s\n", where, gs, fs)
	}
	if gs == fs {
		return
	}
	gn := c30Rewrite(gs, c30AnyRepl) // go/types >= 1.18 prints the predeclared empty interface as "any"
	if gn == fs {
		c.r.Count("printed_forms_equal_after_any_normalisation", 1)
		return
	}
	if c30SortIface(gn) == c30SortIface(fs) {
		c.r.Count("printed_forms_equal_after_sorting_interface_elements", 1)
		return
	}
	// the strings differ: which structural differences (at printing depth) explain it?
	tags := c.shallowDiff(g, f)
	explained := len(tags) > 0
	for t := range tags {
		if !strings.HasPrefix(t, "known:") {
			explained = false
		}
	}
	if !explained {
		c.fail("printed-form", where, gs, fs)
		return
	}
	for t := range tags {
		id := strings.TrimPrefix(t, "known:")
		c.r.Count("printed_forms_differing_by_"+id, 1)
		c.known(id, where, gs, fs)
	}
}

func gPkgPath(p *gotypes.Package) string {
	if p == nil {
		return ""
	}
	return p.Path()
}
func fPkgPath(p *types.Package) string {
	if p == nil {
		return ""
	}
	return p.Path()
}

// walk compares the structure of g and f in lock step.
func (c *c30Cmp) walk(where string, g gotypes.Type, f types.Type, depth int) {
	if depth > 200 {
		c.fail("walk-too-deep", where, "", "")
		return
	}
	if g == nil || f == nil {
		c.r.Eval(1)
		if (g == nil) != (f == nil) {
			c.fail("nil-type", where, fmt.Sprint(g), fmt.Sprint(f))
		}
		return
	}
	// generic nodes are a documented limitation: skipped, counted
	switch gt := g.(type) {
	case *gotypes.TypeParam, *gotypes.Union:
		c.r.Count("nodes_skipped_generic", 1)
		return
	case *gotypes.Named:
		if c30GenericNamed(gt) {
			c.r.Count("nodes_skipped_generic", 1)
			c.r.Cover("generic_named_skipped", gt.Obj().Name())
			return
		}
	case *gotypes.Interface:
		if !gt.IsMethodSet() {
			c.r.Count("nodes_skipped_generic", 1)
			return
		}
	}
	c.r.Eval(1)
	c.r.Count("type_nodes_compared", 1)
	switch gt := g.(type) {
	case *gotypes.Basic:
		c.r.Cover("node_kind", "basic")
		ft, ok := f.(*types.Basic)
		if !ok {
			c.fail("node-kind", where, fmt.Sprintf("%T %s", g, g), fmt.Sprintf("%T %s", f, f))
			return
		}
		if int(gt.Kind()) != int(ft.Kind()) || int(gt.Info()) != int(ft.Info()) {
			c.fail("basic-kind", where, fmt.Sprintf("%s kind=%d info=%d", gt.Name(), gt.Kind(), gt.Info()), fmt.Sprintf("%s kind=%d info=%d", ft.Name(), ft.Kind(), ft.Info()))
		}
		c.r.Cover("basic_kind", gt.Name())
		if c.shallow && gt.Name() != ft.Name() && int(gt.Kind()) == int(ft.Kind()) {
			c.known(c30FindingByteRune, where, gt.Name(), ft.Name()) // byte/rune: same type, other spelling
		}
	case *gotypes.Array:
		c.r.Cover("node_kind", "array")
		ft, ok := f.(*types.Array)
		if !ok {
			c.fail("node-kind", where, fmt.Sprintf("%T %s", g, g), fmt.Sprintf("%T %s", f, f))
			return
		}
		if gt.Len() != ft.Len() {
			c.fail("array-len", where, fmt.Sprint(gt.Len()), fmt.Sprint(ft.Len()))
		}
		c.walk(where+".elem", gt.Elem(), ft.Elem(), depth+1)
	case *gotypes.Slice:
		c.r.Cover("node_kind", "slice")
		ft, ok := f.(*types.Slice)
		if !ok {
			c.fail("node-kind", where, fmt.Sprintf("%T %s", g, g), fmt.Sprintf("%T %s", f, f))
			return
		}
		c.walk(where+".elem", gt.Elem(), ft.Elem(), depth+1)
	case *gotypes.Pointer:
		c.r.Cover("node_kind", "pointer")
		ft, ok := f.(*types.Pointer)
		if !ok {
			c.fail("node-kind", where, fmt.Sprintf("%T %s", g, g), fmt.Sprintf("%T %s", f, f))
			return
		}
		c.walk(where+".elem", gt.Elem(), ft.Elem(), depth+1)
	case *gotypes.Chan:
		ft, ok := f.(*types.Chan)
		if !ok {
			c.fail("node-kind", where, fmt.Sprintf("%T %s", g, g), fmt.Sprintf("%T %s", f, f))
			return
		}
		c.r.Cover("node_kind", "chan")
		c.r.Cover("chan_dir", fmt.Sprint(int(gt.Dir())))
		if int(gt.Dir()) != int(ft.Dir()) {
			c.fail("chan-dir", where, fmt.Sprint(gt), fmt.Sprint(ft))
		}
		c.walk(where+".elem", gt.Elem(), ft.Elem(), depth+1)
	case *gotypes.Map:
		c.r.Cover("node_kind", "map")
		ft, ok := f.(*types.Map)
		if !ok {
			c.fail("node-kind", where, fmt.Sprintf("%T %s", g, g), fmt.Sprintf("%T %s", f, f))
			return
		}
		c.walk(where+".key", gt.Key(), ft.Key(), depth+1)
		c.walk(where+".elem", gt.Elem(), ft.Elem(), depth+1)
	case *gotypes.Tuple:
		c.r.Cover("node_kind", "tuple")
		ft, ok := f.(*types.Tuple)
		if !ok {
			c.fail("node-kind", where, fmt.Sprintf("%T %s", g, g), fmt.Sprintf("%T %s", f, f))
			return
		}
		c.tuple(where, gt, ft, depth)
	case *gotypes.Signature:
		ft, ok := f.(*types.Signature)
		if !ok {
			c.fail("node-kind", where, fmt.Sprintf("%T %s", g, g), fmt.Sprintf("%T %s", f, f))
			return
		}
		c.signature(where, gt, ft, depth, false)
	case *gotypes.Struct:
		c.r.Cover("node_kind", "struct")
		ft, ok := f.(*types.Struct)
		if !ok {
			c.fail("node-kind", where, fmt.Sprintf("%T %s", g, g), fmt.Sprintf("%T %s", f, f))
			return
		}
		if gt.NumFields() != ft.NumFields() {
			c.fail("struct-numfields", where, fmt.Sprint(gt.NumFields()), fmt.Sprint(ft.NumFields()))
			return
		}
		for i := 0; i < gt.NumFields(); i++ {
			gf, ff := gt.Field(i), ft.Field(i)
			w := fmt.Sprintf("%s.field[%d:%s]", where, i, gf.Name())
			c.r.Eval(1)
			if gf.Name() != ff.Name() || gf.Embedded() != ff.Embedded() || gf.IsField() != ff.IsField() ||
				gPkgPath(gf.Pkg()) != fPkgPath(ff.Pkg()) || gt.Tag(i) != ft.Tag(i) {
				c.fail("struct-field", w,
					fmt.Sprintf("name=%q embedded=%v isfield=%v pkg=%q tag=%q", gf.Name(), gf.Embedded(), gf.IsField(), gPkgPath(gf.Pkg()), gt.Tag(i)),
					fmt.Sprintf("name=%q embedded=%v isfield=%v pkg=%q tag=%q", ff.Name(), ff.Embedded(), ff.IsField(), fPkgPath(ff.Pkg()), ft.Tag(i)))
			}
			if gf.Embedded() {
				c.r.Cover("struct_field", "embedded")
			} else {
				c.r.Cover("struct_field", "plain")
			}
			if gt.Tag(i) != "" {
				c.r.Cover("struct_field", "tagged")
			}
			c.walk(w, gf.Type(), ff.Type(), depth+1)
		}
	case *gotypes.Interface:
		c.r.Cover("node_kind", "interface")
		ft, ok := f.(*types.Interface)
		if !ok {
			c.fail("node-kind", where, fmt.Sprintf("%T %s", g, g), fmt.Sprintf("%T %s", f, f))
			return
		}
		c.iface(where, gt, ft, depth)
	case *gotypes.Named:
		c.r.Cover("node_kind", "named")
		ft, ok := f.(*types.Named)
		if !ok {
			c.fail("node-kind", where, fmt.Sprintf("%T %s", g, g), fmt.Sprintf("%T %s", f, f))
			return
		}
		go_, fo := gt.Obj(), ft.Obj()
		if fo == nil || go_.Name() != fo.Name() || gPkgPath(go_.Pkg()) != fPkgPath(fo.Pkg()) {
			c.fail("named-identity", where, fmt.Sprint(gt), fmt.Sprint(ft))
			return
		}
		if c.shallow {
			return
		}
		// type identity must be preserved: one converted *Named per original *Named
		if prev, seen := c.g2f[gt]; seen {
			if prev != ft {
				c.fail("named-not-canonical", where, fmt.Sprint(gt), fmt.Sprintf("two distinct converted types for %s", ft))
			}
			return
		}
		if prev, seen := c.f2g[ft]; seen && prev != gt {
			c.fail("named-merged", where, fmt.Sprintf("%s and %s", prev, gt), fmt.Sprint(ft))
			return
		}
		c.g2f[gt] = ft
		c.f2g[ft] = gt
		c.queue = append(c.queue, c30Pair{gt, ft, where})
	default:
		c.r.Cover("node_kind", fmt.Sprintf("other:%T", g))
		c.r.Count("nodes_skipped_unknown_kind", 1)
	}
}

func (c *c30Cmp) tuple(where string, g *gotypes.Tuple, f *types.Tuple, depth int) {
	gl, fl := 0, 0
	if g != nil {
		gl = g.Len()
	}
	if f != nil {
		fl = f.Len()
	}
	c.r.Eval(1)
	if gl != fl {
		c.fail("tuple-len", where, fmt.Sprint(g), fmt.Sprint(f))
		return
	}
	for i := 0; i < gl; i++ {
		gv, fv := g.At(i), f.At(i)
		w := fmt.Sprintf("%s[%d]", where, i)
		if gv.Name() != fv.Name() {
			c.r.Count("param_names_differing", 1)
			c.known(c30FindingParamNames, w, gv.Name(), fv.Name())
		}
		c.walk(w, gv.Type(), fv.Type(), depth+1)
	}
}

func (c *c30Cmp) signature(where string, g *gotypes.Signature, f *types.Signature, depth int, withRecv bool) {
	c.r.Cover("node_kind", "signature")
	if g.TypeParams().Len() > 0 || g.RecvTypeParams().Len() > 0 {
		c.r.Count("nodes_skipped_generic", 1)
		return
	}
	c.r.Eval(1)
	if g.Variadic() {
		c.r.Cover("signature", "variadic")
	} else {
		c.r.Cover("signature", "fixed")
	}
	if g.Variadic() != f.Variadic() {
		c.fail("variadic", where, fmt.Sprint(g), fmt.Sprint(f))
	}
	c.tuple(where+".params", g.Params(), f.Params(), depth)
	c.tuple(where+".results", g.Results(), f.Results(), depth)
	if withRecv {
		gr, fr := g.Recv(), f.Recv()
		if (gr == nil) != (fr == nil) {
			c.fail("receiver-missing", where, fmt.Sprint(gr), fmt.Sprint(fr))
		} else if gr != nil {
			c.walk(where+".recv", gr.Type(), fr.Type(), depth+1)
		}
	}
}

func (c *c30Cmp) iface(where string, g *gotypes.Interface, f *types.Interface, depth int) {
	g.Complete()
	c.r.Eval(1)
	if c30Incomplete(f) {
		c.r.Count("interfaces_left_incomplete", 1)
		c.known(c30FindingIncomplete, where, fmt.Sprintf("%d methods: %s", g.NumMethods(), g), fmt.Sprintf("%d methods: %s", f.NumMethods(), f))
		return
	}
	if g.NumEmbeddeds() > 1 && f.NumMethods() > g.NumMethods() && c30DupMethods(f) {
		// embedded interfaces with overlapping method sets (legal since Go 1.14)
		c.r.Count("interfaces_with_duplicate_methods", 1)
		c.known(c30FindingOverlap, where, fmt.Sprintf("%d methods: %s", g.NumMethods(), g), fmt.Sprintf("%d methods: %s", f.NumMethods(), f))
		return
	}
	if g.NumExplicitMethods() != f.NumExplicitMethods() || g.NumEmbeddeds() != f.NumEmbeddeds() || g.NumMethods() != f.NumMethods() {
		c.fail("interface-shape", where,
			fmt.Sprintf("explicit=%d embedded=%d all=%d %s", g.NumExplicitMethods(), g.NumEmbeddeds(), g.NumMethods(), g),
			fmt.Sprintf("explicit=%d embedded=%d all=%d %s", f.NumExplicitMethods(), f.NumEmbeddeds(), f.NumMethods(), f))
		return
	}
	if g.NumEmbeddeds() > 0 {
		c.r.Cover("interface", "with-embedded")
	}
	if g.NumMethods() == 0 {
		c.r.Cover("interface", "empty")
	} else {
		c.r.Cover("interface", "methods")
	}
	// explicit methods, matched by id
	fm := map[string]*types.Func{}
	for i := 0; i < f.NumExplicitMethods(); i++ {
		m := f.ExplicitMethod(i)
		fm[fPkgPath(c30UnexportedPkgF(m))+"."+m.Name()] = m
	}
	for i := 0; i < g.NumExplicitMethods(); i++ {
		m := g.ExplicitMethod(i)
		id := gPkgPath(c30UnexportedPkgG(m)) + "." + m.Name()
		w := where + ".method[" + m.Name() + "]"
		fmm := fm[id]
		if fmm == nil {
			c.fail("interface-method-missing", w, m.String(), "")
			continue
		}
		c.signature(w, m.Type().(*gotypes.Signature), fmm.Type().(*types.Signature), depth+1, false)
	}
	// embedded types: both sides sort them, match by printed form
	fe := map[string]types.Type{}
	for i := 0; i < f.NumEmbeddeds(); i++ {
		fe[types.TypeString(f.EmbeddedType(i), nil)] = f.EmbeddedType(i)
	}
	for i := 0; i < g.NumEmbeddeds(); i++ {
		ge := g.EmbeddedType(i)
		key := c30Rewrite(gotypes.TypeString(ge, nil), c30AnyRepl)
		w := fmt.Sprintf("%s.embedded[%s]", where, key)
		fet := fe[key]
		if fet == nil {
			fet = fe[c30Rewrite(key, c30ByteRuneRepl)]
		}
		if fet == nil {
			c.fail("interface-embedded-missing", w, key, fmt.Sprint(f))
			continue
		}
		c.walk(w, ge, fet, depth+1)
	}
	if c.shallow {
		return // the complete method list is not printed
	}
	// complete method set
	fa := map[string]*types.Func{}
	for i := 0; i < f.NumMethods(); i++ {
		m := f.Method(i)
		fa[fPkgPath(c30UnexportedPkgF(m))+"."+m.Name()] = m
	}
	for i := 0; i < g.NumMethods(); i++ {
		m := g.Method(i)
		id := gPkgPath(c30UnexportedPkgG(m)) + "." + m.Name()
		w := where + ".allmethod[" + m.Name() + "]"
		fmm := fa[id]
		if fmm == nil {
			c.fail("interface-allmethod-missing", w, m.String(), "")
			continue
		}
		c.signature(w, m.Type().(*gotypes.Signature), fmm.Type().(*types.Signature), depth+1, false)
	}
}

// c30DupMethods: the complete method list of f holds the same method twice
func c30DupMethods(f *types.Interface) bool {
	seen := map[string]bool{}
	for i := 0; i < f.NumMethods(); i++ {
		id := f.Method(i).Id()
		if seen[id] {
			return true
		}
		seen[id] = true
	}
	return false
}

// c30Incomplete: Complete() was never called on f (or on an interface it embeds)
func c30Incomplete(f *types.Interface) bool {
	if f.NumMethods() < f.NumExplicitMethods() {
		return true
	}
	if f.NumMethods() == 0 && (f.NumExplicitMethods() > 0 || f.NumEmbeddeds() > 0) {
		return true
	}
	// an empty interface: only the printer can tell
	return f.NumMethods() == 0 && strings.Contains(types.TypeString(f, nil), "/* incomplete */")
}

// the package only matters for the identity of unexported names
func c30UnexportedPkgG(o gotypes.Object) *gotypes.Package {
	if o.Exported() {
		return nil
	}
	return o.Pkg()
}
func c30UnexportedPkgF(o types.Object) *types.Package {
	if o.Exported() {
		return nil
	}
	return o.Pkg()
}

// drain compares underlying type, declared methods and method sets of every
// named type discovered so far (each original named type once per comparator).
func (c *c30Cmp) drain() {
	for len(c.queue) > 0 {
		p := c.queue[len(c.queue)-1]
		c.queue = c.queue[:len(c.queue)-1]
		c.named(p)
	}
}

func (c *c30Cmp) named(p c30Pair) {
	g, f := p.g, p.f
	name := gotypes.TypeString(g, nil)
	where := "type(" + name + ")"
	c.r.Count("named_types_compared", 1)
	if f.Underlying() == nil {
		c.fail("named-no-underlying", where, fmt.Sprint(g.Underlying()), "<nil>")
		return
	}
	if fi, ok := f.Underlying().(*types.Interface); ok && c30Incomplete(fi) {
		c.affected[g] = c30FindingIncomplete // reported by iface() below
	} else if ok && c30DupMethods(fi) {
		c.affected[g] = c30FindingOverlap // reported by iface() below
	}
	c.walk(where+".underlying", g.Underlying(), f.Underlying(), 0)
	c.r.Cover("named_underlying", fmt.Sprintf("%T", g.Underlying()))

	// declared methods (receiver included): catches methods attached to the wrong Named
	_, isIface := g.Underlying().(*gotypes.Interface)
	if !isIface {
		c.r.Eval(1)
		fm := map[string]*types.Func{}
		for i := 0; i < f.NumMethods(); i++ {
			m := f.Method(i)
			id := fPkgPath(c30UnexportedPkgF(m)) + "." + m.Name()
			if fm[id] != nil {
				c.fail("declared-method-duplicated", where+".method["+m.Name()+"]", "", m.String())
			}
			fm[id] = m
		}
		lost := f.NumMethods() == 0 && g.NumMethods() > 0
		if lost {
			// every declared method is gone: Converter.Package left this type in toaddmethods
			c.affected[g] = c30FindingLateMethods
			c.r.Count("named_types_with_all_methods_lost", 1)
			c.known(c30FindingLateMethods, where, "declared methods "+c30GMethodNames(g), "declared methods "+c30FMethodNames(f))
		} else if g.NumMethods() != f.NumMethods() {
			c.fail("declared-methods-count", where, c30GMethodNames(g), c30FMethodNames(f))
		}
		for i := 0; !lost && i < g.NumMethods(); i++ {
			m := g.Method(i)
			id := gPkgPath(c30UnexportedPkgG(m)) + "." + m.Name()
			w := where + ".method[" + m.Name() + "]"
			fmm := fm[id]
			if fmm == nil {
				c.fail("declared-method-missing", w, m.String(), c30FMethodNames(f))
				continue
			}
			gs := m.Type().(*gotypes.Signature)
			fs := fmm.Type().(*types.Signature)
			if gPkgPath(m.Pkg()) != fPkgPath(fmm.Pkg()) {
				c.fail("declared-method-pkg", w, gPkgPath(m.Pkg()), fPkgPath(fmm.Pkg()))
			}
			if gs.Recv() != nil {
				if _, ptr := gs.Recv().Type().(*gotypes.Pointer); ptr {
					c.r.Cover("method_receiver", "pointer")
				} else {
					c.r.Cover("method_receiver", "value")
				}
			}
			c.signature(w, gs, fs, 0, true)
			c.printed(w, gs, fs)
			// the receiver's base type must be this very named type
			if fs.Recv() != nil {
				rt := fs.Recv().Type()
				if pt, ok := rt.(*types.Pointer); ok {
					rt = pt.Elem()
				}
				if rt != types.Type(f) {
					c.fail("declared-method-wrong-receiver", w, fmt.Sprint(gs.Recv().Type()), fmt.Sprint(fs.Recv().Type()))
				}
			}
		}
	}
	// method sets of T and *T
	c.msOwner = g
	c.methodSet(where+".methodset(T)", g, f)
	c.methodSet(where+".methodset(*T)", gotypes.NewPointer(g), types.NewPointer(f))
	c.msOwner = nil
}

func c30GMethodNames(g *gotypes.Named) string {
	var s []string
	for i := 0; i < g.NumMethods(); i++ {
		s = append(s, g.Method(i).Name())
	}
	sort.Strings(s)
	return fmt.Sprint(s)
}
func c30FMethodNames(f *types.Named) string {
	var s []string
	for i := 0; i < f.NumMethods(); i++ {
		s = append(s, f.Method(i).Name())
	}
	sort.Strings(s)
	return fmt.Sprint(s)
}

func (c *c30Cmp) methodSet(where string, g gotypes.Type, f types.Type) {
	gms := gotypes.NewMethodSet(g)
	fms := types.NewMethodSet(f)
	c.r.Eval(1)
	c.r.Count("method_sets_compared", 1)
	if gms.Len() > 0 {
		c.r.Count("method_sets_nonempty", 1)
	}
	fm := map[string]*types.Selection{}
	var fnames []string
	for i := 0; i < fms.Len(); i++ {
		s := fms.At(i)
		fm[fPkgPath(c30UnexportedPkgF(s.Obj()))+"."+s.Obj().Name()] = s
		fnames = append(fnames, s.Obj().Name())
	}
	var gnames []string
	for i := 0; i < gms.Len(); i++ {
		gnames = append(gnames, gms.At(i).Obj().Name())
	}
	if c.verbose {
		fmt.Printf("  %s:\n    original : %v\n    converted: %v\n", where, gnames, fnames)
	}
	gm := map[string]bool{}
	for i := 0; i < gms.Len(); i++ {
		gm[gPkgPath(c30UnexportedPkgG(gms.At(i).Obj()))+"."+gms.At(i).Obj().Name()] = true
	}
	for id, s := range fm {
		if gm[id] {
			continue
		}
		w := where + "[" + s.Obj().Name() + "]"
		// does the original resolve this name to a FIELD declared at a shallower depth?
		var gpkg *gotypes.Package
		if p := s.Obj().Pkg(); p != nil {
			gpkg = gotypes.NewPackage(p.Path(), p.Name())
		}
		if obj, _, _ := gotypes.LookupFieldOrMethod(g, true, gpkg, s.Obj().Name()); obj != nil {
			if v, ok := obj.(*gotypes.Var); ok && v.IsField() {
				c.r.Count("method_set_entries_shadowed_by_field", 1)
				c.known(c30FindingFieldShadow, w, "field "+v.String()+" hides the promoted method", s.String())
				continue
			}
		}
		c.fail("method-set-extra", w, fmt.Sprint(gnames), s.String())
	}
	for i := 0; i < gms.Len(); i++ {
		gs := gms.At(i)
		id := gPkgPath(c30UnexportedPkgG(gs.Obj())) + "." + gs.Obj().Name()
		w := where + "[" + gs.Obj().Name() + "]"
		fs := fm[id]
		if fs == nil {
			c.fail("method-set-missing", w, gs.String(), fmt.Sprint(fnames))
			continue
		}
		c.r.Eval(1)
		if len(gs.Index()) > 1 {
			c.r.Cover("method_set_entry", "promoted")
		} else {
			c.r.Cover("method_set_entry", "direct")
		}
		if gf, ok := gs.Obj().(*gotypes.Func); ok && gf.Origin() != gf {
			// method of an instantiated generic type reached through embedding
			c.r.Count("method_set_entries_skipped_generic", 1)
			continue
		}
		if gs.Indirect() != fs.Indirect() || len(gs.Index()) != len(fs.Index()) {
			c.fail("method-set-path", w, fmt.Sprintf("index=%v indirect=%v", gs.Index(), gs.Indirect()), fmt.Sprintf("index=%v indirect=%v", fs.Index(), fs.Indirect()))
		} else {
			gi, fi := gs.Index(), fs.Index()
			for k := 0; k+1 < len(gi); k++ { // embedding path (the last element is the position in the declaration list)
				if gi[k] != fi[k] {
					c.fail("method-set-path", w, fmt.Sprint(gi), fmt.Sprint(fi))
					break
				}
			}
		}
		gsig, ok1 := gs.Type().(*gotypes.Signature)
		fsig, ok2 := fs.Type().(*types.Signature)
		if !ok1 || !ok2 {
			c.fail("method-set-type", w, fmt.Sprint(gs.Type()), fmt.Sprint(fs.Type()))
			continue
		}
		c.printed(w, gsig, fsig)
		c.signature(w, gsig, fsig, 0, false)
	}
}

// objectGuarded: the comparison uses the fork's own accessors (NewMethodSet,
// Selection.Type, TypeString) on the converted types. If one of them panics, the
// converted structure is malformed: that is a verdict. Any other panic is a harness bug.
func (c *c30Cmp) objectGuarded(g gotypes.Object, f types.Object) {
	defer func() {
		if e := recover(); e != nil {
			buf := make([]byte, 16384)
			buf = buf[:runtime.Stack(buf, false)]
			if !strings.Contains(string(buf), "github.com/cosmos72/gomacro/go/types.") {
				panic(e)
			}
			c.msOwner = nil
			c.queue = c.queue[:0]
			c.pending = c.pending[:0]
			c.nobj = 0
			c.r.Count("fork_accessor_panics", 1)
			frames := ""
			for _, l := range strings.Split(string(buf), "\n") {
				if strings.HasPrefix(l, "github.com/cosmos72/gomacro/go/types.") {
					frames += " " + l
				}
			}
			c.fail("converted-type-crashes-fork-accessor", "object", g.String(), fmt.Sprintf("panic: %v in%s", e, frames))
		}
	}()
	c.object(g, f)
}

// object compares one exported package-level object.
func (c *c30Cmp) object(g gotypes.Object, f types.Object) {
	c.nobj = 0
	c.name = g.Name()
	r := c.r
	r.Eval(1)
	gclass, fclass := c30ClassG(g), c30ClassF(f)
	r.Cover("object_class", gclass)
	if gclass != fclass {
		c.fail("object-class", "object", gclass+" "+g.String(), fclass+" "+f.String())
		return
	}
	if g.Name() != f.Name() || gPkgPath(g.Pkg()) != fPkgPath(f.Pkg()) {
		c.fail("object-identity", "object", g.String(), f.String())
	}
	if r.Distinct(c.pkg + "|" + g.Name() + "|" + gotypes.TypeString(g.Type(), nil)) {
		if r.Counter("sampled_"+gclass) < 2 && r.Counter("sampled") < 6 {
			r.Count("sampled_"+gclass, 1)
			r.Count("sampled", 1)
			r.Sample(map[string]string{"route": c.route, "object": g.String(), "converted": f.String()})
		}
	}
	if gc, ok := g.(*gotypes.Const); ok {
		fc := f.(*types.Const)
		r.Eval(1)
		r.Cover("const_kind", gc.Val().Kind().String())
		if fc.Val() == nil || gc.Val().Kind() != fc.Val().Kind() || !constant.Compare(gc.Val(), token.EQL, fc.Val()) {
			c.fail("const-value", "value", fmt.Sprintf("%s (%s)", gc.Val().ExactString(), gc.Val().Kind()), fmt.Sprintf("%v", fc.Val()))
		}
		if gb, ok := gc.Type().(*gotypes.Basic); ok && gb.Info()&gotypes.IsUntyped != 0 {
			r.Cover("const_type", "untyped")
		} else {
			r.Cover("const_type", "typed")
		}
	}
	if gt, ok := g.(*gotypes.TypeName); ok {
		ft := f.(*types.TypeName)
		if gt.IsAlias() {
			r.Cover("typename", "alias")
		} else {
			r.Cover("typename", "defined")
		}
		if gt.IsAlias() != ft.IsAlias() {
			r.Count("info_isalias_differs", 1) // not part of the property; implied by the structure walk
		}
	}
	c.printed("type", g.Type(), f.Type())
	if g.Type() != nil && f.Type() != nil && f.Type().Underlying() != nil && !c30MentionsGeneric(g.Type().Underlying(), 0) {
		c.printed("type.underlying", g.Type().Underlying(), f.Type().Underlying())
	}
	withRecv := false
	if gs, ok := g.Type().(*gotypes.Signature); ok {
		if fs, ok := f.Type().(*types.Signature); ok {
			c.signature("type", gs, fs, 0, withRecv)
		} else {
			c.fail("node-kind", "type", fmt.Sprint(g.Type()), fmt.Sprint(f.Type()))
		}
	} else {
		c.walk("type", g.Type(), f.Type(), 0)
	}
	c.drain()
	c.adjudicate()
}

func c30ClassG(o gotypes.Object) string {
	switch o.(type) {
	case *gotypes.Const:
		return "const"
	case *gotypes.Var:
		return "var"
	case *gotypes.Func:
		return "func"
	case *gotypes.TypeName:
		return "type"
	case *gotypes.Builtin:
		return "builtin"
	case nil:
		return "missing"
	}
	return fmt.Sprintf("%T", o)
}

func c30ClassF(o types.Object) string {
	switch o.(type) {
	case *types.Const:
		return "const"
	case *types.Var:
		return "var"
	case *types.Func:
		return "func"
	case *types.TypeName:
		return "type"
	case *types.Builtin:
		return "builtin"
	case nil:
		return "missing"
	}
	return fmt.Sprintf("%T", o)
}

// pkgCompare compares the exported scope of one package. only != "" restricts to one object.
func (c *c30Cmp) pkgCompare(g *gotypes.Package, f *types.Package, only string) {
	r := c.r
	c.pkg = g.Path()
	c.name = ""
	c.nobj = 0
	r.Eval(1)
	if f == nil {
		c.fail("package-missing", "package", g.String(), "<nil>")
		return
	}
	if g.Path() != f.Path() || g.Name() != f.Name() {
		c.fail("package-identity", "package", g.Path()+" "+g.Name(), f.Path()+" "+f.Name())
	}
	gscope, fscope := g.Scope(), f.Scope()
	skipped := map[string]bool{}
	for _, name := range gscope.Names() {
		if !token.IsExported(name) || (only != "" && name != only) {
			continue
		}
		gobj := gscope.Lookup(name)
		if _, ok := gobj.(*gotypes.Builtin); ok {
			// unsafe.Sizeof & co: not const/var/func/type, outside the property
			skipped[name] = true
			r.Count("objects_skipped_builtin", 1)
			continue
		}
		if c30GenericDecl(gobj) {
			skipped[name] = true
			if c.phase == "after-import" {
				r.Count("objects_skipped_generic_decl", 1)
				r.Cover("generic_decl_skipped", c.pkg+"."+name)
			}
			continue
		}
		fobj := fscope.Lookup(name)
		c.name = name
		c.nobj = 0
		r.Eval(1)
		if fobj == nil {
			c.fail("name-missing", "scope", gobj.String(), "<absent>")
			continue
		}
		c.objectGuarded(gobj, fobj)
	}
	if only != "" {
		return
	}
	for _, name := range fscope.Names() {
		if !token.IsExported(name) || skipped[name] {
			continue
		}
		r.Eval(1)
		if gscope.Lookup(name) == nil {
			c.name = name
			c.nobj = 0
			c.fail("name-extra", "scope", "<absent>", fscope.Lookup(name).String())
		}
	}
}

// ---------------------------------------------------------------- sessions

type c30Session struct {
	route  string
	order  []string
	issues []c30Issue
	err    string // harness / environment trouble (-> inconclusive)
}

type c30Loaded struct {
	path string
	g    *gotypes.Package
	f    *types.Package
	gen  int // which converter of the session produced f
}

// converted side of one session
type c30Conv struct {
	route string
	univ  *xreflect.Universe // importer route
	conv  *types.Converter   // source route
}

func c30NewConv(route string) *c30Conv {
	cv := &c30Conv{route: route}
	if route == "importer" {
		cv.univ = xreflect.NewUniverse()
	} else {
		cv.conv = &types.Converter{}
		cv.conv.Init(types.Universe)
	}
	return cv
}

// convert runs the code under test. A panic escaping from it is a finding about
// gomacro (importing a standard package must not crash), not a harness failure.
func (cv *c30Conv) convert(path string, g *gotypes.Package) (f *types.Package, panicked string) {
	defer func() {
		if e := recover(); e != nil {
			buf := make([]byte, 2048)
			buf = buf[:runtime.Stack(buf, false)]
			f, panicked = nil, fmt.Sprintf("%v\n%s", e, buf)
		}
	}()
	return cv.convert0(path, g), ""
}

func (cv *c30Conv) convert0(path string, g *gotypes.Package) *types.Package {
	if cv.route == "importer" {
		return cv.univ.LoadPackage(path).GoPackage()
	}
	return cv.conv.Package(g)
}

// export data files of the packages (and their dependencies), from ONE `go list` run;
// without it every import of the original side would start its own `go list`
var c30Exports map[string]string

func c30LoadExports(pkgs []string) {
	args := append([]string{"list", "-export", "-deps", "-f", "{{.ImportPath}}\t{{.Export}}"}, pkgs...)
	out, err := exec.Command("go", args...).Output()
	if err != nil {
		return
	}
	m := map[string]string{}
	for _, line := range strings.Split(string(out), "\n") {
		if f := strings.Split(line, "\t"); len(f) == 2 && f[1] != "" {
			m[f[0]] = f[1]
		}
	}
	c30Exports = m
}

func c30NewOrigImporter(route string) gotypes.Importer {
	if route == "importer" {
		if c30Exports == nil {
			return importer.Default()
		}
		return importer.ForCompiler(token.NewFileSet(), "gc", func(path string) (io.ReadCloser, error) {
			if path == "unsafe" {
				return nil, fmt.Errorf("unsafe has no export data")
			}
			file := c30Exports[path]
			if file == "" {
				return nil, fmt.Errorf("no export data for %q", path)
			}
			return os.Open(file)
		})
	}
	return importer.ForCompiler(token.NewFileSet(), "source", nil)
}

func (s *c30Session) run(r *fw.Run) {
	defer func() {
		if e := recover(); e != nil {
			buf := make([]byte, 4096)
			buf = buf[:runtime.Stack(buf, false)]
			s.err = fmt.Sprintf("harness panic in %s session: %v\n%s", s.route, e, buf)
		}
	}()
	orig := c30NewOrigImporter(s.route)
	cv := c30NewConv(s.route)
	var loaded []c30Loaded
	var prior []string
	gen := 0
	for _, path := range s.order {
		g, err := orig.Import(path)
		if err != nil || g == nil {
			r.Count("packages_not_loadable_"+s.route, 1)
			r.Cover("not_loadable", s.route+":"+path)
			continue
		}
		f, panicked := cv.convert(path, g)
		if panicked != "" {
			r.Count("converter_panics", 1)
			rep := c30Replay{Route: s.route, Prior: append([]string{}, prior...), Pkg: path, Where: "package", Conv: fw.Clip(panicked, 400), Phase: "after-import"}
			what := fmt.Sprintf("[%s] converting package %q (after %d other packages) panicked: %s", s.route, path, len(prior), fw.Clip(panicked, 1500))
			if strings.Contains(panicked, "importing generic functions or types is not supported yet") && strings.Contains(panicked, "(*Converter).addmethods") {
				// the "unsupported generic" panic is meant to be caught per object, but escapes from addmethods
				s.issues = append(s.issues, c30Issue{tag: c30FindingGenericPanic, known: c30FindingGenericPanic, rep: rep, what: what})
			} else {
				s.issues = append(s.issues, c30Issue{tag: "converter-panic", rep: rep, what: what})
			}
			// the failed entry stays in the converter and makes every later import panic too:
			// go on with a fresh converter so that the remaining packages are still compared
			cv = c30NewConv(s.route)
			prior = nil
			gen++
			f, panicked = cv.convert(path, g)
			if panicked != "" {
				r.Count("packages_crashing_a_fresh_converter", 1)
				r.Cover("crashes_fresh_converter", path)
				cv = c30NewConv(s.route)
				gen++
				continue
			}
			r.Count("packages_crashing_only_a_used_converter", 1)
		}
		if s.route == "importer" && f != nil && len(f.Scope().Names()) == 0 && len(g.Scope().Names()) > 0 {
			// LoadPackage hands out an empty package when the import itself failed: find out why
			if _, err := xreflect.DefaultImporter().Import(path); err != nil {
				s.err = fmt.Sprintf("xreflect importer cannot load %q although go/importer can: %v", path, err)
				return
			}
		}
		r.Count("packages_compared_"+s.route, 1)
		r.Cover("package", path)
		cmp := c30NewCmp(r, s.route, &s.issues)
		cmp.prior = append([]string{}, prior...)
		cmp.phase = "after-import"
		cmp.pkgCompare(g, f, "")
		loaded = append(loaded, c30Loaded{path: path, g: g, f: f, gen: gen})
		prior = append(prior, path)
	}
	// later conversions must not have damaged earlier packages
	// (one comparator per converter: types of different converters are unrelated)
	cmps := map[int]*c30Cmp{}
	for _, l := range loaded {
		cmp := cmps[l.gen]
		if cmp == nil {
			cmp = c30NewCmp(r, s.route, &s.issues)
			cmp.phase = "end-of-session"
			for _, l2 := range loaded {
				if l2.gen == l.gen {
					cmp.prior = append(cmp.prior, l2.path)
				}
			}
			cmps[l.gen] = cmp
		}
		cmp.pkgCompare(l.g, l.f, "")
	}
}

// ---------------------------------------------------------------- package lists

func c30StdFromImports() []string {
	var paths []string
	for p := range imports.Packages {
		first := strings.SplitN(p, "/", 2)[0]
		if strings.Contains(first, ".") {
			continue
		}
		paths = append(paths, p)
	}
	sort.Strings(paths)
	return paths
}

func c30GoListStd() []string {
	out, err := exec.Command("go", "list", "std").Output()
	if err != nil {
		return nil
	}
	var res []string
	for _, p := range strings.Fields(string(out)) {
		if p == "builtin" || strings.HasPrefix(p, "vendor/") || strings.Contains(p, "internal") || strings.HasPrefix(p, "cmd/") {
			continue
		}
		res = append(res, p)
	}
	sort.Strings(res)
	return res
}

// ---------------------------------------------------------------- the check

func checkC30(r *fw.Run) {
	r.SetRule("packages = standard-library entries of imports.Packages (quick: fixed core of 11 + 30 chosen by seed; thorough: all of them plus every other non-internal std package, three rounds with different partitions); each session converts its packages in a seeded order through ONE shared converter (importer route: xreflect.Universe.LoadPackage; source route: Converter.Package on the source-type-checked package); a case = one exported package-level object; distinct = distinct (package, name, original type string); oracle = original go/types package vs converted package compared in lock step: exported names, object class, constant value+kind, printed type and underlying type, declared methods with receivers, method sets of T and *T (names, embedding path, signature strings), recursive structure of every reachable named type, one converted Named per original Named; generic declarations, instantiations and unsafe builtins are skipped and counted")
	r.Assume("go/importer (\"gc\" export data via `go list -export`, and \"source\") describes the standard library correctly; the original and gomacro's private copy of the gc importer read the same export data")
	r.Assume("GODEBUG gotypesalias=0 (go.mod says go 1.18, as gomacro's own go.mod): no *types.Alias nodes reach the converter")
	r.Assume("etoken.GENERICS is GENERICS_NONE, so the fork adds no predeclared CTI methods to method sets")
	r.Assume("the fork's and go/types' printers agree except for the spelling of the predeclared empty interface (any) and the order of the elements of an interface (the fork keeps embedded interfaces sorted); both are normalised before comparing")
	if etoken.GENERICS.V2_CTI() {
		r.Inconclusive("etoken.GENERICS is V2_CTI in this process")
		return
	}

	// replay of one case. Two of the known defects depend on Go's randomised map
	// iteration inside Converter.Package, so a case is re-run with fresh converters
	// until the recorded discrepancy shows up again (at most 25 times).
	if p := fw.ReplayArg(); p != "" {
		var rep c30Replay
		if err := fw.LoadReplay(p, &rep); err != nil {
			panic(err)
		}
		r.SetMinDistinct(0)
		c30LoadExports(append(append([]string{}, rep.Prior...), rep.Pkg))
		fmt.Printf("replay: route=%s package=%s object=%q place=%s after %d other packages (%s)\n", rep.Route, rep.Pkg, rep.Name, rep.Where, len(rep.Prior), rep.Phase)
		fmt.Printf("  recorded original : %s\n  recorded converted: %s\n", rep.Orig, rep.Conv)
		const attempts = 25
		for k := 1; k <= attempts; k++ {
			var issues []c30Issue
			orig := c30NewOrigImporter(rep.Route)
			cv := c30NewConv(rep.Route)
			var g *gotypes.Package
			var f *types.Package
			saved := os.Stdout
			if null, err := os.OpenFile(os.DevNull, os.O_WRONLY, 0); err == nil {
				os.Stdout = null // the converter's own warnings
				defer null.Close()
			}
			for _, path := range rep.Prior { // end-of-session replays list the whole session here, rep.Pkg included
				gp, err := orig.Import(path)
				if err != nil {
					continue
				}
				fp, panicked := cv.convert(path, gp)
				if panicked != "" {
					os.Stdout = saved
					fmt.Printf("attempt %d: converting %q panicked: %s\n", k, path, panicked)
					os.Stdout, _ = os.OpenFile(os.DevNull, os.O_WRONLY, 0)
				}
				if path == rep.Pkg {
					g, f = gp, fp
				}
			}
			if g == nil {
				var err error
				g, err = orig.Import(rep.Pkg)
				if err != nil {
					os.Stdout = saved
					r.Inconclusive(fmt.Sprintf("cannot load %q: %v", rep.Pkg, err))
					return
				}
				var panicked string
				f, panicked = cv.convert(rep.Pkg, g)
				if panicked != "" {
					os.Stdout = saved
					fmt.Printf("attempt %d: converting %q panicked: %s\n", k, rep.Pkg, panicked)
					r.Violation("converter-panic", rep, "converting "+rep.Pkg+" panicked: "+panicked)
					return
				}
			}
			os.Stdout = saved
			cmp := c30NewCmp(r, rep.Route, &issues)
			cmp.prior = rep.Prior
			cmp.phase = rep.Phase
			cmp.pkgCompare(g, f, rep.Name)
			hit := false
			for _, is := range issues {
				if is.rep.Where == rep.Where {
					hit = true
				}
			}
			if !hit && k < attempts {
				continue
			}
			fmt.Printf("attempt %d: %d discrepancies for this object\n", k, len(issues))
			if rep.Name != "" {
				fmt.Printf("  original object : %v\n", g.Scope().Lookup(rep.Name))
				if f != nil {
					fmt.Printf("  converted object: %v\n", f.Scope().Lookup(rep.Name))
				}
			}
			others := 0
			for _, is := range issues {
				if is.rep.Where == rep.Where {
					fmt.Printf("  %s: %s\n", is.tag, fw.Clip(is.what, 900))
				} else {
					others++
				}
			}
			if others > 0 {
				fmt.Printf("  (+ %d discrepancies at other places of the same object)\n", others)
			}
			if !hit {
				fmt.Printf("the recorded discrepancy did not show up again in %d attempts\n", attempts)
			}
			c30Flush(r, issues)
			return
		}
		return
	}

	// ---- case list
	std := c30StdFromImports()
	if len(std) < 100 {
		r.Inconclusive(fmt.Sprintf("imports.Packages lists only %d standard packages", len(std)))
		return
	}
	rng := r.Rng("packages")
	var rounds [][]string // each round: package list for the importer route
	var srcList []string
	nsess := 6
	if r.Thorough() {
		all := append([]string{}, std...)
		seen := map[string]bool{}
		for _, p := range all {
			seen[p] = true
		}
		extra := 0
		for _, p := range c30GoListStd() {
			if !seen[p] {
				all = append(all, p)
				seen[p] = true
				extra++
			}
		}
		r.Count("std_packages_outside_imports_table", int64(extra))
		for k := 0; k < 3; k++ {
			l := append([]string{}, all...)
			rng.Shuffle(len(l), func(i, j int) { l[i], l[j] = l[j], l[i] })
			rounds = append(rounds, l)
		}
		srcList = append([]string{}, all...)
		rng.Shuffle(len(srcList), func(i, j int) { srcList[i], srcList[j] = srcList[j], srcList[i] })
		nsess = 8
		r.SetExhaustive(true)
	} else {
		chosen := map[string]bool{}
		var l []string
		for _, p := range c30Core {
			chosen[p] = true
			l = append(l, p)
		}
		perm := rng.Perm(len(std))
		for _, i := range perm {
			if len(l) >= len(c30Core)+30 {
				break
			}
			if !chosen[std[i]] {
				chosen[std[i]] = true
				l = append(l, std[i])
			}
		}
		rng.Shuffle(len(l), func(i, j int) { l[i], l[j] = l[j], l[i] })
		rounds = append(rounds, l)
		// source route: a handful of the chosen packages (type-checking from source is slow)
		srng := r.Rng("source")
		sp := srng.Perm(len(l))
		for _, i := range sp {
			if len(srcList) >= 8 {
				break
			}
			srcList = append(srcList, l[i])
		}
	}
	r.Extra("packages_importer_route", rounds[0])
	r.Extra("packages_source_route", srcList)

	c30LoadExports(rounds[0])
	if c30Exports == nil {
		r.Count("go_list_export_map_unavailable", 1)
	}

	// ---- sessions
	var sessions []*c30Session
	for _, l := range rounds {
		for k := 0; k < nsess; k++ {
			s := &c30Session{route: "importer"}
			for i := k; i < len(l); i += nsess {
				s.order = append(s.order, l[i])
			}
			sessions = append(sessions, s)
		}
	}
	// the source route shares one (non goroutine-safe) source importer per session
	nsrc := 1
	if r.Thorough() {
		nsrc = 4
	}
	for k := 0; k < nsrc; k++ {
		s := &c30Session{route: "source"}
		for i := k; i < len(srcList); i += nsrc {
			s.order = append(s.order, srcList[i])
		}
		sessions = append(sessions, s)
	}

	// the converter prints "// warning: skipping import of ..." straight to os.Stdout:
	// capture it while the sessions run, report afterwards
	dir := fw.WorkDir("c30")
	defer os.RemoveAll(dir)
	capPath := filepath.Join(dir, "converter-stdout.txt")
	capFile, err := os.Create(capPath)
	if err != nil {
		panic(err)
	}
	realStdout := os.Stdout
	os.Stdout = capFile
	restored := false
	restore := func() {
		if !restored {
			os.Stdout = realStdout
			capFile.Close()
			restored = true
		}
	}
	defer restore()

	sem := make(chan struct{}, runtime.NumCPU())
	var wg sync.WaitGroup
	for _, s := range sessions {
		wg.Add(1)
		go func(s *c30Session) {
			defer wg.Done()
			sem <- struct{}{}
			defer func() { <-sem }()
			s.run(r)
		}(s)
	}
	wg.Wait()
	restore()

	// ---- converter warnings: every one must be about a generic declaration we skipped
	if fh, err := os.Open(capPath); err == nil {
		sc := bufio.NewScanner(fh)
		sc.Buffer(make([]byte, 1<<20), 1<<20)
		for sc.Scan() {
			line := sc.Text()
			if !strings.HasPrefix(line, "// warning: skipping import of") {
				r.Count("converter_stdout_other_lines", 1)
				continue
			}
			r.Count("converter_warnings", 1)
			switch {
			case strings.Contains(line, "importing generic functions or types is not supported yet"):
				r.Cover("converter_warning", "generic")
			case strings.Contains(line, "*types.Union"), strings.Contains(line, "*types.TypeParam"):
				r.Cover("converter_warning", "constraint-interface")
			default:
				r.Cover("converter_warning", "other")
				r.Sample(map[string]string{"unexpected_converter_warning": fw.Clip(line, 300)})
			}
		}
		fh.Close()
	}

	// ---- verdicts
	nIncon := 0
	for _, s := range sessions {
		if s.err != "" {
			nIncon++
			r.Inconclusive(s.err)
		}
	}
	var issues []c30Issue
	for _, s := range sessions {
		issues = append(issues, s.issues...)
	}
	c30Flush(r, issues)
	if r.Counter("packages_compared_importer") < int64(len(rounds[0])*len(rounds)*9/10) && nIncon == 0 {
		r.Inconclusive(fmt.Sprintf("only %d of %d packages could be loaded through the importer route", r.Counter("packages_compared_importer"), len(rounds[0])*len(rounds)))
	}
}

// c30Flush reports buffered issues: genuine discrepancies first (identical
// (tag, package, object, place) found again in another phase/round once), then one
// witness per package for each known finding.
func c30Flush(r *fw.Run, issues []c30Issue) {
	if p := os.Getenv("C30_DUMP"); p != "" { // development aid: every buffered issue, one per line
		var b strings.Builder
		for _, is := range issues {
			fmt.Fprintf(&b, "%s\t%s\n", is.tag, strings.Join(strings.Fields(is.what), " "))
		}
		os.WriteFile(p, []byte(b.String()), 0o644)
	}
	seen := map[string]bool{}
	for _, is := range issues {
		if is.known != "" {
			continue
		}
		key := is.tag + "|" + is.rep.Route + "|" + is.rep.Pkg + "|" + is.rep.Name + "|" + is.rep.Where
		if seen[key] {
			continue
		}
		seen[key] = true
		r.Violation(is.tag, is.rep, is.what)
	}
	for _, is := range issues {
		if is.known == "" {
			continue
		}
		r.Count("known_"+is.known, 1)
		key := is.known + "|" + is.rep.Pkg
		if seen[key] {
			continue
		}
		seen[key] = true
		r.Known(is.known, is.rep, is.what)
	}
}
