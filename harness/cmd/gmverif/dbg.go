package main

// `gmverif run1 <file.go-ish>`: evaluate one plain source (defining P) in the interpreter and print the trace.
// `gmverif both <file>`: run it on both sides and print the comparison.

import (
	"fmt"
	"os"
	"strings"

	"gmverif/internal/fw"
)

func init() {
	auxCmds["run1"] = func(args []string) {
		data, err := os.ReadFile(args[0])
		if err != nil {
			panic(err)
		}
		p := &Prog{ID: "run1", Src: string(data), Mode: map[string]string{}}
		for _, a := range args[1:] {
			kv := strings.SplitN(a, "=", 2)
			if len(kv) == 2 {
				p.Mode[kv[0]] = kv[1]
			}
		}
		res := runProgFast(p)
		for _, e := range res.Events {
			fmt.Println(e)
		}
		fmt.Println("END", res.End, res.CompileErr, res.Detail)
	}
	auxCmds["both"] = func(args []string) {
		data, err := os.ReadFile(args[0])
		if err != nil {
			panic(err)
		}
		src := string(data)
		if !strings.Contains(src, "§") {
			src = strings.ReplaceAll(src, "func P()", "func §P()")
		}
		p := &Prog{ID: "both", Mode: map[string]string{}}
		// leading lines of the form: import "path"
		for strings.HasPrefix(src, "import \"") {
			nl := strings.IndexByte(src, '\n')
			p.Imports = append(p.Imports, strings.Trim(strings.TrimPrefix(src[:nl], "import "), "\" "))
			src = src[nl+1:]
		}
		p.Src = src
		for _, a := range args[1:] {
			kv := strings.SplitN(a, "=", 2)
			if len(kv) == 2 {
				p.Mode[kv[0]] = kv[1]
			}
		}
		if strings.Contains(src, "\n//--\n") {
			p.Chunks = strings.Split(src, "\n//--\n")
		}
		r := fw.NewRun("DBG", "exploration")
		r.SetMinDistinct(0)
		e1Gate([]*Prog{p})
		if p.Reject {
			fmt.Println("gate rejects:", p.GateErr)
		}
		p.Reject = false
		ref, dropped, err := refRun("dbg", []*Prog{p})
		fmt.Println("dropped:", dropped, "err:", err)
		got := runProgFast(p)
		if ref["both"] != nil {
			ok, diff := cmpResults(ref["both"], got)
			fmt.Println("equal:", ok, diff)
			if !ok {
				fmt.Println("compiled:", ref["both"].Events, ref["both"].End)
				fmt.Println("interp  :", got.Events, got.End, got.CompileErr, got.Detail)
			}
		}
	}
}
