package main

// C19 runner: executes one generated program in a fresh fast.Interp, either without the debugger or under
// a recording debugger that wraps the real fast/debug.Debugger and feeds it a scripted command stream.

import (
	"fmt"
	"go/token"
	"io"
	"os"
	"strings"
	"time"

	"github.com/cosmos72/gomacro/base"
	"github.com/cosmos72/gomacro/fast"
	"github.com/cosmos72/gomacro/fast/debug"
)

// one debugger stop (a callback in which the real debugger consumed a command)
type c19Stop struct {
	Pos   string `json:"pos"`   // line:col of the statement
	Depth int    `json:"depth"` // env.CallDepth
	IP    int    `json:"ip"`
	Frame int    `json:"frame"` // sequential id of the function frame (numbered in order of first appearance at a callback)
	Bp    bool   `json:"bp"`    // Breakpoint callback
	Cmd   string `json:"cmd"`   // command consumed at this stop
	Side  int    `json:"side"`  // number of side-effect events recorded before this stop
	Raw   int    `json:"raw"`   // index of the callback (synthetic ones included)
}

func (s c19Stop) String() string {
	k := "at"
	if s.Bp {
		k = "BP"
	}
	return fmt.Sprintf("%s %s d=%d ip=%d f=%d ev=%d cmd=%s", k, s.Pos, s.Depth, s.IP, s.Frame, s.Side, s.Cmd)
}

type c19Obs struct {
	Stops     []c19Stop `json:"stops"`
	Events    []string  `json:"events"` // side effects recorded by rec()
	Result    string    `json:"result"` // values returned by P() or "panic: ..."
	Synthetic int       `json:"synthetic"`
	Callbacks int       `json:"callbacks"`
	Err       string    `json:"err,omitempty"` // harness-level problem (compile error, watchdog, protocol breach)
	Proto     string    `json:"proto,omitempty"`
	Spin      string    `json:"spin,omitempty"`      // the debugger is called again and again at the end of a function body
	RawFrame  []int     `json:"raw_frame,omitempty"` // frame id of every callback
}

// scripted command source: script[i], then tail forever
type c19Script struct {
	Cmds    []string `json:"cmds"`
	Tail    string   `json:"tail"`              // "eof" = the command input ends (the debugger then continues)
	RunExpr bool     `json:"runexpr,omitempty"` // run by Interp.RunExpr instead of Interp.Debug
}

func (s c19Script) at(i int) string {
	if i < len(s.Cmds) {
		return s.Cmds[i]
	}
	return s.Tail
}

func (s c19Script) String() string {
	t := strings.Join(s.Cmds, ",") + ",(" + s.Tail + ")*"
	if s.RunExpr {
		t = "[RunExpr] " + t
	}
	return t
}

type c19Readline struct {
	script c19Script
	n      int
	last   string
}

func (rl *c19Readline) Read(prompt string) ([]byte, error) {
	cmd := rl.script.at(rl.n)
	rl.n++
	rl.last = cmd
	if cmd == "eof" {
		return nil, io.EOF
	}
	return []byte(cmd + "\n"), nil
}

// recording debugger
type c19Dbg struct {
	real   *debug.Debugger
	rl     *c19Readline
	obs    *c19Obs
	events *[]string
	frames map[*fast.Env]int
	nframe int
	limit  int
	endEnv *fast.Env // last callback was at the end of this function's code
	endIP  int
}

type c19TooManyStops struct{}
type c19Spin struct{}

func (d *c19Dbg) frameOf(env *fast.Env) int {
	// function frame = first Env in the Outer chain that has a Caller (or the outermost one)
	f := env
	for f.Caller == nil && f.Outer != nil {
		f = f.Outer
	}
	// Env are pooled: a new frame starts whenever a function-level Env is seen at IP 0
	// (every generated body starts with a statement that is not a jump target)
	id, ok := d.frames[f]
	if !ok || (f == env && env.IP == 0) {
		d.nframe++
		id = d.nframe
		d.frames[f] = id
	}
	return id
}

func (d *c19Dbg) call(ir *fast.Interp, env *fast.Env, bp bool) fast.DebugOp {
	o := d.obs
	o.Callbacks++
	frame := d.frameOf(env)
	o.RawFrame = append(o.RawFrame, frame)
	g := &ir.Comp.Globals
	if !bp && env.IP >= len(env.DebugPos) {
		// the statement after the last one of a function body (the trailing spinInterrupt)
		if d.endEnv == env && d.endIP == env.IP {
			o.Spin = fmt.Sprintf("debugger called twice in a row at IP=%d past the last statement of a function body (call depth %d): the function never returns while single-stepping", env.IP, env.CallDepth)
			panic(c19Spin{})
		}
		d.endEnv, d.endIP = env, env.IP
	} else {
		d.endEnv = nil
	}
	// exactly the test made by debug.Debugger.Show
	synthetic := false
	var p token.Pos
	if env.IP < len(env.DebugPos) && g.Fileset != nil {
		p = env.DebugPos[env.IP]
		synthetic = p == token.NoPos
	}
	depthBefore := env.Run.DebugDepth
	before := d.rl.n
	var op fast.DebugOp
	if bp {
		op = d.real.Breakpoint(ir, env)
	} else {
		op = d.real.At(ir, env)
	}
	used := d.rl.n - before
	if synthetic {
		o.Synthetic++
		if used != 0 || op.Depth != depthBefore || op.Panic != nil {
			o.Proto = fmt.Sprintf("synthetic statement at ip=%d consumed %d commands, op=%v (DebugDepth was %d)", env.IP, used, op, depthBefore)
		}
		return op
	}
	if used != 1 {
		o.Proto = fmt.Sprintf("stop at ip=%d consumed %d commands", env.IP, used)
	}
	pos := "?"
	if g.Fileset != nil && p != token.NoPos {
		pp := g.Fileset.Position(p)
		pos = fmt.Sprintf("%d:%d", pp.Line, pp.Column)
	} else {
		pos = fmt.Sprintf("ip%d", env.IP)
	}
	o.Stops = append(o.Stops, c19Stop{Pos: pos, Depth: env.CallDepth, IP: env.IP, Frame: frame, Bp: bp, Cmd: d.rl.last, Side: len(*d.events), Raw: o.Callbacks - 1})
	if len(o.Stops) > d.limit {
		panic(c19TooManyStops{})
	}
	return op
}

func (d *c19Dbg) Breakpoint(ir *fast.Interp, env *fast.Env) fast.DebugOp {
	return d.call(ir, env, true)
}
func (d *c19Dbg) At(ir *fast.Interp, env *fast.Env) fast.DebugOp { return d.call(ir, env, false) }

// c19Run runs `src` (declarations incl. func P) then P().
// mode: "plain" = OptDebugger off, RunExpr; "nodebug" = OptDebugger on (breakpoints compiled in) but run with RunExpr
// and a debugger answering continue; "debug" = DebugExpr under the scripted debugger.
func c19Run(src string, mode string, script c19Script) *c19Obs {
	obs := &c19Obs{}
	var events []string
	ir := fast.New()
	g := &ir.Comp.Globals
	g.Stdout = io.Discard
	g.Stderr = io.Discard
	if os.Getenv("C19_SHOW") != "" {
		g.Stdout = os.Stdout
		g.Stderr = os.Stdout
	}
	if os.Getenv("C19_DEBUGDEBUGGER") != "" {
		g.Options |= base.OptDebugDebugger
		g.Stdout = os.Stdout
		g.Stderr = os.Stdout
	}
	if mode != "plain" {
		g.Options |= base.OptDebugger // BEFORE compiling
	} else {
		g.Options &^= base.OptDebugger
	}
	g.Options &^= base.OptShowPrompt | base.OptCtrlCEnterDebugger
	rl := &c19Readline{script: script}
	g.Readline = rl
	ir.DeclFunc("rec", func(tag int, v ...interface{}) {
		events = append(events, fmt.Sprint(tag, v))
	})
	// call an interpreted closure from compiled code
	ir.DeclFunc("via", func(f func(int) int, x int) int { return f(x) + 1 })
	dbg := &c19Dbg{real: &debug.Debugger{}, rl: rl, obs: obs, events: &events, frames: map[*fast.Env]int{}, limit: 20000}
	ir.SetDebugger(dbg)

	timedOut := false
	timer := time.AfterFunc(20*time.Second, func() { timedOut = true; ir.Interrupt(os.Interrupt) })
	defer timer.Stop()

	var decl *fast.Expr
	if r, bad := guard(func() { decl = ir.Compile(src) }); bad {
		obs.Err = "compile: " + panicText(r)
		return obs
	}
	if decl != nil {
		if r, bad := guard(func() { ir.RunExpr(decl) }); bad {
			obs.Err = "declarations: " + panicText(r)
			return obs
		}
	}
	var call *fast.Expr
	entry := "P()"
	if e := os.Getenv("C19_ENTRY"); e != "" {
		entry = e
	}
	if r, bad := guard(func() { call = ir.Compile(entry) }); bad {
		obs.Err = "compile P(): " + panicText(r)
		return obs
	}
	r, bad := guard(func() {
		var vs []interface{}
		if mode == "debug" && len(script.Cmds) > 0 {
			vals, _ := ir.Debug(entry) // Parse + Compile + DebugExpr
			for _, v := range vals {
				vs = append(vs, v.Interface())
			}
		} else if mode == "debug" {
			vals, _ := ir.DebugExpr(call)
			for _, v := range vals {
				vs = append(vs, v.Interface())
			}
		} else {
			vals, _ := ir.RunExpr(call)
			for _, v := range vals {
				vs = append(vs, v.Interface())
			}
		}
		obs.Result = fmt.Sprint("ret ", vs)
	})
	if bad {
		if _, ok := r.(c19TooManyStops); ok {
			obs.Err = "too many stops"
		} else if _, ok := r.(c19Spin); ok {
			obs.Result = "spin"
		} else {
			obs.Result = "panic: " + panicText(r)
		}
	}
	if timedOut {
		obs.Err = "watchdog: program did not finish in 20 s"
	}
	obs.Events = events
	return obs
}

func init() {
	// gmverif c19probe file [mode] [cmd,cmd,...] [tail]
	auxCmds["c19probe"] = func(args []string) {
		data, err := os.ReadFile(args[0])
		if err != nil {
			panic(err)
		}
		mode := "debug"
		if len(args) > 1 {
			mode = args[1]
		}
		sc := c19Script{Tail: "step"}
		if len(args) > 2 && args[2] != "" {
			sc.Cmds = strings.Split(args[2], ",")
		}
		if len(args) > 3 {
			sc.Tail = args[3]
		}
		o := c19Run(string(data), mode, sc)
		for i, s := range o.Stops {
			fmt.Printf("%3d %s\n", i, s)
		}
		fmt.Println("events:", o.Events)
		fmt.Println("result:", o.Result, "synthetic:", o.Synthetic, "callbacks:", o.Callbacks, "err:", o.Err, "proto:", o.Proto)
	}
}
