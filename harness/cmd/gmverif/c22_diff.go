package main

// C22/C25 shared helper: position-insensitive structural comparison of go/ast trees by reflection.
//
// Compared: dynamic node types, every string / bool / int / token.Token field (operators, literal
// kinds and values, identifier names, ChanDir, Slice3, Implicit, Incomplete, ...), child order and
// count. A nil slice equals an empty slice; a nil interface equals an interface holding a nil pointer.
//
// Ignored always: the numeric value of every token.Pos, *ast.Object, *ast.Scope, and the derived
// fields of ast.File (Scope, Imports, Unresolved, Comments, FileStart, FileEnd, GoVersion - the last
// three were added to go/ast after the fork's declared language level go 1.18).
//
// Options:
//   PosValidity    - additionally require Pos.IsValid() to agree for the few positions whose validity
//                    alone carries meaning (c22MeaningfulPos)
//   IgnoreComments - skip every *ast.CommentGroup (Doc / Comment fields)
//   StripParens    - ParenExpr{X} is compared as X on both sides
//   WrapElse       - an IfStmt.Else that is neither a block nor an if is compared as Block{[stmt]}
//   DropEmpty      - explicit EmptyStmt elements of statement lists are dropped on both sides
//   IgnoreImplicit - EmptyStmt.Implicit (was the semicolon written?) is not compared
//   Tolerate       - callback that may accept (and record) individual differences: used to recognise
//                    known findings by their exact shape while still reporting everything else

import (
	"crypto/sha1"
	"encoding/hex"
	"fmt"
	"go/ast"
	"go/token"
	"hash"
	"io"
	"reflect"
	"strconv"
)

type c22Opt struct {
	PosValidity    bool
	IgnoreComments bool
	StripParens    bool
	WrapElse       bool
	DropEmpty      bool
	IgnoreImplicit bool                   // EmptyStmt.Implicit is not compared
	Tolerate       func(diff string) bool // called for each difference found; true = note it and go on
}

var (
	c22TypPos          = reflect.TypeOf(token.NoPos)
	c22TypObject       = reflect.TypeOf((*ast.Object)(nil))
	c22TypScope        = reflect.TypeOf((*ast.Scope)(nil))
	c22TypCommentGroup = reflect.TypeOf((*ast.CommentGroup)(nil))
	c22TypCommentList  = reflect.TypeOf([]*ast.CommentGroup(nil))
	c22TypStmt         = reflect.TypeOf((*ast.Stmt)(nil)).Elem()
	c22TypStmtList     = reflect.TypeOf([]ast.Stmt(nil))
	c22TypToken        = reflect.TypeOf(token.ILLEGAL)
	c22TypFile         = reflect.TypeOf(ast.File{})
	c22TypIfStmt       = reflect.TypeOf(ast.IfStmt{})
)

// positions whose validity is information (not layout)
var c22MeaningfulPos = map[string]bool{
	"GenDecl.Lparen":    true, // grouped declaration
	"GenDecl.Rparen":    true,
	"TypeSpec.Assign":   true, // alias declaration
	"CallExpr.Ellipsis": true, // f(x...)
}

var c22FileIgnored = map[string]bool{
	"Scope": true, "Imports": true, "Unresolved": true, "Comments": true,
	"FileStart": true, "FileEnd": true, "GoVersion": true,
}

// c22Diff returns "" when a and b are structurally identical under opt, else the path and nature of the
// first difference.
func c22Diff(a, b interface{}, opt c22Opt) string {
	d := c22differ{opt: opt}
	return d.walk(reflect.ValueOf(a), reflect.ValueOf(b), "")
}

type c22differ struct {
	opt c22Opt
}

// rep passes a difference on unless opt.Tolerate accepts it (the walk then continues)
func (d *c22differ) rep(s string) string {
	if d.opt.Tolerate != nil && d.opt.Tolerate(s) {
		return ""
	}
	return s
}

func c22IsNilish(v reflect.Value) bool {
	if !v.IsValid() {
		return true
	}
	switch v.Kind() {
	case reflect.Interface, reflect.Ptr:
		if v.IsNil() {
			return true
		}
		if v.Kind() == reflect.Interface {
			return c22IsNilish(v.Elem())
		}
	case reflect.Slice, reflect.Map:
		return v.IsNil()
	}
	return false
}

// c22Norm unwraps interfaces and applies the StripParens normalisation
func (d *c22differ) norm(v reflect.Value) reflect.Value {
	for v.IsValid() && v.Kind() == reflect.Interface {
		if v.IsNil() {
			return reflect.Value{}
		}
		v = v.Elem()
	}
	if d.opt.StripParens {
		for v.IsValid() && v.Kind() == reflect.Ptr && !v.IsNil() {
			p, ok := v.Interface().(*ast.ParenExpr)
			if !ok {
				break
			}
			v = reflect.ValueOf(p.X)
		}
	}
	if v.IsValid() && v.Kind() == reflect.Ptr && v.IsNil() {
		return reflect.Value{}
	}
	return v
}

func (d *c22differ) stmts(v reflect.Value) []reflect.Value {
	n := v.Len()
	out := make([]reflect.Value, 0, n)
	for i := 0; i < n; i++ {
		e := v.Index(i)
		if d.opt.DropEmpty {
			if _, ok := e.Interface().(*ast.EmptyStmt); ok {
				continue
			}
		}
		out = append(out, e)
	}
	return out
}

func (d *c22differ) walk(a, b reflect.Value, path string) string {
	a, b = d.norm(a), d.norm(b)
	if !a.IsValid() || !b.IsValid() {
		if a.IsValid() != b.IsValid() {
			return d.rep(fmt.Sprintf("%s: %s vs %s", path, c22Describe(a), c22Describe(b)))
		}
		return ""
	}
	if a.Type() != b.Type() {
		return d.rep(fmt.Sprintf("%s: type %s vs %s", path, c22Describe(a), c22Describe(b)))
	}
	t := a.Type()
	switch t {
	case c22TypPos, c22TypObject, c22TypScope:
		return ""
	case c22TypCommentGroup:
		if d.opt.IgnoreComments {
			return ""
		}
	case c22TypCommentList:
		return ""
	}
	switch a.Kind() {
	case reflect.Ptr:
		return d.walk(a.Elem(), b.Elem(), path+"("+t.Elem().Name()+")")
	case reflect.Slice:
		if t == c22TypStmtList && d.opt.DropEmpty {
			la, lb := d.stmts(a), d.stmts(b)
			if len(la) != len(lb) {
				return d.rep(fmt.Sprintf("%s: %d vs %d statements", path, len(la), len(lb)))
			}
			for i := range la {
				if s := d.walk(la[i], lb[i], path+"["+strconv.Itoa(i)+"]"); s != "" {
					return s
				}
			}
			return ""
		}
		if a.Len() != b.Len() {
			return d.rep(fmt.Sprintf("%s: length %d vs %d", path, a.Len(), b.Len()))
		}
		for i, n := 0, a.Len(); i < n; i++ {
			if s := d.walk(a.Index(i), b.Index(i), path+"["+strconv.Itoa(i)+"]"); s != "" {
				return s
			}
		}
		return ""
	case reflect.Struct:
		name := t.Name()
		for i, n := 0, t.NumField(); i < n; i++ {
			f := t.Field(i)
			if t == c22TypFile && c22FileIgnored[f.Name] {
				continue
			}
			fa, fb := a.Field(i), b.Field(i)
			if f.Type == c22TypObject || f.Type == c22TypScope || f.Type == c22TypCommentList ||
				(d.opt.IgnoreComments && f.Type == c22TypCommentGroup) {
				continue
			}
			if f.Type == c22TypPos {
				if d.opt.PosValidity && c22MeaningfulPos[name+"."+f.Name] {
					va, vb := token.Pos(fa.Int()).IsValid(), token.Pos(fb.Int()).IsValid()
					if va != vb {
						return d.rep(fmt.Sprintf("%s.%s: position valid=%v vs valid=%v", path, f.Name, va, vb))
					}
				}
				continue
			}
			if d.opt.IgnoreImplicit && f.Name == "Implicit" && name == "EmptyStmt" {
				continue
			}
			if d.opt.WrapElse && t == c22TypIfStmt && f.Name == "Else" {
				fa, fb = c22WrapElse(fa), c22WrapElse(fb)
			}
			if s := d.walk(fa, fb, path+"."+f.Name); s != "" {
				return s
			}
		}
		return ""
	case reflect.String:
		if a.String() != b.String() {
			return d.rep(fmt.Sprintf("%s: %q vs %q", path, a.String(), b.String()))
		}
	case reflect.Bool:
		if a.Bool() != b.Bool() {
			return d.rep(fmt.Sprintf("%s: %v vs %v", path, a.Bool(), b.Bool()))
		}
	case reflect.Int, reflect.Int8, reflect.Int16, reflect.Int32, reflect.Int64:
		if a.Int() != b.Int() {
			if t == c22TypToken {
				return d.rep(fmt.Sprintf("%s: token %d %q vs %d %q", path, a.Int(), token.Token(a.Int()).String(), b.Int(), token.Token(b.Int()).String()))
			}
			return d.rep(fmt.Sprintf("%s: %d vs %d", path, a.Int(), b.Int()))
		}
	case reflect.Map:
		// only ast.Package.Files / Imports: not compared
	default:
		return d.rep(fmt.Sprintf("%s: unsupported kind %s", path, a.Kind()))
	}
	return ""
}

func c22WrapElse(v reflect.Value) reflect.Value {
	if c22IsNilish(v) {
		return v
	}
	s := v.Interface().(ast.Stmt)
	switch s.(type) {
	case *ast.BlockStmt, *ast.IfStmt:
		return v
	}
	var w ast.Stmt = &ast.BlockStmt{List: []ast.Stmt{s}}
	return reflect.ValueOf(&w).Elem()
}

func c22Describe(v reflect.Value) string {
	if !v.IsValid() {
		return "nil"
	}
	if v.Kind() == reflect.Ptr && !v.IsNil() {
		if n, ok := v.Interface().(ast.Node); ok {
			return c22NodeBrief(n)
		}
	}
	return v.Type().String()
}

func c22NodeBrief(n ast.Node) string {
	switch n := n.(type) {
	case *ast.Ident:
		return "*ast.Ident(" + n.Name + ")"
	case *ast.BasicLit:
		return "*ast.BasicLit(" + n.Value + ")"
	case *ast.UnaryExpr:
		return "*ast.UnaryExpr(" + n.Op.String() + ")"
	case *ast.BinaryExpr:
		return "*ast.BinaryExpr(" + n.Op.String() + ")"
	}
	return fmt.Sprintf("%T", n)
}

// ---------------------------------------------------------------------------------------------
// fingerprint: a hash of everything c22Diff (without options) would compare

func c22Fingerprint(x interface{}) string {
	h := sha1.New()
	c22hash(h, reflect.ValueOf(x))
	return hex.EncodeToString(h.Sum(nil)[:10])
}

func c22hash(h hash.Hash, v reflect.Value) {
	for v.IsValid() && v.Kind() == reflect.Interface {
		if v.IsNil() {
			v = reflect.Value{}
			break
		}
		v = v.Elem()
	}
	if !v.IsValid() || (v.Kind() == reflect.Ptr && v.IsNil()) {
		io.WriteString(h, "0;")
		return
	}
	t := v.Type()
	switch t {
	case c22TypPos, c22TypObject, c22TypScope, c22TypCommentGroup, c22TypCommentList:
		return
	}
	switch v.Kind() {
	case reflect.Ptr:
		io.WriteString(h, t.Elem().Name())
		io.WriteString(h, "{")
		c22hash(h, v.Elem())
		io.WriteString(h, "}")
	case reflect.Slice:
		io.WriteString(h, "[")
		for i, n := 0, v.Len(); i < n; i++ {
			c22hash(h, v.Index(i))
		}
		io.WriteString(h, "]")
	case reflect.Struct:
		for i, n := 0, t.NumField(); i < n; i++ {
			f := t.Field(i)
			if f.Type == c22TypPos || (t == c22TypFile && c22FileIgnored[f.Name]) {
				continue
			}
			c22hash(h, v.Field(i))
		}
	case reflect.String:
		io.WriteString(h, strconv.Quote(v.String()))
	case reflect.Bool:
		if v.Bool() {
			io.WriteString(h, "T")
		} else {
			io.WriteString(h, "F")
		}
	case reflect.Int, reflect.Int8, reflect.Int16, reflect.Int32, reflect.Int64:
		io.WriteString(h, strconv.FormatInt(v.Int(), 10))
		io.WriteString(h, ";")
	}
}

// ---------------------------------------------------------------------------------------------
// generic walk over every ast.Node reachable from x through node-typed fields (reflection, so that
// gomacro's unusual shapes - nil *ast.Field inside a FieldList, CaseClause inside a BlockStmt - are
// visited too; ast.Inspect would panic on some of them). Comments, Obj and Scope are not followed.

func c22EachNode(x interface{}, f func(n ast.Node)) {
	c22each(reflect.ValueOf(x), f)
}

func c22each(v reflect.Value, f func(n ast.Node)) {
	for v.IsValid() && v.Kind() == reflect.Interface {
		if v.IsNil() {
			return
		}
		v = v.Elem()
	}
	if !v.IsValid() {
		return
	}
	t := v.Type()
	switch t {
	case c22TypPos, c22TypObject, c22TypScope, c22TypCommentGroup, c22TypCommentList:
		return
	}
	switch v.Kind() {
	case reflect.Ptr:
		if v.IsNil() {
			return
		}
		if n, ok := v.Interface().(ast.Node); ok {
			f(n)
		}
		c22each(v.Elem(), f)
	case reflect.Slice:
		for i, n := 0, v.Len(); i < n; i++ {
			c22each(v.Index(i), f)
		}
	case reflect.Struct:
		for i, n := 0, t.NumField(); i < n; i++ {
			ft := t.Field(i)
			if t == c22TypFile && c22FileIgnored[ft.Name] {
				continue
			}
			switch ft.Type.Kind() {
			case reflect.Ptr, reflect.Interface, reflect.Slice:
				c22each(v.Field(i), f)
			}
		}
	}
}
