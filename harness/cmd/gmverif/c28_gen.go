package main

// C28 — type descriptions, the world of named types, the builder that turns a
// description into fresh go/types objects, the identity model keys and the
// bounded-exhaustive generator.

import (
	"fmt"
	"go/ast"
	"go/token"
	"math/rand"
	"sort"
	"strings"

	"github.com/cosmos72/gomacro/go/types"
)

// c28D is a JSON-serialisable description of a type.
type c28D struct {
	K   string     `json:"k"`             // nil basic named under ptr slice array map chan func struct iface tuple
	N   string     `json:"n,omitempty"`   // basic name / key of a named type of the world
	Len int64      `json:"len,omitempty"` // array length
	Dir int        `json:"dir,omitempty"` // chan direction
	Var bool       `json:"var,omitempty"` // variadic func
	A   []*c28D    `json:"a,omitempty"`   // elem | key,elem | params | tuple members
	R   []*c28D    `json:"r,omitempty"`   // results
	Rcv *c28D      `json:"rcv,omitempty"` // func receiver
	F   []c28Field `json:"f,omitempty"`   // struct fields
	M   []c28Meth  `json:"m,omitempty"`   // explicit interface methods
	Emb []string   `json:"emb,omitempty"` // embedded named interfaces (keys of the world)
}

type c28Field struct {
	Name string `json:"name"`
	Pkg  string `json:"pkg,omitempty"`
	Anon bool   `json:"anon,omitempty"`
	Tag  string `json:"tag,omitempty"`
	T    *c28D  `json:"t"`
}

type c28Meth struct {
	Shared string `json:"shared,omitempty"` // id of a *types.Func object of the world, reused as is
	Name   string `json:"name,omitempty"`
	Pkg    string `json:"pkg,omitempty"`
	Sig    *c28D  `json:"sig,omitempty"` // K=="func"; Sig.Rcv, when set, is a receiver given before NewInterface
}

func c28B(n string) *c28D                  { return &c28D{K: "basic", N: n} }
func c28N(k string) *c28D                  { return &c28D{K: "named", N: k} }
func c28U(k string) *c28D                  { return &c28D{K: "under", N: k} }
func c28Ptr(e *c28D) *c28D                 { return &c28D{K: "ptr", A: []*c28D{e}} }
func c28Slice(e *c28D) *c28D               { return &c28D{K: "slice", A: []*c28D{e}} }
func c28Array(n int64, e *c28D) *c28D      { return &c28D{K: "array", Len: n, A: []*c28D{e}} }
func c28Map(k, e *c28D) *c28D              { return &c28D{K: "map", A: []*c28D{k, e}} }
func c28Chan(dir int, e *c28D) *c28D       { return &c28D{K: "chan", Dir: dir, A: []*c28D{e}} }
func c28Tuple(e ...*c28D) *c28D            { return &c28D{K: "tuple", A: e} }
func c28Func(p, r []*c28D) *c28D           { return &c28D{K: "func", A: p, R: r} }
func c28FuncV(p, r []*c28D) *c28D          { return &c28D{K: "func", A: p, R: r, Var: true} }
func c28Struct(f ...c28Field) *c28D        { return &c28D{K: "struct", F: f} }
func c28L(e ...*c28D) []*c28D              { return e }
func c28Fld(name string, t *c28D) c28Field { return c28Field{Name: name, T: t} }
func c28Iface(emb []string, m ...c28Meth) *c28D {
	return &c28D{K: "iface", M: m, Emb: emb}
}
func c28M(name, pkg string, sig *c28D) c28Meth { return c28Meth{Name: name, Pkg: pkg, Sig: sig} }
func c28SM(id string) c28Meth                  { return c28Meth{Shared: id} }
func c28Recv(rcv *c28D, f *c28D) *c28D {
	g := *f
	g.Rcv = rcv
	return &g
}

// c28Str renders a description; it is injective on the descriptions the generator makes.
func c28Str(d *c28D) string {
	if d == nil {
		return "<nil>"
	}
	list := func(l []*c28D) string {
		s := make([]string, len(l))
		for i, e := range l {
			s[i] = c28Str(e)
		}
		return strings.Join(s, ", ")
	}
	switch d.K {
	case "nil":
		return "nil"
	case "basic":
		return d.N
	case "named":
		return d.N
	case "under":
		return "underlying(" + d.N + ")"
	case "ptr":
		return "*" + c28Str(d.A[0])
	case "slice":
		return "[]" + c28Str(d.A[0])
	case "array":
		return fmt.Sprintf("[%d]%s", d.Len, c28Str(d.A[0]))
	case "map":
		return "map[" + c28Str(d.A[0]) + "]" + c28Str(d.A[1])
	case "chan":
		return []string{"chan ", "chan<- ", "<-chan "}[d.Dir] + "(" + c28Str(d.A[0]) + ")"
	case "tuple":
		return "tuple(" + list(d.A) + ")"
	case "func":
		s := "func"
		if d.Rcv != nil {
			s += "[recv " + c28Str(d.Rcv) + "]"
		}
		p := list(d.A)
		if d.Var {
			p += " /*variadic*/"
		}
		return s + "(" + p + ") (" + list(d.R) + ")"
	case "struct":
		var b strings.Builder
		b.WriteString("struct{")
		for i, f := range d.F {
			if i > 0 {
				b.WriteString("; ")
			}
			if f.Anon {
				b.WriteString("/*embedded*/ ")
			}
			b.WriteString(f.Name)
			if f.Pkg != "" {
				b.WriteString("@" + f.Pkg)
			}
			b.WriteString(" " + c28Str(f.T))
			if f.Tag != "" {
				b.WriteString(fmt.Sprintf(" %q", f.Tag))
			}
		}
		b.WriteString("}")
		return b.String()
	case "iface":
		var parts []string
		for _, e := range d.Emb {
			parts = append(parts, e)
		}
		for _, m := range d.M {
			if m.Shared != "" {
				parts = append(parts, "/*shared Func "+m.Shared+"*/")
				continue
			}
			s := m.Name
			if m.Pkg != "" {
				s += "@" + m.Pkg
			}
			parts = append(parts, s+" "+c28Str(m.Sig))
		}
		return "interface{" + strings.Join(parts, "; ") + "}"
	}
	return "?" + d.K
}

// ---------------------------------------------------------------- world

type c28NamedDef struct {
	Key, Pkg, Name string
	Under          *c28D
}

var c28PkgDefs = map[string][2]string{
	"a":  {"example.com/a", "p"},
	"b":  {"example.com/b", "p"}, // same package name, other path
	"a2": {"example.com/a", "p"}, // another *Package object with the same path as "a"
}

var c28SharedDefs = map[string]c28Meth{
	"sM": c28M("M", "", c28Func(nil, nil)),
	"sN": c28M("N", "", c28Func(c28L(c28B("int")), c28L(c28B("string")))),
	"sX": c28M("X", "", c28Func(nil, nil)),
	"sm": c28M("m", "a", c28Func(nil, nil)),
}

func c28NamedDefs() []c28NamedDef {
	rec := func(self string) *c28D {
		// type R interface { m() interface{R} }
		return c28Iface(nil, c28M("m", "a", c28Func(nil, c28L(c28Iface([]string{self})))))
	}
	return []c28NamedDef{
		{"a.T", "a", "T", c28B("int")},
		{"b.T", "b", "T", c28B("int")},
		{"a.T#2", "a", "T", c28B("int")}, // second object, same package, same name (e.g. function-local type)
		{"a2.T", "a2", "T", c28B("int")},
		{"a.S", "a", "S", c28Struct(c28Fld("X", c28B("int")), c28Field{Name: "y", Pkg: "a", T: c28B("string")})},
		{"a.L", "a", "L", c28Struct(c28Field{Name: "next", Pkg: "a", T: c28Ptr(c28N("a.L"))})},
		{"a.F", "a", "F", c28Func(c28L(c28B("int")), c28L(c28B("string")))},
		{"a.E0", "a", "E0", c28Iface(nil)},
		{"a.E1", "a", "E1", c28Iface(nil, c28SM("sM"))},
		{"b.E1", "b", "E1", c28Iface(nil, c28M("M", "", c28Func(nil, nil)))},
		{"a.E2", "a", "E2", c28Iface(nil, c28SM("sN"))},
		{"a.E3", "a", "E3", c28Iface([]string{"a.E1"}, c28SM("sX"))},
		{"a.Eu", "a", "Eu", c28Iface(nil, c28SM("sm"))},
		{"a.R", "a", "R", rec("a.R")},
		{"a.R2", "a", "R2", rec("a.R2")},
	}
}

// method names (unique ids) contributed by each embeddable named interface
var c28EmbMethods = map[string][]string{
	"a.E0": nil, "a.E1": {"M"}, "b.E1": {"M"}, "a.E2": {"N"}, "a.E3": {"M", "X"},
	"a.Eu": {"example.com/a.m"}, "a.R": {"example.com/a.m"}, "a.R2": {"example.com/a.m"}, "error": {"Error"},
}

type c28World struct {
	pkgs     map[string]*types.Package
	named    map[string]*types.Named
	nameID   map[string]string // key -> Object.Id() of the type name
	defs     map[string]*c28D
	shared   map[string]*types.Func
	pending  []*types.Interface
	defer_   bool
	visiting map[string]bool // embedded interfaces being flattened by key()
}

func c28NewWorld() *c28World {
	w := &c28World{pkgs: map[string]*types.Package{}, named: map[string]*types.Named{}, nameID: map[string]string{},
		defs: map[string]*c28D{}, shared: map[string]*types.Func{}, visiting: map[string]bool{}}
	for k, v := range c28PkgDefs {
		w.pkgs[k] = types.NewPackage(v[0], v[1])
	}
	defs := c28NamedDefs()
	for _, nd := range defs {
		obj := types.NewTypeName(token.NoPos, w.pkgs[nd.Pkg], nd.Name, nil)
		w.named[nd.Key] = types.NewNamed(obj, nil, nil)
		w.nameID[nd.Key] = c28Id(nd.Name, nd.Pkg)
		w.defs[nd.Key] = nd.Under
	}
	w.named["error"] = types.Universe.Lookup("error").Type().(*types.Named)
	w.nameID["error"] = "_.error"
	w.defs["error"] = c28Iface(nil, c28M("Error", "", c28Func(nil, c28L(c28B("string")))))
	w.defer_ = true
	for _, nd := range defs {
		w.named[nd.Key].SetUnderlying(w.build(nd.Under, 0))
	}
	for _, it := range w.pending {
		it.Complete()
	}
	w.pending, w.defer_ = nil, false
	for id := range c28SharedDefs {
		if w.shared[id] == nil {
			panic("c28: shared method " + id + " has no owner in the world")
		}
	}
	return w
}

func c28Id(name, pkg string) string {
	if ast.IsExported(name) {
		return name
	}
	if p, ok := c28PkgDefs[pkg]; ok {
		return p[0] + "." + name
	}
	return "_." + name
}

var c28BasicKinds = map[string]types.BasicKind{
	"bool": types.Bool, "int": types.Int, "int8": types.Int8, "int32": types.Int32, "int64": types.Int64,
	"uint": types.Uint, "uint8": types.Uint8, "uintptr": types.Uintptr, "float32": types.Float32,
	"float64": types.Float64, "complex128": types.Complex128, "string": types.String,
	"unsafe.Pointer": types.UnsafePointer, "untyped nil": types.UntypedNilR, "untyped int": types.UntypedInt,
	"untyped rune": types.UntypedRune,
}

func (w *c28World) vars(l []*c28D, prefix string, cp int) *types.Tuple {
	vs := make([]*types.Var, len(l))
	for i, e := range l {
		name := ""
		if cp > 0 { // parameter and result names are irrelevant for identity
			name = fmt.Sprintf("%s%d_%d", prefix, i, cp)
		}
		vs[i] = types.NewVar(token.NoPos, nil, name, w.build(e, cp))
	}
	return types.NewTuple(vs...)
}

func (w *c28World) sig(d *c28D, cp int) *types.Signature {
	var recv *types.Var
	if d.Rcv != nil {
		recv = types.NewVar(token.NoPos, nil, "", w.build(d.Rcv, cp))
	}
	return types.NewSignature(recv, w.vars(d.A, "p", cp), w.vars(d.R, "r", cp), d.Var)
}

// build makes a fresh type for d. Named types and shared method objects come
// from the world, everything else is newly allocated on every call.
func (w *c28World) build(d *c28D, cp int) types.Type {
	switch d.K {
	case "nil":
		return nil
	case "basic":
		if d.N == "byte" || d.N == "rune" {
			return types.Universe.Lookup(d.N).Type()
		}
		k, ok := c28BasicKinds[d.N]
		if !ok {
			panic("c28: unknown basic " + d.N)
		}
		return types.Typ[k]
	case "named":
		t := w.named[d.N]
		if t == nil {
			panic("c28: unknown named " + d.N)
		}
		return t
	case "under":
		return w.named[d.N].Underlying()
	case "ptr":
		return types.NewPointer(w.build(d.A[0], cp))
	case "slice":
		return types.NewSlice(w.build(d.A[0], cp))
	case "array":
		return types.NewArray(w.build(d.A[0], cp), d.Len)
	case "map":
		return types.NewMap(w.build(d.A[0], cp), w.build(d.A[1], cp))
	case "chan":
		return types.NewChan(types.ChanDir(d.Dir), w.build(d.A[0], cp))
	case "tuple":
		return w.vars(d.A, "t", cp)
	case "func":
		return w.sig(d, cp)
	case "struct":
		fs := make([]*types.Var, len(d.F))
		tags := make([]string, len(d.F))
		last := -1
		for i, f := range d.F {
			fs[i] = types.NewField(token.NoPos, w.pkgs[f.Pkg], f.Name, w.build(f.T, cp), f.Anon)
			tags[i] = f.Tag
			if f.Tag != "" {
				last = i
			}
		}
		if cp%2 == 1 { // NewStruct allows a tag list only as long as needed
			tags = tags[:last+1]
			if len(tags) == 0 {
				tags = nil
			}
		}
		return types.NewStruct(fs, tags)
	case "iface":
		ms := make([]*types.Func, len(d.M))
		for i, m := range d.M {
			if m.Shared != "" {
				f := w.shared[m.Shared]
				if f == nil {
					def := c28SharedDefs[m.Shared]
					f = types.NewFunc(token.NoPos, w.pkgs[def.Pkg], def.Name, w.sig(def.Sig, 0))
					w.shared[m.Shared] = f
				}
				ms[i] = f
				continue
			}
			ms[i] = types.NewFunc(token.NoPos, w.pkgs[m.Pkg], m.Name, w.sig(m.Sig, cp))
		}
		es := make([]*types.Named, len(d.Emb))
		for i, e := range d.Emb {
			es[i] = w.named[e]
			if es[i] == nil {
				panic("c28: unknown embedded " + e)
			}
		}
		it := types.NewInterface(ms, es)
		if w.defer_ {
			w.pending = append(w.pending, it)
		} else {
			it.Complete() // documented precondition of every use other than forming types
		}
		return it
	}
	panic("c28: unknown kind " + d.K)
}

// ---------------------------------------------------------------- identity model

// key returns a canonical string of d.
//
// strict: equal strict keys => the two types MUST be identical (same
// construction: same explicit methods, same embedded interfaces in the same
// order, same receivers / shared method objects).
//
// loose: different loose keys => the two types MUST NOT be identical; the
// loose key is identity as the Go spec defines it (an interface is its method
// set), so it never demands a difference that only typeutil's PATCHed rule
// ("same explicit methods and same embedded interfaces") makes.
//
// Between the two (explicit vs embedded methods, receivers of interface
// methods, order of embedded interfaces with equal ids, cyclic interfaces)
// only the algebraic laws and hash consistency are demanded.
func (w *c28World) key(d *c28D, strict bool) string {
	list := func(l []*c28D) string {
		s := make([]string, len(l))
		for i, e := range l {
			s[i] = w.key(e, strict)
		}
		return strings.Join(s, ",")
	}
	sigKey := func(s *c28D) string {
		v := ""
		if s.Var {
			v = "..."
		}
		return "func" + v + "(" + list(s.A) + ")(" + list(s.R) + ")"
	}
	switch d.K {
	case "nil":
		return "nil"
	case "basic":
		switch d.N {
		case "byte":
			return "uint8"
		case "rune":
			return "int32"
		}
		return d.N
	case "named":
		return "N<" + d.N + ">"
	case "under":
		return w.key(w.defs[d.N], strict)
	case "ptr":
		return "*" + w.key(d.A[0], strict)
	case "slice":
		return "[]" + w.key(d.A[0], strict)
	case "array":
		return fmt.Sprintf("[%d]%s", d.Len, w.key(d.A[0], strict))
	case "map":
		return "map[" + w.key(d.A[0], strict) + "]" + w.key(d.A[1], strict)
	case "chan":
		return fmt.Sprintf("chan%d(%s)", d.Dir, w.key(d.A[0], strict))
	case "tuple":
		return "tuple(" + list(d.A) + ")"
	case "func":
		r := "-"
		if d.Rcv != nil {
			r = w.key(d.Rcv, strict)
		}
		return "recv[" + r + "]" + sigKey(d)
	case "struct":
		var b strings.Builder
		b.WriteString("struct{")
		for _, f := range d.F {
			if f.Anon {
				b.WriteString("!")
			}
			b.WriteString(c28Id(f.Name, f.Pkg) + " " + w.key(f.T, strict) + fmt.Sprintf(" %q;", f.Tag))
		}
		b.WriteString("}")
		return b.String()
	case "iface":
		ms := make([]string, len(d.M))
		for i, m := range d.M {
			def := m
			if m.Shared != "" {
				def = c28SharedDefs[m.Shared]
			}
			s := c28Id(def.Name, def.Pkg) + " " + sigKey(def.Sig)
			if strict {
				if m.Shared != "" {
					s = c28Id(def.Name, def.Pkg) + " shared#" + m.Shared
				} else if m.Sig.Rcv != nil {
					s += " recv#" + w.key(m.Sig.Rcv, true)
				}
			}
			ms[i] = s
		}
		if !strict {
			// Go-spec identity: the method set, whatever is explicit or embedded
			set := map[string]bool{}
			w.looseMethods(d, set)
			all := make([]string, 0, len(set))
			for m := range set {
				all = append(all, m)
			}
			sort.Strings(all)
			return "interface{" + strings.Join(all, ";") + "}"
		}
		sort.Strings(ms)
		es := append([]string{}, d.Emb...)
		sort.SliceStable(es, func(i, j int) bool { return w.nameID[es[i]] < w.nameID[es[j]] })
		return "interface{" + strings.Join(es, ";") + "|" + strings.Join(ms, ";") + "}"
	}
	panic("c28: key: unknown kind " + d.K)
}

// looseMethods collects the method set of interface description d (loose keys).
func (w *c28World) looseMethods(d *c28D, set map[string]bool) {
	for _, m := range d.M {
		def := m
		if m.Shared != "" {
			def = c28SharedDefs[m.Shared]
		}
		sig := *def.Sig
		sig.Rcv = nil
		set[c28Id(def.Name, def.Pkg)+" "+strings.TrimPrefix(w.key(&sig, false), "recv[-]")] = true
	}
	for _, e := range d.Emb {
		if w.visiting[e] {
			set["<cycle>"] = true // coinductive case: no verdict is demanded
			continue
		}
		w.visiting[e] = true
		w.looseMethods(w.defs[e], set)
		delete(w.visiting, e)
	}
}

// ---------------------------------------------------------------- generator

func c28Atoms() (atoms, small []*c28D) {
	for _, b := range []string{"bool", "int", "int32", "rune", "uint8", "byte", "string", "float64", "complex128",
		"uintptr", "unsafe.Pointer", "untyped nil", "untyped int"} {
		atoms = append(atoms, c28B(b))
	}
	for _, nd := range c28NamedDefs() {
		atoms = append(atoms, c28N(nd.Key))
	}
	atoms = append(atoms, c28N("error"))
	for _, u := range []string{"a.E1", "a.E3", "a.R", "a.R2", "a.S", "b.E1"} {
		atoms = append(atoms, c28U(u))
	}
	small = []*c28D{c28B("int"), c28B("string"), c28N("a.T"), c28N("b.T"), c28N("a.E1"), c28B("byte")}
	return
}

// embeddable reports the field name when t may be an embedded struct field.
func c28EmbName(t *c28D) string {
	base := t
	if t.K == "ptr" {
		base = t.A[0]
	}
	switch base.K {
	case "basic":
		if strings.Contains(base.N, " ") || strings.Contains(base.N, ".") {
			return ""
		}
		return base.N
	case "named":
		if base.N == "error" {
			return "error"
		}
		for _, nd := range c28NamedDefs() {
			if nd.Key == base.N {
				return nd.Name
			}
		}
	}
	return ""
}

// c28Shapes applies every constructor shape to t (u is a second operand).
func c28Shapes(t, u *c28D) []*c28D {
	var out []*c28D
	add := func(d ...*c28D) { out = append(out, d...) }
	add(c28Ptr(t), c28Slice(t), c28Chan(0, t), c28Chan(1, t), c28Chan(2, t), c28Array(0, t), c28Array(3, t))
	add(c28Map(u, t), c28Map(t, u))
	// functions
	add(c28Func(c28L(t), nil), c28Func(c28L(t), c28L(t)), c28Func(nil, c28L(t)),
		c28Func(c28L(t, u), nil), c28Func(c28L(u, t), nil), c28Func(nil, c28L(t, u)),
		c28FuncV(c28L(c28Slice(t)), nil), c28Func(c28L(c28Slice(t)), nil), c28FuncV(c28L(u, c28Slice(t)), nil),
		c28Recv(c28N("a.T"), c28Func(c28L(t), nil)), c28Recv(c28Ptr(c28N("a.T")), c28Func(c28L(t), nil)),
		c28Recv(c28N("b.T"), c28Func(c28L(t), nil)), c28Recv(t, c28Func(nil, nil)))
	// structs
	fld := func(name, pkg, tag string, ty *c28D) c28Field { return c28Field{Name: name, Pkg: pkg, Tag: tag, T: ty} }
	add(c28Struct(fld("X", "", "", t)), c28Struct(fld("X", "", `k:"v"`, t)), c28Struct(fld("X", "", `k:"w"`, t)),
		c28Struct(fld("Y", "", "", t)), c28Struct(fld("x", "a", "", t)), c28Struct(fld("x", "b", "", t)),
		c28Struct(fld("x", "a2", "", t)), c28Struct(fld("_", "a", "", t)), c28Struct(fld("_", "b", "", t)),
		c28Struct(fld("X", "", "", t), fld("Y", "", "", u)), c28Struct(fld("Y", "", "", u), fld("X", "", "", t)),
		c28Struct(fld("X", "", "", t), fld("Y", "", `k:"v"`, u)), c28Struct(fld("X", "", `k:"v"`, t), fld("Y", "", "", u)))
	// interfaces whose method signatures mention t
	add(c28Iface(nil, c28M("M", "", c28Func(c28L(t), nil))), c28Iface(nil, c28M("M", "", c28Func(nil, c28L(t)))),
		c28Iface(nil, c28M("M", "", c28FuncV(c28L(c28Slice(t)), nil))), c28Iface(nil, c28M("M", "", c28Func(c28L(c28Slice(t)), nil))),
		c28Iface([]string{"a.E2"}, c28M("M", "", c28Func(c28L(t), nil))), c28Iface(nil, c28M("m", "a", c28Func(c28L(t), nil))),
		c28Iface(nil, c28M("m", "b", c28Func(c28L(t), nil))),
		c28Iface(nil, c28M("M", "", c28Recv(t, c28Func(nil, nil)))))
	add(c28Tuple(t), c28Tuple(t, u), c28Tuple(u, t))
	if n := c28EmbName(t); n != "" {
		add(c28Struct(c28Field{Name: n, Anon: true, T: t}), c28Struct(c28Field{Name: n, Anon: true, Tag: `k:"v"`, T: t}),
			c28Struct(c28Field{Name: n, T: t}))
	}
	return out
}

// c28Ifaces is the product (0-2 explicit methods) x (0-2 embedded interfaces).
func c28Ifaces() []*c28D {
	fn := c28Func(nil, nil)
	methodSets := [][]c28Meth{
		{},
		{c28M("M", "", fn)}, {c28M("N", "", fn)}, {c28M("X", "", fn)}, {c28M("m", "a", fn)}, {c28M("m", "b", fn)}, {c28M("m", "a2", fn)},
		{c28M("M", "", c28Func(c28L(c28B("int")), nil))}, {c28M("N", "", c28Func(c28L(c28B("int")), c28L(c28B("string"))))},
		{c28M("M", "", fn), c28M("N", "", fn)}, {c28M("N", "", fn), c28M("M", "", fn)}, {c28M("M", "", fn), c28M("m", "a", fn)},
		{c28SM("sM")}, {c28SM("sN")}, {c28SM("sX")}, {c28SM("sm")},
		{c28SM("sM"), c28SM("sN")}, {c28SM("sM"), c28M("N", "", fn)}, {c28SM("sX"), c28SM("sM")},
		{c28M("M", "", c28Recv(c28N("a.T"), fn))}, {c28M("M", "", c28Recv(c28N("a.E1"), fn))}, {c28M("M", "", c28Recv(c28U("a.E3"), fn))},
		{c28M("Error", "", c28Func(nil, c28L(c28B("string"))))},
	}
	embSets := [][]string{
		{}, {"a.E0"}, {"a.E1"}, {"b.E1"}, {"a.E2"}, {"a.E3"}, {"a.Eu"}, {"error"}, {"a.R"}, {"a.R2"},
		{"a.E1", "a.E2"}, {"a.E2", "a.E1"}, {"a.E1", "b.E1"}, {"b.E1", "a.E1"}, {"a.E1", "a.E3"}, {"a.E0", "a.E1"},
		{"a.E0", "error"}, {"a.R", "a.R2"}, {"a.E2", "a.Eu"},
	}
	var out []*c28D
	for _, ms := range methodSets {
		for _, es := range embSets {
			// keep the interface a valid Go interface: no explicit method may
			// collide with a method contributed by an embedded interface
			// (a collision with a different signature is a compile error)
			clash := false
			for _, m := range ms {
				def := m
				if m.Shared != "" {
					def = c28SharedDefs[m.Shared]
				}
				id := c28Id(def.Name, def.Pkg)
				for _, e := range es {
					for _, em := range c28EmbMethods[e] {
						if em == id {
							clash = true
						}
					}
				}
			}
			if clash {
				continue
			}
			out = append(out, c28Iface(append([]string{}, es...), append([]c28Meth{}, ms...)...))
		}
	}
	return out
}

// c28Generate returns depth-0 atoms, the exhaustive depth-1 layer, nd2
// depth-2 types and nd2/5 depth-3 types drawn (in sibling groups of three) by rng.
func c28Generate(rng *rand.Rand, nd2 int) (descs []*c28D, depth []int) {
	seen := map[string]bool{}
	add := func(d *c28D, dp int) bool {
		s := c28Str(d)
		if seen[s] {
			return false
		}
		seen[s] = true
		descs = append(descs, d)
		depth = append(depth, dp)
		return true
	}
	atoms, small := c28Atoms()
	add(&c28D{K: "nil"}, 0)
	add(c28Tuple(), 0)
	add(c28Func(nil, nil), 0)
	add(c28Struct(), 0)
	for _, a := range atoms {
		add(a, 0)
	}
	var d1 []*c28D
	for i, a := range atoms {
		for _, s := range c28Shapes(a, small[i%len(small)]) {
			if add(s, 1) {
				d1 = append(d1, s)
			}
		}
	}
	for _, k := range small {
		for _, v := range atoms {
			if s := c28Map(k, v); add(s, 1) {
				d1 = append(d1, s)
			}
		}
	}
	for _, s := range c28Ifaces() {
		if add(s, 1) {
			d1 = append(d1, s)
		}
	}
	// deeper layers: sibling groups of three (same shape over three neighbouring
	// children), so that near-miss pairs are frequent
	layer := func(base []*c28D, want, dp int) (made []*c28D) {
		for tries := 0; want > 0 && tries < 100*want+100; tries++ {
			b := rng.Intn(len(base))
			shape := rng.Intn(1 << 20)
			u := small[rng.Intn(len(small))]
			if rng.Intn(3) == 0 {
				u = d1[rng.Intn(len(d1))]
			}
			for k := 0; k < 3 && want > 0; k++ {
				all := c28Shapes(base[(b+k)%len(base)], u)
				if d := all[shape%len(all)]; add(d, dp) {
					made = append(made, d)
					want--
				}
			}
		}
		return
	}
	d2 := layer(d1, nd2, 2)
	if len(d2) > 0 {
		layer(d2, nd2/5, 3)
	}
	return
}
