package main

// C38 program generator: random, terminating, type-correct Go programs restricted to the subset
// the classic interpreter documents (default-typed int/float64/string/bool, slices, maps, plain
// structs, functions, closures, control flow, defer/recover/panic).

import (
	"fmt"
	"math/rand"
	"sort"
	"strings"
)

type c38T struct {
	k       string // int float64 string bool slice map struct func
	elem    *c38T
	key     *c38T
	name    string // struct name (with §)
	fnames  []string
	ftypes  []*c38T
	params  []*c38T
	results []*c38T
	cmp     bool // comparable with ==
}

var (
	c38Int    = &c38T{k: "int", cmp: true}
	c38Float  = &c38T{k: "float64", cmp: true}
	c38String = &c38T{k: "string", cmp: true}
	c38Bool   = &c38T{k: "bool", cmp: true}
	c38Basics = []*c38T{c38Int, c38Float, c38String, c38Bool}
)

func (t *c38T) String() string {
	switch t.k {
	case "slice":
		return "[]" + t.elem.String()
	case "map":
		return "map[" + t.key.String() + "]" + t.elem.String()
	case "struct":
		return t.name
	case "func":
		var ps, rs []string
		for _, p := range t.params {
			ps = append(ps, p.String())
		}
		for _, r := range t.results {
			rs = append(rs, r.String())
		}
		s := "func(" + strings.Join(ps, ", ") + ")"
		switch len(rs) {
		case 0:
		case 1:
			s += " " + rs[0]
		default:
			s += " (" + strings.Join(rs, ", ") + ")"
		}
		return s
	}
	return t.k
}

func (t *c38T) basic() bool {
	return t.k == "int" || t.k == "float64" || t.k == "string" || t.k == "bool"
}

type c38Var struct {
	name         string
	t            *c38T
	ro           bool // must not be assigned (loop counters)
	cost         int  // closures: estimated cost of one call
	konst        bool // a Go constant
	closAssigned bool // assigned inside some function literal
}

type c38Scope struct {
	parent *c38Scope
	vars   []*c38Var
	// a function literal was created in this scope or a nested one: classic resolves the identifiers of a closure
	// when it runs, so a later declaration in this scope would capture the closure's references (no shadowing then)
	hasClosure bool
}

func (s *c38Scope) markClosure() {
	for sc := s; sc != nil; sc = sc.parent {
		sc.hasClosure = true
	}
}

func (s *c38Scope) visible() []*c38Var {
	seen := map[string]bool{}
	var out []*c38Var
	for sc := s; sc != nil; sc = sc.parent {
		for i := len(sc.vars) - 1; i >= 0; i-- {
			v := sc.vars[i]
			if !seen[v.name] {
				seen[v.name] = true
				out = append(out, v)
			}
		}
	}
	return out
}

func (s *c38Scope) add(name string, t *c38T, ro bool) *c38Var {
	v := &c38Var{name: name, t: t, ro: ro}
	s.vars = append(s.vars, v)
	return v
}

type c38Func struct {
	name     string
	params   []*c38T
	results  []*c38T
	cost     int
	rec      bool // first parameter is the recursion depth (callers pass a small bounded value)
	variadic bool // last parameter is ...int
}

type c38FnCtx struct {
	results []*c38T
	loop    int
	depth   int // closure nesting depth
}

type c38Gen struct {
	rng         *rand.Rand
	theme       string
	structs     []*c38T
	types       []*c38T // pool of value types used for variables
	funcs       []*c38Func
	globals     *c38Scope
	tag         int
	nvar        int
	feats       map[string]bool
	mult        int // product of enclosing loop bounds
	spent       int
	limit       int
	known       map[string]bool // known-finding shapes deliberately generated
	lastLitCost int
	closDepth   int
	inSection   bool
	opts        c38Opts
	inCond      int
	free        int // > 0 while generating an expression whose value is only recorded or tested, never stored
}

func (g *c38Gen) markAssign(v *c38Var) {
	if g.closDepth > 0 {
		v.closAssigned = true
	}
}

// c38Resolve resolves the alternation markers «real¦model» (nestable) to one side.
func c38Resolve(s string, model bool) string {
	var out strings.Builder
	rs := []rune(s)
	var walk func(i int, emit bool) int
	walk = func(i int, emit bool) int {
		for i < len(rs) {
			switch rs[i] {
			case '«':
				i = walk(i+1, emit && !model) // real side, ends at ¦
				i = walk(i, emit && model)    // model side, ends at »
			case '¦', '»':
				return i + 1
			default:
				if emit {
					out.WriteRune(rs[i])
				}
				i++
			}
		}
		return i
	}
	walk(0, true)
	return out.String()
}

func (g *c38Gen) feat(f string)            { g.feats[f] = true }
func (g *c38Gen) n(k int) int              { return g.rng.Intn(k) }
func (g *c38Gen) p(pct int) bool           { return g.rng.Intn(100) < pct }
func (g *c38Gen) pick(ss ...string) string { return ss[g.rng.Intn(len(ss))] }
func (g *c38Gen) nextTag() int             { g.tag++; return g.tag }
func (g *c38Gen) pick4() int               { return []int{0, 1, 2, 2, 3, 3, 3, 4, 4, 5}[g.rng.Intn(10)] }
func (g *c38Gen) fresh(sc *c38Scope) string {
	// sometimes shadow a visible local name
	if g.p(6) && !sc.hasClosure {
		vs := sc.visible()
		if len(vs) > 0 {
			v := vs[g.n(len(vs))]
			if !strings.HasPrefix(v.name, "§") && !v.ro && !g.declaredHere(sc, v.name) {
				g.feat("shadowing")
				return v.name
			}
		}
	}
	g.nvar++
	return fmt.Sprintf("v%d", g.nvar)
}

func (g *c38Gen) declaredHere(sc *c38Scope, name string) bool {
	for _, v := range sc.vars {
		if v.name == name {
			return true
		}
	}
	return false
}

func (g *c38Gen) charge(units int)    { g.spent += units * g.mult }
func (g *c38Gen) room(units int) bool { return g.spent+units*g.mult <= g.limit }

// ---------------------------------------------------------------- literals

var c38IntLits = []string{"0", "1", "2", "3", "4", "5", "7", "8", "10", "13", "16", "100", "255", "1000", "(-1)", "(-3)", "(-7)"}
var c38FloatLits = []string{"0.5", "1.5", "2.0", "0.25", "3.75", "10.0", "1e3", "0.1", "2.5e-3", "100.0", "(-1.5)", "(-0.75)", "7.0", "0.0"}
var c38StrLits = []string{`""`, `"a"`, `"b"`, `"ab"`, `"xyz"`, `"hello"`, `"Go"`, `"é"`, `"日本"`, `"a b"`, `"\n"`, `"q\"q"`, `"zz"`}

func (g *c38Gen) lit(t *c38T) string {
	switch t.k {
	case "int":
		return c38IntLits[g.n(len(c38IntLits))]
	case "float64":
		return c38FloatLits[g.n(len(c38FloatLits))]
	case "string":
		return c38StrLits[g.n(len(c38StrLits))]
	case "bool":
		return g.pick("true", "false")
	}
	panic("lit " + t.String())
}

// ---------------------------------------------------------------- expressions (pure: no user-function calls)

type c38E struct {
	s string
	c bool // constant expression in Go
}

func (g *c38Gen) varsOf(sc *c38Scope, t *c38T, assignable bool) []*c38Var {
	var out []*c38Var
	for _, v := range sc.visible() {
		if v.t == t && !(assignable && v.ro) {
			out = append(out, v)
		}
	}
	return out
}

func (g *c38Gen) varsOfKind(sc *c38Scope, pred func(t *c38T) bool) []*c38Var {
	var out []*c38Var
	for _, v := range sc.visible() {
		if pred(v.t) {
			out = append(out, v)
		}
	}
	return out
}

func (g *c38Gen) leaf(sc *c38Scope, t *c38T) c38E {
	vs := g.varsOf(sc, t, false)
	if len(vs) > 0 && g.p(75) {
		v := vs[g.n(len(vs))]
		return c38E{v.name, v.konst}
	}
	switch t.k {
	case "int", "float64", "string", "bool":
		return c38E{g.lit(t), true}
	case "slice":
		n := g.pick4()
		if n == 0 {
			return c38E{t.String() + "{}", false}
		}
		var es []string
		for i := 0; i < n; i++ {
			es = append(es, g.expr(sc, t.elem, 0).s)
		}
		g.feat("slice-literal")
		return c38E{t.String() + "{" + strings.Join(es, ", ") + "}", false}
	case "map":
		n := g.n(4)
		var es []string
		seen := map[string]bool{}
		for i := 0; i < n; i++ {
			k := g.lit(t.key)
			if seen[k] {
				continue
			}
			seen[k] = true
			es = append(es, k+": "+g.expr(sc, t.elem, 0).s)
		}
		g.feat("map-literal")
		return c38E{t.String() + "{" + strings.Join(es, ", ") + "}", false}
	case "struct":
		var es []string
		if g.p(50) {
			for i, ft := range t.ftypes {
				_ = i
				es = append(es, g.expr(sc, ft, 0).s)
			}
			g.feat("struct-literal-positional")
		} else {
			for i, ft := range t.ftypes {
				if g.p(75) {
					es = append(es, t.fnames[i]+": "+g.expr(sc, ft, 0).s)
				}
			}
			g.feat("struct-literal-keyed")
		}
		if g.opts.noStructLitInCond && g.inCond > 0 {
			return c38E{"[]" + t.name + "{" + t.name + "{" + strings.Join(es, ", ") + "}}[0]", false}
		}
		return c38E{t.name + "{" + strings.Join(es, ", ") + "}", false}
	case "func":
		return c38E{g.funcLit(sc, t, 0), false}
	}
	panic("leaf " + t.String())
}

// nonConstFloat makes sure e is not a Go constant expression (classic folds float constants in float64, Go exactly).
func (g *c38Gen) nonConst(e c38E, t *c38T) c38E {
	if !e.c {
		return e
	}
	switch t.k {
	case "float64":
		return c38E{"§idf(" + e.s + ")", false}
	case "int":
		return c38E{"§idi(" + e.s + ")", false}
	}
	return e
}

func (g *c38Gen) expr(sc *c38Scope, t *c38T, d int) c38E {
	if d <= 0 || g.p(15) {
		return g.leaf(sc, t)
	}
	// accessors common to all types: index / map lookup / field
	if g.p(22) {
		if e, ok := g.access(sc, t, d); ok {
			return e
		}
	}
	switch t.k {
	case "int":
		switch c := g.n(100); {
		case c < 45:
			op := g.pick("+", "-", "*", "+", "-", "*", "/", "%", "&", "|", "^", "&^")
			a := g.expr(sc, t, d-1)
			b := g.expr(sc, t, d-1)
			if (op == "/" || op == "%") && b.c {
				b = c38E{g.pick("1", "2", "3", "5", "7", "(-2)"), true}
			} else if (op == "/" || op == "%") && g.p(70) {
				b = c38E{"(" + b.s + " | 1)", false} // never zero
			}
			g.feat("int" + op)
			return c38E{"(" + a.s + " " + op + " " + b.s + ")", a.c && b.c}
		case c < 55:
			op := g.pick("<<", ">>")
			a := g.expr(sc, t, d-1)
			if a.c {
				a = c38E{g.pick("1", "2", "3", "5", "100"), true}
			}
			var cnt string
			cc := true
			if g.p(60) {
				cnt = fmt.Sprint(g.n(9))
			} else {
				cnt = "(" + g.expr(sc, t, d-1).s + " & 7)"
				cc = false
				a = g.nonConst(a, t) // a constant shifted by a non-constant count takes its type from the context
			}
			g.feat("int" + op)
			return c38E{"(" + a.s + " " + op + " " + cnt + ")", a.c && cc}
		case c < 63:
			op := g.pick("-", "^", "+")
			a := g.expr(sc, t, d-1)
			g.feat("unary" + op + "int")
			return c38E{"(" + op + a.s + ")", a.c}
		case c < 78:
			vs := g.varsOfKind(sc, func(x *c38T) bool { return x.k == "slice" || x.k == "map" || x.k == "string" })
			if len(vs) > 0 {
				v := vs[g.n(len(vs))]
				if v.t.k == "slice" && g.p(15) {
					g.feat("cap")
					return c38E{"cap(" + v.name + ")", false}
				}
				g.feat("len-" + v.t.k)
				return c38E{"len(" + v.name + ")", v.konst}
			}
		}
		return g.leaf(sc, t)
	case "float64":
		switch c := g.n(100); {
		case c < 55:
			op := g.pick("+", "-", "*", "/")
			a := g.expr(sc, t, d-1)
			b := g.expr(sc, t, d-1)
			if op == "/" && b.c {
				b = c38E{g.pick("2.0", "0.5", "3.0", "(-4.0)"), true}
			}
			if a.c && b.c {
				a = g.nonConst(a, t)
			}
			g.feat("float" + op)
			return c38E{"(" + a.s + " " + op + " " + b.s + ")", false}
		case c < 63:
			a := g.nonConst(g.expr(sc, t, d-1), t)
			g.feat("unary-float")
			return c38E{"(-" + a.s + ")", false}
		case c < 80:
			a := g.expr(sc, c38Int, d-1)
			g.feat("float64(int)")
			return c38E{"float64(" + a.s + ")", a.c}
		}
		return g.leaf(sc, t)
	case "string":
		switch c := g.n(100); {
		case c < 50:
			a := g.expr(sc, t, d-1)
			var b c38E
			if g.free > 0 {
				b = g.expr(sc, t, d-1)
			} else {
				// a stored string value references at most one string variable: lengths grow linearly, never by doubling
				b = c38E{g.lit(t), true}
				if g.p(50) {
					a, b = b, a
				}
			}
			g.feat("string+")
			return c38E{"(" + a.s + " + " + b.s + ")", a.c && b.c}
		case c < 65:
			var vs []*c38Var
			for _, v := range g.varsOf(sc, t, false) {
				if !v.konst {
					vs = append(vs, v)
				}
			}
			if len(vs) > 0 && g.p(60) {
				lo := g.n(2)
				hi := lo + g.n(2)
				g.feat("string-slicing")
				switch g.n(3) {
				case 0:
					return c38E{fmt.Sprintf("%s[%d:%d]", vs[g.n(len(vs))].name, lo, hi), false}
				case 1:
					return c38E{fmt.Sprintf("%s[%d:]", vs[g.n(len(vs))].name, lo), false}
				default:
					return c38E{fmt.Sprintf("%s[:%d]", vs[g.n(len(vs))].name, hi), false}
				}
			}
		}
		return g.leaf(sc, t)
	case "bool":
		switch c := g.n(100); {
		case c < 50:
			ot := c38Basics[g.n(3)]
			op := g.pick("==", "!=", "<", "<=", ">", ">=")
			a := g.expr(sc, ot, d-1)
			b := g.expr(sc, ot, d-1)
			if ot.k == "float64" && a.c && b.c {
				a = g.nonConst(a, ot)
			}
			g.feat(ot.k + op)
			return c38E{"(" + a.s + " " + op + " " + b.s + ")", a.c && b.c}
		case c < 58:
			// == on bools or comparable structs
			var ot *c38T = c38Bool
			for _, st := range g.structs {
				if st.cmp && g.p(50) {
					ot = st
				}
			}
			op := g.pick("==", "!=")
			a := g.expr(sc, ot, d-1)
			b := g.expr(sc, ot, d-1)
			g.feat(ot.k + op)
			return c38E{"(" + a.s + " " + op + " " + b.s + ")", a.c && b.c}
		case c < 80:
			op := g.pick("&&", "||")
			a := g.expr(sc, t, d-1)
			b := g.expr(sc, t, d-1)
			g.feat("bool" + op)
			return c38E{"(" + a.s + " " + op + " " + b.s + ")", a.c && b.c}
		case c < 90:
			a := g.expr(sc, t, d-1)
			g.feat("unary!")
			return c38E{"(!" + a.s + ")", a.c}
		}
		return g.leaf(sc, t)
	case "slice":
		switch c := g.n(100); {
		case c < 35:
			a := g.expr(sc, t, d-1)
			n := 1 + g.n(2)
			var es []string
			for i := 0; i < n; i++ {
				es = append(es, g.expr(sc, t.elem, d-1).s)
			}
			if g.known["append-spread"] && g.p(50) {
				g.feat("KNOWN:append-spread")
				return c38E{"append(" + a.s + ", " + g.leaf(&c38Scope{}, t).s + "...)", false}
			}
			g.feat("append")
			return c38E{"append(" + a.s + ", " + strings.Join(es, ", ") + ")", false}
		case c < 50:
			vs := g.varsOf(sc, t, false)
			if len(vs) > 0 {
				lo := g.n(2)
				hi := lo + g.n(3)
				g.feat("slice-slicing")
				v := vs[g.n(len(vs))].name
				switch g.n(4) {
				case 0:
					return c38E{fmt.Sprintf("%s[%d:%d]", v, lo, hi), false}
				case 1:
					return c38E{fmt.Sprintf("%s[%d:]", v, lo), false}
				case 2:
					return c38E{fmt.Sprintf("%s[:%d]", v, hi), false}
				default:
					g.feat("slice-slicing3")
					return c38E{fmt.Sprintf("%s[%d:%d:%d]", v, lo, hi, hi+g.n(2)), false}
				}
			}
		case c < 62:
			n := 1 + g.n(4)
			g.feat("make-slice")
			if g.p(30) {
				return c38E{fmt.Sprintf("make(%s, %d, %d)", t, n, n+g.n(3)), false}
			}
			if g.p(25) {
				return c38E{fmt.Sprintf("make(%s, (%s & 7))", t, g.expr(sc, c38Int, d-1).s), false}
			}
			return c38E{fmt.Sprintf("make(%s, %d)", t, n), false}
		}
		return g.leaf(sc, t)
	case "map":
		if g.p(15) {
			g.feat("make-map")
			return c38E{"make(" + t.String() + ")", false}
		}
		return g.leaf(sc, t)
	}
	return g.leaf(sc, t)
}

func (g *c38Gen) index(sc *c38Scope, d int) string {
	switch c := g.n(100); {
	case c < 55:
		return g.pick("0", "0", "0", "0", "0", "0", "0", "1", "1", "1", "1", "2", "2", "3")
	case c < 85:
		vs := g.varsOf(sc, c38Int, false)
		if len(vs) > 0 {
			v := vs[g.n(len(vs))]
			if v.konst {
				return g.pick("0", "1")
			}
			if strings.HasPrefix(v.name, "k") && g.p(60) || g.p(15) {
				return v.name
			}
			return "(" + v.name + " & 1)"
		}
		return fmt.Sprint(g.n(3))
	}
	if e := g.expr(sc, c38Int, d-1); !e.c {
		if g.p(70) {
			return "(" + e.s + " & 1)"
		}
		return e.s
	}
	return fmt.Sprint(g.n(4))
}

// access builds an index / map lookup / field selection of type t on a visible variable.
func (g *c38Gen) access(sc *c38Scope, t *c38T, d int) (c38E, bool) {
	type cand struct{ s, f string }
	var cs []cand
	for _, v := range sc.visible() {
		switch v.t.k {
		case "slice":
			if v.t.elem == t {
				cs = append(cs, cand{v.name + "[" + g.index(sc, d) + "]", "index-slice"})
			} else if v.t.elem.k == "struct" {
				for i, ft := range v.t.elem.ftypes {
					if ft == t {
						cs = append(cs, cand{v.name + "[" + g.index(sc, d) + "]." + v.t.elem.fnames[i], "index-slice-field"})
					}
				}
			}
		case "map":
			if v.t.elem == t {
				cs = append(cs, cand{v.name + "[" + g.expr(sc, v.t.key, d-1).s + "]", "index-map"})
			} else if v.t.elem.k == "struct" {
				for i, ft := range v.t.elem.ftypes {
					if ft == t {
						cs = append(cs, cand{v.name + "[" + g.expr(sc, v.t.key, d-1).s + "]." + v.t.elem.fnames[i], "index-map-field"})
					}
				}
			}
		case "struct":
			for i, ft := range v.t.ftypes {
				if ft == t {
					cs = append(cs, cand{v.name + "." + v.t.fnames[i], "field"})
				} else if ft.k == "struct" {
					for j, ft2 := range ft.ftypes {
						if ft2 == t {
							cs = append(cs, cand{v.name + "." + v.t.fnames[i] + "." + ft.fnames[j], "field-nested"})
						}
					}
				} else if ft.k == "slice" && ft.elem == t {
					cs = append(cs, cand{v.name + "." + v.t.fnames[i] + "[" + g.index(sc, d) + "]", "field-index"})
				}
			}
		}
	}
	if len(cs) == 0 {
		return c38E{}, false
	}
	c := cs[g.n(len(cs))]
	g.feat(c.f)
	return c38E{c.s, false}, true
}

// place builds an assignable place of a basic or struct type; returns text and type.
func (g *c38Gen) place(sc *c38Scope) (string, *c38T) {
	type cand struct {
		s string
		t *c38T
		f string
		v *c38Var
	}
	var cs []cand
	for _, v := range sc.visible() {
		if v.ro {
			continue
		}
		switch v.t.k {
		case "int", "float64", "string", "bool":
			cs = append(cs, cand{v.name, v.t, "assign-var", nil}, cand{v.name, v.t, "assign-var", nil})
		case "slice":
			if v.t.elem.k != "func" {
				cs = append(cs, cand{v.name + "[" + g.index(sc, 2) + "]", v.t.elem, "assign-slice-elem", nil})
			}
			if v.t.elem.k == "struct" {
				i := g.n(len(v.t.elem.ftypes))
				if v.t.elem.ftypes[i].basic() {
					cs = append(cs, cand{v.name + "[" + g.index(sc, 2) + "]." + v.t.elem.fnames[i], v.t.elem.ftypes[i], "assign-slice-elem-field", nil})
				}
			}
			cs = append(cs, cand{v.name, v.t, "assign-slice-var", v})
		case "map":
			cs = append(cs, cand{v.name + "[" + g.expr(sc, v.t.key, 1).s + "]", v.t.elem, "assign-map-elem", nil})
		case "struct":
			cs = append(cs, cand{v.name, v.t, "assign-struct-var", nil})
			for i, ft := range v.t.ftypes {
				if ft.k == "struct" {
					j := g.n(len(ft.ftypes))
					cs = append(cs, cand{v.name + "." + v.t.fnames[i] + "." + ft.fnames[j], ft.ftypes[j], "assign-field-nested", nil})
				}
				cs = append(cs, cand{v.name + "." + v.t.fnames[i], ft, "assign-field", nil})
			}
		}
	}
	if len(cs) == 0 {
		return "", nil
	}
	c := cs[g.n(len(cs))]
	g.feat(c.f)
	if c.v != nil {
		g.markAssign(c.v)
	}
	return c.s, c.t
}

// ---------------------------------------------------------------- calls (only at the root of a statement's expression)

// call returns a call expression whose results are exactly `results` (nil = any no-result callee), or "".
func (g *c38Gen) call(sc *c38Scope, results []*c38T) string {
	type cand struct {
		s    string
		cost int
		f    string
	}
	same := func(a []*c38T) bool {
		if len(a) != len(results) {
			return false
		}
		for i := range a {
			if a[i] != results[i] {
				return false
			}
		}
		return true
	}
	var cs []cand
	for _, f := range g.funcs {
		if !same(f.results) || !g.room(f.cost) {
			continue
		}
		var args []string
		for i, pt := range f.params {
			if i == 0 && f.rec {
				if g.p(50) {
					args = append(args, fmt.Sprint(g.n(5)))
				} else {
					args = append(args, "("+g.expr(sc, c38Int, 1).s+" & 3)")
				}
				continue
			}
			args = append(args, g.expr(sc, pt, 2).s)
		}
		ft := "call-func"
		if f.variadic {
			ft = "call-variadic"
			vs := g.varsOf(sc, g.sliceOf(c38Int), false)
			if len(vs) > 0 && g.p(40) {
				args = append(args, vs[g.n(len(vs))].name+"...")
				ft = "call-variadic-spread"
			} else {
				nx := g.n(4)
				if nx == 0 {
					// no variadic argument: reflect.Call passes an empty non-nil slice where Go passes nil (restriction);
					// f(fixed) alone is not callable at all, see C38-variadic-one-arg
					if g.known["variadic-one-arg"] && len(f.params) == 1 {
						g.feat("KNOWN:variadic-one-arg")
					} else {
						nx = 1
					}
				}
				for i := nx; i > 0; i-- {
					args = append(args, g.expr(sc, c38Int, 1).s)
				}
			}
		}
		if f.rec {
			ft = "call-recursive"
		}
		cs = append(cs, cand{f.name + "(" + strings.Join(args, ", ") + ")", f.cost, ft})
	}
	for _, v := range sc.visible() {
		if v.t.k != "func" || !same(v.t.results) || !g.room(40) {
			continue
		}
		var args []string
		for _, pt := range v.t.params {
			args = append(args, g.expr(sc, pt, 2).s)
		}
		cost := v.cost
		if cost == 0 {
			cost = 40
		}
		if !g.room(cost) {
			continue
		}
		cs = append(cs, cand{v.name + "(" + strings.Join(args, ", ") + ")", cost, "call-closure"}, cand{v.name + "(" + strings.Join(args, ", ") + ")", cost, "call-closure"})
	}
	// func-typed slice elements
	for _, v := range sc.visible() {
		// only from section bodies: a closure stored in a slice that calls an element of that slice, or a function
		// calling a global slice's closure that calls the function back, would recurse without bound
		if g.inSection && g.closDepth == 0 && v.t.k == "slice" && v.t.elem.k == "func" && same(v.t.elem.results) && len(v.t.elem.params) == 0 && g.room(40) {
			cs = append(cs, cand{v.name + "[" + fmt.Sprint(g.n(3)) + "]()", 40, "call-closure-in-slice"})
		}
	}
	if len(cs) == 0 {
		return ""
	}
	c := cs[g.n(len(cs))]
	g.charge(c.cost)
	g.feat(c.f)
	return c.s
}

func (g *c38Gen) sliceOf(e *c38T) *c38T {
	for _, t := range g.types {
		if t.k == "slice" && t.elem == e {
			return t
		}
	}
	t := &c38T{k: "slice", elem: e}
	g.types = append(g.types, t)
	return t
}

func (g *c38Gen) funcType(params, results []*c38T) *c38T {
	nt := &c38T{k: "func", params: params, results: results}
	s := nt.String()
	for _, t := range g.types {
		if t.k == "func" && t.String() == s {
			return t
		}
	}
	g.types = append(g.types, nt)
	return nt
}

// funcLit writes a function literal of type t whose body captures sc.
func (g *c38Gen) funcLit(sc *c38Scope, t *c38T, depth int) string {
	sc.markClosure()
	var b strings.Builder
	inner := &c38Scope{parent: sc}
	var ps []string
	for _, pt := range t.params {
		g.nvar++
		name := fmt.Sprintf("p%d", g.nvar)
		inner.add(name, pt, false)
		ps = append(ps, name+" "+pt.String())
	}
	b.WriteString("func(" + strings.Join(ps, ", ") + ")")
	switch len(t.results) {
	case 0:
	case 1:
		b.WriteString(" " + t.results[0].String())
	default:
		var rs []string
		for _, r := range t.results {
			rs = append(rs, r.String())
		}
		b.WriteString(" (" + strings.Join(rs, ", ") + ")")
	}
	b.WriteString(" {\n")
	fc := &c38FnCtx{results: t.results, depth: depth + 1}
	g.feat("closure")
	if depth >= 1 {
		g.feat("closure-nested")
	}
	before := g.spent
	saveFree := g.free
	g.free = 0
	defer func() { g.free = saveFree }()
	g.closDepth++
	b.WriteString(g.block(inner, fc, 1+g.n(3), 1))
	b.WriteString(g.finalReturn(inner, fc))
	g.closDepth--
	g.lastLitCost = (g.spent-before)/g.mult + 2
	b.WriteString("}")
	return b.String()
}

func (g *c38Gen) finalReturn(sc *c38Scope, fc *c38FnCtx) string {
	if len(fc.results) == 0 {
		return ""
	}
	var es []string
	for _, rt := range fc.results {
		es = append(es, g.expr(sc, rt, 2).s)
	}
	return "return " + strings.Join(es, ", ") + "\n"
}

// ---------------------------------------------------------------- statements

func (g *c38Gen) valueType() *c38T {
	// bias towards basics
	if g.p(55) {
		return c38Basics[g.n(4)]
	}
	for tries := 0; tries < 8; tries++ {
		t := g.types[g.n(len(g.types))]
		if t.k == "func" || g.opts.noFuncRec && t.k == "slice" && t.elem.k == "func" {
			continue
		}
		return t
	}
	return c38Int
}

func (g *c38Gen) recStmt(sc *c38Scope) string {
	g.free++
	defer func() { g.free-- }()
	n := 1 + g.n(4)
	var es []string
	for i := 0; i < n; i++ {
		var t *c38T
		if g.p(50) {
			vs := sc.visible()
			if len(vs) > 0 {
				v := vs[g.n(len(vs))]
				if v.t.k != "func" && !(v.t.k == "slice" && v.t.elem.k == "func") {
					es = append(es, v.name)
					continue
				}
			}
		}
		t = g.valueType()
		es = append(es, g.expr(sc, t, 2+g.n(2)).s)
	}
	g.charge(1)
	return fmt.Sprintf("rec(%d, %s)\n", g.nextTag(), strings.Join(es, ", "))
}

func (g *c38Gen) declStmt(sc *c38Scope, fc *c38FnCtx) string {
	t := g.valueType()
	g.charge(1)
	// closures
	if fc.depth < 2 && g.room(60) && g.p(g.themeW("closures", 22, 7)) {
		var params []*c38T
		for i := g.n(3); i > 0; i-- {
			params = append(params, c38Basics[g.n(4)])
		}
		var results []*c38T
		if g.p(75) {
			results = append(results, c38Basics[g.n(4)])
		}
		ft := g.funcType(params, results)
		lit := g.funcLit(sc, ft, fc.depth)
		name := g.fresh(sc)
		sc.add(name, ft, false).cost = g.lastLitCost
		return fmt.Sprintf("%s := %s\n_ = %s\n", name, lit, name)
	}
	// value from a call
	if g.p(25) {
		if c := g.call(sc, []*c38T{t}); c != "" {
			name := g.fresh(sc)
			sc.add(name, t, false)
			return fmt.Sprintf("%s := %s\n_ = %s\n", name, c, name)
		}
	}
	e := g.expr(sc, t, 3)
	name := g.fresh(sc)
	var s string
	switch c := g.n(100); {
	case c < 50:
		if t.k == "float64" || t.k == "int" {
			// `x := 2.0` gives float64 in Go; keep the literal's default type equal to t
		}
		s = fmt.Sprintf("%s := %s\n", name, e.s)
		g.feat("define")
	case c < 80:
		s = fmt.Sprintf("var %s %s = %s\n", name, t, e.s)
		g.feat("var-typed-init")
	case c < 90:
		s = fmt.Sprintf("var %s = %s\n", name, e.s)
		g.feat("var-untyped-init")
	default:
		if !t.basic() && g.p(60) {
			s = fmt.Sprintf("var %s %s = %s\n", name, t, e.s)
			break
		}
		s = fmt.Sprintf("var %s %s\n", name, t)
		g.feat("var-zero-" + t.k)
	}
	sc.add(name, t, false)
	return s + "_ = " + name + "\n"
}

func (g *c38Gen) themeW(theme string, hi, lo int) int {
	if g.theme == theme {
		return hi
	}
	return lo
}

func (g *c38Gen) assignStmt(sc *c38Scope) string {
	g.charge(1)
	pl, t := g.place(sc)
	if pl == "" {
		return g.recStmt(sc)
	}
	// value from a call only into plain variables
	if !strings.ContainsAny(pl, "[.") && g.p(20) {
		if c := g.call(sc, []*c38T{t}); c != "" {
			g.feat("assign-from-call")
			return pl + " = " + c + "\n"
		}
	}
	switch t.k {
	case "int":
		switch c := g.n(100); {
		case c < 40:
			return pl + " = " + g.expr(sc, t, 3).s + "\n"
		case c < 75:
			op := g.pick("+=", "-=", "*=", "/=", "%=", "&=", "|=", "^=", "&^=", "+=", "-=")
			e := g.expr(sc, t, 2)
			if (op == "/=" || op == "%=") && e.c {
				e.s = g.pick("2", "3", "7")
			}
			g.feat("int" + op)
			return pl + " " + op + " " + e.s + "\n"
		case c < 83:
			op := g.pick("<<=", ">>=")
			g.feat("int" + op)
			return fmt.Sprintf("%s %s %d\n", pl, op, g.n(6))
		default:
			op := g.pick("++", "--")
			g.feat("int" + op)
			return pl + op + "\n"
		}
	case "float64":
		switch c := g.n(100); {
		case c < 50:
			return pl + " = " + g.expr(sc, t, 3).s + "\n"
		case c < 90:
			op := g.pick("+=", "-=", "*=", "/=")
			e := g.expr(sc, t, 2)
			if op == "/=" && e.c {
				e.s = g.pick("2.0", "0.5", "4.0")
			}
			g.feat("float" + op)
			return pl + " " + op + " " + e.s + "\n"
		default:
			op := g.pick("++", "--")
			g.feat("float" + op)
			return pl + op + "\n"
		}
	case "string":
		if g.p(40) {
			g.feat("string+=")
			return pl + " += " + g.lit(t) + "\n"
		}
	}
	return pl + " = " + g.expr(sc, t, 3).s + "\n"
}

func (g *c38Gen) tupleStmt(sc *c38Scope) string {
	g.charge(1)
	switch c := g.n(100); {
	case c < 35:
		// swap / parallel assignment of two places of equal type
		// no indexed places: Go carries out the assignments left to right and raises an index panic of a later place
		// when it is assigned (earlier ones are done by then); classic raises it before assigning anything
		p1, t1 := g.place(sc)
		if p1 == "" || strings.Contains(p1, "[") {
			break
		}
		for tries := 0; tries < 6; tries++ {
			p2, t2 := g.place(sc)
			if t2 == t1 && p2 != p1 && !strings.Contains(p2, "[") {
				g.feat("parallel-assign")
				if g.p(50) {
					return fmt.Sprintf("%s, %s = %s, %s\n", p1, p2, p2, p1)
				}
				return fmt.Sprintf("%s, %s = %s, %s\n", p1, p2, g.expr(sc, t1, 2).s, g.expr(sc, t1, 2).s)
			}
		}
	case c < 65:
		// v, ok := m[k]
		vs := g.varsOfKind(sc, func(t *c38T) bool { return t.k == "map" })
		if len(vs) > 0 {
			m := vs[g.n(len(vs))]
			a, b := g.fresh(sc), g.fresh(sc)
			if a == b {
				break
			}
			k := g.expr(sc, m.t.key, 2).s
			sc.add(a, m.t.elem, false)
			sc.add(b, c38Bool, false)
			g.feat("comma-ok-map")
			return fmt.Sprintf("%s, %s := %s[%s]\n_, _ = %s, %s\n", a, b, m.name, k, a, b)
		}
	default:
		// multi-value call
		for _, f := range g.funcs {
			if len(f.results) == 2 && g.room(f.cost) && g.p(60) {
				if c := g.call(sc, f.results); c != "" {
					a, b := g.fresh(sc), g.fresh(sc)
					if a == b {
						break
					}
					sc.add(a, f.results[0], false)
					sc.add(b, f.results[1], false)
					g.feat("multi-value-define")
					return fmt.Sprintf("%s, %s := %s\n_, _ = %s, %s\n", a, b, c, a, b)
				}
			}
		}
	}
	return g.assignStmt(sc)
}

func (g *c38Gen) builtinStmt(sc *c38Scope) string {
	g.charge(1)
	switch c := g.n(100); {
	case c < 45:
		vs := g.varsOfKind(sc, func(t *c38T) bool { return t.k == "slice" })
		if len(vs) > 0 {
			v := vs[g.n(len(vs))]
			if v.ro {
				break
			}
			g.feat("append-assign")
			g.markAssign(v)
			return fmt.Sprintf("%s = append(%s, %s)\n", v.name, v.name, g.expr(sc, v.t.elem, 2).s)
		}
	case c < 70:
		vs := g.varsOfKind(sc, func(t *c38T) bool { return t.k == "map" })
		if len(vs) > 0 {
			v := vs[g.n(len(vs))]
			g.feat("delete")
			return fmt.Sprintf("delete(%s, %s)\n", v.name, g.expr(sc, v.t.key, 1).s)
		}
	default:
		vs := g.varsOfKind(sc, func(t *c38T) bool { return t.k == "slice" && t.elem.basic() })
		if len(vs) > 0 {
			v := vs[g.n(len(vs))]
			g.feat("copy")
			name := g.fresh(sc)
			src := g.expr(sc, v.t, 1).s
			sc.add(name, c38Int, false)
			return fmt.Sprintf("%s := copy(%s, %s)\n_ = %s\n", name, v.name, src, name)
		}
	}
	return g.recStmt(sc)
}

func (g *c38Gen) callStmt(sc *c38Scope) string {
	// rec(tag, call) or a bare call of a no-result callee
	if g.p(35) {
		if c := g.call(sc, nil); c != "" {
			g.feat("call-stmt")
			return c + "\n"
		}
	}
	t := c38Basics[g.n(4)]
	if g.p(25) {
		t = g.valueType()
	}
	if c := g.call(sc, []*c38T{t}); c != "" {
		g.charge(1)
		return fmt.Sprintf("rec(%d, %s)\n", g.nextTag(), c)
	}
	return g.recStmt(sc)
}

func (g *c38Gen) ifStmt(sc *c38Scope, fc *c38FnCtx, d int) string {
	g.charge(1)
	var b strings.Builder
	inner := &c38Scope{parent: sc}
	b.WriteString("if ")
	if g.p(20) {
		name := g.fresh(inner)
		t := c38Basics[g.n(3)]
		b.WriteString(fmt.Sprintf("%s := %s; ", name, g.nonConstAny(g.expr(inner, t, 2), t)))
		inner.add(name, t, false)
		b.WriteString(g.condUsing(inner, name, t))
		g.feat("if-init")
	} else {
		b.WriteString(g.cond(inner))
	}
	b.WriteString(" {\n")
	b.WriteString(g.block(&c38Scope{parent: inner}, fc, 1+g.n(3), d+1))
	b.WriteString("}")
	g.feat("if")
	for g.p(30) {
		b.WriteString(" else if " + g.cond(inner) + " {\n")
		b.WriteString(g.block(&c38Scope{parent: inner}, fc, 1+g.n(2), d+1))
		b.WriteString("}")
		g.feat("else-if")
	}
	if g.p(45) {
		b.WriteString(" else {\n")
		b.WriteString(g.block(&c38Scope{parent: inner}, fc, 1+g.n(2), d+1))
		b.WriteString("}")
		g.feat("else")
	}
	b.WriteString("\n")
	return b.String()
}

func (g *c38Gen) nonConstAny(e c38E, t *c38T) string { return e.s }

func (g *c38Gen) condUsing(sc *c38Scope, name string, t *c38T) string {
	switch t.k {
	case "int":
		return fmt.Sprintf("%s %s %s", name, g.pick("<", ">", "==", "!=", "<=", ">="), g.expr(sc, t, 1).s)
	case "float64":
		return fmt.Sprintf("%s %s %s", name, g.pick("<", ">", "<=", ">="), g.expr(sc, t, 1).s)
	default:
		return fmt.Sprintf("%s %s %s", name, g.pick("<", ">", "==", "!="), g.expr(sc, t, 1).s)
	}
}

// cond: a non-constant boolean expression when possible (avoids dead code only, not required for validity)
func (g *c38Gen) cond(sc *c38Scope) string {
	g.free++
	g.inCond++
	defer func() { g.free--; g.inCond-- }()
	for tries := 0; tries < 4; tries++ {
		e := g.expr(sc, c38Bool, 2+g.n(2))
		if !e.c {
			return e.s
		}
	}
	return g.expr(sc, c38Bool, 2).s
}

func (g *c38Gen) forStmt(sc *c38Scope, fc *c38FnCtx, d int) string {
	var b strings.Builder
	saveMult := g.mult
	defer func() { g.mult = saveMult }()
	fc.loop++
	defer func() { fc.loop-- }()
	switch c := g.n(100); {
	case c < 35:
		n := 1 + g.n(4)
		g.nvar++
		i := fmt.Sprintf("i%d", g.nvar)
		inner := &c38Scope{parent: sc}
		inner.add(i, c38Int, true)
		g.mult *= n
		g.feat("for-3clause")
		switch g.n(3) {
		case 0:
			fmt.Fprintf(&b, "for %s := 0; %s < %d; %s++ {\n", i, i, n, i)
		case 1:
			fmt.Fprintf(&b, "for %s := %d; %s > 0; %s-- {\n", i, n, i, i)
		default:
			fmt.Fprintf(&b, "for %s := 0; %s < %d; %s += 2 {\n", i, i, 2*n, i)
		}
		b.WriteString(g.block(&c38Scope{parent: inner}, fc, 1+g.n(3), d+1))
		b.WriteString("}\n")
	case c < 50:
		// while-style loop with its own counter, incremented first so that `continue` cannot loop forever
		n := 1 + g.n(4)
		g.nvar++
		w := fmt.Sprintf("w%d", g.nvar)
		sc.add(w, c38Int, true)
		g.mult *= n
		g.feat("for-cond")
		extra := ""
		if g.p(40) {
			extra = " && " + g.cond(sc)
		}
		if g.p(20) {
			g.feat("for-infinite-break")
			fmt.Fprintf(&b, "%s := 0\nfor {\nif %s >= %d {\nbreak\n}\n%s++\n", w, w, n, w)
		} else {
			fmt.Fprintf(&b, "%s := 0\nfor %s < %d%s {\n%s++\n", w, w, n, extra, w)
		}
		b.WriteString(g.block(&c38Scope{parent: sc}, fc, 1+g.n(3), d+1))
		b.WriteString("}\n")
	case c < 80:
		vs := g.varsOfKind(sc, func(t *c38T) bool { return t.k == "slice" })
		var x string
		var xt *c38T
		var xv *c38Var
		if len(vs) > 0 && g.p(80) {
			xv = vs[g.n(len(vs))]
			x, xt = xv.name, xv.t
		} else {
			xt = g.sliceOf(c38Basics[g.n(4)])
			x = g.leaf(sc, xt).s
			for _, v := range vs {
				if v.name == x {
					xv = v
				}
			}
		}
		inner := &c38Scope{parent: sc}
		g.mult *= 4
		if g.known["range-novars"] && g.p(60) {
			// planted: `for range x` (no iteration variables) does not iterate at all in classic
			g.feat("KNOWN:range-novars")
			fmt.Fprintf(&b, "«for range %s {\n¦if false {\n»", x)
			b.WriteString(g.recStmt(inner))
			b.WriteString(g.block(&c38Scope{parent: inner}, fc, 1+g.n(2), d+1))
			b.WriteString("}\n")
			return b.String()
		}
		g.nvar++
		k, v := fmt.Sprintf("k%d", g.nvar), fmt.Sprintf("e%d", g.nvar)
		kk, nn := fmt.Sprintf("kk%d", g.nvar), fmt.Sprintf("nn%d", g.nvar)
		planted := false
		tail := "}\n"
		if xv != nil {
			// classic ranges over a live reference to the variable (finding C38-range-live-variable): by default the
			// variable is either provably not reassigned during the loop, or the loop ranges over the copy x[:]
			switch {
			case g.known["range-live"] && !xv.ro && !xv.konst:
				planted = true
				g.feat("KNOWN:range-live")
				tail = "«}\n¦}\n}\n»"
			case !strings.HasPrefix(xv.name, "§") && !xv.closAssigned:
				saveRo := xv.ro
				xv.ro = true
				defer func() { xv.ro = saveRo }()
			default:
				x = x + "[:]"
				g.feat("range-slice-copy")
			}
		}
		switch form := g.n(4); {
		case form == 0:
			inner.add(k, c38Int, false)
			if planted {
				fmt.Fprintf(&b, "«for %s := range %s {\n¦{\nvar %s int\nfor %s, %s := 0, len(%s); %s < %s; %s++ {\n%s = %s\n»_ = %s\n", k, x, k, kk, nn, x, kk, nn, kk, k, kk, k)
			} else {
				fmt.Fprintf(&b, "for %s := range %s {\n_ = %s\n", k, x, k)
			}
			g.feat("range-slice-key")
		case form == 1:
			inner.add(v, xt.elem, false)
			if planted {
				fmt.Fprintf(&b, "«for _, %s := range %s {\n¦{\nvar %s %s\nfor %s, %s := 0, len(%s); %s < %s; %s++ {\n%s = %s[%s]\n»_ = %s\n", v, x, v, xt.elem, kk, nn, x, kk, nn, kk, v, x, kk, v)
			} else {
				fmt.Fprintf(&b, "for _, %s := range %s {\n_ = %s\n", v, x, v)
			}
			g.feat("range-slice-value")
		case form == 2 && !planted && func() bool {
			// assignment form into existing variables
			ks := g.varsOf(sc, c38Int, true)
			es := g.varsOf(sc, xt.elem, true)
			if len(ks) > 0 && len(es) > 0 && ks[0] != es[0] {
				g.markAssign(ks[0])
				g.markAssign(es[0])
				fmt.Fprintf(&b, "for %s, %s = range %s {\n", ks[0].name, es[0].name, x)
				g.feat("range-slice-assign")
				return true
			}
			return false
		}():
		default:
			inner.add(k, c38Int, false)
			inner.add(v, xt.elem, false)
			if planted {
				fmt.Fprintf(&b, "«for %s, %s := range %s {\n¦{\nvar %s int\nvar %s %s\nfor %s, %s := 0, len(%s); %s < %s; %s++ {\n%s = %s\n%s = %s[%s]\n»_, _ = %s, %s\n",
					k, v, x, k, v, xt.elem, kk, nn, x, kk, nn, kk, k, kk, v, x, kk, k, v)
			} else {
				fmt.Fprintf(&b, "for %s, %s := range %s {\n_, _ = %s, %s\n", k, v, x, k, v)
			}
			g.feat("range-slice-key-value")
		}
		b.WriteString(g.block(&c38Scope{parent: inner}, fc, 1+g.n(2), d+1))
		if planted {
			// reassign the ranged variable inside the loop
			switch g.n(3) {
			case 0:
				fmt.Fprintf(&b, "%s = %s[:(len(%s) / 2)]\n", x, x, x)
			case 1:
				fmt.Fprintf(&b, "%s = %s\n", x, g.leaf(inner, xt).s)
			default:
				fmt.Fprintf(&b, "if %s {\n%s = %s[1:]\n}\n", g.cond(inner), x, x)
			}
			b.WriteString(g.recStmt(inner))
		}
		b.WriteString(tail)
	case c < 92:
		// range over a map: iteration order is unspecified, so the body only accumulates commutatively
		vs := g.varsOfKind(sc, func(t *c38T) bool { return t.k == "map" })
		accs := g.varsOf(sc, c38Int, true)
		if len(vs) == 0 || len(accs) == 0 {
			return g.recStmt(sc)
		}
		m := vs[g.n(len(vs))]
		acc := accs[g.n(len(accs))].name
		g.nvar++
		k, v := fmt.Sprintf("k%d", g.nvar), fmt.Sprintf("e%d", g.nvar)
		g.charge(4)
		g.feat("range-map")
		term := func(name string, t *c38T) string {
			switch t.k {
			case "int":
				return name
			case "string":
				return "len(" + name + ")"
			case "bool":
				return ""
			case "float64":
				return ""
			case "struct":
				for i, ft := range t.ftypes {
					if ft.k == "int" {
						return name + "." + t.fnames[i]
					}
				}
			}
			return ""
		}
		kt, vt := term(k, m.t.key), term(v, m.t.elem)
		op := g.pick("+=", "^=", "+=")
		switch {
		case kt != "" && vt != "" && g.p(60):
			fmt.Fprintf(&b, "for %s, %s := range %s {\n%s %s %s * 3 + %s\n}\n", k, v, m.name, acc, op, kt, vt)
		case vt != "" && g.p(50):
			fmt.Fprintf(&b, "for _, %s := range %s {\n%s %s %s\n}\n", v, m.name, acc, op, vt)
		case kt != "":
			fmt.Fprintf(&b, "for %s := range %s {\n%s %s %s\n}\n", k, m.name, acc, op, kt)
		default:
			fmt.Fprintf(&b, "for %s := range %s {\n_ = %s\n%s++\n}\n", k, m.name, k, acc)
		}
	default:
		vs := g.varsOf(sc, c38String, false)
		if len(vs) == 0 {
			return g.recStmt(sc)
		}
		g.nvar++
		k := fmt.Sprintf("k%d", g.nvar)
		inner := &c38Scope{parent: sc}
		inner.add(k, c38Int, false)
		g.mult *= 4
		g.feat("range-string-index")
		fmt.Fprintf(&b, "for %s := range %s {\n_ = %s\n", k, vs[g.n(len(vs))].name, k)
		b.WriteString(g.block(&c38Scope{parent: inner}, fc, 1+g.n(2), d+1))
		b.WriteString("}\n")
	}
	return b.String()
}

func (g *c38Gen) switchStmt(sc *c38Scope, fc *c38FnCtx, d int) string {
	g.charge(2)
	var b strings.Builder
	inner := &c38Scope{parent: sc}
	tagless := g.p(30)
	var t *c38T
	initName := ""
	var initT *c38T
	b.WriteString("switch ")
	if g.p(20) {
		initName = g.fresh(inner)
		if tagless {
			initT = c38Basics[g.n(3)]
		} else {
			initT = []*c38T{c38Int, c38String}[g.n(2)]
			t = initT
		}
		fmt.Fprintf(&b, "%s := %s; ", initName, g.expr(inner, initT, 2).s)
		inner.add(initName, initT, false)
		g.feat("switch-init")
		if !tagless {
			b.WriteString(initName + " ")
		}
	}
	if !tagless && t == nil {
		t = []*c38T{c38Int, c38String, c38Int}[g.n(3)]
		e := g.expr(inner, t, 2)
		if e.c {
			for _, v := range g.varsOf(inner, t, false) {
				if !v.konst {
					e = c38E{v.name, false}
					break
				}
			}
		}
		b.WriteString(e.s + " ")
	}
	b.WriteString("{\n")
	ncase := 1 + g.n(4)
	used := map[string]bool{}
	defAt := -1
	if g.p(60) {
		defAt = g.n(ncase + 1)
	}
	type clause struct{ head, body string }
	var clauses []clause
	body := func() string {
		fcs := *fc
		s := g.block(&c38Scope{parent: inner}, &fcs, 1+g.n(2), d+1)
		if fc.loop > 0 && g.p(10) {
			s += "if " + g.cond(inner) + " {\nbreak\n}\n" + g.recStmt(inner)
			g.feat("break-in-switch")
		}
		return s
	}
	for i := 0; i <= ncase; i++ {
		if i == defAt {
			g.feat("switch-default")
			clauses = append(clauses, clause{"default:\n", body()})
			continue
		}
		if i == ncase {
			break
		}
		if tagless {
			c := g.cond(inner)
			if initName != "" && i == 0 {
				c = g.condUsing(inner, initName, initT)
			}
			g.feat("switch-tagless")
			clauses = append(clauses, clause{"case " + c + ":\n", body()})
			continue
		}
		var lits []string
		for k := 1 + g.n(2); k > 0; k-- {
			l := g.lit(t)
			if g.p(20) {
				// non-constant case expression
				var vs []*c38Var
				for _, v := range g.varsOf(inner, t, false) {
					if !v.konst {
						vs = append(vs, v)
					}
				}
				if len(vs) > 0 {
					lits = append(lits, vs[g.n(len(vs))].name)
					g.feat("switch-case-var")
					continue
				}
			}
			key := strings.Trim(l, "()")
			if used[key] {
				continue
			}
			used[key] = true
			lits = append(lits, l)
		}
		if len(lits) == 0 {
			continue
		}
		if len(lits) > 1 {
			g.feat("switch-case-list")
		}
		g.feat("switch-" + t.k)
		clauses = append(clauses, clause{"case " + strings.Join(lits, ", ") + ":\n", body()})
	}
	if initName != "" && tagless && len(clauses) == 0 {
		clauses = append(clauses, clause{"case " + g.condUsing(inner, initName, initT) + ":\n", body()})
	}
	if initName != "" && tagless && !strings.HasPrefix(clauses[0].head, "case "+initName) {
		// make sure the init variable is used
		clauses = append(clauses, clause{"case " + g.condUsing(inner, initName, initT) + ":\n", body()})
	}
	for i, c := range clauses {
		b.WriteString(c.head + c.body)
		if i < len(clauses)-1 && g.p(15) {
			b.WriteString("fallthrough\n")
			g.feat("fallthrough")
		}
	}
	b.WriteString("}\n")
	return b.String()
}

func (g *c38Gen) deferStmt(sc *c38Scope, fc *c38FnCtx) string {
	sc.markClosure()
	g.charge(3)
	tag := g.nextTag()
	switch c := g.n(100); {
	case c < 30:
		g.feat("defer-closure")
		inner := &c38Scope{parent: sc}
		return fmt.Sprintf("defer func() {\n%s}()\n", g.recStmt(inner)+g.simple(inner))
	case c < 55:
		g.feat("defer-args-evaluated-early")
		vs := sc.visible()
		var names, copies []string
		for _, v := range vs {
			if v.t.basic() && len(names) < 2 && !v.konst && g.p(60) {
				names = append(names, v.name)
				// the same value as a fresh temporary (classic passes a live reference to a bare variable, see C38-defer-args-live)
				switch v.t.k {
				case "int":
					copies = append(copies, "("+v.name+" + 0)")
				case "float64":
					copies = append(copies, "("+v.name+" * 1.0)")
				case "string":
					copies = append(copies, "("+v.name+" + \"\")")
				default:
					copies = append(copies, "("+v.name+" == true)")
				}
			}
		}
		if len(names) == 0 {
			names, copies = []string{"1"}, []string{"1"}
		}
		if g.known["defer-args"] {
			// planted: bare variables; the model of the defect reads them when the deferred call runs
			g.feat("KNOWN:defer-args")
			return fmt.Sprintf("«defer rec(%d, %s)\n¦defer func() {\nrec(%d, %s)\n}()\n»", tag, strings.Join(names, ", "), tag, strings.Join(names, ", "))
		}
		return fmt.Sprintf("defer rec(%d, %s)\n", tag, strings.Join(copies, ", "))
	case c < 70 && (len(fc.results) == 0 || g.known["recover-results"]):
		if len(fc.results) > 0 {
			g.feat("KNOWN:recover-results")
		}
		g.feat("defer-recover-closure")
		return fmt.Sprintf("defer func() {\nvar r interface{} = recover()\nrec(%d, §cls(r))\n}()\n", tag)
	case c < 80 && len(fc.results) == 0:
		g.feat("defer-recover-repanic")
		return fmt.Sprintf("defer func() {\nvar r interface{} = recover()\nif r != nil {\nrec(%d, §cls(r))\npanic(%s)\n}\n}()\n", tag, g.panicVal(sc))
	default:
		if len(fc.results) == 0 || g.known["recover-results"] {
			if len(fc.results) > 0 {
				g.feat("KNOWN:recover-results")
			}
			g.feat("defer-rc")
			return fmt.Sprintf("defer §rc(%d)\n", tag)
		}
		g.feat("defer-closure")
		return fmt.Sprintf("defer func() {\n%s}()\n", g.recStmt(&c38Scope{parent: sc}))
	}
}

func (g *c38Gen) panicVal(sc *c38Scope) string {
	switch g.n(4) {
	case 0:
		return g.expr(sc, c38Int, 1).s
	case 1:
		return `"boom` + fmt.Sprint(g.n(5)) + `"`
	case 2:
		for _, st := range g.structs {
			return g.leaf(sc, st).s
		}
	}
	return g.expr(sc, c38String, 1).s
}

func (g *c38Gen) simple(sc *c38Scope) string {
	if g.p(50) {
		return g.assignStmt(sc)
	}
	return g.recStmt(sc)
}

func (g *c38Gen) stmt(sc *c38Scope, fc *c38FnCtx, d int) string {
	if d >= 4 || !g.room(8) {
		return g.simple(sc)
	}
	type alt struct {
		w int
		f func() string
	}
	alts := []alt{
		{16, func() string { return g.recStmt(sc) }},
		{14, func() string { return g.declStmt(sc, fc) }},
		{g.themeW("arith", 22, 14), func() string { return g.assignStmt(sc) }},
		{6, func() string { return g.tupleStmt(sc) }},
		{g.themeW("containers", 14, 6), func() string { return g.builtinStmt(sc) }},
		{g.themeW("calls", 18, 10), func() string { return g.callStmt(sc) }},
		{g.themeW("control", 12, 8), func() string { return g.ifStmt(sc, fc, d) }},
		{g.themeW("control", 12, 7), func() string { return g.forStmt(sc, fc, d) }},
		{g.themeW("control", 9, 4), func() string { return g.switchStmt(sc, fc, d) }},
		{g.themeW("defer", 10, 3), func() string { return g.deferStmt(sc, fc) }},
		{g.themeW("defer", 6, 2), func() string {
			g.feat("panic-explicit")
			g.charge(1)
			return "if " + g.cond(sc) + " {\npanic(" + g.panicVal(sc) + ")\n}\n"
		}},
		{3, func() string {
			g.charge(1)
			g.feat("return-early")
			var es []string
			for _, rt := range fc.results {
				es = append(es, g.expr(sc, rt, 2).s)
			}
			return "if " + g.cond(sc) + " {\nreturn " + strings.Join(es, ", ") + "\n}\n"
		}},
		{2, func() string {
			g.feat("block")
			return "{\n" + g.block(&c38Scope{parent: sc}, fc, 1+g.n(3), d+1) + "}\n"
		}},
	}
	if fc.loop > 0 {
		alts = append(alts, alt{5, func() string {
			g.charge(1)
			kw := g.pick("break", "continue")
			g.feat(kw)
			return "if " + g.cond(sc) + " {\n" + kw + "\n}\n"
		}})
	}
	tot := 0
	for _, a := range alts {
		tot += a.w
	}
	x := g.n(tot)
	for _, a := range alts {
		if x < a.w {
			return a.f()
		}
		x -= a.w
	}
	return g.recStmt(sc)
}

func (g *c38Gen) block(sc *c38Scope, fc *c38FnCtx, n, d int) string {
	var b strings.Builder
	for i := 0; i < n; i++ {
		b.WriteString(g.stmt(sc, fc, d))
	}
	return b.String()
}

// ---------------------------------------------------------------- top level

func (g *c38Gen) genStructs(b *strings.Builder) {
	n := 1 + g.n(3)
	names := []string{"A", "B", "C", "D", "E"}
	var decls []string
	for i := 0; i < n; i++ {
		st := &c38T{k: "struct", name: fmt.Sprintf("§T%d", i), cmp: true}
		nf := 1 + g.n(4)
		for j := 0; j < nf; j++ {
			var ft *c38T
			switch c := g.n(100); {
			case c < 70:
				ft = c38Basics[g.n(4)]
			case c < 85:
				ft = g.sliceOf(c38Basics[g.n(3)])
				st.cmp = false
				g.feat("struct-slice-field")
			default:
				if i > 0 {
					ft = g.structs[g.n(i)]
					if !ft.cmp {
						st.cmp = false
					}
					g.feat("struct-nested")
				} else {
					ft = c38Int
				}
			}
			st.fnames = append(st.fnames, names[j])
			st.ftypes = append(st.ftypes, ft)
		}
		var fs []string
		for j := range st.fnames {
			fs = append(fs, st.fnames[j]+" "+st.ftypes[j].String())
		}
		decls = append(decls, fmt.Sprintf("%s struct {\n%s\n}", st.name, strings.Join(fs, "\n")))
		g.structs = append(g.structs, st)
		g.types = append(g.types, st)
	}
	if g.known["grouped-type"] && n > 1 {
		g.feat("KNOWN:grouped-type")
		b.WriteString("type (\n" + strings.Join(decls, "\n") + "\n)\n")
	} else {
		for _, d := range decls {
			b.WriteString("type " + d + "\n")
		}
	}
	// containers of structs
	st := g.structs[g.n(len(g.structs))]
	g.sliceOf(st)
	g.types = append(g.types, &c38T{k: "map", key: c38String, elem: g.structs[g.n(len(g.structs))]})
}

func (g *c38Gen) genGlobals(b *strings.Builder) {
	// constants: one iota group, a few single ones
	if g.p(70) {
		g.feat("const-iota-group")
		b.WriteString("const (\n")
		switch g.n(3) {
		case 0:
			b.WriteString("§K0 = iota\n§K1\n§K2\n")
		case 1:
			b.WriteString("§K0 = iota * 10\n§K1\n§K2 = iota + 100\n")
		default:
			b.WriteString("§K0 = 1 << iota\n§K1\n§K2\n")
		}
		b.WriteString(")\n")
		for i := 0; i < 3; i++ {
			g.globals.add(fmt.Sprintf("§K%d", i), c38Int, true).konst = true
		}
	}
	if g.p(60) {
		g.feat("const-single")
		fmt.Fprintf(b, "const §KS = %s\nconst §KF = %s\n", g.lit(c38String), g.pick("0.5", "2.25", "1e2"))
		g.globals.add("§KS", c38String, true).konst = true
		g.globals.add("§KF", c38Float, true).konst = true
	}
	n := 2 + g.n(4)
	var specs []string
	for i := 0; i < n; i++ {
		t := g.valueType()
		name := fmt.Sprintf("§g%d", i)
		var init string
		if t.basic() {
			init = g.lit(t)
		} else {
			init = g.leaf(&c38Scope{}, t).s
		}
		form := g.n(3)
		if form == 2 && !t.basic() && g.p(75) {
			form = g.n(2) // zero-valued (nil) containers make most later statements panic: keep them rare
		}
		switch form {
		case 0:
			specs = append(specs, fmt.Sprintf("%s %s = %s", name, t, init))
		case 1:
			specs = append(specs, fmt.Sprintf("%s = %s", name, init))
		default:
			specs = append(specs, fmt.Sprintf("%s %s", name, t))
		}
		g.globals.add(name, t, false)
	}
	if g.p(40) {
		g.feat("var-group")
		b.WriteString("var (\n" + strings.Join(specs, "\n") + "\n)\n")
	} else {
		for _, s := range specs {
			b.WriteString("var " + s + "\n")
		}
	}
	g.feat("globals")
}

func (g *c38Gen) genFunc(b *strings.Builder, idx int) {
	f := &c38Func{name: fmt.Sprintf("§f%d", idx)}
	sc := &c38Scope{parent: g.globals}
	var ps []string
	kind := g.n(100)
	if kind < g.themeW("recursion", 55, 22) {
		f.rec = true
		sc.add("n", c38Int, true)
		ps = append(ps, "n int")
		f.params = append(f.params, c38Int)
	}
	np := g.n(3)
	for i := 0; i < np; i++ {
		var t *c38T
		if g.p(70) {
			t = c38Basics[g.n(4)]
		} else {
			t = g.valueType()
		}
		if g.p(8) && !f.rec {
			// function-typed parameter (higher-order)
			t = g.funcType([]*c38T{c38Int}, []*c38T{c38Int})
			g.feat("func-param")
		}
		name := fmt.Sprintf("a%d", i)
		sc.add(name, t, false)
		ps = append(ps, name+" "+t.String())
		f.params = append(f.params, t)
	}
	if !f.rec && g.p(12) {
		f.variadic = true
		sc.add("xs", g.sliceOf(c38Int), false)
		ps = append(ps, "xs ...int")
		g.feat("variadic-func")
	}
	switch c := g.n(100); {
	case c < 15:
	case c < 85:
		f.results = []*c38T{c38Basics[g.n(4)]}
		if g.p(20) {
			f.results = []*c38T{g.valueType()}
		}
	default:
		f.results = []*c38T{c38Basics[g.n(4)], c38Basics[g.n(4)]}
		g.feat("multi-result-func")
	}
	if f.rec && len(f.results) != 1 {
		f.results = []*c38T{c38Basics[g.n(3)]}
	}
	if g.p(6) && len(f.results) == 1 && !f.rec {
		// returns a closure
		f.results = []*c38T{g.funcType(nil, []*c38T{c38Int})}
		g.feat("func-returns-closure")
	}
	var rs string
	switch len(f.results) {
	case 1:
		rs = " " + f.results[0].String()
	case 2:
		rs = " (" + f.results[0].String() + ", " + f.results[1].String() + ")"
	}
	fmt.Fprintf(b, "func %s(%s)%s {\n", f.name, strings.Join(ps, ", "), rs)
	g.mult, g.spent = 1, 0
	g.limit = 120
	fc := &c38FnCtx{results: f.results}
	if f.rec {
		g.limit = 30
		rt := f.results[0]
		fmt.Fprintf(b, "if n <= 0 {\nreturn %s\n}\n", g.expr(sc, rt, 1).s)
		b.WriteString(g.block(sc, fc, 1+g.n(2), 1))
		// the recursive step
		var args []string
		for _, pt := range f.params[1:] {
			args = append(args, g.expr(sc, pt, 2).s)
		}
		self := func() string { return f.name + "(" + strings.Join(append([]string{"n - 1"}, args...), ", ") + ")" }
		calls := 1
		g.nvar++
		r1 := fmt.Sprintf("r%d", g.nvar)
		fmt.Fprintf(b, "%s := %s\n_ = %s\n", r1, self(), r1)
		sc.add(r1, rt, false)
		if g.p(35) {
			calls = 2
			g.nvar++
			r2 := fmt.Sprintf("r%d", g.nvar)
			fmt.Fprintf(b, "%s := %s\n_ = %s\n", r2, f.name+"("+strings.Join(append([]string{"n - 2"}, args...), ", ")+")", r2)
			sc.add(r2, rt, false)
			g.feat("recursion-binary")
		} else {
			g.feat("recursion-linear")
		}
		b.WriteString(g.recStmt(sc))
		b.WriteString(g.finalReturn(sc, fc))
		body := g.spent + 4
		if calls == 1 {
			f.cost = body * 5
		} else {
			f.cost = body * 15 // calls(n<=4) of a fib-shaped recursion = 15 at most; n<=3 via &3 mostly
		}
	} else {
		b.WriteString(g.block(sc, fc, 2+g.n(4), 1))
		b.WriteString(g.finalReturn(sc, fc))
		f.cost = g.spent + 2
	}
	b.WriteString("}\n")
	g.funcs = append(g.funcs, f)
}

func (g *c38Gen) genSection(b *strings.Builder, idx int) {
	sc := &c38Scope{parent: g.globals}
	fmt.Fprintf(b, "func §s%d() {\n", idx)
	g.inSection = true
	defer func() { g.inSection = false }()
	g.mult, g.spent, g.limit = 1, 0, 1500
	fc := &c38FnCtx{}
	if g.known["recover-define"] && g.p(50) {
		g.feat("KNOWN:recover-define")
		fmt.Fprintf(b, "defer func() {\nif r := recover(); r != nil {\nrec(%d, §cls(r))\n}\n}()\n", -(9000 + idx))
	} else {
		fmt.Fprintf(b, "defer §rc(%d)\n", 9000+idx)
	}
	// a few seed variables so that expressions have operands
	for i := 0; i < 3+g.n(3); i++ {
		b.WriteString(g.declStmt(sc, fc))
	}
	b.WriteString(g.block(sc, fc, 3+g.n(5), 1))
	b.WriteString("}\n")
}

var c38Themes = []string{"arith", "containers", "calls", "control", "defer", "closures", "recursion", "mixed"}

// c38Generate builds one program. known lists the known-finding shapes this program may contain.
// The returned model text differs from the program only where a planted known-finding shape has an
// executable model of the defect (see c38Classify).
func c38Generate(id int, rng *rand.Rand, known map[string]bool) (*Prog, []string, string) {
	return c38GenerateOpt(id, rng, known, c38Opts{})
}

// c38Opts adapt the generator to C39 (programs printed with fmt instead of the trace renderer).
type c38Opts struct {
	noFuncRec         bool // never record values that contain functions (fmt prints their addresses)
	noStructLitInCond bool // no struct literal directly in a condition (see finding C39-paren-composite-literal)
}

func c38GenerateOpt(id int, rng *rand.Rand, known map[string]bool, opts c38Opts) (*Prog, []string, string) {
	g := &c38Gen{rng: rng, feats: map[string]bool{}, globals: &c38Scope{}, known: known, mult: 1, limit: 1000, opts: opts}
	g.theme = c38Themes[id%len(c38Themes)]
	g.types = append(g.types, c38Basics...)
	for _, bt := range c38Basics[:3] {
		g.sliceOf(bt)
	}
	g.types = append(g.types,
		&c38T{k: "map", key: c38String, elem: c38Int},
		&c38T{k: "map", key: c38Int, elem: c38String},
	)
	switch g.n(3) {
	case 0:
		g.types = append(g.types, &c38T{k: "map", key: c38Int, elem: c38Int})
	case 1:
		g.types = append(g.types, &c38T{k: "map", key: c38String, elem: c38Float})
	default:
		g.types = append(g.types, &c38T{k: "map", key: c38String, elem: c38Bool}, g.sliceOf(c38Bool))
	}
	if g.p(30) {
		g.types = append(g.types, &c38T{k: "slice", elem: g.sliceOf(c38Int)})
		g.feat("slice-of-slice")
	}
	var b strings.Builder
	// §cls: Go leaves the order of two panicking non-call operations of one statement unspecified (x/y vs s[i]):
	// all run-time error classes are merged into one
	b.WriteString("func §cls(r interface{}) string {\nc := pcl(r)\nif c == \"divide\" || c == \"bounds\" || c == \"nilmap\" || c == \"nilderef\" {\nreturn \"runtime\"\n}\nreturn c\n}\n")
	b.WriteString("func §rc(tag int) {\nvar r interface{} = recover()\nif r != nil {\nrec(-tag, §cls(r))\n}\n}\n")
	b.WriteString("func §idf(x float64) float64 {\nreturn x\n}\nfunc §idi(x int) int {\nreturn x\n}\n")
	b.WriteString("func §warm(n int) int {\nif n <= 0 {\nreturn 0\n}\nreturn §warm(n-1) + 1\n}\n")
	g.genStructs(&b)
	g.genGlobals(&b)
	if g.p(35) {
		g.sliceOf(g.funcType(nil, []*c38T{c38Int}))
		g.feat("slice-of-closures")
	}
	nf := 2 + g.n(4)
	for i := 0; i < nf; i++ {
		g.genFunc(&b, i)
	}
	ns := 3 + g.n(3)
	for i := 0; i < ns; i++ {
		g.genSection(&b, i)
	}
	if g.known["recover-stale-frame"] {
		b.WriteString("func §sx() {\ndefer §rc(8999)\ndefer func() {\nrec(8998, §warm(3))\n}()\npanic(\"stale-frame probe\")\n}\n")
	}
	b.WriteString("func §P() {\n")
	if g.known["recover-stale-frame"] {
		// planted: the first call chain deeper than classic's initial call-stack capacity happens in a deferred
		// call of a panicking function, which then recovers
		g.feat("KNOWN:recover-stale-frame")
		b.WriteString("§sx()\n")
	} else {
		// grow classic's call-stack slice once, before any deferred call runs (see finding C38-recover-stale-frame)
		b.WriteString("§warm(70)\n")
	}
	for i := 0; i < ns; i++ {
		fmt.Fprintf(&b, "§s%d()\n", i)
	}
	// final state of the globals
	var gs []string
	for _, v := range g.globals.vars {
		if v.t.k != "func" && !(v.t.k == "slice" && v.t.elem.k == "func") {
			gs = append(gs, v.name)
		}
	}
	fmt.Fprintf(&b, "rec(%d, %s)\n}\n", 9999, strings.Join(gs, ", "))
	var feats []string
	for f := range g.feats {
		feats = append(feats, f)
	}
	sort.Strings(feats)
	text := b.String()
	return &Prog{ID: fmt.Sprintf("c38-%d", id), Src: c38Resolve(text, false), Cell: g.theme}, feats, c38Resolve(text, true)
}
