package main

// C17 — the dependency sorter (base/dep) returns a deterministic, source-stable topological order.
//
// Every generated input is given to the real gomacro parser and a fresh dep.Sorter eight times.
// The reference side parses the same text with go/parser, computes the true dependency edges with
// an independent free-variable analysis (cross-checked against go/types) and replays the sorter's
// output against the ordering rule of the property.

import (
	"fmt"
	"go/ast"
	"go/token"
	"math/rand"
	"os"
	"runtime"
	"runtime/debug"
	"sort"
	"strings"
	"sync"
	"sync/atomic"
	"time"

	"github.com/cosmos72/gomacro/base/dep"
	"github.com/cosmos72/gomacro/go/etoken"
	gmparser "github.com/cosmos72/gomacro/go/parser"

	"gmverif/internal/fw"
)

func init() { register("C17", "exploration", checkC17) }

const (
	c17FindShortVar = "C17-shortvar-locals-not-scoped"
	c17FindParams   = "C17-params-results-not-scoped"
	c17FindIsLocal  = "C17-islocal-scope-walk"
	c17FindTypeFwd  = "C17-typefwd-nondeterministic"
	c17FindAlias    = "C17-recursive-func-deps-corrupted"
	c17Repeats      = 8
)

type c17SegItem struct {
	Name string `json:"name,omitempty"`
	Off  int    `json:"off"` // relative to the segment text
}

// c17Seg is a maximal run of top-level nodes of one category.
type c17Seg struct {
	Cat   string       `json:"cat"` // package | import | decl | stmt
	Text  string       `json:"text"`
	Items []c17SegItem `json:"items,omitempty"` // expected entries for package/import/stmt runs
	graph *c17Graph
}

type c17Replay struct {
	Origin string   `json:"origin"`
	Segs   []c17Seg `json:"segs"`
	Source string   `json:"source"`
	Want   string   `json:"want"`
	Got    []string `json:"got"`
}

type c17Job struct {
	mode    string // exh | rand | sect
	g       *c17Graph
	seed    int64
	variant int
}

type c17Real struct {
	Items    []c17Item
	Panic    string
	ParseErr string
}

func (o c17Real) signature() string {
	var b strings.Builder
	if o.Panic != "" {
		if strings.Contains(o.Panic, "declaration loop") {
			return "panic: declaration loop"
		}
		return "panic: " + o.Panic
	}
	for _, it := range o.Items {
		fmt.Fprintf(&b, "%s %s@%d; ", it.Kind, it.Name, it.Off)
	}
	return b.String()
}

func c17Parse(src string) (nodes []ast.Node, fset *etoken.FileSet, perr string) {
	defer func() {
		if e := recover(); e != nil {
			perr = fmt.Sprintf("parser panic: %v", e)
		}
	}()
	var p gmparser.Parser
	fset = etoken.NewFileSet()
	p.Init(fset, "c17.go", 0, []byte(src))
	nodes, err := p.Parse()
	if err != nil {
		return nil, fset, err.Error()
	}
	return nodes, fset, ""
}

// c17Sort runs the code under test once on already parsed nodes: fresh Sorter, All().
// (base/dep never writes to the syntax tree, so the repeats may share it.)
func c17Sort(nodes []ast.Node, fset *etoken.FileSet) (out c17Real) {
	defer func() {
		if e := recover(); e != nil {
			out.Items = nil
			out.Panic = fmt.Sprint(e)
			if out.Panic == "" {
				out.Panic = "(empty panic)"
			}
		}
	}()
	s := dep.NewSorter()
	s.LoadNodes(nodes)
	for _, d := range s.All() {
		out.Items = append(out.Items, c17Item{Kind: d.Kind.String(), Name: d.Name, Off: fset.Position(d.Pos).Offset, Deps: append([]string{}, d.Deps...)})
	}
	return
}

// c17DirectDeps asks the real base/dep scope analysis for the dependencies of every declaration
// run; used when Sorter.All() panicked and therefore returned no Decl.Deps to look at.
func c17DirectDeps(src string) (runs []map[string][]string, errs string) {
	nodes, _, perr := c17Parse(src)
	if perr != "" {
		return nil, perr
	}
	defer func() {
		if e := recover(); e != nil {
			errs = fmt.Sprintf("scope analysis panic: %v", e)
		}
	}()
	var cur []ast.Node
	flush := func() {
		if len(cur) == 0 {
			return
		}
		sc := dep.NewScope(nil)
		sc.Nodes(cur)
		sc.Decls.RemoveUnresolvableDeps()
		m := map[string][]string{}
		for name, l := range sc.Decls {
			for _, d := range l {
				m[name] = append(m[name], d.Deps...)
			}
		}
		runs = append(runs, m)
		cur = nil
	}
	for _, n := range nodes {
		isDecl := false
		switch n := n.(type) {
		case *ast.GenDecl:
			isDecl = n.Tok != token.IMPORT && n.Tok != token.PACKAGE
		case *ast.FuncDecl:
			isDecl = true
		}
		if isDecl {
			cur = append(cur, n)
		} else {
			flush()
		}
	}
	flush()
	return runs, ""
}

// ---------------------------------------------------------------------------------------------

type c17Ctx struct {
	r        *fw.Run
	verbose  bool
	genProbs int64
	firstGen atomic.Value
	slots    []c17Slot
}

type c17Slot struct {
	mu    sync.Mutex
	since time.Time
	what  string
}

func (c *c17Ctx) genProblem(what string, segs []c17Seg) {
	if atomic.AddInt64(&c.genProbs, 1) == 1 {
		c.firstGen.Store(what + " :: " + fw.Clip(c17Join(segs), 400))
	}
	if c.verbose {
		fmt.Println("harness problem:", what)
	}
}

func c17Join(segs []c17Seg) string {
	t := make([]string, len(segs))
	for i, s := range segs {
		t[i] = s.Text
	}
	return strings.Join(t, "\n")
}

type c17Verdict struct {
	known    map[string]string
	viol     []string
	unspec   bool
	harmless int // differences between Decl.Deps and the true edges that did not make the result wrong
}

func (v *c17Verdict) addKnown(id, what string) {
	if v.known == nil {
		v.known = map[string]string{}
	}
	if _, ok := v.known[id]; !ok {
		v.known[id] = what
	}
}

// c17Diff is one difference between the dependencies the sorter computed and the true ones.
type c17Diff struct {
	seg      int
	from, to int
	spurious bool   // reported but not true; otherwise true but not reported
	id       string // recorded defect whose input shape explains it, "" = unexplained
	why      string
}

// c17Explain compares the dependencies the sorter computed for one declaration run with the true
// ones. A difference is attributed to a recorded defect of base/dep/scope.go only if the input has
// exactly the shape that defect needs; otherwise it stays unexplained.
func c17Explain(seg int, t *c17Truth, obs [][]int) (diffs []c17Diff) {
	for i := range t.Tops {
		tr := map[int]bool{}
		for _, j := range t.Edges[i] {
			tr[j] = true
		}
		ob := map[int]bool{}
		for _, j := range obs[i] {
			ob[j] = true
		}
		// a recursive function that reports a dependency on itself (and may have lost its
		// alphabetically last dependency in exchange): Scope.Node re-sorts a stale alias of Decl.Deps.
		// Needs duplicates in the raw list, i.e. an identifier common to signature and body.
		alias := false
		if ob[i] {
			selfMention := false
			for _, m := range t.Mentions {
				selfMention = selfMention || (m.From == i && m.To == i)
			}
			d := c17Diff{seg: seg, from: i, to: i, spurious: true, why: fmt.Sprintf("%s %q reports a dependency on itself", t.Tops[i].Kind, t.Tops[i].Name)}
			if t.Tops[i].Kind == "Func" && selfMention && t.Tops[i].SigBodyShared {
				alias = true
				d.id = c17FindAlias
			}
			diffs = append(diffs, d)
		}
		// missingKnown(j): the true dependency on j is not reported and the input has the shape of the
		// scope-walk defect: j is declared earlier in the source and every free occurrence is nested
		// at least two scopes deep (function body or signature, nested block of a function literal,
		// nested struct), where the walk reaches the top-level scope
		missingKnown := func(j int) bool {
			if t.Tops[j].Off >= t.Tops[i].Off {
				return false
			}
			for _, m := range t.Mentions {
				if m.From == i && m.To == j && m.Free && m.Nest < 2 {
					return false
				}
			}
			return true
		}
		// the corrupted list of a recursive function loses the alphabetically last name it held
		last := ""
		for _, j := range obs[i] {
			if j != i && t.Tops[j].Name > last {
				last = t.Tops[j].Name
			}
		}
		for _, j := range t.Edges[i] {
			if !ob[j] && !missingKnown(j) && t.Tops[j].Name > last {
				last = t.Tops[j].Name
			}
		}
		for _, j := range obs[i] {
			if tr[j] || j == i {
				continue
			}
			// spurious dependency: some shadowed occurrence must explain it
			d := c17Diff{seg: seg, from: i, to: j, spurious: true,
				why: fmt.Sprintf("%s %q reports a dependency on %q, which does not occur free in it", t.Tops[i].Kind, t.Tops[i].Name, t.Tops[j].Name)}
			rank := 99
			for _, m := range t.Mentions {
				if m.From != i || m.To != j || m.Free {
					continue
				}
				var mid string
				var mr int
				switch m.Binder {
				case "shortvar", "range", "typeswitch":
					mid, mr = c17FindShortVar, 0
				case "param", "result", "litparam", "litresult":
					mid, mr = c17FindParams, 1
				case "recv", "localvar", "localconst", "localtype":
					if m.Nest-m.BNest != 1 {
						continue // the scope walk does find binders at distance 0 and >=2
					}
					mid, mr = c17FindIsLocal, 2
				default:
					continue
				}
				if mr < rank {
					rank, d.id = mr, mid
					d.why = fmt.Sprintf("%s %q reports a dependency on %q although every occurrence is shadowed (binder: %s)", t.Tops[i].Kind, t.Tops[i].Name, t.Tops[j].Name, m.Binder)
				}
			}
			diffs = append(diffs, d)
		}
		for _, j := range t.Edges[i] {
			if ob[j] {
				continue
			}
			d := c17Diff{seg: seg, from: i, to: j,
				why: fmt.Sprintf("%s %q does not report its dependency on %q", t.Tops[i].Kind, t.Tops[i].Name, t.Tops[j].Name)}
			switch {
			case missingKnown(j):
				d.id = c17FindIsLocal
				d.why += " (declared earlier, referenced two or more scopes deep)"
			case alias && t.Tops[j].Name == last:
				d.id = c17FindAlias
			}
			diffs = append(diffs, d)
		}
	}
	return
}

func c17ObsEdges(t *c17Truth, deps map[string][]string) [][]int {
	idx := map[string]int{}
	for i, tp := range t.Tops {
		idx[tp.Name] = i
	}
	obs := make([][]int, len(t.Tops))
	for name, l := range deps {
		i, ok := idx[name]
		if !ok {
			continue
		}
		seen := map[int]bool{}
		for _, d := range l {
			if j, ok := idx[d]; ok && !seen[j] {
				seen[j] = true
				obs[i] = append(obs[i], j)
			}
		}
		sort.Ints(obs[i])
	}
	return obs
}

var c17DeclKinds = map[string]bool{"Const": true, "Var": true, "VarMulti": true, "Type": true, "TypeFwd": true, "Func": true, "Method": true, "Macro": true}

// c17Split cuts the sorter's output into the pieces belonging to each input run and checks the
// package/import/statement runs (cond5). declOut[si] is the piece of declaration run si.
func c17Split(segs []c17Seg, offs []int, items []c17Item) (declOut map[int][]c17Item, msgs []string) {
	declOut = map[int][]c17Item{}
	pos := 0
	for si, s := range segs {
		base := offs[si]
		if s.Cat == "decl" {
			start := pos
			for pos < len(items) && c17DeclKinds[items[pos].Kind] {
				pos++
			}
			declOut[si] = items[start:pos]
			continue
		}
		for _, want := range s.Items {
			if pos >= len(items) {
				return declOut, append(msgs, fmt.Sprintf("cond5: output ends before the %s run at offset %d", s.Cat, base))
			}
			got := items[pos]
			pos++
			okKind := got.Kind == "Package" && s.Cat == "package" || got.Kind == "Import" && s.Cat == "import" ||
				(got.Kind == "Stmt" || got.Kind == "Expr") && s.Cat == "stmt"
			if !okKind || got.Off != base+want.Off || (s.Cat == "import" && want.Name != "" && got.Name != want.Name) {
				return declOut, append(msgs, fmt.Sprintf("cond5: expected the %s at offset %d (%q), got %s %q at %d", s.Cat, base+want.Off, want.Name, got.Kind, got.Name, got.Off))
			}
		}
	}
	if pos != len(items) {
		msgs = append(msgs, fmt.Sprintf("cond5: %d unexpected trailing entries, first %s %q", len(items)-pos, items[pos].Kind, items[pos].Name))
	}
	return
}

// c17Evaluate states whether one observed result satisfies the property for the given dependency
// edges (edges[si] for declaration run si).
func c17Evaluate(segs []c17Seg, offs []int, truths []*c17Truth, edges map[int][][]int, real c17Real, declOut map[int][]c17Item) (msgs []string, unspec bool) {
	loop := false
	for si, t := range truths {
		if t == nil {
			continue
		}
		sh := c17Classify(t.Tops, edges[si])
		switch {
		case sh.mixedCycle:
			unspec = true
		case sh.nonTypeCycle:
			loop = true
			if real.Panic == "" {
				msgs = append(msgs, "cond6: a dependency cycle without any type declaration was not reported as a declaration loop")
			}
		case real.Panic == "":
			if msg := c17CheckOrder(t.Tops, edges[si], sh, declOut[si], offs[si]); msg != "" {
				msgs = append(msgs, msg)
			}
		}
	}
	if real.Panic != "" && !loop && !unspec {
		msgs = append(msgs, "cond6: declaration loop reported although no cycle of non-type declarations exists")
	}
	if unspec {
		return nil, true
	}
	return
}

// c17Judge evaluates one observed result of the sorter against the property. The verdict is taken
// on the returned list (and the loop error) against the TRUE edges. Only when that fails are the
// sorter's own Decl.Deps consulted, to tell an occurrence of a recorded defect from anything else.
func c17Judge(segs []c17Seg, offs []int, truths []*c17Truth, src string, real c17Real) (v c17Verdict) {
	if real.Panic != "" && !strings.Contains(real.Panic, "declaration loop") {
		v.viol = append(v.viol, "panic: sorter panicked: "+fw.Clip(real.Panic, 200))
		return
	}
	var declOut map[int][]c17Item
	if real.Panic == "" {
		var msgs []string
		declOut, msgs = c17Split(segs, offs, real.Items)
		if len(msgs) > 0 {
			v.viol = msgs
			return
		}
	}
	trueEdges := map[int][][]int{}
	obsEdges := map[int][][]int{}
	var direct []map[string][]string
	if real.Panic != "" {
		var errs string
		direct, errs = c17DirectDeps(src)
		if errs != "" {
			v.viol = append(v.viol, "panic: declaration loop reported and the scope analysis could not be re-run: "+errs)
			return
		}
	}
	var diffs []c17Diff
	k := 0
	for si, t := range truths {
		if t == nil {
			continue
		}
		trueEdges[si] = t.Edges
		deps := map[string][]string{}
		if real.Panic != "" {
			if k < len(direct) {
				deps = direct[k]
			}
			k++
		} else {
			for _, it := range declOut[si] {
				if it.Kind != "TypeFwd" {
					deps[it.Name] = append(deps[it.Name], it.Deps...)
				}
			}
		}
		obsEdges[si] = c17ObsEdges(t, deps)
		diffs = append(diffs, c17Explain(si, t, obsEdges[si])...)
	}
	pure, unspec := c17Evaluate(segs, offs, truths, trueEdges, real, declOut)
	v.unspec = unspec
	if len(pure) == 0 {
		v.harmless = len(diffs)
		return
	}
	// the property does not hold on this input. Why?
	ids := map[string]string{}
	for _, d := range diffs {
		if d.id == "" {
			v.viol = append(append(v.viol, pure...), "edges: "+d.why)
			return
		}
		if _, ok := ids[d.id]; !ok {
			ids[d.id] = d.why
		}
	}
	if len(ids) == 0 {
		v.viol = pure
		return
	}
	// smallest set of recorded defects whose dependency errors reproduce the observed result
	names := make([]string, 0, len(ids))
	for id := range ids {
		names = append(names, id)
	}
	sort.Strings(names)
	best := -1
	for mask := 1; mask < 1<<uint(len(names)); mask++ {
		if best >= 0 && c17Popcount(mask) >= c17Popcount(best) {
			continue
		}
		on := map[string]bool{}
		for b, id := range names {
			if mask>>uint(b)&1 == 1 {
				on[id] = true
			}
		}
		edges := map[int][][]int{}
		for si, t := range truths {
			if t == nil {
				continue
			}
			adj := make([]map[int]bool, len(t.Tops))
			for i := range adj {
				adj[i] = map[int]bool{}
				for _, j := range t.Edges[i] {
					adj[i][j] = true
				}
			}
			for _, d := range diffs {
				if d.seg == si && on[d.id] {
					if d.spurious {
						adj[d.from][d.to] = true
					} else {
						delete(adj[d.from], d.to)
					}
				}
			}
			e := make([][]int, len(t.Tops))
			for i := range adj {
				for j := range adj[i] {
					e[i] = append(e[i], j)
				}
				sort.Ints(e[i])
			}
			edges[si] = e
		}
		if msgs, _ := c17Evaluate(segs, offs, truths, edges, real, declOut); len(msgs) == 0 {
			best = mask
		}
	}
	if best < 0 {
		v.viol = append(pure, "and the result does not follow from the dependencies the sorter reported either")
		return
	}
	for b, id := range names {
		if best>>uint(b)&1 == 1 {
			v.addKnown(id, pure[0]+" <= "+ids[id])
		}
	}
	return
}

func c17FwdSet(o c17Real) string {
	var f []string
	for i, it := range o.Items {
		if it.Kind == "TypeFwd" {
			f = append(f, fmt.Sprintf("%s@%d", it.Name, i))
		}
	}
	return strings.Join(f, ",")
}

// check runs one input through the sorter c17Repeats times and compares with the oracle.
func (c *c17Ctx) check(origin string, segs []c17Seg) {
	r := c.r
	// merge neighbouring segments of the same category: the sorter sees them as one run
	var merged []c17Seg
	for _, s := range segs {
		if n := len(merged); n > 0 && merged[n-1].Cat == s.Cat {
			m := &merged[n-1]
			shift := len(m.Text) + 1
			for _, it := range s.Items {
				m.Items = append(m.Items, c17SegItem{it.Name, it.Off + shift})
			}
			m.Text += "\n" + s.Text
			m.graph = nil
			continue
		}
		merged = append(merged, s)
	}
	segs = merged
	offs := make([]int, len(segs))
	o := 0
	for i, s := range segs {
		offs[i] = o
		o += len(s.Text) + 1
	}
	src := c17Join(segs)

	truths := make([]*c17Truth, len(segs))
	ndecl, nedges := 0, 0
	for i, s := range segs {
		if s.Cat != "decl" {
			continue
		}
		t, err := c17Analyse(s.Text)
		if err != nil {
			c.genProblem(err.Error(), segs)
			return
		}
		conf, unver, dis := c17CrossCheck(t)
		if dis != "" {
			c.genProblem("free-variable analysis disagrees with go/types: "+dis, segs)
			return
		}
		r.Count("idents_confirmed_by_go_types", int64(conf))
		r.Count("idents_without_go_types_opinion", int64(unver))
		if g := s.graph; g != nil {
			// generator self-check: the text must contain exactly the intended graph
			ok := len(g.Kinds) == len(t.Tops)
			for k := 0; ok && k < len(t.Tops); k++ {
				ok = t.Tops[k].Kind == c17KindName(g.Kinds[k]) && t.Tops[k].Name == g.Names[k]
				want := g.edges()[k]
				ok = ok && fmt.Sprint(want) == fmt.Sprint(t.Edges[k])
			}
			if !ok {
				c.genProblem("rendered text does not contain the intended graph", segs)
				return
			}
		}
		truths[i] = t
		ndecl += len(t.Tops)
		for _, e := range t.Edges {
			nedges += len(e)
		}
	}

	var variants []c17Real
	count := map[string]int{}
	nodes, gfset, perr := c17Parse(src)
	if perr != "" {
		c.genProblem("gomacro parser rejected the input: "+perr, segs)
		return
	}
	for k := 0; k < c17Repeats; k++ {
		out := c17Sort(nodes, gfset)
		sig := out.signature()
		if count[sig] == 0 {
			variants = append(variants, out)
		}
		count[sig]++
	}
	r.Eval(c17Repeats)

	mkReplay := func(want string) c17Replay {
		rep := c17Replay{Origin: origin, Segs: segs, Source: src, Want: want}
		for _, vr := range variants {
			rep.Got = append(rep.Got, fmt.Sprintf("x%d: %s", count[vr.signature()], vr.signature()))
		}
		return rep
	}
	var verdicts []c17Verdict
	var viol []string
	known := map[string]string{}
	for _, vr := range variants {
		v := c17Judge(segs, offs, truths, src, vr)
		verdicts = append(verdicts, v)
		viol = append(viol, v.viol...)
		for id, w := range v.known {
			if _, ok := known[id]; !ok {
				known[id] = w
			}
		}
	}
	if len(variants) > 1 {
		fw0 := c17FwdSet(variants[0])
		differs := false
		for _, vr := range variants[1:] {
			if c17FwdSet(vr) != fw0 {
				differs = true
			}
		}
		if len(viol) == 0 && differs {
			known[c17FindTypeFwd] = fmt.Sprintf("%d different results in %d runs of the same input; they differ in which types are forward-declared", len(variants), c17Repeats)
		} else {
			viol = append(viol, fmt.Sprintf("cond4: %d different results in %d runs of the same input", len(variants), c17Repeats))
		}
	}

	// evidence
	nontrivial := ndecl >= 2 || len(segs) >= 2
	fresh := false
	if nontrivial {
		fresh = r.Distinct(src)
	}
	if fresh || c.verbose {
		outcome := "sorted"
		switch {
		case variants[0].Panic != "":
			outcome = "declaration-loop"
		case c17FwdSet(variants[0]) != "":
			outcome = "sorted-with-typefwd"
		}
		r.Cover("outcome", outcome)
		r.Cover("declarations", fmt.Sprintf("%02d", c17Min(ndecl, 41)/5*5))
		r.Cover("runs", fmt.Sprintf("%d", len(segs)))
		for _, t := range truths {
			if t == nil {
				continue
			}
			for _, m := range t.Mentions {
				if m.Free {
					if m.From != m.To {
						r.Cover("reference", fmt.Sprintf("%s->%s %s nest%d", t.Tops[m.From].Kind, t.Tops[m.To].Kind, m.Place, c17Min(m.Nest, 5)))
					} else {
						r.Cover("self_reference", t.Tops[m.From].Kind)
					}
				} else {
					r.Cover("shadowed", fmt.Sprintf("%s +%d", m.Binder, c17Min(m.Nest-m.BNest, 4)))
				}
			}
		}
		if len(viol) == 0 && len(known) == 0 && nedges > 0 && r.Counter("sampled") < 6 {
			r.Count("sampled", 1)
			r.Sample(map[string]interface{}{"origin": origin, "source": src, "result": variants[0].signature()})
		}
	}
	for _, v := range verdicts {
		if v.unspec {
			r.Count("unspecified_mixed_cycle", 1)
		}
		if v.harmless > 0 {
			r.Count("results_correct_although_reported_deps_differ_from_true_edges", 1)
		}
	}

	if c.verbose {
		fmt.Printf("---- input (%s)\n%s\n", origin, src)
		for si, t := range truths {
			if t == nil {
				continue
			}
			fmt.Printf("---- reference analysis of run %d\n", si)
			for i, tp := range t.Tops {
				var d []string
				for _, j := range t.Edges[i] {
					d = append(d, t.Tops[j].Name)
				}
				fmt.Printf("  %-7s %-12s true deps %v\n", tp.Kind, tp.Name, d)
			}
			for _, m := range t.Mentions {
				if !m.Free {
					fmt.Printf("  shadowed: %q inside %q by %s (nest %d, binder nest %d)\n", t.Tops[m.To].Name, t.Tops[m.From].Name, m.Binder, m.Nest, m.BNest)
				}
			}
		}
		for _, vr := range variants {
			fmt.Printf("---- sorter result x%d\n", count[vr.signature()])
			if vr.Panic != "" {
				fmt.Printf("  panic: %s\n", vr.Panic)
			}
			for _, it := range vr.Items {
				fmt.Printf("  %-8s %-12s @%d deps %v\n", it.Kind, it.Name, it.Off, it.Deps)
			}
		}
		fmt.Printf("---- verdict: violations=%v known=%v\n", viol, known)
	}

	if len(viol) > 0 {
		tag := viol[0]
		if k := strings.Index(tag, ":"); k > 0 {
			tag = tag[:k]
		}
		r.Cover("verdict", tag)
		if d := os.Getenv("C17_DEBUG"); d != "" && strings.HasPrefix(tag, d) && r.Counter("debug_printed") < 15 {
			r.Count("debug_printed", 1)
			fmt.Fprintf(os.Stderr, "DEBUG [%s] %s\n%s\n%v\n\n", origin, strings.Join(viol, " | "), src, mkReplay("").Got)
		}
		r.Violation(tag, mkReplay(strings.Join(viol, " | ")), strings.Join(viol, " | ")+" :: "+fw.Clip(src, 300))
		return
	}
	if len(known) == 0 {
		r.Cover("verdict", "held")
		return
	}
	ids := make([]string, 0, len(known))
	for id := range known {
		ids = append(ids, id)
	}
	sort.Strings(ids)
	for _, id := range ids {
		r.Cover("verdict", id)
		if d := os.Getenv("C17_DEBUG"); d != "" && strings.HasPrefix(id, d) && r.Counter("debug_printed") < 15 {
			r.Count("debug_printed", 1)
			fmt.Fprintf(os.Stderr, "DEBUG %s %s\n%s\n%v\n\n", id, known[id], src, strings.Join(mkReplay("").Got, "\n"))
		}
		r.Known(id, mkReplay(known[id]), known[id]+" :: "+fw.Clip(src, 300))
	}
}

// ---------------------------------------------------------------------------------------------
// workload

var c17Pool = []string{"a", "b", "c", "d", "e"}

func (c *c17Ctx) runJob(j c17Job) {
	rng := rand.New(rand.NewSource(j.seed))
	switch j.mode {
	case "exh":
		g := j.g
		n := len(g.Kinds)
		names := append([]string{}, c17Pool...)
		rng.Shuffle(len(names), func(a, b int) { names[a], names[b] = names[b], names[a] })
		g.Names = names[:n]
		g.finishMethods()
		shadowP := 0.0
		if j.variant > 0 {
			shadowP = 0.5
		}
		text := c17Render(g, rng, shadowP, j.variant%3 == 2, nil)
		c.check(fmt.Sprintf("exhaustive n=%d kinds=%s variant=%d seed=%d", n, g.Kinds, j.variant, j.seed), []c17Seg{{Cat: "decl", Text: text, graph: g}})
	case "rand":
		n := 6 + rng.Intn(35)
		g := c17RandomGraph(rng, n, "n", rng.Intn(3) == 0, rng.Intn(10) == 0)
		text := c17Render(g, rng, 0.25/float64(n)*4, rng.Intn(2) == 0, nil)
		c.check(fmt.Sprintf("random n=%d seed=%d", n, j.seed), []c17Seg{{Cat: "decl", Text: text, graph: g}})
	case "sect":
		c.check(fmt.Sprintf("sections seed=%d", j.seed), c17Sections(rng))
	}
}

func c17PackageSeg(rng *rand.Rand) c17Seg {
	var lines []string
	var items []c17SegItem
	off := 0
	for k := 0; k < 1+rng.Intn(2); k++ {
		l := fmt.Sprintf("package pk%d", rng.Intn(9))
		items = append(items, c17SegItem{Off: off + len("package ")})
		lines = append(lines, l)
		off += len(l) + 1
	}
	return c17Seg{Cat: "package", Text: strings.Join(lines, "\n"), Items: items}
}

func c17ImportSeg(rng *rand.Rand) c17Seg {
	paths := []string{"fmt", "os", "a/b/strs", "x.y/z/w", "math/rand", "q"}
	var b strings.Builder
	var items []c17SegItem
	spec := func() {
		p := paths[rng.Intn(len(paths))]
		base := p[strings.LastIndex(p, "/")+1:]
		switch rng.Intn(5) {
		case 0:
			al := fmt.Sprintf("al%d", rng.Intn(9))
			items = append(items, c17SegItem{al, b.Len()})
			b.WriteString(al + " ")
		case 1:
			items = append(items, c17SegItem{"_", b.Len()})
			b.WriteString("_ ")
		case 2:
			items = append(items, c17SegItem{"", b.Len()})
			b.WriteString(". ")
		default:
			items = append(items, c17SegItem{base, b.Len()})
		}
		b.WriteString("\"" + p + "\"")
	}
	for k := 0; k < 1+rng.Intn(2); k++ {
		if k > 0 {
			b.WriteString("\n")
		}
		if rng.Intn(2) == 0 {
			b.WriteString("import ")
			spec()
		} else {
			b.WriteString("import (\n")
			for m := 0; m < 1+rng.Intn(3); m++ {
				b.WriteString("\t")
				spec()
				b.WriteString("\n")
			}
			b.WriteString(")")
		}
	}
	return c17Seg{Cat: "import", Text: b.String(), Items: items}
}

func c17StmtSeg(rng *rand.Rand, names []string) c17Seg {
	if len(names) == 0 {
		names = []string{"zz"}
	}
	var lines []string
	var items []c17SegItem
	off := 0
	for k := 0; k < 1+rng.Intn(3); k++ {
		n := names[rng.Intn(len(names))]
		forms := []string{"%s = 2", "println(%s)", "if %s < 3 { %s++ }", "%s", "for i := 0; i < 2; i++ { _ = %s }", "%s++", "y := %s", "{ %s = 1 }", "%s()", "switch %s { }", "go %s()", "%s + 1"}
		l := strings.ReplaceAll(forms[rng.Intn(len(forms))], "%s", n)
		items = append(items, c17SegItem{Off: off})
		lines = append(lines, l)
		off += len(l) + 1
	}
	return c17Seg{Cat: "stmt", Text: strings.Join(lines, "\n"), Items: items}
}

// c17Sections builds package / import / statement runs around declaration runs.
func c17Sections(rng *rand.Rand) []c17Seg {
	var segs []c17Seg
	var extern []string
	if rng.Intn(2) == 0 {
		segs = append(segs, c17PackageSeg(rng))
	}
	if rng.Intn(2) == 0 {
		segs = append(segs, c17ImportSeg(rng))
	}
	if rng.Intn(4) == 0 {
		segs = append(segs, c17StmtSeg(rng, nil))
	}
	runs := 1 + rng.Intn(3)
	for k := 0; k < runs; k++ {
		n := 1 + rng.Intn(7)
		g := c17RandomGraph(rng, n, fmt.Sprintf("q%c", 'a'+k), rng.Intn(3) == 0, false)
		text := c17Render(g, rng, 0.15, rng.Intn(2) == 0, extern)
		segs = append(segs, c17Seg{Cat: "decl", Text: text, graph: g})
		for i, nm := range g.Names {
			if g.Kinds[i] != 'm' {
				extern = append(extern, nm)
			}
		}
		if k == runs-1 && rng.Intn(3) == 0 {
			break
		}
		switch rng.Intn(6) {
		case 0:
			segs = append(segs, c17ImportSeg(rng))
		case 1:
			segs = append(segs, c17PackageSeg(rng))
		case 2:
			segs = append(segs, c17StmtSeg(rng, extern), c17ImportSeg(rng))
		default:
			segs = append(segs, c17StmtSeg(rng, extern))
		}
	}
	return segs
}

func checkC17(r *fw.Run) {
	r.SetRule("inputs = (a) every kind-plausible dependency graph over n<=4 declarations (thorough: also n=5 with at most 4 edges besides receiver edges) of kinds const/var/type/func/method whose cycles are all-type or all-non-type, each rendered to Go source one or more times with every reference placed in a type expression, initialiser, signature or function body at block depth 0-2 (several syntactic forms each), without and with shadowing parameters/results/receivers/function-literal parameters/local var-const-type declarations/:=, range and type-switch binders; (b) random graphs of 6-40 declarations; (c) package/import/statement runs around 1-3 declaration runs. Every input is parsed by the gomacro parser and sorted 8 times with a fresh dep.Sorter. A case is distinct by its source text and non-trivial when it has >=2 declarations or >=2 runs. Oracle: a hand-written free-variable analysis over go/ast (confirmed identifier by identifier by go/types) gives the true edges; the list returned by Sorter.All() is replayed against them: each name once with its kind and position, TypeFwd only for types on a cycle and before the type, every declaration after its dependencies (a forward declaration satisfies type declarations only), always the earliest allowed declaration, runs of packages/imports/statements in place, 'declaration loop' panic iff a cycle of non-types exists, all 8 results identical. Decl.Deps is looked at only after a failure, to attribute it to a recorded defect shape or not.")
	r.Assume("go/parser and go/types resolve identifiers as the Go specification says")
	r.Assume("the gomacro parser reports the same byte offsets as go/parser for declared identifiers (checked: every output entry must carry the expected offset)")
	r.Assume("a forward declaration satisfies only dependencies of other type declarations; cycles mixing types and non-types (always invalid Go) and identifier keys of composite literals (documented limitation) are outside the workload; references to methods (T.m) are not generated")
	r.Assume("base/dep does not modify the syntax tree, so the 8 sorts of one input share one parse")

	// tiny live heap + 16 allocating workers = a GC cycle every few ms; let the heap grow instead
	defer debug.SetGCPercent(debug.SetGCPercent(2000))
	c := &c17Ctx{r: r, slots: make([]c17Slot, runtime.NumCPU())}
	if p := fw.ReplayArg(); p != "" {
		var rep c17Replay
		if err := fw.LoadReplay(p, &rep); err != nil {
			panic(err)
		}
		c.verbose = true
		c.check(rep.Origin, rep.Segs)
		r.SetMinDistinct(0)
		return
	}

	if js := os.Getenv("C17_JOB"); js != "" { // development aid: C17_JOB=sect:<seed> or rand:<seed>
		var j c17Job
		k := strings.Index(js, ":")
		j.mode = js[:k]
		fmt.Sscan(js[k+1:], &j.seed)
		c.verbose = true
		c.runJob(j)
		r.SetMinDistinct(0)
		return
	}
	jobs := make(chan c17Job, 4096)
	go func() {
		defer close(jobs)
		rng := r.Rng("jobs")
		maxN := r.Pick(4, 5)
		for n := 1; n <= maxN; n++ {
			variants, maxEdges := 1, -1
			switch n {
			case 1:
				variants = 4
			case 2:
				variants = r.Pick(40, 200)
			case 3:
				variants = r.Pick(6, 24)
			case 4:
				variants = r.Pick(1, 3)
			case 5:
				maxEdges = 4
			}
			c17EnumGraphs(n, maxEdges, func(g *c17Graph) {
				for v := 0; v < variants; v++ {
					vv := v
					if variants == 1 {
						vv = rng.Intn(3) // a single rendering: alternate plain / shadowed / grouped
					}
					r.Count(fmt.Sprintf("jobs_exhaustive_n%d", n), 1)
					jobs <- c17Job{mode: "exh", g: g.clone(), seed: rng.Int63(), variant: vv}
				}
			})
		}
		for k := 0; k < r.Pick(4000, 60000); k++ {
			jobs <- c17Job{mode: "rand", seed: rng.Int63()}
		}
		for k := 0; k < r.Pick(4000, 60000); k++ {
			jobs <- c17Job{mode: "sect", seed: rng.Int63()}
		}
	}()

	var wg sync.WaitGroup
	done := make(chan struct{})
	for w := range c.slots {
		wg.Add(1)
		go func(w int) {
			defer wg.Done()
			sl := &c.slots[w]
			for j := range jobs {
				sl.mu.Lock()
				sl.since = time.Now()
				sl.what = fmt.Sprintf("%s seed=%d", j.mode, j.seed)
				sl.mu.Unlock()
				c.runJob(j)
				sl.mu.Lock()
				sl.since = time.Time{}
				sl.mu.Unlock()
			}
		}(w)
	}
	// watchdog: a sorter that does not return is not a verdict, but it must not hang the check
	go func() {
		for {
			select {
			case <-done:
				return
			case <-time.After(time.Second):
			}
			for w := range c.slots {
				sl := &c.slots[w]
				sl.mu.Lock()
				stuck := !sl.since.IsZero() && time.Since(sl.since) > 20*time.Second
				what := sl.what
				sl.mu.Unlock()
				if stuck {
					r.Inconclusive("a sort did not return within 20 s: " + what)
					r.Finish()
					os.Exit(3)
				}
			}
		}
	}()
	wg.Wait()
	close(done)
	if n := atomic.LoadInt64(&c.genProbs); n > 0 {
		first, _ := c.firstGen.Load().(string)
		r.Inconclusive(fmt.Sprintf("%d generated inputs could not be used (first: %s)", n, first))
	}
	r.SetExhaustive(true)
	r.Extra("exhaustive_bound", "all kind-plausible dependency graphs with n<=4 declarations"+map[bool]string{true: " and all with n=5 and <=4 free edges", false: ""}[r.Thorough()]+"; renderings (placement, shadowing) are sampled per graph")
}

func c17Min(a, b int) int {
	if a < b {
		return a
	}
	return b
}
