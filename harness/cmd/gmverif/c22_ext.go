package main

// C22/C25 shared helper: trees that contain gomacro extension nodes (parsed by the FORK parser from
// small gomacro sources) and trees built by the interpreter's macro machinery (macroexpansion,
// quasiquote evaluation).

import (
	"fmt"
	"go/ast"
	"go/token"
	"io"
	"math/rand"
	"strings"

	"github.com/cosmos72/gomacro/ast2"
	"github.com/cosmos72/gomacro/fast"
	"github.com/cosmos72/gomacro/go/etoken"
	mp "github.com/cosmos72/gomacro/go/parser"
)

// c22ForkParse parses src as the interpreter does (Globals.ParseBytes: mode 0, macro character '~').
func c22ForkParse(src string) (nodes []ast.Node, fset *etoken.FileSet, err string) {
	defer func() {
		if e := recover(); e != nil {
			nodes, err = nil, fmt.Sprintf("panic: %v", e)
		}
	}()
	var p mp.Parser
	fset = etoken.NewFileSet()
	p.Configure(0, '~')
	p.Init(fset, "repl.go", 0, []byte(src))
	ns, e := p.Parse()
	if e != nil {
		return nil, fset, e.Error()
	}
	return ns, fset, ""
}

// fixed gomacro sources: every extension construct of the fork parser at least once
var c22ExtFixed = []string{
	"~quote{x + y}",
	"~quote{x}",
	"~'x",
	"~'7",
	`~'"s"`,
	"~quasiquote{f(~unquote{x}, ~unquote_splice{y})}",
	`~"{a; ~,b; ~,@c}`,
	"~quote{~quote{~unquote{x}}}",
	"~'~,x",
	`~"~"{a + ~,~,b}`,
	"~quote{(a + b) * c}",
	"~quote{a; b; c}",
	"~quote{{a; b}}",
	"~quote{}",
	"~quote{if a { b } else { c }}",
	"~quote{for i := 0; i < n; i++ { f(i) }}",
	"~quote{case 1, 2: x; default: y}",
	"~quote{~typecase int, string: x; default: z}",
	"~quote{package foo}",
	`~quote{import "fmt"}`,
	"~quote{var v = 1}",
	"~quote{type T struct{ A int }}",
	"~quote{~func f(a int) int { return a }}",
	"~quote{return a, b}",
	"~quote{x := <-ch}",
	"~quote{s[1:2:3]}",
	"~quote{f(a, b...)}",
	"~quote{(*T)(p)}",
	"~quote{(<-chan int)(c)}",
	"f(~quote{1}, ~'{a; b})",
	"switch x { case 1: ~,y }",
	"if ~,a { ~,@b } else { ~,c }",
	"x = ~,y + 1",
	"func g() ast.Node { return ~\"{ if ~,a { ~,@b } else { ~,c } } }",
	"func h(x ast.Node) ast.Node { return ~quasiquote{~unquote{x} + 1} }",
	"func Sum#[T](a, b T) T { return a + b }",
	"func Find#[T: Eq#[T]](s []T, x T) int { return -1 }",
	"func Map#[K: Comparable#[K], V](m map[K]V) []K { return nil }",
	"func (p Pair#[A, B]) Swap() Pair#[B, A] { return Pair#[B, A]{p.Second, p.First} }",
	"func (T) Generic#[K](k K) {}",
	"type Pair#[A, B] struct { First A; Second B }",
	"type Eq#[T] interface { Equal(T) bool }",
	"type List#[T] struct { head *Node#[T]; n int }",
	"var p Pair#[int, string]",
	"var q = Pair#[int, []string]{1, nil}",
	"Sum#[int](1, 2)",
	"x := Find#[MyInt](s, 3)",
	"var f func(Pair#[int, int]) List#[string]",
	"~func foo() {}",
	"~func (t T) bar(a int) int { return a }",
	"~lambda(x int) int { return x }",
	"f := ~lambda() {}",
}

// gomacro-only forms that are neither valid Go nor built from valid Go (macro declarations, block
// expressions): C22 checks their wrappers; C25 counts and skips them (c25OutOfScope)
var c22ExtFixedDecl = []string{
	"macro second(a, b, c ast.Node) ast.Node { return b }",
	"~macro m2(x ast.Node) (ast.Node, ast.Node) { return x, x }",
	"macro m0() ast.Node { return ~'{1} }",
	"x := {1; 2}",
	"y = {f(); g()} + 1",
}

// c22ExtGen generates n random gomacro sources with the C21 generator (quote values, quasiquote
// templates with unquote chains) and a small generator of #[...] generics syntax.
func c22ExtGen(rng *rand.Rand, n int) []string {
	g := &c21Gen{rng: rng, maxLv: 3}
	lit := &c21Gen{rng: rng, literal: true, maxLv: 3}
	out := make([]string, 0, n)
	for len(out) < n {
		switch r := rng.Intn(100); {
		case r < 35:
			t, _ := g.template()
			out = append(out, t)
		case r < 50:
			out = append(out, g.pick("~quote", "~'")+"{"+lit.expr(0, 1+rng.Intn(8))+"}")
		case r < 65:
			out = append(out, g.pick("~quote", "~'")+"{"+lit.stmtList(0, 2+rng.Intn(8), 1+rng.Intn(3))+"}")
		case r < 72:
			out = append(out, g.pick("~quote", "~'")+"{"+lit.clause(0, 4, g.chance(20))+"}")
		case r < 80:
			// a function whose body returns a template (unquotes stay unevaluated in the parsed tree)
			t, _ := g.template()
			out = append(out, "func "+g.ident()+"(a, b ast.Node) ast.Node { return "+t+" }")
		default:
			out = append(out, c22GenGenerics(rng, lit))
		}
	}
	return out
}

func c22GenGenerics(rng *rand.Rand, lit *c21Gen) string {
	pick := func(s ...string) string { return s[rng.Intn(len(s))] }
	typ := func() string {
		return pick("int", "string", "[]T", "map[K]V", "*T", "T", "K", "chan V", "func(T) bool", "[4]byte", "interface{}", "pkg.Type")
	}
	targs := func() string {
		n := 1 + rng.Intn(3)
		var p []string
		for i := 0; i < n; i++ {
			if rng.Intn(5) == 0 {
				p = append(p, pick("Pair", "List", "Set")+"#["+typ()+"]")
			} else {
				p = append(p, typ())
			}
		}
		return strings.Join(p, ", ")
	}
	tparams := func() string {
		names := []string{"T", "K", "V", "A"}
		n := 1 + rng.Intn(3)
		var p []string
		for i := 0; i < n; i++ {
			s := names[i]
			if rng.Intn(3) == 0 {
				s += ": " + pick("Eq", "Ord", "Comparable") + "#[" + names[i] + "]"
			}
			p = append(p, s)
		}
		return strings.Join(p, ", ")
	}
	name := pick("Pair", "List", "Set", "Tree")
	switch rng.Intn(7) {
	case 0:
		return "type " + name + "#[" + tparams() + "] struct { a " + typ() + "; b, c " + typ() + " }"
	case 1:
		return "type " + name + "#[" + tparams() + "] interface { M(" + typ() + ") " + typ() + "; N() }"
	case 2:
		return "func " + pick("Sum", "Find", "Apply") + "#[" + tparams() + "](a " + typ() + ", b ..." + typ() + ") " + typ() + " { " + lit.stmtList(0, 4, 1+rng.Intn(2)) + " }"
	case 3:
		return "func (p " + pick("", "*") + name + "#[" + targs() + "]) " + pick("Get", "Put") + "(x " + typ() + ") (" + typ() + ", error) { return " + name + "#[" + targs() + "]{}, nil }"
	case 4:
		return "var v " + name + "#[" + targs() + "]"
	case 5:
		return pick("Sum", "Find", "Apply") + "#[" + targs() + "](" + lit.exprList(0, 4, 1) + ")"
	default:
		return "x := " + name + "#[" + targs() + "]{" + lit.exprList(0, 3, 0) + "}"
	}
}

// ---------------------------------------------------------------------------------------------
// the interpreter's macro machinery

type c22Machine struct {
	ir *fast.Interp
}

// macros available to c22MacroSources
const c22MacroDefs = `
import "go/ast"
macro twice(x ast.Node) ast.Node { return ~"{ ~,x; ~,x } }
macro swap(a, b ast.Node) (ast.Node, ast.Node) { return b, a }
macro unless(c, body ast.Node) ast.Node { return ~"{ if !(~,c) { ~,body } } }
macro paren(a, b, c ast.Node) ast.Node { return ~"{ (~,a + ~,b) * ~,c } }
macro conv(t, x ast.Node) ast.Node { return ~"{ (~,t)(~,x) } }
macro ifelse(c, a, b ast.Node) ast.Node { return ~"{ if ~,c { ~,a } else { ~,b } } }
macro first(a, b ast.Node) ast.Node { return a }
macro block(a, b ast.Node) ast.Node { return ~"{ { ~,a; ~,b } } }
macro neg(a ast.Node) ast.Node { return ~"{ -~,a } }
macro idx(a, b ast.Node) ast.Node { return ~"{ ~,a[~,b] } }
macro sel(a ast.Node) ast.Node { return ~"{ ~,a.f } }
macro deref(a ast.Node) ast.Node { return ~"{ *~,a } }
macro call(f, a ast.Node) ast.Node { return ~"{ ~,f(~,a) } }
macro loop(n, body ast.Node) ast.Node { return ~"{ for i := 0; i < ~,n; i++ { ~,body } } }
`

// c22NewMachine creates a fast interpreter; plain = without the helper macros and variables (used to
// macroexpand corpus code, whose identifiers must not resolve to macros)
func c22NewMachine(plain bool) *c22Machine {
	ir := fast.New()
	ir.Comp.Globals.Stdout = io.Discard
	ir.Comp.Globals.Stderr = io.Discard
	m := &c22Machine{ir: ir}
	if plain {
		return m
	}
	if e := m.eval(c22MacroDefs); e != "" {
		panic("c22: cannot define the helper macros: " + e)
	}
	decl := "var " + strings.Join(c21AllVars(), ", ") + " interface{}"
	if e := m.eval(decl); e != "" {
		panic("c22: cannot declare variables: " + e)
	}
	return m
}

func (m *c22Machine) eval(src string) (err string) {
	defer c21Recover(&err)
	m.ir.Eval(src)
	return ""
}

// evalNode evaluates src and returns the ast.Node it yields (quote / quasiquote results), if any
func (m *c22Machine) evalNode(src string) (n ast.Node, err string) {
	defer c21Recover(&err)
	vals, _ := m.ir.Eval(src)
	if len(vals) == 0 || !vals[0].IsValid() {
		return nil, "no value"
	}
	x := c21Iface(vals[0].ReflectValue())
	n, ok := x.(ast.Node)
	if !ok || n == nil {
		return nil, fmt.Sprintf("result is %T", x)
	}
	return n, ""
}

// expandSrc = parse with the fork parser + MacroExpandCodewalk, as Interp.Parse does
func (m *c22Machine) expandSrc(src string) (nodes []ast.Node, err string) {
	defer c21Recover(&err)
	form := m.ir.Comp.Parse(src)
	return c22AstNodes(form), ""
}

// expandNode runs the macroexpander's code walk over an already parsed tree; with no macro call in
// it the walk still rebuilds every node through ast2 New/Get/Set and removes ParenExpr / ExprStmt /
// DeclStmt / one-statement blocks, re-adding what go/ast's typed fields need.
func (m *c22Machine) expandNode(n ast.Node) (out ast.Node, err string) {
	defer c21Recover(&err)
	out, _ = m.ir.Comp.MacroExpandNodeCodewalk(n)
	return out, ""
}

func (m *c22Machine) fileset() *etoken.FileSet { return m.ir.Comp.Globals.Fileset }

func c22AstNodes(form ast2.Ast) []ast.Node {
	switch form := form.(type) {
	case nil:
		return nil
	case ast2.AstWithNode:
		if n := form.Node(); n != nil {
			return []ast.Node{n}
		}
		return nil
	case ast2.AstWithSlice:
		var out []ast.Node
		for i, n := 0, form.Size(); i < n; i++ {
			out = append(out, c22AstNodes(form.Get(i))...)
		}
		return out
	}
	return nil
}

// sources with macro calls: plain Go around calls of the helper macros
func c22MacroSources(rng *rand.Rand, n int) []string {
	lit := &c21Gen{rng: rng, literal: true, maxLv: 0}
	pick := func(s ...string) string { return s[rng.Intn(len(s))] }
	e := func() string { return lit.expr(0, 1+rng.Intn(5)) }
	st := func() string { return lit.stmt(0, 1+rng.Intn(5), true) }
	out := make([]string, 0, n)
	for len(out) < n {
		var s string
		switch rng.Intn(19) {
		case 0:
			s = "twice; " + st()
		case 1:
			s = "swap; " + st() + "; " + st()
		case 2:
			s = "unless; " + e() + "; " + st()
		case 3:
			s = "x = {paren; " + e() + "; " + e() + "; " + e() + "}"
		case 4:
			s = "x = {conv; " + pick("*T", "T", "pkg.Type", "**pkg.T", "*pkg.T") + "; " + e() + "}"
		case 5:
			s = "ifelse; " + e() + "; " + st() + "; " + st()
		case 6:
			s = "func f() { first; " + st() + "; " + st() + " }"
		case 7:
			s = "block; " + st() + "; " + st()
		case 8:
			s = "x = {neg; " + e() + "}"
		case 9:
			s = "x = {idx; " + e() + "; " + e() + "}"
		case 10:
			s = "x = {sel; " + e() + "}"
		case 11:
			s = "x = {deref; " + e() + "}"
		case 12:
			s = "x = {call; " + e() + "; " + e() + "}"
		case 13:
			s = "loop; " + e() + "; " + st()
		case 14:
			s = "for { ifelse; " + e() + "; " + st() + "; " + st() + " }"
		case 15:
			s = "if " + lit.header(0, 3) + " { twice; " + st() + " } else { unless; " + e() + "; " + st() + " }"
		case 16:
			// no macro call: the code walk alone removes the parentheses of the conversion
			s = "x = (" + pick("<-chan int", "func()", "[]int", "chan int", "chan<- int", "interface{}", "map[K]V", "func(int) bool", "*T", "struct{}", "[4]byte", "<-chan <-chan int") + ")(" + e() + ")"
		case 17:
			s = "x = (" + e() + ")" + pick(".f", "[i]", "[i:j]", ".(T)", "(a)", " * b", " + b", " - (c - d)")
		default:
			s = "if " + lit.header(0, 3) + " { " + st() + " } else { " + st() + " }"
		}
		out = append(out, s)
	}
	return out
}

// c22HasExtension reports whether the tree contains nodes only the fork parser can produce / read:
// quote-family, macro-block and other non-Go unary operators, #[...] generics encodings, macro
// declarations, case clauses or package clauses inside ordinary statement lists.
func c22HasExtension(x interface{}) (why string) {
	bodies := map[*ast.BlockStmt]bool{} // bodies of switch / select statements hold clauses in plain Go too
	c22EachNode(x, func(n ast.Node) {
		switch n := n.(type) {
		case *ast.SwitchStmt:
			bodies[n.Body] = true
		case *ast.TypeSwitchStmt:
			bodies[n.Body] = true
		case *ast.SelectStmt:
			bodies[n.Body] = true
		}
	})
	c22EachNode(x, func(n ast.Node) {
		if why != "" {
			return
		}
		switch n := n.(type) {
		case *ast.UnaryExpr:
			if n.Op >= etoken.QUOTE {
				why = "unary " + etoken.String(n.Op)
			}
		case *ast.IndexExpr:
			if c, ok := n.Index.(*ast.CompositeLit); ok && c.Type == nil {
				why = "#[...]"
			}
		case *ast.TypeSpec:
			if _, ok := n.Type.(*ast.CompositeLit); ok {
				why = "generic type declaration"
			}
		case *ast.FuncDecl:
			if n.Recv != nil && len(n.Recv.List) == 0 {
				why = "macro declaration"
			} else if n.Recv != nil && len(n.Recv.List) == 2 && (n.Recv.List[0] == nil || funcGenericParams(n.Recv.List[1])) {
				why = "generic function declaration"
			}
		case *ast.BlockStmt:
			if !bodies[n] {
				for _, s := range n.List {
					switch s.(type) {
					case *ast.CaseClause, *ast.CommClause:
						why = "clause in block"
					}
				}
			}
		case *ast.GenDecl:
			if n.Tok == token.PACKAGE {
				why = "package declaration"
			}
		}
	})
	return why
}

func funcGenericParams(f *ast.Field) bool {
	if f == nil || len(f.Names) != 0 {
		return false
	}
	c, ok := f.Type.(*ast.CompositeLit)
	return ok && c.Type == nil
}
