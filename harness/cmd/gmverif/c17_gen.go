package main

// C17 workload: dependency graphs -> Go source.

import (
	"fmt"
	"math/rand"
	"strings"
)

// c17Graph is the generator's view of one declaration run. The oracle never reads it: it works
// from the rendered text. Adj is only used for a generator/oracle self-check.
type c17Graph struct {
	Kinds []byte // c t v f m
	Names []string
	Recv  []int // for methods: index of the receiver type, -1 = a type declared elsewhere
	Adj   [][]bool
}

func c17NewGraph(kinds []byte, names []string) *c17Graph {
	n := len(kinds)
	g := &c17Graph{Kinds: kinds, Names: names, Recv: make([]int, n), Adj: make([][]bool, n)}
	for i := range g.Adj {
		g.Adj[i] = make([]bool, n)
		g.Recv[i] = -1
	}
	return g
}

// kind plausibility: constants and types can only mention constants and types; nothing mentions a method.
func c17Plausible(from, to byte) bool {
	if to == 'm' {
		return false
	}
	switch from {
	case 'c', 't':
		return to == 'c' || to == 't'
	}
	return true
}

func c17KindName(k byte) string {
	switch k {
	case 'c':
		return "Const"
	case 't':
		return "Type"
	case 'v':
		return "Var"
	case 'f':
		return "Func"
	}
	return "Method"
}

func (g *c17Graph) tops() []c17Top {
	t := make([]c17Top, len(g.Kinds))
	for i, k := range g.Kinds {
		t[i] = c17Top{Kind: c17KindName(k), Name: g.Names[i]}
	}
	return t
}

func (g *c17Graph) edges() [][]int {
	e := make([][]int, len(g.Kinds))
	for i := range g.Adj {
		for j, b := range g.Adj[i] {
			if b {
				e[i] = append(e[i], j)
			}
		}
	}
	return e
}

// ---------------------------------------------------------------------------------------------

type c17Rend struct {
	g       *c17Graph
	rng     *rand.Rand
	tmp     int
	shadowP float64  // probability of a shadowed mention per ordered pair
	group   bool     // allow grouping neighbouring specs in parentheses
	extern  []string // names declared in earlier runs that may be mentioned
}

func (q *c17Rend) fresh(p string) string {
	q.tmp++
	return fmt.Sprintf("%s%d_", p, q.tmp)
}

func (q *c17Rend) pick(l ...string) string { return l[q.rng.Intn(len(l))] }

// an int-valued expression mentioning declaration j
func (q *c17Rend) valueExpr(j int) string {
	n := q.g.Names[j]
	switch q.g.Kinds[j] {
	case 'c':
		return q.pick(n, "("+n+" + 1)", "-"+n, n+"*2", "[]int{"+n+"}[0]", "int("+n+")", "struct{ f int }{f: "+n+"}.f", "[]int{1, 2}["+n+"]", "map[int]int{1: "+n+"}[1]")
	case 'v':
		return q.pick(n, "("+n+" + 1)", "-"+n, n+"*2", "[]int{"+n+"}[0]", "int("+n+")", "struct{ f int }{f: "+n+"}.f", n+".f", "*&"+n, n+"[0]", "len("+n+"[1:2])", n+".(int)")
	case 'f':
		return q.pick(n+"()", n+"(1)", "("+n+")()", n+"(2).f")
	case 't':
		return q.pick("len([]"+n+"{})", "int("+n+"(0))", "len(map["+n+"]int{})", "cap(make([]"+n+", 0))",
			"func(p "+n+") int { return 0 }(*new("+n+"))", n+"{}.f", "len([2]"+n+"{})", "interface{}(nil).("+n+").f")
	}
	panic("valueExpr of a method")
}

func (q *c17Rend) constExpr(j int) string {
	n := q.g.Names[j]
	if q.g.Kinds[j] == 't' {
		return q.pick(n+"(1)", "int("+n+"(2))")
	}
	return q.pick(n, "("+n+" + 1)", "-"+n, n+" * 2", n+" << 1")
}

func (q *c17Rend) typeExpr(j, depth int) string {
	n := q.g.Names[j]
	var core string
	if q.g.Kinds[j] == 'c' {
		core = q.pick("["+n+"]int", "["+n+" + 1]byte", "[2 * "+n+"]string")
	} else {
		core = q.pick(n, "*"+n, "[]"+n, "map[string]"+n, "chan "+n, "func("+n+") "+n, "func(p "+n+")",
			"interface{ M(p "+n+") }", "[2]"+n, "map["+n+"]bool", "struct{ "+n+" }", "func() (r "+n+")")
	}
	for d := 0; d < depth; d++ {
		core = q.pick("struct{ g "+core+" }", "[]struct{ g "+core+" }", "struct{ w int; g "+core+" }")
	}
	return core
}

func (q *c17Rend) wrap(s string, depth int) string {
	for d := 0; d < depth; d++ {
		i := q.fresh("i")
		switch q.rng.Intn(8) {
		case 0:
			s = "if true { " + s + " }"
		case 1:
			s = "for " + i + " := 0; " + i + " < 1; " + i + "++ { " + s + " }"
		case 2:
			s = "{ " + s + " }"
		case 3:
			s = "switch { case true: " + s + " }"
		case 4:
			s = "func() { " + s + " }()"
		case 5:
			s = "for range []int{} { " + s + " }"
		case 6:
			s = "if false { } else { " + s + " }"
		case 7:
			s = "select { default: " + s + " }"
		}
	}
	return s
}

// a statement mentioning declaration j
func (q *c17Rend) stmtRef(j int) string {
	n := q.g.Names[j]
	switch q.g.Kinds[j] {
	case 'c':
		return q.pick("_ = "+q.valueExpr(j), "println("+n+")", "if "+n+" > 0 { }", "for "+n+" < 1 { break }", "switch "+n+" { case 1: }", "return "+q.valueExpr(j), "make(chan int) <- "+n)
	case 'v':
		return q.pick("_ = "+q.valueExpr(j), "println("+n+")", "if "+n+" > 0 { }", "for "+n+" < 1 { break }", "switch "+n+" { case 1: }", "return "+q.valueExpr(j), n+"++", n+" = 3", n+" += 2", "<-"+n)
	case 'f':
		x := q.fresh("x")
		return q.pick(n+"()", "defer "+n+"()", "go "+n+"()", "_ = "+n, x+" := "+n+"(); _ = "+x, "_ = "+q.valueExpr(j))
	case 't':
		l := q.fresh("l")
		return q.pick("var _ "+n, "_ = new("+n+")", "_ = "+q.valueExpr(j), "var "+l+" "+n+"; _ = "+l, "_ = func(p "+n+") {}",
			"switch interface{}(nil).(type) { case "+n+": }", "_, _ = interface{}(nil).("+n+")", "type _ "+n)
	}
	panic("stmtRef of a method")
}

var c17WholeBinders = []string{"param", "result"}
var c17BlockBinders = []string{"localvar", "localconst", "localtype", "shortvar", "shortvar2", "ifinit", "forinit", "switchinit", "range", "range2", "typeswitch", "litparam", "litresult", "selectrecv"}

// a self-contained statement in which name n is locally bound by `binder` and then mentioned
func (q *c17Rend) shadowStmt(n, binder string) string {
	occ := q.wrap(q.pick("_ = "+n, "println("+n+")", "_ = "+n+" + 1"), q.rng.Intn(3))
	k := q.fresh("k")
	switch binder {
	case "localvar":
		return "{ var " + n + " int; " + occ + " }"
	case "localconst":
		return "{ const " + n + " = 1; " + occ + " }"
	case "localtype":
		return "{ type " + n + " int; " + q.wrap("_ = new("+n+")", q.rng.Intn(3)) + " }"
	case "shortvar":
		return "{ " + n + " := 1; " + occ + " }"
	case "shortvar2":
		return "{ " + n + ", " + k + " := 1, 2; _ = " + k + "; " + occ + " }"
	case "ifinit":
		return "if " + n + " := 1; " + n + " > 0 { " + occ + " }"
	case "forinit":
		return "for " + n + " := 0; " + n + " < 1; " + n + "++ { " + occ + " }"
	case "switchinit":
		return "switch " + n + " := 1; " + n + " { case 1: " + occ + " }"
	case "range":
		return "for " + n + " := range []int{1} { " + occ + " }"
	case "range2":
		return "for _, " + n + " := range []int{1} { " + occ + " }"
	case "typeswitch":
		return "switch " + n + " := interface{}(1).(type) { case int: " + occ + "; _ = " + n + " }"
	case "litparam":
		return "func(" + n + " int) { " + occ + " }(1)"
	case "litresult":
		return "func() (" + n + " int) { " + occ + "; return }()"
	case "selectrecv":
		return "select { case " + n + " := <-make(chan int): " + occ + " }"
	case "usebefore": // a true reference followed by a local of the same name
		return "{ _ = " + n + "; " + n + " := 1; " + occ + " }"
	}
	panic("binder " + binder)
}

// the only true reference of the body to declaration j comes right after a scope that shadowed its name closed
var c17UseAfter = []string{"useafter-block", "useafter-case", "useafter-default", "useafter-ifelse", "useafter-comm", "useafter-typecase", "useafter-for", "useafter-funclit"}

func (q *c17Rend) useAfterStmt(j int, binder string) string {
	n := q.g.Names[j]
	occ := q.pick("_ = "+n, "println("+n+")", "_ = "+n+" + 1")
	ref := q.stmtRef(j)
	if strings.HasPrefix(ref, "return") {
		ref = "_ = " + q.valueExpr(j)
	}
	switch binder {
	case "useafter-block":
		return "{ { " + n + " := 1; " + occ + " }; " + ref + " }"
	case "useafter-case":
		return "switch { case false: " + n + " := 1; " + occ + "; case true: " + ref + " }"
	case "useafter-default":
		return "switch 1 { case 2: var " + n + " int; " + occ + "; default: " + ref + " }"
	case "useafter-ifelse":
		return "if true { " + n + " := 1; " + occ + " } else { " + ref + " }"
	case "useafter-comm":
		return "select { case <-make(chan int): " + n + " := 1; " + occ + "; default: " + ref + " }"
	case "useafter-typecase":
		return "switch interface{}(1).(type) { case int: " + n + " := 1; " + occ + "; case string: " + ref + " }"
	case "useafter-for":
		return "{ for " + n + " := 0; " + n + " < 1; " + n + "++ { }; " + ref + " }"
	case "useafter-funclit":
		return "{ func(" + n + " int) { " + occ + " }(1); " + ref + " }"
	}
	panic("binder " + binder)
}

type c17Plan struct {
	whole map[int]string // j -> param|result|recv|litparam|litresult : bound for the whole body
	block map[int]string // j -> block-local binder
}

func (q *c17Rend) plan(i int, funcLike bool) c17Plan {
	p := c17Plan{whole: map[int]string{}, block: map[int]string{}}
	if !funcLike || q.shadowP == 0 {
		return p
	}
	recvUsed := false
	for j := range q.g.Kinds {
		if j == i || q.g.Kinds[j] == 'm' {
			continue
		}
		if q.rng.Float64() >= q.shadowP {
			continue
		}
		if q.g.Adj[i][j] {
			if q.rng.Intn(2) == 0 {
				p.block[j] = c17BlockBinders[q.rng.Intn(len(c17BlockBinders))]
				if q.rng.Intn(4) == 0 {
					p.block[j] = "usebefore"
				} else if q.g.Kinds[j] != 't' && q.rng.Intn(3) == 0 {
					p.block[j] = c17UseAfter[q.rng.Intn(len(c17UseAfter))]
				}
			}
			continue
		}
		switch r := q.rng.Intn(10); {
		case r < 4:
			p.whole[j] = c17WholeBinders[q.rng.Intn(2)]
		case r < 6 && q.g.Kinds[i] == 'm' && !recvUsed:
			p.whole[j] = "recv"
			recvUsed = true
		default:
			p.block[j] = c17BlockBinders[q.rng.Intn(len(c17BlockBinders))]
		}
	}
	return p
}

// body statements of a function-like declaration i; refs = targets to mention in the body
func (q *c17Rend) body(i int, refs []int, p c17Plan) []string {
	var st []string
	for _, j := range refs {
		if strings.HasPrefix(p.block[j], "useafter-") {
			// the statement built below holds the only reference
			st = append(st, q.wrap(q.useAfterStmt(j, p.block[j]), q.rng.Intn(2)))
			continue
		}
		st = append(st, q.wrap(q.stmtRef(j), q.rng.Intn(3)))
	}
	for j := range q.g.Kinds {
		if strings.HasPrefix(p.block[j], "useafter-") {
			continue
		}
		if _, ok := p.whole[j]; ok {
			n := q.g.Names[j]
			st = append(st, q.wrap(q.pick("_ = "+n, "println("+n+")", n+" = 2"), q.rng.Intn(3)))
		}
		if b, ok := p.block[j]; ok {
			st = append(st, q.wrap(q.shadowStmt(q.g.Names[j], b), q.rng.Intn(2)))
		}
	}
	if len(q.extern) > 0 && q.rng.Intn(2) == 0 {
		st = append(st, "_ = "+q.extern[q.rng.Intn(len(q.extern))])
	}
	q.rng.Shuffle(len(st), func(a, b int) { st[a], st[b] = st[b], st[a] })
	return st
}

func (q *c17Rend) decl(i int) (keyword, rest string) {
	g := q.g
	n := g.Names[i]
	var refs []int
	for j, b := range g.Adj[i] {
		if b {
			refs = append(refs, j)
		}
	}
	q.rng.Shuffle(len(refs), func(a, b int) { refs[a], refs[b] = refs[b], refs[a] })
	switch g.Kinds[i] {
	case 'c':
		typ := ""
		var terms []string
		for _, j := range refs {
			if g.Kinds[j] == 't' && typ == "" && q.rng.Intn(2) == 0 {
				typ = " " + g.Names[j]
				continue
			}
			terms = append(terms, q.constExpr(j))
		}
		if len(terms) == 0 {
			terms = []string{"1"}
		}
		return "const", n + typ + " = " + strings.Join(terms, " + ")
	case 't':
		if len(refs) == 0 {
			if len(g.Names) > 1 && q.rng.Intn(3) == 0 {
				// a field named like another declaration is not a reference to it
				o := g.Names[(i+1+q.rng.Intn(len(g.Names)-1))%len(g.Names)]
				if !strings.Contains(o, ".") {
					return "type", n + " struct{ " + o + " int }"
				}
			}
			return "type", n + " " + q.pick("int", "struct{}", "struct{ f int }", "[]int", "func()", "*"+n, "struct{ next *"+n+" }")
		}
		if len(refs) == 1 && q.rng.Intn(2) == 0 {
			return "type", n + " " + q.typeExpr(refs[0], q.rng.Intn(3))
		}
		var fs []string
		for k, j := range refs {
			fs = append(fs, fmt.Sprintf("f%d %s", k, q.typeExpr(j, q.rng.Intn(3))))
		}
		if q.rng.Intn(4) == 0 {
			fs = append(fs, "self *"+n)
		}
		return "type", n + " struct{ " + strings.Join(fs, "; ") + " }"
	case 'v':
		p := q.plan(i, true)
		typ := ""
		var terms []string
		var inBody []int
		for _, j := range refs {
			k := g.Kinds[j]
			if (k == 't' || k == 'c') && typ == "" && q.rng.Intn(3) == 0 {
				typ = " " + q.typeExpr(j, q.rng.Intn(3))
				continue
			}
			if q.rng.Intn(2) == 0 {
				inBody = append(inBody, j)
			} else {
				terms = append(terms, q.valueExpr(j))
			}
		}
		if len(inBody) > 0 || len(p.whole) > 0 || len(p.block) > 0 {
			var params, args, results []string
			for j, b := range p.whole {
				// whole-body binders of a function literal are its parameters and results
				if b == "param" {
					params = append(params, g.Names[j]+" int")
					args = append(args, "1")
				} else {
					results = append(results, g.Names[j]+" int")
				}
			}
			c17SortStrings(params)
			c17SortStrings(results)
			results = append(results, q.fresh("r")+" int")
			st := q.body(i, inBody, p)
			st = append(st, "return")
			lit := "func(" + strings.Join(params, ", ") + ") (" + strings.Join(results, ", ") + ") { " + strings.Join(st, "; ") + " }(" + strings.Join(args, ", ") + ")"
			terms = append(terms, lit)
		}
		if len(terms) == 0 {
			if typ != "" {
				return "var", n + typ
			}
			return "var", n + q.pick(" int", " = 1", " = \"s\"", " []int")
		}
		q.rng.Shuffle(len(terms), func(a, b int) { terms[a], terms[b] = terms[b], terms[a] })
		return "var", n + typ + " = " + strings.Join(terms, " + ")
	case 'f', 'm':
		p := q.plan(i, true)
		var params, results []string
		var inBody []int
		recvName := q.fresh("r")
		for _, j := range refs {
			k := g.Kinds[j]
			if g.Kinds[i] == 'm' && j == g.Recv[i] && q.rng.Intn(3) != 0 {
				continue // the receiver already mentions it
			}
			if (k == 't' || k == 'c') && q.rng.Intn(2) == 0 {
				if q.rng.Intn(3) == 0 {
					results = append(results, q.fresh("r")+" "+q.typeExpr(j, q.rng.Intn(3)))
				} else {
					params = append(params, q.fresh("p")+" "+q.typeExpr(j, q.rng.Intn(3)))
				}
				continue
			}
			inBody = append(inBody, j)
		}
		var wp, wr []string
		for j, b := range p.whole {
			switch b {
			case "param":
				wp = append(wp, g.Names[j]+" int")
			case "result":
				wr = append(wr, g.Names[j]+" int")
			case "recv":
				recvName = g.Names[j]
			}
		}
		c17SortStrings(wp)
		c17SortStrings(wr)
		params = append(params, wp...)
		results = append(results, wr...)
		st := q.body(i, inBody, p)
		if q.rng.Intn(5) == 0 && g.Kinds[i] == 'f' {
			st = append(st, "if false { "+n+"() }") // recursion is not a dependency
		}
		res := ""
		if len(results) > 0 {
			res = " (" + strings.Join(results, ", ") + ")"
		}
		sig := "(" + strings.Join(params, ", ") + ")" + res + " { " + strings.Join(st, "; ") + " }"
		if g.Kinds[i] == 'm' {
			recv := "Ext"
			if g.Recv[i] >= 0 {
				recv = g.Names[g.Recv[i]]
			}
			mname := n[strings.Index(n, ".")+1:]
			return "func", "(" + recvName + " " + q.pick("", "*") + recv + ") " + mname + sig
		}
		return "func", n + sig
	}
	panic("kind")
}

func c17SortStrings(s []string) {
	for i := 1; i < len(s); i++ {
		for j := i; j > 0 && s[j] < s[j-1]; j-- {
			s[j], s[j-1] = s[j-1], s[j]
		}
	}
}

// c17Render renders a graph as the text of one declaration run.
func c17Render(g *c17Graph, rng *rand.Rand, shadowP float64, group bool, extern []string) string {
	q := &c17Rend{g: g, rng: rng, shadowP: shadowP, group: group, extern: extern}
	var b strings.Builder
	n := len(g.Kinds)
	keyword := func(k byte) string {
		switch k {
		case 'c':
			return "const"
		case 't':
			return "type"
		case 'v':
			return "var"
		}
		return "func"
	}
	for i := 0; i < n; {
		kw, rest := q.decl(i)
		i++
		if group && kw != "func" && rng.Intn(3) == 0 {
			// group this spec with the following ones of the same keyword
			b.WriteString(kw + " (\n\t" + rest + "\n")
			for i < n && keyword(g.Kinds[i]) == kw && rng.Intn(3) != 0 {
				_, rest2 := q.decl(i)
				b.WriteString("\t" + rest2 + "\n")
				i++
			}
			b.WriteString(")\n")
			continue
		}
		b.WriteString(kw + " " + rest + "\n")
	}
	return strings.TrimSuffix(b.String(), "\n")
}

// method names carry the receiver; fix them once kinds, names and receivers are known
func (g *c17Graph) finishMethods() {
	for i, k := range g.Kinds {
		if k != 'm' {
			continue
		}
		recv := "Ext"
		if g.Recv[i] >= 0 {
			recv = g.Names[g.Recv[i]]
			g.Adj[i][g.Recv[i]] = true
		}
		g.Names[i] = recv + "." + g.Names[i]
	}
}

// c17EnumGraphs visits every kind-plausible dependency graph over n declarations whose cycles
// are either all types or all non-types, with at most maxEdges edges (forced receiver edges excluded).
func c17EnumGraphs(n, maxEdges int, visit func(g *c17Graph)) {
	placeholder := make([]string, n)
	for i := range placeholder {
		placeholder[i] = fmt.Sprintf("d%d", i)
	}
	kindsOf := []byte{'c', 't', 'v', 'f', 'm'}
	kinds := make([]byte, n)
	total := 1
	for i := 0; i < n; i++ {
		total *= 5
	}
	for code := 0; code < total; code++ {
		c := code
		var typeIdx []int
		for i := 0; i < n; i++ {
			kinds[i] = kindsOf[c%5]
			c /= 5
			if kinds[i] == 't' {
				typeIdx = append(typeIdx, i)
			}
		}
		type pair struct{ i, j int }
		var free []pair
		recv := make([]int, n)
		for i := 0; i < n; i++ {
			recv[i] = -1
			if kinds[i] == 'm' && len(typeIdx) > 0 {
				recv[i] = typeIdx[(i+code)%len(typeIdx)]
			}
		}
		for i := 0; i < n; i++ {
			for j := 0; j < n; j++ {
				if i != j && c17Plausible(kinds[i], kinds[j]) && recv[i] != j {
					free = append(free, pair{i, j})
				}
			}
		}
		for mask := 0; mask < 1<<uint(len(free)); mask++ {
			if maxEdges >= 0 && c17Popcount(mask) > maxEdges {
				continue
			}
			g := c17NewGraph(append([]byte{}, kinds...), placeholder)
			copy(g.Recv, recv)
			for b, p := range free {
				if mask>>uint(b)&1 == 1 {
					g.Adj[p.i][p.j] = true
				}
			}
			for i, rj := range recv {
				if rj >= 0 {
					g.Adj[i][rj] = true
				}
			}
			if c17Classify(g.tops(), g.edges()).mixedCycle {
				continue
			}
			visit(g)
		}
	}
}

func (g *c17Graph) clone() *c17Graph {
	h := c17NewGraph(append([]byte{}, g.Kinds...), append([]string{}, g.Names...))
	copy(h.Recv, g.Recv)
	for i := range g.Adj {
		copy(h.Adj[i], g.Adj[i])
	}
	return h
}

func c17Popcount(x int) int {
	c := 0
	for ; x != 0; x &= x - 1 {
		c++
	}
	return c
}

// c17RandomGraph builds a graph of n declarations: mostly acyclic along a hidden order, with
// optional type cycles and (when loop is set) one cycle of non-types.
func c17RandomGraph(rng *rand.Rand, n int, prefix string, typeCycles, loop bool) *c17Graph {
	kinds := make([]byte, n)
	names := make([]string, n)
	perm := rng.Perm(n)
	weights := "cccttttvvvvffffmm"
	for i := range kinds {
		kinds[i] = weights[rng.Intn(len(weights))]
		names[i] = fmt.Sprintf("%s%d", prefix, perm[i])
		if kinds[i] == 't' && rng.Intn(2) == 0 {
			names[i] = strings.ToUpper(prefix) + fmt.Sprint(perm[i])
		}
	}
	g := c17NewGraph(kinds, names)
	var typeIdx []int
	for i, k := range kinds {
		if k == 't' {
			typeIdx = append(typeIdx, i)
		}
	}
	for i, k := range kinds {
		if k == 'm' && len(typeIdx) > 0 && rng.Intn(4) != 0 {
			g.Recv[i] = typeIdx[rng.Intn(len(typeIdx))]
		}
	}
	hidden := rng.Perm(n)
	density := (0.8 + 2.2*rng.Float64()) / float64(n)
	for i := 0; i < n; i++ {
		for j := 0; j < n; j++ {
			if i == j || !c17Plausible(kinds[i], kinds[j]) {
				continue
			}
			if hidden[j] < hidden[i] && rng.Float64() < density {
				g.Adj[i][j] = true
			}
			if typeCycles && kinds[i] == 't' && kinds[j] == 't' && hidden[j] > hidden[i] && rng.Float64() < 2*density {
				g.Adj[i][j] = true
			}
		}
	}
	if loop {
		var nt []int
		for i, k := range kinds {
			if k == 'v' || k == 'f' {
				nt = append(nt, i)
			}
		}
		if len(nt) >= 2 {
			rng.Shuffle(len(nt), func(a, b int) { nt[a], nt[b] = nt[b], nt[a] })
			l := 2 + rng.Intn(3)
			if l > len(nt) {
				l = len(nt)
			}
			for k := 0; k < l; k++ {
				g.Adj[nt[k]][nt[(k+1)%l]] = true
			}
		}
	}
	g.finishMethods()
	// a receiver edge into a type never closes a cycle (nothing mentions a method); type->const->type
	// could: drop type->const edges until no mixed cycle is left
	for c17Classify(g.tops(), g.edges()).mixedCycle {
		for i, k := range kinds {
			if k == 't' {
				for j := range g.Adj[i] {
					if kinds[j] == 'c' {
						g.Adj[i][j] = false
					}
				}
			}
		}
	}
	return g
}
