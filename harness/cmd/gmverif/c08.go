package main

// C08 — composite data types and builtins.

import (
	"fmt"
	"math/rand"
	"strings"

	"gmverif/internal/fw"
)

func init() { register("C08", "exploration", checkC08) }

type c08Elem struct {
	T    string   // element type
	Decl string   // top-level declarations needed
	V    []string // at least 4 distinct values
	Cmp  bool     // comparable
}

func c08Elems() []c08Elem {
	return []c08Elem{
		{"int", "", []string{"1", "-2", "30", "0"}, true},
		{"string", "", []string{`"a"`, `"bc"`, `""`, `"é"`}, true},
		{"float64", "", []string{"1.5", "-0.25", "0", "3e10"}, true},
		{"uint8", "", []string{"1", "200", "0", "255"}, true},
		{"bool", "", []string{"true", "false", "true", "false"}, true},
		{"§S", "type §S struct { A int; B string }\n", []string{`§S{1, "x"}`, `§S{B: "y"}`, `§S{}`, `§S{-1, ""}`}, true},
		{"[]int", "", []string{"[]int{1, 2}", "nil", "[]int{}", "[]int{3}"}, false},
		{"*int", "var §i1, §i2 = 10, 20\n", []string{"&§i1", "nil", "&§i2", "&§i1"}, true},
		{"[2]int", "", []string{"[2]int{1, 2}", "[2]int{}", "[...]int{1: 5}", "[2]int{9, 9}"}, true},
		{"map[string]int", "", []string{`map[string]int{"a": 1}`, "nil", "map[string]int{}", `map[string]int{"b": 2, "c": 3}`}, false},
		{"interface{}", "", []string{"1", `"s"`, "nil", "2.5"}, true},
		{"complex128", "", []string{"1i", "2", "(1+2i)", "0"}, true},
	}
}

const c08RC = "func §rc(tag int) { if r := recover(); r != nil { rec(-tag, pcl(r)) } }\n"

// one scenario program per element type
func c08Scenarios(e c08Elem) map[string]string {
	T := e.T
	v := e.V
	R := strings.NewReplacer("T", T, "V0", v[0], "V1", v[1], "V2", v[2], "V3", v[3])
	sc := map[string]string{}
	sc["array-value"] = R.Replace(`
func §mod(a [3]T) [3]T { a[0] = V3; return a }
func §P() {
	a := [3]T{V0, V1, V2}
	b := a
	b[1] = V3
	c := §mod(a)
	pa := &a
	pa[2] = V3
	d := *pa
	d[0] = V1
	rec(1, a, b, c, d, len(a), cap(a))
	aa := [2][2]T{{V0, V1}, {V2, V3}}
	bb := aa
	bb[0][0] = V3
	row := aa[1]
	row[0] = V0
	rec(2, aa, bb, row)
	for i, x := range a { a[2-i] = x }
	rec(3, a)
	var z [2]T
	rec(4, z)
}`)
	sc["slice-alias"] = R.Replace(`
func §P() {
	s := make([]T, 2, 4)
	s[0], s[1] = V0, V1
	t := append(s, V2)
	u := append(s, V3)
	rec(1, s, t, u, len(t), cap(t))
	t[0] = V3
	rec(2, s, t, u)
	f := []T{V0, V1}
	g := append(f, V2)
	g[0] = V3
	rec(3, f, nc(g))
	h := f[:1]
	h = append(h, V2)
	rec(4, f, h)
	var n []T
	n = append(n, V0)
	n = append(n, V1, V2)
	n = append(n, f...)
	n = append(n)
	rec(5, nc(n), len(n))
	k := append([]T(nil), f...)
	k[0] = V2
	rec(6, f, nc(k), n == nil, []T(nil) == nil, len([]T(nil)), cap([]T(nil)))
	w := s[1:2]
	w = append(w, V3)
	rec(7, s[:4], w)
	x := s[1:2:2]
	x = append(x, V0)
	x[0] = V2
	rec(8, s[:4], nc(x))
}`)
	sc["copy"] = R.Replace(`
func §P() {
	s := []T{V0, V1, V2, V3}
	n := copy(s[1:], s)
	rec(1, n, s)
	s = []T{V0, V1, V2, V3}
	n = copy(s, s[1:])
	rec(2, n, s)
	d := make([]T, 2)
	n = copy(d, s)
	rec(3, n, d)
	n = copy(d, []T{})
	rec(4, n, d)
	var nl []T
	n = copy(nl, s)
	rec(5, n, nl)
	a := [3]T{V0, V1, V2}
	n = copy(a[:], s[2:])
	rec(6, n, a)
	bs := make([]byte, 3)
	n = copy(bs, "héllo")
	rec(7, n, bs)
	bs = append(bs, "xy"...)
	rec(8, nc(bs))
}`)
	sc["slicing"] = c08RC + R.Replace(`
func §s2(s []T, i, j int) { defer §rc(1); rec(1, i, j, s[i:j]) }
func §s3(s []T, i, j, k int) { defer §rc(2); rec(2, i, j, k, s[i:j:k]) }
func §a2(a *[4]T, i, j int) { defer §rc(3); rec(3, a[i:j], (*a)[i:j]) }
func §a3(a [4]T, i, j, k int) { defer §rc(4); rec(4, a[i:j:k]) }
func §lo(s []T, i int) { defer §rc(5); rec(5, s[i:], s[:i]) }
func §ix(s []T, a [4]T, p *[4]T, i int) { defer §rc(6); rec(6, s[i]); rec(7, a[i]); rec(8, p[i]) }
func §st(s []T, i int, v T) { defer §rc(9); s[i] = v; rec(9, s) }
func §P() {
	base := [6]T{V0, V1, V2, V3, V0, V1}
	s := base[1:4:5]
	arr := [4]T{V0, V1, V2, V3}
	idx := []int{-1, 0, 1, 2, 3, 4, 5, 6}
	for _, i := range idx {
		§lo(s, i)
		§ix(s, arr, &arr, i)
		§st(append([]T(nil), s...), i, V3)
		for _, j := range idx {
			§s2(s, i, j)
			§a2(&arr, i, j)
			for _, k := range idx {
				§s3(s, i, j, k)
				§a3(arr, i, j, k)
			}
		}
	}
	var nl []T
	rec(10, nl[0:0], nl[:], len(nl[0:0:0]))
}`)
	sc["string-slicing"] = c08RC + `
func §s2(s string, i, j int) { defer §rc(1); rec(1, i, j, s[i:j]) }
func §ix(s string, i int) { defer §rc(2); rec(2, s[i], s[i:], s[:i]) }
func §P() {
	s := "héllo"
	for i := -1; i <= 7; i++ {
		§ix(s, i)
		for j := -1; j <= 7; j++ { §s2(s, i, j) }
	}
	rec(3, len(s), len(""), s[1:3] == "\xc3\xa9", "abc"[1], "abc"[1:])
	const c = "const"
	rec(4, c[1], c[1:3], len(c))
}`
	if e.Cmp {
		sc["map-key"] = c08RC + R.Replace(`
func §wr(m map[T]int, k T) { defer §rc(1); m[k] = 7; rec(1, len(m)) }
func §P() {
	m := map[T]int{}
	m[V0] = 1
	m[V1] = 2
	m[V0] += 10
	x, ok := m[V2]
	y, ok2 := m[V0]
	rec(2, m, len(m), x, ok, y, ok2, m[V3])
	delete(m, V1)
	delete(m, V1)
	rec(3, m, len(m))
	var nm map[T]int
	z, ok3 := nm[V0]
	rec(4, z, ok3, len(nm), nm == nil)
	delete(nm, V0)
	§wr(nm, V0)
	§wr(m, V3)
	mm := map[T]map[T]int{V0: {V1: 1}}
	mm[V0][V2] = 5
	rec(5, mm, len(mm[V3]), mm[V3][V0])
	for k, v := range m { m[k] = v * 2 }
	rec(6, m)
}`)
	}
	sc["map-val"] = c08RC + R.Replace(`
func §P() {
	m := map[string]T{"a": V0, "b": V1}
	m["c"] = V2
	v, ok := m["z"]
	w, ok2 := m["a"]
	rec(1, m, v, ok, w, ok2, len(m))
	n := m
	n["a"] = V3
	rec(2, m["a"], len(n))
	mk := make(map[string]T, 10)
	mk["k"] = V1
	rec(3, mk, len(mk))
	ms := map[string][]T{"x": {V0}, "y": nil}
	ms["x"] = append(ms["x"], V1)
	ms["z"] = append(ms["z"], V2)
	rec(4, ms)
	mi := map[int]T{3: V0, -1: V1}
	delete(mi, 3)
	rec(5, mi)
	type key struct { a int; b string }
	mk2 := map[key]T{{1, "x"}: V0, {2, "y"}: V1}
	rec(6, mk2[key{1, "x"}], len(mk2))
}`)
	sc["struct-ptr"] = c08RC + R.Replace(`
type §W struct { F T; G []T; H map[string]T; N *§W2; I struct{ X T } }
type §W2 struct { F T; N *§W3 }
type §W3 struct { F T }
func §get(p *§W) { defer §rc(1); rec(1, p.F, p.I.X) }
func §deep(p *§W) { defer §rc(2); rec(2, p.N.N.F) }
func §P() {
	a := §W{F: V0, G: []T{V1}}
	b := a
	b.F = V2
	b.G[0] = V3
	rec(3, a.F, a.G, b.F, b.G)
	p := &a
	p.F = V1
	q := p
	q.I.X = V2
	(*q).G = append((*q).G, V0)
	rec(4, a.F, a.I, nc(a.G), p == q)
	n := new(§W)
	n.N = &§W2{F: V0}
	n.N.F = V3
	rec(5, a.F, n.F, n.H == nil, n.N.F, n.N.N == nil)
	§get(nil)
	§get(n)
	§deep(n)
	§deep(&§W{N: &§W2{N: &§W3{F: V1}}})
	pp := &p
	(*pp).F = V0
	(**pp).I.X = V1
	rec(6, a.F, a.I.X)
	np := new(T)
	*np = V2
	rec(7, *np)
	var zp *T
	func() { defer §rc(8); rec(8, *zp) }()
	func() { defer §rc(9); *zp = V0 }()
	arrp := &[2]§W{{F: V0}, {F: V1}}
	arrp[1].F = V2
	sl := []§W{{F: V0}}
	sl[0].F = V3
	rec(10, arrp[1].F, sl[0].F)
	m := map[string]*§W{"k": {F: V0}}
	m["k"].F = V1
	rec(11, m["k"].F)
}`)
	sc["make"] = c08RC + R.Replace(`
func §mk(n, c int) { defer §rc(1); s := make([]T, n, c); rec(1, len(s), cap(s), s) }
func §mk1(n int) { defer §rc(2); s := make([]T, n); rec(2, len(s), cap(s)) }
func §mm(n int) { defer §rc(3); m := make(map[string]T, n); rec(3, len(m)) }
func §mc(n int) { defer §rc(4); c := make(chan T, n); rec(4, len(c), cap(c)) }
func §P() {
	for _, n := range []int{-1, 0, 1, 3} {
		§mk1(n)
		§mm(n)
		§mc(n)
		for _, c := range []int{-1, 0, 1, 3, 5} { §mk(n, c) }
	}
	var n8 int8 = 3
	var u16 uint16 = 2
	rec(5, len(make([]T, n8)), cap(make([]T, u16, n8)), len(make([]T, 2.0)))
	rec(6, len(make(map[int]T)), cap(make(chan T)))
}`)
	sc["literals"] = R.Replace(`
type §P2 struct { X, Y int }
type §L struct { Name string; P §P2; Q *§P2; Ps []§P2; M map[string]§P2; E T }
func §P() {
	rec(1, [][]T{{V0}, {V1, V2}, nil, {}})
	rec(2, map[string][]T{"a": {V0}, "b": nil})
	rec(3, []*§P2{{1, 2}, {X: 3}, nil})
	rec(4, [...]T{2: V0, V1}, len([...]T{5: V2}))
	rec(5, []T{3: V0, 1: V1}, len([]T{3: V0, 1: V1}))
	rec(6, §L{Name: "n", P: §P2{1, 2}, Q: &§P2{Y: 5}, Ps: []§P2{{1, 1}, {Y: 2}}, M: map[string]§P2{"k": {7, 8}}, E: V3})
	rec(7, §L{}, §P2{}, &§P2{1, 2}, *&§P2{3, 4})
	rec(8, map[§P2]string{{1, 2}: "a", {3, 4}: "b"}[§P2{3, 4}])
	rec(9, [2][2]int{{1, 2}, {3}}, [][2]T{{V0, V1}, {1: V2}})
	rec(10, struct{ A T; B []T }{V0, []T{V1}}, []struct{ K string; V T }{{"a", V0}, {V: V1}})
	rec(11, map[string]map[string]T{"o": {"i": V0}}, []map[string]T{{"a": V1}, nil})
	const ci = 1
	rec(12, []T{ci: V0, ci + 1: V1}, [ci + 2]T{})
	rec(13, len([]T{}), len(map[string]T{}), [0]T{}, struct{}{})
	rec(14, []interface{}{1, "a", nil, []T{V0}, §P2{1, 2}, &§P2{}})
	rec(15, nc([]byte("ab")), nc([]rune("é")), [3]byte{'a', 2: 'c'}, []string{0: "x", 2: "z"})
}`)
	sc["builtins"] = c08RC + R.Replace(`
func §P() {
	s := []T{V0, V1}
	a := [3]T{}
	m := map[string]T{"a": V0}
	c := make(chan T, 3)
	c <- V0
	var ns []T
	var nm map[string]T
	var nc2 chan T
	var pa *[3]T
	rec(1, len(s), cap(s), len(a), cap(a), len(&a), cap(&a), len(m), len(c), cap(c), len("héy"))
	rec(2, len(ns), cap(ns), len(nm), len(nc2), cap(nc2), len(pa), cap(pa))
	s = append(s, s...)
	s = append(s[:1], s[2:]...)
	rec(3, nc(s))
	bs := append([]byte("ab"), "cd"...)
	bs = append(bs, 'e')
	rec(4, nc(bs))
	func() { defer §rc(5); close(nc2) }()
	close(c)
	func() { defer §rc(6); close(c) }()
	v, ok := <-c
	v2, ok2 := <-c
	rec(7, v, ok, v2, ok2)
	func() { defer §rc(8); var f func() T; rec(8, f()) }()
	x := [3]int{1, 2, 3}
	y := x
	rec(9, x == y, x != [3]int{1, 2, 4}, &x == &x, s == nil)
	type P struct{ a int; b string }
	rec(10, P{1, "a"} == P{1, "a"}, P{1, "a"} == P{1, "b"})
	var e1, e2 interface{} = 1, 1
	var e3 interface{} = "1"
	rec(11, e1 == e2, e1 == e3, e1 != nil)
	func() { defer §rc(12); var f1, f2 interface{} = []int{1}, []int{1}; rec(12, f1 == f2) }()
	func() { defer §rc(13); mk := map[interface{}]int{}; mk[[]int{1}] = 1 }()
	delete(m, "zz")
	delete(m, "a")
	rec(14, len(m))
	cp := complex(1, 2)
	rec(15, real(cp), imag(cp), real(complex64(cp)))
	fm := map[float64]int{}
	nan := 0.0
	nan = nan / nan
	fm[nan] = 1
	fm[nan] = 2
	_, okn := fm[nan]
	rec(16, len(fm), okn)
}`)
	return sc
}

// random op sequences over one slice and one map with bounds around the valid ranges
func c08Seq(id int, rng *rand.Rand) *Prog {
	var b strings.Builder
	b.WriteString(c08RC)
	b.WriteString("func §t(a, bb int) {\ndefer §rc(1)\nbase := [8]int{1, 2, 3, 4, 5, 6, 7, 8}\ns := base[2:5]\nt := s\nm := map[int]int{1: 1}\nvar ns []int\n_ = ns\nneg := -1\n_ = neg\n")
	n := 8 + rng.Intn(20)
	bnd := func() string {
		return []string{"0", "1", "2", "len(s)", "len(s)-1", "len(s)+1", "cap(s)", "cap(s)+1", "neg", "a", "bb", "len(t)"}[rng.Intn(12)]
	}
	for i := 0; i < n; i++ {
		switch rng.Intn(12) {
		case 0:
			fmt.Fprintf(&b, "s = append(s, %d)\n", i*10)
		case 1:
			fmt.Fprintf(&b, "s = s[%s:%s]\n", bnd(), bnd())
		case 2:
			fmt.Fprintf(&b, "s = s[%s:%s:%s]\n", bnd(), bnd(), bnd())
		case 3:
			fmt.Fprintf(&b, "s[%s] = %d\n", bnd(), i)
		case 4:
			fmt.Fprintf(&b, "t = s[%s:]\n", bnd())
		case 5:
			fmt.Fprintf(&b, "rec(%d, copy(s, t), copy(t[%s:], s))\n", 100+i, bnd())
		case 6:
			fmt.Fprintf(&b, "t = append(t[:%s], s...)\n", bnd())
		case 7:
			fmt.Fprintf(&b, "m[%s] = s[%s]\n", bnd(), bnd())
		case 8:
			fmt.Fprintf(&b, "delete(m, %s)\n", bnd())
		case 9:
			fmt.Fprintf(&b, "ns = append(ns, s[%s:%s]...)\n", bnd(), bnd())
		case 10:
			fmt.Fprintf(&b, "s = s[:%s]\n", bnd())
		default:
			fmt.Fprintf(&b, "rec(%d, nc(s), nc(t), len(s), len(t), m, base)\n", 200+i)
		}
	}
	b.WriteString("rec(999, nc(s), nc(t), m, nc(ns), base)\n}\n")
	b.WriteString("func §P() {\nfor a := 0; a < 4; a++ {\nfor bb := 2; bb < 5; bb++ {\n§t(a, bb)\n}\n}\n}\n")
	return &Prog{ID: fmt.Sprintf("c08-seq%d", id), Src: b.String(), Cell: "seq"}
}

func checkC08(r *fw.Run) {
	r.SetRule("scenario programs over non-recursive types (recursive types: documented limitation) (array value semantics, slice aliasing through append at len==cap and len<cap, overlapping copy, 2- and 3-index slicing of slices/arrays/*arrays/strings with every index triple in -1..cap+1, maps as key and value incl. nil maps, NaN keys, comma-ok, delete, structs/pointers/new/make with all argument shapes and negative or inverted sizes, nil dereference, composite literals keyed/positional/nested/elided/sparse/&T, builtins len cap append copy close delete complex real imag, comparisons incl. unhashable panics) instantiated for 12 element types, plus seeded random operation sequences over a slice and a map with bounds around the valid ranges; oracle = trace equality incl. panic class and position with compiled Go; distinct = distinct program texts")
	r.Assume("go/types + cmd/compile 1.23.5 (language go1.18); capacities of append/conversion results are rendered without cap where Go leaves them unspecified")
	o := e1Opts{}
	if p := fw.ReplayArg(); p != "" {
		e1ReplayFile(r, p, o)
		return
	}
	var progs []*Prog
	id := 0
	for _, e := range c08Elems() {
		for name, body := range c08Scenarios(e) {
			id++
			progs = append(progs, &Prog{ID: fmt.Sprintf("c08-%d", id), Src: e.Decl + body, Cell: name + "/" + e.T})
		}
	}
	rng := r.Rng("seq")
	for i := 0; i < r.Pick(600, 20000); i++ {
		progs = append(progs, c08Seq(i, rng))
	}
	r.Extra("programs", len(progs))
	e1Run(r, progs, o)
}
