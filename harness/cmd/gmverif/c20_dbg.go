package main

// `gmverif c20x <file> [classic]`: evaluate a file line by line in one interpreter and print every result
// (debug aid for C20; lines ending in '\' are joined).

import (
	"fmt"
	"os"
	"strings"

	"github.com/cosmos72/gomacro/classic"
	"github.com/cosmos72/gomacro/fast"
)

func init() {
	auxCmds["c20x"] = func(args []string) {
		data, err := os.ReadFile(args[0])
		if err != nil {
			panic(err)
		}
		c20RegisterAst()
		useClassic := len(args) > 1 && args[1] == "classic"
		var f *fast.Interp
		var c *classic.Interp
		if useClassic {
			c = classic.New()
		} else {
			f = fast.New()
		}
		src := strings.ReplaceAll(string(data), "\\\n", " ")
		for _, line := range strings.Split(src, "\n") {
			if strings.TrimSpace(line) == "" {
				continue
			}
			fmt.Printf(">>> %s\n", line)
			func() {
				defer func() {
					if e := recover(); e != nil {
						fmt.Printf("    PANIC: %v\n", e)
					}
				}()
				if useClassic {
					v, vs := c.Eval(line)
					fmt.Printf("    %v %v\n", c20DbgShow(v), vs)
				} else {
					vals, _ := f.Eval(line)
					for _, v := range vals {
						if v.IsValid() {
							fmt.Printf("    %v\n", c20DbgShow(v.ReflectValue()))
						}
					}
				}
			}()
		}
	}
}

func c20DbgShow(v interface {
	IsValid() bool
	CanInterface() bool
	Interface() interface{}
}) string {
	if !v.IsValid() || !v.CanInterface() {
		return "<invalid>"
	}
	x := v.Interface()
	return fmt.Sprintf("%v // %T", c20Show(x), x)
}
