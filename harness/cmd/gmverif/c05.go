package main

// C05 — statement control flow: random structured programs, every basic block records a trace event.

import (
	"fmt"
	"math/rand"
	"strings"

	"gmverif/internal/fw"
)

func init() { register("C05", "exploration", checkC05) }

type c05Gen struct {
	rng     *rand.Rand
	s       string
	block   int      // next block id
	nvars   int      // v0..v(nvars-1) int variables in scope (function level)
	labels  []string // enclosing labelled loops (usable by continue/break)
	swlabel []string // enclosing labelled switch/select (usable by break)
	inLoop  int
	inSw    int
	nlabel  int
	ntmp    int
	feat    map[string]int
	canRet  bool
	lpos    []int
}

func (g *c05Gen) w(format string, a ...interface{}) { g.s += fmt.Sprintf(format, a...) }

func (g *c05Gen) v() string { return fmt.Sprintf("v%d", g.rng.Intn(g.nvars)) }

func (g *c05Gen) tmp(p string) string { g.ntmp++; return fmt.Sprintf("%s%d", p, g.ntmp) }

// small int expression, never panics
func (g *c05Gen) expr(d int) string {
	r := g.rng
	if d <= 0 || r.Intn(3) == 0 {
		if r.Intn(2) == 0 {
			return g.v()
		}
		return fmt.Sprint(r.Intn(7) - 2)
	}
	switch r.Intn(7) {
	case 0:
		return "(" + g.expr(d-1) + " + " + g.expr(d-1) + ")"
	case 1:
		return "(" + g.expr(d-1) + " - " + g.expr(d-1) + ")"
	case 2:
		return "(" + g.expr(d-1) + " * " + fmt.Sprint(r.Intn(4)) + ")"
	case 3:
		return "(" + g.expr(d-1) + " % " + fmt.Sprint(2+r.Intn(5)) + ")"
	case 4:
		return "(" + g.expr(d-1) + " & " + fmt.Sprint(r.Intn(16)) + ")"
	case 5:
		return "(" + g.expr(d-1) + " >> 1)"
	}
	return "(" + g.expr(d-1) + " ^ " + g.v() + ")"
}

func (g *c05Gen) cond() string {
	op := []string{"<", "<=", ">", ">=", "==", "!="}[g.rng.Intn(6)]
	c := g.v() + " " + op + " " + g.expr(1)
	switch g.rng.Intn(6) {
	case 0:
		return c + " && " + g.expr(1) + " != 0"
	case 1:
		return c + " || " + g.v() + "%2 == 0"
	case 2:
		return "!(" + c + ")"
	}
	return c
}

func (g *c05Gen) rec() {
	g.block++
	vars := make([]string, g.nvars)
	for i := range vars {
		vars[i] = fmt.Sprintf("v%d", i)
	}
	g.w("rec(%d, %s)\n", g.block, strings.Join(vars, ", "))
}

func (g *c05Gen) fuel() { g.w("if fuel--; fuel < 0 { rec(-9); return%s }\n", g.retval()) }

func (g *c05Gen) retval() string {
	if g.canRet {
		return " v0"
	}
	return ""
}

func (g *c05Gen) stmts(depth int, n int) {
	for i := 0; i < n; i++ {
		g.stmt(depth)
	}
}

func (g *c05Gen) jump() {
	// a break / continue / return / goto-free jump valid at this point
	r := g.rng
	switch {
	case g.inLoop > 0 && r.Intn(3) == 0:
		g.feat["continue"]++
		if len(g.labels) > 0 && r.Intn(2) == 0 {
			g.feat["continue-label"]++
			g.w("continue %s\n", g.labels[r.Intn(len(g.labels))])
		} else {
			g.w("continue\n")
		}
	case (g.inLoop > 0 || g.inSw > 0) && r.Intn(2) == 0:
		g.feat["break"]++
		all := append(append([]string{}, g.labels...), g.swlabel...)
		if len(all) > 0 && r.Intn(2) == 0 {
			g.feat["break-label"]++
			g.w("break %s\n", all[r.Intn(len(all))])
		} else {
			g.w("break\n")
		}
	case r.Intn(4) == 0:
		g.feat["return"]++
		g.w("rec(-8, v0)\nreturn%s\n", g.retval())
	default:
		g.w("%s++\n", g.v())
	}
}

func (g *c05Gen) stmt(depth int) {
	r := g.rng
	if depth <= 0 {
		g.w("%s = %s\n", g.v(), g.expr(2))
		return
	}
	switch k := r.Intn(22); k {
	case 0, 1:
		g.w("%s = %s\n", g.v(), g.expr(2))
	case 2:
		g.w("%s %s %s\n", g.v(), []string{"+=", "-=", "^=", "|="}[r.Intn(4)], g.expr(1))
	case 3, 4: // if / else if / else, with optional init
		g.feat["if"]++
		if r.Intn(3) == 0 {
			t := g.tmp("t")
			g.feat["if-init"]++
			g.w("if %s := %s; %s > %d {\n", t, g.expr(2), t, r.Intn(3))
		} else {
			g.w("if %s {\n", g.cond())
		}
		g.rec()
		g.stmts(depth-1, 1+r.Intn(2))
		for j := r.Intn(3); j > 0; j-- {
			g.w("} else if %s {\n", g.cond())
			g.rec()
			g.stmts(depth-1, 1)
		}
		if r.Intn(2) == 0 {
			g.w("} else {\n")
			g.rec()
			g.stmts(depth-1, 1+r.Intn(2))
		}
		g.w("}\n")
	case 5, 6: // three-clause for
		g.feat["for3"]++
		lbl := g.maybeLabel(true)
		i := g.tmp("i")
		g.w("for %s := %d; %s < %d; %s++ {\n", i, r.Intn(2), i, 2+r.Intn(4), i)
		g.loopBody(depth, i, lbl)
	case 7: // for cond
		g.feat["for-cond"]++
		n := g.tmp("n")
		g.w("%s := %d\n", n, 2+r.Intn(4))
		lbl := g.maybeLabel(true)
		g.w("for %s > 0 {\n%s--\n", n, n)
		g.loopBody(depth, n, lbl)
	case 8: // for ever
		g.feat["for-ever"]++
		n := g.tmp("n")
		g.w("%s := 0\n", n)
		lbl := g.maybeLabel(true)
		g.w("for {\n%s++\nif %s > %d { break }\n", n, n, 2+r.Intn(3))
		g.loopBody(depth, n, lbl)
	case 9: // range over slice / array
		g.feat["range-slice"]++
		lbl := g.maybeLabel(true)
		i, x := g.tmp("i"), g.tmp("x")
		src := []string{"[]int{3, 1, 4, 1, 5}", "[4]int{2, 7, 1, 8}", "sl", "&arr"}[r.Intn(4)]
		switch r.Intn(4) {
		case 0:
			g.w("for %s, %s := range %s {\n%s += %s * %s\n", i, x, src, g.v(), i, x)
		case 1:
			g.w("for %s := range %s {\n", i, src)
		case 2:
			g.w("for _, %s := range %s {\n%s ^= %s\n", x, src, g.v(), x)
			i = x
		default:
			g.feat["range-assign"]++
			a, b := g.v(), g.v()
			if a == b {
				g.w("for %s = range %s {\n", a, src)
			} else {
				g.w("for %s, %s = range %s {\n", a, b, src)
			}
			i = a
		}
		g.loopBody(depth, i, lbl)
	case 10: // range over string
		g.feat["range-string"]++
		lbl := g.maybeLabel(true)
		i, c := g.tmp("i"), g.tmp("c")
		g.w("for %s, %s := range %s {\n%s += %s + int(%s)\n", i, c, []string{`"héy"`, `"a\xffb"`, `"世界x"`, "str"}[r.Intn(4)], g.v(), i, c)
		g.loopBody(depth, i, lbl)
	case 11: // range over map, commutative fold only
		g.feat["range-map"]++
		k, x := g.tmp("k"), g.tmp("x")
		acc := g.tmp("acc")
		g.w("%s := 0\nfor %s, %s := range mp {\n%s += %s*31 + %s\n}\n%s += %s\n", acc, k, x, acc, k, x, g.v(), acc)
	case 12: // range over channel
		g.feat["range-chan"]++
		ch, x := g.tmp("ch"), g.tmp("x")
		g.w("%s := make(chan int, 4)\n%s <- %s\n%s <- 7\n%s <- %s\nclose(%s)\n", ch, ch, g.expr(1), ch, ch, g.v(), ch)
		lbl := g.maybeLabel(true)
		g.w("for %s := range %s {\n%s += %s\n", x, ch, g.v(), x)
		g.loopBody(depth, x, lbl)
	case 13, 14: // expression switch
		g.feat["switch"]++
		lbl := g.maybeLabel(false)
		ncase := 1 + r.Intn(4)
		if r.Intn(4) == 0 {
			ncase = 8 + r.Intn(8) // many constant cases: binary-search / map dispatch
			g.feat["switch-many"]++
		}
		tagless := r.Intn(4) == 0
		hdr := "switch "
		initVar := ""
		if r.Intn(4) == 0 {
			t := g.tmp("t")
			initVar = t
			g.feat["switch-init"]++
			hdr += fmt.Sprintf("%s := %s; ", t, g.expr(1))
			if !tagless {
				hdr += t + " & 7 "
			}
		} else if !tagless {
			hdr += g.expr(2) + " "
		}
		g.w("%s{\n", hdr)
		g.inSw++
		_ = initVar
		var heads []string
		used := map[int]bool{}
		for c := 0; c < ncase; c++ {
			if tagless {
				if c == 0 && initVar != "" {
					heads = append(heads, fmt.Sprintf("case %s > %d:", initVar, r.Intn(3)))
				} else {
					heads = append(heads, "case "+g.cond()+":")
				}
				continue
			}
			var vals []string
			for j := 1 + r.Intn(2); j > 0; j-- {
				x := r.Intn(24) - 4
				if !used[x] {
					used[x] = true
					vals = append(vals, fmt.Sprint(x))
				}
			}
			if len(vals) == 0 {
				continue
			}
			if ncase < 8 && r.Intn(5) == 0 {
				vals = append(vals, g.v()) // non-constant case expression
			}
			heads = append(heads, "case "+strings.Join(vals, ", ")+":")
		}
		if r.Intn(3) != 0 || len(heads) == 0 {
			g.feat["default"]++
			at := r.Intn(len(heads) + 1)
			heads = append(heads[:at], append([]string{"default:"}, heads[at:]...)...)
		}
		for c, h := range heads {
			g.w("%s\n", h)
			g.rec()
			g.stmts(depth-1, r.Intn(2))
			if r.Intn(4) == 0 {
				g.jump()
			}
			if c < len(heads)-1 && r.Intn(4) == 0 {
				g.feat["fallthrough"]++
				g.w("fallthrough\n")
			}
		}
		g.inSw--
		g.w("}\n")
		g.popLabel(lbl, false)
	case 15: // type switch
		g.feat["type-switch"]++
		x := g.tmp("x")
		g.w("switch %s := ifs[(%s)&7].(type) {\ncase int:\n%s += %s\n", x, g.expr(1), g.v(), x)
		g.inSw++
		g.rec()
		g.w("case string, bool:\n_ = %s\n", x)
		g.rec()
		g.stmts(depth-1, 1)
		g.w("case nil:\n")
		g.rec()
		g.w("case []int:\n%s += len(%s)\n", g.v(), x)
		g.rec()
		if r.Intn(2) == 0 {
			g.w("case error:\n%s += len(%s.Error())\n", g.v(), x)
			g.rec()
		}
		if r.Intn(2) == 0 {
			g.w("default:\n")
			g.rec()
			g.stmts(depth-1, 1)
		}
		g.inSw--
		g.w("}\n")
	case 16: // select with a single ready case or default
		g.feat["select"]++
		ch := g.tmp("ch")
		g.w("%s := make(chan int, 1)\n", ch)
		switch r.Intn(4) {
		case 0:
			g.w("%s <- %s\nselect {\ncase x := <-%s:\n%s += x\n", ch, g.expr(1), ch, g.v())
			g.rec()
			g.w("}\n")
		case 1:
			g.w("select {\ncase x := <-%s:\n%s += x\ndefault:\n", ch, g.v())
			g.rec()
			g.w("}\n")
		case 2:
			g.w("select {\ncase %s <- %s:\n", ch, g.expr(1))
			g.rec()
			g.w("}\n%s += <-%s\n", g.v(), ch)
		default:
			g.w("close(%s)\nselect {\ncase x, ok := <-%s:\nif !ok { %s-- }\n%s += x\n", ch, ch, g.v(), g.v())
			g.rec()
			g.w("}\n")
		}
	case 17: // closures capturing loop variables (per-loop semantics before Go 1.22)
		g.feat["loopvar-closure"]++
		fs, i := g.tmp("fs"), g.tmp("i")
		g.w("var %s []func() int\nfor %s := 0; %s < 3; %s++ {\n%s = append(%s, func() int { return %s * 10 })\n}\nfor _, f := range %s {\n%s += f()\n}\n", fs, i, i, i, fs, fs, i, fs, g.v())
		x := g.tmp("x")
		g.w("%s = %s[:0]\nfor _, %s := range []int{5, 6, 7} {\n%s = append(%s, func() int { return %s })\n}\nfor _, f := range %s {\n%s += f()\n}\n", fs, fs, x, fs, fs, x, fs, g.v())
	case 18: // backward goto with fuel
		g.feat["goto"]++
		g.nlabel++
		l := fmt.Sprintf("G%d", g.nlabel)
		n := g.tmp("n")
		g.w("%s := 0\n%s:\n%s++\n", n, l, n)
		g.rec()
		g.w("%s += %s\nif %s < %d {\ngoto %s\n}\n", g.v(), n, n, 2+r.Intn(3), l)
	case 19: // nested block with shadowing
		g.feat["block-shadow"]++
		g.w("{\nv0 := v0 + 1\n")
		g.stmts(depth-1, 1+r.Intn(2))
		g.w("v1 += v0\n}\n")
	case 20: // closure call
		g.feat["closure"]++
		g.w("func() {\n")
		saveL, saveS, il, is := g.labels, g.swlabel, g.inLoop, g.inSw
		saveRet := g.canRet
		g.labels, g.swlabel, g.inLoop, g.inSw, g.canRet = nil, nil, 0, 0, false
		g.rec()
		g.stmts(depth-1, 1+r.Intn(2))
		g.labels, g.swlabel, g.inLoop, g.inSw, g.canRet = saveL, saveS, il, is, saveRet
		g.w("}()\n")
	default:
		g.jump()
	}
}

func (g *c05Gen) maybeLabel(loop bool) string {
	if g.rng.Intn(3) != 0 {
		return ""
	}
	g.nlabel++
	l := fmt.Sprintf("L%d", g.nlabel)
	g.lpos = append(g.lpos, len(g.s))
	if loop {
		g.labels = append(g.labels, l)
	} else {
		g.swlabel = append(g.swlabel, l)
	}
	return l
}

func (g *c05Gen) popLabel(l string, loop bool) {
	if l == "" {
		return
	}
	pos := g.lpos[len(g.lpos)-1]
	g.lpos = g.lpos[:len(g.lpos)-1]
	if strings.Contains(g.s[pos:], " "+l+"\n") {
		g.s = g.s[:pos] + l + ":\n" + g.s[pos:]
	}
	if loop {
		g.labels = g.labels[:len(g.labels)-1]
	} else {
		g.swlabel = g.swlabel[:len(g.swlabel)-1]
	}
}

func (g *c05Gen) loopBody(depth int, idx string, lbl string) {
	g.fuel()
	g.inLoop++
	g.w("_ = %s\n", idx)
	g.rec()
	g.stmts(depth-1, 1+g.rng.Intn(3))
	g.inLoop--
	g.w("}\n")
	g.popLabel(lbl, true)
}

func c05Prog(id int, rng *rand.Rand, feat map[string]int) *Prog {
	g := &c05Gen{rng: rng, nvars: 4, feat: feat}
	g.w("func §F(a, b int) int {\nfuel := 60\n_ = fuel\nv0, v1, v2, v3 := a, b, a+b, 1\n")
	g.w("sl := []int{a, 2, b}\nvar arr [3]int\narr[1] = b\nstr := \"xyz\"\nmp := map[int]int{1: a, 2: b, 5: 7}\n")
	g.w("ifs := []interface{}{1, \"s\", true, nil, []int{1, 2}, [2]int{3, 4}, 2.5, a}\n_, _, _, _, _ = sl, arr, str, mp, ifs\n")
	g.canRet = true
	g.rec()
	g.stmts(3+rng.Intn(2), 3+rng.Intn(5))
	g.rec()
	g.w("return v0 + v1 + v2 + v3\n}\n")
	g.w("func §P() {\nfor _, ab := range [][2]int{{0, 0}, {1, 2}, {-3, 5}, {7, -1}} {\nrec(0, §F(ab[0], ab[1]))\n}\n}\n")
	src := strings.ReplaceAll(g.s, "_, _, _, _, _ = sl, arr, str, mp, ifs", "_ = sl\n_ = arr\n_ = str\n_ = mp\n_ = ifs")
	return &Prog{ID: fmt.Sprintf("c05-%d", id), Src: src, Cell: "flow"}
}

func checkC05(r *fw.Run) {
	r.SetRule("seeded random structured programs (nesting depth <= 4) over if/else-if/else with init, the three for forms, range over slice/array/*array/string/map/channel with :=, = and partial variables, expression switches (tagless, init, >= 8 constant cases, non-constant cases, fallthrough, default in any position), type switches with multi-type cases and nil (no interpreted types stored in the interface: documented limitation), select with one ready case or default, labelled and unlabelled break/continue across loops and switches, backward goto, early return, blocks that shadow, closures capturing loop variables; every basic block starts with rec(blockId, all variables); each program runs on 4 input pairs; loops are bounded by construction plus a fuel counter; map ranges fold commutatively; oracle = equal block sequence and values vs compiled Go (language go1.18, per-loop variables); programs go/types rejects (unused label etc.) are dropped; distinct = distinct program texts with events")
	r.Assume("go/types + cmd/compile 1.23.5 with language version go1.18 give the reference control flow and the pre-1.22 loop variable semantics the property specifies")
	o := e1Opts{}
	if p := fw.ReplayArg(); p != "" {
		e1ReplayFile(r, p, o)
		return
	}
	rng := r.Rng("progs")
	n := r.Pick(1500, 15000)
	feat := map[string]int{}
	var progs []*Prog
	for i := 0; i < n; i++ {
		progs = append(progs, c05Prog(i, rng, feat))
	}
	r.Extra("features_generated", feat)
	e1Run(r, progs, o)
}
