package main

// C27 — reported source positions are exact across chunks and line offsets.
//
// Part A: generated multi-chunk sources (c27_gen.go) with error tokens / breakpoints at
// generator-known line:column, evaluated through EvalReader, EvalFile, the REPL loop
// (ReadParseEvalPrint), ParseEvalPrint on hand-made chunks and Eval; the position parsed
// from the error text (or seen by a fast.Debugger) is compared with the ground truth.
// Part B: random etoken.FileSet against an identically built go/token.FileSet.

import (
	"bufio"
	"fmt"
	"go/token"
	"io"
	"math/rand"
	"os"
	"path/filepath"
	"regexp"
	"runtime"
	"sort"
	"strconv"
	"strings"
	"sync"
	"time"

	"github.com/cosmos72/gomacro/base"
	"github.com/cosmos72/gomacro/fast"
	"github.com/cosmos72/gomacro/go/etoken"

	"gmverif/internal/fw"
)

func init() { register("C27", "exploration", checkC27) }

const (
	c27FindingLines  = "C27-repl-leading-comment-lines-twice"
	c27FindingColumn = "C27-evalreader-first-line-column"
)

var c27Modes = []string{"reader-trap", "reader-err", "file-trap", "file-err", "repl", "repl-reset", "pep", "eval"}

// ---------------------------------------------------------------- running one source

type c27Seen struct {
	File    string `json:"file"`
	Line    int    `json:"line"`
	Col     int    `json:"col"`
	Valid   bool   `json:"valid"`
	Break   bool   `json:"breakpoint,omitempty"`
	SrcLine string `json:"src_line,omitempty"`
	HasSrc  bool   `json:"has_src,omitempty"`
}

type c27Obs struct {
	Msgs        []string  `json:"msgs"`
	Ignored     []string  `json:"ignored,omitempty"`
	Stops       []c27Seen `json:"stops,omitempty"`
	ChunkStarts []int     `json:"chunk_starts,omitempty"` // repl-reset: lines consumed before each chunk
	File        string    `json:"file"`
	FinalLine   int       `json:"final_line"`
	Panic       string    `json:"panic,omitempty"`
}

// every Write is one message (gomacro prints each trapped error with a single Fprintf)
type c27Writer struct{ obs *c27Obs }

func (w c27Writer) Write(p []byte) (int, error) {
	s := string(p)
	if strings.HasPrefix(s, "// warning:") || strings.HasPrefix(s, "// debug:") {
		w.obs.Ignored = append(w.obs.Ignored, s)
	} else {
		w.obs.Msgs = append(w.obs.Msgs, strings.TrimSuffix(s, "\n"))
	}
	return len(p), nil
}

type c27Debugger struct{ obs *c27Obs }

func (d c27Debugger) see(ir *fast.Interp, env *fast.Env, brk bool) fast.DebugOp {
	s := c27Seen{Break: brk}
	if env.IP < len(env.DebugPos) {
		if p := env.DebugPos[env.IP]; p != token.NoPos {
			fs := ir.Comp.Globals.Fileset
			line, pos := fs.Source(p)
			s.File, s.Line, s.Col, s.Valid = pos.Filename, pos.Line, pos.Column, pos.IsValid()
			s.SrcLine, s.HasSrc = line, line != ""
		}
	}
	d.obs.Stops = append(d.obs.Stops, s)
	return fast.DebugOpStep
}
func (d c27Debugger) Breakpoint(ir *fast.Interp, env *fast.Env) fast.DebugOp {
	return d.see(ir, env, true)
}
func (d c27Debugger) At(ir *fast.Interp, env *fast.Env) fast.DebugOp { return d.see(ir, env, false) }

// a Readline that behaves like the tty one: one line per call, always '\n'-terminated
type c27Readline struct {
	lines []string
	next  int
}

func (r *c27Readline) Read(prompt string) ([]byte, error) {
	if r.next >= len(r.lines) {
		return nil, io.EOF
	}
	l := r.lines[r.next]
	r.next++
	return []byte(l + "\n"), nil
}

func c27Lines(text string) []string {
	ls := strings.Split(text, "\n")
	if ls[len(ls)-1] == "" {
		ls = ls[:len(ls)-1]
	}
	return ls
}

// c27Run evaluates src in interpreter ir through the given entry point.
func c27Run(ir *fast.Interp, src *c27Source, mode, fname string) (obs *c27Obs) {
	obs = &c27Obs{File: fname}
	g := &ir.Comp.Globals
	saveOut, saveErr, saveOpts, savePath, saveRl := g.Stdout, g.Stderr, g.Options, g.Filepath, g.Readline
	defer func() {
		g.Stdout, g.Stderr, g.Options, g.Filepath, g.Readline = saveOut, saveErr, saveOpts, savePath, saveRl
		obs.FinalLine = g.Line
	}()
	g.Stdout, g.Stderr = io.Discard, c27Writer{obs}
	g.Options |= base.OptTrapPanic
	if src.Debugger {
		g.Options |= base.OptDebugger
	} else {
		g.Options &^= base.OptDebugger
	}
	ir.SetDebugger(c27Debugger{obs})
	text := src.Text
	switch mode {
	case "reader-trap", "reader-err":
		g.Filepath = fname
		if mode == "reader-err" {
			g.Options &^= base.OptTrapPanic
		}
		if _, err := ir.EvalReader(strings.NewReader(text)); err != nil {
			obs.Msgs = append(obs.Msgs, err.Error())
		}
	case "file-trap", "file-err":
		if mode == "file-err" {
			g.Options &^= base.OptTrapPanic
		}
		if err := os.WriteFile(fname, []byte(text), 0o644); err != nil {
			panic(err)
		}
		if _, err := ir.EvalFile(fname); err != nil {
			obs.Msgs = append(obs.Msgs, err.Error())
		}
		os.Remove(fname)
	case "repl":
		// what Interp.Repl does, minus the signal handler
		g.Filepath = fname
		g.Line = 0
		g.Readline = base.MakeBufReadline(bufio.NewReader(strings.NewReader(text)))
		for ir.ReadParseEvalPrint() {
		}
	case "repl-reset":
		// what Interp.ReplStdin does: the line counter restarts at every input
		g.Filepath = fname
		rl := &c27Readline{lines: c27Lines(text)}
		g.Readline = rl
		for {
			g.Line = 0
			obs.ChunkStarts = append(obs.ChunkStarts, rl.next)
			if !ir.ReadParseEvalPrint() {
				break
			}
		}
	case "pep":
		g.Filepath = fname
		g.Line = 0
		text = strings.Replace(text, "#!", "//", 1)
		for i, off := range src.ChunkOff {
			end := len(text)
			if i+1 < len(src.ChunkOff) {
				end = src.ChunkOff[i+1]
			}
			ir.ParseEvalPrint(text[off:end])
		}
	case "eval":
		g.Filepath = fname
		g.Line = 0
		text = strings.Replace(text, "#!", "//", 1)
		func() {
			defer func() {
				if rec := recover(); rec != nil {
					if err, ok := rec.(error); ok {
						obs.Msgs = append(obs.Msgs, err.Error())
					} else {
						obs.Msgs = append(obs.Msgs, fmt.Sprint(rec))
					}
				}
			}()
			ir.Eval(text)
		}()
	default:
		panic("c27: unknown mode " + mode)
	}
	return obs
}

// ---------------------------------------------------------------- oracle

var c27PosRe = regexp.MustCompile(`^([^\s:][^\s:]*):(\d+):(\d+): `)

func c27ParsePos(msg string) (file string, line, col int, ok bool) {
	m := c27PosRe.FindStringSubmatch(msg)
	if m == nil {
		return "", 0, 0, false
	}
	line, _ = strconv.Atoi(m[2])
	col, _ = strconv.Atoi(m[3])
	return m[1], line, col, true
}

type c27Step struct {
	Src   *c27Source `json:"src"`
	Mode  string     `json:"mode"`
	Fname string     `json:"fname"`
}

type c27Replay struct {
	Steps []c27Step `json:"steps"`
	Step  int       `json:"step"` // the step the discrepancy was seen in
	Obs   *c27Obs   `json:"observed,omitempty"`
}

type c27Judge struct {
	r      *fw.Run
	replay c27Replay
	print  bool
}

// chunkStartFor: number of lines consumed before the chunk that holds absolute line l (repl-reset only)
func c27ChunkStartFor(starts []int, l int) int {
	best := 0
	for _, s := range starts {
		if s < l && s > best {
			best = s
		}
	}
	return best
}

// predicted line shift of defect c27FindingLines for a position inside statement item `item`
func c27LeadShift(src *c27Source, mode string, item int) int {
	sum := 0
	switch mode {
	case "reader-trap", "reader-err", "file-trap", "file-err":
		for i := 1; i <= item; i++ { // the first chunk is cut by EvalReader itself, correctly as far as lines go
			sum += src.LeadNL[i]
		}
	case "repl":
		for i := 0; i <= item; i++ {
			sum += src.LeadNL[i]
		}
	case "repl-reset":
		sum = src.LeadNL[item]
	}
	return sum
}

// comparePos judges one reported position against the acceptable ground-truth offsets.
// returns "ok", a finding id, or "bad"
func (j *c27Judge) comparePos(st c27Step, obs *c27Obs, item int, accept []int, file string, line, col int) (verdict, want string) {
	src, mode := st.Src, st.Mode
	text := src.Text
	var wants []string
	shift := c27LeadShift(src, mode, item)
	ft := c27FirstToken(text)
	ftLine, ftCol := 0, 0
	if ft >= 0 {
		ftLine, ftCol = c27LineCol(text, ft)
	}
	verdict = "bad"
	for _, off := range accept {
		tl, tc := c27LineCol(text, off)
		abs := tl
		if mode == "repl-reset" {
			tl -= c27ChunkStartFor(obs.ChunkStarts, abs)
		}
		wants = append(wants, fmt.Sprintf("%s:%d:%d", st.Fname, tl, tc))
		if file != st.Fname {
			continue
		}
		if line == tl && col == tc {
			return "ok", wants[len(wants)-1]
		}
		if shift > 0 && line == tl+shift && col == tc {
			verdict = c27FindingLines
		}
		if strings.HasPrefix(mode, "reader") || strings.HasPrefix(mode, "file") {
			if abs == ftLine && ftCol > 1 && line == tl && col == tc-(ftCol-1) {
				verdict = c27FindingColumn
			}
		}
	}
	return verdict, strings.Join(wants, " | ")
}

func (j *c27Judge) report(verdict string, st c27Step, obs *c27Obs, what string) {
	rep := j.replay
	rep.Obs = obs
	what = fmt.Sprintf("mode=%s %s\n source=%q", st.Mode, what, fw.Clip(st.Src.Text, 400))
	switch verdict {
	case c27FindingLines, c27FindingColumn:
		j.r.Known(verdict, rep, what)
	default:
		j.r.Violation(verdict, rep, what)
	}
}

// judge compares everything observed for one step. Returns false when the generator's
// expectations about the number of messages were not met (no verdict possible).
func (j *c27Judge) judge(stepIdx int, st c27Step, obs *c27Obs) bool {
	r, src, mode := j.r, st.Src, st.Mode
	j.replay.Step = stepIdx
	text := src.Text
	var want []*c27Site
	for i := range src.Sites {
		if src.Sites[i].HasMsg {
			want = append(want, &src.Sites[i])
		}
	}
	single := mode == "reader-err" || mode == "file-err" || mode == "eval"
	if single && len(want) > 1 {
		want = want[:1]
	}
	if j.print {
		fmt.Printf("replay step %d mode=%s file=%s\n--- source ---\n%s\n--- observed messages ---\n", stepIdx, mode, st.Fname, text)
		for _, m := range obs.Msgs {
			fmt.Printf("  %s\n", m)
		}
		for _, s := range obs.Stops {
			fmt.Printf("  debugger stop: %+v\n", s)
		}
	}
	// pair the messages with the sites in order. A site whose message must carry a position skips
	// position-less messages in front of it (they say nothing about positions; counted and sampled).
	msgs, mi := obs.Msgs, 0
	stray := func(m string) {
		r.Count("stray_positionless_messages", 1)
		r.Extra("stray_positionless_message_sample", map[string]interface{}{"mode": mode, "source": text, "msgs": obs.Msgs})
	}
	problem := func(why string) {
		r.Count("unexpected_message_count", 1)
		r.Cover("unexpected_by_mode", mode+"/"+src.Sites[0].Kind+"/"+src.Sites[0].Wrap)
		r.Extra("unexpected_message_sample", map[string]interface{}{"why": why, "mode": mode, "source": text, "msgs": obs.Msgs, "expected": len(want)})
	}
	for i, site := range want {
		if site.Class != "panic" && site.Class != "debug" {
			for mi < len(msgs) {
				if _, _, _, ok := c27ParsePos(msgs[mi]); ok {
					break
				}
				stray(msgs[mi])
				mi++
			}
		}
		if mi >= len(msgs) {
			problem("no message for site " + strconv.Itoa(i))
			return false
		}
		msg := msgs[mi]
		mi++
		file, line, col, ok := c27ParsePos(msg)
		r.Cover("mode_x_class", mode+"/"+site.Class)
		if !ok {
			r.Cover("message_without_position", site.Kind)
			if j.print {
				fmt.Printf("site %d (%s): message carries no position\n", i, site.Kind)
			}
			continue
		}
		accept, item := site.Accept, site.Item
		if mode == "eval" {
			// one compile unit: declarations are sorted before compiling, any site may be the first to fail
			accept = nil
			for _, s := range src.Sites {
				accept = append(accept, s.Accept...)
			}
		}
		r.Eval(1)
		verdict, wanted := j.comparePos(st, obs, item, accept, file, line, col)
		tl := 0
		if len(accept) > 0 {
			tl, _ = c27LineCol(text, accept[0])
		}
		if tl > 1 || item > 0 {
			r.Distinct(fmt.Sprintf("A|%s|%s|%d", mode, fw.Hash(text), i))
		}
		r.Cover("kind", site.Kind)
		r.Cover("wrap", site.Wrap)
		r.Cover("earlier_statement_items", c27Bucket(item))
		r.Cover("true_line", c27Bucket(tl))
		if verdict != "bad" && !site.Exact && mode != "eval" {
			for k, off := range site.Accept {
				l, c := c27LineCol(text, off)
				if mode == "repl-reset" {
					l -= c27ChunkStartFor(obs.ChunkStarts, l)
				}
				if c == col {
					r.Cover("reported_token_index", fmt.Sprintf("%s#%d", site.Kind, k))
				}
			}
		}
		r.Cover("verdict", verdict)
		if j.print {
			fmt.Printf("site %d (%s in %s): reported %s:%d:%d, ground truth %s => %s\n", i, site.Kind, site.Wrap, file, line, col, wanted, verdict)
		}
		if verdict != "ok" {
			j.report(verdict, st, obs, fmt.Sprintf("site %d (%s in %s): reported %s:%d:%d, ground truth %s; message %q", i, site.Kind, site.Wrap, file, line, col, wanted, fw.Clip(msg, 200)))
		}
	}
	for ; mi < len(msgs); mi++ {
		if _, _, _, ok := c27ParsePos(msgs[mi]); ok {
			problem("message with a position that belongs to no site")
			return false
		}
		stray(msgs[mi])
	}
	// debugger stops
	for _, site := range src.Sites {
		if mode == "eval" && len(src.Sites) > 1 {
			break // one compile unit: the second site's compile error prevents any execution
		}
		if site.Class != "debug" {
			continue
		}
		var stops []c27Seen
		for _, s := range obs.Stops {
			if s.Valid {
				stops = append(stops, s)
			}
		}
		if len(stops) < len(site.Stops) {
			r.Count("debugger_stops_missing", 1)
			r.Cover("stops_missing_by_mode", mode)
			r.Extra("debugger_stops_missing_sample", map[string]interface{}{"mode": mode, "source": text, "stops": obs.Stops})
			continue
		}
		for k, s := range stops {
			var exp c27Stop
			if k < len(site.Stops) {
				exp = site.Stops[k]
			} else {
				// stops after the function returned: not specified here, only counted
				r.Cover("debugger_stop", "valid-position-after-return")
				r.Extra("debugger_stop_after_return_sample", map[string]interface{}{"mode": mode, "source": text, "stop": s})
				continue
			}
			r.Eval(1)
			r.Cover("mode_x_class", mode+"/debug")
			r.Cover("debugger_stop", exp.What)
			verdict, wanted := j.comparePos(st, obs, site.Item, exp.Accept, s.File, s.Line, s.Col)
			r.Distinct(fmt.Sprintf("A|%s|%s|stop%d", mode, fw.Hash(text), k))
			r.Cover("verdict", verdict)
			if j.print {
				fmt.Printf("debugger stop %d (%s): reported %s:%d:%d, ground truth %s => %s\n", k, exp.What, s.File, s.Line, s.Col, wanted, verdict)
			}
			if verdict != "ok" {
				j.report(verdict, st, obs, fmt.Sprintf("debugger stop %d (%s): reported %s:%d:%d, ground truth %s", k, exp.What, s.File, s.Line, s.Col, wanted))
			}
			if (s.Break) != (exp.What == "breakpoint") && k < len(site.Stops) {
				j.report("debugger-stop-kind", st, obs, fmt.Sprintf("debugger stop %d: breakpoint=%v, expected %s", k, s.Break, exp.What))
			}
			// source line shown by the debugger (File.Source): at the reported column it must show the token
			if s.HasSrc && k < len(site.Stops) {
				r.Eval(1)
				r.Cover("debugger_stop", "source-line")
				good := false
				var rests []string
				for _, off := range exp.Accept {
					rest := text[off:]
					if nl := strings.IndexByte(rest, '\n'); nl >= 0 {
						rest = rest[:nl]
					}
					rests = append(rests, rest)
					if s.Col >= 1 && s.Col-1 <= len(s.SrcLine) && s.SrcLine[s.Col-1:] == rest {
						good = true
					}
				}
				if !good {
					j.report("debugger-source-line", st, obs, fmt.Sprintf("debugger stop %d: Source() line %q column %d, the token and the rest of its line are one of %q", k, s.SrcLine, s.Col, rests))
				}
			}
		}
	}
	return true
}

func c27Bucket(n int) string {
	switch {
	case n <= 3:
		return strconv.Itoa(n)
	case n <= 7:
		return "4-7"
	case n <= 15:
		return "8-15"
	case n <= 31:
		return "16-31"
	}
	return "32+"
}

// runSteps evaluates the steps in one fresh interpreter and judges each.
func (j *c27Judge) runSteps(steps []c27Step) {
	j.replay = c27Replay{Steps: steps}
	ir := fast.New()
	for i, st := range steps {
		obs := c27Run(ir, st.Src, st.Mode, st.Fname)
		j.judge(i, st, obs)
	}
}

// ---------------------------------------------------------------- check

func checkC27(r *fw.Run) {
	r.SetRule("Part A: sources = random fillers (blank lines, // and /* */ comments, #! header) + 0-6 valid statement items (multi-line raw strings, functions, composites, operators at line end) + one error construct (27 kinds: undefined identifier/type, 15 type errors, 4 syntax errors, 3 run-time panics, or a breakpoint function with single-stepping) in one of 9 wrappers, optionally a second undefined identifier after the failed chunk; each source is fed through EvalReader and EvalFile (errors trapped and returned), the REPL loop with the buffered and a tty-like Readline (line counter running / reset per input), ParseEvalPrint on hand-made chunks, Eval, and 2-3 sources in a row through one interpreter. Distinct = (source, entry point, site) with the site not on line 1 of the first statement. Oracle = file:line:col parsed from the message (or seen by a fast.Debugger through Fileset.Source) equals the byte-offset ground truth of the offending token (for multi-token constructs: of one of its tokens). Part B: random etoken.FileSet (1-8 files, explicit/automatic bases with gaps, sizes 0-400, line tables by SetLinesForContent/AddLine/SetLines, //line infos, offsets 0-10^6) vs an identically built go/token.FileSet at NoPos, file bounds, gaps and random positions; distinct = (file set, position)")
	r.Assume("the generator's byte-offset arithmetic (line = 1+count of \\n, column = 1+bytes since \\n, go/token's documented convention) is the ground truth; the generated statement items are complete statements, so the REPL reader ends a chunk with each")
	r.Assume("go/token.FileSet of the Go toolchain is the reference for Part B")

	if p := fw.ReplayArg(); p != "" {
		var rep c27Replay
		if err := fw.LoadReplay(p, &rep); err != nil {
			panic(err)
		}
		r.SetMinDistinct(0)
		if len(rep.Steps) == 0 {
			c27ReplayB(r, p)
			return
		}
		dir := fw.WorkDir("c27-replay")
		defer os.RemoveAll(dir)
		for i := range rep.Steps {
			if strings.HasPrefix(rep.Steps[i].Mode, "file") {
				rep.Steps[i].Fname = filepath.Join(dir, filepath.Base(rep.Steps[i].Fname))
			}
		}
		j := &c27Judge{r: r, print: true}
		j.runSteps(rep.Steps)
		return
	}

	dir := fw.WorkDir("c27")
	defer os.RemoveAll(dir)
	t0 := time.Now()
	nA := r.Pick(1000, 20000)
	nHist := r.Pick(200, 3000)
	baseSeed := r.Rng("partA").Int63()
	histSeed := r.Rng("history").Int63()
	fname := func(rng *rand.Rand, mode string, id string) string {
		if strings.HasPrefix(mode, "file") {
			return filepath.Join(dir, "f"+id+".gomacro")
		}
		return []string{"repl.go", "in_" + id + ".go", "some/dir/x" + id + ".gomacro", "stdin"}[rng.Intn(4)]
	}
	type job struct {
		hist bool
		i    int
	}
	jobs := make(chan job, 64)
	var wg sync.WaitGroup
	var sampled int32
	var mu sync.Mutex
	for w := 0; w < runtime.NumCPU(); w++ {
		wg.Add(1)
		go func() {
			defer wg.Done()
			for jb := range jobs {
				if !jb.hist {
					rng := rand.New(rand.NewSource(baseSeed + int64(jb.i)*7919))
					src := c27Gen(rng, "p")
					for _, f := range src.Features {
						r.Cover("feature", f)
					}
					for _, mode := range c27Modes {
						j := &c27Judge{r: r}
						j.runSteps([]c27Step{{src, mode, fname(rng, mode, fmt.Sprintf("%d_%s", jb.i, mode))}})
					}
					mu.Lock()
					if sampled < 3 {
						sampled++
						r.Sample(map[string]interface{}{"part": "A", "source": src.Text, "sites": src.Sites})
					}
					mu.Unlock()
				} else {
					rng := rand.New(rand.NewSource(histSeed + int64(jb.i)*104729))
					var steps []c27Step
					hm := []string{"reader-trap", "file-trap", "repl", "pep", "repl-reset"}
					for k, n := 0, 2+rng.Intn(2); k < n; k++ {
						mode := hm[rng.Intn(len(hm))]
						steps = append(steps, c27Step{c27Gen(rng, fmt.Sprintf("h%d", k)), mode, fname(rng, mode, fmt.Sprintf("h%d_%d", jb.i, k))})
					}
					r.Cover("feature", "history-of-sources-in-one-interpreter")
					j := &c27Judge{r: r}
					j.runSteps(steps)
				}
			}
		}()
	}
	for i := 0; i < nA; i++ {
		jobs <- job{false, i}
	}
	for i := 0; i < nHist; i++ {
		jobs <- job{true, i}
	}
	close(jobs)
	wg.Wait()
	r.Extra("part_a_wall_s", time.Since(t0).Seconds())
	if n := r.Counter("unexpected_message_count"); n > 0 {
		r.Inconclusive(fmt.Sprintf("generator problem: %d runs printed a number of error messages different from the number of error sites (see unexpected_message_sample)", n))
	}
	if n := r.Counter("debugger_stops_missing"); n > 0 {
		r.Inconclusive(fmt.Sprintf("generator problem: %d breakpoint sources produced fewer debugger stops than statements (see debugger_stops_missing_sample)", n))
	}

	c27PartB(r)
}

// ---------------------------------------------------------------- Part B: etoken.FileSet vs token.FileSet

type c27FileSpec struct {
	Name    string  `json:"name"`
	Base    int     `json:"base"` // -1 = automatic
	Size    int     `json:"size"`
	Offset  int     `json:"offset"` // starting line offset
	Table   string  `json:"table"`  // none | content | addline | setlines
	Content string  `json:"content,omitempty"`
	Lines   []int   `json:"lines,omitempty"`
	Infos   [][]int `json:"infos,omitempty"` // offset, line, col
	Source  bool    `json:"source"`          // SetSourceForContent(Content)
}

type c27BReplay struct {
	Files []c27FileSpec `json:"files"`
	Pos   int           `json:"pos"`
	Upto  int           `json:"upto"` // number of files added when the query was made
	What  string        `json:"what"`
}

func c27GenFile(rng *rand.Rand, k int) c27FileSpec {
	f := c27FileSpec{Name: fmt.Sprintf("file%d.go", k), Base: -1}
	f.Size = []int{0, 1, rng.Intn(8), rng.Intn(60), rng.Intn(400)}[rng.Intn(5)]
	f.Offset = []int{0, 0, 1, rng.Intn(10), rng.Intn(1000), rng.Intn(1000000)}[rng.Intn(6)]
	var sb strings.Builder
	for sb.Len() < f.Size {
		if rng.Intn(5) == 0 {
			sb.WriteByte('\n')
		} else {
			sb.WriteByte("abc xyz()é"[rng.Intn(9)])
		}
	}
	f.Content = sb.String()[:f.Size]
	switch rng.Intn(5) {
	case 0:
		f.Table = "none"
	case 1, 2:
		f.Table = "content"
		f.Source = rng.Intn(2) == 0
	case 3:
		f.Table = "addline"
		for o := 0; o < f.Size; o++ {
			if rng.Intn(7) == 0 {
				f.Lines = append(f.Lines, o)
			}
		}
	case 4:
		f.Table = "setlines"
		f.Lines = []int{0}
		for o := 1; o < f.Size; o++ {
			if rng.Intn(9) == 0 {
				f.Lines = append(f.Lines, o)
			}
		}
	}
	if f.Table != "none" && !f.Source && rng.Intn(4) == 0 {
		for n := 1 + rng.Intn(3); n > 0 && f.Size > 0; n-- {
			f.Infos = append(f.Infos, []int{rng.Intn(f.Size), 1 + rng.Intn(500), rng.Intn(3)})
		}
		sort.Slice(f.Infos, func(a, b int) bool { return f.Infos[a][0] < f.Infos[b][0] })
	}
	return f
}

type c27Pair struct {
	efs *etoken.FileSet
	tfs *token.FileSet
	ef  []*etoken.File
	tf  []*token.File
}

func (p *c27Pair) add(f c27FileSpec) {
	ef := p.efs.AddFile(f.Name, f.Base, f.Size, f.Offset)
	tf := p.tfs.AddFile(f.Name, f.Base, f.Size)
	switch f.Table {
	case "content":
		ef.SetLinesForContent([]byte(f.Content))
		tf.SetLinesForContent([]byte(f.Content))
	case "addline":
		for _, o := range f.Lines {
			ef.AddLine(o)
			tf.AddLine(o)
		}
	case "setlines":
		ef.SetLines(f.Lines)
		tf.SetLines(f.Lines)
	}
	for _, in := range f.Infos {
		ef.AddLineColumnInfo(in[0], "other.go", in[1], in[2])
		tf.AddLineColumnInfo(in[0], "other.go", in[1], in[2])
	}
	if f.Source {
		ef.SetSourceForContent([]byte(f.Content))
	}
	p.ef = append(p.ef, ef)
	p.tf = append(p.tf, tf)
}

// c27CheckPos compares everything the two file sets say about position pos; returns "" or a description.
func (p *c27Pair) check(files []c27FileSpec, pos token.Pos) string {
	tfile := p.tfs.File(pos)
	efile := p.efs.File(pos)
	if (tfile == nil) != (efile == nil) {
		return fmt.Sprintf("File(%d): etoken nil=%v, token nil=%v", pos, efile == nil, tfile == nil)
	}
	off := 0
	var spec *c27FileSpec
	if tfile != nil {
		if efile.Name() != tfile.Name() || efile.Base() != tfile.Base() || efile.Size() != tfile.Size() {
			return fmt.Sprintf("File(%d): etoken %s/%d/%d, token %s/%d/%d", pos, efile.Name(), efile.Base(), efile.Size(), tfile.Name(), tfile.Base(), tfile.Size())
		}
		for i := range p.tf {
			if p.tf[i] == tfile {
				spec = &files[i]
				off = spec.Offset
				if p.ef[i] != efile {
					return fmt.Sprintf("File(%d): etoken returned a different *File than AddFile did for %s", pos, spec.Name)
				}
			}
		}
	}
	for _, adjusted := range []bool{true, false} {
		want := p.tfs.PositionFor(pos, adjusted)
		if want.IsValid() {
			want.Line += off
		}
		if got := p.efs.PositionFor(pos, adjusted); got != want {
			return fmt.Sprintf("FileSet.PositionFor(%d, %v) = %+v, token.FileSet shifted by %d = %+v", pos, adjusted, got, off, want)
		}
		if efile != nil {
			if got := efile.PositionFor(pos, adjusted); got != want {
				return fmt.Sprintf("File.PositionFor(%d, %v) = %+v, token.File shifted by %d = %+v", pos, adjusted, got, off, want)
			}
		}
	}
	want := p.tfs.Position(pos)
	if want.IsValid() {
		want.Line += off
	}
	if got := p.efs.Position(pos); got != want {
		return fmt.Sprintf("FileSet.Position(%d) = %+v, token.FileSet shifted by %d = %+v", pos, got, off, want)
	}
	if efile != nil {
		if got := efile.Position(pos); got != want {
			return fmt.Sprintf("File.Position(%d) = %+v, want %+v", pos, got, want)
		}
	}
	// Source: the text of the line holding pos, when the source was recorded
	line, spos := p.efs.Source(pos)
	if spos != want {
		return fmt.Sprintf("FileSet.Source(%d) position = %+v, want %+v", pos, spos, want)
	}
	wantLine := ""
	if spec != nil && spec.Source && want.IsValid() {
		ls := strings.Split(spec.Content, "\n")
		if k := want.Line - off; k >= 1 && k <= len(ls) {
			wantLine = ls[k-1]
		}
	}
	if line != wantLine {
		return fmt.Sprintf("FileSet.Source(%d) line = %q, want %q (position %+v)", pos, line, wantLine, want)
	}
	return ""
}

func c27BuildAndCheck(r *fw.Run, files []c27FileSpec, rng *rand.Rand, only *c27BReplay) {
	p := &c27Pair{efs: etoken.NewFileSet(), tfs: token.NewFileSet()}
	for k := range files {
		f := files[k]
		if f.Base >= 0 && f.Base < p.tfs.Base() {
			f.Base = p.tfs.Base() // keep AddFile's precondition
		}
		files[k] = f
		p.add(f)
		for _, adj := range []bool{true, false} {
			// a File asked about NoPos answers with the zero Position, offset or not
			r.Eval(1)
			if got, want := p.ef[k].PositionFor(token.NoPos, adj), p.tf[k].PositionFor(token.NoPos, adj); got != want {
				r.Violation("file-nopos", c27BReplay{Files: files[:k+1], Upto: k + 1, What: "File.PositionFor(NoPos)"}, fmt.Sprintf("File.PositionFor(NoPos, %v) = %+v, token.File says %+v", adj, got, want))
			}
		}
		if p.efs.Base() != p.tfs.Base() {
			r.Violation("fileset-base", c27BReplay{Files: files[:k+1], Upto: k + 1, What: "Base()"}, fmt.Sprintf("after adding %d files Base() = %d, token.FileSet %d", k+1, p.efs.Base(), p.tfs.Base()))
		}
		if only != nil {
			if only.Upto == k+1 {
				d := p.check(files, token.Pos(only.Pos))
				fmt.Printf("replay: position %d with %d files: %s\n etoken: %+v\n token:  %+v (file offset applies to Line)\n", only.Pos, k+1, map[bool]string{true: "agree", false: d}[d == ""], p.efs.Position(token.Pos(only.Pos)), p.tfs.Position(token.Pos(only.Pos)))
				if d != "" {
					r.Violation("fileset-position", *only, d)
				}
				r.Eval(1)
			}
			continue
		}
		setKey := fw.Hash(fmt.Sprintf("%v", files[:k+1]))
		// query after every addition: NoPos, bounds of every file, gaps, random positions
		var qs []int
		qs = append(qs, 0, p.tfs.Base(), p.tfs.Base()+1+rng.Intn(100))
		for i := 0; i <= k; i++ {
			b, s := p.tf[i].Base(), p.tf[i].Size()
			qs = append(qs, b, b+s, b+s+1, b-1, b+1)
			for n := 0; n < 6 && s > 0; n++ {
				qs = append(qs, b+rng.Intn(s+1))
			}
			for _, o := range files[i].Lines {
				if rng.Intn(4) == 0 {
					qs = append(qs, b+o, b+o-1+0)
				}
			}
		}
		for _, q := range qs {
			if q < 0 {
				continue
			}
			d := p.check(files, token.Pos(q))
			r.Eval(1)
			tf := p.tfs.File(token.Pos(q))
			if tf != nil {
				for i := range p.tf {
					if p.tf[i] == tf && (files[i].Offset > 0 || k > 0) {
						r.Distinct(fmt.Sprintf("B|%s|%d", setKey, q))
						r.Cover("fileset_table", files[i].Table)
						r.Cover("fileset_line_offset", c27Bucket(files[i].Offset))
						if len(files[i].Infos) > 0 {
							r.Cover("fileset_table", "with-line-infos")
						}
						if files[i].Source {
							r.Cover("fileset_table", "with-source")
						}
					}
				}
			} else {
				r.Cover("fileset_table", "position-outside-any-file")
			}
			if d != "" {
				r.Violation("fileset-position", c27BReplay{Files: append([]c27FileSpec{}, files[:k+1]...), Pos: q, Upto: k + 1, What: d}, d)
			}
		}
	}
}

func c27PartB(r *fw.Run) {
	rng := r.Rng("partB")
	n := r.Pick(4000, 80000)
	for c := 0; c < n; c++ {
		nf := 1 + rng.Intn(8)
		files := make([]c27FileSpec, nf)
		for k := range files {
			files[k] = c27GenFile(rng, k)
			if rng.Intn(3) == 0 {
				files[k].Base = 1 << 30 // replaced by "current Base() + gap" below
			}
		}
		// explicit bases: resolve against the running Base()
		base := 1
		for k := range files {
			if files[k].Base >= 0 {
				files[k].Base = base + rng.Intn(40)
				base = files[k].Base
			}
			base += files[k].Size + 1
		}
		if c < 2 {
			r.Sample(map[string]interface{}{"part": "B", "files": files})
		}
		c27BuildAndCheck(r, files, rng, nil)
	}
}

func c27ReplayB(r *fw.Run, path string) {
	var rep c27BReplay
	if err := fw.LoadReplay(path, &rep); err != nil {
		panic(err)
	}
	c27BuildAndCheck(r, rep.Files, rand.New(rand.NewSource(1)), &rep)
}
