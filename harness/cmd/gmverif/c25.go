package main

// C25 - printing a syntax tree with the forked printer and reparsing it yields the same tree, and
// printing the reparsed tree yields the same text.
//
// Printing is done the way the interpreter does it: output.Stringer.Sprintf("%v", node), i.e.
// go/printer.Config{Mode: UseSpaces|TabIndent, Tabwidth: 8}.Fprint with the tree's own file set
// (base/output/output.go nodeToPrintable). The second print (of the reparsed tree) calls the forked
// printer.Config.Fprint directly with the same configuration.
//
// Workload (corpus files are parsed by the STANDARD parser, without comments, as the interpreter's
// parser mode has no ParseComments; files that use type parameters are skipped)
//   W1 corpus file: the whole *ast.File; every top-level declaration on its own; a seeded 1-in-25
//      sample of inner statements and expressions on their own
//   W2 every top-level declaration after fast.Comp.MacroExpandNodeCodewalk (no ParenExpr left, bare
//      statements re-wrapped by ast2's Set)
//   W3 the same declarations with every position removed (trees as a macro would build them by hand)
//   W4 gomacro sources parsed by the fork parser (quote family, #[...] generics); trees holding a
//      macro declaration, a ~func declaration statement or a {block} expression are outside the
//      property (not valid Go, not built from valid Go): counted and skipped (c25OutOfScope)
//   W5 macroexpansions of sources calling helper macros; W6 values of random quasiquote templates
//   W7 corpus file parsed WITH comments, whole file (thorough tier and replay only; informative,
//      see c25Comments)
//
// Oracle. text1 = print(T); T2 = parse(text1) with the STANDARD parser (file / "package p"+decl /
// statement inside "func _() {}" / clause inside switch or select / ParseExpr, chosen by T's static
// kind) or, when T contains gomacro extension nodes, with the fork parser configured as the
// interpreter does. Required: parse succeeds; T2 == T structurally (c22_diff.go) where
//   - positions, comments, *ast.Object are ignored,
//   - ParenExpr nodes are transparent on both sides (the printer removes redundant ones - doubled
//     parentheses, parentheses around if/for/switch header expressions - and must add the ones
//     precedence requires; a lost or misplaced NECESSARY pair changes the shape of the tree below it
//     and is therefore still detected),
//   - explicit empty statements in statement lists are dropped on both sides (the printer omits them
//     on purpose, go/printer issue 3466),
//   - EmptyStmt.Implicit (whether the semicolon of an empty statement was written) is ignored,
//   - for macro-built trees an IfStmt.Else that is a bare statement equals the block holding it;
// and print(T2) == text1: byte for byte for plain Go trees whose positions come from one source text
// (W1 file and declarations) or that have no positions (W3); as the same token sequence (go/scanner;
// a comma or semicolon in front of a closing bracket dropped) for macro-built trees, whose positions
// are a mixture (W2, W5, W6), and for trees with extension nodes (W4: the printer always spreads a
// quote body over several lines, whatever the source looked like). For an inner statement or expression
// printed on its own only the tree comparison is a verdict.

import (
	"bytes"
	"fmt"
	"go/ast"
	"go/parser"
	"go/scanner"
	"go/token"
	"os"
	"reflect"
	"runtime"
	"runtime/debug"
	"strings"
	"sync"

	"github.com/cosmos72/gomacro/base/output"
	"github.com/cosmos72/gomacro/go/etoken"
	"github.com/cosmos72/gomacro/go/printer"

	"gmverif/internal/fw"
)

func init() { register("C25", "exploration", checkC25) }

const (
	c25FindingHeaderLit  = "C25-header-composite-literal-printed-without-parentheses"
	c25FindingRecvChan   = "C25-recv-chan-type-printed-without-parentheses"
	c25FindingFuncTail   = "C25-conversion-to-type-ending-in-func-printed-without-parentheses"
	c25FindingStarBinary = "C25-star-of-binary-expression-printed-without-parentheses"
	c25FindingLabelSemi  = "C25-final-label-after-empty-statement-second-print-differs"
	c25Repaired          = " (known shape repaired)"
)

var c25Config = printer.Config{Mode: printer.UseSpaces | printer.TabIndent, Tabwidth: 8}

type c25Replay struct {
	Kind     string       `json:"kind"` // file | core | ext | expand-src | qq
	Path     string       `json:"path,omitempty"`
	What     string       `json:"what,omitempty"` // which tree of the file
	Src      string       `json:"src,omitempty"`
	Bindings []c21Binding `json:"bindings,omitempty"`
	Text1    string       `json:"printed,omitempty"`
	Text2    string       `json:"reprinted,omitempty"`
}

type c25Checker struct {
	r       *fw.Run
	st      *c22Stats
	verbose bool
	only    string           // replay: restrict to the tree with this c25Replay.What
	cases   map[string]int64 // workload -> round trips
}

func newC25Checker(r *fw.Run) *c25Checker {
	return &c25Checker{r: r, st: newC22Stats(), cases: map[string]int64{}}
}

// c25Print prints node as the interpreter does
func c25Print(fset *etoken.FileSet, node interface{}) (text string, err string) {
	defer func() {
		if e := recover(); e != nil {
			err = fmt.Sprintf("printer panic: %v", e)
		}
	}()
	st := output.Stringer{Fileset: fset}
	return st.Sprintf("%v", node), ""
}

// c25PrintDirect calls the forked printer itself
func c25PrintDirect(fset *etoken.FileSet, node interface{}) (text string, err string) {
	defer func() {
		if e := recover(); e != nil {
			err = fmt.Sprintf("printer panic: %v", e)
		}
	}()
	var buf bytes.Buffer
	if e := c25Config.Fprint(&buf, &fset.FileSet, node); e != nil {
		return "", "printer error: " + e.Error()
	}
	return buf.String(), ""
}

// how a printed text is parsed back
const (
	c25AsFile    = "file"
	c25AsDecl    = "declaration"
	c25AsStmt    = "statement"
	c25AsCase    = "case clause"
	c25AsComm    = "comm clause"
	c25AsExpr    = "expression"
	c25AsFork    = "fork parser"
	c25AsNothing = ""
)

func c25How(node interface{}) string {
	switch node.(type) {
	case *ast.EmptyStmt:
		return c25AsNothing // prints as nothing
	case *ast.File, ast.Decl, ast.Stmt, ast.Expr:
	default:
		return c25AsNothing // a Spec, Field, ... has no syntax of its own
	}
	if why := c22HasExtension(node); why != "" {
		switch n := node.(type) {
		case *ast.CaseClause, *ast.CommClause:
			return c25AsFork + " (clause)"
		case ast.Expr:
			_ = n
			return c25AsFork + " (expression)"
		case *ast.BlockStmt:
			for _, s := range n.List {
				switch s.(type) {
				case *ast.CaseClause, *ast.CommClause:
					return c25AsFork + " (block of clauses)"
				}
			}
		}
		return c25AsFork
	}
	switch node.(type) {
	case *ast.File:
		return c25AsFile
	case *ast.CaseClause:
		return c25AsCase
	case *ast.CommClause:
		return c25AsComm
	case ast.Decl:
		return c25AsDecl
	case ast.Stmt:
		return c25AsStmt
	case ast.Expr:
		return c25AsExpr
	}
	return c25AsNothing
}

// c25Reparse parses text back. The result is what must equal the original: a node, or for the fork
// parser a list of nodes.
func c25Reparse(text, how string, mode parser.Mode) (node interface{}, fset *etoken.FileSet, err string) {
	fset = etoken.NewFileSet()
	mode |= parser.SkipObjectResolution
	switch how {
	case c25AsFile:
		f, e := parser.ParseFile(&fset.FileSet, "printed.go", text, mode)
		if e != nil {
			return nil, fset, e.Error()
		}
		return f, fset, ""
	case c25AsDecl:
		f, e := parser.ParseFile(&fset.FileSet, "printed.go", "package p\n"+text+"\n", mode)
		if e != nil {
			return nil, fset, e.Error()
		}
		if len(f.Decls) != 1 {
			return nil, fset, fmt.Sprintf("%d declarations instead of 1", len(f.Decls))
		}
		return f.Decls[0], fset, ""
	case c25AsStmt, c25AsCase, c25AsComm:
		pre, post := "package p\nfunc _() {\n", "\n}\n"
		switch how {
		case c25AsCase:
			pre, post = pre+"switch {\n", "\n}"+post
		case c25AsComm:
			pre, post = pre+"select {\n", "\n}"+post
		}
		f, e := parser.ParseFile(&fset.FileSet, "printed.go", pre+text+post, mode)
		if e != nil {
			return nil, fset, e.Error()
		}
		list := f.Decls[0].(*ast.FuncDecl).Body.List
		switch how {
		case c25AsCase:
			list = list[0].(*ast.SwitchStmt).Body.List
		case c25AsComm:
			list = list[0].(*ast.SelectStmt).Body.List
		}
		if len(list) != 1 {
			return nil, fset, fmt.Sprintf("%d statements instead of 1", len(list))
		}
		return list[0], fset, ""
	case c25AsExpr:
		x, e := parser.ParseExprFrom(&fset.FileSet, "printed.go", text, mode)
		if e != nil {
			return nil, fset, e.Error()
		}
		return x, fset, ""
	case c25AsFork + " (clause)", c25AsFork + " (block of clauses)":
		// clauses are only readable inside a quoted block
		src := "~quote{\n" + text + "\n}"
		if how == c25AsFork+" (block of clauses)" {
			src = "~quote" + text
		}
		nodes, fs, e := c22ForkParse(src)
		if e != "" {
			return nil, fs, e
		}
		var body *ast.BlockStmt
		if len(nodes) == 1 {
			if u, ok := nodes[0].(*ast.UnaryExpr); ok {
				if fl, ok := u.X.(*ast.FuncLit); ok {
					body = fl.Body
				}
			}
		}
		if body == nil {
			return nil, fs, "quoted clauses did not parse to a quote"
		}
		if how == c25AsFork+" (block of clauses)" {
			return body, fs, ""
		}
		if len(body.List) != 1 {
			return nil, fs, fmt.Sprintf("%d statements instead of 1", len(body.List))
		}
		return body.List[0], fs, ""
	case c25AsFork + " (expression)":
		// read it in parentheses: at the start of a statement "func" would begin a declaration
		nodes, fs, e := c22ForkParse("(" + text + ")")
		if e != "" {
			return nil, fs, e
		}
		if len(nodes) == 1 {
			if p, ok := nodes[0].(*ast.ParenExpr); ok {
				return p.X, fs, ""
			}
		}
		return nil, fs, "parenthesised expression did not parse to a ParenExpr"
	case c25AsFork:
		nodes, fs, e := c22ForkParse(text)
		if e != "" {
			return nil, fs, e
		}
		if len(nodes) != 1 {
			return nil, fs, fmt.Sprintf("%d top-level nodes instead of 1", len(nodes))
		}
		return nodes[0], fs, ""
	}
	return nil, fset, "no way to parse this kind of node back"
}

// c25Unwrap removes the statement wrappers of expressions and declarations at the root (the fork
// parser returns a bare expression / declaration where a quasiquote value may hold the wrapped one)
func c25Unwrap(x interface{}) interface{} {
	switch n := x.(type) {
	case *ast.ExprStmt:
		return n.X
	case *ast.DeclStmt:
		return n.Decl
	}
	return x
}

// roundTrip applies the oracle to one tree. built = tree built by the macro machinery.
func (c *c25Checker) roundTrip(workload string, node interface{}, fset *etoken.FileSet, built bool, rep c25Replay, label string) bool {
	return c.roundTrip2(workload, node, fset, built, true, rep, label)
}

// roundTrip2: fixpoint = also require the second print to equal the first
func (c *c25Checker) roundTrip2(workload string, node interface{}, fset *etoken.FileSet, built, fixpoint bool, rep c25Replay, label string) bool {
	r := c.r
	if c.only != "" && rep.What != c.only {
		return true
	}
	if shape := c25OutOfScope(node); shape != "" {
		// gomacro-only syntax that is neither valid Go nor built from valid Go: outside the property
		r.Count("outside the property (not a verdict): tree with "+shape, 1)
		return true
	}
	how := c25How(node)
	if how == c25AsNothing {
		c.st.skipped[fmt.Sprintf("no standalone syntax for %T", node)]++
		return true
	}
	if built {
		if why := c25Malformed(node); why != "" {
			c.st.skipped["macro-built tree that no source text denotes ("+why+")"]++
			return true
		}
	}
	c.cases[workload]++
	r.Eval(1)
	fail := func(tag, what string) bool {
		if id := c25Classify(tag, what, node, rep); id != "" {
			r.Known(id, rep, label+": "+what)
		} else {
			if os.Getenv("C22_DEBUG") != "" {
				fmt.Printf("DEBUG %s: %s: %s\n", tag, label, fw.Clip(what, 1500))
			}
			r.Violation(tag, rep, label+": "+what)
		}
		return false
	}
	text1, perr := c25Print(fset, node)
	if perr != "" {
		return fail("print-panic", perr)
	}
	rep.Text1 = text1
	back, fset2, perr := c25Reparse(text1, how, 0)
	if c.verbose {
		fmt.Printf("---- %s [%s, reparsed as %s]\n%s\n", label, workload, how, text1)
	}
	ext := strings.HasPrefix(how, c25AsFork)
	opt := c22Opt{IgnoreComments: true, StripParens: true, DropEmpty: true, IgnoreImplicit: true, WrapElse: built}
	var d string
	if perr == "" {
		a, b := node, back
		if ext || built {
			a, b = c25Unwrap(a), c25Unwrap(b)
		}
		d = c22Diff(a, b, opt)
	}
	if (perr != "" || d != "") && built && !strings.HasSuffix(workload, c25Repaired) {
		// known shapes: the macroexpander removed a ParenExpr that the printer does not put back.
		// Recognised by restoring exactly those parentheses (c25Reparenthesise) and requiring the
		// repaired tree to pass the whole oracle; anything else stays a violation.
		if shapes := c25Reparenthesise(node); len(shapes) != 0 {
			if c.roundTrip2(workload+c25Repaired, node, fset, built, fixpoint, rep, label+" with the lost parentheses restored") {
				why := perr
				if why == "" {
					why = "reparsed tree differs at " + d
				}
				for id, n := range shapes {
					c.st.flags["built: "+id] += int64(n)
					r.Known(id, rep, fmt.Sprintf("%s: %s (%d places); printed text: %s", label, why, n, fw.Clip(text1, 300)))
				}
			}
			return false
		}
	}
	if perr != "" {
		return fail("reparse-fails", fmt.Sprintf("printed text does not parse back as %s: %s; printed text: %s", how, perr, fw.Clip(text1, 300)))
	}
	if d != "" {
		return fail("tree-differs", fmt.Sprintf("reparsed tree differs from the printed one at %s; printed text: %s", d, fw.Clip(text1, 300)))
	}
	r.Eval(1)
	text2, perr := c25PrintDirect(fset2, back)
	if perr != "" {
		return fail("reprint-panic", perr)
	}
	if text2 != text1 && ext && c25SameTokens(text1, text2) {
		c.st.skipped["tree with extension nodes: second print differs in layout only (same tokens; not a verdict)"]++
		return true
	}
	if text2 != text1 && built && workload != "W3 position-free declaration" && c25SameTokens(text1, text2) {
		// a macro-built tree mixes positions of different origins (ast2.ToBlockStmt gives a synthetic
		// block the positions of its only statement, quasiquote splices trees of other lines): line
		// breaks and trailing commas follow those positions, the token sequence must not change
		c.st.skipped["macro-built tree: second print differs in layout only (same tokens; not a verdict)"]++
		return true
	}
	if text2 != text1 && !fixpoint {
		c.st.skipped["inner node printed on its own: second print differs (layout taken from the enclosing file's lines; not a verdict)"]++
		return true
	}
	if text2 != text1 && !strings.HasSuffix(workload, c25Repaired) {
		// known shape (inherited from go/printer, still in Go 1.23): stmtList counts only non-empty
		// statements when it decides whether a statement is the last one before the closing brace, so
		// "L:" at the end of a block that also holds an explicit empty statement gets a ";" in the first
		// print and none in the second. Recognised by removing those empty statements (which the
		// printer drops anyway) and requiring the whole oracle to pass.
		if n := c25DropEmptiesBeforeFinalLabel(node); n != 0 {
			if c.roundTrip2(workload+c25Repaired, node, fset, built, fixpoint, rep, label+" without the explicit empty statements") {
				r.Known(c25FindingLabelSemi, rep, fmt.Sprintf("%s: printing the reparsed tree gives a different text: %s", label, c25FirstDiff(text1, text2)))
			}
			return false
		}
	}
	if text2 != text1 {
		rep.Text2 = text2
		if c.verbose {
			fmt.Printf("---- reprinted:\n%s\n", text2)
		}
		return fail("not-idempotent", fmt.Sprintf("printing the reparsed tree gives a different text: %s", c25FirstDiff(text1, text2)))
	}
	return true
}

// c25SameTokens: the two texts scan (standard go/scanner) to the same token sequence once a comma or
// semicolon directly in front of a closing bracket is dropped; semicolons compare equal whether written
// or inserted at a line end
func c25SameTokens(a, b string) bool {
	ta, tb := c25Tokens(a), c25Tokens(b)
	if len(ta) != len(tb) {
		return false
	}
	for i := range ta {
		if ta[i] != tb[i] {
			return false
		}
	}
	return true
}

func c25Tokens(text string) []string {
	var sc scanner.Scanner
	fset := token.NewFileSet()
	sc.Init(fset.AddFile("", fset.Base(), len(text)), []byte(text), func(token.Position, string) {}, 0)
	var out []string
	for {
		_, tok, lit := sc.Scan()
		if tok == token.EOF {
			break
		}
		if tok == token.RPAREN || tok == token.RBRACK || tok == token.RBRACE {
			for n := len(out); n > 0 && (out[n-1] == ";" || out[n-1] == ","); n = len(out) {
				out = out[:n-1]
			}
		}
		switch {
		case tok == token.SEMICOLON:
			out = append(out, ";")
		case tok.IsLiteral() || tok == token.ILLEGAL:
			out = append(out, tok.String()+" "+lit)
		default:
			out = append(out, tok.String())
		}
	}
	for n := len(out); n > 0 && out[n-1] == ";"; n = len(out) {
		out = out[:n-1]
	}
	return out
}

func c25FirstDiff(a, b string) string {
	la, lb := strings.Split(a, "\n"), strings.Split(b, "\n")
	for i := 0; i < len(la) || i < len(lb); i++ {
		var x, y string
		if i < len(la) {
			x = la[i]
		}
		if i < len(lb) {
			y = lb[i]
		}
		if x != y {
			return fmt.Sprintf("line %d: %q vs %q", i+1, fw.Clip(x, 120), fw.Clip(y, 120))
		}
	}
	return "same"
}

// c25Classify maps a failure to a known-finding id ("" = none)
func c25Classify(tag, what string, node interface{}, rep c25Replay) string {
	return ""
}

// ---------------------------------------------------------------------------------------------

// c25ZeroPos clears every position of the tree in place, keeping the validity of the meaningful ones
func c25ZeroPos(x interface{}) {
	c25zero(reflect.ValueOf(x))
}

func c25zero(v reflect.Value) {
	for v.IsValid() && v.Kind() == reflect.Interface {
		if v.IsNil() {
			return
		}
		v = v.Elem()
	}
	if !v.IsValid() {
		return
	}
	t := v.Type()
	switch t {
	case c22TypObject, c22TypScope, c22TypCommentGroup, c22TypCommentList:
		return
	}
	switch v.Kind() {
	case reflect.Ptr:
		if !v.IsNil() {
			c25zero(v.Elem())
		}
	case reflect.Slice:
		for i, n := 0, v.Len(); i < n; i++ {
			c25zero(v.Index(i))
		}
	case reflect.Struct:
		for i, n := 0, t.NumField(); i < n; i++ {
			f := t.Field(i)
			fv := v.Field(i)
			if f.Type == c22TypPos {
				if c22MeaningfulPos[t.Name()+"."+f.Name] && token.Pos(fv.Int()).IsValid() {
					fv.SetInt(1)
				} else {
					fv.SetInt(0)
				}
				continue
			}
			switch f.Type.Kind() {
			case reflect.Ptr, reflect.Interface, reflect.Slice:
				c25zero(fv)
			}
		}
	}
}

func (c *c25Checker) checkFile(path string, m *c22Machine, withComments bool) {
	src, err := os.ReadFile(path)
	if err != nil {
		c.st.skipped["unreadable"]++
		return
	}
	c.checkSource("file", path, src, m, withComments)
}

func (c *c25Checker) checkSource(kind, path string, src []byte, m *c22Machine, withComments bool) {
	r := c.r
	p, skip := c22ParseStd(path, src, 0)
	if p == nil {
		c.st.skipped[skip]++
		return
	}
	for _, d := range p.File.Decls {
		// "func () f() {}" and "func (a, b T) f() {}" pass the standard parser (go/types rejects them);
		// the fork uses exactly these shapes to encode macro and generic declarations
		if fd, ok := d.(*ast.FuncDecl); ok && fd.Recv != nil && len(fd.Recv.List) != 1 {
			c.st.skipped["method declaration without exactly one receiver (not Go; gomacro's encoding of macros/generics)"]++
			return
		}
	}
	r.Cover("corpus", c22CorpusPart(path))
	c22EachNode(p.File, c.st.observe)
	rep := c25Replay{Kind: kind, Path: path}
	// W1 whole file
	rep.What = "whole file"
	c.roundTrip("W1 file", p.File, p.Fset, false, rep, path)
	// W1 declarations, W2 macroexpanded, W3 position-free
	for i, d := range p.File.Decls {
		rep.What = fmt.Sprintf("declaration %d", i)
		label := fmt.Sprintf("%s declaration %d", path, i)
		c.roundTrip("W1 declaration", d, p.Fset, false, rep, label)
		c.distinct(d)
		if m == nil {
			continue
		}
		out, e := m.expandNode(d)
		if e != "" || out == nil {
			c.st.skipped["macroexpansion failed: "+fw.Clip(e, 60)]++
			continue
		}
		rep.What = fmt.Sprintf("declaration %d macroexpanded", i)
		c.roundTrip("W2 macroexpanded declaration", out, p.Fset, true, rep, label+" macroexpanded")
		c.observeBuilt(out)
		// W3: a second expansion (fresh nodes), positions removed
		out2, e := m.expandNode(d)
		if e == "" && out2 != nil {
			c25ZeroPos(out2)
			rep.What = fmt.Sprintf("declaration %d macroexpanded, positions removed", i)
			c.roundTrip("W3 position-free declaration", out2, etoken.NewFileSet(), true, rep, label+" macroexpanded, positions removed")
		}
	}
	// W1 inner statements and expressions on their own
	rng := r.Rng("inner|" + path)
	c22EachNode(p.File, func(n ast.Node) {
		switch n.(type) {
		case ast.Stmt, ast.Expr:
		default:
			return
		}
		if rng.Intn(25) != 0 || !c25Standalone(n) {
			return
		}
		pos := p.Fset.FileSet.Position(n.Pos())
		rep.What = fmt.Sprintf("%s at %d:%d", c22TypeName(n), pos.Line, pos.Column)
		w := "W1 inner statement"
		if _, ok := n.(ast.Expr); ok {
			w = "W1 inner expression"
		}
		c.roundTrip2(w, n, p.Fset, false, false, rep, fmt.Sprintf("%s %s", path, rep.What))
	})
	if withComments {
		c.checkComments(kind, path, src)
	}
}

// c25Standalone tells whether a node found inside a tree is a complete expression or statement
func c25Standalone(n ast.Node) bool {
	switch n := n.(type) {
	case *ast.KeyValueExpr, *ast.Ellipsis, *ast.BadExpr, *ast.BadStmt, *ast.EmptyStmt:
		return false
	case *ast.Ident:
		return n.Name != "." // the name of a dot import
	case *ast.BlockStmt:
		for _, s := range n.List {
			switch s.(type) {
			case *ast.CaseClause, *ast.CommClause:
				return false // the body of a switch / select
			}
		}
	case *ast.CompositeLit:
		return n.Type != nil // elided type: only inside another literal
	case *ast.TypeAssertExpr:
		return n.Type != nil // x.(type): only in a type switch
	case *ast.ArrayType:
		_, dots := n.Len.(*ast.Ellipsis)
		return !dots // [...]T: only in a composite literal
	case *ast.ExprStmt:
		if t, ok := n.X.(*ast.TypeAssertExpr); ok && t.Type == nil {
			return false
		}
	case *ast.AssignStmt:
		if len(n.Rhs) == 1 {
			if t, ok := n.Rhs[0].(*ast.TypeAssertExpr); ok && t.Type == nil {
				return false
			}
			if u, ok := n.Rhs[0].(*ast.UnaryExpr); ok && u.Op == token.RANGE {
				return false
			}
		}
	case *ast.FuncType:
		return n.Func.IsValid() // interface methods have a FuncType without "func"
	}
	return true
}

// c25Comments: whole file parsed with comments. Comments are not part of the compared structure;
// what is checked is that they do not break the code (reparse + same tree) and idempotence.
func (c *c25Checker) checkComments(kind, path string, src []byte) {
	p, skip := c22ParseStd(path, src, parser.ParseComments)
	if p == nil {
		c.st.skipped[skip]++
		return
	}
	rep := c25Replay{Kind: kind, Path: path, What: "whole file with comments"}
	c.roundTripComments(p, rep)
}

func (c *c25Checker) roundTripComments(p *c22Parsed, rep c25Replay) {
	r := c.r
	c.cases["W7 file with comments"]++
	r.Eval(1)
	text1, perr := c25Print(p.Fset, p.File)
	if perr != "" {
		r.Violation("comments-print-panic", rep, p.Path+": "+perr)
		return
	}
	back, fset2, perr := c25Reparse(text1, c25AsFile, parser.ParseComments)
	if perr != "" {
		r.Violation("comments-reparse-fails", rep, fmt.Sprintf("%s (with comments): printed text does not parse back: %s", p.Path, perr))
		return
	}
	if d := c22Diff(p.File, back, c22Opt{IgnoreComments: true, StripParens: true, DropEmpty: true, IgnoreImplicit: true}); d != "" {
		r.Violation("comments-tree-differs", rep, fmt.Sprintf("%s (with comments): reparsed tree differs at %s", p.Path, d))
		return
	}
	text2, perr := c25PrintDirect(fset2, back)
	if perr != "" {
		r.Violation("comments-reprint-panic", rep, p.Path+": "+perr)
		return
	}
	if text2 != text1 {
		// comment placement is not covered by the property (it speaks of the tree); counted only
		c.st.skipped["W7 second print differs in comment layout (not a verdict)"]++
		if c.verbose {
			fmt.Printf("with comments, second print differs: %s\n", c25FirstDiff(text1, text2))
		}
	}
}

func (c *c25Checker) distinct(n ast.Node) {
	cnt := 0
	c22EachNode(n, func(ast.Node) { cnt++ })
	if cnt >= 4 {
		c.r.Distinct(c22Fingerprint(n))
	}
}

// observeBuilt records the shapes only macro-built trees have
func (c *c25Checker) observeBuilt(x interface{}) {
	parens := false
	c22EachNode(x, func(n ast.Node) {
		switch n := n.(type) {
		case *ast.ParenExpr:
			parens = true
		case *ast.IfStmt:
			switch n.Else.(type) {
			case nil, *ast.BlockStmt, *ast.IfStmt:
			default:
				c.st.flags["built: else followed by bare "+c22TypeName(n.Else)]++
			}
		case *ast.BinaryExpr:
			for _, sub := range []ast.Expr{n.X, n.Y} {
				if b, ok := sub.(*ast.BinaryExpr); ok && b.Op.Precedence() < n.Op.Precedence() {
					c.st.flags["built: lower-precedence binary operand without ParenExpr"]++
				}
			}
			if b, ok := n.Y.(*ast.BinaryExpr); ok && b.Op.Precedence() == n.Op.Precedence() {
				c.st.flags["built: same-precedence right operand without ParenExpr"]++
			}
		case *ast.CallExpr:
			switch n.Fun.(type) {
			case *ast.StarExpr, *ast.ChanType, *ast.FuncType, *ast.ArrayType, *ast.MapType, *ast.InterfaceType, *ast.StructType, *ast.UnaryExpr, *ast.BinaryExpr:
				c.st.flags["built: call of "+c22TypeName(n.Fun)+" without ParenExpr"]++
			}
		case *ast.SelectorExpr:
			switch n.X.(type) {
			case *ast.StarExpr, *ast.UnaryExpr, *ast.BinaryExpr:
				c.st.flags["built: selector on "+c22TypeName(n.X)+" without ParenExpr"]++
			}
		case *ast.UnaryExpr:
			switch n.X.(type) {
			case *ast.BinaryExpr:
				c.st.flags["built: unary operator on BinaryExpr without ParenExpr"]++
			case *ast.UnaryExpr:
				c.st.flags["built: unary operator on UnaryExpr"]++
			}
		case *ast.StarExpr:
			if _, ok := n.X.(*ast.BinaryExpr); ok {
				c.st.flags["built: * on BinaryExpr without ParenExpr"]++
			}
		case *ast.IndexExpr:
			switch n.X.(type) {
			case *ast.StarExpr, *ast.UnaryExpr, *ast.BinaryExpr:
				c.st.flags["built: index of "+c22TypeName(n.X)+" without ParenExpr"]++
			}
		}
	})
	if parens {
		c.st.flags["built: tree still containing ParenExpr (quote bodies)"]++
	} else {
		c.st.flags["built: tree without any ParenExpr"]++
	}
}

func (c *c25Checker) checkExtSrc(src string) {
	nodes, fset, e := c22ForkParse(src)
	if e != "" {
		c.st.skipped["fork parser rejects generated source"]++
		return
	}
	for _, n := range nodes {
		if n == nil {
			continue
		}
		c22EachNode(n, c.st.observe)
		c.roundTrip("W4 fork-parsed gomacro source", n, fset, false, c25Replay{Kind: "ext", Src: src}, "gomacro source "+fw.Clip(src, 200))
		c.distinct(n)
		if why := c22HasExtension(n); why != "" {
			c.r.Cover("extension_trees", why)
		}
	}
}

func (c *c25Checker) checkExpandSrc(m *c22Machine, src string) {
	nodes, e := m.expandSrc(src)
	if e != "" {
		c.st.skipped["macroexpansion of generated source failed"]++
		return
	}
	for _, n := range nodes {
		c22EachNode(n, c.st.observe)
		c.observeBuilt(n)
		c.roundTrip("W5 macroexpanded source", n, m.fileset(), true, c25Replay{Kind: "expand-src", Src: src}, "macroexpansion of "+fw.Clip(src, 200))
		c.distinct(n)
		c.r.Cover("macro_built_trees", "macro call expanded: "+c22TypeName(n))
	}
}

func (c *c25Checker) checkQQ(m *c22Machine, binds []c21Binding, tmpl, shape string) {
	n, e := m.evalNode(tmpl)
	if e != "" {
		c.st.skipped["quasiquote template not evaluated"]++
		return
	}
	c22EachNode(n, c.st.observe)
	c.observeBuilt(n)
	c.roundTrip("W6 quasiquote value", n, m.fileset(), true, c25Replay{Kind: "qq", Src: tmpl, Bindings: binds}, "value of "+fw.Clip(tmpl, 200))
	c.distinct(n)
	c.r.Cover("macro_built_trees", "quasiquote value: "+shape)
}

func checkC25(r *fw.Run) {
	etoken.GENERICS = etoken.GENERICS_V2_CTI
	debug.SetGCPercent(400)
	r.SetRule("trees = files of GOROOT/src and /repo accepted by the standard parser and free of type parameters (quick: fixed core + seeded sample of 1000; thorough: all), parsed without comments: whole file, every top-level declaration, a seeded 1-in-25 sample of inner statements/expressions; every declaration after fast.Comp.MacroExpandNodeCodewalk (no ParenExpr, re-wrapped bare statements), with and without positions; a hand-written source with every node type; gomacro sources parsed by the fork parser; macroexpansions of sources calling 14 helper macros; values of random quasiquote templates (C21 generator). One evaluation = one tree comparison or one text comparison. Distinct non-trivial = structurally distinct trees with at least 4 nodes. Oracle: output.Stringer / forked printer text parses back (standard parser; fork parser for trees with extension nodes) to the same tree modulo ParenExpr, explicit empty statements and, for macro-built trees, else{stmt} vs else stmt; printing the reparsed tree gives the same bytes")
	r.Assume("the standard go/parser is the reference reader of printed text; for trees with gomacro extension nodes the fork parser (checked against the standard one by C24) is trusted to read the printed text")
	r.Assume("ParenExpr carries no information beyond the shape of the tree around it; explicit empty statements are omitted by go/printer on purpose")

	if p := fw.ReplayArg(); p != "" {
		c25RunReplay(r, p)
		return
	}
	corpus, err := c22LoadCorpus(r, r.Pick(1000, -1))
	if err != nil {
		r.Inconclusive(err.Error())
		return
	}
	total := newC25Checker(r)
	var mu sync.Mutex
	merge := func(c *c25Checker) {
		mu.Lock()
		total.st.merge(c.st)
		for k, v := range c.cases {
			total.cases[k] += v
		}
		mu.Unlock()
	}

	jobs := make(chan string, 64)
	var wg sync.WaitGroup
	nw := runtime.NumCPU()
	if nw > 16 {
		nw = 16
	}
	for w := 0; w < nw; w++ {
		wg.Add(1)
		go func() {
			defer wg.Done()
			c := newC25Checker(r)
			m := c22NewMachine(true)
			for path := range jobs {
				c.checkFile(path, m, r.Thorough())
			}
			merge(c)
		}()
	}
	for _, f := range corpus.Picks {
		jobs <- f
	}
	close(jobs)
	wg.Wait()
	r.Count("corpus_files_listed", int64(len(corpus.All)))
	r.Count("corpus_files_picked", int64(len(corpus.Picks)))

	{
		c := newC25Checker(r)
		c.checkSource("core", "core.go", []byte(c22CoreSrc), c22NewMachine(true), true)
		for _, s := range c22ExtFixed {
			c.checkExtSrc(s)
		}
		for _, s := range c22ExtFixedDecl {
			c.checkExtSrc(s)
		}
		m := c22NewMachine(false)
		for _, s := range c25BuiltFixed {
			c.checkExpandSrc(m, s)
		}
		merge(c)
	}

	nExt, nMac, nQQ := r.Pick(12000, 120000), r.Pick(9000, 90000), r.Pick(6000, 60000)
	for lane := 0; lane < c22Lanes; lane++ {
		wg.Add(1)
		go func(lane int) {
			defer wg.Done()
			c := newC25Checker(r)
			rng := r.Rng(fmt.Sprintf("gen-%d", lane))
			for _, s := range c22ExtGen(rng, nExt/c22Lanes) {
				c.checkExtSrc(s)
			}
			m := c22NewMachine(false)
			for _, s := range c22MacroSources(rng, nMac/c22Lanes) {
				c.checkExpandSrc(m, s)
			}
			g := &c21Gen{rng: rng, maxLv: 3}
			var binds []c21Binding
			for i := 0; i < nQQ/c22Lanes; i++ {
				if i%20 == 0 {
					binds = g.bindings()
					if !c22Bind(m, binds) {
						c.st.skipped["bindings not evaluated"]++
						m = c22NewMachine(false)
						continue
					}
				}
				t, shape := g.template()
				c.checkQQ(m, binds, t, shape)
			}
			merge(c)
		}(lane)
	}
	wg.Wait()

	for k := range total.st.kinds {
		r.Cover("node_kind", k)
	}
	for k, v := range total.cases {
		r.Count("round trips: "+k, v)
	}
	r.Extra("nodes_per_kind", total.st.kinds)
	r.Extra("nodes_per_flag_or_token", total.st.flags)
	r.Extra("skipped", total.st.skipped)
	r.Sample(map[string]interface{}{"corpus_file": corpus.Picks[len(corpus.Picks)/2]})
	r.Sample(map[string]interface{}{"extension_source": c22ExtFixed[5]})
	r.Sample(map[string]interface{}{"macro_source": c22MacroSources(r.Rng("sample"), 1)[0]})
	t, _ := (&c21Gen{rng: r.Rng("sample2"), maxLv: 3}).template()
	r.Sample(map[string]interface{}{"quasiquote_template": t})
	var missing []string
	for _, k := range []string{"built: lower-precedence binary operand without ParenExpr", "built: call of StarExpr without ParenExpr",
		"built: else followed by bare ExprStmt", "built: tree without any ParenExpr", "built: selector on StarExpr without ParenExpr"} {
		if total.st.flags[k] == 0 {
			missing = append(missing, k)
		}
	}
	for _, k := range []string{"W1 file", "W1 declaration", "W1 inner statement", "W1 inner expression", "W2 macroexpanded declaration",
		"W3 position-free declaration", "W4 fork-parsed gomacro source", "W5 macroexpanded source", "W6 quasiquote value"} {
		if total.cases[k] == 0 {
			missing = append(missing, k)
		}
	}
	if len(missing) != 0 {
		r.Inconclusive("never observed: " + strings.Join(missing, ", "))
	}
}

// plain sources whose macroexpansion removes parentheses that the printer must put back
var c25BuiltFixed = []string{
	"x = (a + b) * c",
	"x = a * (b + c)",
	"x = a - (b - c)",
	"x = a / (b * c)",
	"x = (a == b) == c",
	"x = -(a + b)",
	"x = -(-a)",
	"x = +(+a)",
	"x = a - (-b)",
	"x = a + (+b)",
	"x = a & (^b)",
	"x = a / (*p)",
	"x = <-(<-c)",
	"x = !(a && b)",
	"x = *(p + 1)",
	"x = (*p).f",
	"x = (*p)[i]",
	"x = (*p)(a)",
	"x = (-a).f",
	"x = (a + b).f",
	"x = (a + b)[i]",
	"x = (a + b)[i:j]",
	"x = (a + b).(T)",
	"x = (*T)(p)",
	"x = (**T)(p)",
	"x = (<-chan int)(c)",
	"x = (chan<- int)(c)",
	"x = (chan int)(c)",
	"x = (func())(f)",
	"x = (func() int)(f)",
	"x = ([]int)(s)",
	"x = (map[K]V)(m)",
	"x = (interface{})(v)",
	"x = (struct{})(v)",
	"x = (*T).Method",
	"x = (&T{}).f",
	"x = &(T{})",
	"x = (T{}).f",
	"x = (func() {})()",
	"x = (func(a int) int { return a })(1)",
	"x = [](func())(nil)",
	"x = []*(T){}",
	"if a { b() } else { c() }",
	"if a { b() } else { c++ }",
	"if a { b() } else { return }",
	"if a { b() } else { x = 1 }",
	"if a { b() } else { for {} }",
	"if a { b() } else { go f() }",
	"if a { b() } else { L: f() }",
	"if a { b() } else if c { d() } else { e() }",
	"if a { b() } else { if c { d() } }",
	"if a { b() } else { { c() } }",
	"if a { b() } else { x := 1 }",
	"if a { b() } else { var x = 1 }",
	"if (a) { b() }",
	"if x == (T{}) { b() }",
	"if (x == T{}) { b() }",
	"if f(T{}) { b() }",
	"for (T{}).ok() { b() }",
	"switch (T{}).v { case 1: }",
	"for i := range (T{}).list { b() }",
	"if v, ok := (T{}).m[k]; ok { b() }",
	"for { f() }",
	"for { { f() } }",
	"func f() { g() }",
	"func f() { { g() } }",
	"func f() { ; }",
	"func f() { (g)() }",
	"func f() { (<-c) }",
	"func f() { x := (y) }",
	"{ f() }",
	"{ { f() } }",
	"{ x := 1 }",
	"{ var x = 1 }",
	"L: { f() }",
	"switch x { case (1): (f)() }",
	"select { case (c) <- (v): (f)() }",
	"go (f)(x)",
	"defer (f)(x)",
	"go (func() {})()",
	"return (a), (b + c)",
	"x, y = (a), (b)",
	"var v = (a + b) * c",
	"var v (T) = (x)",
	"type P (*T)",
	"type F (func())",
	"var a [(n)]int",
	"var m map[(K)](V)",
	"var c chan (<-chan int)",
	"var c chan<- (chan int)",
	"var c <-chan (chan int)",
	"var c chan (chan<- int)",
	"var f func((int), (string)) (bool)",
	"x = a[(i)]",
	"x = a[(i):(j)]",
	"x = f((a), (b)...)",
	"x = T{(a): (b)}",
	"x = (T){a}",
	"x++",
	"(x)++",
	"(*p)++",
	"(*p) = 1",
	"(*p).f = 1",
	"c <- (v)",
	"(c) <- v",
}

func c25RunReplay(r *fw.Run, path string) {
	var rep c25Replay
	if err := fw.LoadReplay(path, &rep); err != nil {
		r.Inconclusive("cannot load replay: " + err.Error())
		return
	}
	c := newC25Checker(r)
	c.verbose = true
	c.only = rep.What
	switch rep.Kind {
	case "file":
		c.checkFile(rep.Path, c22NewMachine(true), true)
	case "core":
		c.checkSource("core", "core.go", []byte(c22CoreSrc), c22NewMachine(true), true)
	case "ext":
		c.checkExtSrc(rep.Src)
	case "expand-src":
		c.checkExpandSrc(c22NewMachine(false), rep.Src)
	case "qq":
		m := c22NewMachine(false)
		c22Bind(m, rep.Bindings)
		c.checkQQ(m, rep.Bindings, rep.Src, "replay")
	default:
		r.Inconclusive("unknown replay kind " + rep.Kind)
		return
	}
	fmt.Printf("replayed %s: %v\n", rep.Kind, c.cases)
	r.Distinct("replay-a")
	r.Distinct("replay-b")
}

// ---------------------------------------------------------------------------------------------
// composite literals in statement headers

// c25ParenHeaderLiterals wraps, in place, every composite literal of a named type (T{..}, pkg.T{..})
// that sits in the header of an if / for / range / switch / type switch outside any parentheses,
// brackets or braces in a ParenExpr, and returns how many it wrapped. In that position Go's grammar
// reads the literal's opening brace as the start of the statement body.
// c25Reparenthesise restores, in place, the parentheses of the known shapes and returns how many
// places of each finding it touched.
func c25Reparenthesise(x interface{}) map[string]int {
	shapes := map[string]int{}
	if n := c25ParenHeaderLiterals(x); n != 0 {
		shapes[c25FindingHeaderLit] = n
	}
	paren := func(e ast.Expr) ast.Expr { return &ast.ParenExpr{X: e} }
	c22EachNode(x, func(nd ast.Node) {
		switch n := nd.(type) {
		case *ast.ChanType:
			// chan (<-chan T) printed as chan <-chan T, which reads chan<- (chan T)
			if v, ok := n.Value.(*ast.ChanType); ok && n.Dir == ast.SEND|ast.RECV && v.Dir == ast.RECV {
				n.Value = paren(v)
				shapes[c25FindingRecvChan]++
			}
		case *ast.CallExpr:
			switch f := n.Fun.(type) {
			case *ast.ChanType:
				// (<-chan T)(x) printed as <-chan T(x), which reads <-(chan T(x))
				if f.Dir == ast.RECV {
					n.Fun = paren(f)
					shapes[c25FindingRecvChan]++
					break
				}
				if c25EndsInBareFunc(f) {
					n.Fun = paren(f)
					shapes[c25FindingFuncTail]++
				}
			case *ast.ArrayType, *ast.MapType:
				// ([]func())(x) printed as []func()(x), which reads the type []func() (x)
				if c25EndsInBareFunc(f) {
					n.Fun = paren(f)
					shapes[c25FindingFuncTail]++
				}
			}
		case *ast.StarExpr:
			// *(a + b) printed as *a + b
			if b, ok := n.X.(*ast.BinaryExpr); ok {
				n.X = paren(b)
				shapes[c25FindingStarBinary]++
			}
		}
	})
	return shapes
}

// c25DropEmptiesBeforeFinalLabel removes the explicit empty statements of every statement list that
// ends in a label without statement, and returns how many it removed
func c25DropEmptiesBeforeFinalLabel(x interface{}) int {
	n := 0
	fix := func(list []ast.Stmt) []ast.Stmt {
		if len(list) < 2 {
			return list
		}
		last := list[len(list)-1]
		for {
			l, ok := last.(*ast.LabeledStmt)
			if !ok {
				break
			}
			last = l.Stmt
		}
		if _, ok := last.(*ast.EmptyStmt); !ok || last == list[len(list)-1] {
			return list
		}
		out := list[:0:0]
		for _, s := range list {
			if _, ok := s.(*ast.EmptyStmt); ok {
				n++
				continue
			}
			out = append(out, s)
		}
		return out
	}
	c22EachNode(x, func(nd ast.Node) {
		switch b := nd.(type) {
		case *ast.BlockStmt:
			b.List = fix(b.List)
		case *ast.CaseClause:
			b.Body = fix(b.Body)
		case *ast.CommClause:
			b.Body = fix(b.Body)
		}
	})
	return n
}

// c25EndsInBareFunc: the type's text ends with a func type that has no result list
func c25EndsInBareFunc(t ast.Expr) bool {
	for {
		switch x := t.(type) {
		case *ast.ArrayType:
			t = x.Elt
		case *ast.MapType:
			t = x.Value
		case *ast.ChanType:
			t = x.Value
		case *ast.StarExpr:
			t = x.X
		case *ast.FuncType:
			return x.Results == nil || len(x.Results.List) == 0
		default:
			return false
		}
	}
}

// c25OutOfScope names the gomacro-only form in the tree, if any, that is neither valid Go nor built
// by the macro machinery from valid Go, and that the printer does not render in re-readable syntax:
// the property does not speak of such trees, so they are counted and skipped.
func c25OutOfScope(x interface{}) (shape string) {
	c22EachNode(x, func(nd ast.Node) {
		if shape != "" {
			return
		}
		switch n := nd.(type) {
		case *ast.UnaryExpr:
			if n.Op == etoken.MACRO {
				shape = "a block expression {a; b} (printed as ~macrofunc() {...})"
			}
		case *ast.DeclStmt:
			if _, ok := n.Decl.(*ast.FuncDecl); ok {
				shape = "a ~func declaration among statements (printed as func)"
			}
		case *ast.FuncDecl:
			if n.Recv != nil && len(n.Recv.List) == 0 {
				shape = "a macro declaration (printed as func)"
			}
		}
	})
	return shape
}

func c25ParenHeaderLiterals(x interface{}) int {
	n := 0
	fixE := func(e *ast.Expr) {
		if *e != nil {
			*e = c25fixBare(*e, &n)
		}
	}
	fixS := func(s ast.Stmt) {
		switch s := s.(type) {
		case *ast.AssignStmt:
			for i := range s.Lhs {
				fixE(&s.Lhs[i])
			}
			for i := range s.Rhs {
				fixE(&s.Rhs[i])
			}
		case *ast.ExprStmt:
			fixE(&s.X)
		case *ast.IncDecStmt:
			fixE(&s.X)
		case *ast.SendStmt:
			fixE(&s.Chan)
			fixE(&s.Value)
		}
	}
	c22EachNode(x, func(nd ast.Node) {
		switch s := nd.(type) {
		case *ast.IfStmt:
			fixS(s.Init)
			fixE(&s.Cond)
		case *ast.ForStmt:
			fixS(s.Init)
			fixE(&s.Cond)
			fixS(s.Post)
		case *ast.RangeStmt:
			fixE(&s.Key)
			fixE(&s.Value)
			fixE(&s.X)
		case *ast.SwitchStmt:
			fixS(s.Init)
			fixE(&s.Tag)
		case *ast.TypeSwitchStmt:
			fixS(s.Init)
			fixS(s.Assign)
		}
	})
	return n
}

func c25fixBare(e ast.Expr, n *int) ast.Expr {
	switch x := e.(type) {
	case *ast.CompositeLit:
		switch x.Type.(type) {
		case *ast.Ident, *ast.SelectorExpr:
			*n++
			return &ast.ParenExpr{X: x}
		}
	case *ast.BinaryExpr:
		x.X = c25fixBare(x.X, n)
		x.Y = c25fixBare(x.Y, n)
	case *ast.UnaryExpr:
		if x.Op < etoken.QUOTE {
			x.X = c25fixBare(x.X, n)
		} else if fl, ok := x.X.(*ast.FuncLit); ok && fl.Body != nil {
			// a quote body inside a header is read with the header's restriction still in force
			for _, st := range fl.Body.List {
				if es, ok := st.(*ast.ExprStmt); ok && es.X != nil {
					es.X = c25fixBare(es.X, n)
				}
			}
		}
	case *ast.StarExpr:
		x.X = c25fixBare(x.X, n)
	case *ast.SelectorExpr:
		x.X = c25fixBare(x.X, n)
	case *ast.IndexExpr:
		x.X = c25fixBare(x.X, n)
	case *ast.SliceExpr:
		x.X = c25fixBare(x.X, n)
	case *ast.TypeAssertExpr:
		x.X = c25fixBare(x.X, n)
	case *ast.CallExpr:
		x.Fun = c25fixBare(x.Fun, n)
	}
	return e
}

// c25Malformed: quasiquote can splice an empty list where Go's grammar wants at least one element
// (x := ~,@empty ; f(~,@empty ...)) or leave a required child nil; no printer can render such a tree.
func c25Malformed(x interface{}) (why string) {
	bad := func(s string) {
		if why == "" {
			why = s
		}
	}
	exprs := func(where string, list []ast.Expr, min int) {
		if len(list) < min {
			bad(where + " is empty")
		}
		for _, e := range list {
			if e == nil {
				bad(where + " has a nil element")
			}
		}
	}
	need := func(where string, ok bool) {
		if !ok {
			bad(where + " is nil")
		}
	}
	c22EachNode(x, func(nd ast.Node) {
		switch n := nd.(type) {
		case *ast.AssignStmt:
			exprs("AssignStmt.Lhs", n.Lhs, 1)
			exprs("AssignStmt.Rhs", n.Rhs, 1)
		case *ast.CallExpr:
			need("CallExpr.Fun", n.Fun != nil)
			exprs("CallExpr.Args", n.Args, 0)
			if n.Ellipsis.IsValid() && len(n.Args) == 0 {
				bad("CallExpr with ... and no argument")
			}
		case *ast.BinaryExpr:
			need("BinaryExpr operand", n.X != nil && n.Y != nil)
		case *ast.UnaryExpr:
			need("UnaryExpr.X", n.X != nil)
		case *ast.StarExpr:
			need("StarExpr.X", n.X != nil)
		case *ast.ParenExpr:
			need("ParenExpr.X", n.X != nil)
		case *ast.SelectorExpr:
			need("SelectorExpr part", n.X != nil && n.Sel != nil)
		case *ast.IndexExpr:
			need("IndexExpr part", n.X != nil && n.Index != nil)
		case *ast.SliceExpr:
			need("SliceExpr.X", n.X != nil)
			if n.Slice3 && (n.High == nil || n.Max == nil) {
				bad("3-index slice without high or max")
			}
		case *ast.TypeAssertExpr:
			need("TypeAssertExpr.X", n.X != nil)
		case *ast.KeyValueExpr:
			need("KeyValueExpr part", n.Key != nil && n.Value != nil)
		case *ast.CompositeLit:
			exprs("CompositeLit.Elts", n.Elts, 0)
		case *ast.ArrayType:
			need("ArrayType.Elt", n.Elt != nil)
		case *ast.MapType:
			need("MapType part", n.Key != nil && n.Value != nil)
		case *ast.ChanType:
			need("ChanType.Value", n.Value != nil)
		case *ast.FuncLit:
			need("FuncLit part", n.Type != nil && n.Body != nil)
		case *ast.Field:
			need("Field.Type", n.Type != nil)
		case *ast.ExprStmt:
			need("ExprStmt.X", n.X != nil)
		case *ast.SendStmt:
			need("SendStmt part", n.Chan != nil && n.Value != nil)
		case *ast.IncDecStmt:
			need("IncDecStmt.X", n.X != nil)
		case *ast.GoStmt:
			need("GoStmt.Call", n.Call != nil)
		case *ast.DeferStmt:
			need("DeferStmt.Call", n.Call != nil)
		case *ast.ReturnStmt:
			exprs("ReturnStmt.Results", n.Results, 0)
		case *ast.LabeledStmt:
			need("LabeledStmt part", n.Label != nil && n.Stmt != nil)
		case *ast.IfStmt:
			need("IfStmt part", n.Cond != nil && n.Body != nil)
		case *ast.ForStmt:
			need("ForStmt.Body", n.Body != nil)
		case *ast.RangeStmt:
			need("RangeStmt part", n.X != nil && n.Body != nil)
		case *ast.SwitchStmt:
			need("SwitchStmt.Body", n.Body != nil)
		case *ast.TypeSwitchStmt:
			need("TypeSwitchStmt part", n.Assign != nil && n.Body != nil)
		case *ast.SelectStmt:
			need("SelectStmt.Body", n.Body != nil)
		case *ast.CaseClause:
			exprs("CaseClause.List", n.List, 0)
			for _, st := range n.Body {
				need("CaseClause.Body element", st != nil)
			}
		case *ast.CommClause:
			for _, st := range n.Body {
				need("CommClause.Body element", st != nil)
			}
		case *ast.BlockStmt:
			for _, st := range n.List {
				need("BlockStmt.List element", st != nil)
			}
		case *ast.DeclStmt:
			need("DeclStmt.Decl", n.Decl != nil)
		case *ast.GenDecl:
			if len(n.Specs) != 1 && !n.Lparen.IsValid() {
				bad("ungrouped GenDecl without exactly one spec")
			}
			for _, sp := range n.Specs {
				need("GenDecl.Specs element", sp != nil)
				if vs, ok := sp.(*ast.ValueSpec); ok && n.Tok == token.VAR && vs.Type == nil && len(vs.Values) == 0 {
					bad("var without type and value")
				}
			}
		case *ast.ValueSpec:
			if len(n.Names) == 0 {
				bad("ValueSpec.Names is empty")
			}
			exprs("ValueSpec.Values", n.Values, 0)
		case *ast.TypeSpec:
			need("TypeSpec part", n.Name != nil && n.Type != nil)
		case *ast.FuncDecl:
			need("FuncDecl part", n.Name != nil && n.Type != nil)
		}
	})
	return why
}
