package main

// C31 — precompiled import tables bind each name to exactly that exported symbol.
//
// Stages (all driven from the live imports.Packages map of this very binary):
//   bind     functions -> runtime.FuncForPC name; variables -> ELF symbol table of /proc/self/exe;
//            typed constants -> go/types constant (value and type)
//   untyped  Untypeds strings decoded by untyped.Unmarshal vs the go/types constant
//   type     reflect type identity (package path + name, aliases resolved through go/types)
//   proxy    every proxy method called through the interface with recording closures
//   wrapper  listed wrapper methods are promoted methods in the go/types view
//   interp   `import "P"` in a fast.Interp (child processes) and P.N seen through Eval vs the table

import (
	"debug/elf"
	"encoding/json"
	"fmt"
	"go/constant"
	"go/token"
	"go/types"
	"math"
	"math/big"
	"os"
	"os/exec"
	"path/filepath"
	"reflect"
	"runtime"
	"sort"
	"strconv"
	"strings"
	"sync"
	"time"
	"unsafe"

	"github.com/cosmos72/gomacro/base/untyped"
	"github.com/cosmos72/gomacro/fast"
	"github.com/cosmos72/gomacro/imports"
	_ "github.com/cosmos72/gomacro/imports/syscall"
	_ "github.com/cosmos72/gomacro/imports/thirdparty"

	"gmverif/internal/fw"
)

func init() {
	register("C31", "exploration", checkC31)
	auxCmds["c31-interp"] = c31InterpChild
}

// Finding ids: genuine defects of the unchanged tree. Each is recognised only in the exact table cell and with the
// exact shape listed in c31KnownShapes (or, for the generator defect, by its exact shape); any other discrepancy,
// including a different one in the same cell, is a violation.
const (
	// x_package.go tables of gomacro's own packages were generated long ago and never regenerated
	c31FindInception = "C31-inception-tables-stale"
	// imports/*.go were generated with an older Go release than the toolchain in use
	c31FindStdStale = "C31-std-tables-stale-for-toolchain"
	// base/genimport/analize_wrappers.go lists names that are ambiguous between embedded fields (so are not methods)
	c31FindAmbiguous = "C31-wrapper-ambiguous-name"
)

const c31Fast = "github.com/cosmos72/gomacro/fast"
const c31Ast2 = "github.com/cosmos72/gomacro/ast2"
const c31Xreflect = "github.com/cosmos72/gomacro/xreflect"

// key: stage|package|name|method|shape
var c31KnownShapes = map[string]string{
	"untyped|unicode|Version||value-differs": c31FindStdStale,
	"wrapper|go/types|Func|Pkg|declared":     c31FindStdStale,

	"package|github.com/cosmos72/gomacro/typeutil|||missing-package":             c31FindInception,
	"proxy|" + c31Ast2 + "|Ast||no-object":                                       c31FindInception,
	"proxy|" + c31Ast2 + "|AstWithNode||no-object":                               c31FindInception,
	"proxy|" + c31Ast2 + "|AstWithSlice||no-object":                              c31FindInception,
	"proxy|" + c31Xreflect + "|QNameI||no-object":                                c31FindInception,
	"interp|" + c31Ast2 + "|||import-rejects-proxy":                              c31FindInception,
	"interp|" + c31Xreflect + "|||import-rejects-proxy":                          c31FindInception,
	"bind|" + c31Fast + "|OptDefaults||no-such-symbol":                           c31FindInception, // bound to COptDefaults
	"bind|" + c31Fast + "|OptKeepUntyped||no-such-symbol":                        c31FindInception, // bound to COptKeepUntyped
	"bind|" + c31Xreflect + "|StrGensymAnonymous||untyped-as-typed":              c31FindInception,
	"bind|" + c31Xreflect + "|StrGensymInterface||untyped-as-typed":              c31FindInception,
	"bind|" + c31Xreflect + "|StrGensymPrivate||untyped-as-typed":                c31FindInception,
	"wrapper|" + c31Fast + "|Bind|ReflectValue|absent":                           c31FindInception,
	"wrapper|" + c31Fast + "|Expr|ReflectValue|absent":                           c31FindInception,
	"wrapper|" + c31Fast + "|Symbol|ReflectValue|absent":                         c31FindInception,
	"wrapper|" + c31Fast + "|Symbol|String|declared":                             c31FindInception,
	"wrapper|" + c31Fast + "|Comp|CollectPackageImportsWithRename|absent":        c31FindInception,
	"wrapper|" + c31Fast + "|Comp|LookupPackage|absent":                          c31FindInception,
	"wrapper|" + c31Fast + "|Comp|TypeOfImport|absent":                           c31FindInception,
	"wrapper|" + c31Fast + "|CompGlobals|CollectPackageImportsWithRename|absent": c31FindInception,
	"wrapper|" + c31Fast + "|CompGlobals|ImportPackage|absent":                   c31FindInception,
	"wrapper|" + c31Fast + "|CompGlobals|LookupPackage|absent":                   c31FindInception,
	"wrapper|" + c31Fast + "|CompGlobals|UnloadPackage|declared":                 c31FindInception,
	"wrapper|" + c31Fast + "|Run|CollectPackageImportsWithRename|absent":         c31FindInception,
	"wrapper|" + c31Fast + "|Run|ImportPackage|absent":                           c31FindInception,
	"wrapper|" + c31Fast + "|Run|LookupPackage|absent":                           c31FindInception,
}

func init() {
	// x_package.go of package classic (only present when the harness links it)
	const classic = "github.com/cosmos72/gomacro/classic"
	for typ, methods := range map[string][]string{
		"Env":           {"CollectPackageImports", "ImportPackage", "Init", "LookupPackage", "ShowHelp"},
		"Interp":        {"ClassicEval", "CollectPackageImports", "FastEval", "ImportPackage", "Init", "LookupPackage", "ShowHelp"},
		"ThreadGlobals": {"CollectPackageImports", "ImportPackage", "Init", "LookupPackage"},
	} {
		for _, m := range methods {
			c31KnownShapes["wrapper|"+classic+"|"+typ+"|"+m+"|absent"] = c31FindInception
		}
	}
	c31KnownShapes["wrapper|"+classic+"|Interp|ChangePackage|declared"] = c31FindInception
}

func c31KnownShape(stage, pkg, name, method, shape string) string {
	return c31KnownShapes[stage+"|"+pkg+"|"+name+"|"+method+"|"+shape]
}

const c31StalePathTable = "github.com/cosmos72/gomacro/typeutil"
const c31StalePathReal = "github.com/cosmos72/gomacro/go/typeutil"

type c31Replay struct {
	Stage  string `json:"stage"`
	Pkg    string `json:"pkg"`
	Name   string `json:"name,omitempty"`
	Method string `json:"method,omitempty"`
	Trial  int    `json:"trial,omitempty"`
}

// c31Anchor fixes the load bias between ELF symbol values and run-time addresses.
var c31Anchor int64 = 31

type c31Elf struct {
	byAddr map[uint64][]string
	byName map[string]uint64
	bias   uint64 // run-time address - ELF value
}

func c31LoadElf() (*c31Elf, error) {
	f, err := elf.Open("/proc/self/exe")
	if err != nil {
		return nil, err
	}
	defer f.Close()
	syms, err := f.Symbols()
	if err != nil {
		return nil, fmt.Errorf("no ELF symbol table (stripped binary?): %v", err)
	}
	e := &c31Elf{byAddr: map[uint64][]string{}, byName: map[string]uint64{}}
	for _, s := range syms {
		if elf.ST_TYPE(s.Info) != elf.STT_OBJECT {
			continue
		}
		e.byAddr[s.Value] = append(e.byAddr[s.Value], s.Name)
		e.byName[s.Name] = s.Value
	}
	a, ok := e.byName["main.c31Anchor"]
	if !ok {
		return nil, fmt.Errorf("anchor symbol main.c31Anchor not in the ELF symbol table")
	}
	e.bias = uint64(uintptr(unsafe.Pointer(&c31Anchor))) - a
	if len(e.byAddr) < 1000 {
		return nil, fmt.Errorf("only %d object symbols in the ELF symbol table", len(e.byAddr))
	}
	return e, nil
}

// c31SymPrefix is the linker's spelling of an import path (cmd/internal/objabi.PathToPrefix).
func c31SymPrefix(s string) string {
	slash := strings.LastIndex(s, "/")
	var b strings.Builder
	for i := 0; i < len(s); i++ {
		c := s[i]
		if c <= ' ' || (c == '.' && i > slash) || c == '%' || c == '"' || c >= 0x7F {
			fmt.Fprintf(&b, "%%%02x", c)
		} else {
			b.WriteByte(c)
		}
	}
	return b.String()
}

type c31Ctx struct {
	r    *fw.Run
	elf  *c31Elf
	ld   *c31Loader
	note map[string]string // per-package notes for the evidence file

	knownOnce map[string]bool
}

// c31Outcome of checking one table entry.
type c31Outcome struct {
	Class   string   // what kind of entry it was
	Table   string   // what the table holds
	Oracle  string   // what the reference says
	Issues  []string // discrepancies
	Skipped string   // non-empty: no oracle available, reason
	// a discrepancy that has exactly the shape of a known defect is kept apart from Issues
	Known      string // finding id
	KnownIssue string // what is wrong
	KnownKey   string // occurrences with the same key are reported once
}

// known files a discrepancy of the given shape under a finding id if that exact cell and shape is listed, else as an issue.
func (o *c31Outcome) known(stage, pkg, name, method, shape, format string, args ...interface{}) {
	msg := fmt.Sprintf(format, args...)
	if id := c31KnownShape(stage, pkg, name, method, shape); id != "" && o.Known == "" {
		o.Known, o.KnownIssue, o.KnownKey = id, msg, stage+"|"+pkg+"|"+name+"|"+method
		return
	}
	o.Issues = append(o.Issues, msg)
}

func (o *c31Outcome) bad(format string, args ...interface{}) {
	o.Issues = append(o.Issues, fmt.Sprintf(format, args...))
}

func c31StripVendor(p string) string {
	if i := strings.LastIndex(p, "/vendor/"); i >= 0 {
		return p[i+len("/vendor/"):]
	}
	return strings.TrimPrefix(p, "vendor/")
}

var c31BasicKinds = map[types.BasicKind]reflect.Kind{
	types.Bool: reflect.Bool, types.Int: reflect.Int, types.Int8: reflect.Int8, types.Int16: reflect.Int16,
	types.Int32: reflect.Int32, types.Int64: reflect.Int64, types.Uint: reflect.Uint, types.Uint8: reflect.Uint8,
	types.Uint16: reflect.Uint16, types.Uint32: reflect.Uint32, types.Uint64: reflect.Uint64, types.Uintptr: reflect.Uintptr,
	types.Float32: reflect.Float32, types.Float64: reflect.Float64, types.Complex64: reflect.Complex64,
	types.Complex128: reflect.Complex128, types.String: reflect.String, types.UnsafePointer: reflect.UnsafePointer,
}

// c31TypeCmp compares a reflect type with a go/types type: named types by package path and name,
// unnamed ones by shape (recursively through element types, never through named types).
// Returns "" when they agree, "?" when the comparison is not decidable here, else the difference.
func c31TypeCmp(rt reflect.Type, tt types.Type, depth int) string {
	tt = types.Unalias(tt)
	if depth > 6 {
		return ""
	}
	switch t := tt.(type) {
	case *types.Named:
		obj := t.Obj()
		pkg := ""
		if obj.Pkg() != nil {
			pkg = c31StripVendor(obj.Pkg().Path())
		}
		name := rt.Name()
		if i := strings.IndexByte(name, '['); i >= 0 {
			name = name[:i]
		}
		if name != obj.Name() || c31StripVendor(rt.PkgPath()) != pkg {
			return fmt.Sprintf("reflect type %q.%s is not %q.%s", rt.PkgPath(), rt.Name(), pkg, obj.Name())
		}
		return ""
	case *types.Basic:
		k, ok := c31BasicKinds[t.Kind()]
		if !ok {
			return "?"
		}
		if rt.Kind() != k || (rt.PkgPath() != "" && k != reflect.UnsafePointer) {
			return fmt.Sprintf("reflect type %v is not basic type %s", rt, t.Name())
		}
		return ""
	case *types.TypeParam, *types.Tuple:
		return "?"
	}
	if rt.Name() != "" {
		return fmt.Sprintf("reflect type %v is named, go/types type %s is not", rt, tt)
	}
	mismatch := func() string { return fmt.Sprintf("reflect type %v does not have the shape of %s", rt, tt) }
	switch t := tt.(type) {
	case *types.Pointer:
		if rt.Kind() != reflect.Ptr {
			return mismatch()
		}
		return c31TypeCmp(rt.Elem(), t.Elem(), depth+1)
	case *types.Slice:
		if rt.Kind() != reflect.Slice {
			return mismatch()
		}
		return c31TypeCmp(rt.Elem(), t.Elem(), depth+1)
	case *types.Array:
		if rt.Kind() != reflect.Array || int64(rt.Len()) != t.Len() {
			return mismatch()
		}
		return c31TypeCmp(rt.Elem(), t.Elem(), depth+1)
	case *types.Map:
		if rt.Kind() != reflect.Map {
			return mismatch()
		}
		if d := c31TypeCmp(rt.Key(), t.Key(), depth+1); d != "" {
			return d
		}
		return c31TypeCmp(rt.Elem(), t.Elem(), depth+1)
	case *types.Chan:
		dir := map[types.ChanDir]reflect.ChanDir{types.SendRecv: reflect.BothDir, types.SendOnly: reflect.SendDir, types.RecvOnly: reflect.RecvDir}[t.Dir()]
		if rt.Kind() != reflect.Chan || rt.ChanDir() != dir {
			return mismatch()
		}
		return c31TypeCmp(rt.Elem(), t.Elem(), depth+1)
	case *types.Signature:
		if rt.Kind() != reflect.Func || rt.NumIn() != t.Params().Len() || rt.NumOut() != t.Results().Len() || rt.IsVariadic() != t.Variadic() {
			return mismatch()
		}
		unsure := false
		for i := 0; i < rt.NumIn(); i++ {
			if d := c31TypeCmp(rt.In(i), t.Params().At(i).Type(), depth+1); d == "?" {
				unsure = true
			} else if d != "" {
				return d
			}
		}
		for i := 0; i < rt.NumOut(); i++ {
			if d := c31TypeCmp(rt.Out(i), t.Results().At(i).Type(), depth+1); d == "?" {
				unsure = true
			} else if d != "" {
				return d
			}
		}
		if unsure {
			return "?"
		}
		return ""
	case *types.Struct:
		if rt.Kind() != reflect.Struct || rt.NumField() != t.NumFields() {
			return mismatch()
		}
		for i := 0; i < rt.NumField(); i++ {
			if rt.Field(i).Name != t.Field(i).Name() {
				return mismatch()
			}
		}
		return ""
	case *types.Interface:
		if rt.Kind() != reflect.Interface || rt.NumMethod() != t.NumMethods() {
			return mismatch()
		}
		return ""
	}
	return "?"
}

// c31ConstOf converts the value of a typed constant held by reflection to a go/constant value.
func c31ConstOf(v reflect.Value) constant.Value {
	switch v.Kind() {
	case reflect.Bool:
		return constant.MakeBool(v.Bool())
	case reflect.Int, reflect.Int8, reflect.Int16, reflect.Int32, reflect.Int64:
		return constant.MakeInt64(v.Int())
	case reflect.Uint, reflect.Uint8, reflect.Uint16, reflect.Uint32, reflect.Uint64, reflect.Uintptr:
		return constant.MakeUint64(v.Uint())
	case reflect.Float32, reflect.Float64:
		return constant.MakeFloat64(v.Float())
	case reflect.Complex64, reflect.Complex128:
		c := v.Complex()
		return constant.BinaryOp(constant.MakeFloat64(real(c)), token.ADD, constant.MakeImag(constant.MakeFloat64(imag(c))))
	case reflect.String:
		return constant.MakeString(v.String())
	}
	return nil
}

// c31ConstEqualTyped: does the reflect value v hold the typed constant c (a go/types value)?
func c31ConstEqualTyped(v reflect.Value, c constant.Value) (equal, decidable bool) {
	switch v.Kind() {
	case reflect.Float32:
		f, _ := constant.Float32Val(constant.ToFloat(c))
		return float32(v.Float()) == f, true
	case reflect.Float64:
		f, _ := constant.Float64Val(constant.ToFloat(c))
		return v.Float() == f, true
	case reflect.Complex64, reflect.Complex128:
		cc := constant.ToComplex(c)
		re, _ := constant.Float64Val(constant.Real(cc))
		im, _ := constant.Float64Val(constant.Imag(cc))
		if v.Kind() == reflect.Complex64 {
			return complex64(v.Complex()) == complex(float32(re), float32(im)), true
		}
		return v.Complex() == complex(re, im), true
	}
	mine := c31ConstOf(v)
	if mine == nil {
		return false, false
	}
	cat := func(k constant.Kind) int {
		switch k {
		case constant.Bool:
			return 1
		case constant.String:
			return 2
		case constant.Int, constant.Float, constant.Complex:
			return 3
		}
		return 0
	}
	if cat(mine.Kind()) == 0 || cat(c.Kind()) == 0 {
		return false, false
	}
	if cat(mine.Kind()) != cat(c.Kind()) {
		return false, true
	}
	return constant.Compare(mine, token.EQL, c), true
}

func c31Describe(v reflect.Value) string {
	if !v.IsValid() {
		return "invalid reflect.Value"
	}
	s := ""
	switch {
	case v.CanAddr():
		s = fmt.Sprintf("addressable %v at %#x", v.Type(), v.Addr().Pointer())
	case v.Kind() == reflect.Func:
		if v.IsNil() {
			return fmt.Sprintf("nil %v", v.Type())
		}
		s = fmt.Sprintf("func value %v, code %#x", v.Type(), v.Pointer())
	default:
		s = fmt.Sprintf("value %v of type %v", c31Summary(v, 0), v.Type())
	}
	return s
}

// realPath is the package the names are checked against (differs from the table key only for the stale-path table).
func (c *c31Ctx) realPath(path string) string {
	if path == c31StalePathTable {
		return c31StalePathReal
	}
	return path
}

func (c *c31Ctx) scopeObj(path, name string) (obj types.Object, tp *types.Package, reason string) {
	tp, reason, _ = c.ld.View(c.realPath(path))
	if tp == nil {
		return nil, nil, reason
	}
	return tp.Scope().Lookup(name), tp, ""
}

// noSuchSymbol: the go/types view lacks the name; is it declared in no file of the package at all, whatever the build constraints?
func (c *c31Ctx) noSuchSymbol(path, name string) bool {
	if path == "unsafe" {
		return false
	}
	declared, err := c.ld.DeclaredAnywhere(c.realPath(path), name)
	return err == nil && !declared
}

// ---- stage: bind ---------------------------------------------------------------------------------

func (c *c31Ctx) checkBind(path, name string) (o c31Outcome) {
	pkg := imports.Packages[path]
	v, ok := pkg.Binds[name]
	if !ok {
		o.Skipped = "no such bind"
		return
	}
	o.Table = c31Describe(v)
	if _, isUntyped := pkg.Untypeds[name]; isUntyped {
		o.Class = "untyped-placeholder"
		o.Skipped = "placeholder of an untyped constant: checked by the untyped stage"
		return
	}
	if !v.IsValid() {
		o.Class = "invalid"
		o.bad("the table holds an invalid reflect.Value")
		return
	}
	real := c.realPath(path)
	want := c31SymPrefix(real) + "." + name
	obj, tp, reason := c.scopeObj(path, name)
	if tp != nil && obj == nil {
		if c.noSuchSymbol(path, name) {
			o.Class = "no-such-symbol"
			o.Oracle = "no file of package " + real + " declares " + name
			o.known("bind", path, name, "", "no-such-symbol", "the table binds %s but package %s has no package-level symbol of that name (the bound value is %s)", name, real, c31Describe(v))
			return
		}
		// declared only under other build constraints (the view is built with CGO_ENABLED=0): no oracle
		reason = "name not in the go/types view"
	}
	if obj != nil {
		o.Oracle = obj.String()
	} else {
		o.Oracle = "(no go/types object: " + reason + ")"
	}
	switch {
	case v.CanAddr():
		o.Class = "var"
		if obj != nil {
			if _, isVar := obj.(*types.Var); !isVar {
				o.bad("the table binds an addressable variable, Go declares %s", obj)
				return
			}
			if d := c31TypeCmp(v.Type(), obj.Type(), 0); d != "" && d != "?" {
				o.bad("variable type: %s", d)
			}
		}
		if v.Type().Size() == 0 {
			o.Class = "var-zero-size"
			o.Oracle += "; zero-size variable: address not comparable, checked by type only"
			if obj == nil {
				o.Skipped = "zero-size variable and " + reason
			}
			return
		}
		addr := uint64(v.Addr().Pointer()) - c.elf.bias
		names := c.elf.byAddr[addr]
		found := false
		for _, n := range names {
			if n == want {
				found = true
			}
		}
		o.Oracle += fmt.Sprintf("; ELF symbols at %#x: %v", addr, names)
		if !found {
			where := "absent from the symbol table"
			if a, ok := c.elf.byName[want]; ok {
				where = fmt.Sprintf("at %#x", a)
			}
			o.bad("the table's address %#x is ELF symbol %v, but %s is %s", addr, names, want, where)
		}
	case v.Kind() == reflect.Func:
		o.Class = "func"
		if obj != nil {
			if _, isFunc := obj.(*types.Func); !isFunc {
				o.bad("the table binds a function value (a copy, not addressable), Go declares %s", obj)
				return
			}
			if d := c31TypeCmp(v.Type(), obj.Type(), 0); d != "" && d != "?" {
				o.bad("function type: %s", d)
			}
		}
		if v.IsNil() {
			o.bad("nil function value")
			return
		}
		f := runtime.FuncForPC(v.Pointer())
		got := "<unknown pc>"
		if f != nil {
			got = f.Name()
		}
		o.Oracle += "; runtime.FuncForPC: " + got
		if got != want {
			o.bad("the bound function is %s, want %s", got, want)
		}
	default:
		o.Class = "const"
		if obj == nil {
			o.Skipped = "typed constant and " + reason
			return
		}
		k, isConst := obj.(*types.Const)
		if !isConst {
			o.bad("the table binds a constant value (a copy, not addressable), Go declares %s", obj)
			return
		}
		if b, ok := types.Unalias(k.Type()).(*types.Basic); ok && b.Info()&types.IsUntyped != 0 {
			o.Class = "const-untyped-as-typed"
			o.known("bind", path, name, "", "untyped-as-typed", "Go declares the untyped constant %s but the table has no Untypeds entry: the interpreter sees it as a typed %v", obj, v.Type())
			return
		}
		if d := c31TypeCmp(v.Type(), k.Type(), 0); d != "" && d != "?" {
			o.bad("constant type: %s", d)
		}
		eq, dec := c31ConstEqualTyped(v, k.Val())
		if !dec {
			o.Skipped = "constant of kind " + v.Kind().String() + " not comparable"
			return
		}
		if !eq {
			o.bad("constant value %s differs from Go's %s", c31Summary(v, 0), k.Val().ExactString())
		}
	}
	return
}

// ---- stage: untyped ------------------------------------------------------------------------------

func (c *c31Ctx) checkUntyped(path, name string) (o c31Outcome) {
	pkg := imports.Packages[path]
	s, ok := pkg.Untypeds[name]
	if !ok {
		o.Skipped = "no such Untypeds entry"
		return
	}
	o.Class = "untyped"
	o.Table = strconv.Quote(s)
	kind, val := untyped.Unmarshal(s)
	if kind == untyped.None || val == nil || val.Kind() == constant.Unknown {
		o.bad("Untypeds entry %q does not decode (kind %v)", s, kind)
		return
	}
	o.Class = "untyped-" + kind.String()
	o.Table += fmt.Sprintf(" -> %v %s", kind, fw.Clip(val.ExactString(), 200))
	obj, tp, reason := c.scopeObj(path, name)
	if tp == nil || obj == nil {
		if tp != nil {
			if c.noSuchSymbol(path, name) {
				o.bad("Untypeds entry %s but package %s has no package-level symbol of that name", name, c.realPath(path))
				return
			}
			reason = "name not in the go/types view"
		}
		o.Skipped = reason
		return
	}
	o.Oracle = fw.Clip(obj.String(), 300)
	k, isConst := obj.(*types.Const)
	if !isConst {
		o.bad("Untypeds entry for %s, which Go declares as %s", name, obj)
		return
	}
	b, isBasic := types.Unalias(k.Type()).(*types.Basic)
	if !isBasic || b.Info()&types.IsUntyped == 0 {
		o.bad("Untypeds entry for %s, which Go declares as the typed constant %s", name, obj)
		return
	}
	if wantKind := untyped.GoUntypedToKind(b.Kind()); wantKind != kind {
		o.bad("untyped kind %v, Go says %v (%s)", kind, wantKind, b.Name())
	}
	gv := k.Val()
	o.Oracle += " = " + fw.Clip(gv.ExactString(), 200)
	comparable := func(a, b constant.Kind) bool {
		num := func(k constant.Kind) bool { return k == constant.Int || k == constant.Float || k == constant.Complex }
		return a == b || (num(a) && num(b))
	}
	if !comparable(val.Kind(), gv.Kind()) {
		o.bad("decoded constant has kind %v, Go's has kind %v", val.Kind(), gv.Kind())
		return
	}
	if !constant.Compare(val, token.EQL, gv) {
		o.known("untyped", path, name, "", "value-differs", "decoded value %s differs from Go's value %s", fw.Clip(val.ExactString(), 200), fw.Clip(gv.ExactString(), 200))
		if o.Known != "" {
			return // the placeholder is the current value, the frozen string is the stale one
		}
	} else if val.ExactString() != gv.ExactString() {
		c.r.Count("untyped_equal_but_exactstring_differs", 1)
	}
	// the placeholder bind (only used by the interpreter if the Untypeds entry fails to decode)
	pv, ok := pkg.Binds[name]
	if !ok || !pv.IsValid() {
		o.bad("Untypeds entry without a Binds entry: the interpreter only loads names listed in Binds")
		return
	}
	if pv.CanAddr() {
		o.bad("placeholder bind of an untyped constant is addressable")
		return
	}
	switch pv.Kind() {
	case reflect.Int, reflect.Int8, reflect.Int16, reflect.Int32, reflect.Int64:
		if x, exact := constant.Int64Val(constant.ToInt(gv)); exact && constant.ToInt(gv).Kind() == constant.Int && x != pv.Int() {
			o.bad("placeholder value %d differs from Go's %s", pv.Int(), gv.ExactString())
		}
	case reflect.Uint, reflect.Uint8, reflect.Uint16, reflect.Uint32, reflect.Uint64, reflect.Uintptr:
		if x, exact := constant.Uint64Val(constant.ToInt(gv)); exact && constant.ToInt(gv).Kind() == constant.Int && x != pv.Uint() {
			o.bad("placeholder value %d differs from Go's %s", pv.Uint(), gv.ExactString())
		}
	case reflect.Float32, reflect.Float64:
		f, _ := constant.Float64Val(constant.ToFloat(gv))
		if pv.Kind() == reflect.Float32 {
			f = float64(float32(f))
		}
		if d := math.Abs(pv.Float() - f); d > 1e-12*math.Abs(f) && !(math.IsInf(f, 0) || math.IsInf(pv.Float(), 0)) {
			o.bad("placeholder value %v differs from Go's %v", pv.Float(), f)
		}
	case reflect.String:
		if gv.Kind() == constant.String && constant.StringVal(gv) != pv.String() {
			o.bad("placeholder value %q differs from Go's %s", pv.String(), gv.ExactString())
		}
	case reflect.Bool:
		if gv.Kind() == constant.Bool && constant.BoolVal(gv) != pv.Bool() {
			o.bad("placeholder value %v differs from Go's %s", pv.Bool(), gv.ExactString())
		}
	}
	return
}

// ---- stage: type ---------------------------------------------------------------------------------

func (c *c31Ctx) checkType(path, name string) (o c31Outcome) {
	pkg := imports.Packages[path]
	rt, ok := pkg.Types[name]
	if !ok {
		o.Skipped = "no such type"
		return
	}
	o.Class = "type"
	if rt == nil {
		o.bad("nil reflect.Type")
		return
	}
	o.Table = fmt.Sprintf("%v (PkgPath %q Name %q kind %v)", rt, rt.PkgPath(), rt.Name(), rt.Kind())
	real := c.realPath(path)
	obj, tp, reason := c.scopeObj(path, name)
	direct := rt.PkgPath() == real && rt.Name() == name
	if tp != nil && obj == nil && c.noSuchSymbol(path, name) {
		o.bad("the table lists type %s but package %s has no package-level symbol of that name (the listed type is %v)", name, real, rt)
		return
	}
	if tp == nil || obj == nil {
		if direct {
			o.Oracle = "reflect identity only (" + reason + ")"
			return
		}
		if tp != nil {
			reason = "name not in the go/types view"
		}
		o.Skipped = "not directly the named type and " + reason
		return
	}
	o.Oracle = fw.Clip(obj.String(), 300)
	tn, isType := obj.(*types.TypeName)
	if !isType {
		o.bad("the table lists a type, Go declares %s", obj)
		return
	}
	if tn.IsAlias() {
		o.Class = "type-alias"
		if d := c31TypeCmp(rt, tn.Type(), 0); d == "?" {
			o.Skipped = "alias target not comparable"
		} else if d != "" {
			o.bad("alias %s.%s: %s", real, name, d)
		}
		return
	}
	if path == "unsafe" && name == "Pointer" {
		if rt.Kind() != reflect.UnsafePointer {
			o.bad("unsafe.Pointer has kind %v", rt.Kind())
		}
		return
	}
	if !direct {
		o.bad("reflect type is %q.%s, want %q.%s", rt.PkgPath(), rt.Name(), real, name)
	}
	return
}

// ---- stage: proxy --------------------------------------------------------------------------------

func c31MethodIndex(it reflect.Type, name string) int {
	for i := 0; i < it.NumMethod(); i++ {
		if it.Method(i).Name == name {
			return i
		}
	}
	return -1
}

func (c *c31Ctx) checkProxy(path, name, method string, trial int, kinds map[string]int) (o c31Outcome, res c31ProxyResult) {
	pkg := imports.Packages[path]
	pt, ok := pkg.Proxies[name]
	o.Class = "proxy"
	if !ok || pt == nil {
		o.Skipped = "no such proxy"
		return
	}
	it := pkg.Types[name]
	if it == nil || it.Kind() != reflect.Interface {
		o.bad("proxy %v listed for %s, which the table does not list as an interface type (%v)", pt, name, it)
		return
	}
	mi := c31MethodIndex(it, method)
	if mi < 0 {
		o.Skipped = "no such method"
		return
	}
	g := &c31Gen{rng: c.r.Rng(fmt.Sprintf("proxy/%s/%s/%s/%d", path, name, method, trial)), kinds: kinds}
	res = c31ProxyTrial(it, pt, mi, g)
	o.Table = fmt.Sprintf("proxy %v, layout %s, closures run %v", pt, res.Layout, res.Called)
	o.Oracle = fmt.Sprintf("%v.%s%v with args %v must run exactly %s_ with Object and the same args, and return its results %v", it, method, strings.TrimPrefix(it.Method(mi).Type.String(), "func"), res.Args, method, res.Results)
	o.Issues = res.Issues
	if res.Layout == "no-object" {
		// closures without the leading Object parameter: the pre-Object layout, rejected by Package.Validate
		// (so the package cannot be imported). Forwarding of arguments and results is still checked above.
		o.known("proxy", path, name, "", "no-object", "field %s_ has type %v: it lacks the leading Object parameter that Package.Validate and the interpreter require", method, mustField(pt, method+"_"))
		o.KnownKey = "proxy|" + path + "|" + name
	}
	return
}

func mustField(t reflect.Type, name string) reflect.Type {
	if f, ok := t.FieldByName(name); ok {
		return f.Type
	}
	return nil
}

// ---- stage: wrapper ------------------------------------------------------------------------------

func (c *c31Ctx) checkWrapper(path, name, method string) (o c31Outcome) {
	pkg := imports.Packages[path]
	o.Class = "wrapper"
	listed := false
	for _, m := range pkg.Wrappers[name] {
		if m == method {
			listed = true
		}
	}
	if !listed {
		o.Skipped = "no such wrapper"
		return
	}
	rt := pkg.Types[name]
	o.Table = fmt.Sprintf("Wrappers[%q] lists %q; type %v", name, method, rt)
	if rt == nil {
		o.bad("wrapper list for %s, which is not in Types", name)
		return
	}
	_, inReflect := reflect.PtrTo(rt).MethodByName(method)
	obj, tp, reason := c.scopeObj(path, name)
	if tp == nil || obj == nil {
		if tp != nil {
			reason = "name not in the go/types view"
		}
		if !inReflect {
			o.bad("%s is not in the method set of *%v", method, rt)
		} else {
			o.Skipped = reason
		}
		return
	}
	tn, ok := obj.(*types.TypeName)
	if !ok {
		o.bad("Go declares %s", obj)
		return
	}
	named, ok := types.Unalias(tn.Type()).(*types.Named)
	if !ok {
		o.bad("%s is not a named type in the go/types view", tn)
		return
	}
	for i := 0; i < named.NumMethods(); i++ {
		if named.Method(i).Name() == method {
			o.Oracle = "go/types: " + named.Method(i).String()
			o.known("wrapper", path, name, method, "declared", "method %s is declared on %s itself (%s), it is not a wrapper", method, tn.Name(), named.Method(i))
			return
		}
	}
	mobj, index, _ := types.LookupFieldOrMethod(types.NewPointer(named), false, tp, method)
	if mobj == nil {
		if index != nil && !inReflect {
			// exactly the generator defect: the name is found in several embedded fields at the same depth,
			// so the selector is ambiguous and the type has no such method
			o.Oracle = fmt.Sprintf("go/types: ambiguous selector (field path %v), no such method", index)
			o.Known, o.KnownKey = c31FindAmbiguous, "wrapper|"+path+"|"+name+"|"+method
			o.KnownIssue = fmt.Sprintf("%s is ambiguous between embedded fields of %s at the same depth: it is not a method of the type, yet it is listed as a wrapper", method, tn.Name())
			return
		}
		o.Oracle = "go/types: no such method"
		if inReflect {
			o.bad("go/types finds no method %s on *%s although reflect does", method, tn.Name())
		} else {
			o.known("wrapper", path, name, method, "absent", "%s is not a method of *%s (neither in the reflect method set nor in the go/types view)", method, tn.Name())
		}
		return
	}
	o.Oracle = fmt.Sprintf("go/types: %s via field path %v", mobj, index)
	if !inReflect {
		o.bad("%s is not in the method set of *%v", method, rt)
	}
	if _, isFunc := mobj.(*types.Func); !isFunc {
		o.bad("%s.%s is %s, not a method", tn.Name(), method, mobj)
		return
	}
	if len(index) < 2 {
		o.bad("method %s is not reached through an embedded field (path %v)", method, index)
	}
	return
}

// ---- stage: interp (child processes) ---------------------------------------------------------------

type c31InterpJob struct {
	Pkgs []string `json:"pkgs"`
	Only string   `json:"only,omitempty"` // replay: a single name
}

type c31InterpIssue struct {
	Pkg    string `json:"pkg"`
	Name   string `json:"name"`
	Class  string `json:"class"`
	Expr   string `json:"expr"`
	Table  string `json:"table"`
	Interp string `json:"interp"`
	What   string `json:"what"`
}

type c31InterpPkg struct {
	Pkg     string           `json:"pkg"`
	Checked []string         `json:"checked"` // class|name
	Skipped map[string]int   `json:"skipped"`
	Issues  []c31InterpIssue `json:"issues"`
	Import  string           `json:"import"` // "" ok, else the panic message of `import`
}

// c31UntypedLiteral renders the decoded untyped constant as a Go constant expression of the same untyped kind.
func c31UntypedLiteral(kind untyped.Kind, val constant.Value) (string, bool) {
	switch kind {
	case untyped.Bool:
		if val.Kind() == constant.Bool {
			return strconv.FormatBool(constant.BoolVal(val)), true
		}
	case untyped.String:
		if val.Kind() == constant.String {
			return strconv.Quote(constant.StringVal(val)), true
		}
	case untyped.Int, untyped.Rune:
		if v := constant.ToInt(val); v.Kind() == constant.Int {
			return "(" + v.ExactString() + ")", true
		}
	case untyped.Float:
		v := constant.ToFloat(val)
		if v.Kind() != constant.Float && v.Kind() != constant.Int {
			return "", false
		}
		s := v.ExactString() // digits or digits/digits, optionally signed
		neg := strings.HasPrefix(s, "-")
		s = strings.TrimPrefix(s, "-")
		parts := strings.Split(s, "/")
		for _, p := range parts {
			if p == "" || strings.Trim(p, "0123456789") != "" {
				return "", false
			}
		}
		lit := parts[0] + ".0"
		if len(parts) == 2 {
			lit += "/" + parts[1] + ".0"
		}
		if neg {
			lit = "-" + lit
		}
		return "(" + lit + ")", true
	}
	return "", false
}

// c31FloatResidue returns literals for float64(val) and for the exact residue val - float64(val).
func c31FloatResidue(val constant.Value) (sub, residue string, ok bool) {
	exact, ok1 := new(big.Rat).SetString(constant.ToFloat(val).ExactString())
	if !ok1 {
		return "", "", false
	}
	f, _ := exact.Float64()
	if math.IsInf(f, 0) || math.IsNaN(f) {
		return "", "", false
	}
	approx := new(big.Rat).SetFloat64(f)
	if approx == nil {
		return "", "", false
	}
	lit := func(r *big.Rat) string {
		s := "(" + new(big.Int).Abs(r.Num()).String() + ".0/" + r.Denom().String() + ".0)"
		if r.Sign() < 0 {
			s = "(-" + s + ")"
		}
		return s
	}
	return lit(approx), lit(new(big.Rat).Sub(exact, approx)), true
}

func c31InterpPackage(path string, only string) (res c31InterpPkg) {
	res.Pkg = path
	res.Skipped = map[string]int{}
	pkg := imports.Packages[path]
	ir := fast.New()
	eval := func(src string) (v reflect.Value, perr string) {
		defer func() {
			if e := recover(); e != nil {
				perr = fmt.Sprint(e)
			}
		}()
		vs, _ := ir.Eval(src)
		if len(vs) != 1 {
			return reflect.Value{}, fmt.Sprintf("%d values", len(vs))
		}
		return vs[0].ReflectValue(), ""
	}
	if _, perr := eval(fmt.Sprintf("import c31p %q", path)); perr != "" && perr != "0 values" {
		res.Import = perr
		return
	}
	issue := func(name, class, expr, table, interp, what string) {
		res.Issues = append(res.Issues, c31InterpIssue{path, name, class, expr, table, interp, what})
	}
	var names []string
	for n := range pkg.Binds {
		names = append(names, n)
	}
	sort.Strings(names)
	for _, n := range names {
		if only != "" && n != only {
			continue
		}
		tv := pkg.Binds[n]
		if !tv.IsValid() {
			res.Skipped["invalid-bind"]++
			continue
		}
		if s, ok := pkg.Untypeds[n]; ok {
			kind, val := untyped.Unmarshal(s)
			if kind == untyped.None {
				res.Skipped["untyped-undecodable"]++
				continue
			}
			lit, ok := c31UntypedLiteral(kind, val)
			if !ok {
				res.Skipped["untyped-no-literal"]++
				continue
			}
			expr := "c31p." + n + " == " + lit
			if kind == untyped.Float {
				// exactness: N - float64(N) must be the exact residue, which a constant rounded to float64 cannot give
				if sub, residue, ok := c31FloatResidue(val); ok {
					expr = "c31p." + n + " - " + sub + " == " + residue
				}
			}
			v, perr := eval(expr)
			res.Checked = append(res.Checked, "untyped|"+n)
			if perr != "" {
				issue(n, "untyped", expr, s, "panic: "+perr, "comparing the imported untyped constant with its exact value failed")
			} else if v.Kind() != reflect.Bool || !v.Bool() {
				issue(n, "untyped", expr, s, c31Summary(v, 0), "the imported untyped constant differs from the table's exact value")
			}
			// evaluated on its own, an untyped constant takes its default type
			want := map[untyped.Kind]reflect.Kind{untyped.Bool: reflect.Bool, untyped.Int: reflect.Int, untyped.Rune: reflect.Int32,
				untyped.Float: reflect.Float64, untyped.String: reflect.String}[kind]
			if v, perr := eval("c31p." + n); perr == "" {
				res.Checked = append(res.Checked, "untyped-default-type|"+n)
				if v.Kind() != want || v.Type().PkgPath() != "" {
					issue(n, "untyped", "c31p."+n, s, v.Type().String(), "the imported untyped "+kind.String()+" constant does not take its default type when evaluated")
				}
			} else if !strings.Contains(perr, "overflows") {
				res.Checked = append(res.Checked, "untyped-default-type|"+n)
				issue(n, "untyped", "c31p."+n, s, "panic: "+perr, "evaluating the imported untyped constant failed")
			}
			continue
		}
		switch {
		case tv.CanAddr():
			expr := "&c31p." + n
			v, perr := eval(expr)
			res.Checked = append(res.Checked, "var|"+n)
			table := fmt.Sprintf("%v at %#x", tv.Type(), tv.Addr().Pointer())
			if perr != "" {
				issue(n, "var", expr, table, "panic: "+perr, "taking the address of the imported variable failed")
			} else if v.Kind() != reflect.Ptr || v.Type().Elem() != tv.Type() {
				issue(n, "var", expr, table, fmt.Sprint(v.Type()), "the imported variable has a different type")
			} else if tv.Type().Size() != 0 && v.Pointer() != tv.Addr().Pointer() {
				issue(n, "var", expr, table, fmt.Sprintf("%v at %#x", v.Type().Elem(), v.Pointer()), "the imported variable lives at a different address")
			}
		case tv.Kind() == reflect.Func:
			expr := "c31p." + n
			v, perr := eval(expr)
			res.Checked = append(res.Checked, "func|"+n)
			table := fmt.Sprintf("%v code %#x", tv.Type(), tv.Pointer())
			if perr != "" {
				issue(n, "func", expr, table, "panic: "+perr, "evaluating the imported function failed")
			} else if v.Kind() != reflect.Func || v.Type() != tv.Type() || v.Pointer() != tv.Pointer() {
				interp := fmt.Sprint(v.Type())
				if v.Kind() == reflect.Func {
					interp += fmt.Sprintf(" code %#x", v.Pointer())
				}
				issue(n, "func", expr, table, interp, "the imported function is not the table's function")
			}
		default:
			expr := "c31p." + n
			v, perr := eval(expr)
			res.Checked = append(res.Checked, "const|"+n)
			table := fmt.Sprintf("%v %s", tv.Type(), c31Summary(tv, 0))
			if perr != "" {
				issue(n, "const", expr, table, "panic: "+perr, "evaluating the imported constant failed")
			} else if v.Type() != tv.Type() || c31Same(tv, v, "value") != "" {
				issue(n, "const", expr, table, fmt.Sprintf("%v %s", v.Type(), c31Summary(v, 0)), "the imported constant differs from the table's")
			}
		}
	}
	names = names[:0]
	for n := range pkg.Types {
		names = append(names, n)
	}
	sort.Strings(names)
	for _, n := range names {
		if only != "" && n != only {
			continue
		}
		rt := pkg.Types[n]
		if rt == nil {
			res.Skipped["nil-type"]++
			continue
		}
		// new(T) rather than (*T)(nil): converting nil to a pointer to a recursive type (fast.Stmt) panics in
		// the interpreter whatever the origin of the type, which is not about import tables
		expr := "new(c31p." + n + ")"
		v, perr := eval(expr)
		res.Checked = append(res.Checked, "type|"+n)
		if perr != "" {
			issue(n, "type", expr, rt.String(), "panic: "+perr, "using the imported type failed")
		} else if v.Type() != reflect.PtrTo(rt) {
			issue(n, "type", expr, rt.String(), v.Type().String(), "the imported type is not the table's type")
		}
	}
	return
}

// c31InterpChild: gmverif c31-interp <jobfile> <outfile>
func c31InterpChild(args []string) {
	if len(args) != 2 {
		fmt.Fprintln(os.Stderr, "usage: gmverif c31-interp jobfile outfile")
		os.Exit(2)
	}
	var job c31InterpJob
	data, err := os.ReadFile(args[0])
	if err == nil {
		err = json.Unmarshal(data, &job)
	}
	if err != nil {
		fmt.Fprintln(os.Stderr, err)
		os.Exit(2)
	}
	// gomacro prints warnings while importing: keep them away from the result
	if null, err := os.OpenFile(os.DevNull, os.O_WRONLY, 0); err == nil {
		os.Stdout = null
	}
	var out []c31InterpPkg
	for _, p := range job.Pkgs {
		out = append(out, c31InterpPackage(p, job.Only))
	}
	data, _ = json.Marshal(out)
	if err := os.WriteFile(args[1], data, 0o644); err != nil {
		fmt.Fprintln(os.Stderr, err)
		os.Exit(2)
	}
}

func (c *c31Ctx) runInterp(pkgs []string) ([]c31InterpPkg, error) {
	dir := fw.WorkDir("c31-interp")
	defer os.RemoveAll(dir)
	nw := runtime.NumCPU()
	if nw > 8 {
		nw = 8
	}
	if nw > len(pkgs) {
		nw = len(pkgs)
	}
	if nw < 1 {
		return nil, nil
	}
	shards := make([][]string, nw)
	for i, p := range pkgs {
		shards[i%nw] = append(shards[i%nw], p)
	}
	results := make([][]c31InterpPkg, nw)
	errs := make([]error, nw)
	var wg sync.WaitGroup
	for w := 0; w < nw; w++ {
		wg.Add(1)
		go func(w int) {
			defer wg.Done()
			jf := filepath.Join(dir, fmt.Sprintf("job%d.json", w))
			of := filepath.Join(dir, fmt.Sprintf("out%d.json", w))
			data, _ := json.Marshal(c31InterpJob{Pkgs: shards[w]})
			if err := os.WriteFile(jf, data, 0o644); err != nil {
				errs[w] = err
				return
			}
			self, err := os.Executable()
			if err != nil {
				self = os.Args[0]
			}
			cmd := exec.Command(self, "c31-interp", jf, of)
			cmd.Env = c31GoEnvNoCgoOverride()
			outb, err := cmd.CombinedOutput()
			if err != nil {
				errs[w] = fmt.Errorf("interp worker %d: %v: %s", w, err, fw.Clip(string(outb), 400))
				return
			}
			data, err = os.ReadFile(of)
			if err == nil {
				err = json.Unmarshal(data, &results[w])
			}
			errs[w] = err
		}(w)
	}
	wg.Wait()
	var all []c31InterpPkg
	for w := range results {
		if errs[w] != nil {
			return nil, errs[w]
		}
		all = append(all, results[w]...)
	}
	sort.Slice(all, func(i, j int) bool { return all[i].Pkg < all[j].Pkg })
	return all, nil
}

// environment of the interpreter workers: the sandbox go settings, without forcing CGO_ENABLED
func c31GoEnvNoCgoOverride() []string {
	env := c31GoEnv()
	return env[:len(env)-1]
}

// ---- driver --------------------------------------------------------------------------------------

var c31Core = []string{
	"bufio", "errors", "flag", "fmt", "io", "io/fs", "math", "net", "os", "reflect", "sort", "strings", "sync", "time", "unsafe",
	"github.com/cosmos72/gomacro/imports", "github.com/mattn/go-runewidth", "github.com/peterh/liner",
	"github.com/cosmos72/gomacro/ast2", "github.com/cosmos72/gomacro/xreflect", c31StalePathTable,
}

func (c *c31Ctx) report(rep c31Replay, o c31Outcome) {
	r := c.r
	key := fmt.Sprintf("%s|%s|%s|%s", rep.Stage, rep.Pkg, rep.Name, rep.Method)
	if o.Skipped != "" {
		r.Cover("skipped", rep.Stage+": "+fw.Clip(o.Skipped, 80))
		if os.Getenv("C31_DEBUG") != "" && !strings.HasPrefix(o.Skipped, "placeholder") {
			fmt.Fprintf(os.Stderr, "c31 skipped: %s %s.%s %s: %s\n", rep.Stage, rep.Pkg, rep.Name, rep.Method, o.Skipped)
		}
		return
	}
	r.Eval(1)
	r.Cover("stage", rep.Stage)
	r.Cover("class", o.Class)
	if rep.Stage != "proxy" {
		r.Distinct(key)
	}
	if o.Known != "" && !c.knownOnce[o.KnownKey] {
		c.knownOnce[o.KnownKey] = true
		what := fmt.Sprintf("%s %s.%s %s: %s | table: %s | reference: %s", rep.Stage, rep.Pkg, rep.Name, rep.Method, o.KnownIssue, o.Table, o.Oracle)
		if os.Getenv("C31_DEBUG") != "" {
			fmt.Fprintf(os.Stderr, "c31 known %s: %s\n", o.Known, what)
		}
		r.Known(o.Known, rep, what)
	}
	if len(o.Issues) == 0 {
		return
	}
	what := fmt.Sprintf("%s %s.%s %s: %s | table: %s | reference: %s", rep.Stage, rep.Pkg, rep.Name, rep.Method, strings.Join(o.Issues, "; "), o.Table, o.Oracle)
	if os.Getenv("C31_DEBUG") != "" {
		fmt.Fprintf(os.Stderr, "c31 issue: %s\n", what)
	}
	r.Violation(rep.Stage, rep, what)
}

func checkC31(r *fw.Run) {
	r.SetRule("cases = every entry of the live imports.Packages map of this binary (both tiers, exhaustive): each Binds name, Untypeds string, Types entry, Wrappers (type, method) pair and (proxy, method, trial) triple with reflection-generated random arguments and results (4 trials per method quick, 40 thorough); plus, per package imported into a fast.Interp in a child process (quick: a fixed core + 25 seeded packages, thorough: all), every bound name and type evaluated through Eval. A case is distinct per (stage, package, name[, method]) and, for proxies, per distinct digest of arguments and results. Oracles: runtime.FuncForPC name for functions; the ELF symbol table of /proc/self/exe for variable addresses; go/types (source type-check of this toolchain's packages, exact constant arithmetic) for typed and untyped constants, aliases, object classes and promoted methods; recording closures for proxies; the table itself (address, code pointer, value, reflect type, exact untyped value incl. the residue N - float64(N)) for what Eval shows after import.")
	r.Assume("the harness binary is unstripped ELF and main.c31Anchor fixes the load bias; the Go linker names a package-level variable <escaped import path>.<name> and runtime.FuncForPC names a function the same way")
	r.Assume("go/types type-checking this toolchain's sources with CGO_ENABLED=0 and function bodies ignored yields the exported constants, type names and method sets of the linked packages; names absent from that view are skipped, not flagged")
	r.Assume("reflect.MakeFunc closures and reflect calls through an interface value behave as a compiled caller would; random arguments leave unexported struct fields zero")
	r.Assume("the interpreter stage compares Eval results with the table of the same binary (address, code pointer, value, type); untyped constants are compared inside the interpreter against the exact literal decoded from the table, which the untyped stage has compared with go/types")

	var paths []string
	for p := range imports.Packages {
		paths = append(paths, p)
	}
	sort.Strings(paths)
	for _, p := range paths {
		for _, pt := range imports.Packages[p].Proxies {
			if pt != nil && pt.Kind() == reflect.Struct {
				c31Implementers = append(c31Implementers, reflect.PtrTo(pt))
			}
		}
	}
	sort.Slice(c31Implementers, func(i, j int) bool { return c31Implementers[i].String() < c31Implementers[j].String() })

	c31T0 := time.Now()
	lap := func(what string) {
		r.Extra("seconds_"+what, math.Round(time.Since(c31T0).Seconds()*10)/10)
		if os.Getenv("C31_TIMING") != "" {
			fmt.Fprintf(os.Stderr, "c31 timing: %s at %.1fs\n", what, time.Since(c31T0).Seconds())
		}
	}
	e, err := c31LoadElf()
	if err != nil {
		r.Inconclusive("ELF symbol table of the harness unavailable: " + err.Error())
		return
	}
	ld, err := c31NewLoader(paths)
	if err != nil {
		r.Inconclusive("go/types view unavailable: " + err.Error())
		return
	}
	lap("loaded_elf_and_sources")
	c := &c31Ctx{r: r, elf: e, ld: ld, note: map[string]string{}, knownOnce: map[string]bool{}}
	trials := r.Pick(4, 40)

	if p := fw.ReplayArg(); p != "" {
		var rep c31Replay
		if err := fw.LoadReplay(p, &rep); err != nil {
			panic(err)
		}
		c.replay(rep)
		r.SetMinDistinct(0)
		return
	}

	views, noview := 0, 0
	for _, path := range paths {
		c.checkPackage(path, trials)
		if tp, _, _ := ld.View(c.realPath(path)); tp != nil {
			views++
		} else {
			noview++
		}
	}
	lap("table_stages_done")
	r.Count("packages", int64(len(paths)))
	r.Count("packages_with_gotypes_view", int64(views))
	r.Count("packages_without_gotypes_view", int64(noview))
	if views*10 < len(paths)*9 {
		r.Inconclusive(fmt.Sprintf("go/types view available for only %d of %d packages", views, len(paths)))
	}
	r.Extra("package_notes", c.note)

	// interpreter stage
	var sample []string
	if r.Thorough() {
		sample = paths
	} else {
		in := map[string]bool{}
		for _, p := range c31Core {
			if _, ok := imports.Packages[p]; ok && !in[p] {
				in[p] = true
				sample = append(sample, p)
			}
		}
		rng := r.Rng("interp-sample")
		perm := rng.Perm(len(paths))
		extra := 0
		for _, i := range perm {
			if extra >= 25 {
				break
			}
			if !in[paths[i]] {
				in[paths[i]] = true
				sample = append(sample, paths[i])
				extra++
			}
		}
		sort.Strings(sample)
	}
	if os.Getenv("C31_SKIP_INTERP") != "" {
		r.Inconclusive("interpreter stage skipped on request (C31_SKIP_INTERP)")
		return
	}
	r.Extra("interp_packages", sample)
	r.Extra("table_stages_exhaustive", true)
	res, err := c.runInterp(sample)
	if err != nil {
		r.Inconclusive("interpreter workers failed: " + err.Error())
		return
	}
	lap("interp_stage_done")
	for _, pr := range res {
		c.reportInterp(pr)
	}
	r.Count("interp_packages", int64(len(res)))
	if r.Thorough() {
		r.SetExhaustive(true)
	}
}

func (c *c31Ctx) reportInterp(pr c31InterpPkg) {
	r := c.r
	r.Eval(1)
	r.Cover("stage", "interp-import")
	if pr.Import != "" {
		rep := c31Replay{Stage: "interp", Pkg: pr.Pkg}
		what := fmt.Sprintf("`import %q` in a fast.Interp panicked: %s", pr.Pkg, pr.Import)
		if os.Getenv("C31_DEBUG") != "" {
			fmt.Fprintf(os.Stderr, "c31 import panic: %s\n", what)
		}
		id := ""
		if strings.Contains(pr.Import, "proxy for interface") && strings.Contains(pr.Import, "is invalid") && c.note[pr.Pkg+" proxies"] != "" {
			id = c31KnownShape("interp", pr.Pkg, "", "", "import-rejects-proxy")
		}
		if id != "" {
			r.Known(id, rep, what)
		} else {
			r.Violation("interp-import", rep, what)
		}
		return
	}
	for k := range pr.Skipped {
		r.Cover("skipped", "interp: "+k)
	}
	bad := map[string]bool{}
	for _, is := range pr.Issues {
		bad[is.Class+"|"+is.Name] = true
		if os.Getenv("C31_DEBUG") != "" {
			fmt.Fprintf(os.Stderr, "c31 issue: interp %s.%s (%s): %s | expr: %s | table: %s | interpreter: %s\n", is.Pkg, is.Name, is.Class, is.What, is.Expr, fw.Clip(is.Table, 200), fw.Clip(is.Interp, 300))
		}
		r.Violation("interp", c31Replay{Stage: "interp", Pkg: is.Pkg, Name: is.Name},
			fmt.Sprintf("interp %s.%s (%s): %s | expr: %s | table: %s | interpreter: %s", is.Pkg, is.Name, is.Class, is.What, is.Expr, fw.Clip(is.Table, 200), fw.Clip(is.Interp, 200)))
	}
	for _, k := range pr.Checked {
		r.Eval(1)
		r.Distinct("interp|" + pr.Pkg + "|" + k)
		r.Cover("stage", "interp")
		r.Cover("interp_class", strings.SplitN(k, "|", 2)[0])
	}
	if r.Counter("interp_sampled") < 2 && len(pr.Checked) > 3 {
		r.Count("interp_sampled", 1)
		r.Sample(map[string]interface{}{"stage": "interp", "pkg": pr.Pkg, "names_evaluated": len(pr.Checked), "first": pr.Checked[:3]})
	}
}

func c31Sorted(m interface{}) []string {
	var out []string
	for _, k := range reflect.ValueOf(m).MapKeys() {
		out = append(out, k.String())
	}
	sort.Strings(out)
	return out
}

func (c *c31Ctx) checkPackage(path string, trials int) {
	r := c.r
	pkg := imports.Packages[path]
	r.Cover("package", path)
	// the table key must be the package of its symbols
	if tp, reason, missing := c.ld.View(path); tp == nil {
		if missing {
			// does every function of the table live in one other package?
			other := ""
			consistent := true
			for _, n := range c31Sorted(pkg.Binds) {
				v := pkg.Binds[n]
				if v.IsValid() && !v.CanAddr() && v.Kind() == reflect.Func && !v.IsNil() {
					if f := runtime.FuncForPC(v.Pointer()); f != nil {
						full := f.Name()
						if i := strings.LastIndex(full, "."); i > 0 {
							if other == "" {
								other = full[:i]
							} else if other != full[:i] {
								consistent = false
							}
						}
					}
				}
			}
			rep := c31Replay{Stage: "package", Pkg: path}
			what := fmt.Sprintf("table key %q is not an existing package (%s); its functions belong to %q", path, fw.Clip(reason, 200), other)
			r.Eval(1)
			r.Distinct("package|" + path)
			if id := c31KnownShape("package", path, "", "", "missing-package"); id != "" && path == c31StalePathTable && consistent && other == c31StalePathReal {
				c.note[path] = "stale table key, symbols checked against " + c31StalePathReal
				r.Known(id, rep, what)
			} else {
				r.Violation("package", rep, what)
			}
		} else {
			c.note[path] = "no go/types view: " + fw.Clip(reason, 200)
		}
	}
	for _, n := range c31Sorted(pkg.Binds) {
		rep := c31Replay{Stage: "bind", Pkg: path, Name: n}
		o := c.checkBind(path, n)
		c.report(rep, o)
		if len(o.Issues) == 0 && o.Skipped == "" && r.Counter("sampled_"+o.Class) < 1 {
			r.Count("sampled_"+o.Class, 1)
			r.Sample(map[string]string{"stage": "bind", "pkg": path, "name": n, "class": o.Class, "table": fw.Clip(o.Table, 160), "reference": fw.Clip(o.Oracle, 240)})
		}
	}
	for _, n := range c31Sorted(pkg.Untypeds) {
		o := c.checkUntyped(path, n)
		c.report(c31Replay{Stage: "untyped", Pkg: path, Name: n}, o)
	}
	for _, n := range c31Sorted(pkg.Types) {
		o := c.checkType(path, n)
		c.report(c31Replay{Stage: "type", Pkg: path, Name: n}, o)
	}
	kinds := map[string]int{}
	for _, n := range c31Sorted(pkg.Proxies) {
		it := pkg.Types[n]
		if it == nil || it.Kind() != reflect.Interface {
			o, _ := c.checkProxy(path, n, "", 0, nil)
			c.report(c31Replay{Stage: "proxy", Pkg: path, Name: n}, o)
			continue
		}
		for mi := 0; mi < it.NumMethod(); mi++ {
			m := it.Method(mi).Name
			for t := 0; t < trials; t++ {
				o, res := c.checkProxy(path, n, m, t, kinds)
				c.report(c31Replay{Stage: "proxy", Pkg: path, Name: n, Method: m, Trial: t}, o)
				if o.Skipped == "" {
					r.Distinct(fmt.Sprintf("proxy|%s|%s|%s|%v|%v", path, n, m, res.Args, res.Results))
					r.Cover("proxy_layout", res.Layout)
				}
				if o.Known != "" {
					c.note[path+" proxies"] = "old closure layout (no Object parameter)"
				}
				if len(o.Issues) == 0 && len(res.Args) >= 2 && r.Counter("sampled_proxy") < 1 {
					r.Count("sampled_proxy", 1)
					r.Sample(map[string]interface{}{"stage": "proxy", "pkg": path, "interface": n, "method": m, "args": res.Args, "results": res.Results, "closures_run": res.Called})
				}
				if len(o.Issues) > 0 {
					break // one witness per method
				}
			}
		}
	}
	for k, n := range kinds {
		r.Count("proxy_values_"+k, int64(n))
	}
	for _, n := range c31Sorted(pkg.Wrappers) {
		for _, m := range pkg.Wrappers[n] {
			o := c.checkWrapper(path, n, m)
			c.report(c31Replay{Stage: "wrapper", Pkg: path, Name: n, Method: m}, o)
		}
	}
}

func (c *c31Ctx) replay(rep c31Replay) {
	var o c31Outcome
	switch rep.Stage {
	case "bind":
		o = c.checkBind(rep.Pkg, rep.Name)
	case "untyped":
		o = c.checkUntyped(rep.Pkg, rep.Name)
	case "type":
		o = c.checkType(rep.Pkg, rep.Name)
	case "proxy":
		o, _ = c.checkProxy(rep.Pkg, rep.Name, rep.Method, rep.Trial, nil)
	case "wrapper":
		o = c.checkWrapper(rep.Pkg, rep.Name, rep.Method)
	case "package":
		c.checkPackage(rep.Pkg, 1)
		return
	case "interp":
		res, err := c.runInterp([]string{rep.Pkg})
		if err != nil {
			c.r.Inconclusive(err.Error())
			return
		}
		for _, pr := range res {
			if rep.Name != "" {
				var keep []c31InterpIssue
				for _, is := range pr.Issues {
					if is.Name == rep.Name {
						keep = append(keep, is)
					}
				}
				pr.Issues = keep
			}
			fmt.Printf("replay: import %q: import panic=%q, %d names evaluated, %d discrepancies\n", pr.Pkg, pr.Import, len(pr.Checked), len(pr.Issues))
			for _, is := range pr.Issues {
				fmt.Printf("  %s: table=%s interpreter=%s\n", is.Expr, is.Table, is.Interp)
			}
			c.reportInterp(pr)
		}
		return
	default:
		c.r.Inconclusive("unknown replay stage " + rep.Stage)
		return
	}
	fmt.Printf("replay: %s %s.%s %s trial %d\n  table:     %s\n  reference: %s\n  issues:    %v\n  skipped:   %s\n", rep.Stage, rep.Pkg, rep.Name, rep.Method, rep.Trial, o.Table, o.Oracle, o.Issues, o.Skipped)
	c.report(rep, o)
}
