package main

// C38 — the classic interpreter (github.com/cosmos72/gomacro/classic) matches compiled Go on its
// documented subset. E1 difftrace with an interpreter-side worker that uses classic.New().

import (
	"fmt"
	"os"
	"regexp"
	"strconv"
	"strings"
	"time"

	"gmverif/internal/fw"
)

func init() {
	register("C38", "exploration", checkC38)
	auxCmds["c38gen"] = func(args []string) {
		// debugging aid: print the n-th program of a seed: gmverif c38gen <seed> <n> [known,...]
		var seed, n int
		fmt.Sscan(args[0], &seed)
		fmt.Sscan(args[1], &n)
		os.Setenv("VERIF_SEED", args[0])
		r := fw.NewRun("C38", "exploration")
		known := map[string]bool{}
		if len(args) > 2 {
			for _, k := range strings.Split(args[2], ",") {
				known[k] = true
			}
		}
		p, feats, model := c38Generate(n, r.Rng(fmt.Sprintf("prog-%d", n)), known)
		fmt.Println(p.plainSrc())
		fmt.Println("// features:", feats)
		if model != p.Src {
			fmt.Println("// ---- model of the planted defect:")
			fmt.Println(strings.ReplaceAll(model, "§", ""))
		}
	}
	auxCmds["c38gate"] = func(args []string) {
		// debugging aid: gate errors of the first n programs of a seed
		var n int
		fmt.Sscan(args[1], &n)
		os.Setenv("VERIF_SEED", args[0])
		r := fw.NewRun("C38", "exploration")
		var progs []*Prog
		for i := 0; i < n; i++ {
			p, _, _ := c38Generate(i, r.Rng(fmt.Sprintf("prog-%d", i)), map[string]bool{})
			progs = append(progs, p)
		}
		e1Gate(progs)
		for i, p := range progs {
			if p.Reject {
				fmt.Println(i, p.GateErr)
			}
		}
	}
	auxCmds["c38time"] = func(args []string) {
		// debugging aid: time the first n programs of a seed in the classic interpreter (in-process, sequential)
		var n int
		fmt.Sscan(args[1], &n)
		os.Setenv("VERIF_SEED", args[0])
		r := fw.NewRun("C38", "exploration")
		for i := 0; i < n; i++ {
			p, _, _ := c38Generate(i, r.Rng(fmt.Sprintf("prog-%d", i)), map[string]bool{})
			t0 := time.Now()
			done := make(chan *Result, 1)
			go func() { done <- runProgClassic(p, nil) }()
			select {
			case res := <-done:
				if d := time.Since(t0); d > 300*time.Millisecond {
					fmt.Println(i, d, len(res.Events), res.End)
				}
				if len(args) > 2 {
					np := 0
					for _, e := range res.Events {
						if strings.HasPrefix(e, "-90") {
							np++
						}
					}
					fmt.Println("STAT", i, len(res.Events), np, strings.Count(p.Src, "func §s"), res.End, fw.Clip(res.CompileErr, 200))
				}
			case <-time.After(60 * time.Second):
				fmt.Println(i, "does not finish in 60 s")
				return
			}
		}
	}
	auxCmds["c38both"] = func(args []string) {
		data, err := os.ReadFile(args[0])
		if err != nil {
			panic(err)
		}
		p := &Prog{ID: "both", Src: string(data)}
		e1Gate([]*Prog{p})
		if p.Reject {
			fmt.Println("gate rejects:", p.GateErr)
		}
		p.Reject = false
		ref, dropped, err := refRun("dbg38", []*Prog{p})
		fmt.Println("dropped:", dropped, "err:", err)
		got := runProgClassic(p, nil)
		if ref["both"] != nil {
			ok, diff := cmpResults(ref["both"], got)
			fmt.Println("equal:", ok, diff)
			if !ok {
				fmt.Println("compiled:", ref["both"].Events, ref["both"].End)
				fmt.Println("classic :", got.Events, got.End, got.CompileErr, got.Detail)
			}
		}
	}
}

// known-finding shapes the generator plants deliberately in a small fraction of programs; a program
// carries at most one of them (Mode["known"]) so that the classification stays narrow.
var c38KnownShapes = []string{"recover-define", "recover-results", "grouped-type", "append-spread", "defer-args", "range-live", "variadic-one-arg", "recover-stale-frame", "range-novars"}

var c38RecoverEventRe = regexp.MustCompile(`^-\d+\|string:"`)

func c38IsRecoverEvent(e string) bool { return c38RecoverEventRe.MatchString(e) }

// c38Classifier maps a divergence to a known finding only when the program carries the planted shape
// AND the interpreter's behaviour has that defect's signature: either the trace of an executable model of
// the defect compiled by Go (models: map program id -> compiled trace of Mode["model"]), or the defect's error text.
func c38Classifier(models map[string]*Result) func(p *Prog, ref, got *Result, diff string) string {
	return func(p *Prog, ref, got *Result, diff string) string {
		all := got.CompileErr + " " + got.Detail + " " + strings.Join(got.Events, " ")
		switch p.Mode["known"] {
		case "recover-define":
			// `r := recover()` gives r the dynamic type of the panic value instead of interface{}: `r != nil` fails
			if strings.Contains(all, "unsupported binary operation != between") && strings.Contains(all, "<interface {}>") {
				return "C38-recover-define-dynamic-type"
			}
		case "recover-results":
			// a function with results that recovers from a panic returns no values to reflect.MakeFunc
			if strings.Contains(all, "wrong return count from function created by MakeFunc") {
				return "C38-recover-function-results"
			}
		case "grouped-type":
			// `type ( A ...; B ... )` declares only A
			if strings.Contains(all, "undefined identifier: T") {
				return "C38-grouped-type-decl"
			}
		case "append-spread":
			if strings.Contains(all, "reflect.Value.Convert: value of type []") && strings.Contains(all, "cannot be converted to type") {
				return "C38-append-spread"
			}
		case "variadic-one-arg":
			if strings.Contains(all, "expression returned 1 values, cannot assign them to 2 places") {
				return "C38-variadic-one-arg"
			}
		case "defer-args":
			// model: the arguments of `defer f(x)` are read when the deferred call runs
			if m := models[p.ID]; m != nil {
				if ok, _ := cmpResults(m, got); ok {
					return "C38-defer-args-live"
				}
			}
		case "range-live":
			// model: `for k, e := range x` reads len(x) once but x[k] from the variable's current value
			if m := models[p.ID]; m != nil {
				if ok, _ := cmpResults(m, got); ok {
					return "C38-range-live-variable"
				}
			}
		case "range-novars":
			// model: `for range x { body }` never runs its body
			if m := models[p.ID]; m != nil {
				if ok, _ := cmpResults(m, got); ok {
					return "C38-range-no-variables"
				}
			}
		case "recover-stale-frame":
			// a recovered panic is re-raised by the function whose deferred call recovered it: the trace diverges
			// right after a recover event of class K, and the interpreter goes on with the same panic
			// (the next handler's recover event of class K, or the program ending with that panic)
			n := 0
			for n < len(ref.Events) && n < len(got.Events) && ref.Events[n] == got.Events[n] {
				n++
			}
			if n > 0 && c38IsRecoverEvent(got.Events[n-1]) {
				payload := got.Events[n-1][strings.Index(got.Events[n-1], "|")+1:]
				if n < len(got.Events) && c38IsRecoverEvent(got.Events[n]) && strings.HasSuffix(got.Events[n], "|"+payload) {
					return "C38-recover-stale-frame"
				}
				if cls, err := strconv.Unquote(strings.TrimPrefix(payload, "string:")); err == nil && n == len(got.Events) {
					end := strings.TrimPrefix(got.End, "panic:")
					if end == cls || cls == "runtime" && (end == "divide" || end == "bounds" || end == "nilmap" || end == "nilderef") {
						return "C38-recover-stale-frame"
					}
				}
			}
		}
		return ""
	}
}

// c38Models runs the model texts (Mode["model"]) of the planted programs as compiled Go.
func c38Models(r *fw.Run, progs []*Prog) map[string]*Result {
	var ms []*Prog
	for _, p := range progs {
		if m := p.Mode["model"]; m != "" {
			ms = append(ms, &Prog{ID: p.ID, Src: m})
		}
	}
	out := map[string]*Result{}
	if len(ms) == 0 {
		return out
	}
	e1Gate(ms)
	var valid []*Prog
	for _, m := range ms {
		if !m.Reject {
			valid = append(valid, m)
		}
	}
	if len(valid) == 0 {
		return out
	}
	res, _, err := refRun(r.Prop+"-models", valid)
	if err != nil {
		return out
	}
	return res
}

const c38Rule = "programs are produced by a seeded random generator of terminating, go/types-valid programs over the classic interpreter's documented subset: " +
	"int/float64/string/bool values with their default types, slices, maps, plain structs (nested, in slices and maps, compared with ==), top-level functions (multi-result, variadic, recursive, higher-order, returning closures), " +
	"closures (nested, captured loop variables, stored in slices, passed as arguments), if/else-if with init, 3-clause/condition/infinite/range loops, break/continue, switch (tag, tagless, init, case lists, non-constant cases, fallthrough, default anywhere), " +
	"defer (closures, early-evaluated arguments, in loops), panic (explicit values, divide, bounds, nil map) and recover (also re-panic), typed and untyped constants with iota groups, grouped var declarations, shadowing; " +
	"every program has 3-5 sections each guarded by a deferred recover and calls rec(tag, values...) after most statements; 8 themes rotate the statement mix; " +
	"oracle = event-by-event equality (reflect kind + exact bits of every value, slice len/cap, panic class) with the same source compiled by Go; distinct = distinct program texts with at least one event. " +
	"RESTRICTIONS (classic deviates deliberately, Go leaves the behaviour unspecified, or the feature is outside the subset; never generated): " +
	"(1) only int, float64, string, bool - no sized/unsigned integers, float32, complex, runes, bytes, string indexing or range-over-string values; " +
	"(2) every float64 arithmetic/comparison has at least one non-constant operand (classic folds untyped constants as typed values, Go exactly); no float->int conversion; " +
	"(3) shift counts are constants 0..8 or (e & 7) (classic has no negative-shift panic); a constant shifted by a variable count is wrapped in a call; " +
	"(4) struct field names are exported (reflect.StructOf), no embedded fields, tags, recursive or anonymous struct types, no elided types in composite literals; " +
	"(5) no pointers, methods, interfaces (other than the interface{} holding recover()'s result and rec's arguments), channels, goroutines, arrays, type switches, goto, labelled statements (classic used to hang on them, fixed finding C38-labeled-stmt-hang; its break/continue still ignore the label); " +
	"(6) no named results; (7) user-function calls appear only at the root of a statement's expression with call-free arguments and are never assigned to indexed places (Go leaves the order of calls vs. operand reads and panics unspecified); " +
	"(8) run-time panic classes divide/bounds/nil-map are merged (two panicking operations of one statement may be evaluated in either order); parallel assignments have no indexed places; " +
	"(9) map iteration bodies only accumulate commutatively; (10) package-level initialisers are literals; (11) make() lengths are constants or (e & 7); " +
	"(12) variadic calls pass at least one variadic argument (reflect.Call passes an empty non-nil slice where Go passes nil); (13) a stored string references at most one string variable and s += takes literals (linear growth); " +
	"(14) a name is not shadowed in a block after a function literal was created in that block (classic resolves a closure's identifiers when it runs); " +
	"(15) recover() results are stored with `var r interface{} = recover()'; functions with results never recover; range loops over a variable either cannot reassign it or range over x[:]; defer passes fresh temporaries; the call stack is pre-grown by a 70-deep recursion " +
	"(each of these avoids one finding: 4% of the programs plant exactly one of the nine finding shapes instead - r := recover(); a function with results recovering; a grouped type declaration; append(s, t...); defer f(x) with bare variables; " +
	"range over a variable reassigned in the loop; f(fixed) of a variadic f; no stack pre-growth; for range x without variables - and a divergence of such a program is attributed to the finding only if the interpreter's trace equals that of an executable model of the defect compiled by Go, or shows the defect's specific error text)"

func checkC38(r *fw.Run) {
	r.SetRule(c38Rule)
	r.Assume("go/types + cmd/compile of the installed toolchain (go1.23.5, module language go1.18: per-loop iteration variables) are the reference semantics")
	r.Assume("values are rendered by reflect kind + exact value: classic's struct types (reflect.StructOf) and Go's named structs render alike")
	r.Assume("classic.Interp.Interrupt is not implemented: a 120 s wall-clock watchdog per program only yields 'inconclusive', never a verdict")
	if path := fw.ReplayArg(); path != "" {
		var rep e1Replay
		if err := fw.LoadReplay(path, &rep); err != nil {
			panic(err)
		}
		o := e1Opts{Worker: "c38worker", Classify: c38Classifier(c38Models(r, []*Prog{rep.Prog}))}
		e1ReplayFile(r, path, o)
		return
	}
	n := r.Pick(500, 10000)
	// the compiled reference of a chunk is one Go package: chunks keep it at a size the compiler handles quickly
	const chunk = 1000
	timing := map[string]float64{}
	t0 := time.Now()
	for lo := 0; lo < n; lo += chunk {
		hi := lo + chunk
		if hi > n {
			hi = n
		}
		var progs []*Prog
		feats := map[string][]string{}
		for i := lo; i < hi; i++ {
			rng := r.Rng(fmt.Sprintf("prog-%d", i))
			known := map[string]bool{}
			mode := map[string]string{}
			if i%25 == 7 {
				k := c38KnownShapes[(i/25)%len(c38KnownShapes)]
				known[k] = true
				mode["known"] = k
			}
			p, fs, model := c38Generate(i, rng, known)
			planted := false
			for _, f := range fs {
				if strings.HasPrefix(f, "KNOWN:") {
					planted = true
				}
			}
			if planted {
				if model != p.Src {
					mode["model"] = model
				}
				p.Mode = mode
				r.Count("planted_"+mode["known"], 1)
			}
			feats[p.ID] = fs
			progs = append(progs, p)
		}
		o := e1Opts{Worker: "c38worker", Classify: c38Classifier(c38Models(r, progs))}
		e1Run(r, progs, o)
		for _, p := range progs {
			if p.Reject {
				continue
			}
			for _, f := range feats[p.ID] {
				r.Cover("features", f)
			}
		}
	}
	timing["total"] = time.Since(t0).Seconds()
	r.Extra("timing_all_chunks_s", timing)
	if r.Counter("gate_rejected") > int64(n/10) {
		r.Inconclusive(fmt.Sprintf("generator problem: go/types rejected %d of %d generated programs", r.Counter("gate_rejected"), n))
	}
}
