package main

// C07 — defer / panic / recover: random call trees, every defer entry, recovered value and result recorded.

import (
	"fmt"
	"math/rand"
	"strings"

	"gmverif/internal/fw"
)

func init() { register("C07", "exploration", checkC07) }

type c07Gen struct {
	rng  *rand.Rand
	id   int
	feat map[string]int
	nfun int
}

func (g *c07Gen) tag() int { g.id++; return g.id }

func (g *c07Gen) panicValue() string {
	switch g.rng.Intn(9) {
	case 0:
		return fmt.Sprintf("%q", fmt.Sprintf("boom%d", g.rng.Intn(100)))
	case 1:
		return fmt.Sprint(g.rng.Intn(1000))
	case 2:
		return "2.5"
	case 3:
		return "[]int{1, 2}"
	case 4:
		return "struct{ A int; B string }{7, \"x\"}"
	case 5:
		return "§errv"
	case 6:
		return fmt.Sprintf("§PV{%d}", g.rng.Intn(9))
	case 7:
		return "d*10"
	}
	return "true"
}

// a statement that raises a run-time panic
func (g *c07Gen) runtimePanic() string {
	switch g.rng.Intn(6) {
	case 0:
		return "var z int\nr = 10 / z"
	case 1:
		return "var s []int\nr = s[d+3]"
	case 2:
		return "var m map[string]int\nm[\"k\"] = 1"
	case 3:
		return "var p *§PV\nr = p.V"
	case 4:
		return "var e interface{} = \"str\"\nr = e.(int)"
	}
	return "a := [3]int{}\ni := d + 5\nr = a[i]"
}

func (g *c07Gen) deferStmt(k int) string {
	t := g.tag()
	r := g.rng
	switch r.Intn(19) {
	case 16:
		g.feat["defer-recover-after-calling-function-with-defer"]++
		return fmt.Sprintf("defer func() {\n§withDefer(%d)\nif e := recover(); e != nil {\nrec(%d, pcl(e))\nr = %d\n}\n}()", g.tag(), t, 200+r.Intn(50))
	case 17:
		g.feat["defer-recover-after-calling-function-that-recovers-nothing"]++
		return fmt.Sprintf("defer func() {\n§doRecoverInner(%d)\ne := recover()\nrec(%d, pcl(e))\n}()", g.tag(), t)
	case 18:
		g.feat["defer-recover-after-nested-closure-with-defer"]++
		return fmt.Sprintf("defer func() {\nfunc() { defer func() { rec(%d) }() }()\nrec(%d, pcl(recover()))\n}()", g.tag(), t)
	case 0:
		g.feat["defer-modify-result"]++
		return fmt.Sprintf("defer func() { rec(%d, r); r += %d }()", t, 1+r.Intn(5))
	case 1, 2:
		g.feat["defer-recover"]++
		return fmt.Sprintf("defer func() {\nif e := recover(); e != nil {\nrec(%d, pcl(e))\nr = %d\n}\n}()", t, 100+r.Intn(50))
	case 3:
		g.feat["defer-recover-always"]++
		return fmt.Sprintf("defer func() { e := recover(); rec(%d, e == nil, r) }()", t)
	case 4:
		g.feat["defer-indirect-recover"]++
		return fmt.Sprintf("defer func() { §tryRecover(%d) }()", t)
	case 5:
		g.feat["defer-direct-helper"]++
		return fmt.Sprintf("defer §doRecover(%d)", t)
	case 6:
		g.feat["defer-compiled-func"]++
		return fmt.Sprintf("defer rec(%d, d, r)", t)
	case 7:
		g.feat["defer-in-loop"]++
		return fmt.Sprintf("for i := 0; i < %d; i++ {\ndefer func(i int) { rec(%d, i) }(i)\n}", 2+r.Intn(3), t)
	case 8:
		g.feat["defer-method-value"]++
		return fmt.Sprintf("defer §PV{%d}.m(%d)", r.Intn(9), t)
	case 9:
		g.feat["defer-method-pointer"]++
		return fmt.Sprintf("pv%d := &§PV{%d}\ndefer pv%d.pm(%d)\npv%d.V += 100", t, r.Intn(9), t, t, t)
	case 10:
		g.feat["defer-builtin"]++
		return fmt.Sprintf("m%d := map[int]int{1: 1, 2: 2}\ndefer func() { rec(%d, len(m%d)) }()\ndefer delete(m%d, 1)", t, t, t, t)
	case 11:
		g.feat["defer-repanic"]++
		return fmt.Sprintf("defer func() {\nif e := recover(); e != nil {\nrec(%d, pcl(e))\npanic(%s)\n}\n}()", t, g.panicValue())
	case 12:
		g.feat["defer-panics"]++
		return fmt.Sprintf("defer func() {\nrec(%d)\nif d%%2 == %d { panic(%s) }\n}()", t, r.Intn(2), g.panicValue())
	case 13:
		g.feat["defer-args-evaluated-early"]++
		return fmt.Sprintf("x%d := d + %d\ndefer func(a int) { rec(%d, a, x%d) }(x%d)\nx%d *= 2", t, r.Intn(9), t, t, t, t)
	case 14:
		g.feat["defer-nested-defer"]++
		return fmt.Sprintf("defer func() {\ndefer func() { rec(%d, recover() == nil) }()\nrec(%d)\n}()", t, g.tag())
	}
	g.feat["defer-closure-call-chain"]++
	if k+1 < g.nfun {
		return fmt.Sprintf("defer func() { rec(%d, §f%d(d+1)) }()", t, k+1+r.Intn(g.nfun-k-1))
	}
	return fmt.Sprintf("defer func() { rec(%d) }()", t)
}

func (g *c07Gen) function(k int) string {
	var b strings.Builder
	r := g.rng
	named := r.Intn(4) != 0
	if named {
		fmt.Fprintf(&b, "func §f%d(d int) (r int) {\n", k)
	} else {
		fmt.Fprintf(&b, "func §f%d(d int) int {\nr := 0\n", k)
		g.feat["unnamed-result"]++
	}
	fmt.Fprintf(&b, "rec(%d, d)\nif d > 6 { return d }\n", g.tag())
	n := 2 + r.Intn(6)
	for i := 0; i < n; i++ {
		switch x := r.Intn(12); {
		case x < 5:
			b.WriteString(g.deferStmt(k) + "\n")
		case x < 7 && k+1 < g.nfun:
			callee := k + 1 + r.Intn(g.nfun-k-1)
			switch r.Intn(3) {
			case 0:
				fmt.Fprintf(&b, "r += §f%d(d + 1)\n", callee)
			case 1:
				g.feat["call-in-guarded-closure"]++
				fmt.Fprintf(&b, "func() {\ndefer func() { rec(%d, pcl(recover())) }()\nr += §f%d(d + 1)\n}()\n", g.tag(), callee)
			default:
				fmt.Fprintf(&b, "if d%%2 == 0 { r -= §f%d(d + 2) }\n", callee)
			}
		case x == 7:
			g.feat["panic-user"]++
			fmt.Fprintf(&b, "if d%%3 == %d { panic(%s) }\n", r.Intn(3), g.panicValue())
		case x == 8:
			g.feat["panic-runtime"]++
			fmt.Fprintf(&b, "if d%%3 == %d {\n%s\n}\n", r.Intn(3), g.runtimePanic())
		case x == 9:
			g.feat["recover-outside-defer"]++
			fmt.Fprintf(&b, "rec(%d, recover() == nil)\n", g.tag())
		case x == 10:
			fmt.Fprintf(&b, "r += %d\nrec(%d, r)\n", r.Intn(10), g.tag())
		default:
			g.feat["early-return"]++
			fmt.Fprintf(&b, "if d == %d { return r + %d }\n", r.Intn(4), r.Intn(9))
		}
	}
	fmt.Fprintf(&b, "rec(%d, r)\nreturn r + %d\n}\n", g.tag(), k)
	return b.String()
}

func c07Prog(id int, rng *rand.Rand, feat map[string]int) *Prog {
	g := &c07Gen{rng: rng, feat: feat, nfun: 2 + rng.Intn(5)}
	var b strings.Builder
	b.WriteString("type §PV struct{ V int }\nfunc (p §PV) m(t int) { rec(t, p.V) }\nfunc (p *§PV) pm(t int) { rec(t, p.V); p.V++ }\n")
	b.WriteString("var §errv = []string{\"e\"}\n")
	b.WriteString("func §tryRecover(t int) { rec(t, recover() == nil) }\n")
	b.WriteString("func §doRecover(t int) { rec(t, pcl(recover())) }\n")
	b.WriteString("func §withDefer(t int) { defer func() { rec(t, 1) }(); rec(t, 0) }\n")
	b.WriteString("func §doRecoverInner(t int) { defer func() { rec(t, recover() == nil) }(); rec(t) }\n")
	for k := 0; k < g.nfun; k++ {
		b.WriteString(g.function(k))
	}
	b.WriteString("func §P() {\nfor d := 0; d < 3; d++ {\nfunc() {\ndefer func() { rec(9000, pcl(recover())) }()\nrec(9001, §f0(d))\n}()\n}\nrec(9002, §f0(1))\n}\n")
	return &Prog{ID: fmt.Sprintf("c07-%d", id), Src: b.String(), Cell: "deferpanic"}
}

func checkC07(r *fw.Run) {
	r.SetRule("seeded random call trees of 2-6 functions (depth cut at 7): each function randomly defers closures that modify named results, recover (directly, through a helper called by the deferred function = must return nil, through a deferred helper = must recover, after first calling a function or closure that runs deferred calls of its own), re-panic, panic themselves, nest defers, are deferred in loops, are method values with value and pointer receivers, builtins (delete) and compiled functions, with arguments evaluated at defer time; panics with values of assorted types and run-time panics (divide, index, nil map, nil pointer, type assertion); recover outside deferred calls; every defer entry, recovered value class and result is recorded; the program runs the tree 3 times guarded and once unguarded so that an escaping panic ends the evaluation; oracle = event equality incl. whether and with which value a panic escapes; distinct = distinct program texts")
	r.Assume("go/types + cmd/compile 1.23.5 (language go1.18) are the reference; panic(nil) and recover across the interpreted/compiled boundary (documented limitation) are not generated")
	o := e1Opts{}
	if p := fw.ReplayArg(); p != "" {
		e1ReplayFile(r, p, o)
		return
	}
	rng := r.Rng("progs")
	n := r.Pick(1500, 15000)
	feat := map[string]int{}
	var progs []*Prog
	for i := 0; i < n; i++ {
		progs = append(progs, c07Prog(i, rng, feat))
	}
	r.Extra("features_generated", feat)
	e1Run(r, progs, o)
}
