package main

// C26 workload: line-template sequences, GOROOT/src files, deliveries; and the check driver.

import (
	"fmt"
	gotoken "go/token"
	"os"
	"path/filepath"
	"runtime"
	"sort"
	"strings"
	"sync"

	"gmverif/internal/fw"
)

type c26Family struct {
	name     string
	variants []string
}

func c26BinaryOps() []string {
	return []string{"||", "&&", "==", "!=", "<", "<=", ">", ">=", "+", "-", "|", "^", "*", "/", "%", "<<", ">>", "&", "&^"}
}

func c26AssignOps() []string {
	return []string{"=", ":=", "+=", "-=", "*=", "/=", "%=", "&=", "|=", "^=", "<<=", ">>=", "&^="}
}

func c26Families() []c26Family {
	var opEnd []string
	for _, op := range c26BinaryOps() {
		opEnd = append(opEnd, "x = a "+op)
	}
	opEnd = append(opEnd, "ch <-")
	for _, op := range c26AssignOps() {
		opEnd = append(opEnd, "x "+op)
	}
	opEnd = append(opEnd, "x = !", "x = -", "x = <-", "x = a+", "x = a-", "x = a&^")
	return []c26Family{
		{"assign", []string{"x = 1"}},
		{"ident-end", []string{"x = foo"}},
		{"call", []string{"f()"}},
		{"operand", []string{"y"}},
		{"string", []string{`s = "a // b /* c ( [ { ' \" #! + , \\"`}},
		{"string-tab", []string{"s = \"a\tb ( \" + 'c'"}}, // a literal TAB inside "...": valid Go
		{"rune", []string{`r = '"' + '\'' + '{' + '\\'`}},
		{"raw-1line", []string{"s = `a \" ' // /* ( #! \\`"}},
		{"line-comment", []string{"// c \" ' ( { [ ` /* #! +"}},
		{"blank", []string{""}},
		{"block-comment-1line", []string{`/* c " ( */ x = 2 /* ' { */ // t [`}},
		{"incdec", []string{"x++", "x--"}},
		{"semicolons", []string{"a = 1; b++"}},
		{"float-dot", []string{"x = 1."}},
		{"kw-stop", []string{"return", "break", "continue", "fallthrough"}},
		{"kw-cont", []string{"go", "defer", "var", "const", "for", "switch", "select", "goto", "type", "} else"}},
		{"op-end", opEnd},
		{"op-end-comment", []string{"x = a + // t", "x = a * /* t */", "x = a / // t", "x = a - /* t */ // u", "x, y = 1, // t"}},
		{"comma-end", []string{"x, y = 1,"}},
		{"elem-comma", []string{"3,"}},
		{"open-paren", []string{"f("}},
		{"close-paren", []string{")"}},
		{"open-brace-lit", []string{"v = []int{"}},
		{"close-brace", []string{"}"}},
		{"open-bracket", []string{"m["}},
		{"close-bracket", []string{"0] = 1"}},
		{"if-open", []string{"if x {"}},
		{"else-mid", []string{"} else {"}},
		{"open-brace", []string{"{"}},
		{"var-paren", []string{"var ("}},
		{"func-open", []string{"func g() {"}},
		{"selector-dot", []string{"x = a."}},
		{"label", []string{"L:"}},
		{"raw-open", []string{"s = `r1 \" ' // /* ( {"}},
		{"middle", []string{`mid + ") } ' " // x`}},
		{"raw-close", []string{"r2` + \"z\""}},
		{"bc-open", []string{"x = 3 /* o \" ' ( `"}},
		{"bc-close", []string{"c */ y = 4"}},
		{"bc-stars", []string{"/*** ( **/ x = 6 /**/"}},
		{"slash-paren", []string{"x = a/(b+1)", "if a/(b) > 1 {"}},
	}
}

const c26Hashbang = "#!/usr/bin/env gomacro \" ' ("

// splitmix64: cheap deterministic per-item randomness derived from an r.Rng draw
func c26Mix(x uint64) uint64 {
	x += 0x9e3779b97f4a7c15
	x = (x ^ (x >> 30)) * 0xbf58476d1ce4e5b9
	x = (x ^ (x >> 27)) * 0x94d049bb133111eb
	return x ^ (x >> 31)
}

type c26Rand struct{ s uint64 }

func (r *c26Rand) next() uint64 { r.s = c26Mix(r.s); return r.s }
func (r *c26Rand) intn(n int) int {
	if n <= 1 {
		return 0
	}
	return int(r.next() % uint64(n))
}

// ---------------------------------------------------------------------------------------------

type c26Local struct {
	evals    int
	cover    map[string]map[string]int64
	counts   map[string]int64
	distinct []string
	sampled  int
}

func newC26Local() *c26Local {
	return &c26Local{cover: map[string]map[string]int64{}, counts: map[string]int64{}}
}

func (l *c26Local) cov(table, cell string) {
	m := l.cover[table]
	if m == nil {
		m = map[string]int64{}
		l.cover[table] = m
	}
	m[cell]++
}

type c26Ctx struct {
	r       *fw.Run
	mu      sync.Mutex
	merged  *c26Local
	verbose bool
	shapes  map[string]int // problem shape -> count (diagnostics)
}

func (cx *c26Ctx) flush(l *c26Local) {
	cx.r.Eval(l.evals)
	l.evals = 0
	for _, k := range l.distinct {
		cx.r.Distinct(k)
	}
	l.distinct = l.distinct[:0]
	cx.mu.Lock()
	for t, m := range l.cover {
		d := cx.merged.cover[t]
		if d == nil {
			d = map[string]int64{}
			cx.merged.cover[t] = d
		}
		for c, n := range m {
			d[c] += n
		}
	}
	for c, n := range l.counts {
		cx.merged.counts[c] += n
	}
	cx.mu.Unlock()
	l.cover = map[string]map[string]int64{}
	l.counts = map[string]int64{}
}

// deliveries of one analysed input
func c26Deliveries(in *c26Input, rnd *c26Rand, npieces int) []*c26Case {
	mk := func(delivery, caller string) *c26Case {
		return &c26Case{Label: in.label, Input: in.input, Delivery: delivery, Caller: caller}
	}
	cases := []*c26Case{mk("bufreadline", "evalreader"), mk("bufreadline", "repl")}
	callers := []string{"evalreader", "repl", "repl-prompt"}
	n := len(in.lineEnds)
	if n == 0 {
		return cases
	}
	// whole buffer in one Read
	w := mk("pieces", callers[rnd.intn(3)])
	w.Cuts = []int{len(in.input)}
	w.EOFLast = rnd.intn(2) == 0
	cases = append(cases, w)
	if n < 2 {
		return cases
	}
	for k := 0; k < npieces; k++ {
		c := mk("pieces", callers[rnd.intn(3)])
		for j, e := range in.lineEnds {
			if j == n-1 || rnd.intn(2) == 0 {
				c.Cuts = append(c.Cuts, e)
			}
		}
		c.EOFLast = rnd.intn(4) == 0
		if len(c.Cuts) == 1 || len(c.Cuts) == n {
			// same as whole buffer / as line by line: force one inner cut resp. one join
			j := rnd.intn(n - 1)
			if len(c.Cuts) == 1 {
				c.Cuts = []int{in.lineEnds[j], len(in.input)}
			} else {
				c.Cuts = append(append([]int{}, in.lineEnds[:j]...), in.lineEnds[j+1:]...)
			}
		}
		cases = append(cases, c)
	}
	return cases
}

// c26LineCommentInsidePiece: some piece holds a line comment followed by further lines of the same piece
func c26LineCommentInsidePiece(in *c26Input, c *c26Case) bool {
	if c.Delivery != "pieces" {
		return false
	}
	for _, lc := range in.lx.lineComments {
		nl := strings.IndexByte(in.input[lc:], '\n')
		if nl < 0 {
			continue
		}
		end := lc + nl + 1 // offset after the comment's newline
		i := sort.SearchInts(c.Cuts, end)
		// the piece containing the comment ends at c.Cuts[j] >= end, j = first cut >= end
		if i < len(c.Cuts) && c.Cuts[i] > end {
			return true
		}
	}
	return false
}

func (cx *c26Ctx) runInput(in *c26Input, cases []*c26Case, l *c26Local) {
	l.cov("input_kind", map[string]string{"": "lexical-only", "decls": "complete declarations", "stmts": "complete statements"}[in.valid])
	if in.valid != "" && !in.forkOK {
		l.counts["valid_input_rejected_by_gomacro_parser"]++
	}
	if !in.lx.goSource() {
		l.counts["not_go_source_concat_only"]++
	}
	if in.headerBreak {
		l.counts["line_break_inside_if_for_switch_header_lexical_only"]++
	}
	for f := range in.lx.features {
		l.cov("lexical_feature", f)
	}
	for _, c := range cases {
		chunks, herr := c26Run(c)
		probs, ncmp := in.check(c, chunks, herr)
		l.evals += ncmp
		kind := c.Delivery
		if c.Delivery == "pieces" && len(c.Cuts) == 1 {
			kind = "whole-buffer"
		}
		l.cov("delivery", kind+"/"+c.Caller)
		if in.illegal > 0 {
			l.distinct = append(l.distinct, fw.Hash(in.input)+kind+c.Caller+fmt.Sprint(c.Cuts, c.EOFLast))
		}
		if len(probs) == 0 && in.lx.goSource() && !in.lx.negDepth {
			if in.illegal > 0 && in.valid != "" && len(chunks) > 1 && l.sampled < 2 && !strings.HasPrefix(in.label, "file:") &&
				(l.sampled == 0 && c.Delivery == "bufreadline" || l.sampled == 1 && c.Delivery == "pieces" && len(c.Cuts) > 1) {
				l.sampled++
				var texts []string
				for _, ck := range chunks {
					texts = append(texts, ck.Text)
				}
				cx.r.Sample(map[string]interface{}{"templates": in.label, "input": in.input, "delivery": c.Delivery, "caller": c.Caller, "cuts": c.Cuts, "chunks": texts, "standard_parser": in.valid})
			}
			// what was observed: where the reader stopped and where it went on
			off := 0
			ends := map[int]bool{}
			for _, ck := range chunks {
				off += len(ck.Text)
				ends[off] = true
				if off < len(in.input) && in.valid != "" {
					if t := c26LastTok(in.toks, off); t != nil {
						l.cov("chunk_ended_after_in_complete_sequences", t.tok.String())
					}
				}
			}
			pieceEnds := in.lineEnds
			if c.Delivery == "pieces" {
				pieceEnds = c.Cuts
			}
			for _, e := range pieceEnds {
				if e < len(in.input) && !ends[e] {
					if ok, why := in.mayEndAt(e); !ok {
						cell := why
						if strings.HasPrefix(why, "statement") {
							if t := c26LastTok(in.toks, e); t != nil {
								cell = "after " + t.tok.String()
							}
						} else if strings.HasPrefix(why, "inside") && strings.Contains(why, "bracket") {
							cell = "inside bracket"
						}
						l.cov("continued_because", cell)
					} else {
						l.cov("continued_because", "(joined although a chunk could end)")
					}
				}
			}
			if n := len(chunks); n < 8 {
				l.cov("chunks_per_run", fmt.Sprint(n))
			} else {
				l.cov("chunks_per_run", "8+")
			}
		}
		if len(probs) != 0 {
			cx.report(in, c, chunks, probs)
		}
	}
}

type c26Replay struct {
	Case   c26Case    `json:"case"`
	Chunks []c26Chunk `json:"chunks"`
}

// Defects of base/read.go found by this check. Each is recognised as narrowly as possible, either causally
// (the discrepancy disappears when the trigger is neutralised in the input / delivery) or by the exact local shape.
const (
	c26FindLineComment = "C26-line-comment-swallows-rest-of-read"            // a '//' or '#!' comment is not ended by '\n' inside one Read
	c26FindSlash       = "C26-slash-swallows-next-char"                      // after a division '/', the next character is not interpreted
	c26FindCtrl        = "C26-control-char-in-string-rejected"               // TAB etc. inside "..." / '...' is a read error and drops the rest of the line
	c26FindStars       = "C26-block-comment-closed-by-even-stars-missed"     // "**/" (an even number of '*' before '/') does not close a /* */ comment
	c26FindDot         = "C26-trailing-dot-cut"                              // 'x.' + newline + 'f()' is cut after the dot
	c26FindLabel       = "C26-label-cut"                                     // 'L:' + newline + statement is cut after the colon
	c26FindKeyword     = "C26-keyword-check-uses-chunk-offsets-on-last-line" // lastIsKeywordIgnoresNl slices the last Read with offsets of the whole chunk
)

func (cx *c26Ctx) report(in *c26Input, c *c26Case, chunks []c26Chunk, probs []c26Problem) {
	rep := c26Replay{Case: *c, Chunks: chunks}
	if len(rep.Case.Input) > 4000 && strings.HasPrefix(c.Label, "file:") {
		rep.Case.Input = "" // reloaded from the file named by the label
		rep.Chunks = nil
	}
	orig := c26Describe(c, chunks)
	known := func(id string, p c26Problem) {
		cx.r.Known(id, rep, p.what+" :: "+orig)
		cx.diag(id, c, p.what+" :: "+orig)
	}
	// causal attribution: neutralise one trigger at a time, re-run the same delivery, see what disappears
	rerun := func(in2 *c26Input, c2 *c26Case) []c26Problem {
		ch2, herr := c26Run(c2)
		p2, _ := in2.check(c2, ch2, herr)
		chunks = ch2
		return p2
	}
	if c.Delivery == "pieces" && c26LineCommentInsidePiece(in, c) {
		c2 := *c
		c2.Cuts = c26CutAfterLineComments(in, c.Cuts)
		p2 := rerun(in, &c2)
		if len(p2) < len(probs) {
			known(c26FindLineComment, probs[0])
		}
		probs, c = p2, &c2 // the neutralised delivery is a test case of its own: go on with it either way
	}
	if len(probs) > 0 && len(in.lx.ctrlOffsets) > 0 {
		b := []byte(in.input)
		for _, o := range in.lx.ctrlOffsets {
			b[o] = ' '
		}
		in2 := c26Analyse(in.label, string(b), false)
		c2 := *c
		c2.Input = in2.input
		p2 := rerun(in2, &c2)
		if len(p2) < len(probs) {
			known(c26FindCtrl, probs[0])
		}
		probs, c, in = p2, &c2, in2
	}
	if len(probs) > 0 && len(in.lx.commentStars) > 0 {
		b := []byte(in.input)
		for _, o := range in.lx.commentStars {
			b[o] = '.'
		}
		in2 := c26Analyse(in.label, string(b), false)
		c2 := *c
		c2.Input = in2.input
		p2 := rerun(in2, &c2)
		if len(p2) < len(probs) {
			known(c26FindStars, probs[0])
		}
		probs, c, in = p2, &c2, in2
	}
	if len(probs) > 0 && len(in.lx.slashPairs) > 0 {
		var b []byte
		prev := 0
		cuts := append([]int(nil), c.Cuts...)
		for _, o := range in.lx.slashPairs {
			if in.input[o+1] == '=' {
				continue // "/ =" would be other tokens; see the local shape below
			}
			b = append(b, in.input[prev:o+1]...)
			b = append(b, ' ')
			prev = o + 1
			for i, e := range c.Cuts {
				if e > o {
					cuts[i]++
				}
			}
		}
		b = append(b, in.input[prev:]...)
		in2 := c26Analyse(in.label, string(b), false)
		c2 := *c
		c2.Input, c2.Cuts = in2.input, cuts
		p2 := rerun(in2, &c2)
		if len(p2) < len(probs) {
			known(c26FindSlash, probs[0])
		}
		probs, c, in = p2, &c2, in2
	}
	// what is left: exact local shapes, else a violation
	seen := map[string]bool{}
	for _, p := range probs {
		id := ""
		if p.tag == "boundary-statement" {
			switch {
			case p.after == gotoken.PERIOD:
				id = c26FindDot
			case p.after == gotoken.COLON:
				id = c26FindLabel
			case p.after == gotoken.QUO_ASSIGN:
				id = c26FindSlash
			case p.after.IsKeyword() && c26ChunkSpansReads(in, c, p.start, p.end):
				id = c26FindKeyword
			}
		}
		if seen[p.tag+id] {
			continue
		}
		seen[p.tag+id] = true
		what := p.what + " :: " + orig
		if c.Input != rep.Case.Input && rep.Case.Input != "" {
			what = "(left after neutralising known triggers: " + c26Describe(c, chunks) + ") " + what
		}
		if id != "" {
			cx.r.Known(id, rep, what)
			cx.diag(id, c, what)
		} else {
			cx.r.Violation(p.tag, rep, what)
			cx.diag("UNEXPLAINED "+p.tag+fmt.Sprintf(" after=%v", p.after), c, what)
		}
	}
}

func (cx *c26Ctx) diag(key string, c *c26Case, what string) {
	if !cx.verbose {
		return
	}
	cx.mu.Lock()
	key += " " + c.Delivery
	cx.shapes[key]++
	if cx.shapes[key] <= 2 || strings.HasPrefix(key, "UNEXPLAINED") && cx.shapes[key] <= 6 {
		fmt.Fprintf(os.Stderr, "PROBLEM %s: %s\n", key, fw.Clip(what, 900))
	}
	cx.mu.Unlock()
}

// c26CutAfterLineComments adds a cut after every line that holds a line comment
func c26CutAfterLineComments(in *c26Input, cuts []int) []int {
	set := map[int]bool{}
	for _, e := range cuts {
		set[e] = true
	}
	for _, lc := range in.lx.lineComments {
		if nl := strings.IndexByte(in.input[lc:], '\n'); nl >= 0 {
			set[lc+nl+1] = true
		}
	}
	out := make([]int, 0, len(set))
	for e := range set {
		out = append(out, e)
	}
	sort.Ints(out)
	return out
}

// c26ChunkSpansReads: was the chunk [start,end) assembled from more than one Read?
func c26ChunkSpansReads(in *c26Input, c *c26Case, start, end int) bool {
	ends := in.lineEnds
	if c.Delivery == "pieces" {
		ends = c.Cuts
	}
	i := sort.SearchInts(ends, start+1)
	return i < len(ends) && ends[i] < end
}

// ---------------------------------------------------------------------------------------------

func c26GorootFiles() []string {
	root, err := filepath.EvalSymlinks(filepath.Join(runtime.GOROOT(), "src"))
	if err != nil {
		return nil
	}
	var files []string
	filepath.Walk(root, func(path string, info os.FileInfo, err error) error {
		if err == nil && !info.IsDir() && strings.HasSuffix(path, ".go") {
			files = append(files, path)
		}
		return nil
	})
	sort.Strings(files)
	return files
}

func checkC26(r *fw.Run) {
	r.SetRule("inputs = every sequence of <=3 (quick) / <=4 (thorough) line templates out of 40 families (strings, raw strings and /* */ spanning lines, runes, // comments, leading #!, brackets opened/closed across lines, lines ending in each binary/assignment operator, comma, opening bracket, ++/--, stop keywords vs continuing keywords, trailing selector dot, label) with every variant of the first multi-variant family, plus GOROOT/src files (seeded sample / all); each input is delivered through the real BufReadline line by line with EvalReader's and Repl's options, as one buffer, and in seeded multi-line pieces. A case = (input, delivery, caller options, cuts); distinct non-trivial = distinct cases whose input has at least one line end where a chunk must not end. Oracle: chunks concatenate to the input (leading #! -> //); a tiny lexer says every chunk boundary is in normal mode at bracket depth 0; if the Go standard parser accepts the input as complete declarations/statements, go/scanner says a statement ended before every boundary and gomacro's parser accepts every chunk")
	r.Assume("go/scanner and go/parser of the Go 1.23 standard library define where a top-level statement ends (automatic semicolon at bracket depth 0)")
	r.Assume("inputs containing '~' or '#' outside literals/comments (gomacro quoting and generics syntax, Go 1.18 constraints) or a newline inside an interpreted string are outside the property: only concatenation is compared for them")
	r.Assume("chunk parsing is asserted only when gomacro's parser accepts the whole input (the parser's own limitations are other properties)")
	r.Assume("how many chunks are returned is recorded, not asserted")
	r.Assume("a line break after the ';' (written or inserted by the newline) inside the header of a top-level if/for/switch is not covered: such inputs get the lexical oracles only")

	cx := &c26Ctx{r: r, merged: newC26Local(), shapes: map[string]int{}, verbose: os.Getenv("C26_VERBOSE") != ""}

	if p := fw.ReplayArg(); p != "" {
		c26DoReplay(cx, p)
		return
	}

	fams := c26Families()
	maxLen := r.Pick(3, 4)
	pieceSeed := uint64(r.Rng("pieces").Int63())
	variantSeed := uint64(r.Rng("variants").Int63())
	nworkers := runtime.NumCPU()

	// ---- (1) template sequences --------------------------------------------------------------
	type job struct {
		length int
		lo, hi int // tuple index range
	}
	jobs := make(chan job, 64)
	var wg sync.WaitGroup
	F := len(fams)
	for w := 0; w < nworkers; w++ {
		wg.Add(1)
		go func() {
			defer wg.Done()
			l := newC26Local()
			idx := make([]int, 4)
			lines := make([]string, 0, 5)
			for jb := range jobs {
				for t := jb.lo; t < jb.hi; t++ {
					x := t
					multi := -1
					for k := jb.length - 1; k >= 0; k-- {
						idx[k] = x % F
						x /= F
					}
					for k := 0; k < jb.length; k++ {
						if len(fams[idx[k]].variants) > 1 {
							multi = k
							break
						}
					}
					rnd := &c26Rand{s: c26Mix(variantSeed ^ uint64(jb.length)<<40 ^ uint64(t))}
					nvar := 1
					if multi >= 0 && jb.length <= 3 {
						nvar = len(fams[idx[multi]].variants)
					}
					// fixed random variants for the other multi-variant positions
					other := [4]int{}
					for k := 0; k < jb.length; k++ {
						other[k] = rnd.intn(len(fams[idx[k]].variants))
					}
					for v := 0; v < nvar; v++ {
						lines = lines[:0]
						var names []string
						for k := 0; k < jb.length; k++ {
							vi := other[k]
							if k == multi && nvar > 1 {
								vi = v
							}
							lines = append(lines, fams[idx[k]].variants[vi])
							names = append(names, fams[idx[k]].name)
							if v == 0 {
								l.cov("family_at_position", fmt.Sprintf("%s@%d/%d", fams[idx[k]].name, k, jb.length))
							}
						}
						label := strings.Join(names, " | ")
						variants := []string{strings.Join(lines, "\n") + "\n"}
						hb := jb.length < maxLen
						if hb {
							variants = append(variants, c26Hashbang+"\n"+variants[0])
						}
						if rnd.intn(8) == 0 {
							variants = append(variants, strings.TrimSuffix(variants[0], "\n")) // last line without newline
						}
						for vi, input := range variants {
							lab := label
							if vi == 1 && hb {
								lab = "hashbang | " + label
							}
							in := c26Analyse(lab, input, true)
							if in.valid != "" && multi >= 0 {
								l.cov("variant_in_complete_sequence", fams[idx[multi]].variants[map[bool]int{true: v, false: other[multi]}[nvar > 1]])
							}
							prnd := &c26Rand{s: c26Mix(pieceSeed ^ uint64(jb.length)<<40 ^ uint64(t)<<8 ^ uint64(v)<<2 ^ uint64(vi))}
							cx.runInput(in, c26Deliveries(in, prnd, r.Pick(2, 3)), l)
						}
					}
				}
				cx.flush(l)
			}
		}()
	}
	for length := 1; length <= maxLen; length++ {
		total := 1
		for k := 0; k < length; k++ {
			total *= F
		}
		step := 500
		for lo := 0; lo < total; lo += step {
			hi := lo + step
			if hi > total {
				hi = total
			}
			jobs <- job{length, lo, hi}
		}
	}
	close(jobs)
	wg.Wait()
	r.SetExhaustive(true)
	r.Extra("template_families", F)
	r.Extra("max_sequence_length", maxLen)

	// ---- (2) GOROOT/src files ----------------------------------------------------------------
	files := c26GorootFiles()
	if len(files) < 1000 {
		r.Inconclusive(fmt.Sprintf("only %d GOROOT/src files found", len(files)))
	}
	if !r.Thorough() {
		rng := r.Rng("files")
		rng.Shuffle(len(files), func(i, j int) { files[i], files[j] = files[j], files[i] })
		if len(files) > 700 {
			files = files[:700]
		}
	}
	fjobs := make(chan int, 64)
	for w := 0; w < nworkers; w++ {
		wg.Add(1)
		go func() {
			defer wg.Done()
			l := newC26Local()
			for i := range fjobs {
				data, err := os.ReadFile(files[i])
				if err != nil || len(data) == 0 {
					continue
				}
				in := c26Analyse("file:"+files[i], string(data), false)
				l.counts["goroot_files"]++
				if in.valid != "" {
					l.counts["goroot_files_valid"]++
				}
				prnd := &c26Rand{s: c26Mix(pieceSeed ^ c26Mix(uint64(len(data))) ^ uint64(i))}
				cx.runInput(in, c26Deliveries(in, prnd, r.Pick(1, 3)), l)
				cx.flush(l)
			}
		}()
	}
	for i := range files {
		fjobs <- i
	}
	close(fjobs)
	wg.Wait()

	// ---- (3) the interpreter's own entry point -----------------------------------------------------
	{
		rng := r.Rng("interp")
		var inputs []*c26Input
		for k := 0; k < r.Pick(400, 4000); k++ {
			n := 2 + rng.Intn(3)
			var lines, names []string
			for j := 0; j < n; j++ {
				f := fams[rng.Intn(F)]
				lines = append(lines, f.variants[rng.Intn(len(f.variants))])
				names = append(names, f.name)
			}
			inputs = append(inputs, c26Analyse(strings.Join(names, " | "), strings.Join(lines, "\n")+"\n", true))
		}
		for k := 0; k < r.Pick(20, 200) && k < len(files); k++ {
			path := files[rng.Intn(len(files))]
			if data, err := os.ReadFile(path); err == nil && len(data) > 0 {
				inputs = append(inputs, c26Analyse("file:"+path, string(data), false))
			}
		}
		l := newC26Local()
		cx.interpPart(inputs, l)
		cx.flush(l)
	}
	r.Extra("tables", cx.merged.cover) // same place as fw.Cover tables, filled from per-worker counters
	for c, n := range cx.merged.counts {
		r.Count(c, n)
	}
	if cx.verbose {
		keys := []string{}
		for k := range cx.shapes {
			keys = append(keys, k)
		}
		sort.Strings(keys)
		for _, k := range keys {
			fmt.Fprintf(os.Stderr, "SHAPE %-40s %d\n", k, cx.shapes[k])
		}
	}
}

func c26DoReplay(cx *c26Ctx, path string) {
	var rep c26Replay
	if err := fw.LoadReplay(path, &rep); err != nil {
		panic(err)
	}
	c := rep.Case
	if c.Input == "" && strings.HasPrefix(c.Label, "file:") {
		data, err := os.ReadFile(strings.TrimPrefix(c.Label, "file:"))
		if err != nil {
			panic(err)
		}
		c.Input = string(data)
	}
	in := c26Analyse(c.Label, c.Input, false)
	chunks, herr := c26Run(&c)
	fmt.Printf("replay: %s delivery=%s caller=%s cuts=%v\n", c.Label, c.Delivery, c.Caller, c.Cuts)
	fmt.Printf("input (%d bytes) standard parser: %q, gomacro parser accepts whole: %v\n", len(c.Input), in.valid, in.forkOK)
	off := 0
	for k, ck := range chunks {
		off += len(ck.Text)
		ok, why := in.mayEndAt(off)
		if off == len(c.Input) {
			ok, why = true, "end of input"
		}
		fmt.Printf("  chunk %d firstToken=%d err=%q ends at %d: oracle mayEnd=%v %s\n    %q\n", k, ck.FirstToken, ck.Err, off, ok, why, fw.Clip(ck.Text, 300))
	}
	probs, _ := in.check(&c, chunks, herr)
	for _, p := range probs {
		fmt.Printf("  problem %s: %s\n", p.tag, fw.Clip(p.what, 400))
	}
	cx.r.Eval(1 + len(chunks))
	cx.r.SetMinDistinct(0)
	if len(probs) != 0 {
		cx.report(in, &c, chunks, probs)
	}
}
