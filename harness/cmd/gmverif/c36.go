package main

// C36 — code completion (fast.Interp.CompleteWords) against a reference computed from the
// harness's own record of the declarations it evaluated, type-checked by the standard
// library go/types, plus the Go keyword list, the interpreter's predeclared names and the
// import tables.

import (
	"bytes"
	"fmt"
	"go/token"
	"runtime"
	"sort"
	"strings"
	"sync"
	"time"

	"github.com/cosmos72/gomacro/fast"
	"github.com/cosmos72/gomacro/imports"

	"gmverif/internal/fw"
)

func init() { register("C36", "exploration", checkC36) }

type c36Replay struct {
	History []c36Decl `json:"history"`
	Line    string    `json:"line"`
	Pos     int       `json:"pos"` // cursor as a rune index (the liner.WordCompleter contract)
	Must    []string  `json:"must,omitempty"`
	Got     []string  `json:"got,omitempty"`
	Head    string    `json:"head,omitempty"`
	Tail    string    `json:"tail,omitempty"`
}

// ---------------------------------------------------------------- real side

type c36Interp struct {
	ir      *fast.Interp
	out     *bytes.Buffer
	lastErr string
}

func c36NewInterp() *c36Interp {
	ci := &c36Interp{ir: fast.New(), out: &bytes.Buffer{}}
	ci.ir.Comp.Globals.Stdout = ci.out
	ci.ir.Comp.Globals.Stderr = ci.out
	return ci
}

func (ci *c36Interp) eval(src string) (ok bool) {
	defer func() {
		if e := recover(); e != nil {
			ok = false
			ci.lastErr = fmt.Sprint(e)
		}
		ci.out.Reset()
	}()
	ci.ir.Eval(src)
	return true
}

func (ci *c36Interp) complete(line string, pos int) (head string, comps []string, tail string, panicMsg string) {
	ci.out.Reset()
	head, comps, tail = ci.ir.CompleteWords(line, pos)
	if ci.out.Len() != 0 {
		panicMsg = ci.out.String()
		ci.out.Reset()
	}
	return
}

// c36Predeclared reads the names a fresh interpreter has in scope before any declaration.
func c36Predeclared() (all []string, typeNames map[string]bool) {
	ir := fast.New()
	set := map[string]bool{}
	typeNames = map[string]bool{}
	for c := ir.Comp; c != nil; c = c.Outer {
		for n := range c.Binds {
			set[n] = true
		}
		for n := range c.Types {
			set[n] = true
			typeNames[n] = true
		}
	}
	for n := range set {
		all = append(all, n)
	}
	sort.Strings(all)
	return all, typeNames
}

func c36Keywords() []string {
	var out []string
	for t := token.Token(0); t < 200; t++ {
		if t.IsKeyword() {
			out = append(out, t.String())
		}
	}
	return append(out, "macro")
}

var c36MembersMu sync.Mutex
var c36MembersMemo = map[string]map[string]bool{}

// c36ImportMembers: the import-table names of a package (data, not completion code).
func c36ImportMembers(path string) map[string]bool {
	c36MembersMu.Lock()
	defer c36MembersMu.Unlock()
	if m, ok := c36MembersMemo[path]; ok {
		return m
	}
	m := map[string]bool{}
	if p, ok := imports.Packages[path]; ok {
		for n := range p.Binds {
			m[n] = true
		}
		for n := range p.Types {
			m[n] = true
		}
	}
	c36MembersMemo[path] = m
	return m
}

// ---------------------------------------------------------------- one case

type c36Ctx struct {
	r           *fw.Run
	predeclared []string
	predTypes   map[string]bool
	keywords    []string
	verbose     bool
	mu          sync.Mutex
	knownOnce   map[string]bool
	refused     []string
}

func (cx *c36Ctx) known(id string, rep c36Replay, what string) {
	cx.r.Count("finding:"+id, 1)
	cx.mu.Lock()
	first := !cx.knownOnce[id]
	cx.knownOnce[id] = true
	cx.mu.Unlock()
	if first {
		cx.r.Known(id, rep, what)
	}
}

func (cx *c36Ctx) violation(tag string, rep c36Replay, what string) {
	cx.r.Count("violation:"+tag, 1)
	cx.r.Violation(tag, rep, what)
}

func c36SizeBucket(n int) string {
	switch {
	case n == 0:
		return "0"
	case n == 1:
		return "1"
	case n <= 4:
		return "2-4"
	case n <= 16:
		return "5-16"
	}
	return ">16"
}

// checkCase compares CompleteWords(line, pos) with the reference. pos is a rune index.
func (cx *c36Ctx) checkCase(ci *c36Interp, m *c36Model, line string, pos int) {
	r := cx.r
	runes := []rune(line)
	headR := runes[:pos]
	headS := string(headR)
	wantTail := string(runes[pos:])
	rep := c36Replay{History: m.history, Line: line, Pos: pos}

	head, comps, tail, panicMsg := ci.complete(line, pos)
	if tail != wantTail && len(headS) != pos && pos <= len(line) && tail == line[pos:] {
		// the cursor (a rune index, as liner passes it) was used as a byte offset
		rep.Head, rep.Tail, rep.Got = head, tail, comps
		cx.known("C36-cursor-rune-index-used-as-byte-offset", rep,
			fmt.Sprintf("CompleteWords(%q, %d): liner passes the cursor as a rune index; tail=%q but the text after the cursor is %q (head=%q)", line, pos, tail, wantTail, head))
		r.Cover("line_class", "non-ascii-before-cursor(byte-offset-retry)")
		// continue with the implementation's own reading of the position, so that the
		// identifier logic is still compared on non-ASCII input
		head, comps, tail, panicMsg = ci.complete(line, len(headS))
	}
	rep.Head, rep.Tail, rep.Got = head, tail, comps
	if panicMsg != "" {
		r.Count("output_during_completion", 1)
		r.Extra("first_output_during_completion", fw.Clip(panicMsg, 300))
	}
	panicked := strings.Contains(panicMsg, "panic in Interp.CompleteWords")
	if panicked {
		// the completer recovered from an internal panic: it answers ("", nil, ""), i.e. it
		// offers nothing. That is only wrong if something should have been offered.
		r.Count("recovered_panics_inside_completion", 1)
		msg := strings.TrimSpace(strings.TrimPrefix(strings.TrimSpace(panicMsg), "panic in Interp.CompleteWords:"))
		if i := strings.IndexByte(msg, '\n'); i >= 0 {
			msg = msg[:i]
		}
		r.Cover("recovered_panic_messages", fw.Clip(msg, 90))
		comps, tail = nil, wantTail
	}
	if cx.verbose {
		fmt.Printf("real:  head=%q completions=%q tail=%q\n", head, comps, tail)
	}
	if tail != wantTail {
		cx.violation("tail", rep, fmt.Sprintf("CompleteWords(%q, %d): tail=%q, text after the cursor is %q", line, pos, tail, wantTail))
		return
	}
	for i := 1; i < len(comps); i++ {
		if comps[i-1] >= comps[i] {
			cx.violation("sorted-unique", rep, fmt.Sprintf("CompleteWords(%q, %d): completions not sorted and duplicate-free: %q", line, pos, comps))
			return
		}
	}

	p := c36Parse(headR)
	r.Cover("line_class", p.class)
	if cx.verbose {
		fmt.Printf("model: class=%s words=%q partial=%q\n", p.class, p.words, p.partial)
	}
	if p.class != "word" && p.class != "chain" {
		// nothing the property defines: no identifier before the cursor, a dot after something
		// that is not an identifier, or an "identifier" glued to a number
		r.Count("cases_outside_property", 1)
		if len(comps) > 0 {
			r.Count("completions_offered_outside_property:"+p.class, 1)
		}
		return
	}

	var e *c36Expect
	if p.class == "word" {
		e = m.expectWord(p.partial, cx.predeclared, cx.keywords)
	} else {
		e = m.expectChain(p.words, cx.predTypes, c36ImportMembers)
	}
	rep.Must = e.must
	if cx.verbose {
		fmt.Printf("model: root=%s last=%s must=%q may=%v\n", e.rootKind, e.lastNode, e.must, e.may)
	}
	if e.lastNode == "unknown" {
		r.Count("cases_member_not_in_toolchain_package", 1)
		return
	}
	r.Eval(1)
	r.Cover("root_kind", e.rootKind)
	r.Cover("last_node", e.lastNode)
	r.Cover("chain_len", fmt.Sprint(len(p.words)))
	r.Cover("answer_size", c36SizeBucket(len(e.must)))
	if len(e.must) > 0 || len(comps) > 0 {
		r.Distinct(p.class + "|" + strings.Join(p.words, ".") + "|" + strings.Join(e.must, ","))
		if e.sets != nil {
			for _, f := range e.sets.features {
				r.Cover("selector_features", f)
			}
		}
	}
	what := func(s string) string {
		if panicked {
			s += " (the completer panicked internally: " + fw.Clip(strings.TrimSpace(panicMsg), 300) + ")"
		}
		return fmt.Sprintf("CompleteWords(%q, %d) [chain %q]: %s; got %q, valid by the reference %q", line, pos, p.words, s, comps, e.must)
	}

	got := map[string]bool{}
	for _, c := range comps {
		got[c] = true
		if !strings.HasPrefix(c, p.partial) {
			cx.violation("prefix", rep, what(fmt.Sprintf("completion %q does not start with the typed prefix %q", c, p.partial)))
			return
		}
	}
	ok := true
	knownIDs := map[string][]string{}
	var badMissing, badExtra []string
	for _, n := range e.must {
		if got[n] {
			continue
		}
		ok = false
		id := ""
		if e.midOnPointer && len(comps) == 0 {
			id = "C36-pointer-operand-in-chain-not-followed"
		} else if e.sets != nil {
			id = m.explainMissing(e.lookType, e.addressable, n)
		}
		if id != "" {
			knownIDs[id] = append(knownIDs[id], n)
		} else {
			badMissing = append(badMissing, n)
		}
	}
	must := map[string]bool{}
	for _, n := range e.must {
		must[n] = true
	}
	for _, c := range comps {
		if must[c] {
			continue
		}
		if why, tolerated := e.may[c]; tolerated {
			r.Cover("tolerated_extras", why)
			continue
		}
		ok = false
		id := ""
		if e.sets != nil {
			id = m.explainExtra(e.sets.base, c)
		}
		if id != "" {
			knownIDs[id] = append(knownIDs[id], c)
		} else {
			badExtra = append(badExtra, c)
		}
	}
	for id, names := range knownIDs {
		switch id {
		case "C36-embedded-pointer-methods-missing":
			cx.known(id, rep, what(fmt.Sprintf("methods promoted through an embedded *T field are valid selectors but are not offered: %q", names)))
		case "C36-pointer-operand-in-chain-not-followed":
			cx.known(id, rep, what(fmt.Sprintf("a field selected on a pointer-typed operand in the middle of the chain is not followed, nothing is offered; missing %q", names)))
		case "C36-methods-of-nonembedded-fields":
			cx.known(id, rep, what(fmt.Sprintf("methods of the types of NON-embedded fields are offered although they are not selectors of this operand: %q", names)))
		case "C36-foreign-unexported-members-offered":
			cx.known(id, rep, what(fmt.Sprintf("unexported fields/methods of another package are offered: %q", names)))
		default:
			cx.known(id, rep, what(fmt.Sprintf("%q", names)))
		}
	}
	if len(badMissing) > 0 {
		cx.violation("missing", rep, what(fmt.Sprintf("valid here but not offered: %q", badMissing)))
	}
	if len(badExtra) > 0 {
		cx.violation("extra", rep, what(fmt.Sprintf("offered but not valid here: %q", badExtra)))
	}
	if len(comps) > 0 {
		wantHead := string(headR[:len(headR)-len([]rune(p.partial))])
		if head != wantHead {
			ok = false
			cx.violation("head", rep, what(fmt.Sprintf("head=%q, want %q (line up to the start of the partial identifier)", head, wantHead)))
		}
	}
	if ok && len(e.must) > 1 && r.Counter("sampled") < 6 && r.Distinct("sample|"+e.lastNode) {
		r.Count("sampled", 1)
		r.Sample(map[string]interface{}{"declarations": len(m.decls), "line": line, "cursor": pos, "head": head, "completions": comps, "tail": tail, "last_node": e.lastNode})
	}
}

// ---------------------------------------------------------------- driver

func c36RunState(cx *c36Ctx, idx int, rounds, linesPerRound int) {
	r := cx.r
	rng := r.Rng(fmt.Sprintf("state-%d", idx))
	ci := c36NewInterp()
	m := c36NewModel()
	g := &c36Gen{rng: rng, m: m, eval: ci.eval, methods: map[string]map[string]bool{}, fields: map[string]map[string]bool{}, importName: map[string]string{}}
	for round := 0; round < rounds; round++ {
		g.round(3 + rng.Intn(5))
		if g.failed {
			r.Count("histories_ended_by_interpreter_refusal", 1)
			cx.mu.Lock()
			if len(cx.refused) < 12 {
				cx.refused = append(cx.refused, g.refusedSrc+"  =>  "+fw.Clip(ci.lastErr, 300))
			}
			cx.mu.Unlock()
			return
		}
		r.Count("rounds", 1)
		for l := 0; l < linesPerRound; l++ {
			line := g.genLine(cx.predeclared, cx.keywords, c36ImportMembers)
			r.Count("lines", 1)
			n := len([]rune(line))
			for pos := 0; pos <= n; pos++ {
				cx.checkCase(ci, m, line, pos)
			}
		}
	}
	r.Count("declarations", int64(len(m.history)))
}

func checkC36(r *fw.Run) {
	r.SetRule("a history = random declarations (vars incl. re-declared, consts, funcs, struct types with fields/embedded fields by value and by pointer incl. foreign and self-referencing ones, named non-struct types, interfaces, methods with value and pointer receivers, imports incl. aliases and nested paths) fed through Interp.Eval in rounds; after each round random lines (garbage + root.member.member.partial with blanks around dots + trailing text) are completed at EVERY cursor position; distinct non-trivial = distinct (identifier chain, reference answer) with a non-empty reference or real answer; oracle = same declarations type-checked by the standard go/types: single word -> declared + predeclared names + keywords with the prefix; pkg.partial -> import-table names; value.partial -> names n for which types.LookupFieldOrMethod finds a field or method; Type.partial -> method set; completions must be that set (plus explicitly tolerated extras), sorted, unique, each with the typed prefix, and head/tail must be the line around the partial identifier")
	r.Assume("the standard library go/types (source importer on GOROOT) implements Go's selector rules; the harness's declaration record is the interpreter's state (a history ends at the first declaration the interpreter refuses)")
	r.Assume("names present in the scope chain of a fresh interpreter are its predeclared names; 'macro' is a gomacro keyword; imports.Packages[path] is the member list of an imported package")
	r.Assume("the cursor is a rune index, as github.com/peterh/liner passes it to a WordCompleter")
	r.Assume("interpreters of different histories run in different goroutines; they share only gomacro's process-global basic types (the race detector reports nothing but the idempotent 'lazymethods = nil' store in go/types/cti_method.go)")
	r.Assume("generator avoids, as unrelated to completion: interfaces that embed interfaces (parser / xreflect method-table defects), non-ASCII method names in interpreted interfaces, method bodies returning nil as error (refused for self-referencing receivers), re-declared types, blank fields")
	r.Assume("tolerated, counted, not demanded: ambiguous selectors, members listed after **T, fields and pointer-receiver methods listed after a type name, 'template' keyword, pointer-receiver methods after an unaddressable constant; inputs outside the property (no identifier before the cursor, '.' after a non-identifier such as f().x, identifier glued to digits) are only checked for tail/sortedness")

	pre, preTypes := c36Predeclared()
	cx := &c36Ctx{r: r, predeclared: pre, predTypes: preTypes, keywords: c36Keywords(), knownOnce: map[string]bool{}}
	r.Extra("predeclared_names", pre)

	// load the reference packages once, sequentially
	t0 := time.Now()
	for _, p := range c36ImportPool {
		if fw.ReplayArg() != "" {
			break // a replay loads what it needs on demand
		}
		if _, err := c36Imp.Import(p); err != nil {
			r.Inconclusive(fmt.Sprintf("reference importer cannot load %q: %v", p, err))
			return
		}
		if len(c36ImportMembers(p)) == 0 {
			r.Inconclusive(fmt.Sprintf("no import table for %q", p))
			return
		}
	}

	r.Extra("reference_packages_load_s", time.Since(t0).Seconds())

	if p := fw.ReplayArg(); p != "" {
		var rep c36Replay
		if err := fw.LoadReplay(p, &rep); err != nil {
			panic(err)
		}
		ci := c36NewInterp()
		m := c36NewModel()
		for _, d := range rep.History {
			if !ci.eval(d.Src) {
				r.Inconclusive("replay: interpreter refused " + d.Src)
				return
			}
			if err := m.add(d); err != nil {
				r.Inconclusive("replay: reference refused " + d.Src + ": " + err.Error())
				return
			}
			fmt.Printf("decl:  %s\n", d.Src)
		}
		fmt.Printf("line:  %q cursor (rune index) %d\n", rep.Line, rep.Pos)
		cx.verbose = true
		cx.checkCase(ci, m, rep.Line, rep.Pos)
		r.SetMinDistinct(0)
		return
	}

	states := r.Pick(96, 2400)
	rounds := 5
	lines := r.Pick(36, 56)
	jobs := make(chan int)
	var wg sync.WaitGroup
	for w := 0; w < runtime.NumCPU(); w++ {
		wg.Add(1)
		go func() {
			defer wg.Done()
			for i := range jobs {
				c36RunState(cx, i, rounds, lines)
			}
		}()
	}
	for i := 0; i < states; i++ {
		jobs <- i
	}
	close(jobs)
	wg.Wait()
	r.Count("histories", int64(states))
	sort.Strings(cx.refused)
	r.Extra("declarations_refused_by_interpreter_sample", cx.refused)
	if ended := r.Counter("histories_ended_by_interpreter_refusal"); ended*3 > int64(states) {
		r.Inconclusive(fmt.Sprintf("%d of %d histories ended early because the interpreter refused a declaration the Go reference accepts", ended, states))
	}
}
