package main

// C13 - an interrupt delivered while code runs stops it within a bounded number of statements
// and leaves the interpreter usable.
//
// Hooks used by the probes (all injected compiled functions):
//   hk()      counted hook call: progress after delivery is measured in these
//   hv() int  like hk, usable inside expressions
//   hd()      uncounted hook call, for code that Go semantics run even after the interrupt panic was
//             raised (deferred calls during unwinding); it can still be the delivery point
//   hx(r)     the probe recovered r (and re-panics it): once r is base.SigInterrupt the harness knows the
//             interrupt panic has been raised and stops counting
//
// Bound B = 64 (synchronous delivery). Reading fast/code.go: exec and reExecWithFlags run at most 14
// statements (first 70 statements of a frame) or 15 statements (afterwards) between two loads of
// Run.Signals; every call of an interpreted function loads Signals.Async on entry (exec, reExecWithFlags) and on
// exit (label finish / signal, restore). Every probe statement contains at most one hook call, so a correct
// executor lets at most 15 counted hook calls through; deferred code of the probes uses hd/hx. 64 leaves room for
// legitimate re-tuning of the unroll factor. Bound B' = 10000 for asynchronous delivery (the flag is written with a
// plain store by another goroutine; counting starts only when a hook call has observed, through an atomic, that
// Interrupt() returned). Wall-clock time never enters a verdict.

import (
	"fmt"
	"strings"

	"gmverif/internal/fw"
)

const (
	c13B      = 64
	c13BAsync = 10000
)

func init() { register("C13", "fault_enumeration", checkC13) }

type c13Extra struct {
	Invoke string // entry point, default "P()"
	Finite bool   // terminates by itself
	NoSync bool
}

var c13Info = map[string]c13Extra{
	"finite":       {Finite: true},
	"exprhook":     {Invoke: "hv() + hv()*0 + hv()*0", Finite: true},
	"toplevelloop": {Invoke: "for { hk(); pX++ }"},
}

var c13Probes = []c12Probe{
	{Name: "tight", Quick: true, Raw: true, Tags: []string{"tight-loop"}, Src: `
var pX int
func P() {
	pX = 0
	for {
		hk()
		pX++
	}
}`},
	{Name: "tightcond", Raw: true, Tags: []string{"tight-loop", "for-cond-post"}, Src: `
var pX int
func P() {
	pX = 0
	for i := 0; i >= 0; i++ {
		hk()
		pX += i
	}
}`},
	{Name: "manyhooks", Quick: true, Raw: true, Tags: []string{"tight-loop", "straight-line"}, Src: `
func P() {
	for {
		hk(); hk(); hk(); hk(); hk(); hk(); hk(); hk(); hk(); hk()
		hk(); hk(); hk(); hk(); hk(); hk(); hk(); hk(); hk(); hk()
		hk(); hk(); hk(); hk(); hk(); hk(); hk(); hk(); hk(); hk()
	}
}`},
	{Name: "longbody", Raw: true, Tags: []string{"straight-line", "spin-phase"}, Src: `
var pX int
func P() {
	pX = 0
` + strings.Repeat("\tpX++; pX--; pX += 2; pX -= 2\n", 25) + `
	for {
		hk()
		pX++
		hk()
	}
}`},
	{Name: "nestedcalls", Quick: true, Raw: true, Tags: []string{"nested-calls"}, Src: `
var pX int
func pC(a int) int {
	hk()
	return a + 1
}
func pB(a int) int {
	hk()
	b := pC(a)
	hk()
	return b + pC(b)
}
func pA(a int) int {
	hk()
	r := pB(a) + pB(a+1)
	hk()
	return r
}
func P() {
	pX = 0
	for {
		pX += pA(pX)
	}
}`},
	{Name: "recursion", Quick: true, Raw: true, Tags: []string{"recursion"}, Src: `
var pX int
func pRec(n int) int {
	hk()
	if n == 0 {
		return 0
	}
	r := pRec(n-1) + 1
	hk()
	return r
}
func P() {
	pX = 0
	for {
		pX += pRec(7)
	}
}`},
	{Name: "rangeslice", Quick: true, Raw: true, Tags: []string{"range"}, Src: `
var pX int
func P() {
	pX = 0
	s := make([]int, 200000)
	for {
		for i, v := range s {
			hk()
			pX += i + v
		}
	}
}`},
	{Name: "rangeother", Raw: true, Tags: []string{"range", "channels"}, Src: `
var pX int
func P() {
	pX = 0
	m := map[int]int{1: 1}
	c := make(chan int, 4)
	for {
		for _, r := range "abcdefghijklmnopqrstuvwxyz" {
			hk()
			pX += int(r)
		}
		for k := range m {
			hk()
			pX += k
		}
		c <- 1
		c <- 2
		for len(c) > 0 {
			hk()
			pX += <-c
		}
	}
}`},
	{Name: "deferred", Quick: true, Raw: true, Tags: []string{"deferred-calls"}, Src: `
var pX int
func pDf() {
	defer func() {
		hd()
		pX++
		hd()
		return
	}()
	defer hd()
	hk()
	pX++
	hk()
	return
}
func P() {
	pX = 0
	for {
		pDf()
	}
}`},
	{Name: "deferrethrow", Quick: true, Raw: true, Tags: []string{"deferred-calls", "recover-rethrow"}, Src: `
var pX int
func pDr() {
	defer func() {
		if r := recover(); r != nil {
			hx(r)
			panic(r)
		}
		hk()
		pX++
		return
	}()
	hk()
	pX++
	hk()
	return
}
func P() {
	pX = 0
	for {
		pDr()
	}
}`},
	{Name: "deferframe", Quick: true, Raw: true, Tags: []string{"tight-loop", "frame-with-deferred-calls"}, Src: `
var pX int
func P() {
	pX = 0
	defer hd()
	defer func() {
		hd()
		return
	}()
	for {
		hk()
		pX++
	}
}`},
	{Name: "deferloop", Raw: true, Tags: []string{"deferred-calls", "loop-in-deferred-call", "recover-rethrow"}, Src: `
var pX int
func pDl() {
	defer func() {
		if r := recover(); r != nil {
			hx(r)
			panic(r)
		}
		for i := 0; i < 300; i++ {
			hk()
			pX++
		}
		return
	}()
	hk()
	return
}
func P() {
	pX = 0
	for {
		pDl()
	}
}`},
	{Name: "sortcallback", Quick: true, Raw: true, Imports: []string{"sort"}, Tags: []string{"compiled-callback"}, Src: `
var pX int
func P() {
	pX = 0
	s := make([]int, 3000)
	for {
		for i := range s {
			s[i] = (i * 7919) % 3001
		}
		sort.Slice(s, func(i, j int) bool {
			hk()
			return s[i] < s[j]
		})
		pX++
	}
}`},
	{Name: "mapcallback", Raw: true, Imports: []string{"strings"}, Tags: []string{"compiled-callback"}, Src: `
var pX int
func P() {
	pX = 0
	text := strings.Repeat("abcdefghij", 2000)
	for {
		strings.Map(func(r rune) rune {
			hk()
			return r + 1
		}, text)
		pX++
	}
}`},
	{Name: "closureloop", Raw: true, Tags: []string{"closures", "nested-calls"}, Src: `
var pX int
func P() {
	pX = 0
	c := 0
	f := func() {
		hk()
		c++
		return
	}
	g := func() {
		f()
		hk()
		f()
		return
	}
	for {
		g()
		pX = c
	}
}`},
	{Name: "switchloop", Raw: true, Tags: []string{"switch", "labels"}, Src: `
var pX int
func P() {
	pX = 0
	i := 0
outer:
	for {
		i++
		switch i % 3 {
		case 0:
			hk()
		case 1:
			hk()
			for j := 0; j < 4; j++ {
				hk()
				if j == 2 {
					continue outer
				}
			}
		default:
			hk()
			break
		}
		pX++
	}
}`},
	{Name: "gotoloop", Raw: true, Tags: []string{"goto", "tight-loop"}, Src: `
var pX int
func P() {
	pX = 0
	{ // gomacro resolves goto labels only inside a nested block of a function
	loop:
		hk()
		pX++
		goto loop
	}
}`},
	{Name: "methodloop", Raw: true, Tags: []string{"methods", "nested-calls"}, Src: `
type pT struct{ n int }
func (t *pT) Inc() int {
	hk()
	t.n++
	return t.n
}
type pIncer interface{ Inc() int }
var pX int
func P() {
	pX = 0
	t := &pT{}
	var i pIncer = t
	f := t.Inc
	for {
		pX += t.Inc()
		pX += i.Inc()
		pX += f()
	}
}`},
	{Name: "selectloop", Raw: true, Tags: []string{"select", "channels"}, Src: `
var pX int
func P() {
	pX = 0
	c := make(chan int, 1)
	for {
		select {
		case v := <-c:
			hk()
			pX += v
		default:
			hk()
			c <- 1
		}
	}
}`},
	{Name: "finite", Quick: true, Raw: true, Tags: []string{"finite", "finishes-by-itself"}, Src: `
var pX int
func pStep(i int) {
	hk()
	pX += i
	return
}
func P() {
	pX = 0
	for i := 0; i < 40; i++ {
		hk()
		pStep(i)
	}
	hk()
	return
}`},
	{Name: "exprhook", Quick: true, Raw: true, Tags: []string{"finite", "toplevel-expression", "no-interpreted-frame"}, Src: `
var pX int
`},
	{Name: "toplevelloop", Raw: true, Tags: []string{"toplevel-statement", "tight-loop"}, Src: `
var pX int
`},
	{Name: "evalloop", Quick: true, Raw: true, Tags: []string{"nested-eval", "tight-loop"}, Src: `
var pX int
func P() {
	pX = 0
	for {
		hk()
		pX = Eval(~quote{pX + 1}).(int)
	}
}`},
}

func c13Invoke(p *c12Probe) string {
	if x, ok := c13Info[p.Name]; ok && x.Invoke != "" {
		return x.Invoke
	}
	return "P()"
}

// c13Verdict applies the bounded-progress / interrupt-panic oracle to one run.
func c13Verdict(p *c12Pair, rr *c12RunResult, rep c12Replay, bound int64) {
	res := p.res
	finite := c13Info[p.probe.Name].Finite
	outcome := strings.TrimPrefix(rr.Outcome, "late:")
	res.Comparisons++
	switch {
	case rr.Stop == "overrun":
		p.violation("bounded-progress", c13Classify(p, rr), fmt.Sprintf("probe %s (%s) %s k=%d target=%d: more than %d hook calls ran after the interrupt was delivered and no interrupt panic was raised",
			p.t.Probe, p.t.Mode, rep.Delivery, rep.K, rep.Target, bound), rep)
	case rr.Stop == "hardcap":
		res.Inconcl = fmt.Sprintf("probe %s %s k=%d target=%d: %d hook calls without the delivery taking place", p.t.Probe, rep.Delivery, rep.K, rep.Target, rr.Hooks)
	case outcome == "interrupted":
		res.cover("end", "interrupt panic")
	case outcome == "completed" && (finite || strings.HasPrefix(rr.Outcome, "late:")):
		res.cover("end", "probe finished by itself within the bound")
	default:
		p.violation("wrong-end", "", fmt.Sprintf("probe %s (%s) %s k=%d target=%d ended with %q (%s) instead of the panic value base.SigInterrupt",
			p.t.Probe, p.t.Mode, rep.Delivery, rep.K, rep.Target, rr.Panic, rr.Outcome), rep)
	}
	if rr.Stop == "" && rr.After > res.Max["hook_calls_after_delivery_"+rep.Delivery] {
		res.Max["hook_calls_after_delivery_"+rep.Delivery] = rr.After
	}
}

// c13Classify recognises known C13 findings.
func c13Classify(p *c12Pair, rr *c12RunResult) string {
	// C13-nested-eval-drops-interrupt: the builtin Eval calls Interp.PrepareEnv, which clears Signals.Async;
	// an interrupt delivered between the executor's last poll and a nested Eval is lost for good.
	// Only the probe whose loop body calls the Eval builtin can show it.
	if p.probe.Name == "evalloop" && c12HasTag(p.probe, "nested-eval") && rr.Stop == "overrun" {
		return "C13-nested-eval-drops-interrupt"
	}
	return ""
}

func c13RunTask(p *c12Pair) {
	t, res, probe := p.t, p.res, p.probe
	invoke := c13Invoke(probe)
	if t.Cap <= 0 {
		t.Cap = 90 // endless probes must never run uncapped
	}
	cnt := p.sub.runProbe(invoke, func(h *c12Hook) { h.mode = c12Count; h.cap = t.Cap })
	res.N = cnt.Hooks
	res.cover("outcome", "uninjected:"+cnt.Outcome)
	p.afterRun(c12Replay{Delivery: "none", Run: cnt}, false, nil)
	// deterministic delivery: the k-th hook call calls Interp.Interrupt from the interpreter's own goroutine
	for k := int64(1); k <= res.N && res.Inconcl == "" && p.unknown < 5 && t.OnlyT == 0 && (t.Only == 0 || k <= t.Only); k++ {
		rr := p.sub.runProbe(invoke, func(h *c12Hook) { h.mode = c13Sync; h.k = k; h.bound = c13B })
		rep := c12Replay{Delivery: "interrupt-sync", K: k, Run: rr}
		if !rr.Fired {
			res.Counters["hook_call_k_not_reached"]++
		} else {
			res.Distinct = append(res.Distinct, fmt.Sprintf("%s|%s|sync|%d", t.Probe, t.Mode, k))
			res.cover("outcome", "sync:"+rr.Outcome)
			res.cover("inject_context", rr.Ctx)
			res.cover("state_after_abort", rr.State.shape())
			res.cover("hook_calls_after_sync_delivery", fmt.Sprintf("%02d", rr.After))
			for _, tag := range probe.Tags {
				res.cover("probe_feature", tag)
			}
			c13Verdict(p, rr, rep, c13B)
		}
		ok := p.afterRun(rep, t.Verbose && t.Only == k, nil)
		if ok && rr.Fired && len(res.Samples) < 1 && k%5 == 2 {
			res.Samples = append(res.Samples, map[string]interface{}{"probe": t.Probe, "mode": t.Mode, "delivery": "sync", "k": k, "aborted_run": rr})
		}
	}
	// asynchronous delivery
	if c13RaceBuild && len(t.Async) > 0 {
		res.Inconcl = "asynchronous delivery skipped: this binary was built with -race and Signals.Async is written with a plain store by design"
		return
	}
	for _, target := range t.Async {
		if res.Inconcl != "" || p.unknown >= 5 {
			break
		}
		rr := p.sub.runProbe(invoke, func(h *c12Hook) { h.mode = c13Async; h.target = target; h.bound = c13BAsync })
		rep := c12Replay{Delivery: "interrupt-async", Target: target, Run: rr}
		late := strings.HasPrefix(rr.Outcome, "late:")
		res.cover("outcome", "async:"+rr.Outcome)
		if late {
			res.Distinct = append(res.Distinct, fmt.Sprintf("%s|%s|late|%d", t.Probe, t.Mode, rr.Hooks))
			res.Counters["async_deliveries_after_the_evaluation_finished"]++
		} else {
			res.Distinct = append(res.Distinct, fmt.Sprintf("%s|%s|async|%d|%d", t.Probe, t.Mode, target, rr.AtDeliv))
			res.Counters["async_deliveries_while_running"]++
			lag := rr.AtDeliv - target
			bucket := "0"
			switch {
			case lag >= 1000:
				bucket = ">=1000"
			case lag >= 100:
				bucket = "100-999"
			case lag >= 10:
				bucket = "10-99"
			case lag >= 1:
				bucket = "1-9"
			}
			res.cover("hook_calls_between_target_and_delivery", bucket)
			res.cover("state_after_abort", rr.State.shape())
		}
		c13Verdict(p, rr, rep, c13BAsync)
		ok := p.afterRun(rep, t.Verbose, nil)
		if ok && len(res.Samples) < 2 {
			res.Samples = append(res.Samples, map[string]interface{}{"probe": t.Probe, "mode": t.Mode, "delivery": "async", "target": target, "aborted_run": rr})
		}
	}
}

func checkC13(r *fw.Run) {
	r.SetRule("probes = hand-written goroutine-free loop shapes (tight loops, 30 hook calls in a row, a 100-statement prologue, nested calls, recursion, range over slice/string/map/channel, deferred calls, recover-and-re-panic, a loop inside a deferred call, callbacks from sort.Slice/strings.Map, closures, switch/goto/labels, methods, select, top-level loop, top-level expression, nested Eval, one finite probe); " +
		"deterministic cases = (probe, mode, k): the k-th hook call calls Interp.Interrupt from the interpreter's goroutine, for EVERY k up to the cap of the counting run; asynchronous cases = (probe, target): another goroutine calls Interrupt once `target` (seeded) hook calls were observed, or after the evaluation finished when the probe is shorter; distinct = cases whose delivery took place; " +
		fmt.Sprintf("oracle = at most B=%d (sync) / B'=%d (async) counted hook calls run after delivery, the Eval ends with panic value base.SigInterrupt (or the finite probe finished within the bound), every definition still resolves, and the C12 battery gives the answers of a lock-step reference interpreter (in particular no stale interrupt fires in the next Eval)", c13B, c13BAsync))
	r.Assume("hook calls are the unit of progress: every probe statement contains at most one hook call, so B hook calls bound the statements executed in the running frame; wall-clock time is never used")
	r.Assume("asynchronous runs use the non-race build: Signals.Async is deliberately written with a plain store")
	r.Assume("with OptDebugger|OptCtrlCEnterDebugger an interrupt enters the debugger instead of raising a panic; that configuration is outside this property and is not run")
	if c12Replayed(r) {
		return
	}
	rng := r.Rng("async-targets")
	capN := int64(r.Pick(90, 140))
	perProbe := r.Pick(12, 50)
	var tasks []c12Task
	for i := range c13Probes {
		p := &c13Probes[i]
		modes := []string{"plain"}
		if r.Thorough() {
			modes = append(modes, "debugger", "step")
		} else if !p.Quick {
			continue
		}
		for _, mode := range modes {
			t := c12Task{Check: "C13", Probe: p.Name, Mode: mode, Cap: capN}
			n := perProbe
			if mode == "step" {
				n = perProbe / 3
			}
			for j := 0; j < n; j++ {
				// log-uniform targets between 1 and ~6000 hook calls
				target := int64(1) << uint(rng.Intn(13))
				target += rng.Int63n(target)
				t.Async = append(t.Async, target)
			}
			tasks = append(tasks, t)
		}
	}
	results := c12RunTasks(r, tasks)
	c12Aggregate(r, results)
	r.Extra("probes", len(tasks))
	r.Extra("bounds", map[string]int{"B_sync": c13B, "B_async": c13BAsync, "cap_of_counting_run": int(capN)})
}
