package main

// C21 — generic, position-free tree used by the quasiquote substitution model.
//
// go/ast trees are converted by reflection (independent of gomacro's ast2 wrappers):
//   - token.Pos, *ast.Object, *ast.Scope and comments are dropped
//   - ExprStmt{X} is represented by X and DeclStmt{D} by D: the go/ast typing forces these wrappers
//     whenever an expression/declaration sits in a statement slot, and gomacro's own tests
//     (`~quote{x}` -> *ast.Ident) do not count them as part of "the tree of x"
//   - nil and empty slices are the same list
//   - OP func(){body} with OP in quote/quasiquote/unquote/unquote_splice becomes a node of kind OP whose
//     only child is the list of body statements

import (
	"fmt"
	"go/ast"
	"go/token"
	"reflect"
	"sort"
	"strings"

	etoken "github.com/cosmos72/gomacro/go/etoken"
)

type c21T struct {
	K   string   // node kind: go/ast type name, "[]" for lists, or a quote-family name
	A   string   // scalar attributes (operators, names, literal values, flags)
	S   []string // slot names of C (nil for lists and quote-family nodes)
	C   []*c21T  // children; nil entries = absent child
	ptr uintptr  // address of the go/ast node this was converted from (0 for lists / model-made nodes)
}

const (
	c21List   = "[]"
	c21Quote  = "quote"
	c21QQ     = "quasiquote"
	c21Unq    = "unquote"
	c21Splice = "unquote_splice"
)

var (
	c21PosType     = reflect.TypeOf(token.NoPos)
	c21TokType     = reflect.TypeOf(token.ADD)
	c21ObjType     = reflect.TypeOf((*ast.Object)(nil))
	c21ScopeType   = reflect.TypeOf((*ast.Scope)(nil))
	c21CommentType = reflect.TypeOf((*ast.CommentGroup)(nil))
	c21CommentsTyp = reflect.TypeOf([]*ast.CommentGroup(nil))
)

func c21QuoteKind(op token.Token) string {
	switch op {
	case etoken.QUOTE:
		return c21Quote
	case etoken.QUASIQUOTE:
		return c21QQ
	case etoken.UNQUOTE:
		return c21Unq
	case etoken.UNQUOTE_SPLICE:
		return c21Splice
	}
	return ""
}

func (t *c21T) isQuoteFamily() bool {
	return t != nil && (t.K == c21Quote || t.K == c21QQ || t.K == c21Unq || t.K == c21Splice)
}

func (t *c21T) isUnquote() bool { return t != nil && (t.K == c21Unq || t.K == c21Splice) }

// c21FromNode converts any go/ast value (node, slice of nodes) to the generic tree.
func c21FromNode(x interface{}) *c21T {
	if x == nil {
		return nil
	}
	return c21From(reflect.ValueOf(x))
}

func c21From(v reflect.Value) *c21T {
	switch v.Kind() {
	case reflect.Interface:
		if v.IsNil() {
			return nil
		}
		return c21From(v.Elem())
	case reflect.Slice:
		t := &c21T{K: c21List}
		for i := 0; i < v.Len(); i++ {
			t.C = append(t.C, c21From(v.Index(i)))
		}
		return t
	case reflect.Ptr:
		if v.IsNil() {
			return nil
		}
		if v.Elem().Kind() != reflect.Struct {
			panic(fmt.Sprintf("c21From: unexpected pointer to %v", v.Elem().Kind()))
		}
		switch n := v.Interface().(type) {
		case *ast.ExprStmt:
			return c21From(reflect.ValueOf(n.X))
		case *ast.DeclStmt:
			return c21From(reflect.ValueOf(n.Decl))
		case *ast.UnaryExpr:
			if k := c21QuoteKind(n.Op); k != "" {
				if fun, ok := n.X.(*ast.FuncLit); ok {
					body := &c21T{K: c21List}
					if fun.Body != nil {
						body = c21From(reflect.ValueOf(fun.Body.List))
					}
					return &c21T{K: k, C: []*c21T{body}, ptr: v.Pointer()}
				}
			}
		}
		s := v.Elem()
		st := s.Type()
		t := &c21T{K: st.Name(), ptr: v.Pointer()}
		var attrs []string
		for i := 0; i < s.NumField(); i++ {
			f := s.Field(i)
			ft := f.Type()
			name := st.Field(i).Name
			switch {
			case ft == c21PosType:
				// positions: BlockStmt/FieldList delimiters etc. are not structure
				// except CallExpr.Ellipsis, which carries "f(args...)" as "is it set?"
				if name == "Ellipsis" && st.Name() == "CallExpr" {
					attrs = append(attrs, fmt.Sprintf("%s=%v", name, f.Int() != 0))
				}
			case ft == c21ObjType, ft == c21ScopeType, ft == c21CommentType, ft == c21CommentsTyp:
			case ft == c21TokType:
				attrs = append(attrs, name+"="+etoken.String(token.Token(f.Int())))
			case ft.Kind() == reflect.String:
				attrs = append(attrs, fmt.Sprintf("%s=%q", name, f.String()))
			case ft.Kind() == reflect.Bool:
				if name == "Implicit" || name == "Incomplete" {
					continue // EmptyStmt.Implicit / Incomplete describe the source text, not the tree
				}
				attrs = append(attrs, fmt.Sprintf("%s=%v", name, f.Bool()))
			case ft.Kind() == reflect.Int: // ast.ChanDir
				attrs = append(attrs, fmt.Sprintf("%s=%d", name, f.Int()))
			case ft.Kind() == reflect.Interface, ft.Kind() == reflect.Ptr, ft.Kind() == reflect.Slice:
				t.S = append(t.S, name)
				t.C = append(t.C, c21From(f))
			default:
				panic(fmt.Sprintf("c21From: unexpected field %s.%s of kind %v", st.Name(), name, ft.Kind()))
			}
		}
		t.A = strings.Join(attrs, ",")
		return t
	}
	panic(fmt.Sprintf("c21From: unexpected kind %v", v.Kind()))
}

// String is the canonical form used for structural comparison.
func (t *c21T) String() string {
	var b strings.Builder
	t.write(&b)
	return b.String()
}

func (t *c21T) write(b *strings.Builder) {
	if t == nil {
		b.WriteString("nil")
		return
	}
	switch {
	case t.K == c21List:
		b.WriteByte('[')
		for i, c := range t.C {
			if i > 0 {
				b.WriteString("; ")
			}
			c.write(b)
		}
		b.WriteByte(']')
	case t.isQuoteFamily():
		b.WriteByte('~')
		b.WriteString(t.K)
		t.C[0].write(b)
	default:
		b.WriteString(t.K)
		b.WriteByte('{')
		b.WriteString(t.A)
		for i, c := range t.C {
			if c == nil || c.K == c21List && len(c.C) == 0 {
				continue // absent child == empty list
			}
			b.WriteByte(' ')
			b.WriteString(t.S[i])
			b.WriteByte(':')
			c.write(b)
		}
		b.WriteByte('}')
	}
}

// clone returns a deep copy (model-made: ptr = 0).
func (t *c21T) clone() *c21T {
	if t == nil {
		return nil
	}
	n := &c21T{K: t.K, A: t.A, S: t.S}
	for _, c := range t.C {
		n.C = append(n.C, c.clone())
	}
	return n
}

// pointers collects the addresses of all go/ast nodes below t.
func (t *c21T) pointers(m map[uintptr]string) {
	if t == nil {
		return
	}
	if t.ptr != 0 {
		m[t.ptr] = t.K
	}
	for _, c := range t.C {
		c.pointers(m)
	}
}

// norm returns a copy of t in the normal form used to compare quasiquote results:
//   - ParenExpr nodes are dropped (both interpreters drop the template's parentheses while walking it;
//     grouping is carried by the tree shape)
//   - a quote-family body consisting of one block statement is that block's statement list, repeatedly
//     (OP{{a;b}} and OP{a;b} denote the same quoted sequence: ~quote{{a;b}} == ~quote{a;b}; when a block
//     value is wrapped in a nested OP the fast interpreter uses it as the body, classic adds a level)
func (t *c21T) norm() *c21T {
	if t == nil {
		return nil
	}
	if t.K == "ParenExpr" && len(t.C) == 1 {
		return t.C[0].norm()
	}
	n := &c21T{K: t.K, A: t.A, S: t.S, ptr: t.ptr}
	for _, c := range t.C {
		n.C = append(n.C, c.norm())
	}
	for n.isQuoteFamily() && len(n.C[0].C) == 1 {
		l := n.C[0].C[0].blockList()
		if l == nil {
			break
		}
		n.C[0] = l
	}
	return n
}

func c21MkList(elems ...*c21T) *c21T { return &c21T{K: c21List, C: elems} }

func c21MkBlock(list *c21T) *c21T {
	return &c21T{K: "BlockStmt", S: []string{"List"}, C: []*c21T{list}}
}

// blockList returns the statement list of a BlockStmt node.
func (t *c21T) blockList() *c21T {
	if t != nil && t.K == "BlockStmt" && len(t.C) == 1 && t.C[0] != nil {
		return t.C[0]
	}
	return nil
}

// c21Seq views a top-level result as a statement sequence: a block is its statements, the empty
// statement is the empty sequence, anything else a one-element sequence.
func c21Seq(t *c21T) *c21T {
	if t == nil {
		return c21MkList()
	}
	if l := t.blockList(); l != nil {
		return l
	}
	if t.K == "EmptyStmt" {
		return c21MkList()
	}
	return c21MkList(t)
}

// kinds records node kinds below t.
func (t *c21T) kinds(m map[string]int) {
	if t == nil {
		return
	}
	m[t.K]++
	for _, c := range t.C {
		c.kinds(m)
	}
}

func (t *c21T) size() int {
	if t == nil {
		return 0
	}
	n := 1
	for _, c := range t.C {
		n += c.size()
	}
	return n
}

func c21SortedKeys(m map[string]int) []string {
	var ks []string
	for k := range m {
		ks = append(ks, k)
	}
	sort.Strings(ks)
	return ks
}

// c21RawPointers walks a go/ast value by reflection and collects every node pointer, including
// wrappers (ExprStmt, FuncLit, BlockStmt of quote forms) that the generic tree elides.
func c21RawPointers(x interface{}, m map[uintptr]ast.Node) {
	if x == nil {
		return
	}
	c21RawPtr(reflect.ValueOf(x), m)
}

func c21RawPtr(v reflect.Value, m map[uintptr]ast.Node) {
	switch v.Kind() {
	case reflect.Interface:
		if !v.IsNil() {
			c21RawPtr(v.Elem(), m)
		}
	case reflect.Slice:
		for i := 0; i < v.Len(); i++ {
			c21RawPtr(v.Index(i), m)
		}
	case reflect.Ptr:
		if v.IsNil() || v.Elem().Kind() != reflect.Struct {
			return
		}
		t := v.Type()
		if t == c21ObjType || t == c21ScopeType || t == c21CommentType {
			return
		}
		if _, seen := m[v.Pointer()]; seen {
			return
		}
		node, _ := v.Interface().(ast.Node)
		m[v.Pointer()] = node
		s := v.Elem()
		for i := 0; i < s.NumField(); i++ {
			switch s.Field(i).Kind() {
			case reflect.Interface, reflect.Ptr, reflect.Slice:
				c21RawPtr(s.Field(i), m)
			}
		}
	}
}
