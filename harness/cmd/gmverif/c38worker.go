package main

// interpreter-side worker for C38: like e1worker, but every program is run by a fresh
// classic.Interp (github.com/cosmos72/gomacro/classic). The classic interpreter has no compile
// phase: everything it cannot do surfaces as a panic of output.RuntimeError while evaluating.

import (
	"bufio"
	"encoding/json"
	"fmt"
	"io"
	"os"
	r "reflect"
	"strings"
	"sync"
	"time"

	"github.com/cosmos72/gomacro/base/output"
	"github.com/cosmos72/gomacro/classic"

	"gmverif/internal/tr"
)

func init() {
	auxCmds["c38worker"] = c38Worker
	auxCmds["c38run1"] = func(args []string) {
		data, err := os.ReadFile(args[0])
		if err != nil {
			panic(err)
		}
		res := runProgClassic(&Prog{ID: "run1", Src: string(data)}, nil)
		for _, e := range res.Events {
			fmt.Println(e)
		}
		fmt.Println("END", res.End, res.CompileErr, res.Detail)
	}
}

func c38Worker(args []string) {
	in := bufio.NewReaderSize(os.Stdin, 1<<20)
	out := bufio.NewWriterSize(os.Stdout, 1<<16)
	var mu sync.Mutex
	dec := json.NewDecoder(in)
	for {
		var p Prog
		if err := dec.Decode(&p); err != nil {
			break
		}
		mu.Lock()
		fmt.Fprintf(out, "START %s\n", p.ID)
		out.Flush()
		mu.Unlock()
		// classic.Interp.Interrupt is not implemented: a wall-clock watchdog reports the program as
		// inconclusive ("watchdog") and ends this worker; the driver restarts one for the rest of the shard.
		id := p.ID
		timer := time.AfterFunc(120*time.Second, func() {
			// the driver reports this program as "crash" with this text: counted as inconclusive, never a verdict
			fmt.Fprintf(os.Stderr, "watchdog: program %s did not finish in 120 s (inconclusive)\n", id)
			os.Exit(3)
		})
		res := runProgClassic(&p, nil)
		timer.Stop()
		data, _ := json.Marshal(res)
		mu.Lock()
		out.Write(data)
		out.WriteByte('\n')
		out.Flush()
		mu.Unlock()
	}
}

func c38IsInterpError(rec interface{}) bool {
	switch rec.(type) {
	case output.RuntimeError, *output.RuntimeError:
		return true
	}
	return false
}

func runProgClassic(p *Prog, stdout io.Writer) *Result {
	res := &Result{ID: p.ID, End: "ret"}
	trace := &tr.Trace{}
	ir := classic.New()
	if stdout == nil {
		stdout = io.Discard
	}
	ir.Globals.Stdout = stdout
	ir.Globals.Stderr = io.Discard
	ir.DefineFunc("rec", nil, r.ValueOf(func(tag int, v ...interface{}) { trace.Rec(tag, v...) }))
	ir.DefineFunc("pcl", nil, r.ValueOf(func(x interface{}) string {
		if c38IsInterpError(x) {
			return "interpreter-error:" + panicText(x)
		}
		return tr.PanicClass(x)
	}))
	ir.DefineFunc("hk", nil, r.ValueOf(func() { trace.Hooks++ }))
	ir.DefineFunc("nc", nil, r.ValueOf(func(v interface{}) interface{} { return tr.NoCap{V: v} }))
	finish := func() *Result {
		res.Events = trace.Events
		res.Hooks = trace.Hooks
		return res
	}
	var src strings.Builder
	for _, im := range p.Imports {
		fmt.Fprintf(&src, "import %q\n", im)
	}
	src.WriteString(p.plainSrc())
	fail := func(rec interface{}, where string) *Result {
		if c38IsInterpError(rec) {
			res.End = "compile-error"
			res.CompileErr = where + panicText(rec)
		} else {
			res.End = "panic:" + tr.PanicClass(rec)
			res.Detail = where + panicText(rec)
		}
		return finish()
	}
	if rec, bad := guard(func() { ir.Eval(src.String()) }); bad {
		return fail(rec, "during declarations: ")
	}
	steps := p.Steps
	if len(steps) == 0 {
		steps = []string{"P()"}
	}
	for i, st := range steps {
		st = strings.ReplaceAll(st, "§", "")
		if rec, bad := guard(func() { ir.Eval(st) }); bad {
			return fail(rec, fmt.Sprintf("step %d: ", i))
		}
	}
	return finish()
}
