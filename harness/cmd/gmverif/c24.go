package main

// C24 — the forked parser (/repo/go/parser) parses extension-free Go without type parameters
// exactly like go/parser. Corpus and mutators are shared with C23 (c23_gen.go).

import (
	"encoding/base64"
	"fmt"
	"go/ast"
	goparser "go/parser"
	"go/token"
	"os"
	"reflect"
	"sort"
	"strings"

	"github.com/cosmos72/gomacro/go/etoken"
	mparser "github.com/cosmos72/gomacro/go/parser"

	"gmverif/internal/fw"
)

func init() { register("C24", "exploration", checkC24) }

const (
	c24FindingRange = "C24-rangestmt-range-pos-unset"
	c24FindingEmbed = "C24-embedded-iface-ident-panic"
)

// c24ForkParse runs the forked parser the way base.Globals.ParseBytes does:
// Parser.Configure(mode, macroChar) ; Parser.Init(fileset, filename, line, src) ; Parser.Parse().
// pad bytes are reserved in the file set first so that both sides use the same non-trivial base.
func c24ForkParse(src []byte, mode mparser.Mode, pad int) (nodes []ast.Node, err error, panicked string) {
	defer func() {
		if e := recover(); e != nil {
			panicked = fmt.Sprint(e)
		}
	}()
	fset := etoken.NewFileSet()
	fset.AddFile("pad", -1, pad, 0)
	var p mparser.Parser
	p.Configure(mode, c23MacroChar)
	p.Init(fset, "c24.go", 0, src)
	nodes, err = p.Parse()
	return
}

func c24StdParse(src []byte, pad int) (*ast.File, error) {
	fset := token.NewFileSet()
	fset.AddFile("pad", -1, pad)
	return goparser.ParseFile(fset, "c24.go", src, goparser.ParseComments|goparser.SkipObjectResolution)
}

// ---------------------------------------------------------------------------------------------
// scope: type parameters declared or used (decided on the standard parser's tree)

func c24TypeUsesGenerics(e ast.Expr) bool {
	switch e := e.(type) {
	case *ast.IndexExpr, *ast.IndexListExpr:
		return true
	case *ast.StarExpr:
		return c24TypeUsesGenerics(e.X)
	case *ast.ParenExpr:
		return c24TypeUsesGenerics(e.X)
	case *ast.ArrayType:
		return c24TypeUsesGenerics(e.Elt)
	case *ast.MapType:
		return c24TypeUsesGenerics(e.Key) || c24TypeUsesGenerics(e.Value)
	case *ast.ChanType:
		return c24TypeUsesGenerics(e.Value)
	case *ast.Ellipsis:
		return c24TypeUsesGenerics(e.Elt)
	}
	return false
}

func c24IsTypeLiteral(e ast.Expr) bool {
	switch e.(type) {
	case *ast.ArrayType, *ast.MapType, *ast.ChanType, *ast.FuncType, *ast.StructType, *ast.InterfaceType:
		return true
	}
	return false
}

// c24Generic returns a non-empty reason when the file declares or uses type parameters.
func c24Generic(f *ast.File) string {
	why := ""
	ast.Inspect(f, func(n ast.Node) bool {
		if why != "" {
			return false
		}
		switch n := n.(type) {
		case *ast.FuncType:
			if n.TypeParams != nil {
				why = "type parameters (func)"
			}
		case *ast.TypeSpec:
			if n.TypeParams != nil {
				why = "type parameters (type)"
			} else if c24TypeUsesGenerics(n.Type) {
				why = "instantiated type in type position"
			}
		case *ast.IndexListExpr:
			why = "IndexListExpr"
		case *ast.IndexExpr:
			if c24IsTypeLiteral(n.Index) {
				why = "instantiation with a type literal"
			}
		case *ast.Field:
			if c24TypeUsesGenerics(n.Type) {
				why = "instantiated type in type position"
			}
		case *ast.ValueSpec:
			if c24TypeUsesGenerics(n.Type) {
				why = "instantiated type in type position"
			}
		case *ast.CompositeLit:
			if c24TypeUsesGenerics(n.Type) {
				why = "instantiated type in type position"
			}
		case *ast.ArrayType:
			if c24TypeUsesGenerics(n.Elt) {
				why = "instantiated type in type position"
			}
		case *ast.MapType:
			if c24TypeUsesGenerics(n.Key) || c24TypeUsesGenerics(n.Value) {
				why = "instantiated type in type position"
			}
		case *ast.ChanType:
			if c24TypeUsesGenerics(n.Value) {
				why = "instantiated type in type position"
			}
		case *ast.TypeAssertExpr:
			if c24TypeUsesGenerics(n.Type) {
				why = "instantiated type in type position"
			}
		case *ast.TypeSwitchStmt:
			for _, cc := range n.Body.List {
				if cc, ok := cc.(*ast.CaseClause); ok {
					for _, e := range cc.List {
						if c24TypeUsesGenerics(e) {
							why = "instantiated type in type position"
						}
					}
				}
			}
		case *ast.InterfaceType:
			if n.Methods != nil {
				for _, m := range n.Methods.List {
					if len(m.Names) == 0 {
						switch t := m.Type.(type) {
						case *ast.BinaryExpr:
							why = "constraint union"
						case *ast.UnaryExpr:
							why = "constraint ~T"
						case *ast.Ident, *ast.SelectorExpr, *ast.ParenExpr:
						default:
							_ = t
							why = "constraint element (non-interface type embedded)"
						}
					}
				}
			}
		}
		return why == ""
	})
	return why
}

// c24HasEmbeddedIdent: an interface type embeds an unqualified type name.
func c24HasEmbeddedIdent(f *ast.File) bool {
	found := false
	if f == nil {
		return false
	}
	ast.Inspect(f, func(n ast.Node) bool {
		if it, ok := n.(*ast.InterfaceType); ok && it.Methods != nil {
			for _, m := range it.Methods.List {
				if _, ok := m.Type.(*ast.Ident); ok && len(m.Names) == 0 {
					found = true
				}
			}
		}
		return !found
	})
	return found
}

// ---------------------------------------------------------------------------------------------
// structural comparison, positions included

var (
	c24CommentGroupT  = reflect.TypeOf((*ast.CommentGroup)(nil))
	c24CommentGroupsT = reflect.TypeOf([]*ast.CommentGroup(nil))
	c24RangeStmtT     = reflect.TypeOf(ast.RangeStmt{})
	c24FuncDeclT      = reflect.TypeOf(ast.FuncDecl{})
)

type c24Cmp struct {
	fields     map[reflect.Type][]int
	rangeUnset int
	emptyRecv  int
	nodes      map[string]int64
}

func newC24Cmp() *c24Cmp {
	return &c24Cmp{fields: map[reflect.Type][]int{}, nodes: map[string]int64{}}
}

func (c *c24Cmp) fieldsOf(t reflect.Type) []int {
	if l, ok := c.fields[t]; ok {
		return l
	}
	l := []int{}
	for i := 0; i < t.NumField(); i++ {
		f := t.Field(i)
		if f.Name == "Obj" || f.Name == "Scope" || f.Name == "Unresolved" || f.Type == c24CommentGroupT || f.Type == c24CommentGroupsT {
			continue
		}
		l = append(l, i)
	}
	c.fields[t] = l
	return l
}

func c24Desc(v reflect.Value) string {
	switch v.Kind() {
	case reflect.Interface, reflect.Ptr:
		if v.IsNil() {
			return "nil"
		}
		return c24Desc(v.Elem())
	case reflect.Struct:
		if v.CanAddr() {
			if n, ok := v.Addr().Interface().(ast.Node); ok {
				return fmt.Sprintf("%s@%d..%d", v.Type().Name(), n.Pos(), n.End())
			}
		}
		return v.Type().Name()
	case reflect.Slice:
		return fmt.Sprintf("%d elements", v.Len())
	}
	return fmt.Sprintf("%v", v.Interface())
}

// eq returns "" when a (standard) and b (fork) are structurally identical, else path + description.
func (c *c24Cmp) eq(a, b reflect.Value) string {
	switch a.Kind() {
	case reflect.Interface:
		if a.IsNil() || b.IsNil() {
			if a.IsNil() != b.IsNil() {
				return fmt.Sprintf(": standard %s, fork %s", c24Desc(a), c24Desc(b))
			}
			return ""
		}
		ae, be := a.Elem(), b.Elem()
		if ae.Type() != be.Type() {
			return fmt.Sprintf(": standard %s (%s), fork %s (%s)", ae.Type(), c24Desc(ae), be.Type(), c24Desc(be))
		}
		return c.eq(ae, be)
	case reflect.Ptr:
		if a.IsNil() || b.IsNil() {
			if a.IsNil() != b.IsNil() {
				return fmt.Sprintf(": standard %s, fork %s", c24Desc(a), c24Desc(b))
			}
			return ""
		}
		return c.eq(a.Elem(), b.Elem())
	case reflect.Struct:
		t := a.Type()
		c.nodes[t.Name()]++
		for _, i := range c.fieldsOf(t) {
			if d := c.eq(a.Field(i), b.Field(i)); d != "" {
				if t == c24RangeStmtT && t.Field(i).Name == "Range" && b.Field(i).Int() == 0 && a.Field(i).Int() != 0 {
					c.rangeUnset++
					continue
				}
				if t == c24FuncDeclT && t.Field(i).Name == "Recv" && b.Field(i).IsNil() && !a.Field(i).IsNil() && len(a.Field(i).Interface().(*ast.FieldList).List) == 0 {
					// "func () f() {}": not valid Go (method has no receiver); the fork drops the empty
					// list on purpose (parseFuncDecl: an empty receiver list marks a macro declaration)
					c.emptyRecv++
					continue
				}
				return "." + t.Name() + "." + t.Field(i).Name + d
			}
		}
		return ""
	case reflect.Slice:
		if a.Len() != b.Len() {
			return fmt.Sprintf(": standard %d elements, fork %d elements", a.Len(), b.Len())
		}
		for i := 0; i < a.Len(); i++ {
			if d := c.eq(a.Index(i), b.Index(i)); d != "" {
				return fmt.Sprintf("[%d]%s", i, d)
			}
		}
		return ""
	case reflect.Int, reflect.Int8, reflect.Int16, reflect.Int32, reflect.Int64:
		if a.Int() != b.Int() {
			return fmt.Sprintf(": standard %d, fork %d", a.Int(), b.Int())
		}
	case reflect.Uint, reflect.Uint8, reflect.Uint16, reflect.Uint32, reflect.Uint64:
		if a.Uint() != b.Uint() {
			return fmt.Sprintf(": standard %d, fork %d", a.Uint(), b.Uint())
		}
	case reflect.String:
		if a.String() != b.String() {
			return fmt.Sprintf(": standard %q, fork %q", a.String(), b.String())
		}
	case reflect.Bool:
		if a.Bool() != b.Bool() {
			return fmt.Sprintf(": standard %v, fork %v", a.Bool(), b.Bool())
		}
	default:
		panic("c24: unexpected kind " + a.Kind().String() + " in go/ast tree")
	}
	return ""
}

// ---------------------------------------------------------------------------------------------

type c24Replay struct {
	Kind   string `json:"kind"`
	Origin string `json:"origin,omitempty"`
	Mode   uint   `json:"fork_parser_mode"`
	Pad    int    `json:"fileset_pad"`
	Strict bool   `json:"known_valid_go"`
	SrcB64 string `json:"src_b64"`
	Src    string `json:"src_preview,omitempty"`
}

func c24MkReplay(kind, origin string, mode mparser.Mode, pad int, strict bool, src []byte) c24Replay {
	prev := string(src)
	if len(prev) > 300 {
		prev = prev[:300] + "..."
	}
	return c24Replay{Kind: kind, Origin: origin, Mode: uint(mode), Pad: pad, Strict: strict, SrcB64: base64.StdEncoding.EncodeToString(src), Src: fmt.Sprintf("%q", prev)}
}

type c24Verdict int

const (
	c24OutOfScope c24Verdict = iota
	c24Valid                 // standard parser accepts: trees compared
	c24Invalid               // standard parser rejects: error side
)

func c24ModeName(m mparser.Mode) string {
	if m == 0 {
		return "mode=0"
	}
	var l []string
	if m&mparser.ParseComments != 0 {
		l = append(l, "ParseComments")
	}
	if m&mparser.CopySources != 0 {
		l = append(l, "CopySources")
	}
	return "mode=" + strings.Join(l, "|")
}

// ---- error side: what the forked parser may accept although go/parser rejects it ------------------
//
// gomacro's grammar is deliberately larger than Go's even without lexical extensions:
//  * Parser.Parse accepts statements and expressions at top level, a package clause anywhere (or none)
//    and imports after other declarations (global.go parseAny);
//  * a block is accepted where an operand is expected (parser.go parseOperand "patch: accept block
//    statements inside expressions"), returned as UnaryExpr{Op: etoken.MACRO};
//  * import declarations are accepted as statements (parseStmt "patch: allow imports inside statements").
// When the fork reports no error for an input go/parser rejects, the input is justified iff the fork's
// tree uses one of the last two extensions, or every top-level node the fork returned covers a text
// that go/parser accepts as a declaration or as a statement and nothing but comments and semicolons
// lies between the nodes.

func c24StdAccepts(text string) bool {
	fset := token.NewFileSet()
	_, err := goparser.ParseFile(fset, "chunk.go", text, goparser.SkipObjectResolution)
	return err == nil
}

func c24StdAcceptsChunk(chunk []byte) bool {
	c := string(chunk)
	return c24StdAccepts("package p\n"+c+"\n") || c24StdAccepts("package p\nfunc _() {\n"+c+"\n}\n") || c24StdAccepts(c+"\n")
}

func c24OnlyTrivia(gap []byte) bool {
	if len(gap) == 0 {
		return true
	}
	// scanner errors are ignored here: a //line comment that follows a token in the file starts a
	// line when the gap is scanned alone and is then checked as a directive
	res := c23StdScan(gap, true, 1)
	for _, t := range res.toks {
		if t.Tok != token.COMMENT && t.Tok != token.SEMICOLON && t.Tok != token.EOF {
			return false
		}
	}
	return true
}

// c24UsesGrammarExtension: the fork's tree contains a node only gomacro's grammar produces.
func c24UsesGrammarExtension(nodes []ast.Node) string {
	why := ""
	for _, n := range nodes {
		if n == nil {
			continue
		}
		depth := 0 // > 0: inside a function body
		var visit func(n ast.Node) bool
		visit = func(n ast.Node) bool {
			if why != "" {
				return false
			}
			switch n := n.(type) {
			case *ast.UnaryExpr:
				if n.Op >= etoken.QUOTE {
					why = "block in operand position (gomacro grammar)"
				}
			case *ast.BinaryExpr:
				if n.Op >= etoken.QUOTE {
					why = "extension operator"
				}
			case *ast.SwitchStmt:
				if c24BodyHasNonCase(n.Body) {
					why = "statement in place of a case clause (gomacro grammar: switch x { ~,{...} })"
				}
			case *ast.TypeSwitchStmt:
				if c24BodyHasNonCase(n.Body) {
					why = "statement in place of a case clause (gomacro grammar: switch x { ~,{...} })"
				}
			case *ast.GenDecl:
				if n.Tok == token.PACKAGE && len(n.Specs) == 1 {
					if vs, ok := n.Specs[0].(*ast.ValueSpec); ok && len(vs.Values) > 0 {
						why = "package clause naming a string path (gomacro grammar)"
					}
				}
			case *ast.DeclStmt:
				if g, ok := n.Decl.(*ast.GenDecl); ok && g.Tok == token.IMPORT {
					why = "import declaration as a statement (gomacro grammar)"
				}
				if _, ok := n.Decl.(*ast.FuncDecl); ok {
					why = "function declaration as a statement (gomacro grammar)"
				}
			}
			_ = depth
			return why == ""
		}
		ast.Inspect(n, visit)
	}
	return why
}

func c24BodyHasNonCase(b *ast.BlockStmt) bool {
	if b == nil {
		return false
	}
	for _, st := range b.List {
		if _, ok := st.(*ast.CaseClause); !ok {
			return true
		}
	}
	return false
}

// c24Justified: toks is the standard scanner's token stream of src (base 1, comments included); the end of
// a node is moved to the start of the first token at or after it (BasicLit.End() is computed from the
// literal's value, which is shorter than its source text when a raw string contains carriage returns).
func c24Justified(src []byte, toks []c23Tok, nodes []ast.Node, pad int) (bool, string) {
	base := pad + 2
	prev := 0
	tokenStartAtOrAfter := func(off int) int {
		i := sort.Search(len(toks), func(i int) bool { return toks[i].Pos-1 >= off })
		if i < len(toks) {
			return toks[i].Pos - 1
		}
		return len(src)
	}
	for i, n := range nodes {
		if n == nil {
			return false, fmt.Sprintf("top-level node #%d is nil", i)
		}
		lo, hi := int(n.Pos())-base, int(n.End())-base
		if lo == hi && lo >= prev && hi <= len(src) {
			continue // implicit empty statement
		}
		if hi <= len(src) {
			hi = tokenStartAtOrAfter(hi)
		}
		if lo < prev || hi > len(src) || lo > hi {
			return false, fmt.Sprintf("top-level node #%d (%T) has extent %d..%d after %d", i, n, lo, hi, prev)
		}
		if !c24OnlyTrivia(src[prev:lo]) {
			return false, fmt.Sprintf("tokens %q in front of top-level node #%d (%T) belong to no node", fw.Clip(string(src[prev:lo]), 80), i, n)
		}
		if !c24StdAcceptsChunk(src[lo:hi]) {
			return false, fmt.Sprintf("go/parser accepts the text of top-level node #%d (%T) neither as a declaration nor as a statement: %q", i, n, fw.Clip(string(src[lo:hi]), 300))
		}
		prev = hi
	}
	if !c24OnlyTrivia(src[prev:]) {
		return false, fmt.Sprintf("tokens %q after the last top-level node belong to no node", fw.Clip(string(src[prev:]), 80))
	}
	return true, ""
}

func c24ErrClass(err error) string {
	first := err.Error()
	if i := strings.Index(first, ": "); i >= 0 {
		first = first[i+2:]
	}
	for _, cut := range []string{", found", " (and ", " U+", ": "} {
		if i := strings.Index(first, cut); i >= 0 {
			first = first[:i]
		}
	}
	if len(first) > 60 {
		first = first[:60]
	}
	return first
}

// c24Check is the oracle for one input.
func (cx *c23Ctx) c24Check(kind, origin string, src []byte, pad int, modes []mparser.Mode, strict bool, a *c23Acc, cmp *c24Cmp, show bool) c24Verdict {
	// lexical scope, on the standard scanner's tokens
	stdToks := c23StdScan(src, true, 1)
	if why := c23OutOfScope(stdToks.toks); why != "" {
		a.counts["out_of_scope_lexical_"+why]++
		if show {
			fmt.Printf("out of scope: %s\n", why)
		}
		return c24OutOfScope
	}
	file, stdErr := c24StdParse(src, pad)
	if file != nil {
		if why := c24Generic(file); why != "" {
			a.counts["out_of_scope_generic"]++
			a.cov("out_of_scope_generic", why)
			if show {
				fmt.Printf("out of scope: %s\n", why)
			}
			return c24OutOfScope
		}
	}
	verdict := c24Valid
	if stdErr != nil {
		verdict = c24Invalid
	}
	for _, mode := range modes {
		mn := c24ModeName(mode)
		nodes, forkErr, panicked := c24ForkParse(src, mode, pad)
		rep := func() c24Replay { return c24MkReplay(kind, origin, mode, pad, strict, src) }
		if show {
			fmt.Printf("---- %s: standard parser error: %v\n     fork parser error: %v\n     fork panic: %q\n", mn, stdErr, forkErr, panicked)
		}
		if panicked != "" {
			a.evals++
			what := fmt.Sprintf("[%s %s %s] Parser.Parse panics: %s", kind, origin, mn, panicked)
			if strings.Contains(panicked, "identifier already declared or resolved") && c24HasEmbeddedIdent(file) {
				cx.r.Known(c24FindingEmbed, rep(), what)
				a.counts[kind+"_blocked_by_known_embedded_iface_panic"]++
			} else {
				cx.r.Violation("panic", rep(), what)
			}
			continue
		}
		if stdErr != nil {
			// error side: the fork must report an error too
			a.evals++
			a.counts[kind+"_invalid_"+mn]++
			if forkErr == nil {
				if why := c24UsesGrammarExtension(nodes); why != "" {
					a.cov("error_side_exempt", why)
				} else if ok, why := c24Justified(src, stdToks.toks, nodes, pad); ok {
					a.cov("error_side_exempt", "every top-level node is a valid Go declaration or statement (gomacro top-level grammar)")
				} else {
					cx.r.Violation("missed-error", rep(), fmt.Sprintf("[%s %s %s] standard parser reports %q, forked parser reports no error; %s", kind, origin, mn, fw.Clip(stdErr.Error(), 200), why))
				}
			} else {
				a.counts["error_side_both_report"]++
				cx.sample(kind+"-rejected", map[string]interface{}{"kind": kind, "origin": origin, "go_parser_error": fw.Clip(stdErr.Error(), 120), "fork_error": fw.Clip(forkErr.Error(), 120)})
				a.cov("std_first_error", c24ErrClass(stdErr))
			}
			continue
		}
		// valid side
		if forkErr != nil {
			a.evals++
			if strict {
				cx.r.Violation("spurious-error", rep(), fmt.Sprintf("[%s %s %s] standard parser accepts, forked parser reports %q", kind, origin, mn, fw.Clip(forkErr.Error(), 300)))
			} else {
				// not demanded: the input is not known to be valid Go (go/parser accepts more than the language)
				a.cov("fork_stricter_than_go_parser_(not_asserted)", c24ErrClass(forkErr))
			}
			continue
		}
		// the fork returns the package clause as a GenDecl{Tok: PACKAGE} in front of the declarations
		decls := nodes
		if len(decls) > 0 {
			if g, ok := decls[0].(*ast.GenDecl); ok && g.Tok == token.PACKAGE {
				decls = decls[1:]
				ok := g.TokPos == file.Package && len(g.Specs) == 1
				if ok {
					vs, isvs := g.Specs[0].(*ast.ValueSpec)
					ok = isvs && len(vs.Names) == 1 && vs.Names[0].Name == file.Name.Name && vs.Names[0].NamePos == file.Name.NamePos
				}
				if ok {
					a.counts["package_clause_identical"]++
				} else {
					a.counts["package_clause_differs_(not_asserted)"]++
				}
			}
		}
		if len(decls) != len(file.Decls) {
			a.evals++
			cx.r.Violation("decl-count", rep(), fmt.Sprintf("[%s %s %s] standard parser yields %d top-level declarations, forked parser %d nodes after the package clause", kind, origin, mn, len(file.Decls), len(decls)))
			continue
		}
		before := cmp.rangeUnset
		beforeRecv := cmp.emptyRecv
		bad := false
		for i, d := range file.Decls {
			a.evals++
			var fn ast.Node = decls[i]
			diff := ""
			if fd, ok := fn.(ast.Decl); !ok {
				diff = fmt.Sprintf(": standard %T, fork %T (not a declaration)", d, fn)
			} else {
				diff = cmp.eq(reflect.ValueOf(&d).Elem(), reflect.ValueOf(&fd).Elem())
			}
			lo, hi := int(d.Pos())-pad-2, int(d.End())-pad-2
			if diff != "" {
				text := ""
				if lo >= 0 && hi <= len(src) && lo < hi {
					text = fw.Clip(string(src[lo:hi]), 200)
				}
				cx.r.Violation("tree", rep(), fmt.Sprintf("[%s %s %s] declaration #%d differs at Decls[%d]%s   source: %q", kind, origin, mn, i, i, diff, text))
				bad = true
				break
			}
			if mode == modes[0] && lo >= 0 && hi <= len(src) && lo < hi {
				a.distinct = append(a.distinct, string(src[lo:hi]))
			}
		}
		if n := cmp.rangeUnset - before; n > 0 {
			a.counts["rangestmt_range_unset_(known)"] += int64(n)
			cx.r.Known(c24FindingRange, rep(), fmt.Sprintf("[%s %s %s] %d RangeStmt nodes have Range == NoPos (go/parser sets the position of the range keyword)", kind, origin, mn, n))
		}
		if n := cmp.emptyRecv - beforeRecv; n > 0 {
			a.counts["empty_receiver_list_dropped_(invalid_Go,_tolerated)"] += int64(n)
		}
		if !bad {
			a.counts[kind+"_identical_"+mn]++
			cx.sample(kind, map[string]interface{}{"kind": kind, "origin": origin, "fork_mode": mn, "bytes": len(src), "declarations_identical": len(file.Decls)})
		}
	}
	if verdict == c24Invalid {
		a.distinct = append(a.distinct, "invalid:"+string(src))
	}
	return verdict
}

func checkC24(r *fw.Run) {
	r.SetRule("inputs = (a) every .go file under GOROOT/src and /repo (quick: fixed core + seeded sample of ~1000) that the standard scanner finds free of ~, # and the word macro outside strings/comments and whose standard-parser tree neither declares nor uses type parameters (TypeParams, IndexListExpr, IndexExpr in a type position or with a type-literal index, constraint elements), parsed twice (etoken.GENERICS = NONE and V2_CTI) and in two parser modes (0 as base.Globals, ParseComments|CopySources); (b) seeded mutants (quick 6000, thorough 200000) of whole in-scope files <= 40 KB: 1..2 token-level edits (2/3 of them bracket-preserving: delete/duplicate/swap/replace/insert/glue tokens, replace the gap between tokens by newlines or comments) or 1 byte-level edit. Valid side (go/parser accepts): the forked parser, driven like base.Globals.ParseBytes (Configure(mode,'~'), Init, Parse) on the same bytes and the same seeded file-set base, must return the package clause followed by exactly File.Decls, each declaration reflect-identical including every token.Pos (ignored: Obj/Scope/Unresolved, comment groups; known finding: RangeStmt.Range == NoPos; tolerated: the empty receiver list of 'func () f()', which is not valid Go). A fork error on an accepted input is a violation for corpus files outside testdata directories (known to be valid Go) and only recorded for testdata files and mutants (go/parser accepts more than the language: type-switch case lists, import paths, ':=' left sides, missing constant values are checked later by go/types). Error side (go/parser rejects): the forked parser must report an error too, unless gomacro's documented larger grammar explains the acceptance: its tree contains a block in operand position, a statement in place of a case clause, an import statement or a string package path, or every top-level node it returned covers text that go/parser itself accepts as a declaration or statement with only comments/semicolons between nodes (top-level statements). A panic escaping Parse is always a violation. A distinct non-trivial case = distinct source text of a compared top-level declaration, or distinct rejected mutant")
	r.Assume("go/parser and go/scanner of the toolchain that builds the harness (Go 1.23, ParseComments|SkipObjectResolution) are the reference")
	r.Assume("corpus files outside testdata directories are valid Go (they are compiled as part of the Go distribution / gomacro in some build configuration)")
	r.Assume("the gomacro grammar extensions that need no special character (statements/expressions/late imports/package clause anywhere at top level, { block } as operand, non-case statements in a switch body, import as statement, package \"path\") are intended behaviour and not errors the fork must report")
	r.Assume("etoken.GENERICS is process-global: it is switched between the parallel phases only")

	cx := &c23Ctx{r: r, merged: newC23Acc(), samples: map[string]int{}, verbose: os.Getenv("C24_VERBOSE") != ""}
	modes := []mparser.Mode{0, mparser.ParseComments | mparser.CopySources}

	if p := fw.ReplayArg(); p != "" {
		var rep c24Replay
		if err := fw.LoadReplay(p, &rep); err != nil {
			panic(err)
		}
		src, err := base64.StdEncoding.DecodeString(rep.SrcB64)
		if err != nil {
			panic(err)
		}
		fmt.Printf("replay %s %s: %d bytes: %q\n", rep.Kind, rep.Origin, len(src), fw.Clip(string(src), 400))
		a := newC23Acc()
		cx.c24Check(rep.Kind, rep.Origin, src, rep.Pad, []mparser.Mode{mparser.Mode(rep.Mode)}, rep.Strict, a, newC24Cmp(), true)
		cx.flush(a)
		r.SetMinDistinct(0)
		return
	}

	files := c23CorpusFiles(r)
	if len(files.all) < 1000 {
		r.Inconclusive(fmt.Sprintf("only %d corpus files found", len(files.all)))
		return
	}
	use := files.pick(r, "files", r.Pick(1000, 1<<30))
	r.Extra("corpus_files_total", len(files.all))
	r.Extra("corpus_files_used", len(use))
	padSeed := uint64(r.Rng("pad").Int63())

	nodesMerged := map[string]int64{}
	mergeNodes := func(c *c24Cmp) {
		cx.mu.Lock()
		for k, v := range c.nodes {
			nodesMerged[k] += v
		}
		cx.mu.Unlock()
		c.nodes = map[string]int64{}
	}

	// ---- (a) files, GENERICS_NONE then GENERICS_V2_CTI -------------------------------------------
	inScope := make([]bool, len(use))
	saved := etoken.GENERICS
	defer func() { etoken.GENERICS = saved }()
	for pass, g := range []etoken.Generics{etoken.GENERICS_NONE, etoken.GENERICS_V2_CTI} {
		etoken.GENERICS = g // process-global: set between the parallel phases, never during one
		kind := "file"
		if pass == 1 {
			kind = "file(CTI)"
		}
		cmps := map[int]*c24Cmp{}
		var cmpMu = &cx.mu
		cx.c23RunCases(len(use), func(w, i int, a *c23Acc) {
			cmpMu.Lock()
			cmp := cmps[w]
			if cmp == nil {
				cmp = newC24Cmp()
				cmps[w] = cmp
			}
			cmpMu.Unlock()
			src, err := os.ReadFile(use[i])
			if err != nil {
				a.counts["file_unreadable"]++
				return
			}
			pad := int(c23Mix(padSeed^uint64(i)) % 5000)
			v := cx.c24Check(kind, use[i], src, pad, modes, !strings.Contains(use[i], "/testdata/"), a, cmp, false)
			switch v {
			case c24Valid:
				a.counts[kind+"_valid_in_scope"]++
				if pass == 0 && len(src) <= 40000 {
					inScope[i] = true
				}
			case c24Invalid:
				a.counts[kind+"_invalid_in_scope"]++
			default:
				a.counts[kind+"_out_of_scope"]++
			}
		})
		for _, c := range cmps {
			mergeNodes(c)
		}
	}
	etoken.GENERICS = saved

	// ---- (b) mutants ---------------------------------------------------------------------------
	var pool []int
	for i, ok := range inScope {
		if ok {
			pool = append(pool, i)
		}
	}
	if len(pool) < 100 {
		r.Inconclusive(fmt.Sprintf("only %d in-scope files to mutate", len(pool)))
		return
	}
	alpha := c23Alphabet()
	nmut := r.Pick(6000, 200000)
	mseed := uint64(r.Rng("mutants").Int63())
	cache := newC23FileCache(use)
	cmps := map[int]*c24Cmp{}
	cx.c23RunCases(nmut, func(w, i int, a *c23Acc) {
		cx.mu.Lock()
		cmp := cmps[w]
		if cmp == nil {
			cmp = newC24Cmp()
			cmps[w] = cmp
		}
		cx.mu.Unlock()
		rnd := &c23Rand{s: c23Mix(mseed ^ c23Mix(uint64(i)))}
		fi := pool[rnd.intn(len(pool))]
		data := cache.get(fi)
		if len(data) == 0 {
			return
		}
		var out []byte
		var ops []string
		kind := "tokmut"
		switch i % 6 {
		case 0:
			kind = "bytemut"
			out, ops = c23ByteMutate(data, rnd, 1)
		case 1:
			out, ops = c23TokenMutate(data, rnd, alpha, 1+rnd.intn(2), false)
		default:
			kind = "tokmut-brackets-kept"
			out, ops = c23TokenMutate(data, rnd, alpha, 1+rnd.intn(2), true)
		}
		for _, op := range ops {
			a.cov("mutation_op", op)
		}
		pad := int(c23Mix(padSeed^uint64(i)) % 5000)
		v := cx.c24Check(kind, fmt.Sprintf("%s #%d %v", use[fi], i, ops), out, pad, modes[:1], false, a, cmp, false)
		switch v {
		case c24Valid:
			a.counts["mutant_still_valid"]++
		case c24Invalid:
			a.counts["mutant_invalid"]++
		default:
			a.counts["mutant_out_of_scope"]++
		}
	})
	for _, c := range cmps {
		mergeNodes(c)
	}

	cx.merged.cover["ast_node_compared"] = nodesMerged
	r.Extra("tables", cx.merged.cover)
	keys := make([]string, 0, len(cx.merged.counts))
	for c := range cx.merged.counts {
		keys = append(keys, c)
	}
	sort.Strings(keys)
	for _, c := range keys {
		r.Count(c, cx.merged.counts[c])
	}
	if cx.verbose {
		for _, c := range keys {
			fmt.Fprintf(os.Stderr, "COUNT %-60s %d\n", c, cx.merged.counts[c])
		}
		for t, m := range cx.merged.cover {
			if t == "ast_node_compared" || t == "mutation_op" {
				continue
			}
			for k, v := range m {
				fmt.Fprintf(os.Stderr, "COVER %-24s %-60s %d\n", t, k, v)
			}
		}
	}
	if cx.merged.counts["file_valid_in_scope"] < 100 {
		r.Inconclusive("fewer than 100 valid in-scope files compared")
	}
	if cx.merged.counts["mutant_invalid"] < int64(nmut/10) {
		r.Inconclusive("fewer than 10% of the mutants were rejected by the standard parser")
	}
	r.Sample(map[string]interface{}{"files_compared": cx.merged.counts["file_valid_in_scope"], "mutants_rejected_by_go_parser": cx.merged.counts["mutant_invalid"], "mutants_still_valid": cx.merged.counts["mutant_still_valid"]})
}
