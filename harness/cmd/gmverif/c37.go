package main

// C37 — REPL command lookup vs a linear-scan model.

import (
	"fmt"
	"io"
	"sort"
	"strings"

	"github.com/cosmos72/gomacro/base"
	"github.com/cosmos72/gomacro/fast"

	"gmverif/internal/fw"
)

func init() { register("C37", "exploration", checkC37) }

type c37Replay struct {
	Ops    []string `json:"ops"`    // "+name" / "-name"
	Prefix string   `json:"prefix"` // lookup
	Want   string   `json:"want"`
	Got    string   `json:"got"`
}

// model: returns "one:<name>", "ambiguous:<sorted names>", "none"
func c37Model(names map[string]bool, prefix string) string {
	if prefix == "" {
		return "none"
	}
	if names[prefix] {
		return "one:" + prefix
	}
	var m []string
	for n := range names {
		if strings.HasPrefix(n, prefix) {
			m = append(m, n)
		}
	}
	sort.Strings(m)
	switch len(m) {
	case 0:
		return "none"
	case 1:
		return "one:" + m[0]
	}
	return "ambiguous:" + strings.Join(m, " ")
}

func c37Real(prefix string) string {
	cmd, err := fast.Commands.Lookup(prefix)
	if err == nil {
		return "one:" + cmd.Name
	}
	if err == io.EOF {
		return "none"
	}
	f := strings.Fields(err.Error())
	sort.Strings(f)
	return "ambiguous:" + strings.Join(f, " ")
}

func c37Reset() []fast.Cmd {
	saved := fast.Commands.List()
	for _, c := range saved {
		fast.Commands.Del(c.Name)
	}
	return saved
}

func c37Restore(saved []fast.Cmd) {
	for _, c := range fast.Commands.List() {
		fast.Commands.Del(c.Name)
	}
	for _, c := range saved {
		fast.Commands.Add(c)
	}
}

func checkC37(r *fw.Run) {
	r.SetRule("command tables = every subset of a 10-name pool sharing prefixes plus random add/delete histories; a case = (table, prefix); distinct = distinct (sorted table, prefix) pairs whose model answer is not 'none' or whose table holds >=2 names; oracle = linear scan: exact name wins, unique prefix, ambiguity lists exactly the candidates, else no match")
	r.Assume("fast.Commands is the table Interp.Cmd consults; it is emptied and restored around the check")
	saved := c37Reset()
	defer c37Restore(saved)

	pool := []string{"a", "ab", "abc", "abd", "b", "ba", "e", "en", "env", "x_y"}
	alphabet := "abcdenvx_y"
	var prefixes []string
	var gen func(p string, d int)
	gen = func(p string, d int) {
		if p != "" {
			prefixes = append(prefixes, p)
		}
		if d == 0 {
			return
		}
		for i := 0; i < len(alphabet); i++ {
			gen(p+string(alphabet[i]), d-1)
		}
	}
	gen("", r.Pick(3, 4))
	mk := func(name string) fast.Cmd {
		return fast.Cmd{Name: name, Help: name, Func: func(ir *fast.Interp, arg string, opt base.CmdOpt) (string, base.CmdOpt) {
			return "", opt
		}}
	}
	check := func(names map[string]bool, ops []string, prefix string) {
		want := c37Model(names, prefix)
		got := c37Real(prefix)
		r.Eval(1)
		if want != "none" || len(names) >= 2 {
			keys := make([]string, 0, len(names))
			for n := range names {
				keys = append(keys, n)
			}
			sort.Strings(keys)
			r.Distinct(strings.Join(keys, ",") + "|" + prefix)
		}
		r.Cover("model_answer", strings.SplitN(want, ":", 2)[0])
		if want != got {
			rep := c37Replay{Ops: append([]string{}, ops...), Prefix: prefix, Want: want, Got: got}
			what := fmt.Sprintf("ops=%v Lookup(%q): want %s got %s", ops, prefix, want, got)
			if strings.HasPrefix(want, "one:") && want == "one:"+prefix && strings.HasPrefix(got, "ambiguous:") {
				r.Known("C37-exact-name-is-prefix", rep, what)
			} else {
				r.Violation("lookup", rep, what)
			}
		} else if r.Counter("sampled") < 4 && want != "none" {
			r.Count("sampled", 1)
			r.Sample(map[string]interface{}{"ops": append([]string{}, ops...), "prefix": prefix, "answer": got})
		}
	}
	if p := fw.ReplayArg(); p != "" {
		var rep c37Replay
		if err := fw.LoadReplay(p, &rep); err != nil {
			panic(err)
		}
		names := map[string]bool{}
		for _, op := range rep.Ops {
			if op[0] == '+' {
				fast.Commands.Add(mk(op[1:]))
				names[op[1:]] = true
			} else {
				fast.Commands.Del(op[1:])
				delete(names, op[1:])
			}
		}
		fmt.Printf("replay: Lookup(%q) model=%s real=%s\n", rep.Prefix, c37Model(names, rep.Prefix), c37Real(rep.Prefix))
		check(names, rep.Ops, rep.Prefix)
		r.SetMinDistinct(0)
		return
	}
	// (1) all subsets, inserted in a seeded order
	rng := r.Rng("subsets")
	for mask := 0; mask < 1<<len(pool); mask++ {
		var ops []string
		names := map[string]bool{}
		perm := rng.Perm(len(pool))
		for _, i := range perm {
			if mask&(1<<i) != 0 {
				fast.Commands.Add(mk(pool[i]))
				names[pool[i]] = true
				ops = append(ops, "+"+pool[i])
			}
		}
		if got := len(fast.Commands.List()); got != len(names) {
			r.Violation("list-size", c37Replay{Ops: ops}, fmt.Sprintf("ops=%v List() has %d entries, want %d", ops, got, len(names)))
		}
		for _, p := range prefixes {
			check(names, ops, p)
		}
		for n := range names {
			fast.Commands.Del(n)
		}
	}
	r.SetExhaustive(true)
	// (2) random add/delete histories
	nh := r.Pick(400, 6000)
	rng = r.Rng("histories")
	for h := 0; h < nh; h++ {
		names := map[string]bool{}
		var ops []string
		n := 5 + rng.Intn(26)
		for k := 0; k < n; k++ {
			name := pool[rng.Intn(len(pool))]
			if rng.Intn(3) != 0 {
				if !fast.Commands.Add(mk(name)) {
					r.Violation("add", c37Replay{Ops: ops}, "Add returned false for "+name)
				}
				names[name] = true
				ops = append(ops, "+"+name)
			} else {
				had := names[name]
				if got := fast.Commands.Del(name); got != had {
					r.Violation("del", c37Replay{Ops: append(ops, "-"+name)}, fmt.Sprintf("ops=%v Del(%q)=%v want %v", ops, name, got, had))
				}
				delete(names, name)
				ops = append(ops, "-"+name)
			}
			// list must be the sorted set
			lst := fast.Commands.List()
			got := make([]string, len(lst))
			for i, c := range lst {
				got[i] = c.Name
			}
			want := make([]string, 0, len(names))
			for nm := range names {
				want = append(want, nm)
			}
			sort.Strings(want)
			r.Eval(1)
			if strings.Join(got, " ") != strings.Join(want, " ") {
				r.Violation("list", c37Replay{Ops: ops}, fmt.Sprintf("ops=%v List()=%v want %v", ops, got, want))
			}
			for j := 0; j < 6; j++ {
				check(names, ops, prefixes[rng.Intn(len(prefixes))])
			}
			for _, nm := range pool {
				check(names, ops, nm)
			}
		}
		for nm := range names {
			fast.Commands.Del(nm)
		}
	}
	// (3) an unknown ':'-prefixed input is evaluated as code; a known one is dispatched
	c37Restore(saved)
	ir := fast.New()
	for _, tc := range []struct{ in, wantSrc string }{
		{":zzz 1+2", " zzz 1+2"}, {":1+2", " 1+2"}, {":println(3)", " println(3)"},
	} {
		src, opt := ir.Cmd(tc.in)
		r.Eval(1)
		r.Distinct("cmd|" + tc.in)
		if src != tc.wantSrc || opt&base.CmdOptForceEval == 0 {
			r.Violation("unknown-cmd", map[string]string{"input": tc.in}, fmt.Sprintf("Interp.Cmd(%q) = (%q, %v): unknown command must be handed back as code with ForceEval", tc.in, src, opt))
		}
	}
	called := ""
	fast.Commands.Add(fast.Cmd{Name: "zverif", Help: "zverif", Func: func(ir *fast.Interp, arg string, opt base.CmdOpt) (string, base.CmdOpt) {
		called = arg
		return "", opt
	}})
	src, _ := ir.Cmd(":zver  hello world")
	r.Eval(1)
	if called != "hello world" && called != " hello world" || src != "" {
		r.Violation("known-cmd", map[string]string{"input": ":zver  hello world"}, fmt.Sprintf("command not dispatched: called=%q src=%q", called, src))
	}
	fast.Commands.Del("zverif")
	saved = fast.Commands.List()
}
