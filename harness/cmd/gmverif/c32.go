package main

// C32 — untyped constant serialisation (import-table text form) round-trips exactly.

import (
	"fmt"
	"go/constant"
	"go/token"
	"math/big"
	"strings"

	"github.com/cosmos72/gomacro/base/untyped"

	"gmverif/internal/fw"
)

func init() { register("C32", "exploration", checkC32) }

type c32Case struct {
	Kind string `json:"kind"`
	Expr string `json:"value"` // ExactString of the value (or the string itself)
}

func c32KindName(k untyped.Kind) string { return k.String() }

func c32Check(r *fw.Run, kind untyped.Kind, val constant.Value, origin string) {
	r.Eval(1)
	var text string
	var k2 untyped.Kind
	var v2 constant.Value
	rep := c32Case{Kind: kind.String()}
	if val != nil {
		if kind == untyped.String {
			rep.Expr = fmt.Sprintf("%q", constant.StringVal(val))
		} else {
			rep.Expr = val.ExactString()
		}
	}
	perr, bad := guard(func() {
		text = untyped.Marshal(kind, val)
		k2, v2 = untyped.Unmarshal(text)
	})
	r.Cover("kind", kind.String())
	r.Cover("origin", origin)
	if bad {
		r.Violation("panic/"+kind.String(), rep, fmt.Sprintf("Marshal/Unmarshal of %s %s panicked: %v", kind, fw.Clip(rep.Expr, 200), perr))
		return
	}
	r.Distinct(kind.String() + "|" + rep.Expr)
	if k2 != kind {
		r.Violation("kind/"+kind.String(), rep, fmt.Sprintf("%s %s marshalled as %q decodes to kind %s", kind, fw.Clip(rep.Expr, 200), fw.Clip(text, 200), k2))
		return
	}
	if kind == untyped.None {
		if v2 != nil {
			r.Violation("nil", rep, "nil decodes to a non-nil value")
		}
		return
	}
	if v2 == nil || v2.Kind() == constant.Unknown {
		r.Violation("unknown/"+kind.String(), rep, fmt.Sprintf("%s %s marshalled as %q decodes to an unknown value", kind, fw.Clip(rep.Expr, 200), fw.Clip(text, 200)))
		return
	}
	equal := false
	switch kind {
	case untyped.String:
		equal = v2.Kind() == constant.String && constant.StringVal(v2) == constant.StringVal(val)
	case untyped.Bool:
		equal = v2.Kind() == constant.Bool && constant.BoolVal(v2) == constant.BoolVal(val)
	default:
		equal = constant.Compare(val, token.EQL, v2)
		if equal && kind != untyped.Complex {
			// exact rationals: the exact strings must agree too
			a, b := constant.ToFloat(val), constant.ToFloat(v2)
			if a.Kind() == constant.Float && b.Kind() == constant.Float || a.Kind() == constant.Int && b.Kind() == constant.Int {
				equal = a.ExactString() == b.ExactString()
			}
		}
	}
	if !equal && kind != untyped.String && kind != untyped.Bool && c32BeyondLimit(val) {
		// README: untyped float arithmetic is exact only while numerator and denominator are <= 5e1232 (4096 bits)
		r.Count("beyond_documented_exactness_limit", 1)
		return
	}
	if !equal {
		r.Violation("value/"+kind.String(), rep, fmt.Sprintf("[%s valkind=%v] %s %s marshalled as %q decodes to %s", origin, val.Kind(), kind, fw.Clip(rep.Expr, 60), fw.Clip(text, 60), fw.Clip(v2.ExactString(), 200)))
		return
	}
	if r.Counter("sampled_"+kind.String()) < 1 {
		r.Count("sampled_"+kind.String(), 1)
		r.Sample(map[string]string{"kind": kind.String(), "value": fw.Clip(rep.Expr, 120), "marshalled": fw.Clip(text, 120)})
	}
}

func checkC32(r *fw.Run) {
	r.SetRule("enumerated edge constants of every kind (0, -0, +-2^63, 2^10000, 1/3, 1e-400, 1e+400, non-dyadic rationals, huge exponents up to 2^(+-100000), complex with zero/huge/rational parts, strings with ':', newlines, NULs, invalid UTF-8, nil, bools, runes) + seeded random constants built with go/constant from random literals and random rationals; oracle: Unmarshal(Marshal(kind, v)) has the same kind and constant.Compare == (ExactString equality for exact int/float); distinct = distinct (kind, exact value)")
	r.Assume("go/constant is the reference for constant equality")
	if p := fw.ReplayArg(); p != "" {
		var c c32Case
		if err := fw.LoadReplay(p, &c); err != nil {
			panic(err)
		}
		fmt.Printf("replay: %+v\n", c)
		r.SetMinDistinct(0)
		var k untyped.Kind
		for _, kk := range []untyped.Kind{untyped.None, untyped.Bool, untyped.Int, untyped.Rune, untyped.Float, untyped.Complex, untyped.String} {
			if kk.String() == c.Kind {
				k = kk
			}
		}
		var v constant.Value
		switch k {
		case untyped.String:
			var s string
			fmt.Sscanf(c.Expr, "%q", &s)
			v = constant.MakeString(s)
		case untyped.Bool:
			v = constant.MakeBool(c.Expr == "true")
		case untyped.None:
		case untyped.Complex:
			v = c32ParseComplex(c.Expr)
		default:
			v = c32ParseExact(c.Expr)
		}
		c32Check(r, k, v, "replay")
		return
	}
	mk := func(s string, tok token.Token) constant.Value { return constant.MakeFromLiteral(s, tok, 0) }
	ratio := func(a, b string) constant.Value {
		return constant.BinaryOp(constant.ToFloat(mk(a, token.INT)), token.QUO, constant.ToFloat(mk(b, token.INT)))
	}
	pow2 := func(n int) constant.Value { return constant.Shift(constant.MakeInt64(1), token.SHL, uint(n)) }
	neg := func(v constant.Value) constant.Value { return constant.UnaryOp(token.SUB, v, 0) }
	// --- enumerated edges
	c32Check(r, untyped.None, nil, "edge")
	c32Check(r, untyped.Bool, constant.MakeBool(true), "edge")
	c32Check(r, untyped.Bool, constant.MakeBool(false), "edge")
	ints := []constant.Value{constant.MakeInt64(0), constant.MakeInt64(1), constant.MakeInt64(-1), constant.MakeInt64(1<<63 - 1), constant.MakeInt64(-1 << 63),
		pow2(63), pow2(64), neg(pow2(64)), pow2(10000), neg(pow2(10000)), mk("123456789012345678901234567890", token.INT), constant.MakeUint64(^uint64(0))}
	for _, v := range ints {
		c32Check(r, untyped.Int, v, "edge")
		c32Check(r, untyped.Rune, v, "edge")
		c32Check(r, untyped.Float, constant.ToFloat(v), "edge")
	}
	for _, c := range []string{"'a'", "'\\x00'", "'\\U0010FFFF'", "'世'"} {
		c32Check(r, untyped.Rune, mk(c, token.CHAR), "edge")
	}
	floats := []constant.Value{mk("0.0", token.FLOAT), neg(mk("0.0", token.FLOAT)), mk("1.5", token.FLOAT), mk("0.1", token.FLOAT), ratio("1", "3"), ratio("-22", "7"),
		mk("1e-400", token.FLOAT), mk("1e+400", token.FLOAT), mk("1e-5000", token.FLOAT), mk("1e+5000", token.FLOAT), mk("0x1p-1074", token.FLOAT), mk("0x1.fffffffffffffp+1023", token.FLOAT),
		mk("1e100000", token.FLOAT), mk("1e-100000", token.FLOAT), mk("3.14159265358979323846264338327950288419716939937510582097494459", token.FLOAT),
		ratio("1", "340282366920938463463374607431768211456"), constant.BinaryOp(constant.ToFloat(pow2(100000)), token.QUO, constant.ToFloat(mk("3", token.INT))),
		constant.BinaryOp(constant.ToFloat(mk("1", token.INT)), token.QUO, constant.ToFloat(pow2(100000))), mk("1e1232", token.FLOAT), mk("5e1233", token.FLOAT)}
	for _, v := range floats {
		c32Check(r, untyped.Float, v, "edge")
	}
	for _, re := range floats[:12] {
		for _, im := range []constant.Value{floats[0], floats[2], floats[4], floats[6], floats[7], neg(floats[3])} {
			c := constant.BinaryOp(constant.ToComplex(re), token.ADD, constant.MakeImag(im))
			c32Check(r, untyped.Complex, c, "edge")
		}
	}
	for _, s := range []string{"", "a", "a:b", ":", "::", "string:x", "int:1", "line1\nline2", "\x00", "\xff\xfe", "é世界", "nil", "a\\:b", "\"quoted\"", strings.Repeat("x:", 1000)} {
		c32Check(r, untyped.String, constant.MakeString(s), "edge")
	}
	// --- random constants
	rng := r.Rng("random")
	n := r.Pick(40000, 1500000)
	for i := 0; i < n; i++ {
		switch rng.Intn(6) {
		case 0:
			v := new(big.Int).Rand(rng, new(big.Int).Lsh(big.NewInt(1), uint(1+rng.Intn(300))))
			if rng.Intn(2) == 0 {
				v.Neg(v)
			}
			k := untyped.Int
			if rng.Intn(3) == 0 {
				k = untyped.Rune
			}
			c32Check(r, k, constant.Make(v), "random-int")
		case 1:
			num := new(big.Int).Rand(rng, new(big.Int).Lsh(big.NewInt(1), uint(1+rng.Intn(200))))
			den := new(big.Int).Rand(rng, new(big.Int).Lsh(big.NewInt(1), uint(1+rng.Intn(200))))
			if den.Sign() == 0 {
				den.SetInt64(7)
			}
			if rng.Intn(2) == 0 {
				num.Neg(num)
			}
			c32Check(r, untyped.Float, constant.BinaryOp(constant.ToFloat(constant.Make(num)), token.QUO, constant.ToFloat(constant.Make(den))), "random-rat")
		case 2:
			lit := fmt.Sprintf("%d.%de%d", rng.Intn(1000), rng.Intn(1000000), rng.Intn(8000)-4000)
			c32Check(r, untyped.Float, mk(lit, token.FLOAT), "random-float-lit")
		case 3:
			re := mk(fmt.Sprintf("%d.%de%d", rng.Intn(100), rng.Intn(1000), rng.Intn(800)-400), token.FLOAT)
			im := mk(fmt.Sprintf("%d.%de%d", rng.Intn(100), rng.Intn(1000), rng.Intn(800)-400), token.FLOAT)
			if rng.Intn(4) == 0 {
				re = constant.ToFloat(constant.MakeInt64(int64(rng.Intn(5) - 2)))
			}
			if rng.Intn(4) == 0 {
				im = neg(im)
			}
			c32Check(r, untyped.Complex, constant.BinaryOp(constant.ToComplex(re), token.ADD, constant.MakeImag(im)), "random-complex")
		case 4:
			b := make([]byte, rng.Intn(12))
			for j := range b {
				b[j] = ":a\n\x00\xffz:\\\"é"[rng.Intn(11)]
			}
			c32Check(r, untyped.String, constant.MakeString(string(b)), "random-string")
		case 5:
			f := rng.NormFloat64() * []float64{1, 1e300, 1e-300, 1e-320}[rng.Intn(4)]
			c32Check(r, untyped.Float, constant.MakeFloat64(f), "random-float64")
		}
	}
}

func c32ParseExact(s string) constant.Value {
	if i := strings.IndexByte(s, '/'); i >= 0 {
		return constant.BinaryOp(constant.ToFloat(constant.MakeFromLiteral(s[:i], token.INT, 0)), token.QUO, constant.ToFloat(constant.MakeFromLiteral(s[i+1:], token.INT, 0)))
	}
	if v := constant.MakeFromLiteral(s, token.INT, 0); v.Kind() != constant.Unknown {
		return v
	}
	return constant.MakeFromLiteral(s, token.FLOAT, 0)
}

func c32ParseComplex(s string) constant.Value {
	// "(re + im i)" as printed by ExactString
	s = strings.TrimSuffix(strings.TrimPrefix(s, "("), ")")
	i := strings.LastIndex(s, " + ")
	if i < 0 {
		return constant.MakeUnknown()
	}
	re := c32ParseExact(s[:i])
	im := c32ParseExact(strings.TrimSuffix(s[i+3:], "i"))
	return constant.BinaryOp(constant.ToComplex(re), token.ADD, constant.MakeImag(im))
}

// c32BeyondLimit: an exact rational whose numerator or denominator needs 4096 bits or more
// (go/constant itself cannot rebuild such a value from its parts; documented limit 5e1232).
func c32BeyondLimit(v constant.Value) bool {
	if v == nil {
		return false
	}
	switch v.Kind() {
	case constant.Int, constant.Float, constant.Complex:
	default:
		return false
	}
	for _, part := range []constant.Value{constant.Real(v), constant.Imag(v)} {
		s := part.ExactString()
		if i := strings.IndexByte(s, '/'); i >= 0 {
			for _, t := range []string{s[:i], s[i+1:]} {
				if n, ok := new(big.Int).SetString(strings.TrimPrefix(t, "-"), 10); ok && n.BitLen() >= 4096 {
					return true
				}
			}
		}
	}
	return false
}
