package main

// C31 helper: an offline go/types view of packages, type-checked from source.
//
// One `go list -e -deps -json` call (CGO_ENABLED=0, so every file set is pure Go) gives the
// directory, the build-constraint-filtered file list and the vendor import map of each package;
// the files are parsed in parallel and type-checked with function bodies ignored. Type-checking
// from source (not from export data) keeps untyped constants as the exact rationals the
// go/types checker computes, which is also how the tables were generated.

import (
	"bytes"
	"encoding/json"
	"fmt"
	"go/ast"
	"go/parser"
	"go/token"
	"go/types"
	"io"
	"os"
	"os/exec"
	"path/filepath"
	"runtime"
	"runtime/debug"
	"strings"
	"sync"

	"gmverif/internal/fw"
)

type c31ListPkg struct {
	ImportPath string
	Dir        string
	Name       string
	GoFiles    []string
	ImportMap  map[string]string
	Standard   bool
	Incomplete bool
	Error      *struct{ Err string }
}

type c31Loader struct {
	fset   *token.FileSet
	list   map[string]*c31ListPkg
	files  map[string][]*ast.File
	perr   map[string]error // parse errors
	pkgs   map[string]*types.Package
	terrs  map[string][]string // type errors per package
	active map[string]bool
	sizes  types.Sizes
	goDir  string
}

// c31GoEnv is the environment for the go command: the sandbox settings of the harness unless the caller set them.
func c31GoEnv() []string {
	env := os.Environ()
	have := map[string]bool{}
	for _, kv := range env {
		if i := strings.IndexByte(kv, '='); i > 0 {
			have[kv[:i]] = true
		}
	}
	for _, kv := range [][2]string{{"GOFLAGS", "-mod=mod"}, {"GOPROXY", "off"}, {"GOSUMDB", "off"}, {"GOTOOLCHAIN", "local"}} {
		if !have[kv[0]] {
			env = append(env, kv[0]+"="+kv[1])
		}
	}
	return append(env, "CGO_ENABLED=0")
}

// c31ModuleDir is a directory whose go.mod resolves gomacro and its third-party dependencies.
func c31ModuleDir() (dir string, readonly bool) {
	d := filepath.Join(fw.VerifDir, "harness")
	if _, err := os.Stat(filepath.Join(d, "go.mod")); err == nil {
		return d, false
	}
	if bi, ok := debug.ReadBuildInfo(); ok {
		for _, m := range bi.Deps {
			if m.Path == "github.com/cosmos72/gomacro" && m.Replace != nil && filepath.IsAbs(m.Replace.Path) {
				return m.Replace.Path, true
			}
		}
	}
	return "/repo", true
}

func c31NewLoader(paths []string) (*c31Loader, error) {
	dir, readonly := c31ModuleDir()
	env := c31GoEnv()
	if readonly {
		env = append(env, "GOFLAGS=-mod=readonly")
	}
	// the sources must be those of the toolchain this binary was built with
	cmd := exec.Command("go", "env", "GOVERSION")
	cmd.Env = env
	cmd.Dir = dir
	out, err := cmd.Output()
	if err != nil {
		return nil, fmt.Errorf("go env GOVERSION: %v", err)
	}
	if v := strings.TrimSpace(string(out)); v != runtime.Version() {
		return nil, fmt.Errorf("go command is %s but the harness was built with %s", v, runtime.Version())
	}
	args := []string{"list", "-e", "-deps", "-json=ImportPath,Dir,Name,GoFiles,ImportMap,Standard,Incomplete,Error"}
	if bi, ok := debug.ReadBuildInfo(); ok {
		for _, st := range bi.Settings {
			if st.Key == "-tags" && st.Value != "" {
				args = append(args, "-tags", st.Value) // the file sets of the binary under test
			}
		}
	}
	args = append(args, "--")
	args = append(args, paths...)
	cmd = exec.Command("go", args...)
	cmd.Env = env
	cmd.Dir = dir
	var stderr bytes.Buffer
	cmd.Stderr = &stderr
	out, err = cmd.Output()
	if err != nil {
		return nil, fmt.Errorf("go list in %s: %v: %s", dir, err, fw.Clip(stderr.String(), 400))
	}
	l := &c31Loader{fset: token.NewFileSet(), list: map[string]*c31ListPkg{}, files: map[string][]*ast.File{},
		perr: map[string]error{}, pkgs: map[string]*types.Package{}, terrs: map[string][]string{},
		active: map[string]bool{}, sizes: types.SizesFor("gc", runtime.GOARCH), goDir: dir}
	dec := json.NewDecoder(bytes.NewReader(out))
	for {
		var p c31ListPkg
		if err := dec.Decode(&p); err == io.EOF {
			break
		} else if err != nil {
			return nil, fmt.Errorf("go list output: %v", err)
		}
		pp := p
		l.list[p.ImportPath] = &pp
	}
	l.parseAll()
	return l, nil
}

func (l *c31Loader) parseAll() {
	type job struct{ pkg, file string }
	type res struct {
		pkg  string
		idx  int
		file *ast.File
		err  error
	}
	var jobs []job
	idx := map[job]int{}
	for path, p := range l.list {
		if p.Dir == "" || path == "unsafe" {
			continue
		}
		for i, f := range p.GoFiles {
			j := job{path, filepath.Join(p.Dir, f)}
			idx[j] = i
			jobs = append(jobs, j)
		}
		l.files[path] = make([]*ast.File, len(p.GoFiles))
	}
	ch := make(chan job)
	out := make(chan res)
	var wg sync.WaitGroup
	for w := 0; w < runtime.NumCPU(); w++ {
		wg.Add(1)
		go func() {
			defer wg.Done()
			for j := range ch {
				f, err := parser.ParseFile(l.fset, j.file, nil, parser.SkipObjectResolution)
				out <- res{j.pkg, idx[j], f, err}
			}
		}()
	}
	go func() {
		for _, j := range jobs {
			ch <- j
		}
		close(ch)
		wg.Wait()
		close(out)
	}()
	for r := range out {
		if r.err != nil && l.perr[r.pkg] == nil {
			l.perr[r.pkg] = r.err
		}
		l.files[r.pkg][r.idx] = r.file
	}
}

type c31Importer struct {
	l    *c31Loader
	from *c31ListPkg
}

func (im c31Importer) Import(path string) (*types.Package, error) {
	if path == "unsafe" {
		return types.Unsafe, nil
	}
	if im.from != nil {
		if m, ok := im.from.ImportMap[path]; ok {
			path = m
		}
	}
	return im.l.check(path)
}

func (l *c31Loader) check(path string) (*types.Package, error) {
	if path == "unsafe" {
		return types.Unsafe, nil
	}
	if p, ok := l.pkgs[path]; ok {
		if p == nil {
			return nil, fmt.Errorf("package %s could not be loaded", path)
		}
		return p, nil
	}
	lp := l.list[path]
	if lp == nil {
		l.pkgs[path] = nil
		return nil, fmt.Errorf("package %s not listed", path)
	}
	if lp.Dir == "" || len(lp.GoFiles) == 0 {
		l.pkgs[path] = nil
		msg := "no Go files"
		if lp.Error != nil {
			msg = lp.Error.Err
		}
		return nil, fmt.Errorf("package %s: %s", path, msg)
	}
	if l.active[path] {
		return nil, fmt.Errorf("import cycle through %s", path)
	}
	l.active[path] = true
	defer delete(l.active, path)
	var files []*ast.File
	for _, f := range l.files[path] {
		if f != nil {
			files = append(files, f)
		}
	}
	if err := l.perr[path]; err != nil {
		l.terrs[path] = append(l.terrs[path], "parse: "+err.Error())
	}
	conf := types.Config{
		Importer:         c31Importer{l, lp},
		IgnoreFuncBodies: true,
		FakeImportC:      true,
		Sizes:            l.sizes,
		Error: func(err error) {
			if len(l.terrs[path]) < 5 {
				l.terrs[path] = append(l.terrs[path], err.Error())
			}
		},
	}
	pkg, _ := conf.Check(path, l.fset, files, nil)
	l.pkgs[path] = pkg
	if pkg == nil {
		return nil, fmt.Errorf("package %s could not be type-checked", path)
	}
	return pkg, nil
}

// View returns the go/types package of path, or nil and the reason it is unavailable.
// missing=true means the go command says no such package exists.
func (l *c31Loader) View(path string) (pkg *types.Package, reason string, missing bool) {
	if path == "unsafe" {
		return types.Unsafe, "", false
	}
	lp := l.list[path]
	if lp == nil {
		return nil, "not listed by go list", false
	}
	if lp.Dir == "" {
		msg := "no directory"
		if lp.Error != nil {
			msg = lp.Error.Err
		}
		return nil, msg, true
	}
	pkg, err := l.check(path)
	if err != nil {
		return nil, err.Error(), false
	}
	if errs := l.terrs[path]; len(errs) > 0 {
		return nil, "type errors in the source view: " + strings.Join(errs, "; "), false
	}
	return pkg, "", false
}

// DeclaredAnywhere reports whether any non-test Go file in the package directory, under any build constraint,
// declares the package-level name. false means the package has no such symbol in any configuration.
func (l *c31Loader) DeclaredAnywhere(path, name string) (bool, error) {
	lp := l.list[path]
	if lp == nil || lp.Dir == "" {
		return false, fmt.Errorf("package %s has no directory", path)
	}
	ents, err := os.ReadDir(lp.Dir)
	if err != nil {
		return false, err
	}
	fset := token.NewFileSet()
	for _, e := range ents {
		n := e.Name()
		if e.IsDir() || !strings.HasSuffix(n, ".go") || strings.HasSuffix(n, "_test.go") {
			continue
		}
		f, err := parser.ParseFile(fset, filepath.Join(lp.Dir, n), nil, parser.SkipObjectResolution)
		if f == nil {
			return false, err
		}
		for _, d := range f.Decls {
			switch d := d.(type) {
			case *ast.FuncDecl:
				if d.Recv == nil && d.Name.Name == name {
					return true, nil
				}
			case *ast.GenDecl:
				for _, sp := range d.Specs {
					switch sp := sp.(type) {
					case *ast.ValueSpec:
						for _, id := range sp.Names {
							if id.Name == name {
								return true, nil
							}
						}
					case *ast.TypeSpec:
						if sp.Name.Name == name {
							return true, nil
						}
					}
				}
			}
		}
	}
	return false, nil
}
