package main

// C14 history generator. A history is a list of REPL inputs (one top-level statement each) plus its
// rendering as one compiled Go program: every declaration of the history becomes a package-level
// declaration (RefSrc), every other step a statement of §P in history order (RefBody).
// Every name is declared exactly once and only used after its declaring step, so both are the same program.

import (
	"fmt"
	"math/rand"
	"regexp"
	"strings"
)

type c14Field struct {
	Name string
	T    *c14T
}

type c14Method struct {
	Name string
	Ptr  bool  // pointer receiver
	Arg  *c14T // nil: no argument
	Ret  *c14T // nil: no result
}

type c14T struct {
	Go      string // type text ('§' in front of program-declared names)
	Class   string // bool int uint float complex string | struct slice array map iface ptr func
	K       *kindInfo
	Elem    *c14T
	Fields  []c14Field
	Methods []c14Method
}

func (t *c14T) basic() bool { return t.K != nil }

// slots is the number of Env.Ints slots a global of this type takes (0: boxed in Env.Vals).
func (t *c14T) slots() int {
	if t.K == nil || t.K.Class == "string" {
		return 0
	}
	if t.K.Name == "complex128" {
		return 2
	}
	return 1
}

type c14V struct {
	Name string
	T    *c14T
}

type c14F struct {
	Name string
	Arg  *c14T
	Ret  *c14T
}

type c14Gen struct {
	rng     *rand.Rand
	steps   []string
	body    []string
	decls   strings.Builder
	types   map[string]*c14T
	named   []*c14T
	vars    []*c14V
	hot     []*c14V
	funcs   []*c14F
	consts  []*c14V // typed constants
	n       int
	tag     int
	feats   map[string]int
	nslots  int  // model of Comp.IntBindNum
	cap     int  // model of cap(Env.Ints)
	max     int  // model of Comp.IntBindMax
	addr    bool // an address of an int-slot global may have been taken by an input generated so far
	addrRun bool // ... by an input already evaluated
	steer   bool // steer around the two known-finding shapes (see c14.go)
	sinceRd int
	intDecl int
}

func newC14Gen(rng *rand.Rand) *c14Gen {
	g := &c14Gen{rng: rng, types: map[string]*c14T{}, feats: map[string]int{}, steer: true}
	g.decls.WriteString("func §nop() {}\n")
	return g
}

func (g *c14Gen) feat(s string) { g.feats[s]++ }

func (g *c14Gen) name(prefix string) string {
	g.n++
	return fmt.Sprintf("§%s%d", prefix, g.n)
}

// ---- types

func (g *c14Gen) kindT(k *kindInfo) *c14T {
	if t := g.types[k.Name]; t != nil {
		return t
	}
	t := &c14T{Go: k.Name, Class: k.Class, K: k}
	g.types[k.Name] = t
	return t
}

func (g *c14Gen) mk(goText, class string, elem *c14T) *c14T {
	if t := g.types[goText]; t != nil {
		return t
	}
	t := &c14T{Go: goText, Class: class, Elem: elem}
	g.types[goText] = t
	return t
}

func (g *c14Gen) ptrTo(t *c14T) *c14T   { return g.mk("*"+t.Go, "ptr", t) }
func (g *c14Gen) sliceOf(t *c14T) *c14T { return g.mk("[]"+t.Go, "slice", t) }
func (g *c14Gen) arrayOf(t *c14T) *c14T { return g.mk("[3]"+t.Go, "array", t) }
func (g *c14Gen) mapOf(t *c14T) *c14T   { return g.mk("map[string]"+t.Go, "map", t) }
func (g *c14Gen) funcOf(t *c14T) *c14T  { return g.mk("func() "+t.Go, "func", t) }
func (g *c14Gen) iface() *c14T          { return g.mk("interface{}", "iface", nil) }

func (g *c14Gen) randKind() *kindInfo { return &allKinds[g.rng.Intn(len(allKinds))] }

func (g *c14Gen) randIntSlotKind() *kindInfo {
	for {
		k := g.randKind()
		if k.Class != "string" {
			return k
		}
	}
}

// randBasicT returns a basic or named-basic type.
func (g *c14Gen) randBasicT() *c14T {
	if len(g.named) > 0 && g.rng.Intn(4) == 0 {
		var c []*c14T
		for _, t := range g.named {
			if t.basic() {
				c = append(c, t)
			}
		}
		if len(c) > 0 {
			return c[g.rng.Intn(len(c))]
		}
	}
	return g.kindT(g.randKind())
}

func (g *c14Gen) randStructT() *c14T {
	var c []*c14T
	for _, t := range g.named {
		if t.Class == "struct" {
			c = append(c, t)
		}
	}
	if len(c) == 0 {
		return nil
	}
	return c[g.rng.Intn(len(c))]
}

// randValueT returns a type whose zero value is safe to use (no nil dereference possible).
func (g *c14Gen) randValueT() *c14T {
	switch g.rng.Intn(10) {
	case 0:
		if t := g.randStructT(); t != nil {
			return t
		}
	case 1:
		return g.arrayOf(g.randBasicT())
	case 2:
		return g.iface()
	}
	return g.randBasicT()
}

// ---- emit

func (g *c14Gen) step(repl, compiled string) {
	g.afterEval() // Interp.prepareEnv of the previous input
	g.addrRun = g.addr
	g.steps = append(g.steps, repl)
	if compiled != "" {
		g.body = append(g.body, compiled)
	}
	g.sinceRd++
}

func (g *c14Gen) topDecl(s string) { g.decls.WriteString(s + "\n") }

func (g *c14Gen) addVar(name string, t *c14T) *c14V {
	v := &c14V{name, t}
	g.vars = append(g.vars, v)
	if n := t.slots(); n > 0 {
		g.intDecl++
		if g.max == 0 || g.nslots < g.max {
			g.nslots += n // else: boxed (Comp.NewBind honours IntBindMax)
		}
	}
	return v
}

// afterEval models Interp.prepareEnv: called once per emitted step.
func (g *c14Gen) afterEval() {
	if g.cap < g.nslots && !g.addrRun {
		c := g.cap * 2
		if c < g.nslots {
			c = g.nslots
		}
		if c-g.cap < 1024 {
			c = g.cap + 1024
		}
		g.cap = c
	}
	if g.addrRun {
		g.max = g.cap
	}
}

// safeDecl is called before n int-slot globals (two slots each if cplx) are declared by the next input. Unless steering
// is off it keeps the history away from the two known-finding shapes: it emits a read (any evaluation refreshes
// IntBindMax) when the declaration would outgrow Env.Ints right after an address was taken, and reports false when
// a complex128 would be given the last single slot.
func (g *c14Gen) safeDecl(n int, cplx bool) bool {
	if !g.steer || !g.addr {
		return true
	}
	per := 1
	if cplx {
		per = 2
	}
	if g.nslots+n*per <= g.cap {
		return true
	}
	if g.max == 0 {
		g.doRead()
		g.afterEval()
		g.addrRun = g.addr
		g.afterEval()
	}
	if cplx && g.max != 0 && g.nslots < g.max && (g.max-g.nslots)%2 == 1 {
		return false
	}
	return true
}

// ---- literals and expressions

func (g *c14Gen) lit(t *c14T) string {
	k := t.K
	if g.rng.Intn(3) == 0 {
		return k.randConsts(g.rng, 1)[0]
	}
	return k.Consts[g.rng.Intn(len(k.Consts))]
}

func (g *c14Gen) pickVar(pred func(v *c14V) bool) *c14V {
	if len(g.hot) > 0 && g.rng.Intn(2) == 0 {
		var c []*c14V
		for _, v := range g.hot {
			if pred(v) {
				c = append(c, v)
			}
		}
		if len(c) > 0 {
			return c[g.rng.Intn(len(c))]
		}
	}
	var c []*c14V
	for _, v := range g.vars {
		if pred(v) {
			c = append(c, v)
		}
	}
	if len(c) == 0 {
		return nil
	}
	return c[g.rng.Intn(len(c))]
}

// place returns an addressable, assignable expression of type t (or "").
func (g *c14Gen) place(t *c14T) string {
	v := g.pickVar(func(v *c14V) bool {
		switch {
		case v.T == t:
			return true
		case v.T.Class == "ptr" && v.T.Elem == t:
			return true
		case v.T.Class == "struct" || v.T.Class == "ptr" && v.T.Elem.Class == "struct":
			st := v.T
			if st.Class == "ptr" {
				st = st.Elem
			}
			for _, f := range st.Fields {
				if f.T == t {
					return true
				}
			}
		case (v.T.Class == "array" || v.T.Class == "slice") && v.T.Elem == t:
			return true
		}
		return false
	})
	if v == nil {
		return ""
	}
	switch {
	case v.T == t:
		return v.Name
	case v.T.Class == "ptr" && v.T.Elem == t:
		g.feat("place:deref")
		return "(*" + v.Name + ")"
	case v.T.Class == "array" || v.T.Class == "slice":
		g.feat("place:index-" + v.T.Class)
		return fmt.Sprintf("%s[%d]", v.Name, g.rng.Intn(3))
	}
	st := v.T
	if st.Class == "ptr" {
		st = st.Elem
		g.feat("place:ptr-field")
	} else {
		g.feat("place:field")
	}
	var fs []string
	for _, f := range st.Fields {
		if f.T == t {
			fs = append(fs, f.Name)
		}
	}
	return v.Name + "." + fs[g.rng.Intn(len(fs))]
}

// leaf returns an expression of type t and whether it is a constant expression.
func (g *c14Gen) leaf(t *c14T, wantVar bool) (string, bool) {
	for try := 0; try < 3; try++ {
		switch g.rng.Intn(8) {
		case 0, 1, 2, 3:
			if p := g.place(t); p != "" {
				return p, false
			}
		case 4:
			// function call
			var c []*c14F
			for _, f := range g.funcs {
				if f.Ret == t && (f.Arg == nil || f.Arg.basic()) {
					c = append(c, f)
				}
			}
			if len(c) > 0 {
				f := c[g.rng.Intn(len(c))]
				g.feat("expr:call")
				if f.Arg == nil {
					return f.Name + "()", false
				}
				a := g.arg(f.Arg)
				return f.Name + "(" + a + ")", false
			}
		case 5:
			// map element / func-typed variable call / method call
			v := g.pickVar(func(v *c14V) bool {
				if v.T.Class == "map" && v.T.Elem == t {
					return true
				}
				for _, m := range v.T.Methods {
					if m.Ret == t && m.Arg == nil {
						return true
					}
				}
				return false
			})
			if v != nil {
				switch v.T.Class {
				case "map":
					g.feat("expr:map-index")
					return fmt.Sprintf("%s[%q]", v.Name, []string{"a", "b", "zz"}[g.rng.Intn(3)]), false
				}
				for _, m := range v.T.Methods {
					if m.Ret == t && m.Arg == nil {
						g.feat("expr:method-call")
						return v.Name + "." + m.Name + "()", false
					}
				}
			}
		case 6:
			// typed constant
			var c []*c14V
			for _, k := range g.consts {
				if k.T == t {
					c = append(c, k)
				}
			}
			if len(c) > 0 && !wantVar {
				g.feat("expr:const")
				return c[g.rng.Intn(len(c))].Name, true
			}
		case 7:
			// conversion from a variable of another numeric kind (never float -> integer)
			if t.basic() && t.K.isNumeric() && t.K.Class != "complex" {
				v := g.pickVar(func(v *c14V) bool {
					if !v.T.basic() || v.T == t || !v.T.K.isNumeric() || v.T.K.Class == "complex" {
						return false
					}
					if t.K.Name == "float32" && v.T.K.isInteger() && v.T.K.Bits == 64 {
						// the interpreter converts 64-bit integers to float32 through float64 (double rounding): an
						// upstream conversion defect outside C14, e.g. float32(uint64(18446741324930482175))
						return false
					}
					return !(v.T.K.Class == "float" && t.K.Class != "float")
				})
				if v != nil {
					g.feat("expr:convert")
					return t.Go + "(" + v.Name + ")", false
				}
			}
		}
	}
	if t.basic() && !wantVar {
		l := g.lit(t)
		if strings.HasPrefix(l, "-") {
			l = "(" + l + ")"
		}
		return l, true
	}
	if p := g.place(t); p != "" {
		return p, false
	}
	return "", true
}

// expr returns an expression of type t assignable to a place of type t.
func (g *c14Gen) expr(t *c14T, depth int) string {
	switch t.Class {
	case "ptr":
		if p := g.place(t.Elem); p != "" && g.rng.Intn(3) != 0 {
			g.noteAddr(t.Elem)
			return "&" + p
		}
		for _, f := range g.funcs {
			if f.Ret == t && f.Arg == nil && g.rng.Intn(2) == 0 {
				g.feat("expr:call-returning-pointer")
				g.noteAddr(t.Elem)
				return f.Name + "()"
			}
		}
		if p := g.place(t); p != "" {
			return p
		}
		if p := g.place(t.Elem); p != "" {
			g.noteAddr(t.Elem)
			return "&" + p
		}
		return ""
	case "struct":
		if g.rng.Intn(3) == 0 {
			if p := g.place(t); p != "" {
				return p
			}
		}
		var fs []string
		for _, f := range t.Fields {
			fs = append(fs, f.Name+": "+g.expr(f.T, depth+1))
		}
		return t.Go + "{" + strings.Join(fs, ", ") + "}"
	case "array", "slice":
		if g.rng.Intn(3) == 0 {
			if p := g.place(t); p != "" {
				return p
			}
		}
		return fmt.Sprintf("%s{%s, %s, %s}", t.Go, g.expr(t.Elem, depth+1), g.expr(t.Elem, depth+1), g.expr(t.Elem, depth+1))
	case "map":
		return fmt.Sprintf("%s{\"a\": %s, \"b\": %s}", t.Go, g.expr(t.Elem, depth+1), g.expr(t.Elem, depth+1))
	case "func":
		g.feat("expr:closure")
		if p := g.place(t.Elem); p != "" && t.Elem.basic() && t.Elem.K.isNumeric() && g.rng.Intn(2) == 0 {
			return fmt.Sprintf("func() %s { %s++; return %s }", t.Elem.Go, p, p)
		}
		return fmt.Sprintf("func() %s { return %s }", t.Elem.Go, g.expr(t.Elem, depth+1))
	case "iface":
		// (values of interpreter-declared named types in interfaces are a documented limitation of type assertions)
		v := g.pickVar(func(v *c14V) bool { return v.T.basic() && v.T.Go == v.T.K.Name })
		if v == nil || g.rng.Intn(4) == 0 {
			return "nil"
		}
		return v.Name
	}
	// basic kinds
	k := t.K
	if depth >= 2 || g.rng.Intn(3) == 0 {
		e, _ := g.leaf(t, false)
		return e
	}
	a, aconst := g.leaf(t, false)
	if aconst {
		if a2, c2 := g.leaf(t, true); !c2 && a2 != "" {
			a, aconst = a2, false
		}
	}
	if aconst {
		return a
	}
	var b string
	if k.Class != "string" {
		b = g.expr(t, depth+1)
	}
	switch k.Class {
	case "bool":
		switch g.rng.Intn(4) {
		case 0:
			return "!" + a
		case 1:
			return "(" + a + " && " + b + ")"
		case 2:
			return "(" + a + " || " + b + ")"
		}
		// comparison of two values of another type
		ot := g.randBasicT()
		x, xc := g.leaf(ot, true)
		if xc || x == "" {
			return "(" + a + " == " + b + ")"
		}
		y := g.expr(ot, depth+1)
		op := "=="
		if ot.K.isOrdered() {
			op = []string{"==", "!=", "<", "<=", ">", ">="}[g.rng.Intn(6)]
		} else if g.rng.Intn(2) == 0 {
			op = "!="
		}
		return "(" + x + " " + op + " " + y + ")"
	case "string":
		// only one operand is not a literal: string lengths grow at most linearly with the number of steps
		if g.rng.Intn(2) == 0 {
			return "(" + a + " + " + g.lit(t) + ")"
		}
		return "(" + g.lit(t) + " + " + a + ")"
	case "float", "complex":
		if g.rng.Intn(5) == 0 {
			return "-" + a
		}
		return "(" + a + " " + []string{"+", "-", "*"}[g.rng.Intn(3)] + " " + b + ")"
	}
	// integers
	switch g.rng.Intn(12) {
	case 0:
		return "-" + a
	case 1:
		return "^" + a
	case 2:
		return fmt.Sprintf("(%s / (%s | 1))", a, b)
	case 3:
		return fmt.Sprintf("(%s %% (%s | 1))", a, b)
	case 4:
		return fmt.Sprintf("(%s << %d)", a, g.rng.Intn(k.Bits))
	case 5:
		return fmt.Sprintf("(%s >> %d)", a, g.rng.Intn(k.Bits))
	}
	return "(" + a + " " + []string{"+", "-", "*", "&", "|", "^", "&^"}[g.rng.Intn(7)] + " " + b + ")"
}

func (g *c14Gen) noteAddr(t *c14T) {
	if t.slots() > 0 {
		g.addr = true
		g.feat("address-of-int-slot-kind")
	} else {
		g.feat("address-of-boxed-kind")
	}
}

var c14BareMapIndex = regexp.MustCompile(`^§\w+\["\w+"\]$`)
var c14HasVar = regexp.MustCompile(`§[vgp]\d`)

// arg returns an argument expression for a one-parameter call. A bare map index as the only argument is
// rejected by the interpreter (f(m[k]): "not enough arguments in call", an upstream defect outside C14) and is avoided.
func (g *c14Gen) arg(t *c14T) string {
	for i := 0; i < 6; i++ {
		if e := g.expr(t, 1); e != "" && !c14BareMapIndex.MatchString(e) {
			return e
		}
	}
	if t.basic() {
		return t.Go + "(" + g.lit(t) + ")"
	}
	return ""
}

// cond returns a non-constant bool expression (a typed bool constant as a whole case expression of a tagless switch
// is rejected by the interpreter, an upstream defect outside C14).
func (g *c14Gen) cond() string {
	bt := g.kindT(kindByName["bool"])
	for i := 0; i < 4; i++ {
		if e := g.expr(bt, 0); c14HasVar.MatchString(e) {
			return e
		}
	}
	if v := g.pickVar(func(v *c14V) bool { return v.T.basic() && v.T.K.isOrdered() }); v != nil {
		return "(" + v.Name + " " + []string{"==", "!=", "<", "<=", ">", ">="}[g.rng.Intn(6)] + " " + g.expr(v.T, 1) + ")"
	}
	return "true"
}

// ---- steps

// declVar emits the declaration of a new global in one of the REPL spellings.
func (g *c14Gen) declVar(t *c14T, hot bool) *c14V {
	if n := t.slots(); n > 0 && !g.safeDecl(1, n == 2) {
		t = g.kindT(kindByName["float64"])
	}
	name := g.name("v")
	g.topDecl("var " + name + " " + t.Go)
	zeroOK := t.basic() || t.Class == "struct" || t.Class == "array" || t.Class == "iface"
	form := g.rng.Intn(6)
	if !zeroOK && form == 0 {
		form = 2
	}
	switch {
	case form == 0:
		g.feat("decl:var-zero")
		g.step("var "+name+" "+t.Go, "")
	case form == 1 && t.basic():
		// constant initialiser; the compiled side initialises by assignment at the same point
		l := g.lit(t)
		g.feat("decl:var-const-init")
		g.step(fmt.Sprintf("var %s %s = %s", name, t.Go, l), fmt.Sprintf("%s = %s", name, l))
	default:
		e := g.expr(t, 0)
		if e == "" || e == "nil" && t.Class != "iface" {
			g.feat("decl:var-zero")
			g.step("var "+name+" "+t.Go, "")
			break
		}
		switch {
		case form <= 3 || t.Class == "iface" || c14Untyped(e):
			g.feat("decl:var-typed-init")
			g.step(fmt.Sprintf("var %s %s = %s", name, t.Go, e), fmt.Sprintf("%s = %s", name, e))
		case form == 4:
			g.feat("decl:short")
			g.step(fmt.Sprintf("%s := %s", name, e), fmt.Sprintf("%s = %s", name, e))
		default:
			g.feat("decl:var-inferred")
			g.step(fmt.Sprintf("var %s = %s", name, e), fmt.Sprintf("%s = %s", name, e))
		}
	}
	v := g.addVar(name, t)
	if hot {
		g.hot = append(g.hot, v)
	}
	return v
}

// c14Untyped reports whether the expression might be an untyped constant (then := / inferred var would change its type).
func c14Untyped(e string) bool {
	return !strings.ContainsAny(e, "§") || strings.HasPrefix(e, "-") || strings.HasPrefix(e, "^") || strings.HasPrefix(e, "!")
}

// declInts declares n int-slot globals of one kind in one input (var a, b, c T [= ...] or a var group).
func (g *c14Gen) declInts(n int, k *kindInfo) {
	if !g.safeDecl(n, k.Name == "complex128") {
		k = kindByName["uint16"]
	}
	t := g.kindT(k)
	names := make([]string, n)
	for i := range names {
		names[i] = g.name("g")
		g.topDecl("var " + names[i] + " " + t.Go)
	}
	switch form := g.rng.Intn(3); {
	case form == 0:
		g.feat("decl:multi-zero")
		g.step("var "+strings.Join(names, ", ")+" "+t.Go, "")
	case form == 1:
		g.feat("decl:multi-init")
		lits := make([]string, n)
		for i := range lits {
			lits[i] = g.lit(t)
		}
		g.step("var "+strings.Join(names, ", ")+" "+t.Go+" = "+strings.Join(lits, ", "), strings.Join(names, ", ")+" = "+strings.Join(lits, ", "))
	default:
		g.feat("decl:group")
		var a, b []string
		for _, nm := range names {
			l := g.lit(t)
			a = append(a, fmt.Sprintf("%s %s = %s", nm, t.Go, l))
			b = append(b, fmt.Sprintf("%s = %s", nm, l))
		}
		g.step("var (\n"+strings.Join(a, "\n")+"\n)", strings.Join(b, "\n"))
	}
	for _, nm := range names {
		g.addVar(nm, t)
	}
}

func (g *c14Gen) declType() {
	name := g.name("T")
	if g.rng.Intn(2) == 0 {
		k := g.randKind()
		for k.Class == "bool" {
			// comparisons yield the untyped boolean in Go but plain bool in the interpreter: a named bool type would
			// only exercise that (known, unrelated) deviation
			k = g.randKind()
		}
		t := &c14T{Go: name, Class: k.Class, K: k}
		g.types[name] = t
		g.named = append(g.named, t)
		g.topDecl("type " + name + " " + k.Name)
		g.step("type "+name+" "+k.Name, "")
		g.feat("decl:type-basic")
		return
	}
	t := &c14T{Go: name, Class: "struct"}
	var fs []string
	for i, n := 0, 1+g.rng.Intn(4); i < n; i++ {
		ft := g.randBasicT()
		if g.rng.Intn(6) == 0 {
			ft = g.arrayOf(g.kindT(g.randKind()))
		}
		f := c14Field{Name: string(rune('A' + i)), T: ft}
		t.Fields = append(t.Fields, f)
		fs = append(fs, f.Name+" "+ft.Go)
	}
	g.types[name] = t
	g.named = append(g.named, t)
	d := "type " + name + " struct { " + strings.Join(fs, "; ") + " }"
	g.topDecl(d)
	g.step(d, "")
	g.feat("decl:type-struct")
}

func (g *c14Gen) declMethod() bool {
	if len(g.named) == 0 {
		return false
	}
	t := g.named[g.rng.Intn(len(g.named))]
	if len(t.Methods) >= 3 {
		return false
	}
	mname := fmt.Sprintf("M%d", len(t.Methods))
	var d string
	var m c14Method
	if t.basic() {
		if !t.K.isNumeric() {
			return false
		}
		if g.rng.Intn(2) == 0 {
			m = c14Method{Name: mname, Ret: t}
			d = fmt.Sprintf("func (r %s) %s() %s { return r + r }", t.Go, mname, t.Go)
		} else {
			m = c14Method{Name: mname, Ptr: true}
			d = fmt.Sprintf("func (r *%s) %s() { *r = *r + 1 }", t.Go, mname)
		}
	} else {
		f := t.Fields[g.rng.Intn(len(t.Fields))]
		if !f.T.basic() {
			return false
		}
		if g.rng.Intn(2) == 0 {
			m = c14Method{Name: mname, Ret: f.T}
			d = fmt.Sprintf("func (r %s) %s() %s { return r.%s }", t.Go, mname, f.T.Go, f.Name)
		} else {
			m = c14Method{Name: mname, Ptr: true, Arg: f.T}
			d = fmt.Sprintf("func (r *%s) %s(v %s) { r.%s = v }", t.Go, mname, f.T.Go, f.Name)
		}
	}
	t.Methods = append(t.Methods, m)
	g.topDecl(d)
	g.step(d, "")
	g.feat("decl:method")
	return true
}

func (g *c14Gen) declConst() {
	t := g.kindT(g.randKind())
	name := g.name("K")
	d := fmt.Sprintf("const %s %s = %s", name, t.Go, g.lit(t))
	g.topDecl(d)
	g.step(d, "")
	g.consts = append(g.consts, &c14V{name, t})
	g.feat("decl:const")
}

func (g *c14Gen) declFunc() {
	name := g.name("f")
	t := g.randBasicT()
	var d string
	f := &c14F{Name: name}
	switch g.rng.Intn(6) {
	case 0: // reads globals
		f.Ret = t
		d = fmt.Sprintf("func %s() %s { return %s }", name, t.Go, g.expr(t, 0))
		g.feat("func:reads-globals")
	case 1: // parameter and globals
		f.Arg, f.Ret = t, t
		e := g.expr(t, 1)
		switch {
		case t.K.Class == "bool":
			e = "a != " + e
		case t.K.Class == "string":
			e = "a + " + g.lit(t)
		case t.K.isNumeric():
			e = "a + " + e
		}
		d = fmt.Sprintf("func %s(a %s) %s { return %s }", name, t.Go, t.Go, e)
		g.feat("func:param+globals")
	case 2: // setter of a global, with a trace event inside
		p := g.place(t)
		if p == "" {
			g.declVar(t, false)
			return
		}
		f.Arg = t
		g.tag++
		d = fmt.Sprintf("func %s(a %s) { %s = a; rec(%d, %s) }", name, t.Go, p, g.tag, p)
		g.feat("func:sets-global")
	case 3: // returns the address of a global
		p := g.place(t)
		if p == "" {
			g.declVar(t, false)
			return
		}
		f.Ret = g.ptrTo(t)
		// the address is taken 0-3 block scopes below the function scope (each block has a local of its own)
		depth := g.rng.Intn(4)
		open, close := "", ""
		for i := 1; i <= depth; i++ {
			open += fmt.Sprintf("{ blk%d := %d; _ = blk%d; ", i, i, i)
			close += " }"
		}
		d = fmt.Sprintf("func %s() *%s { %sreturn &%s%s }", name, t.Go, open, p, close)
		g.noteAddr(t)
		g.feat("func:returns-address-of-global")
		g.feat(fmt.Sprintf("func:address-of-global-from-block-depth-%d", depth))
	case 4: // writes through a pointer parameter
		f.Arg = g.ptrTo(t)
		e := g.expr(t, 1)
		d = fmt.Sprintf("func %s(p *%s) { *p = %s }", name, t.Go, e)
		g.feat("func:writes-through-pointer-param")
	default: // recursion
		f.Arg, f.Ret = g.kindT(kindByName["int"]), g.kindT(kindByName["int"])
		d = fmt.Sprintf("func %s(n int) int { if n <= 0 || n > 20 { return 0 }; return n + %s(n-1) }", name, name)
		g.feat("func:recursive")
	}
	g.topDecl(d)
	g.step(d, "")
	g.funcs = append(g.funcs, f)
}

// assignStmt returns one statement that changes a global (no declarations).
func (g *c14Gen) assignStmt() string {
	for try := 0; try < 6; try++ {
		switch g.rng.Intn(12) {
		case 0, 1, 2, 3:
			v := g.pickVar(func(v *c14V) bool {
				return v.T.Class != "map" && v.T.Class != "func" && v.T.Class != "slice" && v.T.Class != "ptr"
			})
			if v == nil {
				continue
			}
			t := v.T
			p := v.Name
			if g.rng.Intn(2) == 0 && t.basic() {
				if q := g.place(t); q != "" {
					p = q
				}
			}
			e := g.expr(t, 0)
			if e == "" {
				continue
			}
			g.feat("stmt:assign")
			return p + " = " + e
		case 4:
			t := g.randBasicT()
			p := g.place(t)
			if p == "" || !t.K.isNumeric() && t.K.Class != "string" {
				continue
			}
			op := "+="
			if t.K.isInteger() {
				op = []string{"+=", "-=", "*=", "&=", "|=", "^="}[g.rng.Intn(6)]
			} else if t.K.isNumeric() {
				op = []string{"+=", "-=", "*="}[g.rng.Intn(3)]
			}
			e, _ := g.leaf(t, false)
			if t.K.Class == "string" {
				e = g.lit(t)
			}
			g.feat("stmt:op-assign")
			return p + " " + op + " " + e
		case 5:
			t := g.randBasicT()
			p := g.place(t)
			if p == "" || !t.K.isNumeric() {
				continue
			}
			g.feat("stmt:incdec")
			return p + []string{"++", "--"}[g.rng.Intn(2)]
		case 6:
			// swap
			t := g.randBasicT()
			a, b := g.place(t), g.place(t)
			if a == "" || a == b {
				continue
			}
			g.feat("stmt:swap")
			return a + ", " + b + " = " + b + ", " + a
		case 7:
			// call of a setter / pointer-writer function
			var c []*c14F
			for _, f := range g.funcs {
				if f.Ret == nil && f.Arg != nil {
					c = append(c, f)
				}
			}
			if len(c) == 0 {
				continue
			}
			f := c[g.rng.Intn(len(c))]
			a := g.arg(f.Arg)
			if a == "" {
				continue
			}
			g.feat("stmt:call")
			return f.Name + "(" + a + ")"
		case 8:
			// method call with pointer receiver on a global
			v := g.pickVar(func(v *c14V) bool {
				for _, m := range v.T.Methods {
					if m.Ptr {
						return true
					}
				}
				return false
			})
			if v == nil {
				continue
			}
			for _, m := range v.T.Methods {
				if m.Ptr {
					g.noteAddr(v.T)
					g.feat("stmt:ptr-method-call")
					if v.T.slots() > 0 && g.rng.Intn(3) == 0 {
						return "(&" + v.Name + ")." + m.Name + "()" // explicit spelling of the implicit &x
					}
					if m.Arg == nil {
						return v.Name + "." + m.Name + "()"
					}
					return v.Name + "." + m.Name + "(" + g.arg(m.Arg) + ")"
				}
			}
		case 9:
			// map write / delete, pointer retarget, slice share
			v := g.pickVar(func(v *c14V) bool { return v.T.Class == "map" || v.T.Class == "ptr" || v.T.Class == "slice" })
			if v == nil {
				continue
			}
			switch v.T.Class {
			case "map":
				key := []string{"a", "b", "zz"}[g.rng.Intn(3)]
				if g.rng.Intn(4) == 0 {
					g.feat("stmt:map-delete")
					return fmt.Sprintf("delete(%s, %q)", v.Name, key)
				}
				g.feat("stmt:map-store")
				return fmt.Sprintf("%s[%q] = %s", v.Name, key, g.expr(v.T.Elem, 1))
			default:
				e := g.expr(v.T, 0)
				if e == "" {
					continue
				}
				g.feat("stmt:retarget-" + v.T.Class)
				return v.Name + " = " + e
			}
		case 10:
			v := g.pickVar(func(v *c14V) bool { return v.T.Class == "func" })
			if v == nil {
				continue
			}
			if p := g.place(v.T.Elem); p != "" && !strings.Contains(p, "(*") {
				g.feat("stmt:assign-from-closure-call")
				return p + " = " + v.Name + "()"
			}
		default:
			continue
		}
	}
	return "§nop()"
}

func (g *c14Gen) doAssign() {
	s := g.assignStmt()
	g.step(s, s)
}

// doControl emits a compound statement as one input.
func (g *c14Gen) doControl() {
	body := func(n int) string {
		var s []string
		for i := 0; i < n; i++ {
			s = append(s, g.assignStmt())
		}
		return strings.Join(s, "\n")
	}
	var s string
	switch g.rng.Intn(5) {
	case 0:
		g.tag++
		s = fmt.Sprintf("for i := 0; i < %d; i++ {\n%s\nrec(%d, i)\n}", 1+g.rng.Intn(4), body(1+g.rng.Intn(2)), g.tag)
		g.feat("stmt:for")
	case 1:
		s = fmt.Sprintf("if %s {\n%s\n} else {\n%s\n}", g.cond(), body(1), body(1))
		g.feat("stmt:if-else")
	case 2:
		s = fmt.Sprintf("switch {\ncase %s:\n%s\ndefault:\n%s\n}", g.cond(), body(1), body(1))
		g.feat("stmt:switch")
	case 3:
		// block with a local that shadows a global
		v := g.pickVar(func(v *c14V) bool { return v.T.basic() })
		if v == nil {
			g.doAssign()
			return
		}
		ot := g.kindT(g.randKind())
		g.tag++
		local := strings.TrimPrefix(v.Name, "§")
		// the local has the same spelling as the global in the interpreter; on the compiled side the global is prefixed,
		// so the block reads the global first, then shadows a same-named local only in the interpreter
		s = fmt.Sprintf("{\n%s := %s\nrec(%d, %s)\n}", local, ot.Go+"("+g.lit(ot)+")", g.tag, local)
		if ot.K.Class == "string" || ot.K.Class == "bool" {
			s = fmt.Sprintf("{\n%s := %s\nrec(%d, %s)\n}", local, g.lit(ot), g.tag, local)
		}
		g.feat("stmt:block-shadowing-global")
	default:
		// interface type switch / assertion on a global interface variable
		v := g.pickVar(func(v *c14V) bool { return v.T.Class == "iface" })
		if v == nil {
			g.doAssign()
			return
		}
		k := g.randKind()
		g.tag++
		s = fmt.Sprintf("if x, ok := %s.(%s); ok {\nrec(%d, x)\n} else {\nrec(%d, ok)\n}", v.Name, k.Name, g.tag, g.tag)
		g.feat("stmt:type-assert")
	}
	g.step(s, s)
}

// doRead emits a rec() of a few globals (and derefs of pointers among them).
func (g *c14Gen) doRead(extra ...string) {
	args := append([]string{}, extra...)
	for i, n := 0, 1+g.rng.Intn(5); i < n && len(g.vars) > 0; i++ {
		v := g.pickVar(func(*c14V) bool { return true })
		args = append(args, g.readExpr(v)...)
	}
	if len(args) == 0 {
		g.sinceRd = 0
		return
	}
	g.tag++
	s := fmt.Sprintf("rec(%d, %s)", g.tag, strings.Join(args, ", "))
	g.step(s, s)
	g.sinceRd = 0
}

func (g *c14Gen) readExpr(v *c14V) []string {
	switch v.T.Class {
	case "func":
		// called in an event of its own (the closure may change globals whose reads are not ordered against the call)
		g.tag++
		s := fmt.Sprintf("rec(%d, %s())", g.tag, v.Name)
		g.step(s, s)
		g.feat("expr:funcvar-call")
		return nil
	case "ptr":
		if v.T.Elem.basic() || v.T.Elem.Class == "struct" {
			return []string{"*" + v.Name}
		}
	case "map":
		return []string{v.Name, "len(" + v.Name + ")"}
	}
	return []string{v.Name}
}

// dump reads every variable, 40 per event.
func (g *c14Gen) dump() {
	var args []string
	flush := func() {
		if len(args) == 0 {
			return
		}
		g.tag++
		s := fmt.Sprintf("rec(%d, %s)", g.tag, strings.Join(args, ", "))
		g.step(s, s)
		args = nil
	}
	for _, v := range g.vars {
		args = append(args, g.readExpr(v)...)
		if len(args) >= 40 {
			flush()
		}
	}
	flush()
	g.sinceRd = 0
}

// randomStep emits one step of the general mix.
func (g *c14Gen) randomStep() {
	if g.sinceRd >= 1+g.rng.Intn(4) {
		g.doRead()
		return
	}
	w := g.rng.Intn(100)
	if len(g.vars) < 4 && w >= 60 {
		w = 0
	}
	switch {
	case w < 18:
		g.declVar(g.randBasicT(), false)
	case w < 24:
		g.declVar(g.randValueT(), false)
	case w < 30:
		// pointer, slice, map, func-typed variables (always initialised)
		t := g.randBasicT()
		if st := g.randStructT(); st != nil && g.rng.Intn(4) == 0 {
			t = st
		}
		var ct *c14T
		switch g.rng.Intn(5) {
		case 0, 1:
			ct = g.ptrTo(t)
			if g.place(t) == "" {
				g.declVar(t, false)
				return
			}
		case 2:
			ct = g.sliceOf(t)
		case 3:
			if !t.basic() {
				t = g.randBasicT()
			}
			ct = g.mapOf(t)
		default:
			if !t.basic() {
				t = g.randBasicT()
			}
			ct = g.funcOf(t)
		}
		g.declVar(ct, ct.Class == "ptr")
	case w < 34:
		g.declInts(2+g.rng.Intn(6), g.randIntSlotKind())
	case w < 39:
		g.declType()
	case w < 43:
		if !g.declMethod() {
			g.declType()
		}
	case w < 49:
		g.declFunc()
	case w < 52:
		g.declConst()
	case w < 60:
		g.doControl()
	default:
		g.doAssign()
	}
}

// prog finishes the history.
func (g *c14Gen) prog(id, cell string) *Prog {
	return &Prog{ID: id, Src: "func §nop() {}\n", RefSrc: g.decls.String(), Steps: g.steps, RefBody: strings.Join(g.body, "\n"), Cell: cell}
}
