package main

// C01 — typed expressions over basic types: operator x kind x shape x storage matrix,
// evaluated by the interpreter and by compiled Go on boundary + random operands.

import (
	"fmt"
	"math/rand"
	"strings"

	"gmverif/internal/fw"
)

func init() { register("C01", "exploration", checkC01) }

var c01Storages = []string{"local", "param", "global", "cap1", "cap2", "cap3", "cap4", "globalcap2"}

type c01Op struct {
	op    string
	class string // arith, bit, shift, cmp, eq, logic
}

var c01BinOps = []c01Op{
	{"+", "arith"}, {"-", "arith"}, {"*", "arith"}, {"/", "arith"}, {"%", "bit"},
	{"&", "bit"}, {"|", "bit"}, {"^", "bit"}, {"&^", "bit"},
	{"<<", "shift"}, {">>", "shift"},
	{"==", "eq"}, {"!=", "eq"}, {"<", "cmp"}, {"<=", "cmp"}, {">", "cmp"}, {">=", "cmp"},
	{"&&", "logic"}, {"||", "logic"},
}
var c01UnOps = []string{"+", "-", "^", "!"}

func c01BinValid(op c01Op, k *kindInfo) bool {
	switch op.class {
	case "arith":
		if op.op == "+" {
			return k.isNumeric() || k.Class == "string"
		}
		return k.isNumeric()
	case "bit", "shift":
		return k.isInteger()
	case "eq":
		return true
	case "cmp":
		return k.isOrdered()
	case "logic":
		return k.Class == "bool"
	}
	return false
}

func c01UnValid(op string, k *kindInfo) bool {
	switch op {
	case "+", "-":
		return k.isNumeric()
	case "^":
		return k.isInteger()
	case "!":
		return k.Class == "bool"
	}
	return false
}

// wrapExpr renders a function body that evaluates `expr` over variables x (and y) held in the given storage.
// a, b are the function parameters carrying the run-time operand values.
func c01Body(storage string, kx, ky string, tag int, expr string, binary bool) (decls string, body string) {
	assignXY := "x := a\n"
	if binary {
		assignXY = "x, y := a, b\n"
	}
	use := "_ = x\n"
	if binary {
		use = "_ = x\n_ = y\n"
	}
	recs := fmt.Sprintf("rec(%d, %s)", tag, expr)
	switch storage {
	case "param":
		e := substIdent(expr, map[string]string{"x": "a", "y": "b"})
		return "", fmt.Sprintf("rec(%d, %s)\n", tag, e)
	case "local":
		return "", assignXY + use + recs + "\n"
	case "global", "globalcap2":
		gx, gy := fmt.Sprintf("§gx%d", tag), fmt.Sprintf("§gy%d", tag)
		decls = fmt.Sprintf("var %s %s\n", gx, kx)
		asg := fmt.Sprintf("%s = a\n", gx)
		e := substIdent(expr, map[string]string{"x": gx})
		if binary {
			decls += fmt.Sprintf("var %s %s\n", gy, ky)
			asg = fmt.Sprintf("%s, %s = a, b\n", gx, gy)
			e = substIdent(e, map[string]string{"y": gy})
		}
		if storage == "global" {
			return decls, asg + fmt.Sprintf("rec(%d, %s)\n", tag, e)
		}
		return decls, asg + fmt.Sprintf("func() { func() { rec(%d, %s) }() }()\n", tag, e)
	case "cap1", "cap2", "cap3", "cap4":
		d := int(storage[3] - '0')
		open, close := "", ""
		for i := 0; i < d; i++ {
			// an unrelated local at each level makes every closure own a frame
			open += fmt.Sprintf("func() { u%d := %d; _ = u%d\n", i, i, i)
			close += "}()\n"
		}
		return "", assignXY + use + open + recs + "\n" + close
	}
	panic("bad storage " + storage)
}

type c01Frag struct {
	decls string
	fn    string // full function declaration
	call  string // how P calls it: "VV", "V", "0" (args)
	name  string
	shape string
}

func c01Cell(id int, opname string, unary bool, k *kindInfo, ck *kindInfo, storage string, rng *rand.Rand, nrand int) *Prog {
	// ck: kind of the right operand (differs from k only for shifts)
	var frags []c01Frag
	tag := 0
	mk := func(shape string, params string, expr string, binary bool, callShape string) {
		tag++
		decls, body := c01Body(storage, k.Name, ck.Name, tag, expr, binary)
		name := fmt.Sprintf("§e%d", tag)
		fn := fmt.Sprintf("func %s(%s) {\ndefer §rc(%d)\n%s}\n", name, params, tag, body)
		frags = append(frags, c01Frag{decls, fn, callShape, name, shape})
	}
	consts := k.Consts
	cconsts := ck.Consts
	if !unary && (opname == "<<" || opname == ">>") {
		if ck.Class == "int" {
			cconsts = []string{"0", "1", "2", "3", "7", "8", "15", "16", "31", "32", "33", "63", "64", "65", "100", "-1"}
		} else {
			cconsts = []string{"0", "1", "2", "3", "7", "8", "15", "16", "31", "32", "33", "63", "64", "65", "100", "255"}
		}
		var cc []string
		for _, c := range cconsts {
			if fitsKind(c, ck) {
				cc = append(cc, c)
			}
		}
		cconsts = cc
	}
	pa := "a " + k.Name
	pab := pa + ", b " + ck.Name
	if unary {
		mk("V", pa, opname+"x", false, "V")
		for _, c := range consts {
			mk("C", "", fmt.Sprintf("%s%s(%s)", opname, k.Name, c), false, "0")
		}
	} else {
		mk("VV", pab, "x "+opname+" y", true, "VV")
		// same variable on both sides
		if k.Name == ck.Name {
			mk("VV-same", pa, "x "+opname+" x", false, "V")
		}
		for _, c := range cconsts {
			// constant right: x op c
			mk("VC", pa, fmt.Sprintf("x %s %s", opname, c), false, "V")
		}
		for _, c := range consts {
			// constant left: c op y ; for shifts the left constant must be typed
			lc := c
			if opname == "<<" || opname == ">>" {
				lc = fmt.Sprintf("%s(%s)", k.Name, c)
			}
			tag++
			t := tag
			e := fmt.Sprintf("%s %s y", lc, opname)
			// a single-variable function over the right operand kind
			var decls, body string
			switch storage {
			case "param":
				decls, body = "", fmt.Sprintf("rec(%d, %s)\n", t, substIdent(e, map[string]string{"y": "b"}))
			default:
				d2, b2 := c01Body(storage, ck.Name, ck.Name, t, substIdent(e, map[string]string{"y": "x"}), false)
				decls, body = d2, b2
			}
			name := fmt.Sprintf("§e%d", t)
			params := "a " + ck.Name
			if storage == "param" {
				params = "b " + ck.Name
			}
			fn := fmt.Sprintf("func %s(%s) {\ndefer §rc(%d)\n%s}\n", name, params, t, body)
			frags = append(frags, c01Frag{decls, fn, "W", name, "CV"})
		}
		// both constant (typed): folded at compile time
		n := 0
		for i, c1 := range consts {
			for j, c2 := range cconsts {
				if (i*7+j*3)%5 != 0 && n > 0 {
					continue
				}
				n++
				rc := c2
				if opname != "<<" && opname != ">>" {
					rc = fmt.Sprintf("%s(%s)", ck.Name, c2)
				}
				mk("CC", "", fmt.Sprintf("%s(%s) %s %s", k.Name, c1, opname, rc), false, "0")
			}
		}
	}
	// fragment-level validity filter: keep only functions Go accepts (constant overflow, division by constant zero, ...)
	var src strings.Builder
	fmt.Fprintf(&src, "func §rc(tag int) { if r := recover(); r != nil { rec(-tag, pcl(r)) } }\n")
	var callsVV, callsV, callsW, calls0 []string
	shapes := map[string]int{}
	for _, f := range frags {
		if !fragValid(f.decls + f.fn) {
			continue
		}
		shapes[f.shape]++
		src.WriteString(f.decls)
		src.WriteString(f.fn)
		switch f.call {
		case "VV":
			callsVV = append(callsVV, f.name+"(a, b)")
		case "V":
			callsV = append(callsV, f.name+"(a)")
		case "W":
			callsW = append(callsW, f.name+"(b)")
		case "0":
			calls0 = append(calls0, f.name+"()")
		}
	}
	as := k.varOperands(rng, nrand)
	bs := as
	if ck.Name != k.Name {
		bs = ck.varOperands(rng, nrand)
		if ck.isInteger() && !unary {
			// shift counts: small and boundary values
			bs = append([]string{}, cconsts...)
			bs = append(bs, "o+o+o+o+o")
		}
	}
	zo := func(kk *kindInfo, z, o string) string {
		switch kk.Class {
		case "bool":
			return fmt.Sprintf("var %s, %s %s = false, true\n_ = %s\n_ = %s\n", z, o, kk.Name, z, o)
		case "string":
			return fmt.Sprintf("var %s, %s %s = \"\", \"1\"\n_ = %s\n_ = %s\n", z, o, kk.Name, z, o)
		}
		return fmt.Sprintf("var %s, %s %s = 0, 1\n_ = %s\n_ = %s\n", z, o, kk.Name, z, o)
	}
	fmt.Fprintf(&src, "func §P() {\n")
	src.WriteString(zo(k, "z", "o"))
	fmt.Fprintf(&src, "as := []%s{%s}\n", k.Name, strings.Join(as, ", "))
	if ck.Name != k.Name {
		src.WriteString("{\n" + zo(ck, "z", "o"))
		fmt.Fprintf(&src, "bs := []%s{%s}\n", ck.Name, strings.Join(bs, ", "))
	} else {
		fmt.Fprintf(&src, "{\nbs := as\n")
	}
	if len(callsVV) > 0 {
		fmt.Fprintf(&src, "for _, a := range as {\nfor _, b := range bs {\n%s\n}\n}\n", strings.Join(callsVV, "\n"))
	}
	if len(callsV) > 0 {
		fmt.Fprintf(&src, "for _, a := range as {\n%s\n}\n", strings.Join(callsV, "\n"))
	}
	if len(callsW) > 0 {
		fmt.Fprintf(&src, "for _, b := range bs {\n%s\n}\n", strings.Join(callsW, "\n"))
	} else {
		src.WriteString("_ = bs\n")
	}
	src.WriteString(strings.Join(calls0, "\n"))
	src.WriteString("\n}\n}\n")
	un := "bin"
	if unary {
		un = "un"
	}
	cell := fmt.Sprintf("%s%s/%s/%s", un, opname, k.Name, storage)
	if ck.Name != k.Name {
		cell = fmt.Sprintf("%s%s/%s,%s/%s", un, opname, k.Name, ck.Name, storage)
	}
	return &Prog{ID: fmt.Sprintf("c01-%d", id), Src: src.String(), Cell: cell, Mode: map[string]string{"shapes": fmt.Sprint(shapes)}}
}

func checkC01(r *fw.Run) {
	r.SetRule("cells = operator x operand kind(s) x storage (param, local, global, captured at closure depth 1..4, global read from depth 2); each cell is one program whose functions cover the shapes var-op-var, var-op-var(same), var-op-const, const-op-var, const-op-const (functions Go rejects, e.g. constant overflow, are filtered by go/types); every function is evaluated on the kind's boundary operand list (0, +-1, min, max, powers of two and neighbours, NaN, +-Inf, -0) plus seeded random operands, each under its own recover; oracle = event-by-event equality (kind + exact bits, panic class and position) with the same source compiled by Go; distinct = distinct program texts with at least one event")
	r.Assume("go/types + cmd/compile of the installed toolchain (go1.23.5, module language go1.18) are the reference semantics")
	r.Assume("named kinds rendered by reflect kind: byte/uint8 and rune/int32 are not distinguished")
	o := e1Opts{Classify: c01Classify}
	if p := fw.ReplayArg(); p != "" {
		e1ReplayFile(r, p, o)
		return
	}
	rng := r.Rng("cells")
	var progs []*Prog
	id := 0
	// quick: every (operator, kind) pair appears with at least one storage; storages rotate.
	quick := !r.Thorough()
	pick := 0
	storagesFor := func() []string {
		if !quick {
			return c01Storages
		}
		pick++
		return []string{c01Storages[(pick+int(r.Seed))%len(c01Storages)]}
	}
	nrand := r.Pick(3, 8)
	for _, op := range c01BinOps {
		for i := range allKinds {
			k := &allKinds[i]
			if !c01BinValid(op, k) {
				continue
			}
			if op.class == "shift" {
				for j := range allKinds {
					ck := &allKinds[j]
					if !ck.isInteger() {
						continue
					}
					if quick && (i+j+int(r.Seed))%4 != 0 && ck.Name != "uint" && ck.Name != "int" {
						continue
					}
					for _, st := range storagesFor() {
						id++
						progs = append(progs, c01Cell(id, op.op, false, k, ck, st, rng, nrand))
					}
				}
				continue
			}
			for _, st := range storagesFor() {
				id++
				progs = append(progs, c01Cell(id, op.op, false, k, k, st, rng, nrand))
			}
		}
	}
	for _, op := range c01UnOps {
		for i := range allKinds {
			k := &allKinds[i]
			if !c01UnValid(op, k) {
				continue
			}
			for _, st := range storagesFor() {
				id++
				progs = append(progs, c01Cell(id, op, true, k, k, st, rng, nrand))
			}
		}
	}
	// regression core: the cells in which defects were found and fixed (known_findings.json, kind "fixed")
	// are always present, whatever the seed.
	for _, rc := range []struct{ op, kind, st string; unary bool }{
		{"+", "float64", "local", false}, {"+", "complex64", "global", false}, {"*", "float32", "local", false},
		{"*", "complex128", "cap1", false}, {"/", "uint64", "local", false}, {"/", "uint", "param", false},
		{"/", "float32", "cap1", false}, {"/", "complex64", "local", false}, {"-", "float64", "local", true},
		{"==", "uint64", "cap3", false}, {"<", "uint64", "cap4", false}, {"+", "complex128", "param", false},
		{"-", "complex128", "local", false},
	} {
		id++
		k := kindByName[rc.kind]
		p := c01Cell(id, rc.op, rc.unary, k, k, rc.st, rng, nrand)
		p.Cell = "core:" + p.Cell
		progs = append(progs, p)
	}
	r.Extra("programs", len(progs))
	e1Run(r, progs, o)
}

func c01Classify(p *Prog, ref, got *Result, diff string) string {
	return ""
}
