package main

// C20 - position-insensitive generic tree over go/ast (built by reflection), its canonical text,
// and the normalisation that mirrors base.UnwrapTrivialAst + the re-wrapping done by ast2 Set().

import (
	"fmt"
	"go/ast"
	"go/token"
	"reflect"
	"strconv"
	"strings"
	"sync"

	"github.com/cosmos72/gomacro/go/etoken"
)

type c20Slot uint8

const (
	c20sOther c20Slot = iota // *ast.Ident, *ast.FieldList, ast.Spec, ast.Decl, *ast.CallExpr, ...
	c20sExpr                 // static type ast.Expr
	c20sStmt                 // static type ast.Stmt
	c20sBlock                // static type *ast.BlockStmt
	c20sNode                 // static type ast.Node (top-level list element): nothing is re-wrapped
)

// c20T is one node. A list (a Go slice field such as BlockStmt.List) is a node with L set, K "[]",
// and S[0] the slot class of every element.
type c20T struct {
	K string // go/ast struct name, or "[]"
	V string // scalar attributes (names, literal text, operators, flags) - never positions
	C []*c20T
	S []c20Slot
	L bool
}

type c20Field struct {
	idx  int
	kind int // 1 attr-string 2 attr-token 3 attr-bool 4 attr-pos-as-flag 5 child 6 list 7 attr-int
	name string
	slot c20Slot
}

var (
	c20Plans    sync.Map // reflect.Type (struct) -> []c20Field
	c20tPos     = reflect.TypeOf(token.NoPos)
	c20tTok     = reflect.TypeOf(token.ADD)
	c20tExpr    = reflect.TypeOf((*ast.Expr)(nil)).Elem()
	c20tStmt    = reflect.TypeOf((*ast.Stmt)(nil)).Elem()
	c20tNode    = reflect.TypeOf((*ast.Node)(nil)).Elem()
	c20tBlock   = reflect.TypeOf((*ast.BlockStmt)(nil))
	c20tSkipPtr = map[reflect.Type]bool{
		reflect.TypeOf((*ast.CommentGroup)(nil)): true,
		reflect.TypeOf((*ast.Object)(nil)):       true,
		reflect.TypeOf((*ast.Scope)(nil)):        true,
	}
)

func c20SlotOf(t reflect.Type) c20Slot {
	switch t {
	case c20tExpr:
		return c20sExpr
	case c20tStmt:
		return c20sStmt
	case c20tBlock:
		return c20sBlock
	case c20tNode:
		return c20sNode
	}
	return c20sOther
}

func c20Plan(st reflect.Type) []c20Field {
	if p, ok := c20Plans.Load(st); ok {
		return p.([]c20Field)
	}
	var plan []c20Field
	for i := 0; i < st.NumField(); i++ {
		f := st.Field(i)
		ft := f.Type
		switch {
		case ft == c20tPos:
			// positions are ignored, except the two that carry meaning as a flag
			if (st.Name() == "TypeSpec" && f.Name == "Assign") || (st.Name() == "CallExpr" && f.Name == "Ellipsis") {
				plan = append(plan, c20Field{idx: i, kind: 4, name: f.Name})
			}
		case ft == c20tTok:
			plan = append(plan, c20Field{idx: i, kind: 2, name: f.Name})
		case ft.Kind() == reflect.String:
			plan = append(plan, c20Field{idx: i, kind: 1, name: f.Name})
		case ft.Kind() == reflect.Bool:
			if st.Name() == "EmptyStmt" && f.Name == "Implicit" {
				continue // whether a semicolon was written or implied
			}
			plan = append(plan, c20Field{idx: i, kind: 3, name: f.Name})
		case ft.Kind() == reflect.Int: // ast.ChanDir
			plan = append(plan, c20Field{idx: i, kind: 7, name: f.Name})
		case ft.Kind() == reflect.Interface:
			plan = append(plan, c20Field{idx: i, kind: 5, name: f.Name, slot: c20SlotOf(ft)})
		case ft.Kind() == reflect.Ptr:
			if c20tSkipPtr[ft] {
				continue
			}
			plan = append(plan, c20Field{idx: i, kind: 5, name: f.Name, slot: c20SlotOf(ft)})
		case ft.Kind() == reflect.Slice:
			et := ft.Elem()
			if et.Kind() == reflect.Ptr && c20tSkipPtr[et] {
				continue
			}
			if et.Kind() != reflect.Interface && et.Kind() != reflect.Ptr {
				continue
			}
			plan = append(plan, c20Field{idx: i, kind: 6, name: f.Name, slot: c20SlotOf(et)})
		}
	}
	c20Plans.Store(st, plan)
	return plan
}

// c20FromNode converts a go/ast node (as produced by the fork parser or by the interpreters).
func c20FromNode(n ast.Node) *c20T {
	if n == nil {
		return nil
	}
	return c20FromValue(reflect.ValueOf(n))
}

func c20FromValue(v reflect.Value) *c20T {
	for v.Kind() == reflect.Interface {
		if v.IsNil() {
			return nil
		}
		v = v.Elem()
	}
	if v.Kind() != reflect.Ptr || v.IsNil() {
		return nil
	}
	s := v.Elem()
	if s.Kind() != reflect.Struct {
		return nil
	}
	st := s.Type()
	t := &c20T{K: st.Name()}
	var attrs []string
	for _, f := range c20Plan(st) {
		fv := s.Field(f.idx)
		switch f.kind {
		case 1:
			attrs = append(attrs, strconv.Quote(fv.String()))
		case 2:
			attrs = append(attrs, etoken.String(token.Token(fv.Int())))
		case 3:
			if fv.Bool() {
				attrs = append(attrs, f.name)
			}
		case 4:
			if fv.Int() != 0 {
				attrs = append(attrs, f.name)
			}
		case 7:
			attrs = append(attrs, f.name+"="+strconv.FormatInt(fv.Int(), 10))
		case 5:
			t.C = append(t.C, c20FromValue(fv))
			t.S = append(t.S, f.slot)
		case 6:
			l := &c20T{K: "[]", L: true, S: []c20Slot{f.slot}}
			for i := 0; i < fv.Len(); i++ {
				l.C = append(l.C, c20FromValue(fv.Index(i)))
			}
			t.C = append(t.C, l)
			t.S = append(t.S, c20sOther)
		}
	}
	t.V = strings.Join(attrs, " ")
	return t
}

// c20List builds a list node over the given elements.
func c20List(slot c20Slot, elems ...*c20T) *c20T {
	return &c20T{K: "[]", L: true, S: []c20Slot{slot}, C: elems}
}

// c20FromNodes converts the []ast.Node returned by the parser into a top-level list.
func c20FromNodes(nodes []ast.Node) *c20T {
	l := c20List(c20sNode)
	for _, n := range nodes {
		l.C = append(l.C, c20FromNode(n))
	}
	return l
}

func (t *c20T) slot(i int) c20Slot {
	if t.L {
		return t.S[0]
	}
	return t.S[i]
}

// shallow copy (children slice copied, children shared)
func (t *c20T) clone() *c20T {
	if t == nil {
		return nil
	}
	c := *t
	c.C = append([]*c20T(nil), t.C...)
	return &c
}

func (t *c20T) write(b *strings.Builder) {
	if t == nil {
		b.WriteByte('_')
		return
	}
	if t.L {
		b.WriteByte('[')
	} else {
		b.WriteString(t.K)
		if t.V != "" {
			b.WriteByte('<')
			b.WriteString(t.V)
			b.WriteByte('>')
		}
		if len(t.C) == 0 {
			return
		}
		b.WriteByte('(')
	}
	for i, c := range t.C {
		if i > 0 {
			b.WriteByte(' ')
		}
		c.write(b)
	}
	if t.L {
		b.WriteByte(']')
	} else {
		b.WriteByte(')')
	}
}

// String is the canonical text: two trees are structurally identical iff their texts are equal.
// (an absent list and an empty list print alike: "[]" - see c20FromValue, nil slices give empty lists)
func (t *c20T) String() string {
	var b strings.Builder
	t.write(&b)
	return b.String()
}

func (t *c20T) count() int {
	if t == nil {
		return 0
	}
	n := 1
	for _, c := range t.C {
		n += c.count()
	}
	return n
}

// ---------------------------------------------------------------- kinds

func c20IsExprKind(k string) bool {
	switch k {
	case "BasicLit", "CompositeLit", "FuncLit", "Ident", "Ellipsis",
		"ArrayType", "ChanType", "FuncType", "InterfaceType", "MapType", "StructType":
		return true
	}
	return strings.HasSuffix(k, "Expr")
}

func c20IsDeclKind(k string) bool { return strings.HasSuffix(k, "Decl") }

// child i of a struct node by field order (see go/ast): helpers for the few kinds the model inspects
func (t *c20T) blockList() *c20T  { return t.C[0] } // BlockStmt.List
func (t *c20T) isBlock() bool     { return t != nil && t.K == "BlockStmt" }
func (t *c20T) isIdent() bool     { return t != nil && t.K == "Ident" }
func (t *c20T) identName() string { s, _ := strconv.Unquote(t.V); return s }

// declaring reports whether a statement adds a binding to its block: DeclStmt or `:=`
func (t *c20T) declaring() bool {
	if t == nil {
		return false
	}
	return t.K == "DeclStmt" || t.K == "GenDecl" || (t.K == "AssignStmt" && t.V == ":=")
}

// c20Unwrap mirrors base.UnwrapTrivialAst: the contents of ParenExpr / ExprStmt / DeclStmt, and the
// single statement of a one-statement block unless that statement declares something.
func c20Unwrap(t *c20T, blocks bool) *c20T {
	for t != nil {
		switch t.K {
		case "BlockStmt":
			l := t.blockList()
			if !blocks || len(l.C) != 1 || l.C[0].declaring() {
				return t
			}
			t = l.C[0]
		case "ParenExpr", "ExprStmt", "DeclStmt":
			t = t.C[0]
		default:
			return t
		}
	}
	return t
}

func c20MkBlock(stmts ...*c20T) *c20T {
	return &c20T{K: "BlockStmt", C: []*c20T{c20List(c20sStmt, stmts...)}, S: []c20Slot{c20sOther}}
}

// c20Rewrap mirrors what ast2 Set()/Append() do when an unwrapped child is stored back into a slot of the
// given static type: ToStmt re-creates ExprStmt/DeclStmt, ToBlockStmt re-creates the block.
func c20Rewrap(t *c20T, slot c20Slot) *c20T {
	if t == nil {
		return nil
	}
	switch slot {
	case c20sStmt:
		if c20IsExprKind(t.K) {
			return &c20T{K: "ExprStmt", C: []*c20T{t}, S: []c20Slot{c20sExpr}}
		}
		if c20IsDeclKind(t.K) {
			return &c20T{K: "DeclStmt", C: []*c20T{t}, S: []c20Slot{c20sOther}}
		}
	case c20sBlock:
		if !t.isBlock() {
			return c20MkBlock(c20Rewrap(t, c20sStmt))
		}
	}
	return t
}

// c20Norm applies, everywhere in the tree, exactly the rewrites the code walk is allowed to make on
// macro-free code: every child is unwrapped as UnwrapTrivialAst does and stored back as Set() does.
// Net effect: ParenExpr removed; a one-statement non-declaring block in a statement position replaced
// by its statement; `{ { s } }` bodies collapsed to `{ s }`; at top level also ExprStmt/DeclStmt wrappers.
func c20Norm(t *c20T, slot c20Slot) *c20T {
	if t == nil {
		return nil
	}
	if !t.L {
		t = c20Rewrap(c20Unwrap(t, true), slot)
	}
	out := t.clone()
	for i, c := range out.C {
		out.C[i] = c20Norm(c, out.slot(i))
	}
	return out
}

// c20Canon is the comparison form for macro programs: c20Norm, then the remaining ExprStmt/DeclStmt
// wrappers dropped too (they carry no meaning and differ between `return a` and `~quasiquote{~,a}` results),
// and empty statements removed from statement lists.
func c20Canon(t *c20T, slot c20Slot) *c20T { return c20Strip(c20Norm(t, slot)) }

func c20Strip(t *c20T) *c20T {
	if t == nil {
		return nil
	}
	for !t.L && (t.K == "ExprStmt" || t.K == "DeclStmt") && len(t.C) == 1 && t.C[0] != nil {
		t = t.C[0]
	}
	out := t.clone()
	out.C = out.C[:0]
	for _, c := range t.C {
		if t.L && (t.S[0] == c20sStmt || t.S[0] == c20sNode) && c != nil && c.K == "EmptyStmt" {
			continue // an empty statement in a statement list is nothing
		}
		out.C = append(out.C, c20Strip(c))
	}
	return out
}

// c20FirstDiff returns a path and the two differing subtrees (for reports).
func c20FirstDiff(a, b *c20T, path string) (string, string, string) {
	if a == nil || b == nil || a.K != b.K || a.V != b.V || a.L != b.L || len(a.C) != len(b.C) {
		return path, c20Clip(a.String(), 300), c20Clip(b.String(), 300)
	}
	for i := range a.C {
		if a.C[i].String() != b.C[i].String() {
			return c20FirstDiff(a.C[i], b.C[i], fmt.Sprintf("%s/%s.%d", path, a.K, i))
		}
	}
	return path, "", ""
}

func c20Clip(s string, n int) string {
	if len(s) > n {
		return s[:n] + "..."
	}
	return s
}

// c20Show renders any interpreter result for debug output.
func c20Show(x interface{}) string {
	switch x := x.(type) {
	case ast.Node:
		return c20FromNode(x).String()
	case []ast.Node:
		return c20FromNodes(x).String()
	}
	return fmt.Sprintf("%v", x)
}
