package main

// C23/C24 workload: corpus files, windows, byte-level and token-level mutators, token soups.

import (
	"fmt"
	"go/token"
	"os"
	"os/exec"
	"path/filepath"
	"runtime"
	"sort"
	"strings"
	"sync"

	"gmverif/internal/fw"
)

// splitmix64
func c23Mix(x uint64) uint64 {
	x += 0x9e3779b97f4a7c15
	x = (x ^ (x >> 30)) * 0xbf58476d1ce4e5b9
	x = (x ^ (x >> 27)) * 0x94d049bb133111eb
	return x ^ (x >> 31)
}

type c23Rand struct{ s uint64 }

func (r *c23Rand) next() uint64 { r.s = c23Mix(r.s); return r.s }
func (r *c23Rand) intn(n int) int {
	if n <= 1 {
		return 0
	}
	return int(r.next() % uint64(n))
}
func (r *c23Rand) pick(l []string) string { return l[r.intn(len(l))] }

// ---------------------------------------------------------------------------------------------

type c23Files struct {
	all  []string
	core []string // always part of the quick tier
}

func c23Goroot() string {
	g := runtime.GOROOT()
	if g == "" {
		if out, err := exec.Command("go", "env", "GOROOT").Output(); err == nil {
			g = strings.TrimSpace(string(out))
		}
	}
	return g
}

func c23Walk(root string) []string {
	root, err := filepath.EvalSymlinks(root)
	if err != nil {
		return nil
	}
	var files []string
	filepath.Walk(root, func(path string, info os.FileInfo, err error) error {
		if err != nil {
			return nil
		}
		if info.IsDir() {
			if n := info.Name(); n == ".git" {
				return filepath.SkipDir
			}
			return nil
		}
		if strings.HasSuffix(path, ".go") && info.Size() > 0 {
			files = append(files, path)
		}
		return nil
	})
	sort.Strings(files)
	return files
}

// c23CorpusFiles lists every .go file of GOROOT/src and /repo.
func c23CorpusFiles(r *fw.Run) *c23Files {
	f := &c23Files{}
	groot, _ := filepath.EvalSymlinks(filepath.Join(c23Goroot(), "src"))
	f.all = append(f.all, c23Walk(groot)...)
	f.all = append(f.all, c23Walk("/repo")...)
	coreDirs := []string{
		groot + "/go/scanner/", groot + "/go/parser/", groot + "/go/printer/", groot + "/go/ast/", groot + "/go/token/",
		groot + "/strconv/", groot + "/fmt/", groot + "/math/big/", groot + "/text/scanner/", groot + "/sort/", groot + "/container/",
		"/repo/go/scanner/", "/repo/go/parser/", "/repo/go/etoken/", "/repo/base/", "/repo/ast2/",
	}
	for _, p := range f.all {
		for _, d := range coreDirs {
			if strings.HasPrefix(p, d) {
				f.core = append(f.core, p)
				break
			}
		}
	}
	return f
}

// pick returns the fixed core plus a seeded sample, n files in total (all files when n is large).
func (f *c23Files) pick(r *fw.Run, stream string, n int) []string {
	if n >= len(f.all) {
		return append([]string{}, f.all...)
	}
	in := map[string]bool{}
	out := []string{}
	for _, p := range f.core {
		if len(out) < n/2 {
			in[p] = true
			out = append(out, p)
		}
	}
	rest := []string{}
	for _, p := range f.all {
		if !in[p] {
			rest = append(rest, p)
		}
	}
	rng := r.Rng(stream)
	rng.Shuffle(len(rest), func(i, j int) { rest[i], rest[j] = rest[j], rest[i] })
	for _, p := range rest {
		if len(out) >= n {
			break
		}
		out = append(out, p)
	}
	sort.Strings(out)
	return out
}

type c23FileCache struct {
	paths []string
	mu    sync.Mutex
	data  map[int][]byte
}

func newC23FileCache(paths []string) *c23FileCache {
	return &c23FileCache{paths: paths, data: map[int][]byte{}}
}

func (c *c23FileCache) get(i int) []byte {
	c.mu.Lock()
	d, ok := c.data[i]
	c.mu.Unlock()
	if ok {
		return d
	}
	d, _ = os.ReadFile(c.paths[i])
	c.mu.Lock()
	c.data[i] = d
	c.mu.Unlock()
	return d
}

// c23Window returns a copy of a line-aligned window of 200..3000 bytes of data.
func c23Window(data []byte, rnd *c23Rand) []byte {
	size := 200 + rnd.intn(2800)
	if len(data) <= size {
		return append([]byte{}, data...)
	}
	start := rnd.intn(len(data) - size)
	for start > 0 && data[start-1] != '\n' {
		start--
	}
	end := start + size
	if end > len(data) {
		end = len(data)
	}
	if rnd.intn(4) != 0 { // mostly end at a line end, sometimes in the middle of a token
		for end < len(data) && data[end-1] != '\n' {
			end++
		}
	}
	return append([]byte{}, data[start:end]...)
}

// ---------------------------------------------------------------------------------------------
// byte-level mutation

var c23InterestingBytes = []byte{0, '\r', '\n', '"', '\'', '`', '\\', '/', '*', '.', '_', '0', '1', '9', 'x', 'X', 'b', 'o', 'e', 'E', 'p', 'P', 'i',
	0xff, 0xef, 0xbb, 0xbf, 0x80, 0xc0, ' ', '\t', ';', '+', '-', '=', '<', ':', '&', '^', '|', '!', '(', ')', '{', '}', '[', ']', ',', '$', '?', '@', 'a', 'Z'}

func c23ByteMutate(src []byte, rnd *c23Rand, n int) ([]byte, []string) {
	out := append([]byte{}, src...)
	var ops []string
	for k := 0; k < n; k++ {
		if len(out) == 0 {
			out = append(out, c23InterestingBytes[rnd.intn(len(c23InterestingBytes))])
			ops = append(ops, "byte-insert")
			continue
		}
		p := rnd.intn(len(out))
		switch rnd.intn(8) {
		case 0:
			out[p] ^= 1 << uint(rnd.intn(8))
			ops = append(ops, "bit-flip")
		case 1, 2:
			out[p] = c23InterestingBytes[rnd.intn(len(c23InterestingBytes))]
			ops = append(ops, "byte-replace")
		case 3:
			m := 1 + rnd.intn(3)
			if p+m > len(out) {
				m = len(out) - p
			}
			out = append(out[:p], out[p+m:]...)
			ops = append(ops, "byte-delete")
		case 4, 5:
			b := c23InterestingBytes[rnd.intn(len(c23InterestingBytes))]
			out = append(out[:p], append([]byte{b}, out[p:]...)...)
			ops = append(ops, "byte-insert")
		case 6:
			m := 1 + rnd.intn(6)
			if p+m > len(out) {
				m = len(out) - p
			}
			chunk := append([]byte{}, out[p:p+m]...)
			out = append(out[:p], append(chunk, out[p:]...)...)
			ops = append(ops, "chunk-duplicate")
		case 7:
			if rnd.intn(3) == 0 {
				out = out[:p]
				ops = append(ops, "truncate")
			} else {
				out = append([]byte("\xef\xbb\xbf"), out...)
				ops = append(ops, "bom-prefix")
			}
		}
	}
	return out, ops
}

// ---------------------------------------------------------------------------------------------
// token-level mutation

type c23Span struct {
	lo, hi int
	tok    token.Token
}

func c23IsBlank(b byte) bool { return b == ' ' || b == '\t' || b == '\n' || b == '\r' }

// c23Spans: byte spans of the tokens of src as seen by the standard scanner (comments included,
// automatic semicolons left out).
func c23Spans(src []byte) []c23Span {
	res := c23StdScan(src, true, 1)
	var spans []c23Span
	for i, t := range res.toks {
		if t.Tok == token.EOF || (t.Tok == token.SEMICOLON && t.Lit == "\n") {
			continue
		}
		lo := t.Pos - 1
		hi := len(src)
		for j := i + 1; j < len(res.toks); j++ {
			if res.toks[j].Pos-1 > lo {
				hi = res.toks[j].Pos - 1
				break
			}
		}
		if hi > len(src) {
			hi = len(src)
		}
		for hi > lo+1 && c23IsBlank(src[hi-1]) {
			hi--
		}
		if lo < 0 || lo >= hi {
			continue
		}
		spans = append(spans, c23Span{lo, hi, t.Tok})
	}
	return spans
}

var c23Gaps = []string{"\n", "\r\n", " /* c */ ", " // c\n", " /* a\nb */ ", "/**/", " /* c */ // d\n", "\t", "\n\n", " /* c */\n", "//\n", " /*\n*/ /* d */ "}

func c23IsBracket(t token.Token) bool {
	switch t {
	case token.LPAREN, token.RPAREN, token.LBRACK, token.RBRACK, token.LBRACE, token.RBRACE:
		return true
	}
	return false
}

// c23TokenMutate applies n token-level edits. With keepBrackets, bracket tokens are never
// deleted, duplicated, replaced or moved and no bracket is inserted, and the text is never truncated
// (used by C24 to keep an edit inside the declaration it was made in).
func c23TokenMutate(src []byte, rnd *c23Rand, alpha []string, n int, keepBrackets bool) ([]byte, []string) {
	out := append([]byte{}, src...)
	var ops []string
	for k := 0; k < n; k++ {
		spans := c23Spans(out)
		if len(spans) < 2 {
			break
		}
		i := rnd.intn(len(spans))
		s := spans[i]
		piece := func() string {
			for {
				p := alpha[rnd.intn(len(alpha))]
				if keepBrackets && strings.ContainsAny(p, "()[]{}") {
					continue
				}
				return p
			}
		}
		splice := func(lo, hi int, with string) {
			out = append(out[:lo], append([]byte(with), out[hi:]...)...)
		}
		op := rnd.intn(9)
		if keepBrackets && c23IsBracket(s.tok) && op != 4 && op != 6 {
			op = 4
		}
		switch op {
		case 0:
			splice(s.lo, s.hi, "")
			ops = append(ops, "tok-delete")
		case 1:
			splice(s.hi, s.hi, " "+string(out[s.lo:s.hi]))
			ops = append(ops, "tok-duplicate")
		case 2:
			if i+1 < len(spans) && !(keepBrackets && c23IsBracket(spans[i+1].tok)) {
				t := spans[i+1]
				a, gap, b := string(out[s.lo:s.hi]), string(out[s.hi:t.lo]), string(out[t.lo:t.hi])
				splice(s.lo, t.hi, b+gap+a)
				ops = append(ops, "tok-swap")
			}
		case 3:
			splice(s.lo, s.hi, piece())
			ops = append(ops, "tok-replace")
		case 4:
			p := piece()
			switch rnd.intn(3) {
			case 0:
				p = p + " "
			case 1:
				p = " " + p + " "
			}
			splice(s.lo, s.lo, p)
			ops = append(ops, "tok-insert")
		case 5:
			if i+1 < len(spans) && spans[i+1].lo > s.hi {
				splice(s.hi, spans[i+1].lo, "")
				ops = append(ops, "tok-glue")
			}
		case 6:
			if i+1 < len(spans) {
				splice(s.hi, spans[i+1].lo, c23Gaps[rnd.intn(len(c23Gaps))])
			} else {
				splice(s.hi, len(out), strings.TrimRight(c23Gaps[rnd.intn(len(c23Gaps))], "\n"))
			}
			ops = append(ops, "gap-replace")
		case 7:
			if !keepBrackets {
				cut := s.hi
				if rnd.intn(2) == 0 && s.hi-s.lo > 1 {
					cut = s.lo + 1 + rnd.intn(s.hi-s.lo-1)
				}
				out = out[:cut]
				if rnd.intn(2) == 0 {
					out = append(out, []byte(strings.TrimRight(c23Gaps[rnd.intn(len(c23Gaps))], "\n"))...)
				}
				ops = append(ops, "truncate")
			}
		case 8:
			// replace a literal by another literal-ish piece of the same family
			splice(s.lo, s.hi, c23LiteralPieces[rnd.intn(len(c23LiteralPieces))])
			ops = append(ops, "tok-replace-literal")
		}
	}
	return out, ops
}

// ---------------------------------------------------------------------------------------------
// alphabet and soups

var c23LiteralPieces = []string{
	// integers and their prefixes
	"0", "7", "00", "007", "08", "09", "089", "0_7", "0_8", "1_000", "1__0", "1_", "0_", "42", "9223372036854775808",
	"0b", "0B", "0b1", "0b0101", "0B_1", "0b_", "0b1_", "0b1__0", "0b102", "0b2", "0b1.0", "0b.1", "0b1e2", "0b1p2", "0b1i",
	"0o", "0O", "0o7", "0O17", "0o_7", "0o17_", "0o8", "0o78", "0o7.5", "0o7e1", "0o7p1", "0o7i",
	"0x", "0X", "0x1", "0XFF", "0xdead_beef", "0x_1", "0x1_", "0x1__2", "0xg", "0x1g", "0xe", "0xE+1", "0x1e+2", "0xep1",
	// floats
	"1.", "1.5", ".5", "1.e3", "1.5e", "1.5e+", "1.5e-7", "1e5", "1E5", "1e+5", "1e_5", "1e5_", "1e+_5", "1_.5", "1._5", "1.5_", "1_0.2_5e1_0",
	"0.", "00.5", "08.5", "09e1", "0_9e1", "089.", "1p2", "1.5p2", "1e", "1e+",
	"0x.8p1", "0x.p1", "0xp1", "0x1p", "0x1p-2", "0x1.8p+1", "0x1.8", "0x1.", "0x.8", "0X1P+2", "0x1p2p3", "0x1p_2", "0x1_.8p1", "0x1p2_", "0x_.8p1",
	// imaginary
	"1i", "0i", "08i", "0b1i", "0x1i", "0x1p0i", "1.5i", ".5i", "1e3i", "1_0i", "1i_", "1ii", "1if", "0o17i",
	// odd sequences around dots
	"..5", "1..2", "1...", "1.2.3", "...", "..", ".", "a.b", "1.x", "x.1", "1.e", "1.E+x",
	// unicode digits / letters after numbers
	"١٢", "1١", "x١", "1é", "0xé", "1π",
	// strings
	`""`, `"abc"`, `"a\nb"`, `"\a\b\f\n\r\t\v\\\""`, `"\'"`, `"\q"`, `"\x4"`, `"\x41"`, `"\xzz"`, `"\u12"`, `"\u0041"`, `"\uD800"`, `"\U00110000"`, `"\U0001F600"`, `"\400"`, `"\377"`, `"\0"`, `"\08"`,
	`"unterminated`, "\"a\\", "\"a\nb\"", "\"tab\there\"", "\"\x00\"", "\"\xff\"", "\"é\"", "\"\xef\xbb\xbf\"", "\"/* c */\"", "\"// c\"",
	"``", "`raw`", "`raw\nline`", "`raw\r\nline`", "`\\`", "`unterminated", "`a\rb`", "`\r`", "`\x00`",
	// runes
	`'a'`, `''`, `'ab'`, `'\''`, `'\"'`, `'"'`, `'\n'`, `'\x41'`, `'\x4'`, `'\u0041'`, `'\uD800'`, `'\U0010FFFF'`, `'\U00110000'`, `'\101'`, `'\400'`, `'\8'`, `'é'`, `'\q'`,
	`'`, `'a`, `'\`, "'\n'", "'\xff'", "'\x00'", "'\\", `'abc`, `'\x41`,
}

var c23CommentPieces = []string{
	"// c", "//", "// c\r", "//\r\n", "// c // d", "/**/", "/* c */", "/* c\n d */", "/*\n*/", "/* unterminated", "/*", "/*/", "/**", "/***/", "/*/*/", "/* * / */",
	"/*\r*/", "/* a\r\nb */", "/* *\r/ */", "/**\r/*/", "/*\r\r*/", "//\r\r", "// \x00", "/* \x00 */", "// \xff", "/* \xef\xbb\xbf */", "// é",
	"//line f.go:10", "//line f.go:10:5", "//line :3", "//line :3:4", "//line f.go:0", "//line f.go:1:0", "//line f:x", "//line f:1:x", "//line f.go:", "//line 12", "//line", "//line ", "//line :",
	"//line /abs/f.go:7", "//line c:\\f.go:7", "//line f.go:10\r", "// line f.go:10", " //line f.go:10", "/*line f.go:7*/", "/*line f:7:2*/", "/*line :7:2*/", "/*line f:0*/", "/*line f.go:7 */", "/*line f:7\n*/",
	"//line f.go:1073741824", "//line f.go:1073741825", "//line f.go:1:1073741825", "/*line f.go:99999999999*/", "//line f.go:99999999999999999999", "//line f.go:-1", "//line f.go:+1", "//line f.go:1_0",
	"//go:build x", "//+build x",
}

var c23OtherPieces = []string{
	// identifiers
	"x", "_", "_1", "a1", "ä", "π", "日本", "x_y", "X", "e", "p", "i", "b1", "o7", "xFF", "E5", "é1", "a\u0301",
	// words close to the interpreter's extensions (plain identifiers for Go)
	"macr", "macros", "Macro", "template", "function", "lambda", "typecase", "quote", "quasiquote", "unquote", "unquote_splice",
	// keywords
	"break", "case", "chan", "const", "continue", "default", "defer", "else", "fallthrough", "for", "func", "go", "goto", "if", "import", "interface",
	"map", "package", "range", "return", "select", "struct", "switch", "type", "var",
	// operators and delimiters
	"+", "-", "*", "/", "%", "&", "|", "^", "<<", ">>", "&^", "+=", "-=", "*=", "/=", "%=", "&=", "|=", "^=", "<<=", ">>=", "&^=", "&&", "||", "<-", "++", "--",
	"==", "<", ">", "=", "!", "!=", "<=", ">=", ":=", "(", ")", "[", "]", "{", "}", ",", ";", ":", "=/", "/ /", "/ *", "* /", "<--", "&^^", "<<<", ">>>=", "!==", "+++", "---", "=:", "::=", "|||", "&&&", "^^",
	// odd characters
	"\x00", "\xff", "\x80", "\xc0\x80", "\xed\xa0\x80", "\xef\xbb\xbf", "\ufffe", "\ufffd", "$", "?", "@", "\\", "“", "”", "‘", "\u2028", "\u00a0", "\f", "\v", "\r", "\x7f", "\x1b", "\\n", "\u200b",
}

var c23Seps = []string{"", "", " ", " ", "\n", "\n", "\t", "\r\n", "\r", "\n\n", " \n", ";", " /* c */ ", " // c\n"}

func c23Alphabet() []string {
	var a []string
	a = append(a, c23LiteralPieces...)
	a = append(a, c23CommentPieces...)
	a = append(a, c23OtherPieces...)
	seen := map[string]bool{}
	out := a[:0]
	for _, s := range a {
		if !seen[s] {
			seen[s] = true
			out = append(out, s)
		}
	}
	return out
}

// c23Soup: 1..14 alphabet pieces (literal-heavy) joined by random separators.
func c23Soup(rnd *c23Rand, alpha []string) []byte {
	var b strings.Builder
	if rnd.intn(12) == 0 {
		b.WriteString("\xef\xbb\xbf")
	}
	n := 1 + rnd.intn(14)
	for i := 0; i < n; i++ {
		var p string
		switch rnd.intn(10) {
		case 0, 1, 2, 3:
			p = rnd.pick(c23LiteralPieces)
		case 4, 5:
			p = rnd.pick(c23CommentPieces)
		default:
			p = alpha[rnd.intn(len(alpha))]
		}
		b.WriteString(p)
		if i+1 < n || rnd.intn(2) == 0 {
			b.WriteString(rnd.pick(c23Seps))
		}
	}
	return []byte(b.String())
}

var _ = fmt.Sprintf
