package main

// C14 — REPL-style evaluation, one top-level statement at a time, matches in-order Go; pointers to
// globals taken in an early evaluation stay valid and aliased however many declarations follow.
//
// E1 difftrace engine in REPL mode: the interpreter worker evaluates every step of a history with its own
// Compile+RunExpr in ONE interpreter; the compiled side has every declaration of the history at package
// level and runs the remaining steps in order inside §P (see c14_gen.go).

import (
	"fmt"
	"math/rand"
	"regexp"
	"sort"
	"strings"

	"github.com/cosmos72/gomacro/fast"
	"github.com/cosmos72/gomacro/go/etoken"

	"gmverif/internal/fw"
)

func init() { register("C14", "exploration", checkC14) }

const (
	c14FindStale = "C14-intbindmax-stale-after-address"
	c14FindCplx  = "C14-complex128-last-int-slot"
)

// ---- flavours

// c14Random: general mix of declarations (all storage classes), assignments, address-taking, calls, reads.
func c14Random(rng *rand.Rand, nsteps int) *c14Gen {
	g := newC14Gen(rng)
	for len(g.steps) < nsteps {
		g.randomStep()
	}
	g.dump()
	return g
}

// c14TakeAddress declares int-slot globals of random kinds and takes the address of one or more of them, each
// in one of the ways an address can escape; returns the (target, pointer) pairs.
func c14TakeAddress(g *c14Gen, n int) [][2]*c14V {
	var pairs [][2]*c14V
	for i := 0; i < n; i++ {
		t := g.kindT(g.randIntSlotKind())
		if g.rng.Intn(3) == 0 {
			t = g.kindT(kindByName["int"]) // by far the most common kind in real sessions
		}
		if g.rng.Intn(5) == 0 {
			// named int-slot type
			g.declType()
			if nt := g.named[len(g.named)-1]; nt.basic() && nt.slots() > 0 {
				t = nt
			}
		}
		if t.slots() == 2 && g.rng.Intn(2) == 0 {
			t = g.kindT(kindByName["int"])
		}
		x := g.declVar(t, true)
		pt := g.ptrTo(x.T)
		pn := g.name("p")
		g.topDecl("var " + pn + " " + pt.Go)
		g.noteAddr(x.T)
		switch g.rng.Intn(6) {
		case 0:
			g.step(pn+" := &"+x.Name, pn+" = &"+x.Name)
			g.feat("addr:short-decl")
		case 1:
			g.step("var "+pn+" = &"+x.Name, pn+" = &"+x.Name)
			g.feat("addr:var-inferred")
		case 2:
			g.step("var "+pn+" "+pt.Go+" = &"+x.Name, pn+" = &"+x.Name)
			g.feat("addr:var-typed")
		default:
			fn := g.name("f")
			// the address is taken 0-3 block scopes below the function scope (each block has a local of its own)
			depth := g.rng.Intn(4)
			open, close := "", ""
			for i := 1; i <= depth; i++ {
				open += fmt.Sprintf("{ blk%d := %d; _ = blk%d; ", i, i, i)
				close += " }"
			}
			d := fmt.Sprintf("func %s() %s { %sreturn &%s%s }", fn, pt.Go, open, x.Name, close)
			g.feat(fmt.Sprintf("addr:returned-by-function-block-depth-%d", depth))
			g.topDecl(d)
			g.step(d, "")
			g.funcs = append(g.funcs, &c14F{Name: fn, Ret: pt})
			g.step(pn+" := "+fn+"()", pn+" = "+fn+"()")
			g.feat("addr:returned-by-function")
		}
		p := g.addVar(pn, pt)
		g.hot = append(g.hot, p)
		pairs = append(pairs, [2]*c14V{x, p})
	}
	return pairs
}

// c14BothWays writes through the pointer and reads the variable, then writes the variable and reads through the pointer.
func c14BothWays(g *c14Gen, pairs [][2]*c14V) {
	for _, pr := range pairs {
		x, p := pr[0], pr[1]
		e := g.expr(x.T, 1)
		g.step("*"+p.Name+" = "+e, "*"+p.Name+" = "+e)
		g.tag++
		s := fmt.Sprintf("rec(%d, %s, *%s, %s == &%s)", g.tag, x.Name, p.Name, p.Name, x.Name)
		g.step(s, s)
		e = g.expr(x.T, 1)
		g.step(x.Name+" = "+e, x.Name+" = "+e)
		g.tag++
		s = fmt.Sprintf("rec(%d, *%s, %s)", g.tag, p.Name, x.Name)
		g.step(s, s)
		g.feat("aliasing-checked-both-ways")
	}
	g.sinceRd = 0
}

// c14AddrEarly: address of an int-slot global taken EARLY, then `extra`+ further int-slot globals (crossing the
// 1024-slot chunk of Interp.PrepareEnv), with reads/writes through the pointer both ways on the way and afterwards.
func c14AddrEarly(rng *rand.Rand, extra int, chunkMax int, mixed bool) *c14Gen {
	g := newC14Gen(rng)
	for i, n := 0, rng.Intn(4); i < n; i++ {
		g.randomStep()
	}
	pairs := c14TakeAddress(g, 1+rng.Intn(3))
	c14BothWays(g, pairs)
	start := g.intDecl
	for g.intDecl-start < extra {
		switch w := rng.Intn(100); {
		case w < 70 || !mixed && w < 90:
			n := 1 + rng.Intn(chunkMax)
			k := g.randIntSlotKind()
			if n == 1 {
				g.declVar(g.kindT(k), false)
			} else {
				g.declInts(n, k)
			}
		case w < 76:
			c14BothWays(g, pairs[:1+rng.Intn(len(pairs))])
		case w < 80:
			g.doRead()
		default:
			g.randomStep()
		}
	}
	c14BothWays(g, pairs)
	// addresses of globals declared after the crossing (boxed integers) and before it
	more := c14TakeAddress(g, 1+rng.Intn(2))
	for i := 0; i < 2; i++ {
		v := g.pickVar(func(v *c14V) bool { return v.T.slots() > 0 })
		pt := g.ptrTo(v.T)
		pn := g.name("p")
		g.topDecl("var " + pn + " " + pt.Go)
		g.step(pn+" := &"+v.Name, pn+" = &"+v.Name)
		more = append(more, [2]*c14V{v, g.addVar(pn, pt)})
	}
	for i, n := 0, 3+rng.Intn(10); i < n; i++ {
		g.randomStep()
	}
	c14BothWays(g, append(pairs, more...))
	g.dump()
	return g
}

// c14Stale: the DESIGN §5 item 8b shape. The input right after the evaluation that took the address declares more
// integer globals than Env.Ints has room for.
func c14Stale(rng *rand.Rand) *c14Gen {
	g := newC14Gen(rng)
	g.steer = false
	pre := rng.Intn(900)
	for g.intDecl < pre {
		g.declInts(1+rng.Intn(60), g.randIntSlotKind())
	}
	pairs := c14TakeAddress(g, 1)
	// no evaluation in between
	room := g.cap - g.nslots
	if room < 0 {
		room = 0
	}
	g.declInts(room+1+rng.Intn(200), kindByName[[]string{"int", "uint8", "bool", "float64", "int32"}[rng.Intn(5)]])
	c14BothWays(g, pairs)
	for i := 0; i < 10; i++ {
		g.randomStep()
	}
	c14BothWays(g, pairs)
	g.dump()
	return g
}

// c14CplxLastSlot: after an address was taken, a complex128 global is declared when exactly one integer slot is left.
func c14CplxLastSlot(rng *rand.Rand) *c14Gen {
	g := newC14Gen(rng)
	g.steer = false
	pairs := c14TakeAddress(g, 1)
	c14BothWays(g, pairs)
	for g.nslots < 1023 {
		n := 1023 - g.nslots
		if n > 50 {
			n = 1 + rng.Intn(50)
		}
		g.declInts(n, kindByName[[]string{"int", "uint8", "bool", "float64", "int32", "complex64"}[rng.Intn(6)]])
	}
	g.declVar(g.kindT(kindByName["complex128"]), true)
	c14BothWays(g, pairs)
	for i := 0; i < 10; i++ {
		g.randomStep()
	}
	c14BothWays(g, pairs)
	g.dump()
	return g
}

// c14PtrMethod: x.M() where M has a pointer receiver and x is a global of a named integer/float/complex type
// (kept in an Env.Ints slot): Go takes &x implicitly (this panicked before /repo 926c19e).
func c14PtrMethod(rng *rand.Rand) *c14Gen {
	g := newC14Gen(rng)
	g.steer = false
	var t *c14T
	for t == nil {
		g.declType()
		if nt := g.named[len(g.named)-1]; nt.basic() && nt.K.isNumeric() {
			t = nt
		}
	}
	x := g.declVar(t, true)
	d := fmt.Sprintf("func (r *%s) Inc() { *r = *r + 1 }", t.Go)
	g.topDecl(d)
	g.step(d, "")
	t.Methods = append(t.Methods, c14Method{Name: "Inc", Ptr: true})
	g.doRead(x.Name)
	g.step(x.Name+".Inc()", x.Name+".Inc()")
	g.doRead(x.Name)
	for i := 0; i < 20; i++ {
		g.randomStep()
	}
	g.dump()
	return g
}

// c14LateAddr: more than 1024 integer globals first (Env.Ints is reallocated, which is fine), the address is taken
// afterwards, then the declarations continue past the new capacity.
func c14LateAddr(rng *rand.Rand, chunkMax int) *c14Gen {
	g := newC14Gen(rng)
	n1 := 900 + rng.Intn(300)
	for g.intDecl < n1 {
		if rng.Intn(8) == 0 {
			g.randomStep()
		} else {
			g.declInts(1+rng.Intn(chunkMax), g.randIntSlotKind())
		}
	}
	pairs := c14TakeAddress(g, 1+rng.Intn(2))
	c14BothWays(g, pairs)
	n2 := g.intDecl + 1100 + rng.Intn(200)
	for g.intDecl < n2 {
		if rng.Intn(8) == 0 {
			g.randomStep()
		} else {
			g.declInts(1+rng.Intn(chunkMax), g.randIntSlotKind())
		}
	}
	c14BothWays(g, pairs)
	g.dump()
	return g
}

// ---- known-finding recognition

// c14Locate re-runs the history in this process and returns the index of the first step that panics and the message
// (-1 if none). If noopBefore >= 0 a no-op evaluation is inserted before that step.
func c14Locate(p *Prog, noopBefore int) (int, string) {
	etoken.GENERICS = etoken.GENERICS_V2_CTI
	ir := newQuietInterp()
	ir.DeclFunc("rec", func(tag int, v ...interface{}) {})
	ir.DeclFunc("pcl", func(r interface{}) string { return "" })
	ir.DeclFunc("hk", func() {})
	ir.DeclFunc("nc", func(v interface{}) interface{} { return v })
	eval := func(src string) (msg string, bad bool) {
		r, bad := guard(func() {
			var e *fast.Expr
			e = ir.Compile(src)
			if e != nil {
				ir.RunExpr(e)
			}
		})
		if bad {
			return panicText(r), true
		}
		return "", false
	}
	if msg, bad := eval(p.plainSrc()); bad {
		return -2, msg
	}
	for i, st := range p.Steps {
		if i == noopBefore {
			eval("nop()")
		}
		if msg, bad := eval(strings.ReplaceAll(st, "§", "")); bad {
			return i, msg
		}
	}
	return -1, ""
}

var c14Complex128Decl = regexp.MustCompile(`\bcomplex128\b`)

func c14Classify(p *Prog, ref, got *Result, diff string) string {
	const msg = "attempt to reallocate Env.Ints[]"
	if !strings.HasPrefix(got.End, "panic:") || !strings.Contains(got.Detail, msg) {
		return ""
	}
	k, m := c14Locate(p, -1)
	if k < 1 || !strings.Contains(m, msg) {
		return ""
	}
	st := p.Steps[k]
	if !strings.HasPrefix(st, "var ") && !strings.Contains(st, ":=") {
		return "" // not a declaration of globals
	}
	if k2, _ := c14Locate(p, k); k2 != k {
		// any evaluation between the address-taking input and the declaration cures it: IntBindMax was stale
		return c14FindStale
	}
	if c14Complex128Decl.MatchString(st) {
		return c14FindCplx
	}
	return ""
}

// c14History generates history number i.
func c14History(i int, seed int64, thorough bool) (*Prog, *c14Gen) {
	rng := rand.New(rand.NewSource(seed + int64(i)*7919))
	var g *c14Gen
	var cell string
	long := thorough && i%50 == 7 // some histories of up to 1500 steps
	switch {
	case i%50 == 1:
		g, cell = c14Stale(rng), "input-after-address-outgrows-Ints"
	case i%50 == 2:
		g, cell = c14CplxLastSlot(rng), "complex128-into-last-slot"
	case i%50 == 4:
		g, cell = c14PtrMethod(rng), "pointer-method-on-int-slot-global"
	case i%25 == 3:
		g, cell = c14LateAddr(rng, 60), "address-after-reallocation"
	case i%3 == 0:
		chunk := 10 + rng.Intn(50)
		if long {
			chunk = 1
		}
		g, cell = c14AddrEarly(rng, 1100+rng.Intn(150), chunk, rng.Intn(2) == 0), "address-early+1100-int-globals"
	default:
		ns := 20 + rng.Intn(181)
		if long {
			ns = 800 + rng.Intn(700)
		}
		g, cell = c14Random(rng, ns), "random-mix"
	}
	return g.prog(fmt.Sprintf("c14-%d", i), cell), g
}

// ---- check

func checkC14(r *fw.Run) {
	r.SetRule("seeded random REPL histories (quick 200 of 20-450 steps, thorough 2000 with 2% of 800-1500 steps): every step is one top-level statement (var declarations of every storage class: bool/ints/floats/complex in Env.Ints slots, strings/structs/arrays/slices/maps/pointers/interfaces/closures boxed; const, type, func and method declarations; assignments, op-assignments, swaps, calls, control statements, blocks shadowing a global, address-taking p := &x, writes through p, reads via rec every 1-4 steps and a dump of every variable at the end) evaluated by its own Compile+RunExpr in one interpreter; one third of the histories take the address of an int-slot global early (4 spellings incl. returned by a function) and then declare 1100+ further integer globals in inputs of 1..60 names (crossing the 1024-slot chunk of PrepareEnv) with writes/reads through the pointer both ways before, during and after; further flavours: address taken after the first reallocation, the input right after the address-taking evaluation outgrowing Env.Ints, complex128 declared into the last free slot; the compiled side has every declaration at package level and the other steps in order in one function; oracle = event-by-event trace equality; distinct = distinct history texts with a non-empty trace")
	r.Assume("go/types + cmd/compile 1.23.5 (language version go1.18) executing the same statements in order are the reference; since each name is declared once and only used after its declaring step, package-level declarations plus in-order statements are the same program as the history; float arithmetic is not fused on amd64")
	o := e1Opts{Classify: c14Classify, MaxDropFrac: 0.02}
	if p := fw.ReplayArg(); p != "" {
		e1ReplayFile(r, p, o)
		return
	}
	n := r.Pick(200, 2000)
	seed := r.Rng("histories").Int63()
	batch := 500
	feats := map[string]int{}
	var lens []int
	for b0 := 0; b0 < n; b0 += batch {
		var progs []*Prog
		for i := b0; i < b0+batch && i < n; i++ {
			p, g := c14History(i, seed, r.Thorough())
			for f, c := range g.feats {
				feats[f] += c
			}
			lens = append(lens, len(g.steps))
			r.Count("steps", int64(len(g.steps)))
			r.Count("int_globals_declared", int64(g.intDecl))
			progs = append(progs, p)
		}
		e1Run(r, progs, o)
		if r.Violations() > 200 {
			break
		}
	}
	for f, c := range feats {
		for i := 0; i < 1; i++ {
			r.Cover("features", f)
		}
		r.Count("feature:"+f, int64(c))
	}
	sort.Ints(lens)
	r.Extra("steps_per_history", map[string]int{"min": lens[0], "median": lens[len(lens)/2], "max": lens[len(lens)-1]})
	r.Extra("histories", len(lens))
	if rej := r.Counter("gate_rejected"); rej*20 > int64(len(lens)) {
		r.Inconclusive(fmt.Sprintf("generator problem: go/types rejects %d of %d histories", rej, len(lens)))
	}
}
