package main

// C35 — hand specialisation of a program written with gomacro generics into plain Go, done on the
// TEXT exactly as the property describes it: for every distinct instantiation `§Name#[A,B]` one copy
// of the declaration is emitted under a mangled name (`§Name_A_B`) with the type parameters textually
// replaced by the arguments.

import (
	"fmt"
	"regexp"
	"strings"
)

type c35Decl struct {
	Kind string   // "func" | "type"
	Name string   // without §
	TP   []string // type parameter names
	Rest string   // func: "(params) results {body}"; type: "[= ]body"
	Sig  string   // func: "(params) results"
}

// instances whose type arguments mention a function-local type (§Loc<N>) cannot live at package level:
// their copies are emitted inside the function, at the marker line `//c35:local §Loc<N>`.
type c35Local struct {
	types, vars, assigns []string
}

var c35LocRe = regexp.MustCompile(`§Loc[0-9]+`)
var c35MarkedRe = regexp.MustCompile(`§[A-Za-z0-9_]+`)

const c35LocalMarker = "//c35:local "

type c35Mono struct {
	decls   map[string]*c35Decl
	names   map[string]string // instance key -> mangled name (with §)
	taken   map[string]bool
	out     []string
	order   []string // instance keys in creation order
	local   map[string]*c35Local
	localOf map[string]string // mangled name of a function-local instance -> its §Loc<N>
	err     error
}

func c35NewMono(decls []*c35Decl) *c35Mono {
	m := &c35Mono{decls: map[string]*c35Decl{}, names: map[string]string{}, taken: map[string]bool{}, local: map[string]*c35Local{}, localOf: map[string]string{}}
	for _, d := range decls {
		m.decls[d.Name] = d
	}
	return m
}

// c35Inferred marks an instantiation whose type arguments the interpreter has to infer:
// `§F#?[int](x)` is `§F(x)` for the interpreter and `§F#[int](x)` for the specialiser.
const c35Inferred = "#?["

// c35StripInferred removes the `#?[...]` lists.
func c35StripInferred(s string) string {
	for {
		k := strings.Index(s, c35Inferred)
		if k < 0 {
			return s
		}
		end := c35MatchBracket(s, k+len(c35Inferred)-1)
		if end < 0 {
			return s
		}
		s = s[:k] + s[end+1:]
	}
}

// c35MatchBracket returns the index of the bracket closing the one at s[open].
func c35MatchBracket(s string, open int) int {
	depth := 0
	for i := open; i < len(s); i++ {
		switch s[i] {
		case '(', '[', '{':
			depth++
		case ')', ']', '}':
			depth--
			if depth == 0 {
				return i
			}
		}
	}
	return -1
}

var c35MangleRepl = strings.NewReplacer("§", "", "[]", "S", "map[", "M", "*", "P", "func(", "F", "struct{", "T", "chan ", "C", "interface{}", "I")

func (m *c35Mono) mangle(name string, args []string) string {
	var b strings.Builder
	for _, c := range c35MangleRepl.Replace(strings.Join(args, "_")) {
		if c >= 'a' && c <= 'z' || c >= 'A' && c <= 'Z' || c >= '0' && c <= '9' || c == '_' {
			b.WriteRune(c)
		} else if c != ' ' {
			b.WriteByte('_')
		}
	}
	s := b.String()
	if len(s) > 48 {
		s = s[:48]
	}
	base := "§" + name + "_" + s
	cand := base
	for k := 2; m.taken[cand]; k++ {
		cand = fmt.Sprintf("%s_%d", base, k)
	}
	m.taken[cand] = true
	return cand
}

// rewrite replaces every instantiation in s by the mangled name of its specialised copy.
func (m *c35Mono) rewrite(s string) string {
	var b strings.Builder
	i := 0
	for i < len(s) {
		k := strings.Index(s[i:], "§")
		if k < 0 {
			b.WriteString(s[i:])
			break
		}
		b.WriteString(s[i : i+k])
		i += k
		j := i + len("§")
		for j < len(s) && c35IdentByte(s[j]) && s[j] < 0x80 {
			j++
		}
		name := s[i+len("§") : j]
		open := -1
		if strings.HasPrefix(s[j:], "#[") {
			open = j + 1
		} else if strings.HasPrefix(s[j:], c35Inferred) {
			open = j + 2
		}
		if open < 0 || m.decls[name] == nil {
			b.WriteString(s[i:j])
			i = j
			continue
		}
		end := c35MatchBracket(s, open)
		if end < 0 {
			m.fail("unbalanced type argument list after " + name)
			b.WriteString(s[i:])
			break
		}
		var args []string
		for _, a := range c35SplitTop(s[open+1:end], ',') {
			args = append(args, strings.TrimSpace(m.rewrite(a)))
		}
		b.WriteString(m.instance(name, args))
		i = end + 1
	}
	return b.String()
}

func (m *c35Mono) fail(msg string) {
	if m.err == nil {
		m.err = fmt.Errorf("%s", msg)
	}
}

func (m *c35Mono) instance(name string, args []string) string {
	key := name + "<" + strings.Join(args, ",") + ">"
	if n, ok := m.names[key]; ok {
		return n
	}
	d := m.decls[name]
	mangled := m.mangle(name, args)
	m.names[key] = mangled
	m.order = append(m.order, key)
	if len(args) != len(d.TP) {
		m.fail(fmt.Sprintf("%s: %d type arguments for %d parameters", name, len(args), len(d.TP)))
		return mangled
	}
	if len(m.names) > 300 {
		m.fail("more than 300 instances: unbounded instantiation")
		return mangled
	}
	repl := map[string]string{}
	for i, p := range d.TP {
		repl[p] = args[i]
	}
	loc := c35LocRe.FindString(strings.Join(args, ","))
	if loc == "" {
		// an argument that is itself a function-local instance
		for _, id := range c35MarkedRe.FindAllString(strings.Join(args, ","), -1) {
			if l, ok := m.localOf[id]; ok {
				loc = l
				break
			}
		}
	}
	if loc != "" {
		m.localOf[mangled] = loc
		l := m.local[loc]
		if l == nil {
			l = &c35Local{}
			m.local[loc] = l
		}
		if d.Kind == "func" {
			l.vars = append(l.vars, "var "+mangled+" func"+m.rewrite(substIdent(d.Sig, repl))+"\n_ = "+mangled)
			l.assigns = append(l.assigns, mangled+" = func"+m.rewrite(substIdent(d.Rest, repl)))
		} else {
			text := m.rewrite("type " + mangled + " " + substIdent(d.Rest, repl))
			l.types = append(l.types, text) // after the rewrite: the instances it depends on come first
		}
		return mangled
	}
	idx := len(m.out)
	m.out = append(m.out, "")
	body := substIdent(d.Rest, repl)
	var text string
	if d.Kind == "func" {
		text = "func " + mangled + body
	} else {
		text = "type " + mangled + " " + body
	}
	m.out[idx] = m.rewrite(text)
	return mangled
}

// specialise returns the plain-Go text for `rest` (all non-generic declarations of the program).
func (m *c35Mono) specialise(rest string) string {
	r := m.rewrite(rest)
	for guard := 0; guard < 100; guard++ {
		k := strings.Index(r, c35LocalMarker)
		if k < 0 {
			break
		}
		end := k + strings.IndexByte(r[k:], '\n')
		loc := strings.TrimSpace(r[k+len(c35LocalMarker) : end])
		text := ""
		if l := m.local[loc]; l != nil {
			text = strings.Join(l.types, "\n") + "\n" + strings.Join(l.vars, "\n") + "\n" + strings.Join(l.assigns, "\n")
		}
		r = r[:k] + text + r[end:]
	}
	return r + "\n// ---- specialised copies\n" + strings.Join(m.out, "\n")
}
