package main

// C36 generators: random interpreter histories (declarations) and random input lines.

import (
	"fmt"
	"go/types"
	"math/rand"
	"sort"
	"strings"
)

var c36PlainNames = []string{
	"a", "ab", "abc", "b", "ba", "x", "xy", "xyz", "foo", "fooBar", "f1", "f12", "_u", "_u2",
	"fo", "forx", "funcs", "typ", "va", "in", "imp", "ra", "ret", "gox", "sel", "stri", "stringx",
	"le", "lens", "pr", "printx", "ne", "ma", "mak", "tr", "fa", "fals", "ni", "cas", "de", "def",
	"el", "pa", "pack", "bre", "co", "cont", "sw", "st", "ch", "Eva", "Int", "Par", "mac", "tem",
	"été", "étoile", "αβ", "x1y", "go1", "uin", "err", "erro", "io2", "os1",
}

var c36TypeNames = []string{
	"A", "Ab", "Abc", "B", "Base", "Box", "C", "T", "T1", "T2", "Tree", "node", "inner", "pt",
	"S", "St", "Str", "I", "I2", "In", "Er", "erro2", "byt", "Point", "Po", "flo", "Ünit",
}

var c36FieldNames = []string{
	"x", "xy", "X", "Xy", "n", "name", "Name", "next", "val", "Val", "id", "ID", "buf", "Buf",
	"Len", "len", "mu", "w", "W", "Read", "a", "A1", "String", "Get", "M", "m", "Foo", "été", "_f",
}

var c36MethodNames = []string{
	"M", "M1", "M2", "Me", "Get", "GetX", "Set", "String", "Len", "Read", "Write", "m", "m1",
	"get", "Foo", "Fo", "Reset", "Name", "X", "Val", "Été",
}

// foreign types the generator may use: Go spelling with the default package name, and the import path.
type c36Foreign struct {
	pkg, path, typ string
	embeddable     bool
}

var c36ForeignTypes = []c36Foreign{
	{"strings", "strings", "strings.Builder", true},
	{"strings", "strings", "*strings.Reader", true},
	{"bytes", "bytes", "bytes.Buffer", true},
	{"bytes", "bytes", "*bytes.Buffer", true},
	{"os", "os", "*os.File", true},
	{"os", "os", "os.File", true},
	{"os", "os", "os.FileMode", true},
	{"time", "time", "time.Time", true},
	{"time", "time", "time.Duration", true},
	{"time", "time", "*time.Timer", true},
	{"io", "io", "io.Reader", true},
	{"io", "io", "io.ReadWriter", true},
	{"fmt", "fmt", "fmt.Stringer", true},
	{"sort", "sort", "sort.IntSlice", true},
	{"bufio", "bufio", "*bufio.Reader", true},
	{"bufio", "bufio", "bufio.ReadWriter", true},
	{"url", "net/url", "url.URL", true},
	{"url", "net/url", "*url.URL", true},
	{"filepath", "path/filepath", "filepath.WalkFunc", false},
	{"rand", "math/rand", "*rand.Rand", true},
	{"big", "math/big", "big.Int", true},
}

var c36ImportPool = []string{
	"fmt", "strings", "os", "bytes", "io", "time", "sort", "errors", "math", "strconv", "bufio",
	"path/filepath", "unicode/utf8", "math/rand", "encoding/hex", "net/url", "math/big", "unicode",
}

var c36Basic = []string{"int", "string", "bool", "float64", "byte", "rune", "error", "[]int", "map[string]int", "func()", "chan int", "interface{}", "any", "uint8", "[3]string"}

type c36Gen struct {
	rng *rand.Rand
	m   *c36Model
	// eval feeds a declaration to the interpreter; false = the interpreter refused it
	eval func(src string) bool
	// bookkeeping of declared types by category
	structs, nameds, ifaces []string
	methods                 map[string]map[string]bool // type -> method names
	fields                  map[string]map[string]bool // type -> direct field names
	importName              map[string]string          // path -> local name
	failed                  bool
	refusedSrc              string
}

func c36Pick(rng *rand.Rand, xs []string) string { return xs[rng.Intn(len(xs))] }

func c36Base(path string) string {
	if i := strings.LastIndexByte(path, '/'); i >= 0 {
		return path[i+1:]
	}
	return path
}

// commit validates d against the Go reference, evaluates it in the interpreter and records it.
func (g *c36Gen) commit(d c36Decl) bool {
	if g.failed || !g.m.try(d) {
		return false
	}
	if !g.eval(d.Src) {
		// go/types accepts it but gomacro refused: not this property's business; the
		// interpreter state is no longer known, so the history ends here.
		g.failed = true
		g.refusedSrc = d.Src
		return false
	}
	if err := g.m.add(d); err != nil {
		g.failed = true
		return false
	}
	return true
}

func (g *c36Gen) ensureImport(path string) (string, bool) {
	if n, ok := g.importName[path]; ok {
		return n, true
	}
	name := c36Base(path)
	src := fmt.Sprintf("import %q", path)
	if g.rng.Intn(5) == 0 {
		name = c36Pick(g.rng, []string{"st", "str", "fm", "o", "pkg", "p2", "by"})
		src = fmt.Sprintf("import %s %q", name, path)
	}
	if g.m.declared(name) {
		return "", false
	}
	if !g.commit(c36Decl{Kind: "import", Name: name, Path: path, Src: src}) {
		return "", false
	}
	g.importName[path] = name
	return name, true
}

// foreignType returns the spelling of a foreign type usable now (importing its package if needed).
func (g *c36Gen) foreignType(embed bool) (string, bool) {
	for tries := 0; tries < 4; tries++ {
		f := c36ForeignTypes[g.rng.Intn(len(c36ForeignTypes))]
		if embed && !f.embeddable {
			continue
		}
		name, ok := g.ensureImport(f.path)
		if !ok {
			continue
		}
		return strings.Replace(f.typ, f.pkg+".", name+".", 1), true
	}
	return "", false
}

// anyType: a type expression for a variable or a named field.
func (g *c36Gen) anyType() string {
	r := g.rng.Intn(100)
	declared := append(append(append([]string{}, g.structs...), g.nameds...), g.ifaces...)
	switch {
	case r < 40 && len(g.structs) > 0:
		t := c36Pick(g.rng, g.structs)
		switch g.rng.Intn(8) {
		case 0, 1, 2:
			return "*" + t
		case 3:
			return "**" + t
		case 4:
			return "[]" + t
		}
		return t
	case r < 55 && len(declared) > 0:
		t := c36Pick(g.rng, declared)
		if g.rng.Intn(4) == 0 {
			return "*" + t
		}
		return t
	case r < 75:
		if t, ok := g.foreignType(false); ok {
			if g.rng.Intn(10) == 0 {
				return "*" + t
			}
			return t
		}
	case r < 82 && len(declared) > 0:
		return fmt.Sprintf("struct { %s; q%d int }", c36Pick(g.rng, declared), g.rng.Intn(3))
	}
	return c36Pick(g.rng, c36Basic)
}

func (g *c36Gen) freshName(pool []string) (string, bool) {
	for tries := 0; tries < 8; tries++ {
		n := c36Pick(g.rng, pool)
		if !g.m.declared(n) {
			return n, true
		}
	}
	return "", false
}

func (g *c36Gen) genStruct() {
	name, ok := g.freshName(c36TypeNames)
	if !ok {
		return
	}
	nf := 1 + g.rng.Intn(5)
	var parts []string
	direct := map[string]bool{}
	for i := 0; i < nf; i++ {
		if g.rng.Intn(100) < 45 {
			// embedded field
			var t string
			r := g.rng.Intn(100)
			cands := append(append(append([]string{}, g.structs...), g.nameds...), g.ifaces...)
			switch {
			case r < 65 && len(cands) > 0:
				t = c36Pick(g.rng, cands)
				isIface := false
				for _, x := range g.ifaces {
					if x == t {
						isIface = true
					}
				}
				if !isIface && g.rng.Intn(100) < 45 {
					t = "*" + t
				}
			case r < 70:
				t = "*" + name // self reference through a pointer
			default:
				ft, ok := g.foreignType(true)
				if !ok {
					continue
				}
				t = ft
			}
			parts = append(parts, t)
		} else {
			fn := c36Pick(g.rng, c36FieldNames)
			if direct[fn] {
				continue
			}
			direct[fn] = true
			t := g.anyType()
			if g.rng.Intn(12) == 0 {
				t = "*" + name
			}
			parts = append(parts, fn+" "+t)
		}
	}
	if len(parts) == 0 {
		parts = []string{"z int"}
		direct["z"] = true
	}
	src := fmt.Sprintf("type %s struct { %s }", name, strings.Join(parts, "; "))
	if g.commit(c36Decl{Kind: "type", Name: name, Src: src}) {
		g.structs = append(g.structs, name)
		g.fields[name] = direct
	}
}

func (g *c36Gen) genNamed() {
	name, ok := g.freshName(c36TypeNames)
	if !ok {
		return
	}
	under := c36Pick(g.rng, []string{"int", "string", "[]int", "map[string]bool", "func(int) int", "float64", "uint8"})
	if g.commit(c36Decl{Kind: "type", Name: name, Src: fmt.Sprintf("type %s %s", name, under)}) {
		g.nameds = append(g.nameds, name)
	}
}

func (g *c36Gen) genIface() {
	name, ok := g.freshName(c36TypeNames)
	if !ok {
		return
	}
	var parts []string
	seen := map[string]bool{}
	for i, n := 0, 1+g.rng.Intn(3); i < n; i++ {
		mn := c36Pick(g.rng, c36MethodNames)
		if seen[mn] || mn[0] >= 0x80 {
			// (a non-ASCII exported method next to an unexported one makes xreflect order the
			// emulated interface's methods inconsistently: every use of the type fails, not
			// only completion, so the generator avoids it)
			continue
		}
		seen[mn] = true
		parts = append(parts, mn+c36Pick(g.rng, []string{"()", "() int", "(s string) error"}))
	}
	// no embedded interfaces here: unqualified ones trip a parser defect and qualified ones
	// (interface { Zed(); io.Closer }) make xreflect's method tables inconsistent for every
	// use of the type, not only completion; imported interfaces that embed others
	// (io.ReadWriter, bufio.ReadWriter) are still exercised through variables and fields.
	src := fmt.Sprintf("type %s interface { %s }", name, strings.Join(parts, "; "))
	if g.commit(c36Decl{Kind: "type", Name: name, Src: src}) {
		g.ifaces = append(g.ifaces, name)
	}
}

func (g *c36Gen) genMethod() {
	recvs := append(append([]string{}, g.structs...), g.nameds...)
	if len(recvs) == 0 {
		return
	}
	t := c36Pick(g.rng, recvs)
	mn := c36Pick(g.rng, c36MethodNames)
	if g.methods[t][mn] || g.fields[t][mn] {
		return
	}
	recv := "r " + t
	if g.rng.Intn(2) == 0 {
		recv = "r *" + t
	}
	// (a body that returns nil as error is refused by the interpreter for some self-referencing
	// receiver types: unrelated to completion, avoided)
	sig := c36Pick(g.rng, []string{"() {}", "() int { return 0 }", "(s string) string { return s }"})
	src := fmt.Sprintf("func (%s) %s%s", recv, mn, sig)
	if g.commit(c36Decl{Kind: "method", Name: t + "." + mn, Src: src}) {
		if g.methods[t] == nil {
			g.methods[t] = map[string]bool{}
		}
		g.methods[t][mn] = true
	}
}

func (g *c36Gen) genVar() {
	name := c36Pick(g.rng, c36PlainNames)
	t := g.anyType()
	g.commit(c36Decl{Kind: "var", Name: name, Src: fmt.Sprintf("var %s %s", name, t)})
}

func (g *c36Gen) genConst() {
	name := c36Pick(g.rng, c36PlainNames)
	src := fmt.Sprintf("const %s = %s", name, c36Pick(g.rng, []string{"42", `"s"`, "1.5", "true", "'c'"}))
	switch g.rng.Intn(4) {
	case 0:
		if len(g.nameds) > 0 {
			// typed constant of a declared type (only works for basic underlying types; the reference filters)
			src = fmt.Sprintf("const %s %s = 3", name, c36Pick(g.rng, g.nameds))
		}
	case 1:
		if tm, ok := g.ensureImport("time"); ok {
			src = fmt.Sprintf("const %s %s.Duration = 5", name, tm)
		}
	}
	g.commit(c36Decl{Kind: "const", Name: name, Src: src})
}

func (g *c36Gen) genFunc() {
	name := c36Pick(g.rng, c36PlainNames)
	src := fmt.Sprintf("func %s(a int) int { return a }", name)
	if len(g.structs) > 0 && g.rng.Intn(2) == 0 {
		t := c36Pick(g.rng, g.structs)
		src = fmt.Sprintf("func %s() %s { return %s{} }", name, t, t)
	}
	g.commit(c36Decl{Kind: "func", Name: name, Src: src})
}

func (g *c36Gen) genImport() {
	g.ensureImport(c36Pick(g.rng, c36ImportPool))
}

// round adds n declarations to the history.
func (g *c36Gen) round(n int) {
	for i := 0; i < n && !g.failed; i++ {
		r := g.rng.Intn(100)
		switch {
		case r < 26:
			g.genStruct()
		case r < 32:
			g.genNamed()
		case r < 39:
			g.genIface()
		case r < 57:
			g.genMethod()
		case r < 79:
			g.genVar()
		case r < 85:
			g.genConst()
		case r < 91:
			g.genFunc()
		default:
			g.genImport()
		}
	}
}

// ---------------------------------------------------------------- lines

var c36Seps = []string{".", ".", ".", " .", ". ", " . ", ".\t", "  .  "}

// garbage that may precede the identifier chain (supported forms)
var c36Garbage = []string{
	"", "", "", "x := ", "fmt.Println(", "a+", "(", "if ", "foo(1, ", "s[", "&", "*", "!", "-", `"str" + `,
	"p.q(", ") ", "{", ";", ", ", "0 +", "1.5*", "return ", "go ", "<-", "x.y.z = ", "f(xs...); ", "a.b c.d ", "[]int{1,2}[0] + ",
	"\t", "  ", "case ", "v, ok := ", "x == nil || ", "m[k].f(", "~", "@#$ ", "3.", // "3." : float literal glued to the chain
}

// garbage whose handling the property does not define (checked for reassembly only)
var c36GarbageOdd = []string{"foo().", "a[1].", `"s".`, "x.(T).", "12", "0x", "f(). ", "m[k] .", "9"}

// garbage with non-ASCII runes before the chain: the liner cursor is a RUNE index
var c36GarbageUni = []string{"é := ", `"héllo" + `, "世界, ", "π*", "x.é = "}

var c36Tails = []string{"", "", "", ")", " + 1", ".x", "abc", " ", ".", "é", "()"}

// members returns names that may be followed from t (all depths, valid or not) for line generation.
func c36MemberNames(t types.Type) []string {
	var out []string
	for n := range c36CandidateNames(t) {
		out = append(out, n)
	}
	sort.Strings(out)
	return out
}

func c36RandPrefix(rng *rand.Rand, name string) string {
	rs := []rune(name)
	switch rng.Intn(10) {
	case 0:
		return ""
	case 1, 2:
		return name
	case 3:
		// a wrong last character
		if len(rs) > 0 {
			return string(rs[:len(rs)-1]) + "q"
		}
		return "q"
	case 4:
		return name + "x"
	}
	if len(rs) == 0 {
		return ""
	}
	return string(rs[:1+rng.Intn(len(rs))])
}

// genLine builds one input line from the model's knowledge of the state.
func (g *c36Gen) genLine(predeclared, keywords []string, importMembers func(string) map[string]bool) string {
	rng, m := g.rng, g.m
	var b strings.Builder
	switch r := rng.Intn(100); {
	case r < 80:
		b.WriteString(c36Pick(rng, c36Garbage))
	case r < 90:
		b.WriteString(c36Pick(rng, c36GarbageOdd))
	default:
		b.WriteString(c36Pick(rng, c36GarbageUni))
	}
	sep := func() string { return c36Pick(rng, c36Seps) }

	// root
	var roots []string
	roots = append(roots, m.plainNames()...)
	kind := rng.Intn(100)
	var root string
	switch {
	case kind < 70 && len(roots) > 0:
		root = c36Pick(rng, roots)
	case kind < 78:
		root = c36Pick(rng, predeclared)
	case kind < 84:
		root = c36Pick(rng, keywords)
	case kind < 90:
		root = c36Pick(rng, c36PlainNames) // possibly undeclared
	default:
		root = c36Pick(rng, []string{"zz", "q", "undefinedName", "fmt", "os"})
	}
	// single word?
	if rng.Intn(100) < 22 {
		b.WriteString(c36RandPrefix(rng, root))
		b.WriteString(c36Pick(rng, c36Tails))
		return b.String()
	}
	b.WriteString(root)

	// follow the chain with the model's own knowledge
	var cur types.Type
	var pkgMembers []string
	if path, ok := m.imports[root]; ok {
		for n := range importMembers(path) {
			pkgMembers = append(pkgMembers, n)
		}
		sort.Strings(pkgMembers)
	} else if obj := m.pkg.Scope().Lookup(root); obj != nil && m.declared(root) {
		cur = obj.Type()
	} else if o, ok := types.Universe.Lookup(root).(*types.TypeName); ok {
		cur = o.Type()
	}
	steps := rng.Intn(4)
	for s := 0; s < steps; s++ {
		var next string
		if pkgMembers != nil {
			// prefer variables and types that lead somewhere
			next = c36Pick(rng, pkgMembers)
			if path := m.imports[root]; rng.Intn(3) != 0 {
				if gp, err := c36Imp.Import(path); err == nil {
					var good []string
					for _, n := range pkgMembers {
						switch o := gp.Scope().Lookup(n).(type) {
						case *types.Var:
							good = append(good, n)
						case *types.TypeName:
							if _, isStruct := o.Type().Underlying().(*types.Struct); isStruct || types.IsInterface(o.Type()) {
								good = append(good, n)
							}
						}
					}
					if len(good) > 0 {
						next = c36Pick(rng, good)
					}
				}
			}
			if gp, err := c36Imp.Import(m.imports[root]); err == nil {
				if o := gp.Scope().Lookup(next); o != nil {
					cur = o.Type()
				}
			}
			pkgMembers = nil
		} else if cur != nil {
			ms := c36MemberNames(cur)
			if len(ms) == 0 || rng.Intn(12) == 0 {
				next = c36Pick(rng, c36FieldNames)
			} else {
				next = c36Pick(rng, ms)
			}
			obj, _, _ := types.LookupFieldOrMethod(cur, true, m.pkg, next)
			if obj != nil {
				cur = obj.Type()
			} else {
				cur = nil
			}
		} else {
			next = c36Pick(rng, c36FieldNames)
		}
		b.WriteString(sep())
		b.WriteString(next)
	}
	// last word
	b.WriteString(sep())
	var last string
	switch {
	case pkgMembers != nil && len(pkgMembers) > 0:
		last = c36RandPrefix(rng, c36Pick(rng, pkgMembers))
	case cur != nil:
		if ms := c36MemberNames(cur); len(ms) > 0 {
			last = c36RandPrefix(rng, c36Pick(rng, ms))
		} else {
			last = c36RandPrefix(rng, c36Pick(rng, c36FieldNames))
		}
	default:
		last = c36RandPrefix(rng, c36Pick(rng, c36FieldNames))
	}
	b.WriteString(last)
	b.WriteString(c36Pick(rng, c36Tails))
	return b.String()
}
