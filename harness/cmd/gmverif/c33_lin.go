package main

// C33 part c: the goroutine registry operations (lookup, lookup-or-create, register, unregister) driven
// concurrently over a few synthetic identities; every recorded history is checked for linearizability
// with porcupine against a sequential map model, partitioned by key.

import (
	"fmt"
	"math/rand"
	"runtime"
	"sort"
	"strings"
	"sync"
	"sync/atomic"
	"time"

	"github.com/anishathalye/porcupine"
	"github.com/cosmos72/gomacro/fast"

	"gmverif/internal/fw"
)

const (
	c33Get   = "get"   // (*IrGlobals).glsGet(key)
	c33Store = "store" // (*Run).glsStore() of a new record for key
	c33Del   = "del"   // (*Run).glsDel() of a record for key
	c33Goc   = "goc"   // (*Run).getRun4Goid(key): lookup, and if missing create + register (two critical sections)
)

// c33Op is one completed registry operation. Arg/Out are small integers naming runtime records (0 = nil).
type c33Op struct {
	Client int    `json:"client"`
	Kind   string `json:"kind"`
	Key    int    `json:"key"`
	Arg    int    `json:"arg,omitempty"` // record stored (store)
	Out    int    `json:"out,omitempty"` // record returned (get, goc)
	Call   int64  `json:"call"`
	Ret    int64  `json:"ret"`
}

type c33LinIn struct {
	kind string
	key  int
	arg  int
	op   uint // index of a goc operation within its partition
	made bool // Out is a record created by the harness for a store operation: lookup-or-create cannot have created it
}

// per-key model state
type c33LinState struct {
	cur  int    // record registered under the key, 0 = none
	pend uint64 // goc operations that found nothing and have not registered their new record yet
	hit  uint64 // goc operations whose lookup succeeded
}

func c33Partition(history []porcupine.Operation) [][]porcupine.Operation {
	m := map[int][]porcupine.Operation{}
	for _, o := range history {
		k := o.Input.(c33LinIn).key
		m[k] = append(m[k], o)
	}
	keys := make([]int, 0, len(m))
	for k := range m {
		keys = append(keys, k)
	}
	sort.Ints(keys)
	out := make([][]porcupine.Operation, 0, len(m))
	for _, k := range keys {
		out = append(out, m[k])
	}
	return out
}

// c33Model: twoPhase=true models getRun4Goid as it is written (lookup, then - not atomically - create+register);
// twoPhase=false models it as one atomic lookup-or-create (used only to measure how often the window was hit).
func c33Model(twoPhase bool) porcupine.Model {
	_ = twoPhase // the operation kinds present in the history select the behaviour
	return porcupine.Model{
		Partition: c33Partition,
		Init:      func() interface{} { return c33LinState{} },
		Step: func(state, input, output interface{}) (bool, interface{}) {
			s := state.(c33LinState)
			in := input.(c33LinIn)
			out := output.(int)
			switch in.kind {
			case c33Get:
				return out == s.cur, s
			case c33Store:
				s.cur = in.arg
				return true, s
			case c33Del:
				s.cur = 0
				return true, s
			case c33Goc:
				if out == 0 {
					return false, s // lookup-or-create never returns nil
				}
				if s.cur == out {
					return true, s
				}
				if s.cur == 0 && !in.made {
					s.cur = out
					return true, s
				}
				return false, s
			case "goc1":
				bit := uint64(1) << in.op
				if out == 0 || s.pend&bit != 0 || s.hit&bit != 0 {
					return false, s
				}
				if s.cur == out {
					s.hit |= bit
					return true, s
				}
				if s.cur == 0 && !in.made {
					s.pend |= bit
					return true, s
				}
				return false, s
			case "goc2":
				bit := uint64(1) << in.op
				if s.pend&bit != 0 {
					s.pend &^= bit
					s.cur = out
					return true, s
				}
				if s.hit&bit != 0 {
					s.hit &^= bit
					return true, s
				}
				return false, s
			}
			return false, s
		},
		DescribeOperation: func(input, output interface{}) string {
			in := input.(c33LinIn)
			return fmt.Sprintf("%s(k%d,%d)->%d", in.kind, in.key, in.arg, output.(int))
		},
	}
}

// c33ToPorcupine converts a recorded history. With twoPhase each goc operation becomes two operations sharing
// the call/return interval; the model forces phase 1 before phase 2.
func c33ToPorcupine(h []c33Op, twoPhase bool, made map[int]bool) ([]porcupine.Operation, bool) {
	var ops []porcupine.Operation
	nGoc := map[int]uint{}
	for _, o := range h {
		in := c33LinIn{kind: o.Kind, key: o.Key, arg: o.Arg, made: made[o.Out]}
		if o.Kind == c33Goc && twoPhase {
			idx := nGoc[o.Key]
			nGoc[o.Key]++
			if idx >= 64 {
				return nil, false
			}
			in.op = idx
			in.kind = "goc1"
			ops = append(ops, porcupine.Operation{ClientId: o.Client, Input: in, Call: o.Call, Output: o.Out, Return: o.Ret})
			in.kind = "goc2"
			ops = append(ops, porcupine.Operation{ClientId: o.Client, Input: in, Call: o.Call, Output: o.Out, Return: o.Ret})
			continue
		}
		ops = append(ops, porcupine.Operation{ClientId: o.Client, Input: in, Call: o.Call, Output: o.Out, Return: o.Ret})
	}
	return ops, true
}

func c33Made(h []c33Op) map[int]bool {
	made := map[int]bool{}
	for _, o := range h {
		if o.Kind == c33Store {
			made[o.Arg] = true
		}
	}
	return made
}

// c33CheckHistory returns porcupine's verdict for the history under the faithful (two-phase) model.
func c33CheckHistory(h []c33Op, timeout time.Duration) porcupine.CheckResult {
	ops, ok := c33ToPorcupine(h, true, c33Made(h))
	if !ok {
		return porcupine.Unknown
	}
	return porcupine.CheckOperationsTimeout(c33Model(true), ops, timeout)
}

func c33HistoryText(h []c33Op) string {
	s := append([]c33Op(nil), h...)
	sort.Slice(s, func(i, j int) bool { return s[i].Call < s[j].Call })
	var b strings.Builder
	for _, o := range s {
		fmt.Fprintf(&b, "[%d,%d] c%d %s(k%d", o.Call, o.Ret, o.Client, o.Kind, o.Key)
		if o.Kind == c33Store {
			fmt.Fprintf(&b, ",r%d", o.Arg)
		}
		b.WriteString(")")
		if o.Kind == c33Get || o.Kind == c33Goc {
			fmt.Fprintf(&b, "=r%d", o.Out)
		}
		b.WriteString("; ")
	}
	return b.String()
}

// overlapping operations of different clients on one key
func c33Overlaps(h []c33Op) int {
	n := 0
	for i := range h {
		for j := i + 1; j < len(h); j++ {
			a, b := h[i], h[j]
			if a.Key == b.Key && a.Client != b.Client && a.Call < b.Ret && b.Call < a.Ret {
				n++
			}
		}
	}
	return n
}

type c33Plan struct {
	kind string
	key  int
	gap  int // Gosched calls before the operation
}

func c33PartC(res *c33Result, rng *rand.Rand, tier string, cfg c33Replay, only int) {
	nHist := 1500
	if tier == "thorough" {
		nHist = 20000
	}
	fast.VerifSetOwnership(false)
	ir := newQuietInterp()
	g := c33IrGlobals(ir)
	base := ir.PrepareEnv().Run
	baseLen := g.VerifGlsLen()
	keys := []uintptr{0x10, 0x20, 0x30}
	for hi := 0; hi < nHist; hi++ {
		hrng := rand.New(rand.NewSource(rng.Int63()))
		if only >= 0 && only != hi {
			continue
		}
		hcfg := cfg
		hcfg.Only = hi
		nClients := 4 + hrng.Intn(5)
		nKeys := 2 + hrng.Intn(2)
		fast.VerifSetYieldSeed(uint64(hrng.Int63()) | 1)
		plans := make([][]c33Plan, nClients)
		for c := range plans {
			n := 2 + hrng.Intn(5)
			for i := 0; i < n; i++ {
				p := c33Plan{key: hrng.Intn(nKeys), gap: hrng.Intn(3)}
				switch x := hrng.Intn(10); {
				case x < 3:
					p.kind = c33Get
				case x < 5:
					p.kind = c33Store
				case x < 7:
					p.kind = c33Del
				default:
					p.kind = c33Goc
				}
				plans[c] = append(plans[c], p)
			}
		}
		var clock int64
		var ready int32
		var wg sync.WaitGroup
		type rawOp struct {
			c33Op
			arg, out *fast.Run
		}
		raw := make([][]rawOp, nClients)
		for c := 0; c < nClients; c++ {
			wg.Add(1)
			go func(c int) {
				defer wg.Done()
				atomic.AddInt32(&ready, 1)
				for atomic.LoadInt32(&ready) < int32(nClients) {
					runtime.Gosched()
				}
				for _, p := range plans[c] {
					for k := 0; k < p.gap; k++ {
						runtime.Gosched()
					}
					key := keys[p.key]
					o := rawOp{c33Op: c33Op{Client: c, Kind: p.kind, Key: p.key}}
					switch p.kind {
					case c33Get:
						o.Call = atomic.AddInt64(&clock, 1)
						o.out = g.VerifGlsGet(key)
						o.Ret = atomic.AddInt64(&clock, 1)
					case c33Store:
						o.arg = base.VerifNew(key)
						o.Call = atomic.AddInt64(&clock, 1)
						o.arg.VerifGlsStore()
						o.Ret = atomic.AddInt64(&clock, 1)
					case c33Del:
						tmp := base.VerifNew(key)
						o.Call = atomic.AddInt64(&clock, 1)
						tmp.VerifGlsDel()
						o.Ret = atomic.AddInt64(&clock, 1)
					case c33Goc:
						o.Call = atomic.AddInt64(&clock, 1)
						o.out = base.VerifGetRun4Goid(key)
						o.Ret = atomic.AddInt64(&clock, 1)
					}
					raw[c] = append(raw[c], o)
				}
			}(c)
		}
		wg.Wait()
		fast.VerifSetYieldSeed(0)
		// name the records by order of first appearance
		var all []rawOp
		for _, rs := range raw {
			all = append(all, rs...)
		}
		sort.Slice(all, func(i, j int) bool { return all[i].Call < all[j].Call })
		names := map[*fast.Run]int{}
		name := func(r *fast.Run) int {
			if r == nil {
				return 0
			}
			if n, ok := names[r]; ok {
				return n
			}
			names[r] = len(names) + 1
			return names[r]
		}
		hist := make([]c33Op, 0, len(all))
		badOwner := ""
		for _, o := range all {
			o.Arg, o.Out = name(o.arg), name(o.out)
			if o.out != nil && o.out.VerifGoid() != keys[o.Key] {
				badOwner = fmt.Sprintf("%s(k%d) returned a record owned by identity %#x, not %#x", o.Kind, o.Key, o.out.VerifGoid(), keys[o.Key])
			}
			hist = append(hist, o.c33Op)
		}
		// leave the registry as it was
		for _, k := range keys {
			base.VerifNew(k).VerifGlsDel()
		}
		atomic.AddInt64(&res.Evals, 1)
		if n := g.VerifGlsLen(); n != baseLen {
			hcfg.History = hist
			res.violation("registry-del", fmt.Sprintf("after unregistering every synthetic identity the registry holds %d records instead of %d; history: %s", n, baseLen, c33HistoryText(hist)), hcfg)
			baseLen = n
		}
		if badOwner != "" {
			hcfg.History = hist
			res.violation("registry-wrong-owner", badOwner+"; history: "+c33HistoryText(hist), hcfg)
		}
		verdict := c33CheckHistory(hist, 20*time.Second)
		switch verdict {
		case porcupine.Unknown:
			res.inconclusive(fmt.Sprintf("part c: porcupine timed out on history %d (%d operations)", hi, len(hist)))
		case porcupine.Illegal:
			hcfg.History = hist
			res.violation("not-linearizable", "registry history is not linearizable against the sequential map model (lookup-or-create = lookup, then create+register): "+c33HistoryText(hist), hcfg)
		}
		ov := c33Overlaps(hist)
		res.count("c_histories", 1)
		res.count("c_operations", int64(len(hist)))
		res.count("c_overlapping_same_key_pairs", int64(ov))
		if ov > 0 {
			res.distinct("c/" + fw.Hash(c33HistoryShape(hist)))
			res.count("c_histories_with_overlap", 1)
			// how often was lookup-or-create observed to be non-atomic?
			if ops, ok := c33ToPorcupine(hist, false, c33Made(hist)); ok {
				if porcupine.CheckOperationsTimeout(c33Model(false), ops, 5*time.Second) == porcupine.Illegal {
					res.count("c_histories_showing_nonatomic_lookup_or_create", 1)
				}
			}
		}
		for _, o := range hist {
			res.cover("registry_operation", o.Kind)
		}
		res.cover("clients", fmt.Sprint(nClients))
		res.cover("keys", fmt.Sprint(nKeys))
		if ov > 0 {
			res.sample(map[string]interface{}{"part": "c", "procs": cfg.Procs, "history": c33HistoryText(hist), "verdict": string(verdict)})
		}
	}
	res.cover("part", "c")
}

// c33HistoryShape: the history with timestamps replaced by their rank (what porcupine's verdict depends on).
func c33HistoryShape(h []c33Op) string {
	type ev struct {
		t   int64
		txt string
	}
	var evs []ev
	for i, o := range h {
		evs = append(evs, ev{o.Call, fmt.Sprintf("c%d:%s:k%d:a%d:%d", o.Client, o.Kind, o.Key, o.Arg, i)})
		evs = append(evs, ev{o.Ret, fmt.Sprintf("r%d:o%d", i, o.Out)})
	}
	sort.Slice(evs, func(i, j int) bool { return evs[i].t < evs[j].t })
	var b strings.Builder
	for _, e := range evs {
		b.WriteString(e.txt)
		b.WriteByte(' ')
	}
	return b.String()
}
