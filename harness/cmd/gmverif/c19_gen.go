package main

// C19 program and script generator.
//
// A program is a set of int functions f0..fn (fi calls only fj with j > i, plus one bounded recursive function),
// closures (called directly, through the injected compiled function via(), or deferred), loops, switches,
// defers, panics with recover, and breakpoint statements ("break" and _ = "break").
// Every function body, closure body and loop body starts with a rec() call, so that the pair
// (source position, number of rec events so far) identifies an execution point.
// Each statement is on its own line: a source position identifies a statement.

import (
	"fmt"
	"math/rand"
	"strings"
)

type c19Gen struct {
	rng      *rand.Rand
	sb       strings.Builder
	tag      int
	nvar     int
	nfun     int
	void     []bool // fi has no result
	retAll   bool   // class A: every function and closure ends with an explicit return
	feat     map[string]bool
	bpBudget int
}

func (g *c19Gen) line(ind int, format string, a ...interface{}) {
	g.sb.WriteString(strings.Repeat("\t", ind))
	fmt.Fprintf(&g.sb, format, a...)
	g.sb.WriteByte('\n')
}

func (g *c19Gen) newTag() int { g.tag++; return g.tag }
func (g *c19Gen) newVar(p string) string {
	g.nvar++
	return fmt.Sprintf("%s%d", p, g.nvar)
}

type c19Ctx struct {
	fn      int  // index of the enclosing function (-1 = P)
	ind     int  // indentation
	nest    int  // block nesting inside the function
	inLoop  bool // break/continue allowed
	closure bool // inside a closure body
	deferOK bool
}

func (g *c19Gen) expr(c c19Ctx) string {
	switch g.rng.Intn(5) {
	case 0:
		return fmt.Sprintf("a + %d", 1+g.rng.Intn(5))
	case 1:
		return "a*2 + x"
	case 2:
		return fmt.Sprintf("x + %d", g.rng.Intn(4))
	case 3:
		return "a - x"
	}
	return fmt.Sprintf("%d", g.rng.Intn(7))
}

// a call of a function with a larger index; "" if there is none
func (g *c19Gen) callExpr(c c19Ctx, needValue bool) string {
	var cands []int
	for j := c.fn + 1; j < g.nfun; j++ {
		if !needValue || !g.void[j] {
			cands = append(cands, j)
		}
	}
	if len(cands) == 0 {
		return ""
	}
	j := cands[g.rng.Intn(len(cands))]
	arg := []string{"a % 4", "x", "x + 1", "1", "2", "a % 3"}[g.rng.Intn(6)]
	return fmt.Sprintf("f%d(%s)", j, arg)
}

func (g *c19Gen) block(c c19Ctx, n int) {
	for i := 0; i < n; i++ {
		g.stmt(c)
	}
}

func (g *c19Gen) breakpoint(c c19Ctx) {
	g.feat["breakpoint"] = true
	if c.inLoop {
		g.feat["breakpoint-in-loop"] = true
	}
	if c.closure {
		g.feat["breakpoint-in-closure"] = true
	}
	if g.rng.Intn(2) == 0 {
		g.line(c.ind, `"break"`)
	} else {
		g.line(c.ind, `_ = "break"`)
	}
}

func (g *c19Gen) closureBody(c c19Ctx, result bool, recoverIn bool) {
	// caller has written "func(...) ... {"
	inner := c
	inner.ind++
	inner.nest++
	inner.inLoop = false
	inner.closure = true
	inner.deferOK = false
	g.line(inner.ind, "rec(%d, a)", g.newTag())
	if recoverIn {
		g.feat["recover"] = true
		e := g.newVar("e")
		g.line(inner.ind, "if %s := recover(); %s != nil {", e, e)
		g.line(inner.ind+1, "rec(%d, %s)", g.newTag(), e)
		if g.rng.Intn(3) == 0 {
			g.breakpoint(c19Ctx{fn: inner.fn, ind: inner.ind + 1, nest: inner.nest + 1, closure: true})
		}
		g.line(inner.ind, "}")
	}
	g.block(inner, g.rng.Intn(3))
	if result {
		g.line(inner.ind, "return y + a")
	} else if g.retAll {
		g.line(inner.ind, "return")
	} else {
		g.feat["fall-off-end"] = true
	}
}

func (g *c19Gen) stmt(c c19Ctx) {
	r := g.rng.Intn(100)
	switch {
	case r < 7 && c.nest > 0:
		// a local of the nested block (if body, loop body): the block then runs in a frame of its own
		g.feat["block-local"] = true
		v := g.newVar("v")
		g.line(c.ind, "%s := a + %d", v, 1+g.rng.Intn(5))
		g.line(c.ind, "a = %s %% 1000", v)
	case r < 14:
		g.line(c.ind, "rec(%d, a)", g.newTag())
	case r < 24:
		g.line(c.ind, "a = %s", g.expr(c))
	case r < 42: // call
		needValue := g.rng.Intn(4) != 0
		call := g.callExpr(c, needValue)
		if call == "" {
			g.line(c.ind, "a += %d", 1+g.rng.Intn(3))
			return
		}
		g.feat["call"] = true
		if !needValue {
			// may be void
			j := 0
			fmt.Sscanf(call, "f%d(", &j)
			if g.void[j] {
				g.line(c.ind, "%s", call)
				return
			}
			g.line(c.ind, "%s", call)
			return
		}
		if g.rng.Intn(5) == 0 {
			if call2 := g.callExpr(c, true); call2 != "" {
				g.feat["two-calls-one-stmt"] = true
				g.line(c.ind, "a = %s + %s", call, call2)
				return
			}
		}
		g.line(c.ind, "a += %s", call)
	case r < 50: // if
		if c.nest >= 3 {
			g.line(c.ind, "a++")
			return
		}
		in := c
		in.ind++
		in.nest++
		g.line(c.ind, "if a%%%d == %d {", 2+g.rng.Intn(2), g.rng.Intn(2))
		g.block(in, 1+g.rng.Intn(2))
		if g.rng.Intn(2) == 0 {
			g.line(c.ind, "} else {")
			g.block(in, 1+g.rng.Intn(2))
		}
		g.line(c.ind, "}")
	case r < 60: // loop
		if c.nest >= 2 {
			g.line(c.ind, "a += 2")
			return
		}
		g.feat["loop"] = true
		in := c
		in.ind++
		in.nest++
		in.inLoop = true
		in.deferOK = false
		v := g.newVar("i")
		if g.rng.Intn(4) == 0 {
			g.feat["range"] = true
			g.line(c.ind, "for _, %s := range []int{%d, %d} {", v, g.rng.Intn(3), 1+g.rng.Intn(3))
		} else {
			g.line(c.ind, "for %s := 0; %s < %d; %s++ {", v, v, 1+g.rng.Intn(3), v)
		}
		g.line(in.ind, "rec(%d, %s)", g.newTag(), v)
		switch g.rng.Intn(6) {
		case 0:
			g.feat["loop-break"] = true
			g.line(in.ind, "if %s == 1 {", v)
			g.line(in.ind+1, "break")
			g.line(in.ind, "}")
		case 1:
			g.feat["loop-continue"] = true
			g.line(in.ind, "if %s == 0 {", v)
			g.line(in.ind+1, "continue")
			g.line(in.ind, "}")
		}
		g.block(in, 1+g.rng.Intn(2))
		g.line(c.ind, "}")
	case r < 65: // switch
		if c.nest >= 2 {
			g.line(c.ind, "a--")
			return
		}
		g.feat["switch"] = true
		in := c
		in.ind++
		in.nest++
		in.inLoop = false // a "break" keyword here would leave the switch: avoid the ambiguity altogether
		g.line(c.ind, "switch a %% 3 {")
		g.line(c.ind, "case 0:")
		g.block(in, 1)
		g.line(c.ind, "case 1, -1:")
		g.block(in, 1)
		g.line(c.ind, "default:")
		g.block(in, 1)
		g.line(c.ind, "}")
	case r < 75: // defer
		if !c.deferOK {
			g.line(c.ind, "rec(%d, x)", g.newTag())
			return
		}
		g.feat["defer"] = true
		switch g.rng.Intn(4) {
		case 0:
			g.feat["defer-compiled"] = true
			g.line(c.ind, "defer rec(%d, a)", g.newTag())
		case 1:
			if call := g.callExpr(c, false); call != "" {
				g.feat["defer-function"] = true
				g.line(c.ind, "defer %s", call)
				return
			}
			fallthrough
		default:
			g.feat["defer-closure"] = true
			g.line(c.ind, "defer func() {")
			g.closureBody(c, false, g.rng.Intn(2) == 0)
			g.line(c.ind, "}()")
		}
	case r < 84: // closure
		if c.nest >= 2 || c.closure {
			g.line(c.ind, "a += x")
			return
		}
		g.feat["closure"] = true
		v := g.newVar("c")
		g.line(c.ind, "%s := func(y int) int {", v)
		g.closureBody(c, true, false)
		g.line(c.ind, "}")
		if g.rng.Intn(2) == 0 {
			g.feat["closure-via-compiled"] = true
			g.line(c.ind, "a += via(%s, %d)", v, g.rng.Intn(4))
		} else {
			g.line(c.ind, "a += %s(%d)", v, g.rng.Intn(4))
		}
		if g.rng.Intn(3) == 0 {
			g.line(c.ind, "a -= via(%s, a %% 2)", v)
		}
	case r < 94: // breakpoint
		if g.bpBudget <= 0 {
			g.line(c.ind, "a += 1")
			return
		}
		g.bpBudget--
		g.breakpoint(c)
	case r < 98: // panic
		g.feat["panic"] = true
		g.line(c.ind, "if a%%%d == %d {", 3+g.rng.Intn(3), g.rng.Intn(3))
		g.line(c.ind+1, "panic(\"p%d\")", g.newTag())
		g.line(c.ind, "}")
	default: // nested block with a local
		if c.nest >= 3 {
			g.line(c.ind, "a ^= 1")
			return
		}
		in := c
		in.ind++
		in.nest++
		v := g.newVar("b")
		g.line(c.ind, "{")
		g.line(in.ind, "%s := a + 1", v)
		g.line(in.ind, "rec(%d, %s)", g.newTag(), v)
		g.block(in, g.rng.Intn(2))
		g.line(c.ind, "}")
	}
}

// c19GenProg returns the program text and its feature set.
func c19GenProg(rng *rand.Rand) (string, []string, bool) {
	g := &c19Gen{rng: rng, feat: map[string]bool{}}
	g.retAll = rng.Intn(100) < 60
	g.nfun = 1 + rng.Intn(4)
	g.bpBudget = 1 + rng.Intn(4)
	if rng.Intn(10) == 0 {
		g.bpBudget = 0
	}
	for i := 0; i < g.nfun; i++ {
		g.void = append(g.void, rng.Intn(4) == 0)
	}
	withRec := rng.Intn(3) == 0
	// functions in reverse order is not needed: gomacro resolves forward references among declarations of one Compile
	for i := 0; i < g.nfun; i++ {
		c := c19Ctx{fn: i, ind: 1, deferOK: true}
		recoverHere := rng.Intn(4) == 0
		if g.void[i] {
			g.line(0, "func f%d(x int) {", i)
		} else {
			g.line(0, "func f%d(x int) (res int) {", i)
		}
		g.line(1, "a := x + %d", rng.Intn(3))
		g.line(1, "rec(%d, a)", g.newTag())
		if recoverHere {
			g.feat["defer"] = true
			g.feat["defer-closure"] = true
			g.line(1, "defer func() {")
			g.closureBody(c, false, true)
			g.line(1, "}()")
		}
		g.block(c, 2+rng.Intn(5))
		if withRec && i == g.nfun-1 {
			g.feat["recursion"] = true
			g.line(1, "a += r(%d)", 1+rng.Intn(3))
		}
		if g.void[i] {
			if g.retAll {
				g.line(1, "return")
			} else {
				g.feat["fall-off-end"] = true
			}
		} else {
			switch rng.Intn(3) {
			case 0:
				g.feat["naked-return"] = true
				g.line(1, "res = a")
				g.line(1, "return")
			default:
				g.line(1, "return a + %d", rng.Intn(3))
			}
		}
		g.line(0, "}")
	}
	if withRec {
		g.line(0, "func r(n int) int {")
		g.line(1, "rec(%d, n)", g.newTag())
		g.line(1, "if n <= 0 {")
		if rng.Intn(2) == 0 && g.bpBudget >= 0 {
			g.feat["breakpoint"] = true
			g.line(2, `"break"`)
		}
		g.line(2, "return 0")
		g.line(1, "}")
		g.line(1, "v := r(n - 1)")
		g.line(1, "rec(%d, v)", g.newTag())
		g.line(1, "return v + n")
		g.line(0, "}")
	}
	// P
	c := c19Ctx{fn: -1, ind: 1, deferOK: true}
	g.line(0, "func P() (res int) {")
	g.line(1, "x := %d", rng.Intn(3))
	g.line(1, "a := x")
	g.line(1, "rec(%d, a)", g.newTag())
	if rng.Intn(5) != 0 {
		g.feat["defer"] = true
		g.feat["defer-closure"] = true
		g.line(1, "defer func() {")
		g.closureBody(c, false, true)
		g.line(1, "}()")
	}
	g.block(c, 3+rng.Intn(5))
	g.line(1, "rec(%d, a)", g.newTag())
	g.line(1, "return a")
	g.line(0, "}")
	var feats []string
	for f := range g.feat {
		feats = append(feats, f)
	}
	return g.sb.String(), feats, g.retAll
}

var c19Spell = map[string][]string{
	"step":     {"step", "s", "st", "step"},
	"next":     {"next", "n", "ne", "next"},
	"finish":   {"finish", "f", "fin", "finish"},
	"continue": {"continue", "c", "cont", "continue"},
}

// canonical command of script position i (a blank line repeats the previous command)
func c19Canon(raw string) string {
	if raw == "" {
		return ""
	}
	switch raw[0] {
	case 's':
		return "step"
	case 'n':
		return "next"
	case 'f':
		return "finish"
	case 'c', 'e': // "eof": end of the command input = continue
		return "continue"
	}
	return "?"
}

func c19GenScript(rng *rand.Rand, tlen int) c19Script {
	// weights vary per script so that some scripts are step-heavy and some skip a lot
	w := [4]int{1 + rng.Intn(6), 1 + rng.Intn(6), rng.Intn(4), rng.Intn(4)}
	names := [4]string{"step", "next", "finish", "continue"}
	pick := func() string {
		t := w[0] + w[1] + w[2] + w[3]
		x := rng.Intn(t)
		for i := 0; i < 4; i++ {
			if x < w[i] {
				return names[i]
			}
			x -= w[i]
		}
		return "step"
	}
	max := tlen
	if max > 60 {
		max = 60
	}
	if max < 1 {
		max = 1
	}
	n := 1 + rng.Intn(max)
	var s c19Script
	prev := ""
	for i := 0; i < n; i++ {
		c := pick()
		if c == prev && rng.Intn(3) == 0 {
			s.Cmds = append(s.Cmds, "") // enter repeats the last command
			continue
		}
		sp := c19Spell[c]
		s.Cmds = append(s.Cmds, sp[rng.Intn(len(sp))])
		prev = c
	}
	s.Tail = pick()
	if rng.Intn(12) == 0 {
		s.Tail = "eof"
	}
	return s
}
