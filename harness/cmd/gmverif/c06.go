package main

// C06 — function calls, closures, frame recycling (each program runs with and without poisoned freed frames).

import (
	"fmt"
	"math/rand"
	"strings"

	"gmverif/internal/fw"
)

func init() { register("C06", "exploration", checkC06) }

type c06Kind struct {
	T    string
	Vals []string
	Op   string // a binary expression template combining a and b of this kind giving the same kind
	Zero string
}

var c06Kinds = []c06Kind{
	{"int", []string{"1", "-7", "40"}, "(A + B*3)", "0"},
	{"int8", []string{"1", "-7", "100"}, "(A ^ B)", "0"},
	{"uint16", []string{"1", "700", "65535"}, "(A + B)", "0"},
	{"int64", []string{"1", "-7", "1 << 40"}, "(A - B)", "0"},
	{"uint64", []string{"1", "7", "1 << 63"}, "(A | B)", "0"},
	{"float64", []string{"1.5", "-0.25", "1e10"}, "(A*0.5 + B)", "0"},
	{"float32", []string{"1.5", "-0.25", "3"}, "(A + B)", "0"},
	{"complex128", []string{"1i", "(2+3i)", "-1"}, "(A * B)", "0"},
	{"string", []string{`"a"`, `"bc"`, `""`}, "§cat(A, B)", `""`},
	{"bool", []string{"true", "false", "true"}, "(A != B)", "false"},
	{"[]int", []string{"[]int{1}", "nil", "[]int{2, 3}"}, "§app(A, B)", "nil"},
	{"§S", []string{"§S{1, \"x\"}", "§S{}", "§S{-2, \"y\"}"}, "§S{A.N + B.N, §cat(A.T, B.T)}", "§S{}"},
}

type c06Func struct {
	name    string
	params  []*c06Kind
	results []*c06Kind
	named   bool
	variad  bool
}

type c06Gen struct {
	rng   *rand.Rand
	funcs []*c06Func
	b     strings.Builder
	feat  map[string]int
	tag   int
}

func (g *c06Gen) k() *c06Kind { return &c06Kinds[g.rng.Intn(len(c06Kinds))] }

func (g *c06Gen) t() int { g.tag++; return g.tag }

func (g *c06Gen) val(k *c06Kind) string { return k.Vals[g.rng.Intn(len(k.Vals))] }

func (k *c06Kind) op(a, b string) string {
	return strings.NewReplacer("A", a, "B", b).Replace(k.Op)
}

// expression of kind k from the variables in scope (same kind), else a literal
func (g *c06Gen) expr(k *c06Kind, scope map[string][]string) string {
	vs := scope[k.T]
	lit := k.T + "(" + g.val(k) + ")"
	if k.T == "[]int" || k.T == "§S" {
		lit = g.val(k)
		if lit == "nil" {
			lit = "[]int(nil)"
		}
	}
	switch {
	case len(vs) == 0:
		return lit
	case g.rng.Intn(3) == 0:
		return vs[g.rng.Intn(len(vs))]
	case g.rng.Intn(2) == 0:
		return k.op(vs[g.rng.Intn(len(vs))], lit)
	}
	return k.op(vs[g.rng.Intn(len(vs))], vs[g.rng.Intn(len(vs))])
}

func (g *c06Gen) callExpr(f *c06Func, scope map[string][]string) string {
	var args []string
	for _, p := range f.params {
		args = append(args, g.expr(p, scope))
	}
	if f.variad {
		n := g.rng.Intn(3)
		for i := 0; i < n; i++ {
			args = append(args, fmt.Sprint(g.rng.Intn(9)))
		}
		if n == 0 && g.rng.Intn(2) == 0 {
			args = append(args, "[]int{4, 5}...")
			g.feat["call-ellipsis"]++
		}
	}
	return f.name + "(" + strings.Join(args, ", ") + ")"
}

func (g *c06Gen) genFunc(i int) {
	r := g.rng
	f := &c06Func{name: fmt.Sprintf("§f%d", i)}
	np := r.Intn(4)
	if r.Intn(6) == 0 {
		np = 4 + r.Intn(2)
	}
	for j := 0; j < np; j++ {
		f.params = append(f.params, g.k())
	}
	nr := r.Intn(3)
	if r.Intn(8) == 0 {
		nr = 3
	}
	for j := 0; j < nr; j++ {
		f.results = append(f.results, g.k())
	}
	f.named = nr > 0 && r.Intn(3) == 0
	f.variad = r.Intn(6) == 0
	g.feat[fmt.Sprintf("func%dret%d", np, nr)]++
	scope := map[string][]string{}
	var ps []string
	for j, p := range f.params {
		n := fmt.Sprintf("a%d", j)
		ps = append(ps, n+" "+p.T)
		scope[p.T] = append(scope[p.T], n)
	}
	if f.variad {
		ps = append(ps, "vs ...int")
		g.feat["variadic"]++
	}
	var rs []string
	for j, q := range f.results {
		if f.named {
			n := fmt.Sprintf("r%d", j)
			rs = append(rs, n+" "+q.T)
		} else {
			rs = append(rs, q.T)
		}
	}
	sig := "(" + strings.Join(rs, ", ") + ")"
	fmt.Fprintf(&g.b, "func %s(%s) %s {\n", f.name, strings.Join(ps, ", "), sig)
	// global call budget: keeps the call tree polynomial; when exhausted the function returns zero values
	var zeros []string
	for _, q := range f.results {
		z := q.Zero
		if z == "nil" {
			z = "[]int(nil)"
		} else if q.T != "§S" {
			z = q.T + "(" + z + ")"
		}
		zeros = append(zeros, z)
	}
	fmt.Fprintf(&g.b, "if §budget--; §budget < 0 { return %s }\n", strings.Join(zeros, ", "))
	// depth guard in three spellings: a deferred closure (the frame is then "used by a closure" and never pooled),
	// a deferred named function (frame pooled, executor with defer support), or none (frame pooled, plain executor;
	// the call budget alone bounds the recursion)
	switch g.rng.Intn(4) {
	case 0, 1:
		fmt.Fprintf(&g.b, "§depth++\nif §depth > 40 { §depth--; panic(\"too deep\") }\ndefer func() { §depth-- }()\n")
		g.feat["frame-with-deferred-closure"]++
	case 2:
		fmt.Fprintf(&g.b, "§depth++\nif §depth > 40 { §depth--; panic(\"too deep\") }\ndefer §decDepth()\n")
		g.feat["frame-with-deferred-named-func"]++
	default:
		g.feat["frame-without-defer"]++
	}
	if f.variad {
		// not vs itself: with no variadic arguments the interpreter passes an empty non-nil slice (known finding)
		fmt.Fprintf(&g.b, "rec(%d, len(vs), append([]int{7}, vs...))\n", g.t())
	}
	// locals
	nl := 1 + r.Intn(3)
	for j := 0; j < nl; j++ {
		k := g.k()
		n := fmt.Sprintf("l%d", j)
		fmt.Fprintf(&g.b, "%s := %s\n_ = %s\n", n, g.expr(k, scope), n)
		scope[k.T] = append(scope[k.T], n)
	}
	// actions
	na := 1 + r.Intn(4)
	for j := 0; j < na; j++ {
		switch r.Intn(9) {
		case 0: // escaping pointer to a local
			k := g.k()
			if vs := scope[k.T]; len(vs) > 0 && (k.T != "[]int") {
				v := vs[r.Intn(len(vs))]
				// the address is taken 0-3 block scopes below the variable; every block declares a local of its own,
				// so that it gets its own frame and the variable is reached through 0-3 Outer links
				depth := r.Intn(4)
				for d := 1; d <= depth; d++ {
					fmt.Fprintf(&g.b, "if §depth >= 0 {\nblk%d := %d\n_ = blk%d\n", d, r.Intn(9), d)
				}
				fmt.Fprintf(&g.b, "§ptrs = append(§ptrs, &%s)\n", v)
				for d := 1; d <= depth; d++ {
					g.b.WriteString("}\n")
				}
				g.feat["escape-pointer/"+k.T]++
				g.feat[fmt.Sprintf("escape-pointer-from-block-depth-%d", depth)]++
			}
		case 1: // escaping closure capturing locals / params
			k := g.k()
			if vs := scope[k.T]; len(vs) > 0 {
				v := vs[r.Intn(len(vs))]
				// the closure is created 0-3 block scopes below the captured variable (each block has a local of its own):
				// every frame on the way up must stay out of the pool
				depth := r.Intn(4)
				for d := 1; d <= depth; d++ {
					fmt.Fprintf(&g.b, "if §depth >= 0 {\ncblk%d := %d\n_ = cblk%d\n", d, r.Intn(9), d)
				}
				fmt.Fprintf(&g.b, "§fns = append(§fns, func() interface{} { %s = %s; return %s })\n", v, k.op(v, v), v)
				for d := 1; d <= depth; d++ {
					g.b.WriteString("}\n")
				}
				g.feat["escape-closure/"+k.T]++
				g.feat[fmt.Sprintf("escape-closure-from-block-depth-%d", depth)]++
			}
		case 2: // closure called immediately, nested depth 2, mutating a local
			k := g.k()
			if vs := scope[k.T]; len(vs) > 0 {
				v := vs[r.Intn(len(vs))]
				fmt.Fprintf(&g.b, "func() { w := %s; func() { %s = %s }() }()\n", v, v, k.op("w", v))
				g.feat["nested-closure"]++
			}
		case 3, 4: // call an earlier-declared function (callee index > i so the graph is a DAG)
			if len(g.funcs) > 0 {
				callee := g.funcs[r.Intn(len(g.funcs))]
				call := g.callExpr(callee, scope)
				switch len(callee.results) {
				case 0:
					fmt.Fprintf(&g.b, "%s\n", call)
				case 1:
					n := fmt.Sprintf("c%d", j)
					fmt.Fprintf(&g.b, "%s := %s\nrec(%d, %s)\n", n, call, g.t(), n)
					scope[callee.results[0].T] = append(scope[callee.results[0].T], n)
				default:
					var ns []string
					for q := range callee.results {
						ns = append(ns, fmt.Sprintf("c%d_%d", j, q))
					}
					fmt.Fprintf(&g.b, "%s := %s\nrec(%d, %s)\n", strings.Join(ns, ", "), call, g.t(), strings.Join(ns, ", "))
					for q, res := range callee.results {
						scope[res.T] = append(scope[res.T], ns[q])
					}
					// f(g()) multi-value call through the compiled rec
					fmt.Fprintf(&g.b, "§show(%s)\n", g.callExpr(callee, scope))
					g.feat["multivalue-call"]++
				}
			}
		case 5: // recursion on the same function guarded by the depth counter
			if len(f.params) > 0 && r.Intn(2) == 0 {
				fmt.Fprintf(&g.b, "if §depth < %d {\n", 3+r.Intn(38))
				call := g.callExpr(f, scope)
				if len(f.results) == 0 {
					fmt.Fprintf(&g.b, "%s\n", call)
				} else {
					var bl []string
					for range f.results {
						bl = append(bl, "_")
					}
					fmt.Fprintf(&g.b, "%s = %s\n", strings.Join(bl, ", "), call)
				}
				g.b.WriteString("}\n")
				g.feat["recursion"]++
			}
		case 6: // method value and method expression
			fmt.Fprintf(&g.b, "mv := §S{%d, \"m\"}.Add\nrec(%d, mv(2), (*§S).Inc(&§S{5, \"\"}), §S.Add(§S{1, \"\"}, 3))\n", r.Intn(9), g.t())
			g.feat["method-value"]++
			j = na // only once per function (mv redeclared otherwise)
		case 7: // function value passed as argument and returned
			k := g.k()
			fmt.Fprintf(&g.b, "rec(%d, §apply%s(func(x %s) %s { return %s }, %s))\n", g.t(), c06Suffix(k), k.T, k.T, k.op("x", g.expr(k, scope)), g.expr(k, scope))
			g.feat["func-value-arg"]++
		default:
			k := g.k()
			if vs := scope[k.T]; len(vs) > 0 {
				fmt.Fprintf(&g.b, "rec(%d, %s)\n", g.t(), strings.Join(vs, ", "))
			}
		}
	}
	// results
	if nr > 0 {
		var es []string
		for _, q := range f.results {
			es = append(es, g.expr(q, scope))
		}
		if f.named && r.Intn(2) == 0 {
			for j, e := range es {
				fmt.Fprintf(&g.b, "r%d = %s\n", j, e)
			}
			g.b.WriteString("return\n")
			g.feat["named-result-bare-return"]++
		} else {
			fmt.Fprintf(&g.b, "return %s\n", strings.Join(es, ", "))
		}
	}
	g.b.WriteString("}\n")
	g.funcs = append(g.funcs, f)
}

func c06Suffix(k *c06Kind) string {
	return strings.NewReplacer("[]", "sl", "§", "").Replace(k.T)
}

func c06Prog(id int, rng *rand.Rand, feat map[string]int) *Prog {
	g := &c06Gen{rng: rng, feat: feat}
	g.b.WriteString("type §S struct { N int; T string }\nfunc (s §S) Add(n int) int { return s.N + n }\nfunc (s *§S) Inc() int { s.N++; return s.N }\n")
	g.b.WriteString("var §depth, §budget int\nvar §ptrs []interface{}\nvar §fns []func() interface{}\nfunc §decDepth() { §depth-- }\n")
	g.b.WriteString("func §show(v ...interface{}) { rec(7000, v...) }\n")
	g.b.WriteString("func §cat(a, b string) string {\ns := a + \"|\" + b\nif len(s) > 24 { s = s[len(s)-24:] }\nreturn s\n}\n")
	g.b.WriteString("func §app(a, b []int) []int {\nr := append(append([]int{}, a...), b...)\nif len(r) > 8 { r = r[:8] }\nreturn r\n}\n")
	g.b.WriteString("func §leaf(a, b int) int { x := a*2 + b; return x }\nfunc §leaf2(a float64, s string) (float64, string) { t := s + \"!\"; return a + 1, t }\n")
	g.b.WriteString("func §churn(n int) int {\ns := 0\nfor i := 0; i < n; i++ {\ns += §leaf(i, i+1)\nf, t := §leaf2(float64(i), \"c\")\ns += int(f) + len(t)\nfunc() { q := i; s += q }()\n}\nreturn s\n}\n")
	g.b.WriteString("func §deepsum(n int) int {\nif n == 0 { return 0 }\nx := n\np := &x\nr := §deepsum(n - 1)\nreturn *p + r\n}\n")
	g.b.WriteString("func §mkCounter(start int) (func() int, func() int) {\nc := start\nreturn func() int { c++; return c }, func() int { return c }\n}\n")
	for i := range c06Kinds {
		k := &c06Kinds[i]
		fmt.Fprintf(&g.b, "func §apply%s(f func(%s) %s, v %s) %s { return f(f(v)) }\n", c06Suffix(k), k.T, k.T, k.T, k.T)
	}
	n := 3 + rng.Intn(6)
	for i := 0; i < n; i++ {
		g.genFunc(i)
	}
	g.b.WriteString("func §rc(t int) { if r := recover(); r != nil { rec(-t, pcl(r)) } }\n")
	g.b.WriteString("func §P() {\ninc, get := §mkCounter(10)\n")
	scope := map[string][]string{}
	for round := 0; round < 3; round++ {
		for j := len(g.funcs) - 1; j >= 0 && j >= len(g.funcs)-4; j-- {
			f := g.funcs[j]
			call := g.callExpr(f, scope)
			if len(f.results) == 0 {
				fmt.Fprintf(&g.b, "§budget = 300\nfunc() { defer §rc(%d); %s }()\n", g.t(), call)
			} else {
				fmt.Fprintf(&g.b, "§budget = 300\nfunc() { defer §rc(%d); §show(%s) }()\n", g.t(), call)
			}
		}
		fmt.Fprintf(&g.b, "rec(%d, §churn(%d), inc(), §deepsum(%d))\n", g.t(), 40+rng.Intn(100), 33+rng.Intn(30))
	}
	// now use everything that escaped, after the frames were recycled many times
	g.b.WriteString("for i, p := range §ptrs {\nif i > 300 { break }\nrec(8000+i, p)\n}\n§budget = 300\nfor i, f := range §fns {\nif i > 300 { break }\nrec(8500+i, f(), f())\n}\n§churn(50)\nfor i, p := range §ptrs {\nif i > 300 { break }\nrec(9000+i, p)\n}\nrec(9999, get(), len(§ptrs), len(§fns))\n}\n")
	return &Prog{ID: fmt.Sprintf("c06-%d", id), Src: g.b.String(), Cell: "calls"}
}

func checkC06(r *fw.Run) {
	r.SetRule("seeded random programs of 3-9 functions with 0-5 parameters and 0-3 results over 12 kinds (so that the func0ret0..func2ret0 / callXretY specialisations and the generic paths are all hit), variadic functions incl. f(s...), f(g()) multi-value calls, named results with bare return, method values and expressions, function values as arguments, recursion deeper than the 32-frame pool, closures that escape through globals capturing params and locals, pointers to int-slot and boxed locals that escape, closures nested two levels mutating locals; after creating the escaping references each program runs hundreds of unrelated calls so frames are recycled, then uses every escaped closure and pointer; every program runs twice in the interpreter: normally and with every recycled frame poisoned (hook verifPoisonFreed) - both traces must equal compiled Go; distinct = distinct (program, mode) with events")
	r.Assume("go/types + cmd/compile 1.23.5 (language go1.18); poisoning is sound because every declaration re-initialises its slot, so correct code never reads a pooled frame")
	o := e1Opts{Findings: []e1Finding{{"C06-variadic-no-args-not-nil", "func §f(a int, vs ...int) { rec(1, a, vs == nil, vs) }\nfunc §P() { §f(1) }\n"}}}
	if p := fw.ReplayArg(); p != "" {
		e1ReplayFile(r, p, o)
		return
	}
	rng := r.Rng("progs")
	n := r.Pick(700, 6000)
	feat := map[string]int{}
	var progs []*Prog
	for i := 0; i < n; i++ {
		p := c06Prog(i, rng, feat)
		progs = append(progs, p)
		q := *p
		q.ID = p.ID + "-poison"
		q.Cell = "calls-poisoned"
		q.Mode = map[string]string{"poison": "1"}
		progs = append(progs, &q)
	}
	// sole argument that has a "comma, ok" form (repaired defect C06-sole-arg-commaok), seeded values
	for i := 0; i < r.Pick(12, 200); i++ {
		a, b := rng.Intn(100), rng.Intn(100)
		src := fmt.Sprintf("func §f(y int) int { return y + %d }\nfunc §g(s string) string { return s + \"!\" }\nfunc §P() {\nm := map[string]int{\"k\": %d}\nch := make(chan int, 2)\nch <- %d\nch <- %d\nvar e interface{} = %d\nvar es interface{} = \"s\"\nh := func(v int) int { return v * 2 }\nrec(1, §f(m[\"k\"]), §f(m[\"zz\"]), §f(<-ch), §f((<-ch)), §f(e.(int)), §g(es.(string)), h(m[\"k\"]), h(e.(int)))\n}\n", a, b, a, b, a+b)
		progs = append(progs, &Prog{ID: fmt.Sprintf("c06-solearg-%d", i), Src: src, Cell: "sole-argument-commaok-forms"})
	}
	r.Extra("features_generated", feat)
	e1Run(r, progs, o)
	// the pool must really have been exercised
	for _, k := range []string{"hook_FramesPooled", "hook_FramesReused", "hook_SkippedClosure", "hook_IntsDetached", "hook_ValsPoisoned"} {
		if r.Counter(k) == 0 {
			r.Inconclusive("hook counter " + k + " is zero: the frame pool was not exercised")
		}
	}
}
