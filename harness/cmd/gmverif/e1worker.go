package main

// interpreter-side worker: reads Prog JSON lines on stdin, runs each in a fresh fast.Interp,
// writes "START <id>" before and a Result JSON line after each program.

import (
	"sort"
	"runtime"
	"regexp"
	"bufio"
	"encoding/json"
	"fmt"
	"io"
	"os"
	"strconv"
	"strings"
	"sync"
	"time"

	"github.com/cosmos72/gomacro/base"
	"github.com/cosmos72/gomacro/fast"
	"github.com/cosmos72/gomacro/go/etoken"

	"gmverif/internal/tr"
)

func init() { auxCmds["e1worker"] = e1Worker }

func e1Worker(args []string) {
	in := bufio.NewReaderSize(os.Stdin, 1<<20)
	out := bufio.NewWriterSize(os.Stdout, 1<<16)
	dec := json.NewDecoder(in)
	for {
		var p Prog
		if err := dec.Decode(&p); err != nil {
			break
		}
		fmt.Fprintf(out, "START %s\n", p.ID)
		out.Flush()
		workerEmit = func(res *Result) {
			data, _ := json.Marshal(res)
			out.Write(data)
			out.WriteByte('\n')
			out.Flush()
		}
		res := runProgFast(&p)
		workerEmit(res)
	}
}

// workerEmit writes one result line; also used by the watchdog (the evaluating goroutine is blocked then).
var workerEmit = func(*Result) {}

var goroutineHeaderRe = regexp.MustCompile(`(?m)^goroutine (\d+) \[([^\],]+)`)

// quiescentDeadlock reports whether every goroutine but the caller is blocked in a channel, select or lock
// operation, twice one second apart with the same goroutines in the same states and no new trace event:
// no goroutine can ever run again (the generated programs use no timers longer than a few milliseconds).
func quiescentDeadlock(events func() int) (string, bool) {
	sample := func() (string, bool) {
		buf := make([]byte, 8<<20)
		buf = buf[:runtime.Stack(buf, true)]
		var keys []string
		for i, m := range goroutineHeaderRe.FindAllStringSubmatch(string(buf), -1) {
			state := m[2]
			if i == 0 && state == "running" {
				continue // the caller
			}
			blocked := false
			for _, b := range []string{"chan receive", "chan send", "select", "sync.Mutex.Lock", "sync.RWMutex", "sync.WaitGroup.Wait", "sync.Cond.Wait", "semacquire"} {
				if strings.HasPrefix(state, b) {
					blocked = true
				}
			}
			if !blocked {
				return "", false
			}
			keys = append(keys, m[1]+":"+state)
		}
		sort.Strings(keys)
		return strings.Join(keys, " "), true
	}
	n0 := events()
	a, ok := sample()
	if !ok {
		return "", false
	}
	time.Sleep(time.Second)
	b, ok := sample()
	if !ok || a != b || events() != n0 {
		return "", false
	}
	return "every goroutine is blocked for ever: " + a, true
}

func newQuietInterp() *fast.Interp {
	ir := fast.New()
	g := &ir.Comp.Globals
	g.Stdout = io.Discard
	g.Stderr = io.Discard
	return ir
}

// guard runs f and returns the recovered panic value (nil if none).
func guard(f func()) (rec interface{}, panicked bool) {
	if os.Getenv("GMVERIF_NOGUARD") != "" {
		f()
		return nil, false
	}
	defer func() {
		if r := recover(); r != nil {
			rec, panicked = r, true
		}
	}()
	f()
	return nil, false
}

func panicText(r interface{}) string {
	switch x := r.(type) {
	case error:
		return x.Error()
	case string:
		return x
	}
	return fmt.Sprintf("%v", r)
}

func runProgFast(p *Prog) *Result {
	res := &Result{ID: p.ID, End: "ret"}
	trace := &tr.Trace{}
	if p.Mode["poison"] == "1" {
		fast.VerifSetPoison(true)
	} else {
		fast.VerifSetPoison(false)
	}
	// like the gomacro command, enable generics "contracts are interfaces" unless told otherwise
	switch p.Mode["generics"] {
	case "none":
		etoken.GENERICS = etoken.GENERICS_NONE
	case "cxx":
		etoken.GENERICS = etoken.GENERICS_V1_CXX
	default:
		etoken.GENERICS = etoken.GENERICS_V2_CTI
	}
	ir := newQuietInterp()
	if o := p.Mode["options"]; o != "" {
		n, _ := strconv.ParseUint(o, 10, 64)
		ir.Comp.Globals.Options |= base.Options(n)
	}
	if o := p.Mode["options_clear"]; o != "" {
		n, _ := strconv.ParseUint(o, 10, 64)
		ir.Comp.Globals.Options &^= base.Options(n)
	}
	var tmu sync.Mutex // interpreted goroutines may call rec concurrently
	ir.DeclFunc("rec", func(tag int, v ...interface{}) { tmu.Lock(); trace.Rec(tag, v...); tmu.Unlock() })
	ir.DeclFunc("pcl", func(r interface{}) string { return tr.PanicClass(r) })
	ir.DeclFunc("hk", func() { tmu.Lock(); trace.Hooks++; tmu.Unlock() })
	ir.DeclFunc("nc", func(v interface{}) interface{} { return tr.NoCap{V: v} })
	ir.DeclFunc("par", parCall)
	if p.Mode["interop"] != "" {
		for name, f := range interopFuncs {
			ir.DeclFunc(name, f)
		}
	}
	if y := p.Mode["yield"]; y != "" {
		n, _ := strconv.ParseUint(y, 10, 64)
		fast.VerifSetYieldSeed(n)
		fast.VerifSetOwnership(true)
	}
	timedOut := false
	timer := time.AfterFunc(60*time.Second, func() {
		timedOut = true
		// a program blocked for ever in channel or lock operations cannot be interrupted: decide that on the
		// goroutine states (logical quiescence), report it as the program's end and leave the process
		if desc, dead := quiescentDeadlock(func() int { tmu.Lock(); defer tmu.Unlock(); return len(trace.Events) }); dead {
			tmu.Lock()
			res.Events = append([]string{}, trace.Events...)
			res.Hooks = trace.Hooks
			tmu.Unlock()
			res.End = "deadlock"
			res.Detail = desc
			workerEmit(res)
			os.Exit(0)
		}
		ir.Interrupt(os.Interrupt)
	})
	defer timer.Stop()
	before := fast.VerifCounters()
	finish := func() *Result {
		after := fast.VerifCounters()
		res.Extra = map[string]string{
			"FramesTaken":    strconv.FormatInt(after.FramesTaken-before.FramesTaken, 10),
			"FramesReused":   strconv.FormatInt(after.FramesReused-before.FramesReused, 10),
			"FramesPooled":   strconv.FormatInt(after.FramesPooled-before.FramesPooled, 10),
			"SkippedClosure": strconv.FormatInt(after.SkippedClosure-before.SkippedClosure, 10),
			"IntsDetached":   strconv.FormatInt(after.IntsDetached-before.IntsDetached, 10),
			"ValsPoisoned":   strconv.FormatInt(after.ValsPoisoned-before.ValsPoisoned, 10),
			"IntsPoisoned":   strconv.FormatInt(after.IntsPoisoned-before.IntsPoisoned, 10),
			"OwnerViolations": strconv.FormatInt(after.OwnerViolations-before.OwnerViolations, 10),
			"Yields":         strconv.FormatInt(after.Yields-before.Yields, 10),
		}
		if after.OwnerViolations != before.OwnerViolations {
			res.Extra["FirstOwnerViolation"] = fast.VerifFirstOwnerViolation()
		}
		res.Events = trace.Events
		res.Hooks = trace.Hooks
		if timedOut {
			res.End = "crash"
			res.Detail = "watchdog: program did not finish in 60 s (inconclusive)"
		}
		return res
	}
	var src strings.Builder
	for _, im := range p.Imports {
		fmt.Fprintf(&src, "import %q\n", im)
	}
	pieces := []string{}
	if len(p.Chunks) > 0 {
		pieces = append(pieces, src.String())
		for _, c := range p.Chunks {
			pieces = append(pieces, strings.ReplaceAll(c, "§", ""))
		}
	} else {
		src.WriteString(p.plainSrc())
		pieces = append(pieces, src.String())
	}
	for i, piece := range pieces {
		if strings.TrimSpace(piece) == "" {
			continue
		}
		var expr *fast.Expr
		if r, bad := guard(func() { expr = ir.Compile(piece) }); bad {
			res.End = "compile-error"
			res.CompileErr = fmt.Sprintf("chunk %d: %s", i, panicText(r))
			return finish()
		}
		if expr != nil {
			if r, bad := guard(func() { ir.RunExpr(expr) }); bad {
				res.End = "panic:" + tr.PanicClass(r)
				res.Detail = "during declarations: " + panicText(r)
				return finish()
			}
		}
	}
	steps := p.Steps
	if len(steps) == 0 {
		steps = []string{"P()"}
	}
	for i, st := range steps {
		st = strings.ReplaceAll(st, "§", "")
		var e *fast.Expr
		if r, bad := guard(func() { e = ir.Compile(st) }); bad {
			res.End = "compile-error"
			res.CompileErr = fmt.Sprintf("step %d: %s", i, panicText(r))
			return finish()
		}
		if e == nil {
			continue
		}
		if r, bad := guard(func() { ir.RunExpr(e) }); bad {
			res.End = "panic:" + tr.PanicClass(r)
			res.Detail = panicText(r)
			return finish()
		}
	}
	return finish()
}

// parCall invokes an interpreted callback from n foreign goroutines concurrently and returns the sum of its results.
func parCall(n int, f func(int) int) int {
	var wg sync.WaitGroup
	res := make([]int, n)
	start := make(chan struct{})
	for i := 0; i < n; i++ {
		wg.Add(1)
		go func(i int) {
			defer wg.Done()
			<-start
			res[i] = f(i)
		}(i)
	}
	close(start)
	wg.Wait()
	sum := 0
	for _, x := range res {
		sum += x
	}
	return sum
}
