package main

// C39 worker: runs gomacro's real command-line path in preprocessor mode (`gomacro -m -w file`)
// on generated source files, one fresh cmd.Cmd per file, and compares the structure of what was written.

import (
	"bufio"
	"bytes"
	"encoding/json"
	"fmt"
	"go/ast"
	"go/parser"
	"go/token"
	"io"
	"os"
	"path/filepath"

	"github.com/cosmos72/gomacro/ast2"
	"github.com/cosmos72/gomacro/cmd"
	"github.com/cosmos72/gomacro/fast"
)

type c39Job struct {
	Dir  string   `json:"dir"`
	File *c39File `json:"file"`
}

type c39Result struct {
	ID         string `json:"id"`
	MainErr    string `json:"main_err,omitempty"`    // error returned by / panic escaping from Cmd.Main
	Output     string `json:"output,omitempty"`      // what gomacro printed (stdout+stderr of its Globals)
	Written    bool   `json:"written"`               // the .go file exists
	Out        string `json:"out,omitempty"`         // its text
	ParseErr   string `json:"parse_err,omitempty"`   // go/parser error on the written file
	StructDiff string `json:"struct_diff,omitempty"` // "" = structurally equal
	ExpectErr  string `json:"expect_err,omitempty"`  // the harness could not compute the expected declarations (never a verdict)
	Exposed    bool   `json:"exposed"`               // the source has a composite literal of a type name in a control clause, protected by parentheses only
	RecvChan   bool   `json:"recv_chan"`             // the source has (<-chan T)(x) or chan (<-chan T)
	Decls      int    `json:"decls"`
}

func init() {
	auxCmds["c39run1"] = func(args []string) {
		// gmverif c39run1 file.gomacro : exactly what `gomacro -m -w -f file.gomacro` does
		c := cmd.New()
		err := c.Main(append([]string{"-m", "-w", "-f"}, args...))
		fmt.Fprintln(os.Stderr, "Main returned:", err)
	}
	auxCmds["c39worker"] = c39Worker
}

func c39Worker(args []string) {
	in := bufio.NewReaderSize(os.Stdin, 1<<20)
	out := bufio.NewWriterSize(os.Stdout, 1<<16)
	dec := json.NewDecoder(in)
	for {
		var job c39Job
		if err := dec.Decode(&job); err != nil {
			break
		}
		fmt.Fprintf(out, "START %s\n", job.File.ID)
		out.Flush()
		res := c39RunOne(&job)
		data, _ := json.Marshal(res)
		out.Write(data)
		out.WriteByte('\n')
		out.Flush()
	}
}

// c39Preprocess is the system under test: cmd.New().Main("-m", "-w", file).
func c39Preprocess(path string) (output string, mainErr string) {
	var buf bytes.Buffer
	c := cmd.New()
	g := &c.Interp.Comp.Globals
	g.Stdout = &buf
	g.Stderr = &buf
	func() {
		defer func() {
			if r := recover(); r != nil {
				mainErr = fmt.Sprintf("panic: %v", r)
			}
		}()
		if err := c.Main([]string{"-m", "-w", path}); err != nil {
			mainErr = err.Error()
		}
	}()
	return buf.String(), mainErr
}

func c39RunOne(job *c39Job) *c39Result {
	f := job.File
	res := &c39Result{ID: f.ID}
	os.MkdirAll(job.Dir, 0o755)
	src := filepath.Join(job.Dir, "prog.gomacro")
	outPath := filepath.Join(job.Dir, "prog.go")
	os.Remove(outPath)
	if err := os.WriteFile(src, []byte(f.Src), 0o644); err != nil {
		res.ExpectErr = err.Error()
		return res
	}
	res.Output, res.MainErr = c39Preprocess(src)
	data, err := os.ReadFile(outPath)
	if err != nil {
		return res
	}
	res.Written = true
	res.Out = string(data)

	// expected shape
	var want c39FileShape
	fset := token.NewFileSet()
	if len(f.Macros) == 0 {
		of, err := parser.ParseFile(fset, "src.go", f.Src, parser.SkipObjectResolution)
		if err != nil {
			res.ExpectErr = "generated source is not valid Go: " + err.Error()
			return res
		}
		res.Exposed = c39ExposedCompositeLit(of)
		res.RecvChan = c39ParenRecvChan(of)
		want = c39Shape(of)
	} else {
		w, err := c39ExpandIndependently(f)
		if err != nil {
			res.ExpectErr = "independent macroexpansion failed: " + err.Error()
			return res
		}
		want = w
		// the input shapes of the known finding, looked up in the equivalent plain Go text
		if rf, err := parser.ParseFile(fset, "ref.go", f.Ref, parser.SkipObjectResolution); err == nil {
			res.Exposed = c39ExposedCompositeLit(rf)
			res.RecvChan = c39ParenRecvChan(rf)
		}
	}
	res.Decls = len(want.Decls)
	wf, err := parser.ParseFile(fset, "prog.go", data, parser.SkipObjectResolution)
	if err != nil {
		res.ParseErr = err.Error()
		return res
	}
	res.StructDiff = c39CompareShapes(want, c39Shape(wf))
	return res
}

// c39ExpandIndependently: a second interpreter, in normal (evaluating) mode, defines the macros and
// applies Comp.Parse = parser + MacroExpandCodewalk to the source without its ':' chunks.
func c39ExpandIndependently(f *c39File) (sh c39FileShape, err error) {
	defer func() {
		if r := recover(); r != nil {
			err = fmt.Errorf("%v", r)
		}
	}()
	ir := fast.New()
	ir.Comp.Globals.Stdout = io.Discard
	ir.Comp.Globals.Stderr = io.Discard
	ir.Eval(`import "go/ast"`)
	for _, m := range f.Macros {
		ir.Eval(m)
	}
	form := ir.Comp.Parse(f.Plain)
	add := func(n ast.Node) {
		switch d := n.(type) {
		case *ast.GenDecl:
			switch d.Tok {
			case token.PACKAGE:
				if len(d.Specs) == 1 {
					if vs, ok := d.Specs[0].(*ast.ValueSpec); ok && len(vs.Names) == 1 {
						sh.Pkg = vs.Names[0].Name
					}
				}
			case token.IMPORT:
				for _, s := range d.Specs {
					is := s.(*ast.ImportSpec)
					name := ""
					if is.Name != nil {
						name = is.Name.Name + " "
					}
					sh.Imports = append(sh.Imports, name+is.Path.Value)
				}
			default:
				sh.Decls = append(sh.Decls, d)
			}
		case ast.Decl:
			sh.Decls = append(sh.Decls, d)
		default:
			panic(fmt.Sprintf("unexpected top-level node %T in the expansion", n))
		}
	}
	switch form := form.(type) {
	case ast2.AstWithSlice:
		for i := 0; i < form.Size(); i++ {
			add(ast2.ToNode(form.Get(i)))
		}
	case ast2.AstWithNode:
		add(form.Node())
	default:
		return sh, fmt.Errorf("unexpected expansion result %T", form)
	}
	return sh, nil
}
