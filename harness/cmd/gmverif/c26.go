package main

// C26 — the multiline reader (base.ReadMultiline + base.BufReadline) splits a stream of Go source
// losslessly, and only where a chunk may end.
//
// Real code under test: base.ReadMultiline driven exactly as fast.Interp.EvalReader (first call with
// ReadOptCollectAllComments, then Interp.Read's options) and fast.Interp.Repl (Interp.Read's options)
// drive it, through the real base.BufReadline (line by line) and through a Readline that hands out
// several lines per Read or the whole buffer at once.
//
// Oracles (all independent of base/read.go):
//   O1  concatenation of the returned chunks == input (a leading "#!" becomes "//")
//   O2  a tiny lexer replayed over the input: every chunk boundary is in normal mode (not inside a
//       string, raw string, rune or comment) at bracket depth 0
//   O3  when the Go standard parser accepts the input as a sequence of complete top-level
//       declarations / statements: go/scanner says a statement ended right before every chunk
//       boundary (last token is a ';', explicit or automatically inserted), and every chunk parses on
//       its own with gomacro's parser.

import (
	"bufio"
	"bytes"
	"fmt"
	goast "go/ast"
	goparser "go/parser"
	goscanner "go/scanner"
	gotoken "go/token"
	"io"
	"sort"
	"strings"
	"sync"

	"github.com/cosmos72/gomacro/base"
	etoken "github.com/cosmos72/gomacro/go/etoken"
	mp "github.com/cosmos72/gomacro/go/parser"

	"gmverif/internal/fw"
)

func init() { register("C26", "exploration", checkC26) }

// ---------------------------------------------------------------------------------------------
// one case = input + how it is delivered + which options the caller passes
// ---------------------------------------------------------------------------------------------

type c26Case struct {
	Label string `json:"label"` // template names or file path
	Input string `json:"input"`
	// Delivery: "bufreadline" (real base.BufReadline over a bufio.Reader: one line per Read),
	// "pieces" (own Readline: Cuts[i] is the end offset of the i-th piece; one piece == whole buffer is the "whole" delivery)
	Delivery string `json:"delivery"`
	Cuts     []int  `json:"cuts,omitempty"`
	EOFLast  bool   `json:"eof_with_last_piece,omitempty"` // last piece is returned together with io.EOF
	// Caller: "evalreader" = first call ReadOptCollectAllComments then 0; "repl" = 0; "repl-prompt" = ReadOptShowPrompt
	Caller string `json:"caller"`
}

type c26Chunk struct {
	Text       string `json:"text"`
	FirstToken int    `json:"first_token"`
	Err        string `json:"err,omitempty"`
}

type c26Feed struct {
	pieces  [][]byte
	eofLast bool
	i       int
	reads   int
}

func (f *c26Feed) Read(prompt string) ([]byte, error) {
	f.reads++
	if f.i >= len(f.pieces) {
		return nil, io.EOF
	}
	p := append([]byte(nil), f.pieces[f.i]...) // the reader rewrites "#!" in place: never hand out the input itself
	f.i++
	if f.eofLast && f.i == len(f.pieces) {
		return p, io.EOF
	}
	return p, nil
}

// c26Run drives the real reader over one case the way EvalReader / Repl do and returns the chunks.
func c26Run(c *c26Case) (chunks []c26Chunk, harnessErr string) {
	var in base.Readline
	maxCalls := strings.Count(c.Input, "\n") + 4
	switch c.Delivery {
	case "bufreadline":
		in = base.MakeBufReadline(bufio.NewReader(strings.NewReader(c.Input)))
	case "pieces":
		f := &c26Feed{eofLast: c.EOFLast}
		prev := 0
		for _, e := range c.Cuts {
			f.pieces = append(f.pieces, []byte(c.Input[prev:e]))
			prev = e
		}
		in = f
	default:
		return nil, "unknown delivery " + c.Delivery
	}
	for call := 0; ; call++ {
		if call > maxCalls {
			return chunks, "reader did not reach EOF"
		}
		var opts base.ReadOptions
		switch c.Caller {
		case "evalreader":
			if call == 0 {
				opts = base.ReadOptCollectAllComments
			}
		case "repl-prompt":
			opts = base.ReadOptShowPrompt
		}
		src, first, err := base.ReadMultiline(in, opts, "gomacro> ")
		ck := c26Chunk{Text: src, FirstToken: first}
		if err != nil {
			ck.Err = err.Error()
		}
		if err == io.EOF || err == io.ErrUnexpectedEOF {
			if len(src) != 0 {
				chunks = append(chunks, ck)
			}
			return chunks, ""
		}
		chunks = append(chunks, ck)
	}
}

// ---------------------------------------------------------------------------------------------
// oracle side 1: the tiny lexer
// ---------------------------------------------------------------------------------------------

const (
	c26Normal = iota
	c26String
	c26RawString
	c26Rune
	c26LineComment
	c26BlockComment
)

var c26ModeName = []string{"normal", "string", "raw string", "rune", "line comment", "block comment"}

type c26State struct {
	mode  int
	depth int
}

type c26Lex struct {
	at           map[int]c26State // state right after each '\n' and at len(src)
	negDepth     bool             // a closing bracket without an opening one
	brokenLit    bool             // newline inside "..." or '...': not Go
	ctrlInLit    bool             // a character < ' ' inside "..." or '...'
	strayHash    bool             // '#' in normal mode other than the leading "#!"
	tilde        bool             // '~' in normal mode: gomacro quoting syntax / Go 1.18 constraint, outside the property
	lineComments []int            // offsets where a line comment starts
	slashPairs   []int            // offsets of a division '/' directly followed by a bracket, quote or operator character
	ctrlOffsets  []int            // offsets of characters < ' ' inside "..." or '...'
	commentStars []int            // offsets of '*' characters inside /* */ comments (not the delimiters)
	final        c26State
	features     map[string]bool
}

func c26LexAll(src string, leading bool) *c26Lex {
	lx := &c26Lex{at: map[int]c26State{}, features: map[string]bool{}}
	mode, depth := c26Normal, 0
	n := len(src)
	for i := 0; i < n; i++ {
		c := src[i]
		switch mode {
		case c26Normal:
			switch c {
			case '"':
				mode = c26String
				lx.features["string"] = true
			case '`':
				mode = c26RawString
			case '\'':
				mode = c26Rune
				lx.features["rune"] = true
			case '/':
				if i+1 < n && src[i+1] == '/' {
					mode = c26LineComment
					lx.lineComments = append(lx.lineComments, i)
					lx.features["//"] = true
					i++
				} else if i+1 < n && src[i+1] == '*' {
					mode = c26BlockComment
					i++
				} else if i+1 < n && strings.IndexByte("([{)]}\"'`=+-!%&*,<>^|~#", src[i+1]) >= 0 {
					lx.slashPairs = append(lx.slashPairs, i)
				}
			case '#':
				if leading && i == 0 && n > 1 && src[1] == '!' {
					mode = c26LineComment
					lx.lineComments = append(lx.lineComments, i)
					lx.features["#!"] = true
					i++
				} else {
					lx.strayHash = true
				}
			case '~':
				lx.tilde = true
			case '(', '[', '{':
				depth++
			case ')', ']', '}':
				depth--
				if depth < 0 {
					lx.negDepth = true
				}
			}
		case c26String, c26Rune:
			q := byte('"')
			if mode == c26Rune {
				q = '\''
			}
			switch {
			case c == '\\':
				if i+1 < n {
					if src[i+1] == '\n' {
						lx.brokenLit = true
					} else {
						i++
					}
				}
			case c == q:
				mode = c26Normal
			case c == '\n':
				lx.brokenLit = true
				mode = c26Normal
			case c < ' ':
				lx.ctrlInLit = true
				lx.ctrlOffsets = append(lx.ctrlOffsets, i)
			}
		case c26RawString:
			if c == '`' {
				mode = c26Normal
			} else if c == '\n' {
				lx.features["raw string across lines"] = true
			}
		case c26LineComment:
			if c == '\n' {
				mode = c26Normal
			}
		case c26BlockComment:
			if c == '*' && i+1 < n && src[i+1] == '/' {
				mode = c26Normal
				i++
			} else if c == '*' {
				lx.commentStars = append(lx.commentStars, i)
			} else if c == '\n' {
				lx.features["/* */ across lines"] = true
			}
		}
		if src[i] == '\n' {
			lx.at[i+1] = c26State{mode, depth}
			if depth > 0 && mode == c26Normal {
				lx.features["bracket across lines"] = true
			}
		}
	}
	if mode == c26LineComment {
		mode = c26Normal
	}
	lx.final = c26State{mode, depth}
	lx.at[n] = lx.final
	return lx
}

// lexically usable: the property talks about Go source
func (lx *c26Lex) goSource() bool {
	return !lx.brokenLit && !lx.strayHash && !lx.tilde
}

// ---------------------------------------------------------------------------------------------
// oracle side 2: go/scanner + go/parser as the reference for "a statement ended here"
// ---------------------------------------------------------------------------------------------

type c26Tok struct {
	pos, end int
	tok      gotoken.Token
	auto     bool // automatically inserted semicolon
}

func c26Scan(src []byte) (toks []c26Tok, nerr int) {
	fset := gotoken.NewFileSet()
	f := fset.AddFile("", fset.Base(), len(src))
	var s goscanner.Scanner
	s.Init(f, src, func(gotoken.Position, string) { nerr++ }, 0)
	for {
		pos, tok, lit := s.Scan()
		if tok == gotoken.EOF {
			break
		}
		off := f.Offset(pos)
		t := c26Tok{pos: off, tok: tok}
		switch {
		case tok == gotoken.SEMICOLON:
			t.end = off + 1
			t.auto = lit == "\n"
			if off >= len(src) {
				t.end = off
			}
		case lit != "":
			t.end = off + len(lit)
		default:
			t.end = off + len(tok.String())
		}
		toks = append(toks, t)
	}
	return toks, nerr
}

// c26LastTok returns the last token starting before offset b (nil if none)
func c26LastTok(toks []c26Tok, b int) *c26Tok {
	i := sort.Search(len(toks), func(i int) bool { return toks[i].pos >= b })
	if i == 0 {
		return nil
	}
	return &toks[i-1]
}

// a chunk may end at b only if no statement is in progress there
func c26StatementEnded(toks []c26Tok, b int) (bool, string) {
	t := c26LastTok(toks, b)
	if t == nil {
		return true, "start"
	}
	if t.tok == gotoken.SEMICOLON && t.end <= b {
		return true, ";"
	}
	return false, t.tok.String()
}

// c26StdValid: does the Go standard parser accept the input as a sequence of complete top-level
// declarations (file body) or statements (function body)?
func c26StdValid(input string) (kind string, headers [][2]int) {
	fset := gotoken.NewFileSet()
	if _, err := goparser.ParseFile(fset, "", "package p\n"+input, goparser.SkipObjectResolution); err == nil {
		return "decls", nil
	}
	fset = gotoken.NewFileSet()
	const prefix = "package p\nfunc _() {\n"
	f, err := goparser.ParseFile(fset, "", prefix+input+"\n}\n", goparser.SkipObjectResolution)
	if err != nil {
		return "", nil
	}
	// headers of top-level if/for/switch statements: [keyword, '{') in input offsets
	off := func(p gotoken.Pos) int { return fset.Position(p).Offset - len(prefix) }
	var visit func(st goast.Stmt)
	visit = func(st goast.Stmt) {
		switch st := st.(type) {
		case *goast.LabeledStmt:
			visit(st.Stmt)
		case *goast.IfStmt:
			headers = append(headers, [2]int{off(st.Pos()), off(st.Body.Lbrace)})
			if st.Else != nil {
				visit(st.Else)
			}
		case *goast.ForStmt:
			headers = append(headers, [2]int{off(st.Pos()), off(st.Body.Lbrace)})
		case *goast.RangeStmt:
			headers = append(headers, [2]int{off(st.Pos()), off(st.Body.Lbrace)})
		case *goast.SwitchStmt:
			headers = append(headers, [2]int{off(st.Pos()), off(st.Body.Lbrace)})
		case *goast.TypeSwitchStmt:
			headers = append(headers, [2]int{off(st.Pos()), off(st.Body.Lbrace)})
		}
	}
	for _, d := range f.Decls {
		if fd, ok := d.(*goast.FuncDecl); ok && fd.Body != nil {
			for _, st := range fd.Body.List {
				visit(st)
			}
		}
	}
	return "stmts", headers
}

// ---------------------------------------------------------------------------------------------
// gomacro's parser on one chunk
// ---------------------------------------------------------------------------------------------

var c26ParseCache sync.Map // chunk text -> error string ("" = parses)

func c26ForkParse(src string, cache bool) (msg string) {
	if cache {
		if v, ok := c26ParseCache.Load(src); ok {
			return v.(string)
		}
		defer func() { c26ParseCache.Store(src, msg) }()
	}
	defer func() {
		if e := recover(); e != nil {
			msg = fmt.Sprintf("parser panic: %v", e)
		}
	}()
	var p mp.Parser
	p.Configure(0, '~')
	p.Init(etoken.NewFileSet(), "c26.go", 0, []byte(src))
	if _, err := p.Parse(); err != nil {
		return err.Error()
	}
	return ""
}

// ---------------------------------------------------------------------------------------------
// analysis of one input, shared by all deliveries of it
// ---------------------------------------------------------------------------------------------

type c26Input struct {
	label       string
	input       string
	expected    string // input with the leading "#!" turned into "//"
	lx          *c26Lex
	toks        []c26Tok
	scanErrs    int
	valid       string // "", "decls", "stmts": standard parser verdict
	forkOK      bool   // gomacro's parser accepts the whole input (else chunk parsing is not asserted)
	lineEnds    []int  // offsets right after each '\n', plus len(input) if the last line has no '\n'
	illegal     int    // number of inner line ends where a chunk must not end
	cacheOK     bool
	headerBreak bool // a newline-inserted ';' inside the header of a top-level if/for/switch
}

func c26Analyse(label, input string, cache bool) *c26Input {
	in := &c26Input{label: label, input: input, expected: input, cacheOK: cache}
	if strings.HasPrefix(input, "#!") {
		in.expected = "//" + input[2:]
	}
	in.lx = c26LexAll(input, true)
	for i := 0; i < len(input); i++ {
		if input[i] == '\n' {
			in.lineEnds = append(in.lineEnds, i+1)
		}
	}
	if len(input) > 0 && input[len(input)-1] != '\n' {
		in.lineEnds = append(in.lineEnds, len(input))
	}
	if in.lx.goSource() {
		in.toks, in.scanErrs = c26Scan([]byte(in.expected))
		if in.scanErrs == 0 && !in.lx.negDepth && in.lx.final == (c26State{c26Normal, 0}) {
			if strings.HasPrefix(label, "file:") {
				fset := gotoken.NewFileSet()
				if _, err := goparser.ParseFile(fset, "", in.expected, goparser.SkipObjectResolution); err == nil {
					in.valid = "decls"
				}
			} else {
				var headers [][2]int
				in.valid, headers = c26StdValid(in.expected)
				// "for i := 0\n i < 3\n i++ {" / "switch\nx = 1\n{": the ';' that a newline inserts inside the header of
				// a top-level if/for/switch cannot be told from a statement end line by line: such inputs are only
				// checked lexically
				for _, h := range headers {
					for _, e := range in.lineEnds {
						if e > h[0] && e <= h[1] {
							if st := in.lx.at[e]; st.mode == c26Normal && st.depth == 0 {
								if ok, _ := c26StatementEnded(in.toks, e); ok {
									in.valid, in.headerBreak = "", true
								}
							}
						}
					}
				}
			}
		}
	}
	if in.valid != "" {
		in.forkOK = c26ForkParse(in.expected, false) == ""
	}
	for _, e := range in.lineEnds {
		if e == len(input) {
			continue
		}
		if ok, _ := in.mayEndAt(e); !ok {
			in.illegal++
		}
	}
	return in
}

// a c26View judges chunk ends in input[base:]: the whole input, or - after the reader ended a chunk where it
// must not - the rest of the input seen afresh, as the reader itself sees it from there on
type c26View struct {
	base   int
	lx     *c26Lex
	toks   []c26Tok
	strong bool // go/scanner statement ends apply
}

func (in *c26Input) rootView() *c26View {
	return &c26View{0, in.lx, in.toks, in.valid != ""}
}

// restartView returns nil when nothing can be said about the rest
func (in *c26Input) restartView(off int) *c26View {
	rest := in.expected[off:]
	v := &c26View{base: off, lx: c26LexAll(rest, false), strong: in.valid != ""}
	if !v.lx.goSource() {
		return nil
	}
	if v.strong {
		var nerr int
		v.toks, nerr = c26Scan([]byte(rest))
		if nerr != 0 {
			return nil
		}
	}
	return v
}

func (v *c26View) mayEndAt(b int) (bool, string) {
	b -= v.base
	st, ok := v.lx.at[b]
	if !ok {
		return false, "not at a line end"
	}
	if st.mode != c26Normal {
		return false, "inside " + c26ModeName[st.mode]
	}
	if !v.lx.negDepth && st.depth != 0 {
		return false, fmt.Sprintf("inside %d unbalanced bracket(s)", st.depth)
	}
	if v.strong {
		if ok, after := c26StatementEnded(v.toks, b); !ok {
			return false, "statement continues after '" + after + "'"
		}
	}
	return true, ""
}

// mayEndAt: may a chunk end at offset b according to the oracles that apply to this input?
func (in *c26Input) mayEndAt(b int) (bool, string) {
	return in.rootView().mayEndAt(b)
}

type c26Problem struct {
	tag        string
	what       string
	start, end int           // byte range of the chunk concerned (boundary problems: the chunk that ends at the bad boundary)
	after      gotoken.Token // boundary-statement: the token the chunk ends after
}

// c26Check compares the chunks of one delivery with the oracles; ncmp = comparisons made
func (in *c26Input) check(c *c26Case, chunks []c26Chunk, harnessErr string) (ps []c26Problem, ncmp int) {
	if harnessErr != "" {
		return []c26Problem{{tag: "no-eof", what: harnessErr}}, 1
	}
	if in.lx.brokenLit {
		return nil, 0 // a newline inside "..." or '...': not Go source, nothing is specified
	}
	var sb strings.Builder
	for _, ck := range chunks {
		sb.WriteString(ck.Text)
	}
	got := sb.String()
	ncmp++
	if got != in.expected {
		i := 0
		for i < len(got) && i < len(in.expected) && got[i] == in.expected[i] {
			i++
		}
		ps = append(ps, c26Problem{tag: "concat", what: fmt.Sprintf("concatenation of %d chunks differs from the input at offset %d: got %q want %q",
			len(chunks), i, fw.Clip(got[i:], 60), fw.Clip(in.expected[i:], 60))})
		return ps, ncmp // offsets are meaningless from here on
	}
	if !in.lx.goSource() {
		return ps, ncmp
	}
	for _, ck := range chunks {
		if ck.Err != "" && ck.Err != io.EOF.Error() && ck.Err != io.ErrUnexpectedEOF.Error() {
			ps = append(ps, c26Problem{tag: "read-error", what: fmt.Sprintf("read error %q on lexically valid Go source, chunk %q", ck.Err, fw.Clip(ck.Text, 80))})
		}
	}
	off := 0
	bad := map[int]bool{} // offsets where a chunk ended although it must not
	view := in.rootView()
	for k, ck := range chunks {
		start := off
		off += len(ck.Text)
		if k == len(chunks)-1 && off == len(in.input) {
			break // end of input: not a decision of the reader
		}
		if view == nil {
			bad[off] = true // nothing can be said any more: do not judge the parse of these chunks either
			continue
		}
		ncmp++
		if ok, why := view.mayEndAt(off); !ok {
			p := c26Problem{tag: "boundary-lexical", start: start, end: off}
			if strings.HasPrefix(why, "statement") {
				p.tag = "boundary-statement"
				if t := c26LastTok(view.toks, off-view.base); t != nil {
					p.after = t.tok
				}
			}
			p.what = fmt.Sprintf("chunk %d ends at offset %d %s: chunk=%q next=%q", k, off, why, c26Tail(ck.Text, 120), fw.Clip(in.input[off:], 40))
			ps = append(ps, p)
			bad[off] = true
			// the reader starts afresh here: judge what follows the way it sees it, so that one bad cut is one problem
			view = in.restartView(off)
		}
	}
	if in.valid != "" && in.forkOK {
		// "each chunk ends at a statement boundary, so each chunk parses on its own":
		// asserted for the chunks that start and end where a chunk may; a chunk next to a bad boundary is already reported
		off = 0
		for k, ck := range chunks {
			start := off
			off += len(ck.Text)
			if bad[start] || bad[off] {
				continue
			}
			ncmp++
			if msg := c26ForkParse(ck.Text, in.cacheOK); msg != "" {
				ps = append(ps, c26Problem{tag: "chunk-parse", start: start, end: off, what: fmt.Sprintf("chunk %d of a valid %s sequence starts and ends at statement boundaries but does not parse on its own (%s): %q", k, in.valid, fw.Clip(msg, 100), fw.Clip(ck.Text, 120))})
			}
		}
	}
	return ps, ncmp
}

func c26Describe(c *c26Case, chunks []c26Chunk) string {
	var b bytes.Buffer
	fmt.Fprintf(&b, "%s/%s", c.Delivery, c.Caller)
	if c.Delivery == "pieces" {
		fmt.Fprintf(&b, " cuts=%v eofLast=%v", c.Cuts, c.EOFLast)
	}
	fmt.Fprintf(&b, " input=%q chunks=[", fw.Clip(c.Input, 300))
	for i, ck := range chunks {
		if i > 0 {
			b.WriteString(" | ")
		}
		fmt.Fprintf(&b, "%q", fw.Clip(ck.Text, 120))
	}
	b.WriteString("]")
	return b.String()
}

func c26Tail(s string, n int) string {
	if len(s) > n {
		return "..." + s[len(s)-n:]
	}
	return s
}
