package main

// The fixed battery of evaluations run after every aborted evaluation (C12 and C13).
// It only uses names starting with "b" (probes only write names starting with "p"/"P").
//
// Oracle: item by item, the rendered result in the interpreter that ran (and aborted) the probe equals
// the result in a reference interpreter that loaded the same definitions, never ran the probe, and ran
// the same battery the same number of times (battery items have state of their own: closure counters,
// a redefined function, package-level variables; the reference advances in lock-step).
// Want is the answer compiled Go gives for the item (computed by hand and cross-checked once against
// a compiled copy of the definitions with go 1.23: all 22 plain-Go items agree); it is checked on the
// REFERENCE interpreter only, to make sure the reference itself is sane ("%d" = battery run number j).

import (
	"fmt"
	"strings"

	"github.com/cosmos72/gomacro/base"
	"github.com/cosmos72/gomacro/fast"
)

const c12BatteryDefs = `
import ("sort"; "strings")

var bvNop int
func bNop() { bvNop++ }
func bDeferOrder() string {
	s := ""
	func() {
		defer func() { s += "a" }()
		defer func() { s += "b" }()
		defer func() { s += "c" }()
		s += "0"
	}()
	return s
}
func bRecover1() (r interface{}) {
	defer func() { r = recover() }()
	panic("p1")
}
func bInner() {
	defer func() { bNop() }()
	panic("p2")
}
func bRecover2() (out string) {
	defer func() {
		if r := recover(); r != nil {
			out = bs("got:", r)
		}
	}()
	bInner()
	return "no"
}
func bRecoverNoPanic() (r interface{}) {
	r = "unset"
	defer func() { r = recover() }()
	return "ret"
}
func bNewValue(v interface{}) (r interface{}) {
	defer func() { r = recover() }()
	panic(v)
}
func bNamed() (x int, s string) {
	defer func() { x *= 2; s += "!" }()
	x, s = 20, "ok"
	return x + 1, s
}
func bMakeCounter() func() int {
	c := 0
	return func() int { c++; return c }
}
var bNext = bMakeCounter()
var bNext2 = bMakeCounter()
func bMakeAcc() func(int) int {
	sum := 0
	return func(d int) int { sum += d; return sum }
}
var bAcc = bMakeAcc()
func bIndirectRecover() (r interface{}) {
	defer func() {
		func() { r = recover() }()
	}()
	panic("ind")
}
func bRepanic() (r interface{}) {
	defer func() { r = recover() }()
	func() {
		defer func() {
			if x := recover(); x != nil {
				panic(bs("re:", x))
			}
		}()
		panic("orig")
	}()
	return nil
}
func bPanicInDefer() (r interface{}) {
	defer func() { r = recover() }()
	func() {
		defer func() { panic("second") }()
		panic("first")
	}()
	return nil
}
func bDeferArgs() (s string) {
	x := 1
	defer func(v int) { s = bs(v, " ", x) }(x)
	x = 2
	return
}
func bLoopDefer() (s string) {
	for i := 0; i < 3; i++ {
		defer func(i int) { s += bs(i) }(i)
	}
	return ""
}
func bIdx(i int) int {
	a := []int{1, 2, 3}
	return a[i]
}
func bSort() []int {
	s := []int{5, 3, 8, 1, 2}
	sort.Slice(s, func(i, j int) bool { return s[i] < s[j] })
	return s
}
func bMap() string {
	return strings.Map(func(r rune) rune { return r - 32 }, "bcd")
}
func bRecoverTwice() (out string) {
	defer func() {
		a := recover()
		b := recover()
		out = bs(a, "|", b)
	}()
	panic("v")
}
func bCallee(log *string) {
	defer func() { *log += "callee-defer;" }()
	panic("deep")
}
func bNestedDepth() (out string) {
	defer func() {
		out += bs("got:", recover())
	}()
	bCallee(&out)
	return
}
func bRecAfterCall() (r interface{}) {
	defer func() { bNop(); r = recover() }()
	panic("v")
}
func bHelperWithDefer() {
	defer func() { bNop() }()
	bNop()
}
func bRecAfterNestedDefer() (r interface{}) {
	defer func() { bHelperWithDefer(); r = recover() }()
	panic("w")
}
type bT struct{ n int }
func (t *bT) Bump() (res int) {
	defer func() { t.n++; res = t.n * 10 }()
	return t.n
}
var bObj = &bT{}
var bvInt int
var bvStr string
func bRedef() int { return -1 }
`

// compiled with OptDebugger set, so that single-stepping reaches the debugger
const c12BatteryDbgDefs = `
func bDbg(a int) int { x := a; x++; x += a - 1; return x }
func bDbgCall(a int) int { y := bDbg(a); return y + 1 }
func bBrk() int { x := 3; "break"; x += 4; return x }
`

type c12Item struct {
	Name string
	Kind string // eval | nostep | step | direct
	Src  string // "%d" is replaced by the battery run number j (1, 2, ...)
	Want string // Go's answer ("%d" = j, "%d3" = 3*j); "" = not checked; "~x" = must contain x
}

var c12Battery = []c12Item{
	// the first five items run first after every aborted evaluation, in this order: each looks at state that any
	// later item would repair as a side effect (a recover() that consumes the panic, RunExpr resetting the call stack)
	{"direct-call-depth", "direct", "bBrk", "7 stops=[B d1 c0]"},
	{"toplevel-defer-recover", "eval", `defer func() { bvStr = bs("r", recover()) }()`, ""},
	{"toplevel-defer-recovered-value", "eval", `bvStr`, "r<nil>"},
	{"recover-no-panic", "eval", `bRecoverNoPanic()`, "<nil>"},
	{"toplevel-recover", "eval", `recover()`, "<nil>"},
	// the remaining items run in an order rotated by the injection point k (the reference uses the same order)
	{"defer-order", "eval", `bDeferOrder()`, "0cba"},
	{"recover-depth1", "eval", `bRecover1()`, "p1"},
	{"recover-depth2", "eval", `bRecover2()`, "got:p2"},
	{"fresh-panic-new-value", "eval", `bNewValue(%d)`, "%d"},
	{"named-results", "eval", `bNamed()`, "42,ok!"},
	{"closure-counter", "eval", `bNext()`, "%d"},
	{"closure-acc", "eval", `bAcc(3)`, "%d3"},
	{"nested-eval", "eval", `Eval(~quote{bNext2() + 100})`, "%d100"},
	{"indirect-recover-escapes", "eval", `bIndirectRecover()`, "panic:ind"},
	{"repanic", "eval", `bRepanic()`, "re:orig"},
	{"panic-in-defer", "eval", `bPanicInDefer()`, "second"},
	{"defer-args", "eval", `bDeferArgs()`, "1 2"},
	{"loop-defer", "eval", `bLoopDefer()`, "210"},
	{"toplevel-panic", "eval", `panic("top%d")`, "panic:top%d"},
	{"runtime-error", "eval", `bIdx(5)`, "~index out of range"},
	{"sort-callback", "eval", `bSort()`, "[1 2 3 5 8]"},
	{"map-callback", "eval", `bMap()`, "BCD"},
	{"recover-twice", "eval", `bRecoverTwice()`, "v|<nil>"},
	{"recover-after-callee-defers", "eval", `bNestedDepth()`, "callee-defer;got:deep"},
	{"recover-after-call-in-defer", "eval", `bRecAfterCall()`, "v"},
	{"method-defer", "eval", `bObj.Bump()`, "%d10"},
	{"redefine-func", "eval", `func bRedef() int { return %d }`, ""},
	{"call-redefined", "eval", `bRedef()`, "%d"},
	{"no-single-step", "nostep", `bDbgCall(3)`, "7 stops=[]"},
	{"single-step-depth", "step", `bDbgCall(4)`, "~A d1 c1"},
	{"recover-after-nested-defer", "eval", `bRecAfterNestedDefer()`, "w"},
	{"toplevel-var", "eval", `bvInt += 2; bvInt`, "%d2"},
	{"toplevel-block", "eval", `{ x := %d; bvStr = bs("s", x) }; bvStr`, "s%d"},
}

func c12Want(want string, j int) string {
	want = strings.ReplaceAll(want, "%d100", fmt.Sprint(j+100))
	want = strings.ReplaceAll(want, "%d10", fmt.Sprint(j*10))
	want = strings.ReplaceAll(want, "%d3", fmt.Sprint(j*3))
	want = strings.ReplaceAll(want, "%d2", fmt.Sprint(j*2))
	return strings.ReplaceAll(want, "%d", fmt.Sprint(j))
}

// c12Recorder is the recording fast.Debugger of the battery.
type c12Recorder struct {
	log   []string
	steps int
}

func c12Chain(env *fast.Env) int {
	n := 0
	for e := env; e != nil && n < 1000; {
		for e != nil && e.Caller == nil {
			e = e.Outer
		}
		if e == nil {
			break
		}
		n++
		e = e.Caller
	}
	return n
}

func (d *c12Recorder) Breakpoint(ir *fast.Interp, env *fast.Env) fast.DebugOp {
	d.log = append(d.log, fmt.Sprintf("B d%d c%d", env.CallDepth, c12Chain(env)))
	return fast.DebugOpContinue
}

func (d *c12Recorder) At(ir *fast.Interp, env *fast.Env) fast.DebugOp {
	if len(d.log) < 64 {
		d.log = append(d.log, fmt.Sprintf("A d%d c%d", env.CallDepth, c12Chain(env)))
	}
	d.steps++
	return fast.DebugOpStep
}

func c12Render(v interface{}) string {
	switch x := v.(type) {
	case error:
		return x.Error()
	case base.Signal:
		return "signal(" + x.String() + ")"
	}
	return fmt.Sprintf("%v", v)
}

// c12RunItem evaluates one battery item and renders what happened.
func (s *c12Session) runItem(it *c12Item, j int) (out string) {
	src := strings.ReplaceAll(it.Src, "%d", fmt.Sprint(j))
	g := &s.ir.Comp.Globals
	rec := &c12Recorder{}
	saveOpts := g.Options
	defer func() {
		g.Options = saveOpts
		s.ir.SetDebugger(s.dbg)
		if r := recover(); r != nil {
			out = "panic:" + c12Render(r)
			if it.Kind != "eval" {
				out += fmt.Sprintf(" stops=%v", rec.log)
			}
		}
	}()
	render := func(vs []interface{}) string {
		parts := make([]string, len(vs))
		for i, v := range vs {
			parts[i] = c12Render(v)
		}
		return strings.Join(parts, ",")
	}
	switch it.Kind {
	case "eval":
		vals, _ := s.ir.Eval(src)
		vs := make([]interface{}, len(vals))
		for i, v := range vals {
			if v.IsValid() && v.CanInterface() {
				vs[i] = v.Interface()
			} else {
				vs[i] = "<invalid>"
			}
		}
		return render(vs)
	case "nostep", "step":
		g.Options |= base.OptDebugger
		s.ir.SetDebugger(rec)
		var v interface{}
		if it.Kind == "step" {
			val, _ := s.ir.DebugExpr1(s.ir.Compile(src))
			v = val.Interface()
		} else {
			val, _ := s.ir.Eval1(src)
			v = val.Interface()
		}
		return fmt.Sprintf("%v stops=%v", v, rec.log)
	case "direct":
		// call an interpreted function value straight from compiled code, outside any Eval
		s.ir.SetDebugger(rec)
		f := s.ir.ValueOf(src).Interface().(func() int)
		v := f()
		return fmt.Sprintf("%v stops=%v", v, rec.log)
	}
	return "?"
}
