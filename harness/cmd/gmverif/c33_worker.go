package main

// C33 child process (built with -race by the driver): `gmverif-race c33worker <part> <seed> <tier> <gomaxprocs> [only]`
// part a: gls.GoID stress; part b: interpreted closures on many goroutines with ownership assertions;
// part c: registry protocol histories checked with porcupine (c33_lin.go).
// Prints exactly one JSON document (c33Result) on stdout.

import (
	"encoding/json"
	"fmt"
	"math/rand"
	"os"
	"runtime"
	"runtime/pprof"
	"sort"
	"strconv"
	"sync"
	"sync/atomic"
	"syscall"
	"time"

	"github.com/cosmos72/gomacro/fast"
	"github.com/cosmos72/gomacro/gls"
)

func init() { auxCmds["c33worker"] = c33Worker }

type c33Viol struct {
	Tag    string      `json:"tag"`
	What   string      `json:"what"`
	Replay interface{} `json:"replay"`
}

type c33Result struct {
	Part         string                      `json:"part"`
	Procs        int                         `json:"procs"`
	Seed         int64                       `json:"seed"`
	Race         bool                        `json:"race_build"`
	Evals        int64                       `json:"evals"`
	Distinct     []string                    `json:"distinct"`
	Counters     map[string]int64            `json:"counters"`
	Cover        map[string]map[string]int64 `json:"cover"`
	Violations   []c33Viol                   `json:"violations"`
	Inconclusive []string                    `json:"inconclusive"`
	Samples      []interface{}               `json:"samples"`

	mu sync.Mutex
}

// c33Replay identifies one case: a child configuration plus (optionally) one wave / history.
type c33Replay struct {
	Part  string `json:"part"`
	Procs int    `json:"procs"`
	Seed  int64  `json:"seed"`
	Tier  string `json:"tier"`
	Only  int    `json:"only"` // wave / history index, -1 = all
	// part c: the recorded history (re-checked as recorded on replay)
	History []c33Op `json:"history,omitempty"`
	Detail  string  `json:"detail,omitempty"`
}

func (res *c33Result) count(name string, n int64) {
	res.mu.Lock()
	res.Counters[name] += n
	res.mu.Unlock()
}

func (res *c33Result) cover(dim, cell string) {
	res.mu.Lock()
	m := res.Cover[dim]
	if m == nil {
		m = map[string]int64{}
		res.Cover[dim] = m
	}
	m[cell]++
	res.mu.Unlock()
}

func (res *c33Result) violation(tag, what string, replay c33Replay) {
	res.mu.Lock()
	if len(res.Violations) < 12 {
		res.Violations = append(res.Violations, c33Viol{tag, what, replay})
	}
	res.Counters["violations_total"]++
	res.mu.Unlock()
}

func (res *c33Result) inconclusive(why string) {
	res.mu.Lock()
	if len(res.Inconclusive) < 8 {
		res.Inconclusive = append(res.Inconclusive, why)
	}
	res.mu.Unlock()
}

func (res *c33Result) distinct(key string) {
	res.mu.Lock()
	res.Distinct = append(res.Distinct, key)
	res.mu.Unlock()
}

func (res *c33Result) sample(v interface{}) {
	res.mu.Lock()
	if len(res.Samples) < 2 {
		res.Samples = append(res.Samples, v)
	}
	res.mu.Unlock()
}

func c33Worker(args []string) {
	if len(args) < 4 {
		fmt.Fprintln(os.Stderr, "usage: c33worker <a|b|c> <seed> <quick|thorough> <gomaxprocs> [only]")
		os.Exit(2)
	}
	part := args[0]
	seed, _ := strconv.ParseInt(args[1], 10, 64)
	tier := args[2]
	procs, _ := strconv.Atoi(args[3])
	only := -1
	if len(args) > 4 {
		only, _ = strconv.Atoi(args[4])
	}
	if procs > 0 {
		runtime.GOMAXPROCS(procs)
	}
	if pf := os.Getenv("C33_PROF"); pf != "" {
		if f, err := os.Create(pf); err == nil {
			pprof.StartCPUProfile(f)
			defer pprof.StopCPUProfile()
		}
	}
	res := &c33Result{Part: part, Procs: procs, Seed: seed, Race: c33RaceEnabled,
		Counters: map[string]int64{}, Cover: map[string]map[string]int64{}}
	rng := rand.New(rand.NewSource(seed*1000003 + int64(procs)*101 + int64(part[0])))
	cfg := c33Replay{Part: part, Procs: procs, Seed: seed, Tier: tier, Only: -1}
	func() {
		defer func() {
			if e := recover(); e != nil {
				buf := make([]byte, 4096)
				buf = buf[:runtime.Stack(buf, false)]
				res.inconclusive(fmt.Sprintf("worker panic (part %s): %v\n%s", part, e, buf))
			}
		}()
		switch part {
		case "a":
			c33PartA(res, rng, tier, cfg)
		case "b":
			c33PartB(res, rng, tier, cfg, only)
		case "c":
			c33PartC(res, rng, tier, cfg, only)
		case "d":
			c33PartD(res, cfg)
		default:
			res.inconclusive("unknown part " + part)
		}
	}()
	sort.Strings(res.Distinct)
	data, err := json.Marshal(res)
	if err != nil {
		fmt.Fprintln(os.Stderr, "marshal:", err)
		os.Exit(2)
	}
	os.Stdout.Write(data)
	os.Stdout.Write([]byte("\n"))
}

// ---------------------------------------------------------------- part a: gls.GoID

//go:noinline
func c33Deep(n int, want uintptr, bad *int32) uintptr {
	var pad [96]byte // force stack growth: ~150 bytes a frame
	pad[n&63] = byte(n)
	if n == 0 {
		id := gls.GoID()
		if id != want {
			atomic.AddInt32(bad, 1)
		}
		return id + uintptr(pad[0])
	}
	r := c33Deep(n-1, want, bad)
	if n&255 == 0 && gls.GoID() != want {
		atomic.AddInt32(bad, 1)
	}
	return r + uintptr(pad[n&63]) - uintptr(byte(n))
}

func c33PartA(res *c33Result, rng *rand.Rand, tier string, cfg c33Replay) {
	total := 4000
	if tier == "thorough" {
		total = 40000
	}
	var (
		mu       sync.Mutex
		live     = map[uintptr]int{}
		ever     = map[uintptr]int{}
		reuses   int64
		maxLive  int
		devnull  int
		haveNull bool
	)
	if fd, err := syscall.Open("/dev/null", syscall.O_WRONLY, 0); err == nil {
		devnull, haveNull = fd, true
		defer syscall.Close(fd)
	}
	launched := 0
	wave := 0
	for launched < total {
		n := 50 + rng.Intn(700)
		if launched+n > total {
			n = total - launched
		}
		depths := make([]int, n)
		flavour := make([]int, n)
		for i := range depths {
			depths[i] = 64 + rng.Intn(1500)
			flavour[i] = rng.Intn(8)
		}
		var wg sync.WaitGroup
		ping := make(chan int)
		// half of the goroutines of a wave block on an unbuffered channel served by the other half
		for i := 0; i < n; i++ {
			wg.Add(1)
			go func(idx int) {
				defer wg.Done()
				id0 := gls.GoID()
				reads := 1
				mu.Lock()
				if other, present := live[id0]; present {
					mu.Unlock()
					res.violation("goid-shared", fmt.Sprintf("gls.GoID()=%#x returned in goroutine %d/%d of wave %d is already the identity of live goroutine #%d", id0, idx, n, wave, other), cfg)
					return
				}
				live[id0] = launched + idx
				if len(live) > maxLive {
					maxLive = len(live)
				}
				if ever[id0] > 0 {
					reuses++
				}
				ever[id0]++
				mu.Unlock()
				check := func(where string) bool {
					reads++
					if id := gls.GoID(); id != id0 {
						res.violation("goid-changed", fmt.Sprintf("gls.GoID() changed within one goroutine from %#x to %#x after %s (wave %d goroutine %d)", id0, id, where, wave, idx), cfg)
						return false
					}
					return true
				}
				ok := true
				runtime.Gosched()
				ok = ok && check("Gosched")
				// channel blocking: even indexes send, odd receive (n is made even below for pairing)
				if idx&1 == 0 {
					if idx+1 < n {
						ping <- idx
					}
				} else {
					<-ping
				}
				ok = ok && check("channel")
				if haveNull {
					syscall.Write(devnull, []byte{byte(idx)})
				}
				syscall.Getpid()
				ok = ok && check("syscall")
				if flavour[idx] == 0 {
					time.Sleep(time.Duration(50+idx%200) * time.Microsecond) // parks the goroutine; it may resume on another M/P
					ok = ok && check("sleep")
				}
				if flavour[idx] == 1 {
					runtime.LockOSThread()
					runtime.Gosched()
					ok = ok && check("LockOSThread")
					runtime.UnlockOSThread()
				}
				var bad int32
				c33Deep(depths[idx], id0, &bad)
				reads += 1 + depths[idx]/256
				if bad != 0 {
					res.violation("goid-changed", fmt.Sprintf("gls.GoID() differed from %#x %d time(s) inside a recursion of depth %d (stack growth)", id0, bad, depths[idx]), cfg)
					ok = false
				}
				ok = ok && check("recursion")
				mu.Lock()
				delete(live, id0)
				mu.Unlock()
				atomic.AddInt64(&res.Evals, 1)
				res.count("a_identity_reads", int64(reads))
				_ = ok
			}(i)
		}
		wg.Wait()
		launched += n
		wave++
	}
	res.count("a_goroutines", int64(launched))
	res.count("a_waves", int64(wave))
	res.count("a_identity_reuses", reuses)
	res.count("a_distinct_identities", int64(len(ever)))
	if int64(maxLive) > res.Counters["a_max_live"] {
		res.Counters["a_max_live"] = int64(maxLive)
	}
	// distinct non-trivial cases: every (identity, generation) pair = one goroutine life observed on that identity
	for id, gens := range ever {
		for g := 0; g < gens; g++ {
			res.distinct(fmt.Sprintf("a/%d/%x/%d", cfg.Procs, id, g))
		}
	}
	if len(live) != 0 {
		res.inconclusive(fmt.Sprintf("part a: %d goroutines did not unregister (harness problem)", len(live)))
	}
	res.cover("part", "a")
}

// ---------------------------------------------------------------- part b: interpreted closures on many goroutines

const c33Prog = `
func mkwork(base int) func(int, int) int {
	var rec func(int) int
	rec = func(n int) int {
		if n <= 0 {
			return base
		}
		x := n*3 + base
		var s string = "k"
		{
			y := x + n
			if n&7 == 3 {
				yield()
			}
			x = y - n
			s = s + "v"
		}
		r := rec(n - 1)
		if len(s) != 2 {
			return -1
		}
		return r + x - n*2 - base
	}
	return func(id int, depth int) int {
		probe(0, id)
		a := rec(depth)
		b := rec(depth)
		probe(1, id)
		if a != b {
			return -2
		}
		return a + id
	}
}

var work = mkwork(7)

func spawn(kind int, first int, n int, depth int) {
	for i := 0; i < n; i++ {
		go func(id int) {
			report(kind, id, work(id, depth))
		}(first + i)
	}
}

func spawnNested(first int, n int, m int, depth int) {
	for i := 0; i < n; i++ {
		go func(id int) {
			probe(2, id)
			ch := make(chan int, m)
			for j := 0; j < m; j++ {
				go func(gid int) {
					v := work(gid, depth)
					report(4, gid, v)
					ch <- v
				}(first + n + (id-first)*m + j)
			}
			v := work(id, depth)
			for j := 0; j < m; j++ {
				<-ch
			}
			settle()
			probe(3, id)
			report(3, id, v)
		}(first + i)
	}
}

func spawnCallback(first int, n int, depth int) {
	for i := 0; i < n; i++ {
		go func(id int) {
			report(6, id, callback(func(x int) int { return work(x, depth) }, id))
		}(first + i)
	}
}
`

var c33KindNames = []string{"igo_from_owner", "foreign_direct", "igo_from_foreign", "igo_nested_parent", "igo_nested_child", "owner_direct", "callback_on_foreign_server"}

type c33Task struct {
	kind     int
	depth    int
	got      int
	reported int32
	goid0    uintptr
	run0     *fast.Run
	inst     int
}

type c33bState struct {
	res   *c33Result
	cfg   c33Replay
	ir    *fast.Interp
	tasks []c33Task

	mu       sync.Mutex
	live     map[uintptr]int // goid -> task id currently between probe(0) and probe(1)
	foreign  map[uintptr]int // goid -> instance number of a live harness goroutine (or the owner)
	lastInst map[uintptr]int // goid -> last instance seen
	lastIgo  map[uintptr]bool
	nextInst int
	reuses   int64
	wg       sync.WaitGroup
	reqs     chan c33Req
	parents  map[int][2]interface{}
}

type c33Req struct {
	f     func(int) int
	x     int
	reply chan int
}

func c33Expected(id, depth int) int { return id + depth*(depth+1)/2 + 7 }

func (st *c33bState) probe(phase, id int) {
	goid := gls.GoID()
	g := c33IrGlobals(st.ir)
	rec := g.VerifGlsGet(goid)
	if id < 0 || id >= len(st.tasks) {
		st.res.inconclusive(fmt.Sprintf("probe: task id %d out of range", id))
		return
	}
	t := &st.tasks[id]
	where := fmt.Sprintf("task %d (%s, depth %d) on goroutine %#x", id, c33KindNames[t.kind], t.depth, goid)
	if rec == nil {
		st.res.violation("registry-missing", "no registry record for the current goroutine while it runs interpreted code: "+where+fmt.Sprintf(" phase %d", phase), st.cfg)
		return
	}
	if rec.VerifGoid() != goid {
		st.res.violation("registry-wrong-owner", fmt.Sprintf("registry record found under identity %#x is owned by %#x: %s", goid, rec.VerifGoid(), where), st.cfg)
		return
	}
	switch phase {
	case 0:
		st.mu.Lock()
		if other, present := st.live[goid]; present {
			st.mu.Unlock()
			st.res.violation("goid-shared", fmt.Sprintf("%s: identity already in use by live task %d", where, other), st.cfg)
			return
		}
		st.live[goid] = id
		inst, isForeign := st.foreign[goid]
		if !isForeign {
			st.nextInst++
			inst = st.nextInst
		}
		if last, seen := st.lastInst[goid]; seen && last != inst {
			st.reuses++
		}
		st.lastInst[goid] = inst
		st.lastIgo[goid] = !isForeign
		st.mu.Unlock()
		t.goid0, t.run0, t.inst = goid, rec, inst
	case 1:
		st.mu.Lock()
		delete(st.live, goid)
		st.mu.Unlock()
		if t.goid0 != goid {
			st.res.violation("goid-changed", fmt.Sprintf("%s: identity was %#x at entry", where, t.goid0), st.cfg)
		} else if t.run0 != rec {
			st.res.violation("registry-record-changed", fmt.Sprintf("%s: registry record of the goroutine changed from %p to %p while it was running", where, t.run0, rec), st.cfg)
		}
	case 2:
		st.mu.Lock()
		st.parents[id] = [2]interface{}{goid, rec}
		st.mu.Unlock()
	case 3:
		st.mu.Lock()
		p := st.parents[id]
		st.mu.Unlock()
		if p[0] != interface{}(goid) {
			st.res.violation("goid-changed", fmt.Sprintf("%s: identity of nested parent was %#x at entry", where, p[0]), st.cfg)
		} else if p[1] != interface{}(rec) {
			st.res.violation("registry-record-changed", fmt.Sprintf("%s: registry record of a goroutine changed from %p to %p after its child goroutines exited", where, p[1], rec), st.cfg)
		}
	}
}

func (st *c33bState) report(kind, id, val int) {
	if id < 0 || id >= len(st.tasks) {
		st.res.inconclusive(fmt.Sprintf("report: task id %d out of range", id))
		return
	}
	t := &st.tasks[id]
	if atomic.AddInt32(&t.reported, 1) != 1 {
		st.res.inconclusive(fmt.Sprintf("task %d reported twice", id))
		return
	}
	t.got = val
	if kind != t.kind {
		t.got = -1000 - kind
	}
	st.wg.Done()
}

// c33WaitGoroutines waits until the goroutine count is back to base (all interpreted goroutines have
// run their deferred unregister and exited). Returns false if that does not happen (=> inconclusive).
func c33WaitGoroutines(base int) bool {
	for i := 0; i < 20000; i++ {
		if runtime.NumGoroutine() <= base {
			return true
		}
		if i < 100 {
			runtime.Gosched()
		} else {
			time.Sleep(time.Millisecond)
		}
	}
	return false
}

func c33WaitTimeout(wg *sync.WaitGroup, d time.Duration) bool {
	done := make(chan struct{})
	go func() { wg.Wait(); close(done) }()
	select {
	case <-done:
		return true
	case <-time.After(d):
		return false
	}
}

var c33BaseGoroutines int

func c33PartB(res *c33Result, rng *rand.Rand, tier string, cfg c33Replay, only int) {
	waves := 3
	if tier == "thorough" {
		waves = 20
	}
	fast.VerifSetOwnership(true)
	c33BaseGoroutines = runtime.NumGoroutine() // only the goroutines that live as long as the process
	for w := 0; w < waves; w++ {
		// draw the parameters of every wave even when only one is replayed
		wrng := rand.New(rand.NewSource(rng.Int63()))
		if only >= 0 && only != w {
			continue
		}
		wcfg := cfg
		wcfg.Only = w
		c33WaveB(res, wrng, wcfg)
	}
	res.cover("part", "b")
}

func c33WaveB(res *c33Result, rng *rand.Rand, cfg c33Replay) {
	yseed := uint64(rng.Int63()) | 1
	fast.VerifSetYieldSeed(yseed)
	defer fast.VerifSetYieldSeed(0)
	before := fast.VerifCounters()
	t0 := time.Now()
	ir := newQuietInterp() // interpreters are created one at a time, by this goroutine (the owner)
	st := &c33bState{res: res, cfg: cfg, ir: ir, live: map[uintptr]int{}, foreign: map[uintptr]int{},
		lastInst: map[uintptr]int{}, lastIgo: map[uintptr]bool{}, parents: map[int][2]interface{}{}}
	ownerGoid := gls.GoID()
	st.foreign[ownerGoid] = 0
	ir.DeclFunc("yield", func() { runtime.Gosched() })
	ir.DeclFunc("settle", func() {
		for i := 0; i < 20; i++ {
			runtime.Gosched()
		}
	})
	ir.DeclFunc("probe", st.probe)
	ir.DeclFunc("report", st.report)
	ir.DeclFunc("callback", func(f func(int) int, x int) int {
		rq := c33Req{f, x, make(chan int, 1)}
		st.reqs <- rq
		return <-rq.reply
	})
	ir.Eval(c33Prog)
	fn := func(name string) interface{} {
		v, _ := ir.Eval1(name)
		return v.ReflectValue().Interface()
	}
	work := fn("work").(func(int, int) int)
	spawn := fn("spawn").(func(int, int, int, int))
	spawnNested := fn("spawnNested").(func(int, int, int, int))
	spawnCallback := fn("spawnCallback").(func(int, int, int))
	g := c33IrGlobals(ir)
	res.count("b_ms_setup", time.Since(t0).Milliseconds())

	// Warm-up, strictly sequential: every call site of the program is executed once before two goroutines can
	// reach it together. gomacro's call sites of global functions keep an unsynchronised per-site cache
	// (fast/call*ret*.go cachedfunv/cachedfun) whose first concurrent use is a data race; that cache is neither a
	// runtime record nor a frame, so it belongs to C10 ("no data race between goroutines"), not to this property.
	{
		const wd = 33
		st.tasks = []c33Task{{kind: 5, depth: wd}, {kind: 0, depth: wd}, {kind: 3, depth: wd}, {kind: 4, depth: wd}, {kind: 6, depth: wd}}
		st.reqs = make(chan c33Req)
		srvDone := make(chan struct{})
		go func() {
			defer close(srvDone)
			id := gls.GoID()
			st.mu.Lock()
			st.nextInst++
			st.foreign[id] = st.nextInst
			st.lastInst[id] = st.nextInst
			st.lastIgo[id] = false
			st.mu.Unlock()
			for rq := range st.reqs {
				rq.reply <- rq.f(rq.x)
			}
			st.mu.Lock()
			delete(st.foreign, id)
			st.mu.Unlock()
		}()
		base := c33BaseGoroutines + 1 // + the server goroutine
		ok := true
		step := func(n int, f func()) {
			if !ok {
				return
			}
			st.wg.Add(n)
			f()
			if !c33WaitTimeout(&st.wg, 5*time.Minute) {
				ok = false
				return
			}
			ok = c33WaitGoroutines(base) // the goroutines of this step have exited before the next step starts
		}
		step(1, func() { st.report(5, 0, work(0, wd)) })
		step(1, func() { spawn(0, 1, 1, wd) })
		step(2, func() { spawnNested(2, 1, 1, wd) })
		step(1, func() { spawnCallback(4, 1, wd) })
		close(st.reqs)
		<-srvDone
		if !ok {
			res.inconclusive("part b: warm-up did not finish")
			return
		}
		for id := range st.tasks {
			atomic.AddInt64(&res.Evals, 1)
			if want := c33Expected(id, wd); st.tasks[id].got != want {
				res.violation("wrong-result", fmt.Sprintf("warm-up task %d (%s): work(%d,%d) = %d, sequential expectation %d", id, c33KindNames[st.tasks[id].kind], id, wd, st.tasks[id].got, want), cfg)
			}
		}
	}

	rounds := 3
	goroutinesTotal := 0
	for round := 0; round < rounds; round++ {
		t1 := time.Now()
		base := c33BaseGoroutines
		depth := 33 + rng.Intn(64)
		target := 64 + rng.Intn(449) // goroutines of this round: 64..512
		// split the goroutines between the starter kinds
		nForeign := 4 + rng.Intn(target/5)
		nSpawners := 2 + rng.Intn(6)
		perSpawner := 2 + rng.Intn(1+target/(5*nSpawners))
		nServers := 2 + rng.Intn(6)
		nCallback := 4 + rng.Intn(target/8)
		nNested := 2 + rng.Intn(target/24+1)
		mNested := 2 + rng.Intn(4)
		nDirect := 2 + rng.Intn(6)
		tasksPerForeign := 1 + rng.Intn(3)
		used := nForeign + nSpawners*(1+perSpawner) + nServers + nCallback + nNested*(1+mNested)
		nIgo := target - used
		if nIgo < 4 {
			nIgo = 4
		}
		// task table: ids are consecutive per kind
		st.tasks = st.tasks[:0]
		add := func(kind, n int) int {
			first := len(st.tasks)
			for i := 0; i < n; i++ {
				st.tasks = append(st.tasks, c33Task{kind: kind, depth: depth})
			}
			return first
		}
		fIgo := add(0, nIgo)
		fForeign := add(1, nForeign*tasksPerForeign)
		fSpawned := add(2, nSpawners*perSpawner)
		fNestedP := add(3, nNested)
		fNestedC := add(4, nNested*mNested)
		fDirect := add(5, nDirect)
		fCallback := add(6, nCallback)
		if fNestedC != fNestedP+nNested {
			panic("task layout")
		}
		st.wg.Add(len(st.tasks))
		st.reqs = make(chan c33Req)
		start := make(chan struct{})
		exit := make(chan struct{})
		var fwg sync.WaitGroup
		goForeign := func(body func()) {
			fwg.Add(1)
			st.mu.Lock()
			st.nextInst++
			inst := st.nextInst
			st.mu.Unlock()
			go func() {
				defer fwg.Done()
				id := gls.GoID()
				st.mu.Lock()
				st.foreign[id] = inst
				if last, seen := st.lastInst[id]; seen && last != inst {
					st.reuses++
				}
				st.lastInst[id] = inst
				st.lastIgo[id] = false // it may register a record (lookup-or-create) that is never unregistered
				st.mu.Unlock()
				<-start
				body()
				// stay alive until every harness goroutine of the round has been started and all work
				// is done: a harness goroutine's identity is then never taken over within a round
				<-exit
				st.mu.Lock()
				delete(st.foreign, id)
				st.mu.Unlock()
			}()
		}
		for i := 0; i < nForeign; i++ {
			i := i
			goForeign(func() {
				for k := 0; k < tasksPerForeign; k++ {
					id := fForeign + i*tasksPerForeign + k
					st.report(1, id, work(id, depth))
				}
			})
		}
		for i := 0; i < nSpawners; i++ {
			i := i
			goForeign(func() {
				// a harness goroutine executes an interpreted `go` statement: the parent record is the harness goroutine's
				half := perSpawner / 2
				spawn(2, fSpawned+i*perSpawner, half, depth)
				runtime.Gosched()
				spawn(2, fSpawned+i*perSpawner+half, perSpawner-half, depth)
			})
		}
		for i := 0; i < nServers; i++ {
			goForeign(func() {
				for rq := range st.reqs {
					rq.reply <- rq.f(rq.x)
				}
			})
		}
		close(start)
		// the owner goroutine: go statements in batches (so that identities of finished goroutines are taken over), direct calls in between
		batches := 4
		for b := 0; b < batches; b++ {
			lo, hi := fIgo+nIgo*b/batches, fIgo+nIgo*(b+1)/batches
			spawn(0, lo, hi-lo, depth)
			switch b {
			case 0:
				spawnNested(fNestedP, nNested, mNested, depth)
			case 1:
				spawnCallback(fCallback, nCallback, depth)
			}
			for d := nDirect * b / batches; d < nDirect*(b+1)/batches; d++ {
				id := fDirect + d
				st.report(5, id, work(id, depth))
			}
		}
		if !c33WaitTimeout(&st.wg, 5*time.Minute) {
			missing := map[string]int{}
			for id := range st.tasks {
				if atomic.LoadInt32(&st.tasks[id].reported) == 0 {
					missing[c33KindNames[st.tasks[id].kind]]++
				}
			}
			res.inconclusive(fmt.Sprintf("part b watchdog: round %d did not finish; unreported tasks by kind: %v", round, missing))
			return
		}
		res.count("b_ms_run", time.Since(t1).Milliseconds())
		t2 := time.Now()
		close(st.reqs)
		close(exit)
		fwg.Wait()
		if !c33WaitGoroutines(base) {
			res.inconclusive(fmt.Sprintf("part b: goroutine count did not return to %d (now %d) after a round", base, runtime.NumGoroutine()))
			return
		}
		res.count("b_ms_quiesce", time.Since(t2).Milliseconds())
		goroutinesTotal += nForeign + nSpawners + nServers + nIgo + nSpawners*perSpawner + nNested*(1+mNested) + nCallback
		// oracle 1: results
		for id := range st.tasks {
			t := &st.tasks[id]
			want := c33Expected(id, depth)
			atomic.AddInt64(&res.Evals, 1)
			res.cover("starter_kind", c33KindNames[t.kind])
			if t.got != want {
				res.violation("wrong-result", fmt.Sprintf("round %d task %d (%s): work(%d,%d) = %d on goroutine %#x, sequential expectation %d", round, id, c33KindNames[t.kind], id, depth, t.got, t.goid0, want), cfg)
			}
			res.distinct(fmt.Sprintf("b/%d/%d/%d/%s/%d/%x", cfg.Procs, cfg.Only, round, c33KindNames[t.kind], depth, t.goid0))
		}
		// oracle 2: every goroutine started by an interpreted go statement has unregistered
		st.mu.Lock()
		nIgoIds, nForeignIds := 0, 0
		for goid, igo := range st.lastIgo {
			rec := g.VerifGlsGet(goid)
			atomic.AddInt64(&res.Evals, 1)
			if igo {
				nIgoIds++
				if rec != nil {
					res.violation("registry-not-unregistered", fmt.Sprintf("round %d: identity %#x was last used by a goroutine started by an interpreted go statement which has exited, but the registry still holds record %p (owner %#x)", round, goid, rec, rec.VerifGoid()), cfg)
				}
			} else {
				nForeignIds++
				if rec != nil && rec.VerifGoid() != goid {
					res.violation("registry-wrong-owner", fmt.Sprintf("round %d: registry record under %#x is owned by %#x", round, goid, rec.VerifGoid()), cfg)
				}
			}
		}
		if len(st.live) != 0 {
			res.inconclusive(fmt.Sprintf("part b: %d tasks still between probes after the round", len(st.live)))
		}
		st.mu.Unlock()
		res.count("b_registry_len_after_round", int64(g.VerifGlsLen()))
		res.count("b_rounds", 1)
		res.cover("recursion_depth", fmt.Sprintf("%d-%d", depth/20*20, depth/20*20+19))
		res.sample(map[string]interface{}{"part": "b", "procs": cfg.Procs, "wave": cfg.Only, "round": round, "depth": depth, "yield_seed": yseed,
			"goroutines": map[string]int{"foreign_direct": nForeign, "foreign_spawners": nSpawners, "igo_from_foreign": nSpawners * perSpawner, "servers": nServers,
				"callback_tasks": nCallback, "nested_parents": nNested, "nested_children": nNested * mNested, "igo_from_owner": nIgo, "owner_direct_calls": nDirect},
			"identities_last_used_by_igo": nIgoIds, "identities_last_used_by_harness_goroutines": nForeignIds})
	}
	after := fast.VerifCounters()
	atomic.AddInt64(&res.Evals, 1)
	if d := after.OwnerViolations - before.OwnerViolations; d != 0 {
		res.violation("frame-ownership", fmt.Sprintf("%d frame allocations/releases happened on a runtime record not owned by the current goroutine; first: %s", d, fast.VerifFirstOwnerViolation()), cfg)
	}
	st.mu.Lock()
	res.count("b_identity_reuses", st.reuses)
	res.count("b_distinct_identities", int64(len(st.lastInst)))
	st.mu.Unlock()
	res.count("b_goroutines", int64(goroutinesTotal))
	res.count("b_waves", 1)
	res.count("b_frames_taken", after.FramesTaken-before.FramesTaken)
	res.count("b_frames_reused", after.FramesReused-before.FramesReused)
	res.count("b_frames_pooled", after.FramesPooled-before.FramesPooled)
	res.count("b_yields_injected", after.Yields-before.Yields)
}

// ---------------------------------------------------------------- part d: direct call (Interp.Eval) on a goroutine other than the creator

const c33FindingEval = "C33-eval-uses-creators-record"

// c33PartD hands an interpreter over, strictly sequentially, to another goroutine which evaluates a statement with
// block scopes. The frames of those blocks must come from a record owned by the evaluating goroutine.
func c33PartD(res *c33Result, cfg c33Replay) {
	fast.VerifSetOwnership(true)
	fast.VerifSetYieldSeed(0)
	ir := newQuietInterp()
	ir.Eval("func f(n int) int { if n <= 0 { return 0 }; x := n; { y := x; x = y }; return x + f(n-1) }")
	ir.Eval("var total int")
	const stmt = "total = 0; for i := 0; i < 5; i++ { y := i; { z := y; total += z + f(40) } }"
	const want = 0 + 1 + 2 + 3 + 4 + 5*820
	total := func() int {
		v, _ := ir.Eval1("total")
		return int(v.ReflectValue().Int())
	}
	c0 := fast.VerifCounters()
	ir.Eval(stmt)
	c1 := fast.VerifCounters()
	atomic.AddInt64(&res.Evals, 2)
	if got := total(); got != want {
		res.violation("wrong-result", fmt.Sprintf("part d: creator goroutine evaluated %q: total = %d, expected %d", stmt, got, want), cfg)
	}
	if d := c1.OwnerViolations - c0.OwnerViolations; d != 0 {
		res.violation("frame-ownership", fmt.Sprintf("part d: %d frames taken/released on a record not owned by the current goroutine while the creator goroutine itself evaluates %q; first: %s", d, stmt, fast.VerifFirstOwnerViolation()), cfg)
		return
	}
	var panicked interface{}
	done := make(chan struct{})
	var evalGoid uintptr
	go func() {
		defer close(done)
		defer func() { panicked = recover() }()
		evalGoid = gls.GoID()
		ir.Eval(stmt)
	}()
	<-done
	c2 := fast.VerifCounters()
	atomic.AddInt64(&res.Evals, 2)
	if panicked != nil {
		res.inconclusive(fmt.Sprintf("part d: Eval on a second goroutine panicked: %v", panicked))
		return
	}
	if got := total(); got != want {
		res.violation("wrong-result", fmt.Sprintf("part d: second goroutine evaluated %q: total = %d, expected %d", stmt, got, want), cfg)
	}
	res.count("d_frames_taken_by_second_goroutine", c2.FramesTaken-c1.FramesTaken)
	if d := c2.OwnerViolations - c1.OwnerViolations; d != 0 {
		res.count("d_frames_on_foreign_record", d)
		res.violation(c33FindingEval, fmt.Sprintf("Interp.Eval(%q) called, with no concurrency at all, on goroutine %#x (the interpreter was created on %#x): %d of %d frame allocations/releases used a runtime record owned by another goroutine (the creator's, reached through Interp.env.Run without a registry lookup); first: %s",
			stmt, evalGoid, gls.GoID(), d, c2.FramesTaken-c1.FramesTaken+c2.FramesFreed-c1.FramesFreed, fast.VerifFirstOwnerViolation()), cfg)
	}
	res.distinct("d/eval-on-creator")
	res.distinct("d/eval-on-second-goroutine")
	res.cover("part", "d")
	res.cover("starter_kind", "eval_on_creator")
	res.cover("starter_kind", "eval_on_second_goroutine")
}

func c33IrGlobals(ir *fast.Interp) *fast.IrGlobals { return ir.Comp.CompGlobals.IrGlobals }
