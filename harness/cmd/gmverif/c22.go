package main

// C22 - the uniform syntax-tree wrapper (ast2) round-trips every node losslessly.
//
// Workload
//   * every node of every file of GOROOT/src and /repo (quick: fixed core + seeded sample; thorough:
//     all), parsed by the STANDARD go/parser with comments; files that do not parse or that use type
//     parameters are skipped (the wrapper predates go/ast's generics nodes);
//   * the same trees after ast.FileExports (sets the Incomplete flags of struct / interface types);
//   * a hand-written source containing every node type and flag (c22CoreSrc);
//   * trees with gomacro extension nodes: fixed and generated gomacro sources parsed by the FORK
//     parser (quote family, macro declarations, {block} expressions, #[...] generics, ~typecase);
//   * trees built by the macro machinery: macroexpansion of corpus declarations and of sources that
//     call macros, values of random quasiquote templates (C21 generator).
//
// Oracles, for every node n of every tree
//   1. ToNode(ToAst(n)) is n itself; ToAst(n).New() is a fresh node of the same dynamic type
//   2. Size() children can be read with Get(i) without a panic
//   3. rebuild: c := ToAst(n).New(); a slice wrapper is grown with Append(nil) to Size() (what
//      fast.macroExpandCodewalk does); c.Set(i, rebuild(n.Get(i))) for every i < Size(). The result
//      is structurally identical to n (c22_diff.go, options PosValidity + comments compared). The
//      comparison is made once per tree root, which compares every rebuilt node against its original.
//   4. the same with Append(rebuild(child)) instead of Append(nil)+Set for slice wrappers (what
//      fast.quasiquote does)

import (
	"fmt"
	"go/ast"
	"go/parser"
	"go/token"
	"os"
	"reflect"
	"runtime"
	"sort"
	"strings"
	"sync"

	"github.com/cosmos72/gomacro/ast2"
	"github.com/cosmos72/gomacro/go/etoken"

	"gmverif/internal/fw"
)

func init() { register("C22", "exploration", checkC22) }

const c22FindingIncomplete = "C22-compositelit-new-drops-incomplete"

type c22Replay struct {
	Kind     string       `json:"kind"` // file | core | ext | expand-src | qq
	Path     string       `json:"path,omitempty"`
	Variant  string       `json:"variant,omitempty"` // parsed | exports | expanded
	Src      string       `json:"src,omitempty"`
	Bindings []c21Binding `json:"bindings,omitempty"`
	Style    string       `json:"style,omitempty"`
}

// c22Stats are worker-local counters merged into the run at the end
type c22Stats struct {
	kinds    map[string]int64 // node type -> nodes
	flags    map[string]int64
	nodes    int64
	trees    int64
	skipped  map[string]int64
	rootKind map[string]int64
}

func newC22Stats() *c22Stats {
	return &c22Stats{kinds: map[string]int64{}, flags: map[string]int64{}, skipped: map[string]int64{}, rootKind: map[string]int64{}}
}

func (s *c22Stats) merge(o *c22Stats) {
	for k, v := range o.kinds {
		s.kinds[k] += v
	}
	for k, v := range o.flags {
		s.flags[k] += v
	}
	for k, v := range o.skipped {
		s.skipped[k] += v
	}
	for k, v := range o.rootKind {
		s.rootKind[k] += v
	}
	s.nodes += o.nodes
	s.trees += o.trees
}

func c22TypeName(n interface{}) string {
	t := reflect.TypeOf(n)
	if t.Kind() == reflect.Ptr {
		t = t.Elem()
	}
	return t.Name()
}

func c22TokName(t token.Token) string { return etoken.String(t) }

// observe records the node kind and the flags / tokens the property names
func (s *c22Stats) observe(n ast.Node) {
	s.nodes++
	s.kinds[c22TypeName(n)]++
	f := func(k string) { s.flags[k]++ }
	switch n := n.(type) {
	case *ast.SliceExpr:
		f(fmt.Sprintf("SliceExpr.Slice3=%v", n.Slice3))
	case *ast.ChanType:
		f(fmt.Sprintf("ChanType.Dir=%d", n.Dir))
	case *ast.CallExpr:
		f(fmt.Sprintf("CallExpr.Ellipsis=%v", n.Ellipsis.IsValid()))
	case *ast.InterfaceType:
		f(fmt.Sprintf("InterfaceType.Incomplete=%v", n.Incomplete))
	case *ast.StructType:
		f(fmt.Sprintf("StructType.Incomplete=%v", n.Incomplete))
	case *ast.CompositeLit:
		f(fmt.Sprintf("CompositeLit.Incomplete=%v", n.Incomplete))
	case *ast.EmptyStmt:
		f(fmt.Sprintf("EmptyStmt.Implicit=%v", n.Implicit))
	case *ast.GenDecl:
		f(fmt.Sprintf("GenDecl.%s grouped=%v", c22TokName(n.Tok), n.Lparen.IsValid()))
	case *ast.TypeSpec:
		f(fmt.Sprintf("TypeSpec.alias=%v", n.Assign.IsValid()))
	case *ast.RangeStmt:
		f("RangeStmt.Tok=" + c22TokName(n.Tok))
	case *ast.UnaryExpr:
		f("UnaryExpr.Op=" + c22TokName(n.Op))
	case *ast.BinaryExpr:
		f("BinaryExpr.Op=" + c22TokName(n.Op))
	case *ast.AssignStmt:
		f("AssignStmt.Tok=" + c22TokName(n.Tok))
	case *ast.IncDecStmt:
		f("IncDecStmt.Tok=" + c22TokName(n.Tok))
	case *ast.BranchStmt:
		f(fmt.Sprintf("BranchStmt.Tok=%s label=%v", c22TokName(n.Tok), n.Label != nil))
	case *ast.BasicLit:
		f("BasicLit.Kind=" + c22TokName(n.Kind))
	case *ast.FuncDecl:
		switch {
		case n.Recv == nil:
			f("FuncDecl function")
		case len(n.Recv.List) == 0:
			f("FuncDecl macro (empty receiver list)")
		case len(n.Recv.List) == 1:
			f("FuncDecl method")
		default:
			f("FuncDecl generic (#[...] as second receiver)")
		}
		if n.Body == nil {
			f("FuncDecl without body")
		}
	case *ast.Field:
		if n.Tag != nil {
			f("Field with tag")
		}
		if len(n.Names) == 0 {
			f("Field anonymous")
		}
		if n.Doc != nil || n.Comment != nil {
			f("Field with comment")
		}
	case *ast.Ellipsis:
		f(fmt.Sprintf("Ellipsis elt=%v", n.Elt != nil))
	case *ast.CaseClause:
		f(fmt.Sprintf("CaseClause default=%v", n.List == nil))
	case *ast.CommClause:
		f(fmt.Sprintf("CommClause default=%v", n.Comm == nil))
	case *ast.IfStmt:
		f(fmt.Sprintf("IfStmt init=%v else=%s", n.Init != nil, c22ElseKind(n.Else)))
	case *ast.ForStmt:
		f(fmt.Sprintf("ForStmt init=%v cond=%v post=%v", n.Init != nil, n.Cond != nil, n.Post != nil))
	case *ast.TypeAssertExpr:
		f(fmt.Sprintf("TypeAssertExpr .(type)=%v", n.Type == nil))
	case *ast.FuncType:
		f(fmt.Sprintf("FuncType results=%v", n.Results != nil))
	case *ast.ValueSpec:
		f(fmt.Sprintf("ValueSpec type=%v values=%v", n.Type != nil, n.Values != nil))
	case *ast.ImportSpec:
		f(fmt.Sprintf("ImportSpec name=%v", n.Name != nil))
	case *ast.IndexExpr:
		if c, ok := n.Index.(*ast.CompositeLit); ok && c.Type == nil {
			f("IndexExpr #[...]")
		}
	}
}

func c22ElseKind(s ast.Stmt) string {
	switch s.(type) {
	case nil:
		return "none"
	case *ast.BlockStmt:
		return "block"
	case *ast.IfStmt:
		return "if"
	}
	return "bare " + c22TypeName(s)
}

// c22Rebuild is oracle 3/4's copy procedure. appendStyle selects Append(child) for slice wrappers.
func c22Rebuild(in ast2.Ast, appendStyle bool) ast2.Ast {
	if in == nil || in.Interface() == nil {
		return in // wrapper of a nil node (e.g. BranchStmt without label): stored back as nil
	}
	out := in.New()
	n := in.Size()
	if s, ok := out.(ast2.AstWithSlice); ok {
		if appendStyle {
			for i := 0; i < n; i++ {
				s = s.Append(c22Rebuild(in.Get(i), appendStyle))
			}
			return s
		}
		for s.Size() < n {
			s = s.Append(nil)
		}
		out = s
	}
	for i := 0; i < n; i++ {
		out.Set(i, c22Rebuild(in.Get(i), appendStyle))
	}
	return out
}

type c22Checker struct {
	r       *fw.Run
	st      *c22Stats
	verbose bool
}

func c22Protect(what *string, f func()) {
	defer func() {
		if e := recover(); e != nil {
			*what = fmt.Sprintf("panic: %v", e)
		}
	}()
	f()
}

// checkTree applies every oracle to root and all nodes below it. Returns the number of violations.
func (c *c22Checker) checkTree(root ast.Node, rep c22Replay, label string) int {
	r := c.r
	bad := 0
	fail := func(tag, what string) {
		bad++
		if bad <= 3 { // one tree, one family of witnesses
			r.Violation(tag, rep, label+": "+what)
		}
	}
	var nodes int
	// oracles 1 and 2, node by node
	c22EachNode(root, func(n ast.Node) {
		nodes++
		c.st.observe(n)
		var perr string
		c22Protect(&perr, func() {
			a := ast2.ToAst(n)
			if a == nil {
				perr = "ToAst returned nil for a non-nil node"
				return
			}
			if back := ast2.ToNode(a); back != n {
				perr = fmt.Sprintf("ToNode(ToAst(n)) is %s, not n itself", c22NodeBrief(back))
				return
			}
			if an, ok := a.Interface().(ast.Node); !ok || an != n {
				perr = "ToAst(n).Interface() is not n"
				return
			}
			fresh := ast2.ToNode(a.New())
			if fresh == n {
				perr = "New() returned the original node"
				return
			}
			if fresh == nil || reflect.TypeOf(fresh) != reflect.TypeOf(n) {
				perr = fmt.Sprintf("New() returned %T", fresh)
				return
			}
			for i, sz := 0, a.Size(); i < sz; i++ {
				a.Get(i)
			}
		})
		if perr != "" {
			fail("wrap-unwrap", fmt.Sprintf("%s: %s", c22NodeBrief(n), perr))
		}
	})
	r.Eval(nodes)
	// oracles 3 and 4, whole tree
	for _, style := range []string{"set", "append"} {
		var perr string
		var copyNode ast.Node
		c22Protect(&perr, func() {
			copyNode = ast2.ToNode(c22Rebuild(ast2.ToAst(root), style == "append"))
		})
		rep.Style = style
		if perr != "" {
			fail("rebuild-panic", fmt.Sprintf("New/Get/Set rebuild (%s style): %s", style, perr))
			continue
		}
		if copyNode == root {
			fail("rebuild-same", "rebuild returned the original root")
			continue
		}
		known := 0
		d := c22Diff(root, copyNode, c22Opt{PosValidity: true, Tolerate: func(diff string) bool {
			// CompositeLit.New() does not copy Incomplete (StructType.New and InterfaceType.New do)
			if strings.HasSuffix(diff, "(CompositeLit).Incomplete: true vs false") {
				known++
				return true
			}
			return false
		}})
		r.Eval(nodes)
		if known != 0 {
			r.Known(c22FindingIncomplete, rep, fmt.Sprintf("%s: %d composite literals lose Incomplete=true in the New/Get/Set rebuild (%s style)", label, known, style))
		}
		if c.verbose {
			fmt.Printf("%s [%s style]: %d nodes, diff: %q\n", label, style, nodes, d)
		}
		if d != "" {
			fail("rebuild-differs", fmt.Sprintf("rebuilt with New/Get/Set (%s style) differs from the original at %s", style, d))
		}
	}
	c.st.trees++
	c.st.rootKind[c22TypeName(root)]++
	return bad
}

// distinct registers the top-level pieces of a tree as distinct non-trivial cases
func (c *c22Checker) distinct(prefix string, n ast.Node) {
	cnt := 0
	c22EachNode(n, func(ast.Node) { cnt++ })
	if cnt >= 4 {
		c.r.Distinct(prefix + c22Fingerprint(n))
	}
}

func (c *c22Checker) checkFile(path string, m *c22Machine) {
	src, err := os.ReadFile(path)
	if err != nil {
		c.st.skipped["unreadable"]++
		return
	}
	p, skip := c22ParseStd(path, src, parser.ParseComments)
	if p == nil {
		c.st.skipped[skip]++
		return
	}
	c.r.Cover("corpus", c22CorpusPart(path))
	c.checkTree(p.File, c22Replay{Kind: "file", Path: path, Variant: "parsed"}, path)
	for _, d := range p.File.Decls {
		c.distinct("decl|", d)
	}
	// trees built by the macroexpander from the same declarations
	if m != nil {
		for i, d := range p.File.Decls {
			out, e := m.expandNode(d)
			if e != "" {
				c.st.skipped["macroexpansion failed: "+fw.Clip(e, 60)]++
				continue
			}
			if out == nil {
				continue
			}
			c.checkTree(out, c22Replay{Kind: "file", Path: path, Variant: "expanded"}, fmt.Sprintf("%s decl %d macroexpanded", path, i))
		}
	}
	// the same tree with unexported parts filtered out: Incomplete flags get set
	if ast.FileExports(p.File) {
		c.checkTree(p.File, c22Replay{Kind: "file", Path: path, Variant: "exports"}, path+" (ast.FileExports)")
	}
}

func c22CorpusPart(path string) string {
	switch {
	case strings.HasPrefix(path, "/repo/"):
		return "/repo"
	case strings.Contains(path, "/src/cmd/"):
		return "GOROOT/src/cmd"
	case strings.HasSuffix(path, "_test.go"):
		return "GOROOT/src tests"
	case strings.Contains(path, "/testdata/"):
		return "GOROOT/src testdata"
	}
	return "GOROOT/src"
}

func (c *c22Checker) checkExtSrc(kind, src string) {
	nodes, _, e := c22ForkParse(src)
	if e != "" {
		c.st.skipped["fork parser rejects generated source"]++
		if c.verbose {
			fmt.Printf("fork parser: %s\n  %s\n", src, e)
		}
		return
	}
	for _, n := range nodes {
		if n == nil {
			continue
		}
		c.checkTree(n, c22Replay{Kind: kind, Src: src}, kind+" "+fw.Clip(src, 200))
		c.distinct("ext|", n)
		if why := c22HasExtension(n); why != "" {
			c.r.Cover("extension_trees", why)
		}
	}
}

func (c *c22Checker) checkExpandSrc(m *c22Machine, src string) {
	nodes, e := m.expandSrc(src)
	if e != "" {
		c.st.skipped["macroexpansion of generated source failed"]++
		if c.verbose || os.Getenv("C22_DEBUG") != "" {
			fmt.Printf("expand: %s\n  %s\n", src, e)
		}
		return
	}
	for _, n := range nodes {
		c.checkTree(n, c22Replay{Kind: "expand-src", Src: src}, "macroexpanded "+fw.Clip(src, 200))
		c.distinct("expand|", n)
		c.r.Cover("macro_built_trees", "macro call expanded: "+c22TypeName(n))
	}
}

// checkQQ binds fresh quote values, evaluates templates and checks the resulting trees
func (c *c22Checker) checkQQ(m *c22Machine, g *c21Gen, binds []c21Binding, tmpl, shape string) {
	n, e := m.evalNode(tmpl)
	if e != "" {
		c.st.skipped["quasiquote template not evaluated"]++
		if c.verbose || os.Getenv("C22_DEBUG") != "" {
			fmt.Printf("qq: %s\n  %s\n", tmpl, e)
		}
		return
	}
	c.checkTree(n, c22Replay{Kind: "qq", Src: tmpl, Bindings: binds}, "value of "+fw.Clip(tmpl, 200))
	c.distinct("qq|", n)
	c.r.Cover("macro_built_trees", "quasiquote value: "+shape)
}

func c22Bind(m *c22Machine, binds []c21Binding) bool {
	for _, b := range binds {
		if e := m.eval(b.Name + " = " + b.Src); e != "" {
			return false
		}
	}
	return true
}

const c22Lanes = 8 // generated workloads are split into a fixed number of seeded lanes

func checkC22(r *fw.Run) {
	etoken.GENERICS = etoken.GENERICS_V2_CTI // as the gomacro command: enables the #[...] syntax
	r.SetRule("trees = every file of GOROOT/src and /repo that the standard parser accepts and that does not use type parameters (quick: fixed core + seeded sample of 1500; thorough: all), each also after ast.FileExports and, per declaration, after the fast interpreter's MacroExpandNodeCodewalk; a hand-written source with every node type and flag; fixed + generated gomacro sources parsed by the fork parser (quote family, macro declarations, block expressions, #[..] generics); macroexpansions of sources calling 14 helper macros; values of random quasiquote templates. One evaluation = one node checked by one oracle (wrap/unwrap identity + New freshness + Get below Size; rebuilt copy compared, twice: Set style and Append style). Distinct non-trivial = structurally distinct (positions ignored) top-level declarations / generated trees with at least 4 nodes. Oracle: ToNode(ToAst(n)) is n; New()+Get(i)->Set(i) rebuild of every node is structurally identical to the original: node types, operators, literal kinds and values, names, ChanDir, Slice3, Implicit, Incomplete, comments, child order, and validity of GenDecl.Lparen/Rparen, TypeSpec.Assign, CallExpr.Ellipsis")
	r.Assume("the standard go/parser builds correct trees for the corpus; reflection over go/ast struct fields enumerates everything a node carries")
	r.Assume("numeric token.Pos values are layout, not structure (ReturnStmt.New and StructType.New deliberately drop theirs); *ast.Object/*ast.Scope and ast.File's derived fields (Scope, Imports, Unresolved, Comments, FileStart, FileEnd, GoVersion) are not part of the node")

	if p := fw.ReplayArg(); p != "" {
		c22RunReplay(r, p)
		return
	}

	corpus, err := c22LoadCorpus(r, r.Pick(1500, -1))
	if err != nil {
		r.Inconclusive(err.Error())
		return
	}
	total := newC22Stats()
	var mu sync.Mutex

	// ---- corpus -------------------------------------------------------------------------------
	jobs := make(chan string, 64)
	var wg sync.WaitGroup
	nw := runtime.NumCPU()
	if nw > 16 {
		nw = 16
	}
	for w := 0; w < nw; w++ {
		wg.Add(1)
		go func() {
			defer wg.Done()
			c := &c22Checker{r: r, st: newC22Stats()}
			m := c22NewMachine(true)
			for path := range jobs {
				c.checkFile(path, m)
			}
			mu.Lock()
			total.merge(c.st)
			mu.Unlock()
		}()
	}
	for _, f := range corpus.Picks {
		jobs <- f
	}
	close(jobs)
	wg.Wait()
	r.Count("corpus_files_listed", int64(len(corpus.All)))
	r.Count("corpus_files_picked", int64(len(corpus.Picks)))

	// ---- hand-written core + fixed extension sources -----------------------------------------
	{
		c := &c22Checker{r: r, st: newC22Stats()}
		p, skip := c22ParseStd("core.go", []byte(c22CoreSrc), parser.ParseComments)
		if p == nil {
			r.Inconclusive("the hand-written core source " + skip)
			return
		}
		c.checkTree(p.File, c22Replay{Kind: "core"}, "core source")
		for _, d := range p.File.Decls {
			c.distinct("decl|", d)
		}
		m := c22NewMachine(true)
		for i, d := range p.File.Decls {
			if out, e := m.expandNode(d); e == "" && out != nil {
				c.checkTree(out, c22Replay{Kind: "core", Variant: "expanded"}, fmt.Sprintf("core source decl %d macroexpanded", i))
			}
		}
		if ast.FileExports(p.File) {
			c.checkTree(p.File, c22Replay{Kind: "core", Variant: "exports"}, "core source (ast.FileExports)")
		}
		for _, s := range c22ExtFixed {
			c.checkExtSrc("ext", s)
		}
		for _, s := range c22ExtFixedDecl {
			c.checkExtSrc("ext", s)
		}
		if n := c.st.skipped["fork parser rejects generated source"]; n != 0 {
			r.Inconclusive(fmt.Sprintf("%d fixed gomacro sources are rejected by the fork parser", n))
		}
		total.merge(c.st)
	}

	// ---- generated: extension sources, macro calls, quasiquote values ------------------------
	nExt, nMac, nQQ := r.Pick(12000, 120000), r.Pick(8000, 80000), r.Pick(6000, 60000)
	for lane := 0; lane < c22Lanes; lane++ {
		wg.Add(1)
		go func(lane int) {
			defer wg.Done()
			c := &c22Checker{r: r, st: newC22Stats()}
			rng := r.Rng(fmt.Sprintf("gen-%d", lane))
			for _, s := range c22ExtGen(rng, nExt/c22Lanes) {
				c.checkExtSrc("ext", s)
			}
			m := c22NewMachine(false)
			for _, s := range c22MacroSources(rng, nMac/c22Lanes) {
				c.checkExpandSrc(m, s)
			}
			g := &c21Gen{rng: rng, maxLv: 3}
			var binds []c21Binding
			for i := 0; i < nQQ/c22Lanes; i++ {
				if i%20 == 0 {
					binds = g.bindings()
					if !c22Bind(m, binds) {
						c.st.skipped["bindings not evaluated"]++
						m = c22NewMachine(false)
						continue
					}
				}
				t, shape := g.template()
				c.checkQQ(m, g, binds, t, shape)
			}
			mu.Lock()
			total.merge(c.st)
			mu.Unlock()
		}(lane)
	}
	wg.Wait()

	c22Report(r, total)
	r.Sample(map[string]interface{}{"corpus_file": corpus.Picks[len(corpus.Picks)/2]})
	r.Sample(map[string]interface{}{"extension_source": c22ExtFixed[5]})
	r.Sample(map[string]interface{}{"macro_source": c22MacroSources(r.Rng("sample"), 1)[0]})
	t, _ := (&c21Gen{rng: r.Rng("sample2"), maxLv: 3}).template()
	r.Sample(map[string]interface{}{"quasiquote_template": t})
}

func c22Report(r *fw.Run, total *c22Stats) {
	for k, v := range total.kinds {
		r.Cover("node_kind", k)
		_ = v
	}
	for k := range total.flags {
		r.Cover("flag_or_token", k)
	}
	r.Extra("nodes_per_kind", total.kinds)
	r.Extra("nodes_per_flag_or_token", total.flags)
	r.Extra("trees_per_root_kind", total.rootKind)
	r.Extra("skipped", total.skipped)
	r.Count("nodes_checked", total.nodes)
	r.Count("trees_checked", total.trees)
	// every wrapper of ast2 except Package (go/parser never builds one) and the Bad* nodes of invalid
	// source must have been exercised
	var missing []string
	for _, k := range []string{"ArrayType", "AssignStmt", "BasicLit", "BinaryExpr", "BlockStmt", "BranchStmt", "CallExpr", "CaseClause",
		"ChanType", "CommClause", "CompositeLit", "DeclStmt", "DeferStmt", "Ellipsis", "EmptyStmt", "ExprStmt", "Field", "FieldList", "File",
		"ForStmt", "FuncDecl", "FuncLit", "FuncType", "GenDecl", "GoStmt", "Ident", "IfStmt", "ImportSpec", "IncDecStmt", "IndexExpr",
		"InterfaceType", "KeyValueExpr", "LabeledStmt", "MapType", "ParenExpr", "RangeStmt", "ReturnStmt", "SelectStmt", "SelectorExpr",
		"SendStmt", "SliceExpr", "StarExpr", "StructType", "SwitchStmt", "TypeAssertExpr", "TypeSpec", "TypeSwitchStmt", "UnaryExpr", "ValueSpec"} {
		if total.kinds[k] == 0 {
			missing = append(missing, k)
		}
	}
	for _, k := range []string{"SliceExpr.Slice3=true", "ChanType.Dir=1", "ChanType.Dir=2", "ChanType.Dir=3", "CallExpr.Ellipsis=true",
		"InterfaceType.Incomplete=true", "StructType.Incomplete=true", "EmptyStmt.Implicit=true", "EmptyStmt.Implicit=false",
		"TypeSpec.alias=true", "GenDecl.var grouped=true", "GenDecl.var grouped=false", "FuncDecl macro (empty receiver list)",
		"FuncDecl generic (#[...] as second receiver)", "IndexExpr #[...]", "UnaryExpr.Op=~quote", "UnaryExpr.Op=~quasiquote",
		"UnaryExpr.Op=~unquote", "UnaryExpr.Op=~unquote_splice", "UnaryExpr.Op=~macro"} {
		if total.flags[k] == 0 {
			missing = append(missing, k)
		}
	}
	if len(missing) != 0 {
		sort.Strings(missing)
		r.Inconclusive("never observed: " + strings.Join(missing, ", "))
	}
}

func c22RunReplay(r *fw.Run, path string) {
	var rep c22Replay
	if err := fw.LoadReplay(path, &rep); err != nil {
		r.Inconclusive("cannot load replay: " + err.Error())
		return
	}
	c := &c22Checker{r: r, st: newC22Stats(), verbose: true}
	m := c22NewMachine(false)
	switch rep.Kind {
	case "file":
		c.checkFile(rep.Path, c22NewMachine(true))
	case "core":
		p, _ := c22ParseStd("core.go", []byte(c22CoreSrc), parser.ParseComments)
		c.checkTree(p.File, rep, "core source")
		pm := c22NewMachine(true)
		for i, d := range p.File.Decls {
			if out, e := pm.expandNode(d); e == "" && out != nil {
				c.checkTree(out, rep, fmt.Sprintf("core source decl %d macroexpanded", i))
			}
		}
		if ast.FileExports(p.File) {
			c.checkTree(p.File, rep, "core source (ast.FileExports)")
		}
	case "ext":
		c.checkExtSrc("ext", rep.Src)
	case "expand-src":
		c.checkExpandSrc(m, rep.Src)
	case "qq":
		c22Bind(m, rep.Bindings)
		c.checkQQ(m, nil, rep.Bindings, rep.Src, "replay")
	default:
		r.Inconclusive("unknown replay kind " + rep.Kind)
		return
	}
	fmt.Printf("replayed %s: %d trees, %d nodes\n", rep.Kind, c.st.trees, c.st.nodes)
	r.Distinct("replay-a")
	r.Distinct("replay-b")
}
