package main

// C35, in-process part — memoization of instances inside ONE interpreter: `G#[A]` obtained at different
// sites (top level, nested scopes, a function signature, a struct field, a declared variable, from inside
// another generic) must be the identical type (xr.Type.IdenticalTo both ways, same xr.MakeKey, mutually
// assignable), values made at different sites must be assignable/comparable, `G#[A]` and `G#[B]` must be
// distinct, and a generic function instantiated repeatedly must have one type and give the same results.

import (
	"bufio"
	"encoding/json"
	"fmt"
	"go/ast"
	"io"
	"math/rand"
	"os"
	"os/exec"
	"path/filepath"
	"strings"

	"github.com/cosmos72/gomacro/ast2"
	"github.com/cosmos72/gomacro/fast"
	"github.com/cosmos72/gomacro/go/etoken"
	xr "github.com/cosmos72/gomacro/xreflect"

	"gmverif/internal/fw"
	"gmverif/internal/tr"
)

type c35MemoCase struct {
	Kind  string   `json:"kind"` // "type" | "func"
	Inst  string   `json:"inst"` // plain gomacro syntax
	Other string   `json:"other,omitempty"`
	Decls []string `json:"decls,omitempty"`
	Steps []string `json:"steps,omitempty"`
	What  string   `json:"what,omitempty"`
}

type c35MemoEnv struct {
	ir   *fast.Interp
	ctx  *c35Ctx
	gen  *c35Gen
	n    int
	decl []string
}

func c35Plain(s string) string { return strings.ReplaceAll(s, "§", "") }

func c35MemoTypes() []*c35TypeTmpl {
	return append(c35LibTypes(),
		c35MkType("List", "T", "struct{Head T; Tail *§List#[T]}"),
		c35MkType("Tree", "K,V", "struct{Key K; Val V; L *§Tree#[K,V]; R *§Tree#[K,V]}"),
		c35MkType("Rose", "T", "struct{Item T; Kids []§Rose#[T]}"))
}

func c35NewMemoEnv(rng *rand.Rand) (*c35MemoEnv, error) {
	etoken.GENERICS = etoken.GENERICS_V2_CTI
	e := &c35MemoEnv{ir: newQuietInterp(), gen: c35NewGen(rng)}
	e.ctx = e.gen.ctx
	for _, tt := range c35MemoTypes() {
		e.ctx.Types[tt.Name] = tt
	}
	var b strings.Builder
	b.WriteString(c35NamedDecls)
	for _, tt := range c35MemoTypes() {
		b.WriteString(tt.decl())
		g := c35Inst(tt.Name, c35TPs(tt.TP)...).String()
		fmt.Fprintf(&b, "func §Z%s#[%s]() %s {\nvar z %s\nreturn z\n}\n", tt.Name, strings.Join(tt.TP, ","), g, g)
		fmt.Fprintf(&b, "func §K%s#[%s](v %s) %s {\nw := v\nreturn w\n}\n", tt.Name, strings.Join(tt.TP, ","), g, g)
	}
	for _, n := range e.gen.fnOrder {
		b.WriteString(e.gen.fns[n].decl())
	}
	if err := e.eval(c35Plain(strings.ReplaceAll(b.String(), "rec(-tag, pcl(r))", "_ = r"))); err != nil {
		return nil, fmt.Errorf("declarations: %v", err)
	}
	return e, nil
}

func c35TPs(names []string) []*c35Tx {
	var out []*c35Tx
	for _, n := range names {
		out = append(out, c35Id(n))
	}
	return out
}

func (e *c35MemoEnv) eval(src string) (err error) {
	e.decl = append(e.decl, src)
	_, err = e.evalV(src)
	return err
}

func (e *c35MemoEnv) evalV(src string) (vals []xr.Value, err error) {
	defer func() {
		if r := recover(); r != nil {
			err = fmt.Errorf("%s", fw.Clip(panicText(r), 400))
		}
	}()
	vals, _ = e.ir.Eval(src)
	return vals, nil
}

func (e *c35MemoEnv) compileType(src string) (t xr.Type, err error) {
	defer func() {
		if r := recover(); r != nil {
			err = fmt.Errorf("%s", fw.Clip(panicText(r), 400))
		}
	}()
	ex := e.ir.Compile(src)
	if ex == nil {
		return nil, fmt.Errorf("no expression")
	}
	return ex.Type, nil
}

// typeIn resolves the type expression in a scope nested `depth` levels below the top-level one.
func (e *c35MemoEnv) typeIn(spell string, depth int) (t xr.Type, err error) {
	defer func() {
		if r := recover(); r != nil {
			err = fmt.Errorf("%s", fw.Clip(panicText(r), 400))
		}
	}()
	form := e.ir.Comp.Parse("new(" + spell + ")")
	var node ast.Node
	if nodes := ast2.ToNodes(form); len(nodes) == 1 {
		node = nodes[0]
	}
	var call *ast.CallExpr
	switch n := node.(type) {
	case *ast.CallExpr:
		call = n
	case *ast.ExprStmt:
		call, _ = n.X.(*ast.CallExpr)
	}
	if call == nil || len(call.Args) != 1 {
		return nil, fmt.Errorf("cannot parse type expression %q (%T)", spell, node)
	}
	c := e.ir.Comp
	for i := 0; i < depth; i++ {
		c = fast.NewComp(c, nil)
	}
	return c.Type(call.Args[0]), nil
}

type c35Site struct {
	name string
	t    xr.Type
}

// typeSites returns the xr.Type of `spell` as seen from several sites of the interpreter.
func (e *c35MemoEnv) typeSites(tt *c35TypeTmpl, spell, argList string) ([]c35Site, error) {
	var sites []c35Site
	add := func(name string, t xr.Type, err error) error {
		if err != nil {
			return fmt.Errorf("site %s: %v", name, err)
		}
		if t == nil {
			return fmt.Errorf("site %s: nil type", name)
		}
		sites = append(sites, c35Site{name, t})
		return nil
	}
	t, err := e.compileType("new(" + spell + ")")
	if err == nil {
		t = t.Elem()
	}
	if err := add("toplevel-expr", t, err); err != nil {
		return nil, err
	}
	for d := 1; d <= 2; d++ {
		t, err := e.typeIn(spell, d)
		if err := add(fmt.Sprintf("nested-scope-%d", d), t, err); err != nil {
			return sites, err
		}
	}
	t, err = e.compileType("(func() (r " + spell + ") { return })")
	if err == nil {
		t = t.Out(0)
	}
	if err := add("func-signature", t, err); err != nil {
		return sites, err
	}
	t, err = e.compileType("struct{F " + spell + "}{}")
	if err == nil {
		t = t.Field(0).Type
	}
	if err := add("struct-field", t, err); err != nil {
		return sites, err
	}
	e.n++
	v := fmt.Sprintf("mv%d", e.n)
	if err := e.eval("var " + v + " " + spell); err != nil {
		return sites, fmt.Errorf("site var-decl: %v", err)
	}
	t, err = e.compileType(v)
	if err := add("var-decl", t, err); err != nil {
		return sites, err
	}
	t, err = e.compileType("Z" + tt.Name + "#[" + argList + "]()")
	if err := add("inside-generic", t, err); err != nil {
		return sites, err
	}
	t, err = e.compileType("K" + tt.Name + "#[" + argList + "](" + v + ")")
	if err := add("inside-generic-2", t, err); err != nil {
		return sites, err
	}
	return sites, nil
}

// c35Sink receives what the in-process part observes. The part runs in a child process (an instantiation
// that recurses for ever kills the process with a stack overflow, which cannot be recovered in-process).
type c35Sink interface {
	Start(desc string)
	Eval(n int)
	Distinct(key string) bool
	Cover(table, cell string)
	Count(name string, n int64)
	Violation(tag string, replay interface{}, what string)
	Inconclusive(reason string)
	Pick(q, t int) int
	Rng(stream string) *rand.Rand
}

type c35RunSink struct{ *fw.Run }

func (s c35RunSink) Start(desc string) {}

type c35MemoEvent struct {
	E      string          `json:"e"`
	S      string          `json:"s,omitempty"`
	T      string          `json:"t,omitempty"`
	N      int64           `json:"n,omitempty"`
	Replay json.RawMessage `json:"replay,omitempty"`
}

type c35ChildSink struct {
	*fw.Run // only for Pick and Rng
	w       *bufio.Writer
}

func (s *c35ChildSink) send(ev c35MemoEvent) {
	data, _ := json.Marshal(ev)
	s.w.Write(data)
	s.w.WriteByte('\n')
	s.w.Flush()
}
func (s *c35ChildSink) Start(desc string) { s.send(c35MemoEvent{E: "start", S: desc}) }
func (s *c35ChildSink) Eval(n int)        { s.send(c35MemoEvent{E: "eval", N: int64(n)}) }
func (s *c35ChildSink) Distinct(key string) bool {
	s.send(c35MemoEvent{E: "distinct", S: key})
	return true
}
func (s *c35ChildSink) Cover(table, cell string)   { s.send(c35MemoEvent{E: "cover", T: table, S: cell}) }
func (s *c35ChildSink) Count(name string, n int64) { s.send(c35MemoEvent{E: "count", S: name, N: n}) }
func (s *c35ChildSink) Inconclusive(reason string) {
	s.send(c35MemoEvent{E: "inconclusive", S: reason})
}
func (s *c35ChildSink) Violation(tag string, replay interface{}, what string) {
	data, _ := json.Marshal(replay)
	s.send(c35MemoEvent{E: "violation", T: tag, S: what, Replay: data})
}

func init() {
	auxCmds["c35memoworker"] = func(args []string) {
		r := fw.NewRun("C35", "exploration")
		c35MemoRun(&c35ChildSink{Run: r, w: bufio.NewWriterSize(os.Stdout, 1<<16)})
	}
}

// c35Memo runs the in-process part in a child and relays its observations.
func c35Memo(r *fw.Run) {
	cmd := exec.Command(selfBin(), "c35memoworker")
	cmd.Env = append(os.Environ(), fmt.Sprintf("VERIF_SEED=%d", r.Seed), "VERIF_TIER="+r.Tier)
	stdout, _ := cmd.StdoutPipe()
	errf, _ := os.CreateTemp(filepath.Join(fw.VerifDir, "work"), "c35memo-stderr-*")
	defer os.Remove(errf.Name())
	defer errf.Close()
	cmd.Stderr = errf
	if err := cmd.Start(); err != nil {
		r.Inconclusive("in-process memoization part: cannot start worker: " + err.Error())
		return
	}
	sc := bufio.NewScanner(stdout)
	sc.Buffer(make([]byte, 1<<20), 1<<26)
	last, done := "", false
	for sc.Scan() {
		var ev c35MemoEvent
		if json.Unmarshal(sc.Bytes(), &ev) != nil {
			continue
		}
		switch ev.E {
		case "start":
			last = ev.S
		case "eval":
			r.Eval(int(ev.N))
		case "distinct":
			r.Distinct(ev.S)
		case "cover":
			r.Cover(ev.T, ev.S)
		case "count":
			r.Count(ev.S, ev.N)
		case "inconclusive":
			r.Inconclusive(ev.S)
		case "violation":
			var cs c35MemoCase
			json.Unmarshal(ev.Replay, &cs)
			r.Violation(ev.T, cs, ev.S)
		case "done":
			done = true
		}
	}
	err := cmd.Wait()
	if !done {
		errf.Seek(0, 0)
		data, _ := io.ReadAll(io.LimitReader(errf, 4096))
		what := fmt.Sprintf("the interpreter process died (%v) while checking %s: %s", err, last, fw.Clip(string(data), 600))
		if strings.Contains(string(data), "stack overflow") || strings.Contains(string(data), "gomacro/fast") {
			r.Violation("memo-crash", c35MemoCase{Kind: "crash", Inst: last, What: what}, what)
		} else {
			r.Inconclusive("in-process memoization part: " + what)
		}
	}
}

func c35MemoRun(r c35Sink) {
	rng := r.Rng("memo")
	e, err := c35NewMemoEnv(rng)
	if err != nil {
		r.Inconclusive("in-process memoization part could not declare its templates: " + err.Error())
		return
	}
	nTypes, nFuncs := r.Pick(150, 1200), r.Pick(80, 600)
	types := c35MemoTypes()
	skipped := 0
	for i := 0; i < nTypes; i++ {
		tt := types[rng.Intn(len(types))]
		cons := c35TypeCons[tt.Name]
		if cons == nil {
			cons = make([]string, len(tt.TP))
		}
		args := e.gen.pickArgs(cons, nil)
		other := e.gen.pickArgs(cons, args)
		r.Start("type " + c35Plain(c35Inst(tt.Name, args...).String()))
		if !c35MemoCheckType(r, e, tt, args, other) {
			skipped++
		}
	}
	for i := 0; i < nFuncs; i++ {
		f := e.gen.fns[e.gen.fnOrder[rng.Intn(len(e.gen.fnOrder))]]
		args := e.gen.pickArgs(f.Cons, nil)
		r.Start("func " + c35Plain(f.Name+"#["+c35ArgsString(args)+"]"))
		if !c35MemoCheckFunc(r, e, f, args) {
			skipped++
		}
	}
	r.Count("memo_skipped_not_compiling", int64(skipped))
	if skipped*2 > nTypes+nFuncs {
		r.Inconclusive(fmt.Sprintf("in-process part: %d of %d cases did not compile", skipped, nTypes+nFuncs))
	}
	if cs, ok := r.(*c35ChildSink); ok {
		cs.send(c35MemoEvent{E: "done"})
	}
}

func (e *c35MemoEnv) replay(c c35MemoCase) c35MemoCase {
	c.Decls = nil // the declarations are rebuilt by c35NewMemoEnv; only the case-specific steps are stored
	return c
}

// c35MemoCheckType returns false when the instantiation does not compile (skipped).
func c35MemoCheckType(r c35Sink, e *c35MemoEnv, tt *c35TypeTmpl, args, other []*c35Tx) bool {
	inst := c35Inst(tt.Name, args...)
	spell := c35Plain(inst.String())
	argList := c35Plain(c35ArgsString(args))
	cs := c35MemoCase{Kind: "type", Inst: spell}
	sites, err := e.typeSites(tt, spell, argList)
	if err != nil {
		if len(sites) == 0 {
			r.Count("memo_type_not_compiling", 1)
			return false
		}
		// the first site compiled the instantiation, a later one did not: the instance is not usable everywhere
		cs.What = fmt.Sprintf("%s compiles at site %s but %v", spell, sites[0].name, err)
		r.Violation("memo-site-fails", e.replay(cs), cs.What)
		return true
	}
	r.Cover("memo_template", "type:"+tt.Name)
	for _, a := range args {
		r.Cover("memo_argclass", e.ctx.class(a))
	}
	r.Distinct("memo-type:" + spell)
	for i := 0; i < len(sites); i++ {
		for j := i + 1; j < len(sites); j++ {
			a, b := sites[i], sites[j]
			r.Eval(1)
			var bad string
			switch {
			case !a.t.IdenticalTo(b.t) || !b.t.IdenticalTo(a.t):
				bad = "are not IdenticalTo each other"
			case !a.t.AssignableTo(b.t) || !b.t.AssignableTo(a.t):
				bad = "are not mutually AssignableTo"
			case xr.MakeKey(a.t) != xr.MakeKey(b.t):
				bad = "have different xr.MakeKey (different type objects)"
			}
			if bad != "" {
				cs.What = fmt.Sprintf("%s: the types obtained at sites %s (%v) and %s (%v) %s", spell, a.name, a.t, b.name, b.t, bad)
				r.Violation("memo-type-identity", e.replay(cs), cs.What)
				return true
			}
		}
	}
	// the instance is the declaration with the parameters replaced by the arguments: compare its structure with
	// the body written out by hand
	if ut, err := e.compileType("new(" + c35Plain(e.ctx.instBody(inst).String()) + ")"); err == nil {
		r.Eval(1)
		if bad := c35SameShape(sites[0].t, ut.Elem(), tt.Alias); bad != "" {
			cs.What = fmt.Sprintf("%s does not have the structure of its declaration with the arguments substituted (%s): %s", spell, c35Plain(e.ctx.instBody(inst).String()), bad)
			r.Violation("memo-structure", e.replay(cs), cs.What)
			return true
		}
	}
	// a different argument list gives a different type (named instances only)
	if !tt.Alias && c35ArgsString(other) != c35ArgsString(args) {
		ospell := c35Plain(c35Inst(tt.Name, other...).String())
		if t2, err := e.compileType("new(" + ospell + ")"); err == nil {
			t2 = t2.Elem()
			distinctArgs := false
			for k := range args {
				ta, e1 := e.compileType("new(" + c35Plain(args[k].String()) + ")")
				tb, e2 := e.compileType("new(" + c35Plain(other[k].String()) + ")")
				if e1 == nil && e2 == nil && !ta.IdenticalTo(tb) {
					distinctArgs = true
				}
			}
			if distinctArgs {
				r.Eval(1)
				if t2.IdenticalTo(sites[0].t) || xr.MakeKey(t2) == xr.MakeKey(sites[0].t) {
					cs.Other = ospell
					cs.What = fmt.Sprintf("%s and %s are the same type although their type arguments differ", spell, ospell)
					r.Violation("memo-conflated", e.replay(cs), cs.What)
					return true
				}
			}
		}
	}
	// values made at different sites are mutually assignable and comparable (skipped for self-referential templates)
	if !tt.Rec {
		e.n++
		v := fmt.Sprintf("ma%d", e.n)
		rng := e.gen.rng
		val := c35Plain(e.ctx.val(rng, inst, rng.Intn(5), 0))
		steps := []string{
			fmt.Sprintf("var %s %s = %s", v, spell, val),
			fmt.Sprintf("(func() bool { var b %s = %s; b = Z%s#[%s](); b = K%s#[%s](%s); %s = b; c := []%s{b, %s}; return len(c) == 2 })()", spell, v, tt.Name, argList, tt.Name, argList, v, v, spell, v),
		}
		if e.ctx.cmp(inst) {
			steps = append(steps, fmt.Sprintf("(func() bool { var b %s = K%s#[%s](%s); return b == %s && !(b != %s) })()", spell, tt.Name, argList, v, v, v))
		}
		for k, st := range steps {
			vals, err := e.evalV(st)
			e.decl = append(e.decl, st)
			r.Eval(1)
			if err != nil {
				cs.Steps = steps[:k+1]
				cs.What = fmt.Sprintf("%s: values created at different sites are not interchangeable: %q fails: %v", spell, st, err)
				r.Violation("memo-values", e.replay(cs), cs.What)
				return true
			}
			if k > 0 && (len(vals) != 1 || !vals[0].ReflectValue().IsValid() || vals[0].ReflectValue().Kind().String() != "bool" || !vals[0].ReflectValue().Bool()) {
				cs.Steps = steps[:k+1]
				cs.What = fmt.Sprintf("%s: %q did not evaluate to true", spell, st)
				r.Violation("memo-values", e.replay(cs), cs.What)
				return true
			}
		}
	}
	return true
}

func c35MemoCheckFunc(r c35Sink, e *c35MemoEnv, f *c35Fn, args []*c35Tx) bool {
	rng := e.gen.rng
	inst := c35Plain("§" + f.Name + "#[" + c35ArgsString(args) + "]")
	cs := c35MemoCase{Kind: "func", Inst: inst}
	// the type of the instance expression at several sites
	var sites []c35Site
	t, err := e.compileType(inst)
	if err != nil {
		r.Count("memo_func_not_compiling", 1)
		return false
	}
	sites = append(sites, c35Site{"toplevel-expr", t})
	if t2, err := e.compileType("(func() interface{} { g := " + inst + "; return g })"); err == nil && t2 != nil {
		// compiled again inside a function body; the type is observed through a second top-level compile
		if t3, err := e.compileType(inst); err == nil {
			sites = append(sites, c35Site{"toplevel-expr-again", t3})
		}
	} else if err != nil {
		cs.What = fmt.Sprintf("%s compiles at top level but not inside a function body: %v", inst, err)
		r.Violation("memo-site-fails", e.replay(cs), cs.What)
		return true
	}
	r.Cover("memo_template", f.Name)
	r.Distinct("memo-func:" + inst)
	for j := 1; j < len(sites); j++ {
		r.Eval(1)
		if !sites[0].t.IdenticalTo(sites[j].t) || !sites[j].t.IdenticalTo(sites[0].t) {
			cs.What = fmt.Sprintf("%s: instantiated twice, the function types differ: %v vs %v", inst, sites[0].t, sites[j].t)
			r.Violation("memo-func-type", e.replay(cs), cs.What)
			return true
		}
	}
	// behaviour: the same arguments through instances obtained at different sites
	m := map[string]*c35Tx{}
	for i, p := range f.TP {
		m[p] = args[i]
	}
	var steps, names []string
	for _, p := range f.Params {
		pt := p.T.subst(m)
		e.n++
		n := fmt.Sprintf("fa%d", e.n)
		var val string
		switch {
		case len(p.Alts) > 0:
			val = p.Alts[rng.Intn(len(p.Alts))]
		case p.Variadic:
			var es []string
			for k := rng.Intn(4); k > 0; k-- {
				es = append(es, e.ctx.val(rng, pt.A[0], rng.Intn(5), 0))
			}
			val = pt.String() + "{" + strings.Join(es, ", ") + "}"
		default:
			val = e.ctx.val(rng, pt, rng.Intn(5), 0)
		}
		if len(p.Alts) > 0 {
			steps = append(steps, fmt.Sprintf("var %s int = %s", n, val))
		} else {
			steps = append(steps, fmt.Sprintf("var %s %s = %s", n, c35Plain(pt.String()), c35Plain(val)))
		}
		if p.Variadic {
			n += "..."
		}
		names = append(names, n)
	}
	call := "(" + strings.Join(names, ", ") + ")"
	wrap := func(expr string) string {
		// results are packed in a slice of interfaces so that multi-value calls render uniformly
		switch len(f.Res) {
		case 0:
			return "(func() []interface{} { " + expr + "; return nil })()"
		case 1:
			return "(func() []interface{} { r0 := " + expr + "; return []interface{}{r0} })()"
		}
		var rs []string
		for i := range f.Res {
			rs = append(rs, fmt.Sprintf("r%d", i))
		}
		return "(func() []interface{} { " + strings.Join(rs, ", ") + " := " + expr + "; return []interface{}{" + strings.Join(rs, ", ") + "} })()"
	}
	variants := []string{
		wrap(inst + call),
		wrap("(func() " + c35FuncTypeOf(f, m) + " { return " + inst + " })()" + call),
		"(func() []interface{} { g := " + inst + "; h := " + inst + "; _ = h; return " + wrap("g"+call) + " })()",
	}
	for _, st := range steps {
		e.decl = append(e.decl, st)
		if _, err := e.evalV(st); err != nil {
			r.Count("memo_func_args_not_compiling", 1)
			return false
		}
	}
	var first string
	for k, v := range variants {
		vals, err := e.evalV(v)
		r.Eval(1)
		if err != nil {
			if k == 0 {
				r.Count("memo_func_call_failed", 1)
				return true // run-time panic of the first call (e.g. nil map write): nothing to compare
			}
			cs.Steps = append(steps, variants[:k+1]...)
			cs.What = fmt.Sprintf("%s: call through the instance obtained at site %d fails (%v) while the first call succeeded", inst, k, err)
			r.Violation("memo-func-behaviour", e.replay(cs), cs.What)
			return true
		}
		got := "?"
		if len(vals) == 1 && vals[0].ReflectValue().IsValid() {
			got = tr.Render(tr.NoCap{V: vals[0].ReflectValue().Interface()})
		}
		if k == 0 {
			first = got
		} else if got != first {
			cs.Steps = append(steps, variants[:k+1]...)
			cs.What = fmt.Sprintf("%s: repeated instantiation behaves differently: %s vs %s", inst, first, got)
			r.Violation("memo-func-behaviour", e.replay(cs), cs.What)
			return true
		}
	}
	return true
}

// c35SameShape compares the instance type t with the unnamed type u spelled from the substituted body.
func c35SameShape(t, u xr.Type, alias bool) string {
	if alias {
		if !t.IdenticalTo(u) {
			return fmt.Sprintf("alias instance %v is not identical to %v", t, u)
		}
		return ""
	}
	if t.Kind() != u.Kind() {
		return fmt.Sprintf("kind %v, expected %v", t.Kind(), u.Kind())
	}
	same := func(what string, a, b xr.Type) string {
		if !a.IdenticalTo(b) {
			return fmt.Sprintf("%s is %v, expected %v", what, a, b)
		}
		return ""
	}
	switch t.Kind().String() {
	case "struct":
		if t.NumField() != u.NumField() {
			return fmt.Sprintf("%d fields, expected %d", t.NumField(), u.NumField())
		}
		for i := 0; i < t.NumField(); i++ {
			if t.Field(i).Name != u.Field(i).Name {
				return fmt.Sprintf("field %d is named %s, expected %s", i, t.Field(i).Name, u.Field(i).Name)
			}
			if bad := same("field "+t.Field(i).Name, t.Field(i).Type, u.Field(i).Type); bad != "" {
				return bad
			}
		}
	case "slice", "ptr", "chan":
		return same("element type", t.Elem(), u.Elem())
	case "array":
		if t.Len() != u.Len() {
			return "array length differs"
		}
		return same("element type", t.Elem(), u.Elem())
	case "map":
		if bad := same("key type", t.Key(), u.Key()); bad != "" {
			return bad
		}
		return same("element type", t.Elem(), u.Elem())
	case "func":
		if t.NumIn() != u.NumIn() || t.NumOut() != u.NumOut() {
			return "signature arity differs"
		}
		for i := 0; i < t.NumIn(); i++ {
			if bad := same(fmt.Sprintf("parameter %d", i), t.In(i), u.In(i)); bad != "" {
				return bad
			}
		}
		for i := 0; i < t.NumOut(); i++ {
			if bad := same(fmt.Sprintf("result %d", i), t.Out(i), u.Out(i)); bad != "" {
				return bad
			}
		}
	}
	return ""
}

func c35FuncTypeOf(f *c35Fn, m map[string]*c35Tx) string {
	var ps []*c35Tx
	variadic := false
	for _, p := range f.Params {
		ps = append(ps, p.T.subst(m))
		variadic = p.Variadic
	}
	var rs []*c35Tx
	for _, r := range f.Res {
		rs = append(rs, r.subst(m))
	}
	t := &c35Tx{K: "func", A: ps, R: rs, Variadic: variadic}
	return c35Plain(t.String())
}

// c35MemoReplay re-runs one recorded in-process case in a fresh interpreter and prints what it sees.
func c35MemoReplay(r *fw.Run, path string) {
	var cs c35MemoCase
	if err := fw.LoadReplay(path, &cs); err != nil {
		panic(err)
	}
	r.SetMinDistinct(0)
	e, err := c35NewMemoEnv(r.Rng("memo"))
	if err != nil {
		r.Inconclusive(err.Error())
		return
	}
	fmt.Printf("replaying %s case %s (recorded: %s)\n", cs.Kind, cs.Inst, cs.What)
	if cs.Kind == "type" {
		t := c35ParseType(c35ReSection(cs.Inst))
		tt := e.ctx.Types[t.Name]
		var other []*c35Tx
		if cs.Other != "" {
			other = c35ParseType(c35ReSection(cs.Other)).A
		} else {
			other = t.A
		}
		c35MemoCheckType(c35RunSink{r}, e, tt, t.A, other)
	}
	for _, st := range cs.Steps {
		vals, err := e.evalV(st)
		r.Eval(1)
		fmt.Printf("  %s\n    => %v %v\n", st, vals, err)
	}
}

// c35ReSection puts the § marks back on program-declared names of a plain type expression.
func c35ReSection(s string) string {
	names := []string{"MyInt", "Str", "Strs", "Pt", "Fn", "Flt"}
	for _, tt := range c35MemoTypes() {
		names = append(names, tt.Name)
	}
	repl := map[string]string{}
	for _, n := range names {
		repl[n] = "§" + n
	}
	return substIdent(s, repl)
}
