package main

// C36 reference model: the harness's own record of the declarations it fed to the
// interpreter, type-checked by the STANDARD LIBRARY go/types (not gomacro's fork), plus
// Go's selector rules as implemented by types.LookupFieldOrMethod / types.NewMethodSet.

import (
	"fmt"
	"go/ast"
	"go/importer"
	"go/parser"
	"go/token"
	"go/types"
	"sort"
	"strings"
	"sync"
	"unicode"
)

// c36Decl is one declaration given to Interp.Eval and recorded by the harness.
type c36Decl struct {
	Kind string `json:"kind"` // import | var | const | func | type | method
	Name string `json:"name"` // declared name (import: local name; method: Recv.Name)
	Path string `json:"path,omitempty"`
	Src  string `json:"src"`
}

// ---------------------------------------------------------------- shared importer

type c36Importer struct {
	mu    sync.Mutex
	imp   types.Importer
	cache map[string]*types.Package
	errs  map[string]error
}

var c36Imp = &c36Importer{cache: map[string]*types.Package{}, errs: map[string]error{}}

func (ci *c36Importer) Import(path string) (*types.Package, error) {
	ci.mu.Lock()
	defer ci.mu.Unlock()
	if p, ok := ci.cache[path]; ok {
		return p, nil
	}
	if e, ok := ci.errs[path]; ok {
		return nil, e
	}
	if ci.imp == nil {
		ci.imp = importer.ForCompiler(token.NewFileSet(), "source", nil)
	}
	p, err := ci.imp.Import(path)
	if err != nil {
		ci.errs[path] = err
		return nil, err
	}
	ci.cache[path] = p
	return p, nil
}

// ---------------------------------------------------------------- model

type c36Model struct {
	history []c36Decl         // everything evaluated, in order
	decls   []c36Decl         // current declarations (a re-declared var/const/func replaces the old one)
	imports map[string]string // local name -> path
	pkg     *types.Package
	setMemo map[string]*c36Sets
}

func c36NewModel() *c36Model {
	m := &c36Model{imports: map[string]string{}, setMemo: map[string]*c36Sets{}}
	pkg, err := m.check(nil)
	if err != nil {
		panic(err)
	}
	m.pkg = pkg
	return m
}

func (m *c36Model) source(decls []c36Decl) string {
	var b strings.Builder
	b.WriteString("package main\n")
	for _, d := range decls {
		if d.Kind == "import" {
			b.WriteString(d.Src)
			b.WriteByte('\n')
		}
	}
	for _, d := range decls {
		if d.Kind != "import" {
			b.WriteString(d.Src)
			b.WriteByte('\n')
		}
	}
	return b.String()
}

// check type-checks the declaration list; returns the package or the first hard error.
func (m *c36Model) check(decls []c36Decl) (*types.Package, error) {
	fset := token.NewFileSet()
	f, err := parser.ParseFile(fset, "main.go", m.source(decls), 0)
	if err != nil {
		return nil, err
	}
	var first error
	conf := types.Config{Importer: c36Imp, Error: func(e error) {
		if strings.Contains(e.Error(), "imported and not used") {
			return
		}
		if first == nil {
			first = e
		}
	}}
	pkg, _ := conf.Check("main", fset, []*ast.File{f}, nil)
	if first != nil {
		return nil, first
	}
	return pkg, nil
}

// with returns the declaration list that results from adding d (replacing an older
// declaration of the same plain name when kinds allow it); ok=false when the generator
// must not do that (cross-kind re-declaration, re-declared type/import/method).
func (m *c36Model) with(d c36Decl) ([]c36Decl, bool) {
	out := make([]c36Decl, 0, len(m.decls)+1)
	for _, o := range m.decls {
		if o.Name == d.Name {
			replaceable := (o.Kind == "var" || o.Kind == "const" || o.Kind == "func") &&
				(d.Kind == "var" || d.Kind == "const" || d.Kind == "func")
			if !replaceable {
				return nil, false
			}
			continue
		}
		out = append(out, o)
	}
	return append(out, d), true
}

// try reports whether adding d keeps the record a valid Go package.
func (m *c36Model) try(d c36Decl) bool {
	decls, ok := m.with(d)
	if !ok {
		return false
	}
	_, err := m.check(decls)
	return err == nil
}

// add commits d (it must have passed try, or come from a replay).
func (m *c36Model) add(d c36Decl) error {
	decls, ok := m.with(d)
	if !ok {
		return fmt.Errorf("cannot add %v", d)
	}
	pkg, err := m.check(decls)
	if err != nil {
		return err
	}
	m.decls = decls
	m.history = append(m.history, d)
	m.pkg = pkg
	m.setMemo = map[string]*c36Sets{}
	if d.Kind == "import" {
		m.imports[d.Name] = d.Path
	}
	return nil
}

func (m *c36Model) declared(name string) bool {
	for _, d := range m.decls {
		if d.Name == name {
			return true
		}
	}
	return false
}

// plainNames returns the names a single identifier may complete to, as recorded by the harness.
func (m *c36Model) plainNames() []string {
	var out []string
	for _, d := range m.decls {
		if d.Kind != "method" && d.Name != "_" {
			out = append(out, d.Name)
		}
	}
	return out
}

// ---------------------------------------------------------------- selector sets

// c36Sets is the three-valued answer for "what may follow the dot":
// must = valid selectors by Go's rules; may = tolerated extras, with the reason.
type c36Sets struct {
	must     map[string]bool
	may      map[string]string
	base     types.Type // type whose members are listed (after pointer removal), for explanations
	features []string
}

func c36Accessible(o types.Object, main *types.Package) bool {
	return o.Exported() || o.Pkg() == main
}

func c36Deref(t types.Type) types.Type {
	if p, ok := types.Unalias(t).(*types.Pointer); ok {
		return p.Elem()
	}
	return t
}

// c36Walk visits t and, breadth-first, the types of its embedded fields (pointers removed).
// visit gets each type once; for struct types it is also handed every field.
func c36Walk(t types.Type, visitType func(t types.Type), visitField func(f *types.Var, owner types.Type)) {
	seen := map[types.Type]bool{}
	cur := []types.Type{c36Deref(t)}
	for len(cur) > 0 {
		var next []types.Type
		for _, x := range cur {
			x = types.Unalias(x)
			if seen[x] {
				continue
			}
			seen[x] = true
			visitType(x)
			if st, ok := x.Underlying().(*types.Struct); ok {
				for i := 0; i < st.NumFields(); i++ {
					f := st.Field(i)
					visitField(f, x)
					if f.Embedded() {
						next = append(next, c36Deref(f.Type()))
					}
				}
			}
		}
		cur = next
	}
}

// c36OwnMethods lists the methods declared on t itself (both receiver kinds) or, for an
// interface, its full method set.
func c36OwnMethods(t types.Type) []*types.Func {
	var out []*types.Func
	t = types.Unalias(t)
	if it, ok := t.Underlying().(*types.Interface); ok {
		for i := 0; i < it.NumMethods(); i++ {
			out = append(out, it.Method(i))
		}
		return out
	}
	if n, ok := t.(*types.Named); ok {
		for i := 0; i < n.NumMethods(); i++ {
			out = append(out, n.Method(i))
		}
	}
	return out
}

// candidateNames: every field and method name reachable through embedding, at any depth.
func c36CandidateNames(t types.Type) map[string]bool {
	names := map[string]bool{}
	c36Walk(t, func(x types.Type) {
		for _, f := range c36OwnMethods(x) {
			names[f.Name()] = true
		}
	}, func(f *types.Var, _ types.Type) {
		names[f.Name()] = true
	})
	return names
}

// valueSets: selectors valid on an operand of type t (addressable or not).
func (m *c36Model) valueSets(t types.Type, addressable bool) *c36Sets {
	key := fmt.Sprintf("v|%v|%s", addressable, types.TypeString(t, nil))
	if s, ok := m.setMemo[key]; ok {
		return s
	}
	s := &c36Sets{must: map[string]bool{}, may: map[string]string{}, base: c36Deref(t)}
	look := t
	ptrptr := false
	if p, ok := types.Unalias(t).(*types.Pointer); ok {
		if _, ok2 := types.Unalias(p.Elem()).(*types.Pointer); ok2 {
			ptrptr = true
			s.base = c36Deref(p.Elem())
		}
	}
	feat := map[string]bool{}
	for name := range c36CandidateNames(s.base) {
		if name == "_" {
			continue
		}
		obj, index, indirect := types.LookupFieldOrMethod(look, addressable, m.pkg, name)
		switch {
		case obj != nil:
			s.must[name] = true
			kind := "field"
			if _, ok := obj.(*types.Func); ok {
				kind = "method"
			}
			if len(index) > 1 {
				feat["promoted-"+kind] = true
				if indirect {
					feat["promoted-through-pointer"] = true
				}
			} else {
				feat["direct-"+kind] = true
			}
			if obj.Pkg() != m.pkg {
				feat["foreign-"+kind] = true
			}
		case index != nil:
			s.may[name] = "ambiguous-selector"
			feat["ambiguous-name"] = true
		case indirect:
			s.may[name] = "pointer-method-on-unaddressable"
		}
	}
	for f := range feat {
		s.features = append(s.features, f)
	}
	sort.Strings(s.features)
	if ptrptr {
		// Go: no selector is valid on **T. gomacro lists T's members: tolerated, counted.
		inner := m.valueSets(types.Unalias(t).(*types.Pointer).Elem(), true)
		for n := range inner.must {
			s.may[n] = "pointer-to-pointer"
		}
		for n, why := range inner.may {
			s.may[n] = why
		}
	}
	m.setMemo[key] = s
	return s
}

// typeSets: selectors valid after a TYPE (method expressions T.M).
func (m *c36Model) typeSets(t types.Type) *c36Sets {
	key := "t|" + types.TypeString(t, nil)
	if s, ok := m.setMemo[key]; ok {
		return s
	}
	s := &c36Sets{must: map[string]bool{}, may: map[string]string{}, base: c36Deref(t)}
	ms := types.NewMethodSet(t)
	for i := 0; i < ms.Len(); i++ {
		if o := ms.At(i).Obj(); c36Accessible(o, m.pkg) {
			s.must[o.Name()] = true
		}
	}
	// gomacro extension: T.PtrMethod compiles; fields after a type name never compile but
	// the property does not single out type operands: both tolerated, counted.
	v := m.valueSets(t, true)
	for n := range v.must {
		if !s.must[n] {
			s.may[n] = "type-operand"
		}
	}
	for n, why := range v.may {
		s.may[n] = why
	}
	m.setMemo[key] = s
	return s
}

// ---------------------------------------------------------------- explanations

// explainExtra classifies a name offered after the dot that is neither valid nor tolerated.
func (m *c36Model) explainExtra(base types.Type, name string) string {
	foreignUnexported, nonEmbeddedMethod := false, false
	c36Walk(base, func(x types.Type) {
		for _, f := range c36OwnMethods(x) {
			if f.Name() == name && !f.Exported() && f.Pkg() != m.pkg {
				foreignUnexported = true
			}
		}
	}, func(f *types.Var, _ types.Type) {
		if f.Name() == name && !f.Exported() && f.Pkg() != m.pkg {
			foreignUnexported = true
		}
		if !f.Embedded() {
			if _, isPtr := types.Unalias(f.Type()).(*types.Pointer); !isPtr {
				for _, mt := range c36OwnMethods(f.Type()) {
					if mt.Name() == name {
						nonEmbeddedMethod = true
						if !mt.Exported() && mt.Pkg() != m.pkg {
							foreignUnexported = true
						}
					}
				}
			}
		}
	})
	switch {
	case !token.IsExported(name) && foreignUnexported:
		return "C36-foreign-unexported-members-offered"
	case nonEmbeddedMethod:
		return "C36-methods-of-nonembedded-fields"
	}
	return ""
}

// explainMissing classifies a valid selector that was not offered.
func (m *c36Model) explainMissing(t types.Type, addressable bool, name string) string {
	obj, index, _ := types.LookupFieldOrMethod(t, addressable, m.pkg, name)
	if _, isFunc := obj.(*types.Func); !isFunc || len(index) < 2 {
		return ""
	}
	// follow the embedded-field path; the field that declares the method is the last one
	cur := c36Deref(t)
	var last *types.Var
	for _, i := range index[:len(index)-1] {
		st, ok := cur.Underlying().(*types.Struct)
		if !ok || i >= st.NumFields() {
			return ""
		}
		last = st.Field(i)
		cur = c36Deref(last.Type())
	}
	if last != nil {
		if _, isPtr := types.Unalias(last.Type()).(*types.Pointer); isPtr {
			return "C36-embedded-pointer-methods-missing"
		}
	}
	return ""
}

// ---------------------------------------------------------------- line parsing (model side)

func c36IdentRune(c rune) bool { return c == '_' || unicode.IsLetter(c) || unicode.IsDigit(c) }
func c36Space(c rune) bool     { return c == ' ' || c == '\t' }

type c36Parsed struct {
	class   string   // chain | word | none | dot-after-nonident | digit-adjacent
	words   []string // identifiers of the chain; the last one is the (possibly empty) partial
	partial string
}

// c36Parse reads, backwards from the cursor, the dotted identifier chain the property talks about.
func c36Parse(head []rune) c36Parsed {
	i := len(head)
	j := i
	for j > 0 && c36IdentRune(head[j-1]) {
		j--
	}
	p := c36Parsed{partial: string(head[j:i])}
	if j < i && unicode.IsDigit(head[j]) {
		p.class = "digit-adjacent"
		return p
	}
	words := []string{p.partial}
	k := j
	for {
		q := k
		for q > 0 && c36Space(head[q-1]) {
			q--
		}
		if q == 0 || head[q-1] != '.' {
			break
		}
		q--
		for q > 0 && c36Space(head[q-1]) {
			q--
		}
		e := q
		for q > 0 && c36IdentRune(head[q-1]) {
			q--
		}
		if q == e {
			p.class = "dot-after-nonident"
			return p
		}
		if unicode.IsDigit(head[q]) {
			p.class = "digit-adjacent"
			return p
		}
		words = append([]string{string(head[q:e])}, words...)
		k = q
	}
	p.words = words
	switch {
	case len(words) == 1 && p.partial == "":
		p.class = "none"
	case len(words) == 1:
		p.class = "word"
	default:
		p.class = "chain"
	}
	return p
}

// ---------------------------------------------------------------- expectations

type c36Expect struct {
	must     []string
	may      map[string]string
	rootKind string
	lastNode string
	// for explanations
	sets        *c36Sets
	lookType    types.Type
	addressable bool
	// a middle word of the chain was selected on a pointer-typed operand (p.f.<TAB> with p a *T)
	midOnPointer bool
}

func c36Filter(set map[string]bool, prefix string) []string {
	var out []string
	for n := range set {
		if strings.HasPrefix(n, prefix) {
			out = append(out, n)
		}
	}
	sort.Strings(out)
	return out
}

// expectWord: a single partial identifier completes to declared names, predeclared names, keywords.
func (m *c36Model) expectWord(partial string, predeclared []string, keywords []string) *c36Expect {
	set := map[string]bool{}
	for _, n := range m.plainNames() {
		set[n] = true
	}
	for _, n := range predeclared {
		set[n] = true
	}
	for _, n := range keywords {
		set[n] = true
	}
	e := &c36Expect{must: c36Filter(set, partial), may: map[string]string{}, rootKind: "-", lastNode: "scope"}
	if strings.HasPrefix("template", partial) {
		e.may["template"] = "gomacro-generics-v1-keyword"
	}
	return e
}

func c36TypeClass(t types.Type) string {
	t = types.Unalias(t)
	ptr := ""
	if p, ok := t.(*types.Pointer); ok {
		ptr = "*"
		t = types.Unalias(p.Elem())
		if _, ok := t.(*types.Pointer); ok {
			return "**T"
		}
	}
	foreign := ""
	if n, ok := t.(*types.Named); ok && n.Obj().Pkg() != nil && n.Obj().Pkg().Name() != "main" {
		foreign = "foreign-"
	}
	switch t.Underlying().(type) {
	case *types.Struct:
		return ptr + foreign + "struct"
	case *types.Interface:
		return ptr + foreign + "interface"
	}
	if _, ok := t.(*types.Named); ok {
		return ptr + foreign + "named-nonstruct"
	}
	return ptr + "unnamed-other"
}

// expectChain: words[0] is resolved in scope, the middle words are followed as fields /
// package members, and the last word is completed on what the chain denotes.
// importMembers(path) gives the import-table names of a package.
func (m *c36Model) expectChain(words []string, predeclaredTypes map[string]bool, importMembers func(path string) map[string]bool) *c36Expect {
	e := &c36Expect{may: map[string]string{}}
	partial := words[len(words)-1]
	mid := words[1 : len(words)-1]
	root := words[0]

	var (
		isPkg    bool
		pkgPath  string
		typ      types.Type
		isType   bool
		addr     = true
		tolerate = "" // a tolerated oddity met on the way (type operand followed by a field)
	)
	if path, ok := m.imports[root]; ok {
		isPkg, pkgPath, e.rootKind = true, path, "import"
	} else if obj := m.pkg.Scope().Lookup(root); obj != nil && m.declared(root) {
		switch o := obj.(type) {
		case *types.Var:
			typ, e.rootKind = o.Type(), "var"
		case *types.Const:
			typ, addr, e.rootKind = o.Type(), false, "const"
		case *types.Func:
			typ, addr, e.rootKind = o.Type(), false, "func"
		case *types.TypeName:
			typ, isType, e.rootKind = o.Type(), true, "type"
		}
	} else if predeclaredTypes[root] {
		if o, ok := types.Universe.Lookup(root).(*types.TypeName); ok {
			typ, isType, e.rootKind = o.Type(), true, "universe-type"
		} else {
			e.rootKind, e.lastNode = "universe-other", "nothing"
			return e
		}
	} else {
		e.rootKind, e.lastNode = "unresolved", "nothing"
		return e
	}

	for i, w := range mid {
		if isPkg {
			if i != 0 {
				e.lastNode = "nothing"
				return e
			}
			gp, err := c36Imp.Import(pkgPath)
			if err != nil || !importMembers(pkgPath)[w] {
				e.lastNode = "nothing"
				return e
			}
			obj := gp.Scope().Lookup(w)
			if obj == nil || !obj.Exported() {
				// in gomacro's import table but not in this toolchain's package: outside the reference
				e.lastNode = "unknown"
				return e
			}
			isPkg = false
			switch o := obj.(type) {
			case *types.Var:
				typ = o.Type()
			case *types.Const:
				typ, addr = o.Type(), false
			case *types.Func:
				typ, addr = o.Type(), false
			case *types.TypeName:
				typ, isType = o.Type(), true
			}
			continue
		}
		if _, isPtr := types.Unalias(typ).(*types.Pointer); isPtr {
			e.midOnPointer = true
		}
		obj, _, _ := types.LookupFieldOrMethod(typ, addr, m.pkg, w)
		f, ok := obj.(*types.Var)
		if !ok || !f.IsField() {
			e.lastNode = "nothing"
			return e
		}
		if isType {
			tolerate = "type-operand"
			isType = false
		}
		typ, addr = f.Type(), true
	}

	if isPkg {
		e.lastNode = "import"
		e.must = c36Filter(importMembers(pkgPath), partial)
		return e
	}
	if b, ok := types.Unalias(typ).(*types.Basic); ok && b.Info()&types.IsUntyped != 0 {
		e.lastNode = "untyped-const"
		return e
	}
	var s *c36Sets
	if isType {
		s = m.typeSets(typ)
		e.lastNode = "type:" + c36TypeClass(typ)
	} else {
		s = m.valueSets(typ, addr)
		e.lastNode = "value:" + c36TypeClass(typ)
	}
	e.sets, e.lookType, e.addressable = s, typ, addr || isType
	for n := range s.must {
		if strings.HasPrefix(n, partial) {
			if tolerate != "" {
				e.may[n] = tolerate
			} else {
				e.must = append(e.must, n)
			}
		}
	}
	sort.Strings(e.must)
	for n, why := range s.may {
		if strings.HasPrefix(n, partial) {
			e.may[n] = why
		}
	}
	return e
}
