package main

import (
	"fmt"
	"os"

	"github.com/cosmos72/gomacro/base"
	"github.com/cosmos72/gomacro/fast"
	"github.com/cosmos72/gomacro/go/etoken"
)

func init() {
	// `gmverif c35trace file`: run a plain source with generics debugging on (development aid)
	auxCmds["c35trace"] = func(args []string) {
		data, _ := os.ReadFile(args[0])
		etoken.GENERICS = etoken.GENERICS_V2_CTI
		ir := fast.New()
		ir.Comp.Globals.Options |= base.OptDebugGenerics
		ir.DeclFunc("rec", func(tag int, v ...interface{}) { fmt.Println("rec", tag, v) })
		defer func() {
			if r := recover(); r != nil {
				fmt.Println("PANIC:", r)
			}
		}()
		ir.Eval(string(data))
		ir.Eval("P()")
	}
}
