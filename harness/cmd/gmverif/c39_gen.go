package main

// C39 source generator: whole-file Go programs (package clause, imports, declarations, func main that
// prints a trace). A file is assembled from
//   - a random program of the C38 generator (functions, closures, control flow, containers),
//   - declaration-level snippets that cover the rest of Go's syntax (methods, interfaces, embedded
//     structs, grouped var/const/type declarations with iota, arrays, labels, goto, channels, select,
//     type switches, literals of every form, parenthesised and precedence-sensitive expressions),
//   - optionally gomacro macros (":macro" definitions, evaluated but not written) and their uses.

import (
	"fmt"
	"math/rand"
	"sort"
	"strings"
)

type c39File struct {
	ID     string   `json:"id"`
	Src    string   `json:"src"`              // what gomacro reads (file.gomacro)
	Ref    string   `json:"ref"`              // equivalent plain Go (== Src when there are no macros)
	Macros []string `json:"macros,omitempty"` // macro declarations (without the leading ':')
	Plain  string   `json:"plain,omitempty"`  // Src without the ':' chunks (macro files only)
	Feats  []string `json:"feats"`
}

type c39Snippet struct {
	name    string
	imports []string
	decls   string // top-level declarations; %N% = unique suffix
	body    string // statements for main
}

func c39Fill(s string, n int, rng *rand.Rand) string {
	// parentheses that the grammar requires around a receive-only channel type: dropped by the writer
	// (finding C39-paren-unwrap), so most files use the unaffected spelling
	chanConv, chanChan := "(chan int)(nil) == nil", "chan (chan int)"
	if rng.Intn(100) < 12 {
		chanConv = "(<-chan int)(nil) == nil"
	}
	if rng.Intn(100) < 12 {
		chanChan = "chan (<-chan int)"
	}
	r := strings.NewReplacer(
		"%CHANCONV%", chanConv,
		"%CHANCHAN%", chanChan,
		"%N%", "_"+fmt.Sprint(n),
		"%I1%", fmt.Sprint(1+rng.Intn(9)),
		"%I2%", fmt.Sprint(2+rng.Intn(20)),
		"%I3%", fmt.Sprint(rng.Intn(100)),
		"%S1%", fmt.Sprintf("%q", []string{"a", "bc", "héllo", "x y", "q\"q", "tab\there"}[rng.Intn(6)]),
		"%S2%", fmt.Sprintf("%q", []string{"go", "", "日本", "end"}[rng.Intn(4)]),
		"%OP%", []string{"+", "-", "*", "|", "^", "&"}[rng.Intn(6)],
		"%CMP%", []string{"<", "<=", ">", ">=", "==", "!="}[rng.Intn(6)],
	)
	return r.Replace(s)
}

var c39Snippets = []c39Snippet{
	{name: "methods-embedding", decls: `
type Point%N% struct {
	X, Y int
}

type Named%N% struct {
	Point%N%
	Name string ` + "`json:\"name,omitempty\" xml:\"n\"`" + `
	tags []string
}

func (p Point%N%) Sum() int { return p.X %OP% p.Y }

func (p *Point%N%) Scale(k int) {
	p.X *= k
	p.Y *= k
}

func (n Named%N%) String() string {
	return fmt.Sprintf("%s(%d,%d)%v", n.Name, n.X, n.Y, n.tags)
}
`, body: `
	n%N% := Named%N%{Point%N%{%I1%, %I2%}, %S1%, nil}
	n%N%.Scale(%I1%)
	(&n%N%).Point%N%.Scale(2)
	n%N%.tags = append(n%N%.tags, %S2%)
	f%N% := n%N%.Sum
	g%N% := Point%N%.Sum
	h%N% := (*Point%N%).Scale
	h%N%(&n%N%.Point%N%, 3)
	fmt.Println(n%N%, f%N%(), g%N%(n%N%.Point%N%), n%N%.String())
`},
	{name: "interfaces-typeswitch", decls: `
type Shape%N% interface {
	Area() float64
	fmt.Stringer
}

type (
	Rect%N% struct{ W, H float64 }
	Circ%N% struct{ R float64 }
)

func (r Rect%N%) Area() float64   { return r.W * r.H }
func (r Rect%N%) String() string  { return "rect" }
func (c *Circ%N%) Area() float64  { return 3 * c.R * c.R }
func (c *Circ%N%) String() string { return "circ" }

func classify%N%(v interface{}) string {
	switch x := v.(type) {
	case nil:
		return "nil"
	case int, int64:
		return fmt.Sprint("int ", x)
	case string:
		return "string " + x
	case Shape%N%:
		return "shape " + x.String()
	case []int:
		return fmt.Sprint("ints ", len(x))
	case func() int:
		return "func"
	default:
		return fmt.Sprintf("%T", x)
	}
}
`, body: `
	shapes%N% := []Shape%N%{Rect%N%{%I1%, %I2%}, &Circ%N%{R: %I1%}}
	for i, s := range shapes%N% {
		if r, ok := s.(Rect%N%); ok {
			fmt.Println(i, "rect", r.W, r.Area())
		} else if _, ok := s.(*Circ%N%); ok {
			fmt.Println(i, s, s.Area())
		}
	}
	var e%N% interface{}
	fmt.Println(classify%N%(e%N%), classify%N%(%I3%), classify%N%(%S1%), classify%N%(shapes%N%[0]), classify%N%([]int{1, 2}), classify%N%(2.5), classify%N%(func() int { return 1 }))
	switch y := e%N%.(type) {
	default:
		_ = y
		fmt.Println("default first")
	case error:
		fmt.Println(y.Error())
	}
`},
	{name: "const-iota-groups", decls: `
type Color%N% int

const (
	Red%N% Color%N% = iota
	Green%N%
	_
	Blue%N%
	numColors%N% = iota
)

const (
	KB%N% = 1 << (10 * (iota + 1))
	MB%N%
	GB%N%
)

const (
	a%N%, b%N% = iota, iota * %I2%
	c%N%, d%N%
	e%N%, f%N% = "s" + %S1%, 'x'
)

const typed%N% float64 = %I2% / 4.0
const big%N% = 1 << 70 >> 68
const (
	mask%N% uint8 = 1<<3 | 1<<1
	neg%N%        = -(%I1% + 2) * 3
)

func (c Color%N%) String() string {
	return [...]string{"R", "G", "?", "B"}[c]
}
`, body: `
	fmt.Println(Red%N%, Green%N%, Blue%N%, numColors%N%, KB%N%, MB%N%, GB%N%/MB%N%, a%N%, b%N%, c%N%, d%N%, e%N%, f%N%, typed%N%, big%N%, mask%N%, neg%N%)
`},
	{name: "var-groups", decls: `
var (
	x%N%, y%N% int = %I1%, %I2%
	z%N%           = x%N% %OP% y%N%
	s%N% string
	m%N% = map[string][]int{"a": {1, 2}, "b": nil}
	f%N% func(int) int = func(i int) int { return i + %I1% }
)

var p%N%, q%N% = &x%N%, [2]bool{true}

var arr%N% = [...]string{2: "c", 0: "a"}
`, body: `
	*p%N% += %I3%
	s%N% += %S1%
	fmt.Println(x%N%, y%N%, z%N%, s%N%, m%N%, f%N%(y%N%), *p%N%, q%N%, len(arr%N%), arr%N%)
`},
	{name: "type-groups", decls: `
type (
	Pair%N% struct {
		K string
		V int
	}
	List%N%  []Pair%N%
	Index%N% map[string]List%N%
	Fn%N%    func(Pair%N%) (string, error)
	Grid%N%  [2][3]int
	Ptr%N%   *Pair%N%
	Ch%N%    chan<- Pair%N%
	Any%N%   = interface{}
	anon%N%  struct {
		A, B int
		C    struct{ D []byte }
		e    *anon%N%
	}
)

func (l List%N%) Len() int { return len(l) }
`, body: `
	idx%N% := Index%N%{"k": {{"a", 1}, {K: "b", V: %I2%}}, "e": List%N%{}}
	var fn%N% Fn%N% = func(p Pair%N%) (string, error) { return p.K, nil }
	k%N%, err%N% := fn%N%(idx%N%["k"][1])
	var g%N% Grid%N%
	g%N%[1][2] = %I3%
	var an%N% anon%N%
	an%N%.C.D = []byte("hi")
	an%N%.e = &an%N%
	var any%N% Any%N% = Ptr%N%(&idx%N%["k"][0])
	_, isPtr%N% := any%N%.(Ptr%N%)
	fmt.Println(idx%N%, idx%N%["k"].Len(), k%N%, err%N%, g%N%, string(an%N%.e.C.D), isPtr%N%)
`},
	{name: "composite-literals", body: `
	mat%N% := [][]int{{1, 2}, {3}, nil, {}}
	pts%N% := []struct{ X, Y int }{{1, 2}, {Y: %I1%}}
	mp%N% := map[[2]int]*struct{ S string }{{1, 2}: {"a"}, {3, 4}: {S: %S1%}}
	nested%N% := map[string]map[int][]string{"o": {1: {"p", "q"}}, "e": {}}
	keyed%N% := []string{3: "d", 1: "b", "c"}
	arr%N% := [...]float64{1, 2.5, 1e3, .5, 0x1p-2}
	ptrs%N% := []*[]int{{1}, {}}
	fmt.Println(mat%N%, pts%N%, mp%N%[[2]int{3, 4}].S, nested%N%, len(keyed%N%), keyed%N%, arr%N%, *ptrs%N%[0], len(*ptrs%N%[1]))
`},
	{name: "labels-goto", body: `
	cnt%N% := 0
outer%N%:
	for i := 0; i < 4; i++ {
	inner%N%:
		for j := 0; j < 4; j++ {
			switch {
			case j == 1:
				continue inner%N%
			case i == 2:
				continue outer%N%
			case i+j > 4:
				break outer%N%
			case j == 3:
				break inner%N%
			}
			cnt%N% += i*10 + j
		}
	}
	k%N% := 0
loop%N%:
	if k%N% < %I1% {
		k%N%++
		goto loop%N%
	}
blk%N%:
	switch {
	default:
		if k%N% > 0 {
			break blk%N%
		}
		fmt.Println("not reached")
	}
	fmt.Println(cnt%N%, k%N%)
`},
	{name: "channels-select", body: `
	ch%N% := make(chan int, 4)
	done%N% := make(chan struct{})
	var recvOnly%N% <-chan int = ch%N%
	var sendOnly%N% chan<- int = ch%N%
	go func(n int) {
		defer close(done%N%)
		for i := 0; i < n; i++ {
			sendOnly%N% <- i * %I1%
		}
	}(3)
	<-done%N%
	sum%N% := 0
	for len(ch%N%) > 0 {
		select {
		case v, ok := <-recvOnly%N%:
			if ok {
				sum%N% += v
			}
		default:
			fmt.Println("empty")
		}
	}
	close(ch%N%)
	for v := range ch%N% {
		sum%N% += v
	}
	_, ok%N% := <-ch%N%
	var nilch%N% %CHANCHAN%
	select {
	case c := <-nilch%N%:
		_ = c
	case ch2 := <-done%N%:
		_ = ch2
		fmt.Println("done closed")
	}
	fmt.Println(sum%N%, ok%N%, nilch%N% == nil)
`},
	{name: "literals", body: `
	fmt.Println(0x1F, 0XfF, 017, 0o17, 0b1011, 1_000_000, 0x_FF, 1e3, 1E-2, .25, 6.02e+23, 0x1p4, 1_0.2_5, 3i, 1.5i, 'a', '\n', '\'', '\x41', 'é', '\U0001F600', '\101')
	fmt.Println("esc\t\"q\"\\ é \x41 \101", ` + "`raw \\n \"q\"\n second line`" + `, len(%S1%), "" == %S2%)
	var r%N% rune = 'x' + %I1%
	var b%N% byte = 'a'
	var u%N% uint16 = 0xFFFF
	var f32%N% float32 = 1.0 / 3
	var c%N% complex64 = complex(1, -2)
	fmt.Println(r%N%, b%N%, u%N%+1, f32%N%, real(c%N%), imag(c%N%*c%N%), ^uint8(%I1%), -7/2, -7%3, 7&^5, 1<<3>>1, uint32(1)<<31)
`},
	{name: "parens-precedence", decls: `
type T%N% struct{ A, B int }

func mk%N%(a, b int) T%N% { return T%N%{a, b} }
`, body: `
	a%N%, b%N%, c%N% := %I1%, %I2%, %I3%+1
	p%N% := &a%N%
	pp%N% := &p%N%
	t%N% := &T%N%{a%N%, b%N%}
	fmt.Println(a%N%-(b%N%-c%N%), (a%N%-b%N%)-c%N%, a%N%*(b%N%+c%N%), (a%N%+b%N%)*c%N%, a%N%/(b%N%*c%N%), a%N%/b%N%*c%N%, -(-a%N%), - -a%N%, +(+a%N%), ^(^a%N%), -(a%N% + b%N%), !(a%N% > b%N%), !(!(a%N% == b%N%)))
	fmt.Println((*p%N%)+1, *p%N%+1, (**pp%N%)*2, (*t%N%).A, (&(*t%N%)).B, (*t%N%), a%N%<<(uint(b%N%)%4), (a%N%<<1)+1, a%N%<<(1+1), a%N%&(b%N%|c%N%), (a%N%&b%N%)|c%N%, a%N% < b%N% == (b%N% < c%N%), (a%N% < b%N%) == (b%N% > c%N%))
	fmt.Println((a%N%), ((b%N%)), (mk%N%)(1, 2), (mk%N%(3, 4)).A, mk%N%((a%N%), (b%N%)).B, ([]int{1, 2, 3})[(1)], (map[string]int{"k": 1})["k"], (func() int { return (c%N%) })(), (*T%N%)(t%N%).A, (interface{})(a%N%).(int), ([]byte)("x")[0], %CHANCONV%)
	(*p%N%)++
	(a%N%) = (a%N%) + (1)
	(*t%N%).A, (t%N%.B) = (t%N%.B), ((*t%N%).A)
	fmt.Println(a%N%, *t%N%)
	if (a%N% > 0) && ((b%N% > 0) || (c%N% > 0)) {
		fmt.Println("and-or")
	}
	for i := (0); (i) < (2); (i)++ {
		fmt.Println((i))
	}
	switch (a%N% + 1) {
	case (a%N% + 1):
		fmt.Println("paren case")
	}
`},
	{name: "statements", decls: `
func multi%N%(a int, bs ...string) (n int, s string, err error) {
	defer func() {
		if r := recover(); r != nil {
			err = fmt.Errorf("recovered: %v", r)
			n = -1
		}
	}()
	for _, b := range bs {
		n += len(b)
		s += b
	}
	if a < 0 {
		panic("negative")
	}
	return n * a, s, nil
}
`, body: `
	n%N%, s%N%, err%N% := multi%N%(%I1%, "x", %S1%)
	fmt.Println(n%N%, s%N%, err%N%)
	_, _, err%N% = multi%N%(-1)
	fmt.Println(err%N%)
	args%N% := []string{"p", "q"}
	if n, _, _ := multi%N%(2, args%N%...); n > 3 {
		fmt.Println("big", n)
	} else if n == 0 {
		fmt.Println("zero")
	} else {
		fmt.Println("small", n)
	}
	switch x := n%N% % 3; x {
	case 0, 1:
		fmt.Println("0-1")
		fallthrough
	case 2:
		fmt.Println("2")
	default:
		fmt.Println("other")
	}
	switch x := %I3%; {
	case x > 50:
		fmt.Println(">50")
	case x > 10:
		fmt.Println(">10")
	}
	var i%N% int
	for i%N% = 0; i%N% < 3; i%N%++ {
	}
	for i%N% < 6 {
		i%N% += 2
	}
	for {
		i%N%--
		if i%N% < 0 {
			break
		}
	}
	for range args%N% {
		i%N%++
	}
	for i := range args%N% {
		i%N% += i
	}
	for i%N%, s%N% = range args%N% {
	}
	for i, c := range "aé" {
		fmt.Print(i, c, " ")
	}
	var arrp%N% = &[3]int{1, 2, 3}
	for i, v := range arrp%N% {
		arrp%N%[i] = v * v
	}
	;
	{
	}
	{
		v := i%N%
		fmt.Println(v, s%N%, arrp%N%[1:], arrp%N%[:2:3], cap(arrp%N%[1:2:2]))
	}
	func() {
		defer fmt.Println("deferred", %I1%)
		defer func(a, b int) { fmt.Println(a + b) }(1, %I2%)
		go func() {}()
	}()
`},
	{name: "closures-funcs", decls: `
func compose%N%(fs ...func(int) int) func(int) int {
	return func(x int) int {
		for _, f := range fs {
			x = f(x)
		}
		return x
	}
}

func pair%N%() (func() int, func()) {
	c := %I1%
	return func() int { return c }, func() { c++ }
}

var _ = compose%N%

var inited%N% []string

func init() {
	inited%N% = append(inited%N%, "first init")
}

func init() {
	inited%N% = append(inited%N%, "second init")
}
`, body: `
	get%N%, inc%N% := pair%N%()
	inc%N%()
	inc%N%()
	h%N% := compose%N%(func(i int) int { return i %OP% %I2% }, func(i int) int { return i * i })
	fmt.Println(get%N%(), h%N%(%I1%), compose%N%()(7), func(xs ...int) int { return len(xs) }(1, 2, 3))
	var rec%N% func(int) int
	rec%N% = func(n int) int {
		if n <= 1 {
			return 1
		}
		return n * rec%N%(n-1)
	}
	fmt.Println(rec%N%(%I1%), inited%N%)
`},
	{name: "scoped-declarations", body: `
	const sc%N% = %I1%
	type st%N% int
	var sx%N% = %I2%
	{
		const sc%N% = "inner"
	}
	{
		type st%N% string
	}
	{
		var _ = fmt.Sprint("only a declaration")
	}
	{
		{
			var sx%N%, _ = "shadow", sx%N%
			_ = sx%N%
		}
	}
	if sx%N% > 0 {
		var _ = sx%N%
	}
	for i := 0; i < 2; i++ {
		const sc%N% = 'c'
	}
	var sv%N% st%N% = sc%N% + st%N%(sx%N%)
	fmt.Println(sc%N%, sv%N%, sx%N%)
`},
	{name: "imports-used", imports: []string{`str "strings"`, `"os"`, `"sort"`, `. "math"`, `_ "embed"`, `"strconv"`}, body: `
	xs%N% := []string{"b", %S1%, "a"}
	sort.Strings(xs%N%)
	fmt.Println(str.ToUpper(str.Join(xs%N%, ",")), len(os.Args) > 0, Sqrt(16), Pi > 3, strconv.Itoa(%I3%), MaxInt8)
`},
}

// c39Macros: gomacro macro definitions (read as ":macro ..." chunks), one use in the source, the same use expanded by hand.
type c39Macro struct {
	name string
	decl string // macro declaration, %N% suffix
	use  string // statements using the macro (inside a function body)
	exp  string // the hand-written expansion, plain Go with the same behaviour
}

var c39MacroList = []c39Macro{
	{name: "twice", decl: `macro twice%N%(x ast.Node) ast.Node {
	return ~"{~,x; ~,x}
}`,
		use: "\ttwice%N%; fmt.Println(\"tw\", %I1%)\n",
		exp: "\tfmt.Println(\"tw\", %I1%)\n\tfmt.Println(\"tw\", %I1%)\n"},
	{name: "unless", decl: `macro unless%N%(cond ast.Node, body ast.Node) ast.Node {
	return ~"{if !(~,cond) {~,body}}
}`,
		use: "\tunless%N%; mv%N% > %I2%; fmt.Println(\"small\", mv%N%)\n",
		exp: "\tif !(mv%N% > %I2%) {\n\t\tfmt.Println(\"small\", mv%N%)\n\t}\n"},
	{name: "swap", decl: `macro swap%N%(a ast.Node, b ast.Node) ast.Node {
	return ~"{~,a, ~,b = ~,b, ~,a}
}`,
		use: "\tswap%N%; mv%N%; mw%N%\n",
		exp: "\tmv%N%, mw%N% = mw%N%, mv%N%\n"},
	{name: "repeat3", decl: `macro repeat3%N%(body ast.Node) ast.Node {
	return ~"{for ri := 0; ri < 3; ri++ {~,body}}
}`,
		use: "\trepeat3%N%; mw%N% += mv%N%\n",
		exp: "\tfor ri := 0; ri < 3; ri++ {\n\t\tmw%N% += mv%N%\n\t}\n"},
	{name: "square-assign", decl: `macro sqassign%N%(dst ast.Node, x ast.Node) ast.Node {
	return ~"{~,dst = (~,x) * (~,x)}
}`,
		use: "\tsqassign%N%; mw%N%; mv%N% + 1\n",
		exp: "\tmw%N% = (mv%N% + 1) * (mv%N% + 1)\n"},
}

const c39Prelude = `
func rec(tag int, v ...interface{}) {
	fmt.Println(append([]interface{}{tag}, v...)...)
}

func pcl(r interface{}) string {
	if e, ok := r.(error); ok {
		return "error: " + e.Error()
	}
	return fmt.Sprint(r)
}
`

// c39Generate builds one source file.
func c39Generate(id int, rng *rand.Rand) *c39File {
	f := &c39File{ID: fmt.Sprintf("p%04d", id)}
	feats := map[string]bool{}
	imports := []string{`"fmt"`}
	var decls, body strings.Builder

	// C38 program as bulk: every construct of its subset; all planted shapes are plain valid Go here
	withC38 := rng.Intn(100) < 70
	if withC38 {
		known := map[string]bool{}
		for _, k := range []string{"recover-define", "recover-results", "grouped-type", "append-spread", "defer-args", "range-live", "variadic-one-arg"} {
			if rng.Intn(100) < 40 {
				known[k] = true
			}
		}
		noStructCond := rng.Intn(100) < 85
		p, fs, _ := c38GenerateOpt(id, rng, known, c38Opts{noFuncRec: true, noStructLitInCond: noStructCond})
		decls.WriteString(c39Prelude)
		decls.WriteString(strings.ReplaceAll(p.Src, "§", ""))
		body.WriteString("\tP()\n")
		for _, x := range fs {
			feats["c38:"+x] = true
		}
		feats["c38-program"] = true
	}
	// snippets
	ns := 2 + rng.Intn(4)
	if !withC38 {
		ns += 2
	}
	perm := rng.Perm(len(c39Snippets))
	for i := 0; i < ns && i < len(perm); i++ {
		sn := c39Snippets[perm[i]]
		n := i + 1
		for _, im := range sn.imports {
			dup := false
			for _, have := range imports {
				if have == im {
					dup = true
				}
			}
			if !dup {
				imports = append(imports, im)
			}
		}
		decls.WriteString(c39Fill(sn.decls, n, rng))
		body.WriteString("\t{\n" + c39Fill(sn.body, n, rng) + "\t}\n")
		feats["snippet:"+sn.name] = true
	}
	// macros
	var macroDecls []string
	var useSrc, useRef strings.Builder
	if rng.Intn(100) < 30 {
		nm := 1 + rng.Intn(3)
		mperm := rng.Perm(len(c39MacroList))
		useSrc.WriteString("\tmv_90, mw_90 := 3, 40\n")
		useRef.WriteString("\tmv_90, mw_90 := 3, 40\n")
		for i := 0; i < nm; i++ {
			m := c39MacroList[mperm[i]]
			seed := rng.Int63()
			fill := func(s string) string { return c39Fill(s, 90, rand.New(rand.NewSource(seed))) }
			macroDecls = append(macroDecls, fill(m.decl))
			useSrc.WriteString(fill(m.use))
			useRef.WriteString(fill(m.exp))
			feats["macro:"+m.name] = true
		}
		useSrc.WriteString("\tfmt.Println(\"macros\", mv_90, mw_90)\n")
		useRef.WriteString("\tfmt.Println(\"macros\", mv_90, mw_90)\n")
	}

	// import declaration forms: one group, several single declarations, or a mix
	var imp strings.Builder
	switch form := rng.Intn(3); {
	case form == 0 || len(imports) == 1 && form == 1:
		if len(imports) == 1 && rng.Intn(2) == 0 {
			imp.WriteString("import " + imports[0] + "\n")
		} else {
			imp.WriteString("import (\n")
			for _, im := range imports {
				imp.WriteString("\t" + im + "\n")
			}
			imp.WriteString(")\n")
		}
		feats["imports-grouped"] = true
	case form == 1:
		for _, im := range imports {
			imp.WriteString("import " + im + "\n")
		}
		feats["imports-single"] = true
	default:
		imp.WriteString("import " + imports[0] + "\n")
		if len(imports) > 1 {
			imp.WriteString("import (\n")
			for _, im := range imports[1:] {
				imp.WriteString("\t" + im + "\n")
			}
			imp.WriteString(")\n")
		}
		feats["imports-mixed"] = true
	}

	build := func(macros bool) string {
		var b strings.Builder
		b.WriteString("// generated test input " + f.ID + "\n\npackage main\n\n")
		b.WriteString(imp.String())
		if macros && len(macroDecls) > 0 {
			b.WriteString("\n:import \"go/ast\"\n")
			for _, m := range macroDecls {
				b.WriteString("\n:" + m + "\n")
			}
		}
		b.WriteString(decls.String())
		b.WriteString("\nfunc main() {\n\tdefer func() {\n\t\tif r := recover(); r != nil {\n\t\t\tfmt.Println(\"PANIC:\", r)\n\t\t}\n\t}()\n")
		b.WriteString(body.String())
		if len(macroDecls) > 0 {
			if macros {
				b.WriteString(useSrc.String())
			} else {
				b.WriteString(useRef.String())
			}
		}
		b.WriteString("}\n")
		return b.String()
	}
	f.Src = build(true)
	f.Ref = build(false)
	if len(macroDecls) > 0 {
		f.Macros = macroDecls
		// the source without the force-evaluated ':' chunks
		var b strings.Builder
		b.WriteString("package main\n\n" + imp.String() + decls.String())
		b.WriteString("\nfunc main() {\n\tdefer func() {\n\t\tif r := recover(); r != nil {\n\t\t\tfmt.Println(\"PANIC:\", r)\n\t\t}\n\t}()\n")
		b.WriteString(body.String() + useSrc.String() + "}\n")
		f.Plain = b.String()
	}
	for k := range feats {
		f.Feats = append(f.Feats, k)
	}
	sort.Strings(f.Feats)
	return f
}
