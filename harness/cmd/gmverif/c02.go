package main

// C02 — assignments, compound assignments and ++/-- on every kind of place.

import (
	"fmt"
	"math/rand"
	"strings"

	"gmverif/internal/fw"
)

func init() { register("C02", "exploration", checkC02) }

var c02Places = []string{"local", "cap1", "cap2", "cap3", "global", "deref", "array", "slice", "map", "field", "pfield", "mapstr"}

var c02Ops = []string{"=", "+=", "-=", "*=", "/=", "%=", "&=", "|=", "^=", "&^=", "<<=", ">>=", "++", "--"}

func c02OpValid(op string, k *kindInfo) bool {
	switch op {
	case "=":
		return true
	case "+=":
		return k.isNumeric() || k.Class == "string"
	case "-=", "*=", "/=", "++", "--":
		return k.isNumeric()
	default:
		return k.isInteger()
	}
}

// c02PlaceCode returns (setup, place expression, observe expression) for a place holding a value of kind K initialised to `a`.
func c02PlaceCode(place string, K string) (setup, lhs, obs string, wrapOpen, wrapClose string) {
	switch place {
	case "local":
		return "x := a\n", "x", "x", "", ""
	case "cap1", "cap2", "cap3":
		d := int(place[3] - '0')
		for i := 0; i < d; i++ {
			wrapOpen += fmt.Sprintf("func() { u%d := %d; _ = u%d\n", i, i, i)
			wrapClose += "}()\n"
		}
		return "x := a\n", "x", "x", wrapOpen, wrapClose
	case "global":
		return "§g = a\n", "§g", "§g", "", ""
	case "deref":
		return "x := a\np := &x\n", "*§pf(p)", "x", "", ""
	case "array":
		return "var arr [3]" + K + "\narr[1] = a\n", "arr[§ix(1)]", "arr", "", ""
	case "slice":
		return "s := make([]" + K + ", 3)\ns[2] = a\n", "s[§ix(2)]", "s", "", ""
	case "map":
		return "m := map[int]" + K + "{1: a}\n", "m[§ix(1)]", "m", "", ""
	case "mapstr":
		return "m := map[string]" + K + "{\"k\": a}\n", "m[§sx(\"k\")]", "m", "", ""
	case "field":
		return "var st §S\nst.f = a\n", "st.f", "st", "", ""
	case "pfield":
		return "pst := &§S{g: 5}\npst.f = a\n", "§ps(pst).f", "*pst", "", ""
	}
	panic(place)
}

func c02Cell(id int, op string, k *kindInfo, place string, rng *rand.Rand, nrand int) *Prog {
	K := k.Name
	var src strings.Builder
	fmt.Fprintf(&src, "func §rc(tag int) { if r := recover(); r != nil { rec(-tag, pcl(r)) } }\n")
	fmt.Fprintf(&src, "var §g %s\ntype §S struct { e int8; f %s; g int }\n", K, K)
	fmt.Fprintf(&src, "func §ix(i int) int { rec(900, i); return i }\nfunc §sx(s string) string { rec(901, s); return s }\n")
	fmt.Fprintf(&src, "func §pf(p *%s) *%s { rec(902); return p }\nfunc §ps(p *§S) *§S { rec(903); return p }\n", K, K)
	setup, lhs, obs, wo, wc := c02PlaceCode(place, K)
	tag := 0
	var callsVV, callsV []string
	add := func(params, stmt, call string) {
		tag++
		fn := fmt.Sprintf("func §e%d(%s) {\ndefer §rc(%d)\n%s%s%s\n%srec(%d, %s)\n}\n", tag, params, tag, setup, wo, stmt, wc, tag, obs)
		if !fragValid(fmt.Sprintf("var g %s\ntype S struct { e int8; f %s; g int }\nfunc ix(i int) int { return i }\nfunc sx(s string) string { return s }\nfunc pf(p *%s) *%s { return p }\nfunc ps(p *S) *S { return p }\n", K, K, K, K) + fn) {
			tag--
			return
		}
		src.WriteString(fn)
		name := fmt.Sprintf("§e%d", tag)
		switch call {
		case "VV":
			callsVV = append(callsVV, name+"(a, b)")
		case "V":
			callsV = append(callsV, name+"(a)")
		}
	}
	shiftBs := ""
	switch op {
	case "++", "--":
		add("a "+K, lhs+op, "V")
	case "<<=", ">>=":
		add("a "+K+", b uint", lhs+" "+op+" b", "VV")
		add("a "+K+", c int", lhs+" "+op+" c", "VC")
		add("a "+K+", b uint8", lhs+" "+op+" b", "VB")
		for _, c := range []string{"0", "1", "3", "7", "8", "15", "16", "31", "32", "63", "64", "65"} {
			add("a "+K, lhs+" "+op+" "+c, "V")
		}
		shiftBs = "1"
	default:
		add("a "+K+", b "+K, lhs+" "+op+" b", "VV")
		// rhs depends on the place itself
		add("a "+K, lhs+" "+op+" "+strings.ReplaceAll(obsElem(place), "§", "§"), "V")
		for _, c := range k.Consts {
			add("a "+K, lhs+" "+op+" "+c, "V")
		}
	}
	as := k.varOperands(rng, nrand)
	fmt.Fprintf(&src, "func §P() {\n")
	switch k.Class {
	case "bool":
		src.WriteString("var z, o " + K + " = false, true\n")
	case "string":
		src.WriteString("var z, o " + K + " = \"\", \"1\"\n")
	default:
		src.WriteString("var z, o " + K + " = 0, 1\n")
	}
	src.WriteString("_ = z\n_ = o\n")
	fmt.Fprintf(&src, "as := []%s{%s}\n", K, strings.Join(as, ", "))
	if shiftBs != "" {
		src.WriteString("for _, a := range as {\nfor _, b := range []uint{0, 1, 2, 7, 8, 31, 32, 63, 64, 65, 1000} {\n§e1(a, b)\n§e3(a, uint8(b))\n}\nfor _, c := range []int{0, 1, 5, 31, 32, 63, 64, 200, -1} {\n§e2(a, c)\n}\n}\n")
	} else if len(callsVV) > 0 {
		fmt.Fprintf(&src, "for _, a := range as {\nfor _, b := range as {\n%s\n}\n}\n", strings.Join(callsVV, "\n"))
	}
	if len(callsV) > 0 {
		fmt.Fprintf(&src, "for _, a := range as {\n%s\n}\n", strings.Join(callsV, "\n"))
	}
	src.WriteString("}\n")
	return &Prog{ID: fmt.Sprintf("c02-%d", id), Src: src.String(), Cell: fmt.Sprintf("%s/%s/%s", op, K, place)}
}

// obsElem: an expression reading the place's current value (for `place op= place`)
func obsElem(place string) string {
	switch place {
	case "local", "cap1", "cap2", "cap3", "deref":
		return "x"
	case "global":
		return "§g"
	case "array":
		return "arr[1]"
	case "slice":
		return "s[2]"
	case "map":
		return "m[1]"
	case "mapstr":
		return "m[\"k\"]"
	case "field":
		return "st.f"
	case "pfield":
		return "pst.f"
	}
	panic(place)
}

// multi-assignment family for one kind
func c02Multi(id int, k *kindInfo, rng *rand.Rand) *Prog {
	K := k.Name
	var src strings.Builder
	fmt.Fprintf(&src, "func §rc(tag int) { if r := recover(); r != nil { rec(-tag, pcl(r)) } }\n")
	fmt.Fprintf(&src, "var §g, §h %s\ntype §S struct { e int8; f %s; g %s }\n", K, K, K)
	fmt.Fprintf(&src, "func §ix(i int) int { rec(900, i); return i }\nfunc §two(a, b %s) (%s, %s) { rec(904); return b, a }\nfunc §id(a %s) %s { rec(905, a); return a }\n", K, K, K, K, K)
	bodies := []string{
		"x, y := a, b\nx, y = y, x\nrec(1, x, y)",
		"s := []" + K + "{a, b, a}\ni := 0\ni, s[i] = 2, b\nrec(2, i, s)",
		"x, y := a, b\n_, y = y, x\nrec(3, x, y)",
		"x, y := a, b\nx, _ = y, x\nrec(4, x, y)",
		"var st §S\nst.f, st.g = a, b\np := &st\np.f, st.g = st.g, p.f\nrec(5, st)",
		"m := map[int]" + K + "{}\nm[§ix(1)], m[§ix(2)] = §id(a), §id(b)\nrec(6, m)",
		"x, y, z := a, b, a\nx, y, z = y, z, x\nrec(7, x, y, z)",
		"s := []" + K + "{a, b}\ns[0], s[1] = s[1], s[0]\nrec(8, s)",
		"var x, y " + K + "\nx, y = §two(a, b)\nrec(9, x, y)",
		"§g, §h = a, b\n§g, §h = §h, §g\nrec(10, §g, §h)",
		"x, y := a, b\nfunc() { func() { x, y = y, x }() }()\nrec(11, x, y)",
		"var arr [3]" + K + "\ni := 1\narr[i], i = a, 2\narr[i], arr[i-1] = b, arr[i-1]\nrec(12, arr, i)",
		"m := map[int]" + K + "{1: a}\nv, ok := m[1]\nw, ok2 := m[2]\nrec(13, v, ok, w, ok2)\nv, ok = m[3]\nrec(14, v, ok)",
		"x, y := a, b\n_, _ = x, y\nrec(15, x, y)",
		"var p *" + K + "\nx := a\np, x = &x, b\nrec(16, *p, x)",
		"x := a\nvar e interface{} = x\nv, ok := e.(" + K + ")\nrec(17, v, ok)\n_, ok = e.(int)\nrec(18, ok)",
		"x, y := a, b\nx, y = §id(y), §id(x)\nrec(19, x, y)",
		"s := []" + K + "{a, b, a}\ni := 0\ns[§ix(i)], s[§ix(i+1)], i = §id(b), §id(a), 2\nrec(20, s, i)",
		"x, y := a, b\nfunc() { x, y = y, x }()\nrec(21, x, y)",
		"x, y := a, b\nfunc() { func() { func() { x, y = y, x }() }() }()\nrec(22, x, y)",
		"var x, y " + K + "\nfunc() { func() { x, y = §two(a, b) }() }()\nrec(23, x, y)",
		"var x, y " + K + "\nfunc() { w := 1; func() { x, y = §two(a, b); w++ }(); _ = w }()\nrec(24, x, y)",
		"x, y := a, b\n{ u := 1; { v := u; x, y = y, x; _ = v } }\nrec(25, x, y)",
	}
	var calls []string
	for i, b := range bodies {
		fmt.Fprintf(&src, "func §m%d(a, b %s) {\ndefer §rc(%d)\n%s\n}\n", i+1, K, 100+i, b)
		calls = append(calls, fmt.Sprintf("§m%d(a, b)", i+1))
	}
	as := k.varOperands(rng, 2)
	// a seeded choice of 8 operands (not the first 8, which are all small values: truncating stores would go unseen)
	rng.Shuffle(len(as), func(i, j int) { as[i], as[j] = as[j], as[i] })
	if len(as) > 8 {
		as = as[:8]
	}
	fmt.Fprintf(&src, "func §P() {\n")
	switch k.Class {
	case "bool":
		src.WriteString("var z, o " + K + " = false, true\n")
	case "string":
		src.WriteString("var z, o " + K + " = \"\", \"1\"\n")
	default:
		src.WriteString("var z, o " + K + " = 0, 1\n")
	}
	src.WriteString("_ = z\n_ = o\n")
	fmt.Fprintf(&src, "as := []%s{%s}\nfor i, a := range as {\nb := as[(i+3)%%len(as)]\n%s\n}\n}\n", K, strings.Join(as, ", "), strings.Join(calls, "\n"))
	return &Prog{ID: fmt.Sprintf("c02-m%d", id), Src: src.String(), Cell: "multi/" + K}
}

// random statement sequences over a fixed set of places of one integer/float/string kind
func c02Seq(id int, k *kindInfo, rng *rand.Rand) *Prog {
	K := k.Name
	var src strings.Builder
	fmt.Fprintf(&src, "func §rc(tag int) { if r := recover(); r != nil { rec(-tag, pcl(r)) } }\n")
	fmt.Fprintf(&src, "var §g %s\ntype §S struct { e int8; f %s; g int }\n", K, K)
	places := []string{"x", "y", "§g", "*p", "arr[1]", "arr[i]", "s[0]", "s[i]", "m[1]", "m[i]", "st.f", "pst.f"}
	var ops []string
	for _, op := range c02Ops {
		if c02OpValid(op, k) {
			ops = append(ops, op)
		}
	}
	n := 10 + rng.Intn(31)
	var body strings.Builder
	fmt.Fprintf(&body, "x, y := a, b\np := &y\n_ = p\nvar arr [3]%s\ns := []%s{a, b, a}\nm := map[int]%s{1: b}\nvar st §S\npst := &§S{f: a}\ni := 2\n_ = pst\n_ = i\n", K, K, K)
	consts := append(append([]string{}, k.Consts...), k.randConsts(rng, 4)...)
	for j := 0; j < n; j++ {
		pl := places[rng.Intn(len(places))]
		op := ops[rng.Intn(len(ops))]
		var st string
		switch op {
		case "++", "--":
			st = pl + op
		case "<<=", ">>=":
			if rng.Intn(2) == 0 {
				st = fmt.Sprintf("%s %s %d", pl, op, rng.Intn(70))
			} else {
				st = fmt.Sprintf("%s %s uint(i)", pl, op)
			}
		default:
			var rhs string
			switch rng.Intn(3) {
			case 0:
				rhs = consts[rng.Intn(len(consts))]
			case 1:
				rhs = places[rng.Intn(len(places))]
			default:
				rhs = []string{"a", "b"}[rng.Intn(2)]
			}
			st = fmt.Sprintf("%s %s %s", pl, op, rhs)
		}
		if !fragValid(fmt.Sprintf("var g %s\ntype S struct { e int8; f %s; g int }\nfunc t(a, b %s) {\n%s%s\n_, _, _, _, _ = x, arr, s, m, st\n}\n", K, K, K, body.String(), st)) {
			continue
		}
		body.WriteString(st + "\n")
		if rng.Intn(4) == 0 {
			body.WriteString("i = (i + 1) % 3\n")
		}
		if rng.Intn(3) == 0 {
			fmt.Fprintf(&body, "rec(%d, x, y, §g)\n", j)
		}
	}
	body.WriteString("rec(99, x, y, §g, arr, s, m, st, *pst, i)\n")
	fmt.Fprintf(&src, "func §t(a, b %s) {\ndefer §rc(1)\n%s}\n", K, body.String())
	as := k.varOperands(rng, 2)
	fmt.Fprintf(&src, "func §P() {\n")
	switch k.Class {
	case "bool":
		src.WriteString("var z, o " + K + " = false, true\n")
	case "string":
		src.WriteString("var z, o " + K + " = \"\", \"1\"\n")
	default:
		src.WriteString("var z, o " + K + " = 0, 1\n")
	}
	src.WriteString("_ = z\n_ = o\n")
	fmt.Fprintf(&src, "as := []%s{%s}\nfor i, a := range as {\n§t(a, as[(i*7+3)%%len(as)])\n}\n}\n", K, strings.Join(as, ", "))
	return &Prog{ID: fmt.Sprintf("c02-s%d", id), Src: src.String(), Cell: "seq/" + K}
}

func checkC02(r *fw.Run) {
	r.SetRule("cells = assignment operator (= += -= *= /= %= &= |= ^= &^= <<= >>= ++ --) x kind x place (local, captured depth 1-3, global, *p, array/slice/map[int]/map[string] element, struct field, field through pointer); each cell program applies the statement with variable, self-referencing and constant right-hand sides over boundary + random operands and records the whole container afterwards; index, key and pointer operands are calls that record their own invocation, so single evaluation is an observable event count; plus a multi-assignment family per kind (swap, rotate, blank places, i/s[i] ordering, map comma-ok, f() multi-value) and seeded random statement sequences; oracle = event-by-event equality with compiled Go; distinct = distinct program texts")
	r.Assume("go/types + cmd/compile 1.23.5 (language go1.18) are the reference semantics")
	o := e1Opts{}
	if p := fw.ReplayArg(); p != "" {
		e1ReplayFile(r, p, o)
		return
	}
	rng := r.Rng("cells")
	var progs []*Prog
	id := 0
	quick := !r.Thorough()
	pick := int(r.Seed)
	nrand := r.Pick(2, 6)
	for _, op := range c02Ops {
		for i := range allKinds {
			k := &allKinds[i]
			if !c02OpValid(op, k) {
				continue
			}
			places := c02Places
			if quick {
				pick++
				places = []string{c02Places[pick%len(c02Places)], c02Places[(pick*5+3)%len(c02Places)]}
			}
			for _, pl := range places {
				id++
				progs = append(progs, c02Cell(id, op, k, pl, rng, nrand))
			}
		}
	}
	for i := range allKinds {
		id++
		progs = append(progs, c02Multi(id, &allKinds[i], rng))
	}
	nseq := r.Pick(150, 3000)
	for j := 0; j < nseq; j++ {
		k := &allKinds[1+rng.Intn(len(allKinds)-1)]
		id++
		progs = append(progs, c02Seq(id, k, rng))
	}
	r.Extra("programs", len(progs))
	e1Run(r, progs, o)
}
