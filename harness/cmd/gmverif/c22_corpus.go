package main

// C22/C25 shared helper: the Go corpus (GOROOT/src + /repo), file selection, standard-parser loading.

import (
	"fmt"
	"go/ast"
	"go/parser"
	"go/token"
	"os"
	"path/filepath"
	"runtime"
	"sort"
	"strings"

	"github.com/cosmos72/gomacro/go/etoken"

	"gmverif/internal/fw"
)

// files always part of the workload (relative to GOROOT/src), whatever the seed
var c22CoreStd = []string{
	"go/parser/parser.go", "go/printer/nodes.go", "go/printer/printer.go", "go/printer/testdata/parser.go",
	"go/ast/ast.go", "go/scanner/scanner.go", "fmt/print.go", "fmt/scan.go", "reflect/type.go", "reflect/value.go",
	"runtime/chan.go", "runtime/select.go", "runtime/proc.go", "net/http/server.go", "net/http/transport.go",
	"time/format.go", "strconv/ftoa.go", "encoding/json/decode.go", "text/template/exec.go", "os/exec/exec.go",
	"math/big/nat.go", "sort/sort.go", "context/context.go", "bufio/bufio.go", "regexp/syntax/parse.go",
	"crypto/tls/conn.go", "archive/tar/reader.go", "compress/flate/deflate.go", "database/sql/sql.go",
	"cmd/gofmt/gofmt.go", "cmd/compile/internal/syntax/parser.go", "cmd/compile/internal/ssagen/ssa.go",
}

// directories of /repo always part of the workload
var c22CoreRepo = []string{"ast2", "go/printer", "go/parser", "go/scanner", "base/output", "base"}

type c22Corpus struct {
	Root  string   // resolved GOROOT/src
	All   []string // every .go file of GOROOT/src and /repo, sorted
	Core  []string
	Picks []string // files selected for this run (core first)
}

func c22ListGo(root string, out *[]string) {
	filepath.Walk(root, func(p string, info os.FileInfo, err error) error {
		if err != nil {
			return nil
		}
		if info.IsDir() {
			if n := info.Name(); n == ".git" || n == "node_modules" {
				return filepath.SkipDir
			}
			return nil
		}
		if strings.HasSuffix(p, ".go") && info.Mode().IsRegular() {
			*out = append(*out, p)
		}
		return nil
	})
}

// c22LoadCorpus lists the corpus and picks the files of this run: the fixed core plus a seeded sample
// of nSample other files (nSample < 0: all).
func c22LoadCorpus(r *fw.Run, nSample int) (*c22Corpus, error) {
	root, err := filepath.EvalSymlinks(filepath.Join(runtime.GOROOT(), "src"))
	if err != nil {
		return nil, fmt.Errorf("cannot resolve GOROOT/src: %v", err)
	}
	c := &c22Corpus{Root: root}
	c22ListGo(root, &c.All)
	nstd := len(c.All)
	c22ListGo("/repo", &c.All)
	sort.Strings(c.All)
	if nstd < 3000 || len(c.All)-nstd < 100 {
		return nil, fmt.Errorf("corpus too small: %d GOROOT/src files, %d /repo files", nstd, len(c.All)-nstd)
	}
	isCore := map[string]bool{}
	for _, f := range c22CoreStd {
		p := filepath.Join(root, f)
		if _, err := os.Stat(p); err == nil {
			isCore[p] = true
		}
	}
	for _, f := range c.All {
		if strings.HasPrefix(f, "/repo/") {
			dir := strings.TrimPrefix(filepath.Dir(f), "/repo/")
			for _, d := range c22CoreRepo {
				if dir == d {
					isCore[f] = true
				}
			}
		}
	}
	var rest []string
	for _, f := range c.All {
		if isCore[f] {
			c.Core = append(c.Core, f)
		} else {
			rest = append(rest, f)
		}
	}
	c.Picks = append(c.Picks, c.Core...)
	if nSample < 0 || nSample >= len(rest) {
		c.Picks = append(c.Picks, rest...)
	} else {
		rng := r.Rng("corpus")
		perm := rng.Perm(len(rest))[:nSample]
		sort.Ints(perm)
		for _, i := range perm {
			c.Picks = append(c.Picks, rest[i])
		}
	}
	return c, nil
}

// c22Parsed is one corpus file parsed by the STANDARD go/parser
type c22Parsed struct {
	Path string
	Fset *etoken.FileSet // the embedded token.FileSet is the one the standard parser filled
	File *ast.File
	Src  []byte
}

// c22ParseStd parses src with the standard parser. skip != "" tells why the file is not part of the
// workload (does not parse, or uses type parameters).
func c22ParseStd(path string, src []byte, mode parser.Mode) (p *c22Parsed, skip string) {
	fset := etoken.NewFileSet()
	f, err := parser.ParseFile(&fset.FileSet, path, src, mode|parser.SkipObjectResolution)
	if err != nil {
		return nil, "does not parse"
	}
	if why := c22UsesTypeParams(f); why != "" {
		return nil, "type parameters"
	}
	return &c22Parsed{Path: path, Fset: fset, File: f, Src: src}, ""
}

// c22UsesTypeParams reports whether the file declares type parameters, uses a multi-argument
// instantiation, or contains constraint-interface syntax (~T, A|B) - all post-date the fork.
// A single-argument instantiation such as atomic.Pointer[T] is an ordinary IndexExpr and is kept.
func c22UsesTypeParams(f *ast.File) (why string) {
	ast.Inspect(f, func(n ast.Node) bool {
		if why != "" {
			return false
		}
		switch n := n.(type) {
		case *ast.FuncType:
			if n.TypeParams != nil {
				why = "FuncType.TypeParams"
			}
		case *ast.TypeSpec:
			if n.TypeParams != nil {
				why = "TypeSpec.TypeParams"
			}
		case *ast.IndexListExpr:
			why = "IndexListExpr"
		case *ast.UnaryExpr:
			if n.Op == token.TILDE {
				why = "~T"
			}
		case *ast.InterfaceType:
			if n.Methods != nil {
				for _, fld := range n.Methods.List {
					if len(fld.Names) == 0 {
						if b, ok := fld.Type.(*ast.BinaryExpr); ok && b.Op == token.OR {
							why = "union"
						}
					}
				}
			}
		}
		return true
	})
	return why
}

// ---------------------------------------------------------------------------------------------
// a hand-written Go source that contains every go/ast node type and every flag the oracles name.
// It is parsed (never type-checked or run).

const c22CoreSrc = `package core

import (
	"fmt"
	. "os"
	_ "unsafe"
	str "strings"
)

import "single"

const A = 1
const (
	B, C = iota, "s" + ` + "`raw\\n`" + `
	D
	E float64 = 1.5e3 + 0x1p-2 + 07i + 'x' + '\n' + 1_000
)

var x int

type Msg1 struct{ ID int ` + "`json:\"id\"`" + ` }
type Msg2 struct{ ID int }
type Msg3 struct{ *T ` + "`k:\"v\"`" + ` }
type If1 interface{ M() }
type Fn1 func(struct{ N int ` + "`n:\"1\"`" + ` }) struct{}

var (
	y, z   = 1, 2
	w      []int
	fn     func(a, b int, c ...string) (r int, err error)
	ch1    chan int
	ch2    <-chan int
	ch3    chan<- int
	ch4    chan (<-chan int)
	ch5    <-chan <-chan int
	m      map[string][]*T
	arr    [4]int
	dots   = [...]int{1, 2, 3}
	st     struct {
		A, B int    ` + "`json:\"a\"`" + `
		T
		*U
		pkg.V
		f func()
	}
	iface interface {
		M(int) string
		N()
		fmt.Stringer
		E
	}
	empty  struct{}
	emptyi interface{}
)

type T struct{ a int }
type U = T

var Exported = T{a: 1, B: 2}
var ExportedList = []T{{a: 1}, {B: 2}}
type ExportedStruct struct {
	A int
	b int
}
type ExportedIface interface {
	M()
	m()
}
type (
	V  []T
	W  = map[T]U
	Fn func(int) (string, error)
	P  *T
)

func init() {}

func (t T) M(a int) string { return "" }

func (*T) N() {}

func (t *T) O(int, string) (int, error)

func ext(a int) int

func variadic(a ...int) {}

func named() (a, b int, c string) { return }

func everything(a, b int, c ...string) (res int, err error) {
	x := a + b*2 - (a-b)/3%4
	y := a&b | a^b&^a<<2>>1
	z := a == b && a != b || a < b && a <= b || a > b && a >= b
	u := -a + +b - ^a
	v := !z
	p := &x
	*p = 1
	q := *p
	_, _, _, _, _, _ = y, u, v, q, x, z
	x += 1
	x -= 1
	x *= 2
	x /= 2
	x %= 2
	x &= 1
	x |= 1
	x ^= 1
	x <<= 1
	x >>= 1
	x &^= 1
	x++
	x--
	var s []int
	s = append(s, 1, 2)
	s = append(s, s...)
	_ = s[1:]
	_ = s[:2]
	_ = s[1:2]
	_ = s[:]
	_ = s[1:2:3]
	_ = s[:2:3]
	_ = s[0]
	_ = m["k"][0].a
	_ = T{a: 1}
	_ = &T{1}
	_ = []T{{1}, {a: 2}}
	_ = map[string]T{"a": {1}}
	_ = [...]string{2: "c", 0: "a"}
	_ = struct{ X, Y int }{1, 2}
	_ = (*T)(nil)
	_ = (<-chan int)(nil)
	_ = (func())(nil)
	_ = []byte("abc")
	_ = interface{}(x).(int)
	_ = fn
	f := func(a int) int { return a }
	_ = f(1)
	func() {}()
	go f(1)
	go func() {}()
	defer f(2)
	defer func() { recover() }()
	ch := make(chan int, 1)
	ch <- 1
	<-ch
	k := <-ch
	k, ok := <-ch
	_, _ = k, ok
	if x > 0 {
		x = 0
	}
	if x := f(1); x > 0 {
		x = 0
	} else if x < 0 {
		x = 1
	} else {
		x = 2
	}
	if v, ok := interface{}(x).(int); ok {
		_ = v
	}
	for {
		break
	}
	for x < 10 {
		x++
		continue
	}
	for i := 0; i < 10; i++ {
	}
	for ; x < 10; {
		x++
	}
	for i := range s {
		_ = i
	}
	for i, e := range s {
		_, _ = i, e
	}
	for _, e = range s {
	}
	for range s {
	}
	for k, v := range m {
		_, _ = k, v
	}
outer:
	for i := 0; i < 3; i++ {
		for {
			continue outer
		}
		break outer
	}
	goto end
	switch {
	}
	switch x {
	case 1, 2:
		fallthrough
	case 3:
		x = 4
	default:
		x = 5
	}
	switch y := x; y {
	case 1:
	}
	switch y := x; {
	case y > 0:
	}
	switch x := interface{}(x).(type) {
	case int, string:
		_ = x
	case nil:
	case *T, []T, map[string]T, func(int) bool, chan int:
	default:
	}
	switch interface{}(x).(type) {
	}
	switch v := interface{}(x); t := v.(type) {
	case int:
		_ = t
	}
	select {}
	select {
	case v := <-ch:
		_ = v
	case v, ok := <-ch:
		_, _ = v, ok
	case ch <- 1:
	case <-ch:
	default:
	}
	{
		var local int
		const lc = 2
		type lt struct{}
		var (
			g1 = 1
			g2 = 2
		)
		_, _, _ = local, g1, g2
	}
	{
	}
	;
	var e1 error = fmt.Errorf("x %d", 1)
	_ = e1
	_ = str.Repeat("a", 2)
	_ = 'a'
	_ = 1.5
	_ = 2i
	_ = 0x1F
	_ = 0b101
	_ = 0o17
	_ = "s\t\"q\""
	_ = ` + "`raw`" + `
	_ = x<<1 + y*2
	_ = (x + y) * z2
	_ = -(-x)
	_ = - -x
	_ = +(+x)
	_ = &*p
	_ = x & (^y)
	_ = x / (*p)
	_ = a.b.c.d(1)(2)[3].e
	_ = (a.b)(c)
	_ = [](func())(nil)
	_ = (chan int)(nil)
	_ = (chan<- int)(nil)
	_ = (interface{})(nil)
	_ = map[[2]int]struct{ a int }{{1, 2}: {3}}
	return x, nil
end:
}
`
