package main

// C10 — interpreted goroutines and channels: race-free concurrent programs with schedule-independent
// results (trace equality with compiled Go) or in-program admissibility predicates, run by the
// race-detector build of the interpreter under several GOMAXPROCS values and seeded yields.

import (
	"fmt"
	"math/rand"
	"os"
	"path/filepath"
	"regexp"
	"strings"

	"gmverif/internal/fw"
)

func init() { register("C10", "exploration", checkC10) }

func c10Prog(id int, rng *rand.Rand, feat map[string]int) *Prog {
	var b strings.Builder
	b.WriteString("func §work(x int) int { s := 0; for i := 0; i <= x%7; i++ { s += x*i + 1 }; return s }\n//--\n")
	n := 2 + rng.Intn(7)
	k := 3 + rng.Intn(20)
	buf := []int{0, 1, 4}[rng.Intn(3)]
	tmpl := rng.Intn(13)
	if v := os.Getenv("C10_T"); v != "" {
		fmt.Sscan(v, &tmpl)
	}
	body := ""
	name := ""
	switch tmpl {
	case 0:
		name = "fork-join-channel"
		body = fmt.Sprintf(`ch := make(chan int, %d)
for g := 0; g < %d; g++ {
	go func(g int) { s := 0; for i := 0; i < %d; i++ { s += §work(g*100 + i) }; ch <- s }(g)
}
total := 0
for g := 0; g < %d; g++ { total += <-ch }
rec(1, total)`, buf, n, k, n)
	case 1:
		name = "pipeline"
		stages := 2 + rng.Intn(4)
		body = fmt.Sprintf(`src := make(chan int, %d)
var in <-chan int = src
for s := 0; s < %d; s++ {
	out := make(chan int, %d)
	go func(in <-chan int, out chan<- int, s int) {
		for v := range in { out <- v*2 + s }
		close(out)
	}(in, out, s)
	in = out
}
go func() { for i := 0; i < %d; i++ { src <- i }; close(src) }()
var got []int
for v := range in { got = append(got, v) }
rec(1, got)`, buf, stages, buf, k)
	case 2:
		name = "mutex-counter"
		body = fmt.Sprintf(`var mu sync.Mutex
var wg sync.WaitGroup
count := 0
hist := map[int]int{}
for g := 0; g < %d; g++ {
	wg.Add(1)
	go func(g int) {
		defer wg.Done()
		for i := 0; i < %d; i++ { mu.Lock(); count += §work(i) %% 5; hist[g]++; mu.Unlock() }
	}(g)
}
wg.Wait()
rec(1, count, hist)`, n, k)
	case 3:
		name = "ping-pong"
		body = fmt.Sprintf(`ping, pong := make(chan int), make(chan int)
done := make(chan []int)
go func() {
	var seen []int
	for v := range ping { seen = append(seen, v); pong <- v + 1 }
	done <- seen
}()
x := 0
for i := 0; i < %d; i++ { ping <- x; x = <-pong * 2 }
close(ping)
rec(1, x, <-done)`, k)
	case 4:
		name = "producer-consumer-close-range"
		body = fmt.Sprintf(`ch := make(chan string, %d)
res := make(chan int)
go func() { n := 0; for s := range ch { n += len(s) }; res <- n }()
for i := 0; i < %d; i++ { ch <- strings.Repeat("x", i%%5) }
close(ch)
total := <-res
v, ok := <-ch
rec(1, total, v, ok)`, buf, k)
	case 5:
		name = "fan-in-unique-ids"
		body = fmt.Sprintf(`ch := make(chan int, %d)
var wg sync.WaitGroup
for p := 0; p < %d; p++ {
	wg.Add(1)
	go func(p int) { defer wg.Done(); for i := 0; i < %d; i++ { ch <- p*1000 + i } }(p)
}
go func() { wg.Wait(); close(ch) }()
last := map[int]int{}
count := 0
ordered, unique := true, true
seen := map[int]bool{}
for v := range ch {
	p, i := v/1000, v%%1000
	if l, ok := last[p]; ok && i != l+1 || !ok && i != 0 { ordered = false }
	last[p] = i
	if seen[v] { unique = false }
	seen[v] = true
	count++
}
rec(1, count, ordered, unique, len(last))`, buf, n, k)
	case 6:
		name = "select-default-and-ready"
		body = fmt.Sprintf(`a, b := make(chan int, 1), make(chan int, 1)
got := 0
for i := 0; i < %d; i++ {
	select {
	case v := <-a: got += v
	default: got += 1000
	}
	a <- i
	select {
	case v := <-a: got += v
	case v := <-b: got -= v
	}
	select {
	case b <- i:
	default: got += 7
	}
	got += <-b
}
quit := make(chan struct{})
res := make(chan int)
go func() {
	n := 0
	for { select { case <-quit: res <- n; return; default: n++ } }
}()
close(quit)
rec(1, got, <-res >= 0)`, k)
	case 7:
		name = "shared-closure-atomic"
		body = fmt.Sprintf(`var total int64
add := func(d int64) { atomic.AddInt64(&total, d) }
var wg sync.WaitGroup
for g := 0; g < %d; g++ {
	wg.Add(1)
	go func(g int) { defer wg.Done(); for i := 0; i < %d; i++ { add(int64(§work(g + i))) } }(g)
}
wg.Wait()
rec(1, atomic.LoadInt64(&total))`, n, k)
	case 8:
		name = "nested-goroutines-outliving"
		body = fmt.Sprintf(`res := make(chan int, %d)
start := func(g int) {
	go func() {
		inner := make(chan int)
		go func() { inner <- §work(g) }()
		res <- <-inner + g
	}()
}
for g := 0; g < %d; g++ { start(g) }
sum := 0
for g := 0; g < %d; g++ { sum += <-res }
rec(1, sum)`, n, n, n)
	case 9:
		name = "once-rwmutex"
		body = fmt.Sprintf(`var once sync.Once
var rw sync.RWMutex
var wg sync.WaitGroup
inits := 0
data := map[int]int{}
for g := 0; g < %d; g++ {
	wg.Add(1)
	go func(g int) {
		defer wg.Done()
		once.Do(func() { inits++ })
		for i := 0; i < %d; i++ {
			if i%%3 == 0 { rw.Lock(); data[i] += g; rw.Unlock() } else { rw.RLock(); _ = data[i-1]; rw.RUnlock() }
		}
	}(g)
}
wg.Wait()
rec(1, inits, data)`, n, k)
	case 10:
		name = "worker-pool-results-by-index"
		body = fmt.Sprintf(`jobs := make(chan int, %d)
out := make([]int, %d)
var wg sync.WaitGroup
for w := 0; w < %d; w++ {
	wg.Add(1)
	go func() { defer wg.Done(); for j := range jobs { out[j] = §work(j) * 3 } }()
}
for j := 0; j < %d; j++ { jobs <- j }
close(jobs)
wg.Wait()
rec(1, out)`, buf, k, n, k)
	case 11:
		name = "go-arguments-snapshot"
		b.WriteString("type §Pair struct{ A, B int }\n//--\n")
		body = fmt.Sprintf(`res := make(chan int, %d)
for g := 0; g < %d; g++ {
	p := §Pair{g, 2 * g}
	arr := [3]int{g, g + 1, g + 2}
	s := "s"
	f := func(x int) int { return x + 1 }
	go func(q §Pair, a [3]int, t string, h func(int) int) { res <- q.A*100 + q.B + a[1] + len(t) + h(q.A) }(p, arr, s, f)
	// arguments were evaluated by the go statement: none of these assignments may be seen by the goroutine
	p.A, p.B = 100000, 200000
	arr[1] = 5000
	s = "much longer"
	f = func(x int) int { return x + 70000 }
}
sum := 0
for g := 0; g < %d; g++ { sum += <-res }
rec(1, sum)`, n, n, n)
	default:
		name = "panic-in-goroutine-recovered"
		body = fmt.Sprintf(`res := make(chan string, %d)
for g := 0; g < %d; g++ {
	go func(g int) {
		defer func() { res <- pcl(recover()) }()
		var m map[int]int
		if g%%2 == 0 { m[g] = 1 }
		a := []int{1}
		_ = a[g%%3]
	}(g)
}
cnt := map[string]int{}
for g := 0; g < %d; g++ { cnt[<-res]++ }
rec(1, cnt)`, n, n, n)
	}
	feat[name]++
	fmt.Fprintf(&b, "func §P() {\n%s\n}\n", body)
	src := b.String()
	imports := []string{}
	for _, im := range []string{"sync", "sync/atomic", "strings"} {
		base := filepath.Base(im)
		if strings.Contains(src, base+".") {
			imports = append(imports, im)
		}
	}
	return &Prog{ID: fmt.Sprintf("c10-%d", id), Imports: imports, Src: src, Chunks: strings.Split(src, "\n//--\n"), Cell: name}
}

// c10RunRace runs the programs through the race-detector build under the given GOMAXPROCS values and reports.
func c10RunRace(r *fw.Run, prop string, progs []*Prog, procs []string, classify func(rep raceReport) string) {
	if _, err := os.Stat(raceBin()); err != nil {
		r.Inconclusive("race-detector build not found: " + raceBin())
		return
	}
	for pi, gmp := range procs {
		prefix := filepath.Join(fw.VerifDir, "work", fmt.Sprintf("race-%s-%d-%s", prop, os.Getpid(), gmp))
		var batch []*Prog
		for _, p := range progs {
			q := *p
			q.ID = fmt.Sprintf("%s-p%s", p.ID, gmp)
			q.Mode = map[string]string{"yield": fmt.Sprint(uint64(r.Seed)*7919 + uint64(pi) + 1)}
			for k, v := range p.Mode {
				q.Mode[k] = v
			}
			batch = append(batch, &q)
		}
		o := e1Opts{Bin: raceBin(), Env: []string{"GOMAXPROCS=" + gmp, "GORACE=halt_on_error=0 exitcode=0 log_path=" + prefix}}
		e1Run(r, batch, o)
		reports, blocks := raceParse(prefix)
		if logs, _ := filepath.Glob(prefix + ".*"); os.Getenv("VERIF_KEEP") == "" {
			for _, f := range logs {
				os.Remove(f)
			}
		}
		r.Count("race_report_blocks", int64(blocks))
		r.Cover("gomaxprocs", gmp)
		for _, rep := range reports {
			if strings.Contains(rep.Text, "(*Interp).Interrupt()") {
				// the worker's own watchdog interrupting a hung evaluation (that run is inconclusive anyway)
				r.Count("race_reports_from_watchdog_interrupt", 1)
				continue
			}
			if raceWithFinishedGoroutine(rep.Text) {
				// one of the two goroutines had already finished when the other made its access: the accesses
				// were not concurrent. Seen when a goroutine not started by the interpreter (timer, worker of
				// compiled code) inherits the runtime record of a dead one through the reuse of its runtime.g
				// address, which is ordered by the scheduler but invisible to the race detector.
				r.Count("race_reports_with_finished_goroutine_skipped", 1)
				continue
			}
			if !rep.Gomacro {
				r.Count("race_reports_without_gomacro_frame", 1)
				r.Inconclusive("race report without any gomacro frame (harness problem): " + fw.Clip(rep.Text, 400))
				continue
			}
			what := "data race in gomacro: " + rep.Key
			if id := classify(rep); id != "" {
				r.Known(id, rep, what)
			} else {
				r.Violation("race:"+rep.Key, rep, what+"\n"+fw.Clip(rep.Text, 1500))
			}
		}
	}
	if r.Counter("hook_OwnerViolations") != 0 {
		r.Violation("frame-ownership", map[string]int64{"owner_violations": r.Counter("hook_OwnerViolations")}, "frames were taken or released on a Run owned by another goroutine")
	}
}

func c10Classify(rep raceReport) string {
	// the per-call-site cache of function values (cachedfunv / cachedfun) is written without synchronisation:
	// recognised only when both racing accesses are source lines mentioning that cache
	if len(rep.Frames) == 0 {
		return ""
	}
	for id, word := range map[string]string{"C10-callsite-cache-race": "cachedfun", "C10-intaddresstaken-flag-race": "IntAddressTaken"} {
		all := true
		for _, f := range rep.Frames {
			if !strings.Contains(repoLine(f), word) {
				all = false
			}
		}
		if all {
			return id
		}
	}
	return ""
}

var raceAccessRe = regexp.MustCompile(`(?m)^(?:Read|Write|Previous read|Previous write|Atomic read|Atomic write|Previous atomic read|Previous atomic write) at 0x[0-9a-f]+ by goroutine (\d+):`)

func raceWithFinishedGoroutine(text string) bool {
	for _, m := range raceAccessRe.FindAllStringSubmatch(text, -1) {
		if strings.Contains(text, "Goroutine "+m[1]+" (finished)") {
			return true
		}
	}
	return false
}

// repoLine returns the source line of a "dir/file.go:line" frame below /repo
func repoLine(frame string) string {
	k := strings.LastIndexByte(frame, ':')
	if k < 0 {
		return ""
	}
	var line int
	fmt.Sscan(frame[k+1:], &line)
	data, err := os.ReadFile(filepath.Join("/repo", frame[:k]))
	if err != nil {
		return ""
	}
	lines := strings.Split(string(data), "\n")
	if line < 1 || line > len(lines) {
		return ""
	}
	return lines[line-1]
}

func checkC10(r *fw.Run) {
	r.SetRule("seeded instances of 13 race-free concurrent program templates (fork-join over channels, pipelines with close+range, mutex counters, unbuffered ping-pong, producer/consumer, fan-in of unique ids checked in-program for per-producer order and exactly-once, select with default / ready cases and a quit channel, closures shared through sync/atomic, nested goroutines outliving their starter, sync.Once+RWMutex, worker pools, panics recovered inside goroutines, go-statement arguments of struct/array/string/func kinds reassigned right after the go statement) with seeded sizes and buffer capacities; every program's recorded result is schedule-independent by construction (or an admissibility predicate evaluated in-program) and must equal compiled Go's; each program is run by the race-detector build of the interpreter under GOMAXPROCS 1, 4 (quick) / 1, 2, 4, 16 (thorough) with seeded yields at goroutine hand-over points and the frame-ownership assertion on; any race report with a gomacro frame is a violation; distinct = distinct (program, GOMAXPROCS)")
	r.Assume("the Go race detector only judges the interleavings that occurred; a deadlock shows as a watchdog timeout = inconclusive, never a verdict")
	if p := fw.ReplayArg(); p != "" {
		e1ReplayFile(r, p, e1Opts{})
		return
	}
	rng := r.Rng("progs")
	n := r.Pick(96, 1500)
	if v := os.Getenv("C10_N"); v != "" {
		fmt.Sscan(v, &n)
	}
	feat := map[string]int{}
	var progs []*Prog
	for i := 0; i < n; i++ {
		progs = append(progs, c10Prog(i, rng, feat))
	}
	r.Extra("templates_generated", feat)
	procs := []string{"1", "4"}
	if r.Thorough() {
		procs = []string{"1", "2", "4", "16"}
	}
	c10RunRace(r, "C10", progs, procs, c10Classify)
}
