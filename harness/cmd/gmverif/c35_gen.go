package main

// C35 — program generator: picks generic templates (library ones with a random body variant, and
// randomly generated ones), type-argument lists, and instantiation sites in different scopes; renders
// the program once in gomacro generics syntax (Src) and once hand-specialised (RefSrc, c35_mono.go).

import (
	"fmt"
	"math/rand"
	"regexp"
	"sort"
	"strings"
)

type c35Gen struct {
	ctx      *c35Ctx
	rng      *rand.Rand
	fns      map[string]*c35Fn // library + random + wrapper generic functions available to this program
	fnOrder  []string
	extra    []*c35Fn // random fns and wrappers (always emitted)
	randFns  []*c35Fn
	tag      int
	nid      int
	top      strings.Builder
	body     strings.Builder
	pool     []*c35Tx
	cover    [][2]string
	units    []string
	inferred bool
}

var c35PoolSrc = []string{
	"int", "int8", "int32", "int64", "uint", "uint8", "uint16", "float32", "float64", "complex128", "string", "bool",
	"[]int", "[]string", "[][]int", "map[string]int", "map[int]bool", "[2]int", "[3]string",
	"struct{A int; B string}", "struct{X int}", "struct{X int; S []int}", "*int", "*§Pt", "[]*int",
	"func(int) int", "func(string) (int, bool)", "chan int", "interface{}", "[]interface{}", "map[§Str]§Pt",
	"§MyInt", "§Str", "§Pt", "§Strs", "§Fn", "§Flt", "[]§MyInt", "map[§MyInt]string",
	"§Box#[int]", "§Pair#[int,string]", "§Pair#[string,int]", "[]§Box#[string]", "map[string]§Pair#[int,int]",
	"§Vec#[int]", "§Opt#[§Pt]", "§Box#[§Box#[int]]", "§Dict#[string,int]", "§Fun#[int,int]", "*§Box#[int]",
	"§Arr3#[uint8]", "§Al#[int]", "§Pair#[§MyInt,[]string]", "func(§Box#[int]) §Box#[string]",
}

var c35TypeCons = map[string][]string{"Dict": {c35Cmp, ""}}

func c35NewGen(rng *rand.Rand) *c35Gen {
	g := &c35Gen{ctx: c35NewCtx(), rng: rng, fns: map[string]*c35Fn{}}
	for _, f := range c35LibFns() {
		f.Body = f.Bodies[rng.Intn(len(f.Bodies))]
		g.fns[f.Name] = f
		g.fnOrder = append(g.fnOrder, f.Name)
	}
	for _, s := range c35PoolSrc {
		g.pool = append(g.pool, c35ParseType(s))
	}
	return g
}

func (g *c35Gen) newTag() int { g.tag++; return g.tag }
func (g *c35Gen) newID() int  { g.nid++; return g.nid }
func (g *c35Gen) cov(table, cell string) {
	g.cover = append(g.cover, [2]string{table, cell})
}

func (g *c35Gen) satisfies(t *c35Tx, cons string) bool {
	c := g.ctx
	switch cons {
	case c35Any:
		return true
	case c35Cmp:
		return c.cmp(t)
	case c35Ord:
		return c.ord(t)
	case c35Add:
		return c.add(t)
	case c35HasX:
		return c.hasX(t)
	case c35Double:
		return c.double(t)
	case c35Len:
		return c.lenOK(t)
	case c35Assert:
		return c.assertSafe(t)
	}
	return false
}

func (g *c35Gen) pickType(cons string) *c35Tx {
	var ok []*c35Tx
	for _, t := range g.pool {
		if g.satisfies(t, cons) {
			ok = append(ok, t)
		}
	}
	return ok[g.rng.Intn(len(ok))]
}

// twins: a program-declared named type and its underlying type have the same reflect.Type inside the
// interpreter (named types are emulated); an instance cache must still tell them apart.
var c35Twins = map[string]string{
	"§MyInt": "int", "int": "§MyInt", "§Str": "string", "string": "§Str", "§Flt": "float64", "float64": "§Flt",
	"§Pt": "struct{X int; Y int}", "§Strs": "[]string", "[]string": "§Strs", "§Fn": "func(int) int", "func(int) int": "§Fn",
	"§Box#[int]": "struct{Elem int}", "§Vec#[int]": "[]int", "[]int": "§Vec#[int]", "§Pair#[int,string]": "struct{First int; Second string}",
	"[]§MyInt": "[]int", "§Fun#[int,int]": "§Fn",
}

func (g *c35Gen) twin(t *c35Tx, cons string) *c35Tx {
	if tw, ok := c35Twins[t.String()]; ok {
		tt := c35ParseType(tw)
		if g.satisfies(tt, cons) {
			return tt
		}
	}
	return nil
}

func (g *c35Gen) pickArgs(cons []string, like []*c35Tx) []*c35Tx {
	out := make([]*c35Tx, len(cons))
	if like != nil && g.rng.Intn(3) == 0 {
		// same list with one argument replaced by its twin
		copy(out, like)
		k := g.rng.Intn(len(cons))
		if tw := g.twin(like[k], cons[k]); tw != nil {
			out[k] = tw
			return out
		}
	}
	for i, c := range cons {
		if like != nil && i < len(cons)-1 && g.rng.Intn(2) == 0 {
			out[i] = like[i] // share a prefix with an earlier list: the lists differ in a later argument only
			continue
		}
		out[i] = g.pickType(c)
	}
	return out
}

func c35ArgsString(args []*c35Tx) string {
	var s []string
	for _, a := range args {
		s = append(s, a.String())
	}
	return strings.Join(s, ",")
}

// ---------------------------------------------------------------- using a generic function

func (g *c35Gen) callable(t *c35Tx) *c35Tx {
	u := g.ctx.under(t)
	if u.K == "func" {
		return u
	}
	return nil
}

// useFn returns statements that call `inst` (an expression denoting f instantiated with args) and record the results.
func (g *c35Gen) useFn(f *c35Fn, inst string, args []*c35Tx) string {
	m := map[string]*c35Tx{}
	for i, p := range f.TP {
		m[p] = args[i]
	}
	var b strings.Builder
	var as []string
	for _, p := range f.Params {
		t := p.T.subst(m)
		switch {
		case len(p.Alts) > 0:
			as = append(as, p.Alts[g.rng.Intn(len(p.Alts))])
		case p.Variadic:
			n := g.rng.Intn(4)
			for k := 0; k < n; k++ {
				as = append(as, g.ctx.val(g.rng, t.A[0], g.rng.Intn(5), 0))
			}
		case f.Name == "Is" && g.rng.Intn(2) == 0:
			as = append(as, "interface{}("+g.ctx.val(g.rng, args[0], g.rng.Intn(5), 0)+")")
		default:
			as = append(as, g.ctx.val(g.rng, t, g.rng.Intn(5), 0))
		}
	}
	call := inst + "(" + strings.Join(as, ", ") + ")"
	if len(f.Res) == 0 {
		b.WriteString(call + "\n")
		fmt.Fprintf(&b, "rec(%d)\n", g.newTag())
		return b.String()
	}
	id := g.newID()
	var names, recs []string
	var rts []*c35Tx
	for i, r := range f.Res {
		n := fmt.Sprintf("r%d_%d", id, i)
		names = append(names, n)
		rt := r.subst(m)
		rts = append(rts, rt)
		if g.ctx.recable(rt) {
			recs = append(recs, "nc("+n+")")
		}
	}
	b.WriteString(strings.Join(names, ", ") + " := " + call + "\n")
	for _, n := range names {
		b.WriteString("_ = " + n + "\n")
	}
	fmt.Fprintf(&b, "rec(%d%s)\n", g.newTag(), c35Lead(recs))
	// call returned closures (twice: stateful ones must advance identically)
	for i, rt := range rts {
		fu := g.callable(rt)
		if fu == nil || fu.Variadic {
			continue
		}
		for rep := 0; rep < 2; rep++ {
			var cas []string
			for _, a := range fu.A {
				cas = append(cas, g.ctx.val(g.rng, a, g.rng.Intn(5), 0))
			}
			ccall := names[i] + "(" + strings.Join(cas, ", ") + ")"
			if len(fu.R) == 0 {
				b.WriteString(ccall + "\n")
				continue
			}
			var qs, qrecs []string
			for k, qr := range fu.R {
				q := fmt.Sprintf("q%d_%d_%d_%d", id, i, rep, k)
				qs = append(qs, q)
				if g.ctx.recable(qr) {
					qrecs = append(qrecs, "nc("+q+")")
				}
			}
			b.WriteString(strings.Join(qs, ", ") + " := " + ccall + "\n")
			for _, q := range qs {
				b.WriteString("_ = " + q + "\n")
			}
			fmt.Fprintf(&b, "rec(%d%s)\n", g.newTag(), c35Lead(qrecs))
		}
	}
	return b.String()
}

func c35Lead(xs []string) string {
	if len(xs) == 0 {
		return ""
	}
	return ", " + strings.Join(xs, ", ")
}

// wrapper returns a generic function with the same signature as f, its type parameters declared in a
// permuted order, that instantiates f from inside its body and forwards to it.
func (g *c35Gen) wrapper(f *c35Fn) (*c35Fn, []int) {
	perm := g.rng.Perm(len(f.TP))
	w := &c35Fn{Name: fmt.Sprintf("W%d", g.newID()), Params: f.Params, Res: f.Res, NoInfer: f.NoInfer}
	for _, k := range perm {
		w.TP = append(w.TP, f.TP[k])
		w.Cons = append(w.Cons, f.Cons[k])
	}
	target := "§" + f.Name + "#[" + strings.Join(f.TP, ",") + "]"
	ret := "return "
	if len(f.Res) == 0 {
		ret = ""
	}
	switch g.rng.Intn(3) {
	case 0:
		w.Body = ret + target + "(" + f.fwdArgs() + ")"
	case 1:
		w.Body = "fw := " + target + "\n" + ret + "fw(" + f.fwdArgs() + ")"
	default:
		w.Body = "fw := func" + f.header() + " {\n" + ret + target + "(" + f.fwdArgs() + ")\n}\n" + ret + "fw(" + f.fwdArgs() + ")"
	}
	g.addExtra(w)
	return w, perm
}

func (g *c35Gen) addExtra(f *c35Fn) {
	g.fns[f.Name] = f
	g.extra = append(g.extra, f)
}

func c35Permute(args []*c35Tx, perm []int) []*c35Tx {
	out := make([]*c35Tx, len(perm))
	for i, k := range perm {
		out[i] = args[k]
	}
	return out
}

// inferable: gomacro type inference is attempted only for non-variadic functions whose every type
// parameter occurs in some parameter type.
func (g *c35Gen) inferable(f *c35Fn) bool {
	if f.NoInfer || len(f.Params) == 0 {
		return false
	}
	for _, p := range f.Params {
		if p.Variadic || len(p.Alts) > 0 || c35HasKind(p.T, "inst", "struct", "ptr", "arr", "chan") {
			return false // shapes the interpreter's inference does not implement
		}
	}
	for _, tp := range f.TP {
		found := false
		for _, p := range f.Params {
			if p.T.mentions(map[string]bool{tp: true}) {
				found = true
			}
		}
		if !found {
			return false
		}
	}
	return true
}

func c35HasKind(t *c35Tx, kinds ...string) bool {
	for _, k := range kinds {
		if t.K == k {
			return true
		}
	}
	for _, a := range t.A {
		if c35HasKind(a, kinds...) {
			return true
		}
	}
	for _, a := range t.R {
		if c35HasKind(a, kinds...) {
			return true
		}
	}
	return false
}

var c35SiteKinds = []string{"P", "helper", "nested", "method", "closurevar"}
var c35InstKinds = []string{"direct", "direct", "topvar", "localvar", "generic", "generic", "generic2"}

// place puts a block of statements into the program at a site of the given kind.
func (g *c35Gen) place(kind, block string) {
	id := g.newID()
	// (not `func() {...}()`: when the body of an immediately called literal does not compile, the interpreter
	// retries the literal as a type and reports a misleading "unimplemented type" instead of the real error)
	wrapped := fmt.Sprintf("b%d := func() {\ndefer §rc(%d)\n%s}\nb%d()\n", id, g.newTag(), block, id)
	switch kind {
	case "P":
		g.body.WriteString(wrapped)
	case "helper":
		fmt.Fprintf(&g.top, "func §h%d() {\n%s}\n", id, wrapped)
		fmt.Fprintf(&g.body, "§h%d()\n", id)
	case "nested":
		fmt.Fprintf(&g.body, "for i%d := 0; i%d < 1; i%d++ {\nif i%d == 0 {\nn%d := func() {\n%s}\nn%d()\n}\n}\n", id, id, id, id, id, wrapped, id)
	case "method":
		fmt.Fprintf(&g.top, "type §R%d struct{ K int }\nfunc (r §R%d) Run() {\n%s}\n", id, id, wrapped)
		fmt.Fprintf(&g.body, "§R%d{1}.Run()\n", id)
	case "closurevar":
		fmt.Fprintf(&g.top, "var §cv%d = func() {\n%s}\n", id, wrapped)
		fmt.Fprintf(&g.body, "§cv%d()\n", id)
	}
	g.cov("site", kind)
}

// fnUnit instantiates f with nLists argument lists, each from several sites.
func (g *c35Gen) fnUnit(f *c35Fn) {
	g.units = append(g.units, f.Name)
	nLists := 2 + g.rng.Intn(2)
	var prev []*c35Tx
	seen := map[string]bool{}
	for l := 0; l < nLists; l++ {
		args := g.pickArgs(f.Cons, prev)
		if seen[c35ArgsString(args)] {
			continue
		}
		seen[c35ArgsString(args)] = true
		prev = args
		for _, a := range args {
			g.cov("argclass", g.ctx.class(a))
		}
		g.cov("template", c35TmplLabel(f))
		g.cov("nparams", fmt.Sprint(len(f.TP)))
		nSites := 2 + g.rng.Intn(2)
		sites := g.rng.Perm(len(c35SiteKinds))[:nSites]
		if g.rng.Intn(4) == 0 {
			g.localSite(f, args, c35SiteKinds[sites[0]])
		}
		for s, sk := range sites {
			ik := c35InstKinds[g.rng.Intn(len(c35InstKinds))]
			if s == 0 {
				ik = "direct"
			} else if s == 1 {
				ik = "generic"
			}
			if g.inferred && s == 0 && g.inferable(f) {
				ik = "infer"
			}
			inst := "§" + f.Name + "#[" + c35ArgsString(args) + "]"
			prefix := ""
			switch ik {
			case "topvar":
				id := g.newID()
				fmt.Fprintf(&g.top, "var §fv%d = %s\n", id, inst)
				inst = fmt.Sprintf("§fv%d", id)
			case "localvar":
				id := g.newID()
				prefix = fmt.Sprintf("lf%d := %s\n", id, inst)
				inst = fmt.Sprintf("lf%d", id)
			case "generic", "generic2":
				w, perm := g.wrapper(f)
				wargs := c35Permute(args, perm)
				if ik == "generic2" {
					w2, perm2 := g.wrapper(w)
					w, wargs = w2, c35Permute(wargs, perm2)
				}
				inst = "§" + w.Name + "#[" + c35ArgsString(wargs) + "]"
			case "infer":
				inst = "§" + f.Name + c35Inferred + c35ArgsString(args) + "]"
			}
			g.cov("instantiated_from", ik)
			g.place(c35SiteKinds[sk], prefix+g.useFn(f, inst, args))
		}
	}
}

var c35LocalUnders = []string{"struct{A int; B string}", "struct{X int}", "int", "string", "[]int", "map[string]int", "func(int) int", "[2]uint8", "struct{X int; P *int}"}

// localSite instantiates f with one type argument replaced by a named type declared inside the function
// body of the site: the argument cannot be resolved from the scope where the generic was declared.
func (g *c35Gen) localSite(f *c35Fn, args []*c35Tx, kind string) {
	k := g.rng.Intn(len(args))
	var cands []*c35Tx
	for _, u := range c35LocalUnders {
		cands = append(cands, c35ParseType(u))
	}
	name := fmt.Sprintf("§Loc%d", g.newID())
	g.rng.Shuffle(len(cands), func(i, j int) { cands[i], cands[j] = cands[j], cands[i] })
	var under *c35Tx
	for _, u := range cands {
		g.ctx.Named[name] = &c35Named{Name: name, Under: u}
		ok := g.satisfies(c35Id(name), f.Cons[k])
		if f.Cons[k] == c35Double || f.Cons[k] == c35Assert {
			ok = false
		}
		if ok {
			under = u
			break
		}
		delete(g.ctx.Named, name)
	}
	if under == nil {
		return
	}
	largs := append([]*c35Tx{}, args...)
	largs[k] = c35Id(name)
	inst := "§" + f.Name + "#[" + c35ArgsString(largs) + "]"
	ik := "direct"
	prefix := ""
	switch g.rng.Intn(3) {
	case 0:
		id := g.newID()
		prefix = fmt.Sprintf("lf%d := %s\n", id, inst)
		inst = fmt.Sprintf("lf%d", id)
		ik = "localvar"
	case 1:
		w, perm := g.wrapper(f)
		inst = "§" + w.Name + "#[" + c35ArgsString(c35Permute(largs, perm)) + "]"
		ik = "generic"
	}
	g.cov("instantiated_from", "local-type/"+ik)
	g.cov("argclass", "local-"+g.ctx.class(c35Id(name)))
	block := "type " + name + " " + under.String() + "\n" + c35LocalMarker + name + "\n" + prefix + g.useFn(f, inst, largs)
	g.place(kind, block)
}

func c35TmplLabel(f *c35Fn) string {
	if f.Random {
		return "random-func"
	}
	return f.Name
}

// typeUnit exercises a generic type: values of the instance created at different sites (top level,
// functions, closures, methods, inside other generics) are assigned to one another and compared.
func (g *c35Gen) typeUnit(tt *c35TypeTmpl) {
	g.units = append(g.units, "type:"+tt.Name)
	cons := c35TypeCons[tt.Name]
	if cons == nil {
		cons = make([]string, len(tt.TP))
	}
	nLists := 2 + g.rng.Intn(2)
	var prev []*c35Tx
	seen := map[string]bool{}
	for l := 0; l < nLists; l++ {
		args := g.pickArgs(cons, prev)
		if seen[c35ArgsString(args)] {
			continue
		}
		seen[c35ArgsString(args)] = true
		prev = args
		for _, a := range args {
			g.cov("argclass", g.ctx.class(a))
		}
		g.cov("template", "type:"+tt.Name)
		g.cov("nparams", fmt.Sprint(len(tt.TP)))
		inst := c35Inst(tt.Name, args...)
		spell := inst.String()
		as := c35ArgsString(args)
		tps := strings.Join(tt.TP, ",")
		var tpx []*c35Tx
		for _, p := range tt.TP {
			tpx = append(tpx, c35Id(p))
		}
		gspell := c35Inst(tt.Name, tpx...).String()
		id := g.newID()
		tv := fmt.Sprintf("§tv%d", id)
		fmt.Fprintf(&g.top, "var %s %s\n", tv, spell)
		recable, cmp := g.ctx.recable(inst), g.ctx.cmp(inst)
		u := g.ctx.under(inst)
		// (methods only on struct instances: with CTI generics enabled the interpreter loses the declared methods of
		// every named slice/map/array/chan/string type, generic or not - an unrelated defect)
		method := !tt.Alias && u.K == "struct" && g.rng.Intn(2) == 0
		if method {
			fmt.Fprintf(&g.top, "func (x %s) Mth%d(k int) int { return k + %d }\n", spell, id, id)
		}
		// generic helpers instantiating the type from inside a generic body
		z := &c35Fn{Name: fmt.Sprintf("Z%d", id), TP: tt.TP, Cons: cons, Res: []*c35Tx{c35ParseType(gspell)},
			Body: "var z " + gspell + "\nreturn z"}
		k := &c35Fn{Name: fmt.Sprintf("K%d", id), TP: tt.TP, Cons: cons, Params: []c35Param{{Name: "v", T: c35ParseType(gspell)}},
			Res: []*c35Tx{c35ParseType(gspell)}, Body: "w := v\nreturn w"}
		var gb strings.Builder
		fmt.Fprintf(&gb, "var y %s = x\n%s = y\ny = %s\n", gspell, tv, tv)
		if recable {
			fmt.Fprintf(&gb, "rec(%d, nc(y))\n", g.newTag())
		}
		if cmp {
			fmt.Fprintf(&gb, "rec(%d, y == %s, x != y)\n", g.newTag(), tv)
		}
		if method {
			fmt.Fprintf(&gb, "rec(%d, y.Mth%d(2))\n", g.newTag(), id)
		}
		gf := &c35Fn{Name: fmt.Sprintf("G%d", id), TP: tt.TP, Cons: cons, Params: []c35Param{{Name: "x", T: c35ParseType(gspell)}}, Body: gb.String()}
		g.addExtra(z)
		g.addExtra(k)
		g.addExtra(gf)
		_ = tps
		nSites := 2 + g.rng.Intn(2)
		sites := g.rng.Perm(len(c35SiteKinds))[:nSites]
		for _, sk := range sites {
			var b strings.Builder
			sid := g.newID()
			x := fmt.Sprintf("x%d", sid)
			fmt.Fprintf(&b, "%s := %s\n%s = %s\nvar y%d %s = %s\ny%d = §K%d#[%s](y%d)\n", x, g.ctx.val(g.rng, inst, g.rng.Intn(5), 0), tv, x, sid, spell, tv, sid, id, as, sid)
			if recable {
				fmt.Fprintf(&b, "rec(%d, nc(y%d))\n", g.newTag(), sid)
			}
			if cmp {
				fmt.Fprintf(&b, "rec(%d, y%d == %s)\n", g.newTag(), sid, tv)
			}
			fmt.Fprintf(&b, "z%d := §Z%d#[%s]()\n%s = z%d\n", sid, id, as, tv, sid)
			if recable {
				fmt.Fprintf(&b, "rec(%d, nc(%s))\n", g.newTag(), tv)
			}
			if method {
				fmt.Fprintf(&b, "rec(%d, %s.Mth%d(1), z%d.Mth%d(3))\n", g.newTag(), x, id, sid, id)
			}
			fmt.Fprintf(&b, "§G%d#[%s](%s)\n", id, as, x)
			g.cov("instantiated_from", "type-sites")
			g.place(c35SiteKinds[sk], b.String())
		}
	}
}

// ---------------------------------------------------------------- random generic functions

type c35Var struct {
	Name string
	T    *c35Tx
	Call bool // a func value that is certainly not nil
}

type c35RB struct {
	g     *c35Gen
	f     *c35Fn
	cons  map[string]string
	env   []c35Var
	out   *[]string
	depth int
}

func (rb *c35RB) nv() string { return fmt.Sprintf("v%d", rb.g.newID()) }

func (rb *c35RB) emit(format string, a ...interface{}) {
	*rb.out = append(*rb.out, fmt.Sprintf(format, a...))
}

func (rb *c35RB) add(name string, t *c35Tx, call bool) {
	rb.env = append(rb.env, c35Var{name, t, call})
	rb.emit("_ = %s", name)
}

func (rb *c35RB) pick(pred func(v c35Var) bool) (c35Var, bool) {
	var ok []c35Var
	for _, v := range rb.env {
		if pred == nil || pred(v) {
			ok = append(ok, v)
		}
	}
	if len(ok) == 0 {
		return c35Var{}, false
	}
	return ok[rb.g.rng.Intn(len(ok))], true
}

func (rb *c35RB) sameType(t *c35Tx) func(v c35Var) bool {
	s := t.String()
	return func(v c35Var) bool { return v.T.String() == s }
}

func (rb *c35RB) tpWith(cons ...string) func(v c35Var) bool {
	return func(v c35Var) bool {
		if v.T.K != "id" {
			return false
		}
		c, ok := rb.cons[v.T.Name]
		if !ok {
			return false
		}
		for _, want := range cons {
			if c == want {
				return true
			}
		}
		return false
	}
}

func (rb *c35RB) recable(t *c35Tx) bool { return rb.g.ctx.recable(t) }

// randShape returns a parameter type built from the type parameters.
func (rb *c35RB) randShape() *c35Tx {
	rng := rb.g.rng
	tp := func() *c35Tx { return c35Id(rb.f.TP[rng.Intn(len(rb.f.TP))]) }
	var cmpTP []*c35Tx
	for _, p := range rb.f.TP {
		if c := rb.cons[p]; c == c35Cmp || c == c35Ord {
			cmpTP = append(cmpTP, c35Id(p))
		}
	}
	switch k := rng.Intn(100); {
	case k < 35:
		return tp()
	case k < 50:
		return c35Slice(tp())
	case k < 58:
		return c35Map(c35Id("string"), tp())
	case k < 64 && len(cmpTP) > 0:
		return c35Map(cmpTP[rng.Intn(len(cmpTP))], tp())
	case k < 74:
		return c35Func([]*c35Tx{tp()}, tp())
	case k < 79:
		return c35Ptr(tp())
	case k < 83:
		return c35Arr(2, tp())
	case k < 88:
		return c35Struct([]string{"F0", "F1"}, tp(), tp())
	case k < 93:
		return c35Inst("Box", tp())
	case k < 97:
		return c35Inst("Pair", tp(), tp())
	}
	return c35Slice(c35Inst("Pair", tp(), tp()))
}

// stmt emits one random statement group; returns false if the chosen production was not applicable.
func (rb *c35RB) stmt() bool {
	g, rng := rb.g, rb.g.rng
	switch k := rng.Intn(24); k {
	case 0, 1: // record a variable
		v, ok := rb.pick(func(v c35Var) bool { return rb.recable(v.T) })
		if !ok {
			return false
		}
		rb.emit("rec(%d, nc(%s))", g.newTag(), v.Name)
	case 2: // zero value
		t := rb.randShape()
		n := rb.nv()
		rb.emit("var %s %s", n, t)
		rb.add(n, t, false)
		if rb.recable(t) {
			rb.emit("rec(%d, nc(%s))", g.newTag(), n)
		}
	case 3: // slice of a variable
		v, ok := rb.pick(nil)
		if !ok {
			return false
		}
		n := rb.nv()
		if w, ok2 := rb.pick(rb.sameType(v.T)); ok2 && rng.Intn(2) == 0 {
			rb.emit("%s := []%s{%s, %s}", n, v.T, v.Name, w.Name)
		} else {
			rb.emit("%s := []%s{%s}", n, v.T, v.Name)
		}
		rb.add(n, c35Slice(v.T), false)
		rb.emit("rec(%d, len(%s))", g.newTag(), n)
	case 4: // last element
		s, ok := rb.pick(func(v c35Var) bool { return v.T.K == "slice" })
		if !ok {
			return false
		}
		n := rb.nv()
		rb.emit("var %s %s\nif len(%s) > 0 {\n%s = %s[len(%s)-1]\n}", n, s.T.A[0], s.Name, n, s.Name, s.Name)
		rb.add(n, s.T.A[0], false)
	case 5: // range
		s, ok := rb.pick(func(v c35Var) bool { return v.T.K == "slice" && rb.recable(v.T) })
		if !ok {
			return false
		}
		id := g.newID()
		rb.emit("for i%d, e%d := range %s {\nrec(%d, i%d, nc(e%d))\n}", id, id, s.Name, g.newTag(), id, id)
	case 6: // build a map
		v, ok := rb.pick(nil)
		if !ok {
			return false
		}
		n := rb.nv()
		rb.emit("%s := map[string]%s{\"a\": %s}\n%s[\"b\"] = %s", n, v.T, v.Name, n, v.Name)
		rb.add(n, c35Map(c35Id("string"), v.T), false)
		rb.emit("rec(%d, len(%s))", g.newTag(), n)
	case 7: // map lookup
		m, ok := rb.pick(func(v c35Var) bool { return v.T.K == "map" })
		if !ok {
			return false
		}
		key := `"a"`
		if m.T.A[0].String() != "string" {
			kv, ok2 := rb.pick(rb.sameType(m.T.A[0]))
			if !ok2 {
				return false
			}
			key = kv.Name
		}
		n := rb.nv()
		rb.emit("%s, ok%s := %s[%s]", n, n, m.Name, key)
		rb.add(n, m.T.A[1], false)
		rb.emit("rec(%d, ok%s, len(%s))", g.newTag(), n, m.Name)
	case 8: // address-of and store through the pointer
		v, ok := rb.pick(nil)
		if !ok {
			return false
		}
		n := rb.nv()
		rb.emit("%s := &%s", n, v.Name)
		rb.add(n, c35Ptr(v.T), false)
		if w, ok2 := rb.pick(rb.sameType(v.T)); ok2 {
			rb.emit("*%s = %s", n, w.Name)
		}
	case 9: // guarded dereference
		p, ok := rb.pick(func(v c35Var) bool { return v.T.K == "ptr" })
		if !ok {
			return false
		}
		n := rb.nv()
		rb.emit("var %s %s\nif %s != nil {\n%s = *%s\n}", n, p.T.A[0], p.Name, n, p.Name)
		rb.add(n, p.T.A[0], false)
		rb.emit("rec(%d, %s == nil)", g.newTag(), p.Name)
	case 10: // apply a function parameter or closure
		f, ok := rb.pick(func(v c35Var) bool { return v.Call && v.T.K == "func" && len(v.T.A) == 1 && len(v.T.R) == 1 })
		if !ok {
			return false
		}
		a, ok := rb.pick(rb.sameType(f.T.A[0]))
		if !ok {
			return false
		}
		n := rb.nv()
		rb.emit("%s := %s(%s)", n, f.Name, a.Name)
		rb.add(n, f.T.R[0], false)
	case 11: // closure capturing a variable
		v, ok := rb.pick(nil)
		if !ok {
			return false
		}
		n := rb.nv()
		rb.emit("%s := func() %s {\nreturn %s\n}", n, v.T, v.Name)
		rb.add(n, c35Func(nil, v.T), true)
		if rb.recable(v.T) {
			rb.emit("rec(%d, nc(%s()))", g.newTag(), n)
		}
	case 12: // counting closure
		v, ok := rb.pick(nil)
		if !ok {
			return false
		}
		n := rb.nv()
		rb.emit("c%s := 0\n%s := func(x %s) %s {\nc%s++\nreturn x\n}", n, n, v.T, v.T, n)
		rb.add(n, c35Func([]*c35Tx{v.T}, v.T), true)
		rb.emit("%s(%s)\n%s(%s(%s))\nrec(%d, c%s)", n, v.Name, n, n, v.Name, g.newTag(), n)
	case 13: // anonymous struct
		v, ok := rb.pick(nil)
		w, ok2 := rb.pick(nil)
		if !ok || !ok2 {
			return false
		}
		n := rb.nv()
		t := c35Struct([]string{"F0", "F1"}, v.T, w.T)
		rb.emit("%s := %s{%s, %s}", n, t, v.Name, w.Name)
		rb.add(n, t, false)
	case 14: // field access
		s, ok := rb.pick(func(v c35Var) bool {
			return v.T.K == "struct" || v.T.K == "inst" && (v.T.Name == "Box" || v.T.Name == "Pair")
		})
		if !ok {
			return false
		}
		u := s.T
		if u.K == "inst" {
			u = g.ctx.instBody(u)
		}
		k := rng.Intn(len(u.A))
		n := rb.nv()
		rb.emit("%s := %s.%s", n, s.Name, u.F[k])
		rb.add(n, u.A[k], false)
	case 15: // equality
		v, ok := rb.pick(rb.tpWith(c35Cmp, c35Ord))
		if !ok {
			return false
		}
		w, _ := rb.pick(rb.sameType(v.T))
		rb.emit("rec(%d, %s == %s, %s != %s)", g.newTag(), v.Name, w.Name, w.Name, v.Name)
	case 16: // ordering
		v, ok := rb.pick(rb.tpWith(c35Ord))
		if !ok {
			return false
		}
		w, _ := rb.pick(rb.sameType(v.T))
		n := rb.nv()
		rb.emit("%s := %s\nif %s < %s {\n%s = %s\n}\nrec(%d, %s <= %s)", n, v.Name, w.Name, v.Name, n, w.Name, g.newTag(), v.Name, w.Name)
		rb.add(n, v.T, false)
	case 17: // addition
		v, ok := rb.pick(rb.tpWith(c35Add))
		if !ok {
			return false
		}
		w, _ := rb.pick(rb.sameType(v.T))
		n := rb.nv()
		rb.emit("%s := %s + %s", n, v.Name, w.Name)
		rb.add(n, v.T, false)
	case 18: // generic calling generic: identity at a derived type
		v, ok := rb.pick(nil)
		if !ok {
			return false
		}
		n := rb.nv()
		rb.emit("%s := §Id#[%s](%s)", n, v.T, v.Name)
		rb.add(n, v.T, false)
	case 19: // generic type instantiated inside the generic body
		v, ok := rb.pick(nil)
		if !ok {
			return false
		}
		n := rb.nv()
		if w, ok2 := rb.pick(nil); ok2 && rng.Intn(2) == 0 {
			rb.emit("%s := §MkPair#[%s,%s](%s, %s)", n, v.T, w.T, v.Name, w.Name)
			rb.add(n, c35Inst("Pair", v.T, w.T), false)
		} else {
			rb.emit("%s := §Box#[%s]{%s}", n, v.T, v.Name)
			rb.add(n, c35Inst("Box", v.T), false)
		}
	case 20: // Map over a slice with a function
		f, ok := rb.pick(func(v c35Var) bool { return v.Call && v.T.K == "func" && len(v.T.A) == 1 && len(v.T.R) == 1 })
		if !ok {
			return false
		}
		s, ok := rb.pick(rb.sameType(c35Slice(f.T.A[0])))
		if !ok {
			return false
		}
		n := rb.nv()
		rb.emit("%s := §Map#[%s,%s](%s, %s)", n, f.T.A[0], f.T.R[0], s.Name, f.Name)
		rb.add(n, c35Slice(f.T.R[0]), false)
	case 21: // boxing in interface{}
		v, ok := rb.pick(func(v c35Var) bool { return rb.recable(v.T) })
		if !ok {
			return false
		}
		n := rb.nv()
		rb.emit("var %s interface{} = %s", n, v.Name)
		rb.add(n, &c35Tx{K: "iface"}, false)
		rb.emit("rec(%d, nc(%s))", g.newTag(), n)
	case 22: // nested block
		if rb.depth >= 2 {
			return false
		}
		var inner []string
		saveOut, saveEnv := rb.out, len(rb.env)
		rb.out = &inner
		rb.depth++
		n := 1 + rng.Intn(2)
		for tries := 0; n > 0 && tries < 20; tries++ {
			if rb.stmt() {
				n--
			}
		}
		rb.depth--
		rb.out = saveOut
		rb.env = rb.env[:saveEnv]
		id := g.newID()
		hdr := fmt.Sprintf("for i%d := 0; i%d < 2; i%d++ {", id, id, id)
		switch rng.Intn(3) {
		case 0:
			hdr = "{"
		case 1:
			if s, ok := rb.pick(func(v c35Var) bool { return v.T.K == "slice" }); ok {
				hdr = fmt.Sprintf("if len(%s) > 0 {", s.Name)
			}
		}
		rb.emit("%s\n%s\n}", hdr, strings.Join(inner, "\n"))
	case 23: // deferred closure
		v, ok := rb.pick(func(v c35Var) bool { return rb.recable(v.T) })
		if !ok || rb.depth > 0 {
			return false
		}
		rb.emit("defer func() {\nrec(%d, nc(%s))\n}()", g.newTag(), v.Name)
	}
	return true
}

// synth returns an expression of type t built from the variables in scope (declaring a zero value if needed).
func (rb *c35RB) synth(t *c35Tx) string {
	if v, ok := rb.pick(rb.sameType(t)); ok {
		return v.Name
	}
	if t.K == "slice" {
		if v, ok := rb.pick(rb.sameType(t.A[0])); ok {
			return fmt.Sprintf("[]%s{%s}", t.A[0], v.Name)
		}
	}
	n := rb.nv()
	rb.emit("var %s %s", n, t)
	rb.add(n, t, false)
	return n
}

func (g *c35Gen) randFn() *c35Fn {
	rng := g.rng
	f := &c35Fn{Name: fmt.Sprintf("R%d", g.newID()), Random: true}
	ntp := 1 + rng.Intn(3)
	rb := &c35RB{g: g, f: f, cons: map[string]string{}}
	for i := 0; i < ntp; i++ {
		tp := []string{"T", "U", "V"}[i]
		c := c35Any
		switch k := rng.Intn(100); {
		case k < 55:
		case k < 75:
			c = c35Cmp
		case k < 85:
			c = c35Ord
		default:
			c = c35Add
		}
		f.TP = append(f.TP, tp)
		f.Cons = append(f.Cons, c)
		rb.cons[tp] = c
	}
	var stmts []string
	rb.out = &stmts
	np := 1 + rng.Intn(3)
	for i := 0; i < np; i++ {
		t := rb.randShape()
		name := fmt.Sprintf("p%d", i)
		f.Params = append(f.Params, c35Param{Name: name, T: t})
		rb.env = append(rb.env, c35Var{name, t, false}) // parameter funcs may be nil only if the generator says so (never)
		if t.K == "func" {
			rb.env[len(rb.env)-1].Call = true
		}
	}
	fuel := rng.Intn(5) < 2
	if fuel {
		f.Params = append(f.Params, c35Param{Name: "n", T: c35Id("int"), Alts: []string{"0", "1", "2"}})
	}
	n := 3 + rng.Intn(5)
	for tries := 0; n > 0 && tries < 60; tries++ {
		if rb.stmt() {
			n--
		}
	}
	// call an earlier random template with derived type arguments
	if len(g.randFns) > 0 && rng.Intn(2) == 0 {
		callee := g.randFns[rng.Intn(len(g.randFns))]
		targs := make([]*c35Tx, len(callee.TP))
		okAll := true
		for i, c := range callee.Cons {
			var cands []*c35Tx
			for _, p := range f.TP {
				pc := rb.cons[p]
				if c == c35Any || pc == c || c == c35Cmp && pc == c35Ord {
					cands = append(cands, c35Id(p))
				}
			}
			if c == c35Any {
				cands = append(cands, c35Slice(c35Id(f.TP[0])), c35Id("int"), c35Inst("Box", c35Id(f.TP[0])))
			} else {
				cands = append(cands, c35Id("int"), c35Id("string"))
			}
			if len(cands) == 0 {
				okAll = false
				break
			}
			targs[i] = cands[rng.Intn(len(cands))]
		}
		if okAll {
			m := map[string]*c35Tx{}
			for i, p := range callee.TP {
				m[p] = targs[i]
			}
			var as []string
			for _, p := range callee.Params {
				if len(p.Alts) > 0 {
					as = append(as, p.Alts[rng.Intn(len(p.Alts))])
				} else {
					as = append(as, rb.synth(p.T.subst(m)))
				}
			}
			call := fmt.Sprintf("§%s#[%s](%s)", callee.Name, c35ArgsString(targs), strings.Join(as, ", "))
			if len(callee.Res) == 0 {
				rb.emit("%s", call)
			} else {
				var ns []string
				for _, r := range callee.Res {
					nn := rb.nv()
					ns = append(ns, nn)
					_ = r
				}
				rb.emit("%s := %s", strings.Join(ns, ", "), call)
				for i, r := range callee.Res {
					rb.add(ns[i], r.subst(m), false)
				}
			}
		}
	}
	// results
	switch k := rng.Intn(10); {
	case k < 6:
		v, _ := rb.pick(nil)
		f.Res = []*c35Tx{v.T}
	case k < 8:
		v, _ := rb.pick(nil)
		w, _ := rb.pick(nil)
		f.Res = []*c35Tx{v.T, w.T}
	}
	// fuel recursion, possibly with the type parameters swapped (instantiates a second instance from inside the body)
	if fuel {
		tps := append([]string{}, f.TP...)
		m := map[string]*c35Tx{}
		if len(tps) >= 2 && rb.cons[tps[0]] == rb.cons[tps[1]] && rng.Intn(2) == 0 {
			tps[0], tps[1] = tps[1], tps[0]
			m[f.TP[0]], m[f.TP[1]] = c35Id(f.TP[1]), c35Id(f.TP[0])
		}
		var as []string
		ok := true
		for _, p := range f.Params[:len(f.Params)-1] {
			want := p.T.subst(m).String()
			found := ""
			for _, q := range f.Params[:len(f.Params)-1] {
				if q.T.String() == want {
					found = q.Name
					break
				}
			}
			if found == "" {
				ok = false
				break
			}
			as = append(as, found)
		}
		if !ok {
			tps, m, as = f.TP, map[string]*c35Tx{}, nil
			for _, p := range f.Params[:len(f.Params)-1] {
				as = append(as, p.Name)
			}
		}
		as = append(as, "n-1")
		call := fmt.Sprintf("§%s#[%s](%s)", f.Name, strings.Join(tps, ","), strings.Join(as, ", "))
		var rs strings.Builder
		rs.WriteString("if n > 0 {\n")
		if len(f.Res) == 0 {
			rs.WriteString(call + "\n")
		} else {
			var ns, recs []string
			for i, r := range f.Res {
				nn := fmt.Sprintf("rr%d", i)
				ns = append(ns, nn)
				if rb.recable(r) {
					recs = append(recs, "nc("+nn+")")
				}
			}
			rs.WriteString(strings.Join(ns, ", ") + " := " + call + "\n")
			for _, nn := range ns {
				rs.WriteString("_ = " + nn + "\n")
			}
			fmt.Fprintf(&rs, "rec(%d%s)\n", g.newTag(), c35Lead(recs))
		}
		rs.WriteString("}")
		// insert at a random top-level position that is not after a defer-free prefix requirement: anywhere works,
		// the statement only uses parameters
		pos := rng.Intn(len(stmts) + 1)
		stmts = append(stmts[:pos], append([]string{rs.String()}, stmts[pos:]...)...)
	}
	if len(f.Res) > 0 {
		rb.out = &stmts
		var rets []string
		for _, r := range f.Res {
			rets = append(rets, rb.synthTop(r))
		}
		stmts = append(stmts, "return "+strings.Join(rets, ", "))
	}
	f.Body = strings.Join(stmts, "\n")
	g.addExtra(f)
	g.randFns = append(g.randFns, f)
	return f
}

// synthTop is synth restricted to exact matches or a fresh zero value (used for return values).
func (rb *c35RB) synthTop(t *c35Tx) string {
	if v, ok := rb.pick(rb.sameType(t)); ok {
		return v.Name
	}
	n := rb.nv()
	rb.emit("var %s %s", n, t)
	return n
}

// ---------------------------------------------------------------- program assembly

var c35RefRe = regexp.MustCompile(`§([A-Za-z0-9_]+)#`)

func c35GenProg(id string, rng *rand.Rand) (*Prog, [][2]string, error) {
	g := c35NewGen(rng)
	g.inferred = rng.Intn(8) == 0
	nUnits := 2 + rng.Intn(3)
	libTypes := c35LibTypes()
	for u := 0; u < nUnits; u++ {
		switch k := rng.Intn(10); {
		case k < 4:
			g.fnUnit(g.fns[g.fnOrder[rng.Intn(len(g.fnOrder))]])
		case k < 7:
			g.fnUnit(g.randFn())
		default:
			g.typeUnit(libTypes[rng.Intn(len(libTypes))])
		}
	}
	// dependency closure over the library templates
	needFn, needTy := map[string]bool{}, map[string]bool{}
	var scan func(text string)
	scan = func(text string) {
		for _, m := range c35RefRe.FindAllStringSubmatch(text, -1) {
			n := m[1]
			if f := g.fns[n]; f != nil && !needFn[n] {
				needFn[n] = true
				scan(f.decl())
			} else if tt := g.ctx.Types[n]; tt != nil && !needTy[n] {
				needTy[n] = true
				scan(tt.decl())
			}
		}
	}
	rest := c35NamedDecls + g.top.String() + "func §P() {\n" + g.body.String() + "}\n"
	scan(rest)
	var src strings.Builder
	var decls []*c35Decl
	for _, tt := range libTypes {
		if needTy[tt.Name] {
			src.WriteString(tt.decl())
			eq := ""
			if tt.Alias {
				eq = "= "
			}
			decls = append(decls, &c35Decl{Kind: "type", Name: tt.Name, TP: tt.TP, Rest: eq + tt.Body.String() + "\n"})
		}
	}
	var fnNames []string
	for n := range needFn {
		fnNames = append(fnNames, n)
	}
	sort.Strings(fnNames)
	for _, n := range fnNames {
		f := g.fns[n]
		src.WriteString(f.decl())
		decls = append(decls, &c35Decl{Kind: "func", Name: f.Name, TP: f.TP, Rest: f.rest(), Sig: f.header()})
	}
	src.WriteString(rest)
	mono := c35NewMono(decls)
	ref := mono.specialise(rest)
	if mono.err != nil {
		return nil, nil, mono.err
	}
	g.cov("instances_per_program", c35Bucket(len(mono.names)))
	p := &Prog{ID: id, Src: c35StripInferred(src.String()), RefSrc: ref, Cell: g.units[0], Mode: map[string]string{"generics": "cti"}}
	if g.inferred {
		p.Mode["c35infer"] = "1"
	}
	return p, g.cover, nil
}

func c35Bucket(n int) string {
	switch {
	case n <= 4:
		return "1-4"
	case n <= 8:
		return "5-8"
	case n <= 16:
		return "9-16"
	case n <= 32:
		return "17-32"
	}
	return "33+"
}
