package main

// C28 — typeutil.Identical is a total equivalence, consistent with
// typeutil.Hasher and typeutil.Map (gomacro's fork of go/types).

import (
	"fmt"
	"math/rand"
	"runtime"
	"sort"
	"strings"
	"sync"
	"sync/atomic"
	"time"

	"github.com/cosmos72/gomacro/go/types"
	"github.com/cosmos72/gomacro/go/typeutil"

	"gmverif/internal/fw"
)

func init() { register("C28", "exploration", checkC28) }

const (
	c28FindingEmb    = "C28-identical-embedded-count"
	c28FindingDelete = "C28-map-delete-other-identity"
)

type c28Key struct {
	D    *c28D `json:"type"`
	Copy int   `json:"copy"`
}

type c28Op struct {
	Op string `json:"op"` // set at delete len iterate keys iterdel
	K  int    `json:"k"`  // index into Pool
	V  int    `json:"v,omitempty"`
}

type c28Replay struct {
	Kind   string   `json:"kind"`             // "types" | "map"
	Types  []c28Key `json:"types"`            // kind "types": all ordered pairs are shown; kind "map": the key pool
	Ops    []c28Op  `json:"ops,omitempty"`    // kind "map"
	Hasher string   `json:"hasher,omitempty"` // "private" | "preset"
	Shown  []string `json:"shown,omitempty"`  // human-readable rendering of Types
}

type c28Obj struct {
	d      *c28D
	di     int // index of the description
	cp     int
	t      types.Type
	kind   uint8
	strict int32
	loose  int32
}

var c28Kinds = []string{"nil", "basic", "named", "under", "ptr", "slice", "array", "map", "chan", "func", "struct", "iface", "tuple"}

func c28KindIdx(k string) uint8 {
	for i, s := range c28Kinds {
		if s == k {
			return uint8(i)
		}
	}
	return 0
}

// c28Ident calls the function under test and converts a panic into a value.
func c28Ident(x, y types.Type) (res bool, pan string) {
	defer func() {
		if e := recover(); e != nil {
			pan = fmt.Sprint(e)
		}
	}()
	return typeutil.Identical(x, y), ""
}

func c28Hash(h typeutil.Hasher, x types.Type) (res uint32, pan string) {
	defer func() {
		if e := recover(); e != nil {
			pan = fmt.Sprint(e)
		}
	}()
	return h.Hash(x), ""
}

// c28EmbShape recognises the input class of finding C28-identical-embedded-count:
// walking x and y in parallel the way Identical does, some pair of
// corresponding interface types has the same number of methods but a
// different number of embedded interfaces.
func c28EmbShape(x, y types.Type) bool {
	type pair struct{ x, y *types.Interface }
	seen := map[pair]bool{}
	var walk func(x, y types.Type) bool
	tuple := func(a, b *types.Tuple) bool {
		if a.Len() != b.Len() {
			return false
		}
		for i := 0; i < a.Len(); i++ {
			if walk(a.At(i).Type(), b.At(i).Type()) {
				return true
			}
		}
		return false
	}
	walk = func(x, y types.Type) bool {
		switch x := x.(type) {
		case *types.Array:
			if y, ok := y.(*types.Array); ok {
				return walk(x.Elem(), y.Elem())
			}
		case *types.Slice:
			if y, ok := y.(*types.Slice); ok {
				return walk(x.Elem(), y.Elem())
			}
		case *types.Pointer:
			if y, ok := y.(*types.Pointer); ok {
				return walk(x.Elem(), y.Elem())
			}
		case *types.Chan:
			if y, ok := y.(*types.Chan); ok {
				return walk(x.Elem(), y.Elem())
			}
		case *types.Map:
			if y, ok := y.(*types.Map); ok {
				return walk(x.Key(), y.Key()) || walk(x.Elem(), y.Elem())
			}
		case *types.Struct:
			if y, ok := y.(*types.Struct); ok && x.NumFields() == y.NumFields() {
				for i := 0; i < x.NumFields(); i++ {
					if walk(x.Field(i).Type(), y.Field(i).Type()) {
						return true
					}
				}
			}
		case *types.Tuple:
			if y, ok := y.(*types.Tuple); ok {
				return tuple(x, y)
			}
		case *types.Signature:
			if y, ok := y.(*types.Signature); ok {
				if x.Recv() != nil && y.Recv() != nil && walk(x.Recv().Type(), y.Recv().Type()) {
					return true
				}
				return tuple(x.Params(), y.Params()) || tuple(x.Results(), y.Results())
			}
		case *types.Interface:
			if y, ok := y.(*types.Interface); ok && x.NumMethods() == y.NumMethods() {
				if x.NumEmbeddeds() != y.NumEmbeddeds() {
					return true
				}
				if seen[pair{x, y}] {
					return false
				}
				seen[pair{x, y}] = true
				for i := 0; i < x.NumMethods(); i++ {
					if walk(x.Method(i).Type(), y.Method(i).Type()) {
						return true
					}
				}
			}
		}
		return false
	}
	return walk(x, y)
}

type c28State struct {
	r      *fw.Run
	w      *c28World
	objs   []c28Obj
	mu     sync.Mutex
	perTag map[string]int
	raw    map[string]int64 // all failures per tag, classified or not
}

func (s *c28State) replayOf(idx ...int) c28Replay {
	rep := c28Replay{Kind: "types"}
	for _, i := range idx {
		o := s.objs[i]
		rep.Types = append(rep.Types, c28Key{o.d, o.cp})
		rep.Shown = append(rep.Shown, c28Str(o.d))
	}
	return rep
}

// report classifies one failure about the listed objects: a VIOLATION, unless
// some pair among them has the exact input shape of the embedded-count finding.
func (s *c28State) report(tag string, what string, idx ...int) {
	s.mu.Lock()
	s.raw[tag]++
	over := s.raw[tag] > 200000
	s.mu.Unlock()
	if over {
		return // badly broken code: count only (fail_total/<tag>), stay fast
	}
	known := false
	for _, i := range idx {
		for _, j := range idx {
			if i != j && c28EmbShape(s.objs[i].t, s.objs[j].t) {
				known = true
			}
		}
	}
	s.mu.Lock()
	name := tag
	if known {
		name = "known/" + tag
	}
	s.perTag[name]++
	n := s.perTag[name]
	s.mu.Unlock()
	s.r.Count("fail/"+name, 1)
	if n > 4 {
		return // enough witnesses of this sort; they are all counted
	}
	var names []string
	for _, i := range idx {
		names = append(names, fmt.Sprintf("%s (copy %d)", c28Str(s.objs[i].d), s.objs[i].cp))
	}
	what = tag + ": " + what + " :: " + strings.Join(names, "  ||  ")
	if known {
		s.r.Known(c28FindingEmb, s.replayOf(idx...), what)
	} else {
		s.r.Violation(tag, s.replayOf(idx...), what)
	}
}

func checkC28(r *fw.Run) {
	r.SetRule("types = every constructor shape (pointer, slice, array, map, chan x3 directions, func incl. variadic and receivers, struct incl. tags/embedded/unexported fields of two packages/blank, interface with 0-2 explicit methods x 0-2 embedded named interfaces incl. shared *Func objects and pre-set receivers, tuple) over 35 atoms (basic incl. byte/rune aliases, 16 named types incl. equal names in two packages, two objects with one name, two *Package objects with one path, recursive struct and interface types, error) = exhaustive depth 1, plus seeded depth-2 and depth-3 sibling groups (same shape over neighbouring children); every description is built twice from fresh objects; a case = ordered pair of built types (distinct = distinct type description, each non-trivial because its second copy is a different object that must be identical) or one random Map operation sequence; oracle = no panic, reflexive, symmetric, union-find classes are cliques, identical => equal Hash (two independent Hashers agree), model keys (same construction => must be identical; different under Go-spec identity, interfaces compared as method sets => must not be identical; in between no verdict), Map (Set/At/Delete/Len/Iterate/Keys/Values, deletion during Iterate, nil *Map) == association list keyed by Identical")
	r.Assume("interfaces are Complete()d and embed only named interfaces (documented preconditions of go/types.NewInterface / typeutil.Identical); interfaces are valid Go interfaces (no conflicting duplicate methods)")
	r.Assume("where typeutil's documentation is silent (receivers of interface methods, relative order of embedded interfaces with equal type-name ids) only the algebraic laws are demanded, no particular verdict")
	r.Assume("the model association list uses the real typeutil.Identical, whose laws are checked on all pairs of the same objects in the first phase")

	w := c28NewWorld()
	s := &c28State{r: r, w: w, perTag: map[string]int{}, raw: map[string]int64{}}
	defer func() {
		for tag, n := range s.raw {
			r.Count("fail_total/"+tag, n)
		}
	}()

	if p := fw.ReplayArg(); p != "" {
		c28RunReplay(s, p)
		r.SetMinDistinct(0)
		return
	}

	phase := map[string]float64{}
	t0 := time.Now()
	lap := func(name string) {
		phase[name] = time.Since(t0).Seconds()
		t0 = time.Now()
		r.Extra("phase_wall_s", phase)
	}
	descs, depth := c28Generate(r.Rng("depth2"), r.Pick(15000, 60000))
	intern := map[string]int32{}
	id := func(k string) int32 {
		v, ok := intern[k]
		if !ok {
			v = int32(len(intern))
			intern[k] = v
		}
		return v
	}
	depthCount := map[int]int{}
	for di, d := range descs {
		sk, lk := id("S:"+w.key(d, true)), int32(-1)
		if l := w.key(d, false); !strings.Contains(l, "<cycle>") {
			lk = id("L:" + l) // cyclic interfaces: the finite key is no verdict, lk stays -1
		}
		for cp := 0; cp < 2; cp++ {
			s.objs = append(s.objs, c28Obj{d: d, di: di, cp: cp, t: w.build(d, cp), kind: c28KindIdx(d.K), strict: sk, loose: lk})
		}
		r.Distinct("type:" + c28Str(d))
		r.Cover("type_kind", d.K)
		depthCount[depth[di]]++
		if di%397 == 5 {
			r.Sample(map[string]interface{}{"type": c28Str(d), "depth": depth[di]})
		}
	}
	r.Extra("types_by_depth", map[string]int{"0": depthCount[0], "1": depthCount[1], "2": depthCount[2], "3": depthCount[3]})
	r.SetExhaustive(true) // depth <= 1 is exhaustive over the listed shapes and atoms
	r.Extra("exhaustive_scope", "all listed constructor shapes over all atoms (depth 0 and 1) and all ordered pairs of all built types; depth 2 and 3 types and Map sequences are seeded samples")
	n := len(s.objs)
	objs := s.objs

	lap("generate+build")
	// ---------------- phase 1: the full relation (n x n calls), kept as adjacency lists
	adj := make([][]int32, n) // adj[i] = ascending j with Identical(objs[i], objs[j])
	panicked := map[[2]int32]bool{}
	var panMu sync.Mutex
	var next int64 = -1
	var wg sync.WaitGroup
	var nIdent, nIdentOther, nNearMiss, nPanics, nModel int64
	kindCells := make([]int64, len(c28Kinds)*len(c28Kinds)*2)
	for wk := 0; wk < runtime.NumCPU(); wk++ {
		wg.Add(1)
		go func() {
			defer wg.Done()
			var ident, identOther, near, panics, model int64
			cells := make([]int64, len(kindCells))
			for {
				i := int(atomic.AddInt64(&next, 1))
				if i >= n {
					break
				}
				var row []int32
				x := &objs[i]
				for j := 0; j < n; j++ {
					y := &objs[j]
					res, p := c28Ident(x.t, y.t)
					c := (int(x.kind)*len(c28Kinds) + int(y.kind)) * 2
					if p != "" {
						panics++
						panMu.Lock()
						panicked[[2]int32{int32(i), int32(j)}] = true
						panMu.Unlock()
						s.report("panic", "Identical panicked: "+p, i, j)
						continue
					}
					if res {
						row = append(row, int32(j))
						c++
						if i != j {
							ident++
							if x.di != y.di {
								identOther++
							}
						}
					} else if x.kind == y.kind {
						near++
					}
					cells[c]++
					if x.strict == y.strict {
						model++
						if !res {
							s.report("model-identical", "two types built from descriptions with the same canonical form are not Identical", i, j)
						}
					} else if x.loose != y.loose && x.loose >= 0 && y.loose >= 0 {
						model++
						if res {
							s.report("model-different", "Identical is true for structurally different types", i, j)
						}
					}
				}
				adj[i] = row
			}
			atomic.AddInt64(&nIdent, ident)
			atomic.AddInt64(&nIdentOther, identOther)
			atomic.AddInt64(&nNearMiss, near)
			atomic.AddInt64(&nPanics, panics)
			atomic.AddInt64(&nModel, model)
			for k, v := range cells {
				atomic.AddInt64(&kindCells[k], v)
			}
		}()
	}
	wg.Wait()
	lap("relation")
	has := func(i, j int) bool {
		l := adj[i]
		k := sort.Search(len(l), func(k int) bool { return l[k] >= int32(j) })
		return k < len(l) && l[k] == int32(j)
	}
	pan := func(i, j int) bool { return len(panicked) > 0 && panicked[[2]int32{int32(i), int32(j)}] }
	r.Eval(n*n + int(nModel))
	r.Count("identical_pairs_of_distinct_objects", nIdent)
	r.Count("identical_pairs_of_distinct_descriptions", nIdentOther)
	r.Count("non_identical_pairs_of_same_kind", nNearMiss)
	r.Count("identical_panics", nPanics)
	cellMap := map[string]int64{}
	for a, ka := range c28Kinds {
		for b, kb := range c28Kinds {
			for v, sv := range []string{"false", "true"} {
				if c := kindCells[(a*len(c28Kinds)+b)*2+v]; c > 0 {
					cellMap[ka+"/"+kb+"/"+sv] = c
				}
			}
		}
	}
	r.Extra("pair_kind_cells", cellMap)

	// reflexive; symmetric (a false Identical(x, y) with a true Identical(y, x) shows up in y's list)
	for i := 0; i < n; i++ {
		if !has(i, i) && !pan(i, i) {
			s.report("reflexive", "Identical(x, x) is false", i)
		}
		for _, j32 := range adj[i] {
			j := int(j32)
			if j != i && !has(j, i) && !pan(j, i) {
				s.report("symmetric", "Identical(x, y)=true but Identical(y, x)=false", i, j)
			}
		}
	}
	r.Eval(n + n*(n-1)/2)

	// transitive: classes of the symmetric closure must be cliques. Edges that
	// have the input shape of the known embedded-count defect (a true answer
	// there is the defect itself; correct code answers false) do not merge classes.
	parent := make([]int32, n)
	for i := range parent {
		parent[i] = int32(i)
	}
	find := func(i int32) int32 {
		for parent[i] != i {
			parent[i] = parent[parent[i]]
			i = parent[i]
		}
		return i
	}
	for i := 0; i < n; i++ {
		for _, j32 := range adj[i] {
			j := int(j32)
			if i == j || c28EmbShape(objs[i].t, objs[j].t) {
				continue
			}
			if a, b := find(int32(i)), find(j32); a != b {
				parent[a] = b
			}
		}
	}
	classes := map[int32][]int{}
	for i := 0; i < n; i++ {
		c := find(int32(i))
		classes[c] = append(classes[c], i)
	}
	maxClass, multi := 0, 0
	for _, members := range classes {
		if len(members) > maxClass {
			maxClass = len(members)
		}
		if len(members) > 2 {
			multi++
		}
		if len(members) > 1500 {
			// only broken code makes such a class; keep the harness fast
			r.Count("oversized_classes_checked_on_their_first_1500_members", 1)
			members = members[:1500]
		}
		r.Eval(len(members) * len(members))
		for _, i := range members {
			for _, j := range members {
				if i == j || has(i, j) || pan(i, j) {
					continue
				}
				// find a witness k with i~k and k~j (for the first few reports only)
				k := -1
				if r.Counter("fail/transitive")+r.Counter("fail/known/transitive") < 8 {
					for _, c := range members {
						if c != i && c != j && has(i, c) && has(c, j) {
							k = c
							break
						}
					}
				}
				if k >= 0 {
					s.report("transitive", "Identical(x, z) and Identical(z, y) but not Identical(x, y); objects listed as x, y, z", i, j, k)
				} else {
					s.report("transitive", "x and y are connected by a chain of Identical pairs but Identical(x, y) is false", i, j)
				}
			}
		}
	}
	r.Extra("classes", map[string]int{"count": len(classes), "largest": maxClass, "with_more_than_two_members": multi})

	lap("laws")
	// ---------------- hash
	h1, h2 := typeutil.MakeHasher(), typeutil.MakeHasher()
	hash := make([]uint32, n)
	hashOK := make([]bool, n)
	for i := 0; i < n; i++ {
		v, p := c28Hash(h1, objs[i].t)
		if p != "" {
			s.report("hash-panic", "Hash panicked: "+p, i)
			continue
		}
		hash[i], hashOK[i] = v, true
	}
	for i := n - 1; i >= 0; i-- { // an independent Hasher, other memoisation order
		v, p := c28Hash(h2, objs[i].t)
		v1, _ := c28Hash(h1, objs[i].t)
		r.Eval(2)
		if p != "" {
			s.report("hash-panic", "Hash panicked: "+p, i)
		} else if hashOK[i] && (v != hash[i] || v1 != hash[i]) {
			s.report("hash-unstable", fmt.Sprintf("Hash gives %d, then %d (same Hasher), %d (fresh Hasher)", hash[i], v1, v), i)
		}
	}
	hashValues := map[uint32]bool{}
	for i := 0; i < n; i++ {
		hashValues[hash[i]] = true
		for _, j32 := range adj[i] {
			j := int(j32)
			if i != j && hashOK[i] && hashOK[j] {
				r.Eval(1)
				if hash[i] != hash[j] {
					s.report("hash", fmt.Sprintf("Identical(x, y) but Hash(x)=%d != Hash(y)=%d", hash[i], hash[j]), i, j)
				}
			}
		}
	}
	r.Extra("distinct_hash_values", len(hashValues))
	r.Extra("distinct_identity_classes_vs_hash_values", fmt.Sprintf("%d classes, %d hash values", len(classes), len(hashValues)))

	lap("hash")
	// ---------------- phase 2: Map against an association list
	c28NilMap(s)
	nseq := r.Pick(200000, 3000000)
	seeds := make([]int64, nseq)
	mrng := r.Rng("mapseq")
	for i := range seeds {
		seeds[i] = mrng.Int63()
	}
	next = -1
	for wk := 0; wk < runtime.NumCPU(); wk++ {
		wg.Add(1)
		go func() {
			defer wg.Done()
			st := &c28MapStats{ops: map[string]int64{}}
			for {
				q := int(atomic.AddInt64(&next, 1))
				if q >= nseq {
					break
				}
				c28MapSeq(s, rand.New(rand.NewSource(seeds[q])), q, st)
			}
			r.Eval(int(st.evals))
			for k, v := range st.ops {
				r.Count("map_op/"+k, v)
			}
			r.Count("map_lookups_answered_by_a_different_identical_object", st.hits)
		}()
	}
	wg.Wait()
	lap("map")
}

// c28NilMap: a nil *Map is a valid read-only empty map.
func c28NilMap(s *c28State) {
	defer func() {
		if e := recover(); e != nil {
			s.r.Violation("nil-map", c28Replay{Kind: "map"}, fmt.Sprintf("operation on nil *Map panicked: %v", e))
		}
	}()
	var m *typeutil.Map
	k := s.objs[len(s.objs)/2].t
	cnt := 0
	m.Iterate(func(types.Type, interface{}) { cnt++ })
	s.r.Eval(5)
	if m.At(k) != nil || m.Len() != 0 || m.Delete(k) || cnt != 0 || len(m.Keys()) != 0 {
		s.r.Violation("nil-map", c28Replay{Kind: "map"}, "nil *Map is not an empty read-only map")
	}
}

type c28Entry struct {
	k int // pool index of the stored key
	v int
}

// c28MapRun executes ops on a real Map and on the association list.
// It returns the index of the first op whose observable result differs (or -1),
// a description, and the pool indexes involved.
func c28MapRun(pool []types.Type, ops []c28Op, preset bool, trace func(string), st *c28MapStats) (bad int, what string, delWrong bool) {
	m := &typeutil.Map{}
	if preset {
		m.SetHasher(typeutil.MakeHasher())
	}
	var model []c28Entry
	lookup := func(k int) int {
		for i, e := range model {
			if typeutil.Identical(pool[k], pool[e.k]) {
				if st != nil && pool[k] != pool[e.k] {
					st.hits++ // found through Identical, not through pointer equality
				}
				return i
			}
		}
		return -1
	}
	type kv struct {
		k types.Type
		v interface{}
	}
	// Delete may silently remove a wrong entry: right after Delete(victim) every
	// entry of the list must still be there. wrongId = the lost entry has a key
	// that go/types.Identical equates with victim but typeutil.Identical does not.
	afterDelete := func(victim types.Type) (msg string, wrongId bool) {
		for _, e := range model {
			if m.At(pool[e.k]) != e.v {
				wrongId = types.Identical(victim, pool[e.k]) && !typeutil.Identical(victim, pool[e.k])
				return fmt.Sprintf("after Delete the entry of key#%d (value %d), whose key is not Identical to the deleted key, is gone", e.k, e.v), wrongId
			}
		}
		return "", false
	}
	// compare an iteration result with the model: same size, values are
	// unique, the key delivered with a value is identical to the model's key
	cmpAll := func(got []kv) string {
		if len(got) != len(model) {
			return fmt.Sprintf("delivers %d entries, the list has %d", len(got), len(model))
		}
		byV := map[int]types.Type{}
		for _, g := range got {
			v, ok := g.v.(int)
			if !ok {
				return fmt.Sprintf("delivers value %v that was never stored", g.v)
			}
			if _, dup := byV[v]; dup {
				return fmt.Sprintf("delivers value %d twice", v)
			}
			byV[v] = g.k
		}
		for _, e := range model {
			k, ok := byV[e.v]
			if !ok {
				return fmt.Sprintf("does not deliver the entry with value %d", e.v)
			}
			if !typeutil.Identical(k, pool[e.k]) {
				return fmt.Sprintf("delivers value %d with a key that is not identical to the stored key", e.v)
			}
		}
		return ""
	}
	for t, op := range ops {
		var w string
		func() {
			defer func() {
				if e := recover(); e != nil {
					w = fmt.Sprintf("%s panicked: %v", op.Op, e)
				}
			}()
			switch op.Op {
			case "set":
				got := m.Set(pool[op.K], op.V)
				var want interface{}
				if i := lookup(op.K); i >= 0 {
					want = model[i].v
					model[i].v = op.V
				} else {
					model = append(model, c28Entry{op.K, op.V})
				}
				if got != want {
					w = fmt.Sprintf("Set returned previous value %v, want %v", got, want)
				}
			case "at":
				got := m.At(pool[op.K])
				var want interface{}
				if i := lookup(op.K); i >= 0 {
					want = model[i].v
				}
				if got != want {
					w = fmt.Sprintf("At returned %v, want %v", got, want)
				}
			case "delete":
				got := m.Delete(pool[op.K])
				i := lookup(op.K)
				if i >= 0 {
					model = append(model[:i:i], model[i+1:]...)
				}
				if got != (i >= 0) {
					w = fmt.Sprintf("Delete returned %v, want %v", got, i >= 0)
				}
				if msg, dw := afterDelete(pool[op.K]); msg != "" {
					delWrong = dw
					if w == "" {
						w = msg
					}
				}
			case "len":
				if got := m.Len(); got != len(model) {
					w = fmt.Sprintf("Len returned %d, want %d", got, len(model))
				}
			case "iterate":
				var got []kv
				m.Iterate(func(k types.Type, v interface{}) { got = append(got, kv{k, v}) })
				if e := cmpAll(got); e != "" {
					w = "Iterate " + e
				}
			case "keys":
				keys := m.Keys()
				vals := m.Values()
				if len(keys) != len(model) || len(vals) != len(model) {
					w = fmt.Sprintf("Keys/Values return %d/%d elements, want %d", len(keys), len(vals), len(model))
					break
				}
				used := make([]bool, len(keys))
				for _, e := range model {
					found := false
					for i, k := range keys {
						if !used[i] && typeutil.Identical(k, pool[e.k]) {
							used[i], found = true, true
							break
						}
					}
					if !found {
						w = "Keys lacks a key of the list"
					}
				}
			case "iterdel":
				// delete entries while iterating: an entry deleted before it was
				// reached must not be delivered afterwards
				var deleted []types.Type
				step := 0
				m.Iterate(func(k types.Type, v interface{}) {
					for _, d := range deleted {
						if typeutil.Identical(k, d) {
							w = "Iterate delivered an entry that the callback had already deleted"
						}
					}
					step++
					if (step+op.V)%2 == 0 && len(model) > 0 {
						i := (step*7 + op.V) % len(model)
						victim := pool[model[i].k]
						if !m.Delete(victim) {
							w = "Delete during Iterate returned false for a stored key"
						}
						deleted = append(deleted, victim)
						model = append(model[:i:i], model[i+1:]...)
						if msg, dw := afterDelete(victim); msg != "" && w == "" {
							w, delWrong = msg, dw
						}
					}
				})
			}
		}()
		if trace != nil {
			res := "ok"
			if w != "" {
				res = "MISMATCH: " + w
			}
			trace(fmt.Sprintf("  op %3d %-8s key#%d v=%d  len(real)=%d len(model)=%d  %s", t, op.Op, op.K, op.V, m.Len(), len(model), res))
		}
		if w != "" {
			return t, w, delWrong
		}
	}
	return -1, "", false
}

type c28MapStats struct {
	evals int64
	ops   map[string]int64
	hits  int64
}

func c28MapSeq(s *c28State, rng *rand.Rand, q int, st *c28MapStats) {
	objs := s.objs
	// key pool: a few groups of neighbours (both copies of sibling descriptions)
	var poolIdx []int
	groups := 2 + rng.Intn(6)
	for g := 0; g < groups; g++ {
		base := rng.Intn(len(objs))
		span := 2 + rng.Intn(5)
		for k := 0; k < span; k++ {
			i := (base + k) % len(objs)
			if objs[i].t != nil { // a nil key marks an unused slot inside Map; not a type
				poolIdx = append(poolIdx, i)
			}
		}
	}
	if len(poolIdx) == 0 {
		return
	}
	pool := make([]types.Type, len(poolIdx))
	for i, oi := range poolIdx {
		pool[i] = objs[oi].t
	}
	nops := 10 + rng.Intn(191)
	ops := make([]c28Op, nops)
	sig := uint64(14695981039346656037)
	for t := range ops {
		k := rng.Intn(len(pool))
		var op string
		switch x := rng.Intn(100); {
		case x < 35:
			op = "set"
		case x < 60:
			op = "at"
		case x < 80:
			op = "delete"
		case x < 85:
			op = "len"
		case x < 90:
			op = "iterate"
		case x < 95:
			op = "keys"
		default:
			op = "iterdel"
		}
		ops[t] = c28Op{Op: op, K: k, V: t + 1}
		sig = (sig ^ uint64(op[0])<<8 ^ uint64(op[len(op)-1]) ^ uint64(poolIdx[k])<<16) * 1099511628211
		st.ops[op]++
	}
	preset := rng.Intn(2) == 0
	bad, what, delWrong := c28MapRun(pool, ops, preset, nil, st)
	st.evals += int64(nops)
	s.r.Distinct(fmt.Sprintf("map:%d:%x", nops, sig))
	if q < 2 {
		s.r.Sample(map[string]interface{}{"map_sequence_ops": nops, "pool": len(pool), "first_keys": []string{c28Str(objs[poolIdx[0]].d), c28Str(objs[poolIdx[len(poolIdx)-1]].d)}})
	}
	if bad < 0 {
		return
	}
	rep := c28Replay{Kind: "map", Ops: ops[:bad+1], Hasher: map[bool]string{true: "preset", false: "private"}[preset]}
	embKnown := false
	for _, oi := range poolIdx {
		rep.Types = append(rep.Types, c28Key{objs[oi].d, objs[oi].cp})
		rep.Shown = append(rep.Shown, c28Str(objs[oi].d))
		if c28EmbShape(pool[ops[bad].K], objs[oi].t) || c28EmbShape(objs[oi].t, pool[ops[bad].K]) {
			embKnown = true
		}
	}
	if ops[bad].Op == "iterdel" { // the keys involved are chosen by the iteration, not by the op
		for _, x := range pool {
			for _, y := range pool {
				if c28EmbShape(x, y) {
					embKnown = true
				}
			}
		}
	}
	what = fmt.Sprintf("Map differs from the association list at op %d (%s key#%d = %s): %s", bad, ops[bad].Op, ops[bad].K, c28Str(objs[poolIdx[ops[bad].K]].d), what)
	tag := "map"
	switch {
	case delWrong:
		tag = "known/map-delete"
	case embKnown:
		tag = "known/map-emb"
	}
	s.mu.Lock()
	s.perTag[tag]++
	cnt := s.perTag[tag]
	s.mu.Unlock()
	s.r.Count("fail/"+tag, 1)
	if cnt > 4 {
		return
	}
	switch {
	case delWrong:
		s.r.Known(c28FindingDelete, rep, what)
	case embKnown:
		s.r.Known(c28FindingEmb, rep, what)
	default:
		s.r.Violation("map", rep, what)
	}
}

func c28RunReplay(s *c28State, path string) {
	var rep c28Replay
	if err := fw.LoadReplay(path, &rep); err != nil {
		panic(err)
	}
	w := s.w
	var ts []types.Type
	for i, k := range rep.Types {
		t := w.build(k.D, k.Copy)
		ts = append(ts, t)
		s.objs = append(s.objs, c28Obj{d: k.D, di: i, cp: k.Copy, t: t})
		fmt.Printf("replay: #%d (copy %d) %s\n        typeutil.String: %s\n        strict key: %s\n        loose key:  %s\n", i, k.Copy, c28Str(k.D),
			func() (s string) {
				defer func() {
					if e := recover(); e != nil {
						s = fmt.Sprint("panic: ", e)
					}
				}()
				return typeutil.String(t)
			}(), w.key(k.D, true), w.key(k.D, false))
	}
	h := typeutil.MakeHasher()
	for i, t := range ts {
		v, p := c28Hash(h, t)
		fmt.Printf("replay: Hash(#%d) = %d %s\n", i, v, p)
		s.r.Eval(1)
	}
	if rep.Kind == "map" {
		bad, what, delWrong := c28MapRun(ts, rep.Ops, rep.Hasher == "preset", func(l string) { fmt.Println(l) }, nil)
		s.r.Eval(len(rep.Ops))
		fmt.Printf("replay: first differing op = %d %s (delete-defect shape: %v)\n", bad, what, delWrong)
		if bad >= 0 {
			if delWrong {
				s.r.Known(c28FindingDelete, rep, what)
			} else {
				emb := false
				for _, t := range ts {
					if c28EmbShape(ts[rep.Ops[bad].K], t) || c28EmbShape(t, ts[rep.Ops[bad].K]) {
						emb = true
					}
					for _, u := range ts {
						if rep.Ops[bad].Op == "iterdel" && c28EmbShape(t, u) {
							emb = true
						}
					}
				}
				if emb {
					s.r.Known(c28FindingEmb, rep, what)
				} else {
					s.r.Violation("map", rep, what)
				}
			}
		}
		return
	}
	var idx []int
	bad := ""
	for i := range ts {
		idx = append(idx, i)
		for j := range ts {
			res, p := c28Ident(ts[i], ts[j])
			rev, p2 := c28Ident(ts[j], ts[i])
			s.r.Eval(1)
			sk := w.key(rep.Types[i].D, true) == w.key(rep.Types[j].D, true)
			li, lj := w.key(rep.Types[i].D, false), w.key(rep.Types[j].D, false)
			lk := li == lj || strings.Contains(li+lj, "<cycle>")
			model := "unspecified"
			if sk {
				model = "must be identical"
			} else if !lk {
				model = "must differ"
			}
			hi, _ := c28Hash(h, ts[i])
			hj, _ := c28Hash(h, ts[j])
			fmt.Printf("replay: Identical(#%d, #%d) = %v %s   model: %s   go/types.Identical = %v   embedded-count shape: %v\n", i, j, res, p, model,
				func() (b bool) { defer func() { recover() }(); return types.Identical(ts[i], ts[j]) }(), c28EmbShape(ts[i], ts[j]))
			switch {
			case p != "":
				bad = "panic: " + p
			case p2 == "" && res != rev:
				bad = fmt.Sprintf("Identical(#%d, #%d)=%v but Identical(#%d, #%d)=%v", i, j, res, j, i, rev)
			case sk && !res:
				bad = "same canonical form but not Identical"
			case !lk && res:
				bad = "structurally different but Identical"
			case res && hi != hj:
				bad = "Identical but hashes differ"
			}
		}
	}
	if len(ts) == 3 {
		a, _ := c28Ident(ts[0], ts[2])
		b, _ := c28Ident(ts[2], ts[1])
		c, _ := c28Ident(ts[0], ts[1])
		if a && b && !c {
			bad = "not transitive"
		}
	}
	if bad != "" {
		s.report("replay", bad, idx...)
	}
}
