// gmverif: runtime-monitoring checks for gomacro. One sub-command per property.
package main

import (
	"fmt"
	"os"
	"sort"

	"gmverif/internal/fw"
)

type checkFn func(r *fw.Run)

type checkDef struct {
	level string
	fn    checkFn
}

var checks = map[string]checkDef{}

// aux sub-commands (workers etc.)
var auxCmds = map[string]func(args []string){}

func register(prop, level string, fn checkFn) { checks[prop] = checkDef{level, fn} }

func main() {
	if len(os.Args) < 2 {
		usage()
	}
	name := os.Args[1]
	if f, ok := auxCmds[name]; ok {
		f(os.Args[2:])
		return
	}
	c, ok := checks[name]
	if !ok {
		usage()
	}
	if len(os.Args) > 2 && (os.Args[2] == "quick" || os.Args[2] == "thorough") {
		os.Setenv("VERIF_TIER", os.Args[2])
	}
	r := fw.NewRun(name, c.level)
	func() {
		defer func() {
			if e := recover(); e != nil {
				// a crash of the harness itself is never a verdict about gomacro
				r.Inconclusive(fmt.Sprintf("harness panic: %v", e))
				panic(e)
			}
		}()
		c.fn(r)
	}()
	r.Finish()
}

func usage() {
	names := []string{}
	for k := range checks {
		names = append(names, k)
	}
	sort.Strings(names)
	fmt.Fprintf(os.Stderr, "usage: gmverif <property> [quick|thorough] [--replay file]\nproperties: %v\n", names)
	os.Exit(2)
}
